From FP Require Import Lexer Parser ShowPT Digest Formatter.
From Coq Require Import String List NArith.
Import ListNotations.
Open Scope string_scope.
Set Printing Width 100000000.
Set Printing Depth 100000000.
Definition show_fres (r : fres) : string :=
  match r with
  | FOk s => "OK:" ++ sh_escaped s ""
  | FErr s => "ERR:" ++ sh_escaped s ""
  | FPanic p => "PANIC:" ++ p
  end.
Definition check (rs : list rune) : string := digest (show_fres (format_res rs)).
Definition full (rs : list rune) : string := show_fres (format_res rs).
Eval vm_compute in ("<<<M4236>>>" ++ check (runes_of_ascii "

  options
{
StringPrefixLenType // c2
	= 	 // c3a
    // c3b
u8	// c4

  ;ArrayPrefixLenType  // c6a

  // c6b
		=// c7a
  // c7b
  	u8 
	// c8
;  // c9a
      // c9b
    FixedStringPadFromLeft	// c10

  =  // c11
      true	// c12
;
// c13
		FixedStringPadChar 
      // c14
  = // c15a
	// c15b
	' '	// c16
  ; 
    // c17
	  } 
      // c18
	packet	Logout	// c20
  	{
repeat  // c22a
  // c22b
	string  
  // c23
Px
,	// c25a
    // c25b
repeat

// c26
string
	// c27
	seqNo
    // c28

	, // c29a
// c29b
  InMsgkind64 {// c31a
	// c31b
	uint16 OrderId
    , // c34
	char[] 
	    // c35
	count	, // c37a
  // c37b
    repeat// c38
	i32 // c39a
	// c39b
	venue  ,
    }	// c42
      , 	 // c43a
	// c43b
  	} packet Heartbeat  {// c47

float32  // c48
	tag7
        // c49
  , // c50
  repeat  // c51
	InPrice50

    { repeat// c54
	char[// c55a

// c55b

	5 ] // c57a
// c57b
	lastPx// c58
		, // c59
		InRef42
    // c60
    {  // c61
	u8

pad0  // c63a
// c63b

	,// c64a

  // c64b
		}  // c65a
  // c65b
		,  uint32 // c67a
	// c67b

  Acct 	 // c68a
		// c68b
    	,// c69a
  	// c69b
	repeat  // c70
Logout 
	// c71

  , repeat  // c73
    char[  
      // c74
	5

] 
    // c76
		Qty // c77a

	// c77b
	,// c78
    }
	// c79
    ,	repeat // c81

	InSeqno30
        // c82
    	{ 	 // c83a
  // c83b
repeat 
        // c84
	Logout 	 // c85
  	, 
// c86
    }, 	 // c88
      @leftPad 	 // c89a
  // c89b

	('0'
    // c91

)
	char[// c93a
	// c93b
12 ]
    // c95
Acct 	 // c96a
// c96b
	, 

    // c97

char[] // c98a

// c98b
	  Side2,	// c100a
      // c100b
  repeat	// c101a

// c101b
  string 	 // c102a
// c102b
msgKind	// c103
  	,// c104

}  // c105
	packet  // c106
	Ack 	 // c107a
    // c107b
    {  // c108
    	Heartbeat	// c109a
  	// c109b
	, 

    // c110
		char[
    // c111
  8 
    // c112
		] 
      // c113
  	seqNo	,
float64
clOrdID
    // c117
	, } 	 // c119a
		// c119b
    packet
Trade

    {

char[]	// c123a
      // c123b
    	OrderId 

// c124
  ,  // c125
f64	// c126a

// c126b
	Side2  // c127
    , 
    // c128
	zchar[ 
	// c129
    8	]
// c131
f1	// c132a
	// c132b
, string

Qty  // c135a
  // c135b
    , // c136
		float64 	 // c137a

  // c137b
    seqNo

,// c139
	repeat  // c140a
		// c140b
    Logout
// c141
    , 	 // c142
	}// c143
    packet
	    // c144

Order 	 // c145
    	{

// c146
		f32
// c147
  OrderId	// c148a
    // c148b
  , repeat	// c150
	u8
x 
,	// c153
		Ack 	 // c154a
    // c154b
		,  // c155
zchar[
	    // c156

	7] // c158a
    // c158b
  Note	, 	 // c160
}

// c161
  root packet // c163
    Logon{ 
      // c165
    @rightPad
( 
'\x00')  // c169a
// c169b
		char[	// c170a
  // c170b
9 
        // c171
	] 
  // c172
  f1
    ,

// c174
    } // c175
")).
Eval vm_compute in ("<<<M4181>>>" ++ check (runes_of_ascii "packet u {
    @leftPad('\x00')
    match pack as Logon {
        """ ++ [28040; 24687]%N ++ runes_of_ascii """ : As,
        ""`tick`"" : asx,
        0 : float,
    },
    // @lengthOf(
    // " ++ [128512]%N ++ runes_of_ascii " emoji
    string trueish @calculatedFrom(""a	b""),// " ++ [27880; 37322]%N ++ runes_of_ascii "
    match matchKey as options1 {
        //x
        /// triple
        00 : lengthOf,
    },
    match roots as Header {
        42 : string_,
        [
            10, ""a\""b"", ""\" ++ [233]%N ++ runes_of_ascii """, ""\" ++ [233]%N ++ runes_of_ascii """, ""CRC32"",
            ""1"", ""it's"", ""abc""
        ] : lengthOf,
        ""CRC32"" : As,
    },
    char[] falsey,//	t
    chars @lengthOf(a1),
    @tag(255)
    @lengthOf(x)
    match metadata as rootA {
        007 : trueish,
        00 : metadata,
        [0123456789] : x_y_z,
        0 : Logon,
    },
    @leftPad('\x00')
    zchar[1] pack `" ++ [233]%N ++ runes_of_ascii "`,
    @leftPad()
    match x_y_z as Z9_ {
        // a // b
        //x
        """ ++ [128512]%N ++ runes_of_ascii """ : leftPad,
    },
    repeat Z9_ `tab	here`,// trailing space 
}

options {
    uint8x = string;
}

MetaData MetaDataX {
    i64_ uint8x,
    zchar[0] float,
    char[] packetx `it's`,
}

root packet crc {
    @tag(1)
    i64_ @calculatedFrom(""" ++ [233]%N ++ runes_of_ascii "t" ++ [233]%N ++ runes_of_ascii """),//x
    @calculatedFrom(""\n"")
    @calculatedFrom(""it's"")
    @calculatedFrom(""a\\"")
    chars uint8x,
    @tag(7)
    match Logon as string_ {
        3 : a1,
        // " ++ [128512]%N ++ runes_of_ascii " emoji
    },
    int16 i64_ `
    `,
    @tag(1)
    falsey T,
}

root packet Foo {
    // trailing space 
    repeat zchar {
        i64_ @calculatedFrom(""" ++ [233]%N ++ runes_of_ascii "t" ++ [233]%N ++ runes_of_ascii """) `line1
        line2`,
        match matchKey as zchar {
            ""1"" : As,
            [0] : f32a,
            [""x y""] : body,
            ""it's"" : _x,
            [007, """ ++ [28040; 24687]%N ++ runes_of_ascii """] : matchKey,
            ""x y"" : x_y_z,
        },
        zchar[7] metadata @lengthOf(_x) `// not a comment`,
        float @lengthOf(matchKey),
    },
    packetx @calculatedFrom(""// no comment""),
    roots @lengthOf(falsey),// " ++ [128512]%N ++ runes_of_ascii " emoji
    u8 calculatedFrom `{ , }`,
    char[10] repeatCount `crlf
    line`,
    @lengthOf(float)
    int16 int `two words`,
    repeat u64 x,
    i8i8 @lengthOf(Packet) `" ++ [28040; 24687; 31867; 22411]%N ++ runes_of_ascii "`,
}")).
Eval vm_compute in ("<<<M869>>>" ++ check (runes_of_ascii "// trailing space 
root packet options1
{
match u8x as tag {1 :As } ,
// packet A { u8 x, }
// `tick` ""quote"" 'q'
} // " ++ [128512]%N ++ runes_of_ascii " emoji
root  packet
// " ++ [27880; 37322]%N ++ runes_of_ascii "
// " ++ [27880; 37322]%N ++ runes_of_ascii "
roots
{MetaDataX
@calculatedFrom(""abc""
)// " ++ [128512]%N ++ runes_of_ascii " emoji
, //
repeat zchar uint8x
,
u8x
roots
,// packet A { u8 x, }
a1	`u8 x,`
, float32 int@lengthOf( metadata ) `a\`, match
    charz as i8i8
    { 42	:Pad [  10  ,
    ""1"" ] // `tick` ""quote"" 'q'
:  pack}
    // packet A { u8 x, }
    , repeat // c
Header
// a // b
//x
, } packet repeatCount {
    @lengthOf( metadata)@calculatedFrom( ""CRC32""
    )@lengthOf(
// c
// " ++ [27880; 37322]%N ++ runes_of_ascii "
x_y_z )
    As @lengthOf(
    u128 ), @calculatedFrom(
    ""a	b""
) // " ++ [27880; 37322]%N ++ runes_of_ascii "
o {  A@calculatedFrom( ""CRC32""
)
`it's` , body`{ , }` , }, @calculatedFrom(""packet""
    )
    @lengthOf( A
) @tag( 255 ) repeat BodyLength trueish ,  u
{ Pad{ string repeatCount ``/// triple
, } ,
}
    ,@tag(
    4294967296
)@tag(
10 )repeat zchar tag
,repeat crc {repeat tag	T // " ++ [27880; 37322]%N ++ runes_of_ascii "
`" ++ [28040; 24687; 31867; 22411]%N ++ runes_of_ascii "`
    , //
match
    // " ++ [128512]%N ++ runes_of_ascii " emoji
    matchKey as crc {
4294967296 /// triple
: tag, """ ++ [128512]%N ++ runes_of_ascii """
: // @lengthOf(
Packet 65535: uint8x ,}// @lengthOf(
,
pack { f32 zchar @calculatedFrom( ""abc"" )
,} , match zchar as// @lengthOf(
options1
{
//
// @lengthOf(
0123456789	:x 007  : repeatCount
[ ""packet""
    //x
    ,0123456789
,
    ""// no comment"",
""x y"" ]
// @lengthOf(
// " ++ [128512]%N ++ runes_of_ascii " emoji
:
Header	, 3: MetaDataX	""// no comment""
:
    len  ,  [  0 ] :
    //x
    Header ,} ,
} ,
repeat f32a {repeat
    Header  , // " ++ [27880; 37322]%N ++ runes_of_ascii "
calculatedFrom
{ a1 {leftPad
`say ""hi""` ,
    zchar[ 255 ]//x
f32a //
@calculatedFrom(
""\n"" ) `// not a comment` ,  Foo @lengthOf(o ) //
`" ++ [233]%N ++ runes_of_ascii "` , } , }	,},} 	 ")).
Eval vm_compute in ("<<<M588>>>" ++ check (runes_of_ascii "MetaData stringy { } packet Packet
//	t
// c
{ char[007  ] o @calculatedFrom(""1"" ) //	t
, // @lengthOf(
}  packet
    o{ u128	{
u8 crc  , zchar[	1
    ] _x
@lengthOf(  Z9_ )
    /// triple
    `doc`
,
    char[ 7 ]
    falsey , }
, @lengthOf( int) match	chars
    as
asx
{
[ 255
]	: x_y_z , 255 : o 0123456789 :
a1, ""// no comment"" :
    trueish, }, } packet Z9_	{	@rightPad ( '0')@tag(	00 ) f32
uint8x @calculatedFrom( //	t
""" ++ [128512]%N ++ runes_of_ascii """ ) , } packet leftPad {
match
roots as trueish { [""{,}""
,0 // " ++ [128512]%N ++ runes_of_ascii " emoji
] : BodyLength, 65535 : As 65535 :zchar ,
3:rootA , 255 : x_y_z ,
} , @leftPad() float32	x_y_z	, repeat T
{ u128 @calculatedFrom(
""CRC32"" ) , char[]
    tag @lengthOf(MetaDataX)
,  float  rootA,
Foo @calculatedFrom(
    ""packet""
) , }
// `tick` ""quote"" 'q'
//x
, match x
as msg_type {
    3
:
u
} ,@lengthOf( tag
/// triple
/// triple
)
string  a1,@rightPad( '0'
    ) @tag(
// a // b
// a // b
7 ) match
Logon
// a // b
//	t
as
    /// triple
    falsey
    {
""CRC32"" // c
:
    // " ++ [27880; 37322]%N ++ runes_of_ascii "
    x//
,4294967296
: Header,""// no comment""
    // " ++ [128512]%N ++ runes_of_ascii " emoji
    :
    charz 00:// trailing space 
u128
} , @calculatedFrom(
""a\""b"" ) @calculatedFrom(""a\""b"") @tag(
    // " ++ [128512]%N ++ runes_of_ascii " emoji
    42
    //x
    )	repeat zchar[  00
] falsey	,
    // " ++ [27880; 37322]%N ++ runes_of_ascii "
    @tag(// a // b
4294967296 ) @calculatedFrom( ""abc""
    )@rightPad( ' '
    ) crc @calculatedFrom( ""\" ++ [233]%N ++ runes_of_ascii """ // " ++ [128512]%N ++ runes_of_ascii " emoji
)
,
    u16 metadata , }
")).
Eval vm_compute in ("<<<M1269>>>" ++ check (runes_of_ascii "packet a1{ repeat uint8x { zchar[
    3 ]metadata@lengthOf(  chars ) `it's`
, u8 packetx @calculatedFrom(""CRC32"" ) `two words`, repeat leftPad {
match MetaDataX as
    f32a{ [4294967296
]
: packetx, 255
: As ,
[ ""\n"",""\" ++ [233]%N ++ runes_of_ascii """ ,
    007, """ ++ [128512]%N ++ runes_of_ascii """ , 7 ] :float
, 0123456789 : /// triple
u128  ""a\""b"": calculatedFrom ,
    } ,
match len	as u { [ 42 , 4294967296 ] : a1 , ""it's""
    :rootA,7:
lengthOf ,	""`tick`"" :rootA,
4294967296	: calculatedFrom , }, repeat string MetaDataX `it's`
, } , uint16 uint8x , } ,	string_ @lengthOf( u ) ,
zchar[	0123456789 ]
pack @calculatedFrom( """"/// triple
) `u8 x,` , @lengthOf(
    x_y_z ) @lengthOf( u128
)
@tag( 007)zchar[
10 ]
    _x `doc`	, string BodyLength ,
// `tick` ""quote"" 'q'
// `tick` ""quote"" 'q'
i64
msg_type
`u8 x,`
, f64 Pad`say ""hi""`
, string
// c
//x
float , f64 lengthOf @calculatedFrom( """ ++ [28040; 24687]%N ++ runes_of_ascii """ ),// " ++ [128512]%N ++ runes_of_ascii " emoji
}options { // packet A { u8 x, }
matchKey =
    f32 ;}
packet Foo {repeat
T // packet A { u8 x, }
,repeat string_ { i16 uint8x
,	} // a // b
, repeat falsey A`doc` , repeat	lengthOf
    /// triple
    i8i8
    `tab	here`,
repeat char[
    10	]  x_y_z //
``, //	t
@leftPad ( ) @rightPad (
) options1 `doc`
,
u32 packetx,	u8	float `crlf
line` ,
    } packet	tag {
}
// " ++ [128512]%N ++ runes_of_ascii " emoji
")).
Eval vm_compute in ("<<<M4167>>>" ++ check (runes_of_ascii "root packet msg_type {
    u128,
    @calculatedFrom(""" ++ [233]%N ++ runes_of_ascii "t" ++ [233]%N ++ runes_of_ascii """)
    repeat char[3] metadata `crlf
    line`,
    char[255] Pad,
    asx @calculatedFrom(""packet""),
    repeat stringy `tab	here`,
    //x
    //	t
    repeat As `two words`,
    @leftPad('\x00')
    repeat matchKey `a\`,
    @rightPad(' ')
    repeat Pad {
        repeat u,
        // trailing space 
        // packet A { u8 x, }
        repeat char[] uint8x,
    },
    u128 {
        repeat As `u8 x,`,
        pack msg_type,
        uint32 lengthOf @calculatedFrom(""1""),
        match roots as x {
            ""{,}"" : Pad,
        },
    },
}

root packet tag {
    string pack,
}

root packet u8x {
    string pack `doc`,
    @lengthOf(options1)
    f32 matchKey @calculatedFrom(""`tick`"") `two words`,
    @leftPad('\x00')
    @lengthOf(Packet)
    @tag(007)
    int32 Pad @calculatedFrom(""a\\""),
    @calculatedFrom("""")
    string a1 @lengthOf(metadata),
    match u128 as Foo {
        [""`tick`""] : msg_type,
        10 : msg_type,
        00 : len,
        ""`tick`"" : _x,
        1 : repeatCount,
        [1, 1] : pack,
    },
    @leftPad()
    float64 pack `
    `,
}")).
Eval vm_compute in ("<<<M610>>>" ++ check (runes_of_ascii "
packet  Packet { }
// @lengthOf(
// packet A { u8 x, }
packet f32a{ f32 zchar @calculatedFrom( ""\n"" ) ,
match
    float
    as
stringy { ""1"" :
    options1
""x y"" : pack
, [
// " ++ [27880; 37322]%N ++ runes_of_ascii "
//	t
""`tick`""
,
""a\""b"",
""// no comment"" ,
// @lengthOf(
/// triple
7,
""1"" ] : leftPad , 007	:
    Packet""" ++ [28040; 24687]%N ++ runes_of_ascii """/// triple
:
    x_y_z
    , //x
},
@rightPad (
)
repeat zchar[ 255] u8x`it's` // " ++ [27880; 37322]%N ++ runes_of_ascii "
, @calculatedFrom(  ""abc"" // @lengthOf(
) match	float as uint8x { ""\n"" :len , [1 ]
: crc[
    ""packet"" , 0123456789
, ""\n""
    // trailing space 
    ] : asx , """": calculatedFrom
""\" ++ [233]%N ++ runes_of_ascii """ :
    roots,
    } ,	trueish
    , @lengthOf(
    i8i8
)string// @lengthOf(
body `doc`, @lengthOf(
    // a // b
    o ) u32 u , @leftPad
    (	'0' ) match	zchar	as lengthOf {// `tick` ""quote"" 'q'
007 // trailing space 
:  leftPad , } , }packet BodyLength{ a1
{	repeat
    char[] calculatedFrom , }
    , @calculatedFrom(  ""1"" ) repeat
roots `" ++ [233]%N ++ runes_of_ascii "`,
@lengthOf( u128 )
    _x  , match a1 as Logon
    { 1: len , // a // b
} ,
@calculatedFrom(""packet"" ) charz x `tab	here`
,
    i64
    matchKey ,
//x
/// triple
}")).
Eval vm_compute in ("<<<M3819>>>" ++ check (runes_of_ascii "packet Header {
    msg_type @lengthOf(leftPad),
    @calculatedFrom(""x y"")
    int16 A @calculatedFrom(""" ++ [233]%N ++ runes_of_ascii "t" ++ [233]%N ++ runes_of_ascii """),
    @calculatedFrom(""packet"")
    metadata @lengthOf(leftPad),
    match len as pack {
        7 : a1,
        10 : uint8x,
        ""`tick`"" : options1,
        00 : repeatCount,
    },
    @rightPad('\x00')
    @tag(10)
    @tag(7)
    repeat char[42] As `two words`,
    @tag(65535)
    zchar @lengthOf(body) `" ++ [28040; 24687; 31867; 22411]%N ++ runes_of_ascii "`,
    @tag(255)
    // packet A { u8 x, }
    repeat Packet {
        repeat char falsey `two words`,
        repeat T {
            char[] chars,
            repeat f32a {
                // packet A { u8 x, }
                repeat char[] falsey `tab	here`,
            },
        },
        match u8x as pack {
            [1, ""{,}"", ""\" ++ [233]%N ++ runes_of_ascii """, ""a	b"", ""\n""] : int,
            ""x y"" : A,
            ""CRC32"" : leftPad,
        },//x
        f32a x,
    },
}

packet charz {
    repeat lengthOf lengthOf,
}

options {
    body = true;
    metadata = 4294967296;
    len = uint32;
}// @lengthOf(")).
Eval vm_compute in ("<<<M3604>>>" ++ check (runes_of_ascii "packet options1 {
    body int `" ++ [28040; 24687; 31867; 22411]%N ++ runes_of_ascii "`,
}

MetaData T {
    leftPad charz,
    o roots,
}

packet float {
    @lengthOf(x_y_z)
    repeat i8 calculatedFrom `" ++ [233]%N ++ runes_of_ascii "`,
    repeat stringy `
        `,
    @tag(007)
    @rightPad(' ')
    f32a @lengthOf(len),
    @lengthOf(u8x)
    match chars as metadata {
        ""x y"" : matchKey,
        // trailing space 
        ""a\""b"" : zchar,
        [4294967296, ""a\\""] : calculatedFrom,
        1 : T,
        7 : i8i8,
    },
    u128 tag `" ++ [233]%N ++ runes_of_ascii "`,
    T @calculatedFrom(""{,}"") `doc`,
}

packet uint8x {
}

root packet zchar {
    @tag(1)
    match packetx as calculatedFrom {
        007 : chars,
        """ ++ [128512]%N ++ runes_of_ascii """ : crc,
        ""a	b"" : Foo,
        42 : u8x,
        [""\" ++ [233]%N ++ runes_of_ascii """] : u8x,
        [1, 00, ""it's"", ""1"", ""\n""] : MetaDataX,
    },
    @tag(00)
    char x,
    @leftPad('\x00')
    @calculatedFrom(""" ++ [28040; 24687]%N ++ runes_of_ascii """)
    @lengthOf(repeatCount)
    u128 falsey `doc`,// c
    falsey @calculatedFrom(""""),
    float64 Logon @calculatedFrom(""" ++ [28040; 24687]%N ++ runes_of_ascii """) `it's`,
}")).
Eval vm_compute in ("<<<M1190>>>" ++ check (runes_of_ascii "packet
    // a // b
    leftPad{ matchKey crc ,
@lengthOf( u128
) repeat char[ 007
    ]a1 `
`
,
repeat// " ++ [128512]%N ++ runes_of_ascii " emoji
Z9_ _x ,@tag(
42	)@lengthOf( body)@lengthOf( uint8x
    )
repeat
As{matchKey , lengthOf@calculatedFrom(
    // packet A { u8 x, }
    ""it's""
    ) , repeat zchar[
255
]
body
, char[] u
    @lengthOf( A )
    , }, @leftPad(
    '0'
    ) string body // @lengthOf(
`// not a comment` , }packet x_y_z  { } root packet
T{repeat char[ 3] Logon
    // trailing space 
    , //x
float	@lengthOf(
    roots)
`{ , }` ,_x T // " ++ [128512]%N ++ runes_of_ascii " emoji
`` , }packet Pad {
@calculatedFrom(""packet"") u16 repeatCount @calculatedFrom( """ ++ [233]%N ++ runes_of_ascii "t" ++ [233]%N ++ runes_of_ascii """ )`// not a comment`
,
@tag( 3 )
    zchar[ 4294967296
]	repeatCount
    ,
    } MetaData body {// packet A { u8 x, }
u32
matchKey , T
repeatCount // " ++ [128512]%N ++ runes_of_ascii " emoji
`
` , char[ // c
007
    // trailing space 
    ]
tag, i8i8 // " ++ [128512]%N ++ runes_of_ascii " emoji
asx, int u8x
, int32
Logon	`say ""hi""` // " ++ [128512]%N ++ runes_of_ascii " emoji
, }")).
Eval vm_compute in ("<<<M3504>>>" ++ check (runes_of_ascii "options {
    LittleEndian = true;
    StringPrefixLenType = u32;
    FixedStringPadChar = '0';
}
packet Logout {
    repeat InMsgkind49 {
        u8 pad0,
    },
    repeat char[5] seqNo,
    repeat u8 price,
}
packet Party {
    zchar[7] Qty,
}
packet Logon {
    repeat InRef10 {
        string price,
        char[] sym,
        repeat Logout,
    },
    repeat char[3] count,
    repeat Party,
    char[] tag7,
    @rightPad('0') char[2] clOrdID,
}
packet Order {
    InTail13 {
        Party,
    },
    repeat char[4] count,
}
root packet Cancel {
    Logout,
    @leftPad('0') char[9] msgKind,
    string lastPx,
    string tag7,
    zchar[1] OrderId,
    repeat Party,
    u16 sym,
    u16 Acct @lengthOf(Body),
    match sym as Body {
        [24, 44] : Logout,
        160 : Order,
        91 : Logon,
        43 : Party,
    },
    u16 Tail @calculatedFrom(""CR\
C32""),
}
")).
Eval vm_compute in ("<<<M882>>>" ++ check (runes_of_ascii "packet chars
{
    @leftPad	( '0'
    ) char[]
MetaDataX
@lengthOf(
Foo
) , @lengthOf(
    chars
)repeat
    BodyLength
    // `tick` ""quote"" 'q'
    ,	@lengthOf(MetaDataX  ) @lengthOf( A ) uint8x// trailing space 
{ u16 Pad @lengthOf(
// a // b
/// triple
charz ) `line1
line2`, i64_
{ match
    i8i8/// triple
as i8i8  {	7 :calculatedFrom 255 :
x_y_z
,
    0123456789
    : rootA""packet"" : string_ , 0123456789:  chars
,	}
//x
// " ++ [27880; 37322]%N ++ runes_of_ascii "
, } , } ,	zchar[3] Header	`two words` , i32 o , @tag(
4294967296)	pack
    ``
    ,
    repeatCount {
i8 // " ++ [128512]%N ++ runes_of_ascii " emoji
i64_ `
`	, asx
i64_ , crc { repeat zchar[
    255 ] repeatCount // c
,repeat uint8 Packet,
char
leftPad
// packet A { u8 x, }
// `tick` ""quote"" 'q'
, uint32 lengthOf	@lengthOf( charz ) , } /// triple
,
},
leftPad `` , repeat int16
Pad
    //x
    ,
repeat u matchKey, }
")).
Eval vm_compute in ("<<<M846>>>" ++ check (runes_of_ascii "// " ++ [128512]%N ++ runes_of_ascii " emoji
options
{ }// a // b
packet/// triple
a1  {char[ 10]
//	t
// " ++ [128512]%N ++ runes_of_ascii " emoji
msg_type @calculatedFrom(
""packet"" )
    `u8 x,`
,	crc
{ float x
,repeat i32 MetaDataX,}
    , @calculatedFrom(
""// no comment"" )//x
repeat float
matchKey
`" ++ [233]%N ++ runes_of_ascii "` ,// `tick` ""quote"" 'q'
match	lengthOf
    as asx { [
    //x
    1,
    1
    ]
: x_y_z , }
,
    @lengthOf(
tag )
repeat f32 //x
A `tab	here` , @calculatedFrom(	""x y"" ) match
u128 as rootA { 3 : pack , [ ""CRC32"", ""1"" , ""CRC32"" , 7,
""`tick`"" ,
""a\\"" ,""{,}""
, 65535
] :	repeatCount ,
3 : f32a
,
007 : falsey ""// no comment"" :Header 00 :Foo,}
, repeat string falsey , @lengthOf( string_
)// a // b
stringy, @rightPad	( )@rightPad ( // c
' '
    ) @leftPad
// `tick` ""quote"" 'q'
// " ++ [128512]%N ++ runes_of_ascii " emoji
(
) repeatCount,	@rightPad ( ) // " ++ [27880; 37322]%N ++ runes_of_ascii "
repeat trueish	,}
// c
")).
Eval vm_compute in ("<<<M3720>>>" ++ check (runes_of_ascii "

  // top
	MetaData
    // c0
x_y_z 
    // c1
	{ 
  // c2

char 
// c3
    body 
// c4
  ,
// c5
f64
    // c6
	i8i8
    // c7
	`two words` 
      // c8
  , 
        // c9
	body 
// c10
		body 
        // c11
	  `" ++ [28040; 24687; 31867; 22411]%N ++ runes_of_ascii "` 
	    // c12
  ,
	    // c13
	} 
	    // c14
root
        // c15
  packet 
    // c16
    	chars  
      // c17

{
	// c18

@lengthOf( 

    // c19
	i64_
        // c20
  )
        // c21
  	chars
        // c22
	, 
// c23
i8i8 
    // c24
	{  
      // c25
falsey 
  // c26
@lengthOf(

    // c27
  stringy

    // c28
)

    // c29
	`doc`
    // c30
,  
      // c31
    }
	// c32
,
// c33
x
	// c34
	@lengthOf( 
    // c35
	A 
    // c36
)
    // c37
  `crlf
line`
	    // c38
	, 
    // c39
  }
// c40")).
Eval vm_compute in ("<<<M4205>>>" ++ check (runes_of_ascii "
// a // b
  packet matchKey{ @rightPad
	( 	 // c

	' ' 	 // trailing space 
	)@tag(	007)

    @lengthOf(float) repeat
	packetx

    ,
    // @lengthOf(
  @calculatedFrom(""a\""b""
)  /// triple

@tag( 
255
	) @tag(  00)
	Pad
@calculatedFrom( 
""" ++ [28040; 24687]%N ++ runes_of_ascii """ )
`{ , }` ,	}
    root packet	string_{repeat

Logon  
  //
  	//x

{

    match
	Z9_	as
float {""packet""
	:  packetx
	,
    [
""CRC32"" , 42 	 // a // b
    , 00
// `tick` ""quote"" 'q'
  	, 
""packet""  //
    ]
    :
Foo,  """ ++ [28040; 24687]%N ++ runes_of_ascii """ :BodyLength
,

[
""CRC32""
]
:  x_y_z

    ,
	00
    :  packetx ,7
	:
	rootA ,

    }  ,
	} , repeat
    // c
    metadata
{u16
Logon  `
` , matchKey@calculatedFrom( """"  //	t
      )

    , repeat 	 // c

	char[] leftPad ,
	} 
,
}

")).
Eval vm_compute in ("<<<M942>>>" ++ check (runes_of_ascii "MetaData
    body
    {
i64 msg_type ,
// trailing space 
/// triple
} packet MetaDataX {	zchar[65535 ] As @lengthOf(
    matchKey ) `{ , }`,}packet Pad { match
//x
// c
chars as // @lengthOf(
matchKey
    //	t
    { 0123456789 :MetaDataX , 0123456789
    :
i8i8 ,[
"""",
    // packet A { u8 x, }
    1 ,  ""x y"" /// triple
, ""// no comment"" ,
3
,
//x
// c
""// no comment"" ,  ""a\""b"" ,
    65535 ]
    :  As ,
    //x
    [
255
, ""1"" , 0, ""packet""]
: float , ""{,}"" : stringy , ""`tick`"" :
    Logon,
} ,
    repeat
    //	t
    Z9_ _x , @leftPad('\x00' )
/// triple
// " ++ [27880; 37322]%N ++ runes_of_ascii "
uint8 charz`// not a comment`
, //x
@tag(// " ++ [27880; 37322]%N ++ runes_of_ascii "
0123456789
) @rightPad ( '\x00' )
@tag(
1 )	stringy	,
    }")).
Eval vm_compute in ("<<<M3261>>>" ++ check (runes_of_ascii "// top
MetaData
    // c0
x_y_z
    // c1
{
    // c2
char
    // c3
body
    // c4
,
    // c5
f64
    // c6
i8i8
    // c7
`two words`
    // c8
,
    // c9
body
    // c10
body
    // c11
`" ++ [28040; 24687; 31867; 22411]%N ++ runes_of_ascii "`
    // c12
,
    // c13
}
    // c14
root
    // c15
packet
    // c16
chars
    // c17
{
    // c18
@lengthOf(
    // c19
i64_
    // c20
)
    // c21
chars
    // c22
,
    // c23
i8i8
    // c24
{
    // c25
falsey
    // c26
@lengthOf(
    // c27
stringy
    // c28
)
    // c29
`doc`
    // c30
,
    // c31
}
    // c32
,
    // c33
x
    // c34
@lengthOf(
    // c35
A
    // c36
)
    // c37
`crlf
line`
    // c38
,
    // c39
}
    // c40
")).
Eval vm_compute in ("<<<M1000>>>" ++ check (runes_of_ascii "MetaData rootA
{u64
trueish	, metadata calculatedFrom// @lengthOf(
,
// " ++ [128512]%N ++ runes_of_ascii " emoji
// `tick` ""quote"" 'q'
u8
u128 ,
    chars  pack ,
    zchar lengthOf `line1
line2` ,
}root packet //	t
len{ @lengthOf( trueish)
i8 Z9_
`" ++ [28040; 24687; 31867; 22411]%N ++ runes_of_ascii "` , @leftPad
(
)
    match
zchar // " ++ [27880; 37322]%N ++ runes_of_ascii "
as trueish {00:As,""" ++ [128512]%N ++ runes_of_ascii """
    : o
    ,
[ 42 ] : a1
// `tick` ""quote"" 'q'
// `tick` ""quote"" 'q'
,
10// trailing space 
: len } , repeat As , @leftPad (	'0' )
int32 calculatedFrom ,
repeat Header  ,
    @rightPad
//
// " ++ [27880; 37322]%N ++ runes_of_ascii "
(' ') // packet A { u8 x, }
calculatedFrom	repeatCount,
    msg_type @lengthOf( // c
T ) ,
    }
    packet calculatedFrom
    { }

")).
Eval vm_compute in ("<<<M3533>>>" ++ check (runes_of_ascii "

  options {
LittleEndian

    =
    true  ;	FixedStringPadFromLeft

=	true  ;
    FixedStringPadChar
	='0' 
;}
    packet
    Trade{	string

clOrdID ,char[]Px
, u32
x
, 
} 
packet  Reject  { int32
	Side2 ,

repeat

    char[
3

    ]clOrdID

,i32
tag7
    ,

}packet
    Leg {
}
root packet	Quote
{  string 
Side2 ,
string
lastPx,
InSym58 {int16

OrderId ,  Reject 
, 
i8 Qty

    , i64 venue ,
f32
Note ,
}
    , char[] count ,
zchar[
    9  ] price
    , u16
Qty

, match
Qty as 
Body {69

: Leg , 48:

Trade	, 51 :  Reject,},u16
	Acct
	@calculatedFrom( ""CRC32"")  , }")).
Eval vm_compute in ("<<<M4387>>>" ++ check (runes_of_ascii "options	{ }  // " ++ [27880; 37322]%N ++ runes_of_ascii "
    	root
packet
leftPad {
match 
T

    as

    u8x{	// trailing space 

4294967296 

    // packet A { u8 x, }
  //x

  :
Logon

,""1"": i8i8

    ,

    0123456789
    :
tag,
""a\""b""	// @lengthOf(

:	//x
  options1
,	4294967296 :
T
    } ,repeat
matchKey
{

    repeat

string
    rootA
    , repeat 
    // @lengthOf(
	  int64  zchar

`
` 
,
	}

    , i32  x_y_z

, zchar[
    007
]  packetx 
`it's`
,
    // a // b
	  // `tick` ""quote"" 'q'
    repeat 
// " ++ [128512]%N ++ runes_of_ascii " emoji
    zchar[

255 ]	falsey
    ,

}	// " ++ [27880; 37322]%N ++ runes_of_ascii "
")).
Eval vm_compute in ("<<<M1347>>>" ++ check (runes_of_ascii "packet Packet{
    //x
    int64 u128 @calculatedFrom(	""it's"" )
,
// trailing space 
// @lengthOf(
@lengthOf( _x )
@leftPad (
) match rootA  as
calculatedFrom{	""1"" :leftPad ,[
    42 , """ ++ [128512]%N ++ runes_of_ascii """ ] :pack[ ""it's"",
3
//x
// `tick` ""quote"" 'q'
, """", """ ++ [128512]%N ++ runes_of_ascii """
] : As
, } , char[
0
    //
    ] matchKey `" ++ [233]%N ++ runes_of_ascii "` , u64 lengthOf ,
@lengthOf( zchar ) // c
char[ 7
// " ++ [27880; 37322]%N ++ runes_of_ascii "
//
]
rootA
@lengthOf( u ),  }MetaData int { u16 // @lengthOf(
Pad , }	packet stringy {zchar[// `tick` ""quote"" 'q'
1 ] msg_type`tab	here` , //	t
} options { x = 00
    }")).
Eval vm_compute in ("<<<M815>>>" ++ check (runes_of_ascii "root packet o { options1 repeatCount,
zchar[ 0 ]_x , @tag( 4294967296
) char[]
    options1`doc`
    , i64_ , u16 len`two words`	,	match
pack as u{ 10 :
a1
,} ,
@calculatedFrom( ""abc""
) repeat int int
`// not a comment`,repeat chars	{
    lengthOf tag `" ++ [233]%N ++ runes_of_ascii "` , repeat x { repeat uint8 matchKey ``
, //x
string// trailing space 
roots //	t
`two words`	,int64 len @lengthOf(  Header ) ,}
,repeat char[]
// `tick` ""quote"" 'q'
// " ++ [128512]%N ++ runes_of_ascii " emoji
Z9_
`tab	here`	,
}
    ,
// `tick` ""quote"" 'q'
// c
} //x")).
Eval vm_compute in ("<<<M459>>>" ++ check (runes_of_ascii "packet o{
    @rightPad(  '0'
    ) @tag(00 ) uint16 i64_ `two words` , //	t
As `{ , }` , }//	t
packet len {
lengthOf`crlf
line` , metadata ,i32
    float ,int16 msg_type `" ++ [233]%N ++ runes_of_ascii "` , zchar[ 007 ]
float `line1
line2` ,  char[] // c
falsey ,
    @rightPad/// triple
(' '
) roots stringy`" ++ [233]%N ++ runes_of_ascii "`
,	@calculatedFrom(
    // trailing space 
    """") zchar[ 42 ] trueish , @tag(
1) f32
    // @lengthOf(
    x ,} options
{ A =
    ""abc""
// packet A { u8 x, }
// " ++ [27880; 37322]%N ++ runes_of_ascii "
;
    Packet =42
}")).
Eval vm_compute in ("<<<M3919>>>" ++ check (runes_of_ascii "packet u128 {
    @rightPad()
    @tag(7)
    stringy body,
}// packet A { u8 x, }

root packet i64_ {
}

packet falsey {
    float @lengthOf(_x) `" ++ [233]%N ++ runes_of_ascii "`,
    i32 a1,
    u {
        //	t
        string crc,
    },
    @leftPad()
    repeat options1 {
        calculatedFrom @calculatedFrom(""it's"") `{ , }`,
        zchar falsey `u8 x,`,
        repeat falsey,
    },
}

root packet pack {
    @tag(0123456789)
    // @lengthOf(
    repeat uint32 roots,
}")).
Eval vm_compute in ("<<<M3567>>>" ++ check (runes_of_ascii "root packet Pad {
    @leftPad('\x00')
    @leftPad(' ')
    calculatedFrom rootA `it's`,
    T `line1
        line2`,
    match pack as int {
        //
        0 : x_y_z,
        [
            0, 10, 65535, 7, ""1"",
            """ ++ [128512]%N ++ runes_of_ascii """, ""CRC32""
        ] : string_,
        [255, ""abc"", ""CRC32"", ""abc""] : i8i8,
        10 : Z9_,
    },
}

options {
}

MetaData T {
    u uint8x,
    string_ _x,
    uint16 body `doc`,
    uint32 tag `a\`,
}")).
Eval vm_compute in ("<<<M621>>>" ++ check (runes_of_ascii "packet As {@calculatedFrom( """ ++ [28040; 24687]%N ++ runes_of_ascii """
    ) repeat float { BodyLength chars `doc`
,
    }
, repeat char[ 255 ]packetx , string
    rootA `line1
line2` , uint8 i64_ `line1
line2` ,
@lengthOf(_x )// trailing space 
BodyLength
, stringy{
    /// triple
    repeat zchar[  0123456789
] i8i8 , //
} ,
match
f32a
as
u128
    { [
    ""// no comment"" // trailing space 
, ""a\""b"" ] :o ,
""" ++ [128512]%N ++ runes_of_ascii """:	a1 , }
, repeat
    charz zchar
    , }
")).
Eval vm_compute in ("<<<M1209>>>" ++ check (runes_of_ascii "root
packet Packet{// " ++ [27880; 37322]%N ++ runes_of_ascii "
@tag( 255 ) @tag( 4294967296 ) match options1 as matchKey { ""CRC32"" :	crc
, } , @tag( 00 )
    trueish	,
repeat lengthOf ,
@tag(
    42
)
    zchar[ 4294967296 ] Logon@lengthOf(	i64_ )`doc`
,
} packet string_// trailing space 
{ @tag( 4294967296
    // a // b
    )
    repeat zchar[65535
    ] options1
`// not a comment`, float32 Packet	@lengthOf(u ) ,
    int8	Foo
, }
")).
Eval vm_compute in ("<<<M4076>>>" ++ check (runes_of_ascii "root

    packet BodyLength
{@rightPad	( '\x00'
)
repeat char[]len
    `" ++ [233]%N ++ runes_of_ascii "`	,
    int32  lengthOf
``  //x

,

}
root
    packet	matchKey{ 
repeat string
u8x `line1
line2`
,
	Header  // @lengthOf(
{
u128
    T	, 	 // trailing space 
	}	,
	} packet 
uint8x

    { @lengthOf(
Header

    )a1 @calculatedFrom(

"""" 
) 
	    // `tick` ""quote"" 'q'

`" ++ [233]%N ++ runes_of_ascii "` , 
    //
// " ++ [128512]%N ++ runes_of_ascii " emoji
	  } ")).
Eval vm_compute in ("<<<M3574>>>" ++ check (runes_of_ascii "
// top
  packet // c0a
  // c0b
  o// c1
	{ 	 // c2a
	// c2b
  @tag(	// c3a

  // c3b
  42	// c4a
	// c4b
  ) 
    // c5
repeat 
	// c6
    x{char[ // c9a
  // c9b
	0123456789	// c10
      ]  // c11a

  // c11b
  i64_	// c12a
  // c12b
    ,  
      // c13
  }, 
        // c15
}
options 	 // c17a
// c17b
  { // c18a

  // c18b
    	}  // c19a
    // c19b
")).
Eval vm_compute in ("<<<M3607>>>" ++ check (runes_of_ascii "
root 
	    // trailing space 
  packet 
  //	t
	//
	trueish
    {
@tag(
    0 
)
@lengthOf(

    float

    ) @lengthOf(
    trueish

)
repeat

uint8
    Logon  `line1
line2`

,char[]

body @lengthOf( 
A
	)

`
`

    , 
	    // " ++ [128512]%N ++ runes_of_ascii " emoji
// c

  repeat
// packet A { u8 x, }
char[00 ]
MetaDataX

,
@leftPad

    ( ) repeat	int8 pack	,
} ")).
Eval vm_compute in ("<<<M495>>>" ++ check (runes_of_ascii "root packet BodyLength{ // " ++ [27880; 37322]%N ++ runes_of_ascii "
repeat metadata msg_type
`" ++ [28040; 24687; 31867; 22411]%N ++ runes_of_ascii "`
, string roots	@calculatedFrom(""\n""
    // a // b
    ) , repeat u8	repeatCount
`" ++ [233]%N ++ runes_of_ascii "`
,
match x  as metadata {
""`tick`"": roots 1 :x_y_z , """ ++ [128512]%N ++ runes_of_ascii """:
Logon	, 7:falsey , }
    , }
packet Header // packet A { u8 x, }
{ crc u,
}
    MetaData Logon { char[ 65535
    ]	lengthOf ,} //")).
Eval vm_compute in ("<<<M64>>>" ++ check (runes_of_ascii "MetaData chars {
char[] // " ++ [128512]%N ++ runes_of_ascii " emoji
As `a\` , } packet repeatCount {repeat
    //x
    charz
{ char[ 00 ]	Pad,
} , @calculatedFrom( ""// no comment"" )
char[] matchKey //x
`doc` ,u64 T@lengthOf(
int
) , }
packet Header /// triple
{  @calculatedFrom(""a\""b"") char[65535 ]
// trailing space 
// `tick` ""quote"" 'q'
falsey , }
")).
Eval vm_compute in ("<<<M1363>>>" ++ check (runes_of_ascii "packet float {	@lengthOf(	pack ) int16 string_ , } options  {
leftPad
// c
/// triple
= true;  x
=	int16 Foo
=
00 string_
    = '\x00'
    ; }root packet Foo {
packetx
@lengthOf(
i8i8 ) `tab	here`
,
int16
A ,
@lengthOf(
// " ++ [128512]%N ++ runes_of_ascii " emoji
//
trueish ) repeat int
zchar `a\`
,}
/// triple
//
MetaData body
{ }
//
")).
Eval vm_compute in ("<<<M4242>>>" ++ check (runes_of_ascii "

  options {
matchKey  =

007 ;
pack

    =
    false ;  // `tick` ""quote"" 'q'
	float= 
int8

    options1	=
char[]
    x_y_z  = 
    //
"""";
}options {Header  =  // " ++ [128512]%N ++ runes_of_ascii " emoji
    float64 	 //
  	; 
pack	// `tick` ""quote"" 'q'
		=
float32 
;
string_=char[

    42  ]

Logon =

00
; } 

    //	t
")).
Eval vm_compute in ("<<<M1540>>>" ++ check (runes_of_ascii "root packet Foo // " ++ [128512]%N ++ runes_of_ascii " emoji
{ } options {
    // a // b
    tag // `tick` ""quote"" 'q'
= //	t
""""
    ; u8x = zchar[0  ] }
MetaData
    int {zchar[ 10]
lengthOf	`` , i64 i64 u8x`// not a comment` ,MetaDataX pack// `tick` ""quote"" 'q'
`crlf
line`
, Logon charz `crlf
line`
    ,
    // a // b
    }
")).
Eval vm_compute in ("<<<M1485>>>" ++ check (runes_of_ascii "root packet Foo // " ++ [128512]%N ++ runes_of_ascii " emoji
{ } options {
    // a // b
    tag // `tick` ""quote"" 'q'
= //	t
""""
    ; u8x = zchar[0  ] ] }
MetaData
    int {zchar[ 10]
lengthOf	`` , i64 u8x`// not a comment` ,MetaDataX pack// `tick` ""quote"" 'q'
`crlf
line`
, Logon charz `crlf
line`
    ,
    // a // b
    }
")).
Eval vm_compute in ("<<<M1416>>>" ++ check (runes_of_ascii "root Foo packet // " ++ [128512]%N ++ runes_of_ascii " emoji
{ } options {
    // a // b
    tag // `tick` ""quote"" 'q'
= //	t
""""
    ; u8x = zchar[0  ] }
MetaData
    int {zchar[ 10]
lengthOf	`` , i64 u8x`// not a comment` ,MetaDataX pack// `tick` ""quote"" 'q'
`crlf
line`
, Logon charz `crlf
line`
    ,
    // a // b
    }
")).
Eval vm_compute in ("<<<M1576>>>" ++ check (runes_of_ascii "root packet Foo // " ++ [128512]%N ++ runes_of_ascii " emoji
{ } options {
    // a // b
    tag // `tick` ""quote"" 'q'
= //	t
""""
    ; u8x = zchar[0  ] }
MetaData
    int {zchar[ 10]
lengthOf	`` , i64 u8x`// not a comment` ,MetaDataX pack// `tick` ""quote"" 'q'
`crlf
line`
Logon , charz `crlf
line`
    ,
    // a // b
    }
")).
Eval vm_compute in ("<<<M1512>>>" ++ check (runes_of_ascii "root packet Foo // " ++ [128512]%N ++ runes_of_ascii " emoji
{ } options {
    // a // b
    tag // `tick` ""quote"" 'q'
= //	t
""""
    ; u8x = zchar[0  ] }
MetaData
    int {true 10]
lengthOf	`` , i64 u8x`// not a comment` ,MetaDataX pack// `tick` ""quote"" 'q'
`crlf
line`
, Logon charz `crlf
line`
    ,
    // a // b
    }
")).
Eval vm_compute in ("<<<M1592>>>" ++ check (runes_of_ascii "root packet Foo // " ++ [128512]%N ++ runes_of_ascii " emoji
{ } options {
    // a // b
    tag // `tick` ""quote"" 'q'
= //	t
""""
    ; u8x = zchar[0  ] }
MetaData
    int {zchar[ 10]
lengthOf	`` , i64 u8x`// not a comment` ,MetaDataX pack// `tick` ""quote"" 'q'
`crlf
line`
, Logon charz zchar[
    ,
    // a // b
    }
")).
Eval vm_compute in ("<<<M3685>>>" ++ check (runes_of_ascii "
// top
    packet// c0
  calculatedFrom	// c1
    {	// c2
	@tag(	// c3
  4294967296	// c4
    )  // c5
	u	// c6

msg_type // c7
,  // c8
	char[	// c9

3 // c10

]	// c11
  crc  // c12
	@lengthOf(	// c13
	len// c14
    )	// c15
		`u8 x,` // c16
  , 	 // c17
		}  // c18
")).
Eval vm_compute in ("<<<M4375>>>" ++ check (runes_of_ascii "packet charz {
    @lengthOf(Pad)
    match rootA as string_ {
        [0123456789] : repeatCount,
        [00, ""it's""] : T,
        0 : stringy,
        4294967296 : msg_type,
    },
}

packet lengthOf {
    @tag(7)
    char[255] float @calculatedFrom(""packet""),
}")).
Eval vm_compute in ("<<<M648>>>" ++ check (runes_of_ascii "options { packetx	=' 'chars /// triple
= ""a\""b"" ; BodyLength
= false } options{	}
// " ++ [128512]%N ++ runes_of_ascii " emoji
// c
root packet
A	{
    @rightPad (
// a // b
// @lengthOf(
'0') crc{
    i16 calculatedFrom , } , repeat
i8 Foo
// trailing space 
// `tick` ""quote"" 'q'
,
}
")).
Eval vm_compute in ("<<<M3822>>>" ++ check (runes_of_ascii "

  packet u128 
{string
    T	, 
}
	packet
A {
Pad
{
    metadata

    f32a
, match
i8i8
	as//x
    crc {7

    :a1, [
""1"" ] : Foo  ,7:  metadata
    // c
		,65535
:
pack	,
    } ,

repeat  char[]	string_
	,	}  /// triple
	  ,
	}
")).
Eval vm_compute in ("<<<M3443>>>" ++ check (runes_of_ascii "// top
packet // c0a
  // c0b
B // c1a
  // c1b
{ u8 // c3a
  // c3b
a // c4
, string
    // c6
s , // c8
} // c9
root
    // c10
packet // c11
P // c12
{ u16 L @lengthOf( B ) , // c19
B // c20a
  // c20b
, u8
    // c22
t , } // c25
")).
Eval vm_compute in ("<<<M3958>>>" ++ check (runes_of_ascii "
packet leftPad 
{ 
//
    i8 
string_
	@calculatedFrom(

    ""\" ++ [233]%N ++ runes_of_ascii """ ) ``

,repeat
	MetaDataX	{ match
    u128

as
asx {
	""a\\""
:  T
, ""CRC32""
:
stringy
	, 0
    :
options1,

    }  ,	}/// triple

	,  // " ++ [128512]%N ++ runes_of_ascii " emoji

  }
")).
Eval vm_compute in ("<<<M2301>>>" ++ check (runes_of_ascii "MetaData Packet { }packet	asx  { @lengthOf( asx) falsey`crlf
line`
,
    }
    packet x	{uint32// @lengthOf(
rootA rootA	,u32 options1 `say ""hi""` , @tag( 7
    )// packet A { u8 x, }
msg_type @lengthOf(
stringy	)	, }

")).
Eval vm_compute in ("<<<M2276>>>" ++ check (runes_of_ascii "MetaData Packet { }packet	asx  { @lengthOf( asx) falsey`crlf
line`
,
    } }
    packet x	{uint32// @lengthOf(
rootA	,u32 options1 `say ""hi""` , @tag( 7
    )// packet A { u8 x, }
msg_type @lengthOf(
stringy	)	, }

")).
Eval vm_compute in ("<<<M2392>>>" ++ check (runes_of_ascii "MetaData Packet { }packet	asx  { @lengthOf( asx) falsey`crlf
line`
,
    }
    packet x	{uint32// @lengthOf(
rootA	,u32 options1 `say " ++ [127]%N ++ runes_of_ascii """hi""` , @tag( 7
    )// packet A { u8 x, }
msg_type @lengthOf(
stringy	)	, }

")).
Eval vm_compute in ("<<<M2367>>>" ++ check (runes_of_ascii "MetaData Packet { }packet	asx  { @lengthOf( asx) falsey`crlf
line`
,
    }
    packet x	{uint32// @lengthOf(
rootA	,u32 options1 `say ""hi""` , @tag( 7
    )// packet A { u8 x, }
msg_type @lengthOf(
stringy	)	} ,

")).
Eval vm_compute in ("<<<M2250>>>" ++ check (runes_of_ascii "MetaData Packet { }packet	asx  { @lengthOf( ) falsey`crlf
line`
,
    }
    packet x	{uint32// @lengthOf(
rootA	,u32 options1 `say ""hi""` , @tag( 7
    )// packet A { u8 x, }
msg_type @lengthOf(
stringy	)	, }

")).
Eval vm_compute in ("<<<M1123>>>" ++ check (runes_of_ascii "packet body { @rightPad /// triple
( // " ++ [27880; 37322]%N ++ runes_of_ascii "
'0') uint64 repeatCount , @lengthOf(o)@lengthOf(
asx
    // c
    ) @lengthOf( MetaDataX ) match falsey // packet A { u8 x, }
as
x { ""a\\"":float
    , } ,
} // " ++ [27880; 37322]%N)).
Eval vm_compute in ("<<<M4142>>>" ++ check (runes_of_ascii "

  options
{
FixedStringPadChar
=
'0'	;  }
packet 
Q
	{ zchar[ 
4	]
z  ,@rightPad ( '\x00'  )char[
3] n ,char[
5 ] d
	,  } root packet

R 
{ Q ,
    zchar[ 8
	]top  ,	repeat zchar[ 2

]
    zs  , }
")).
Eval vm_compute in ("<<<M67>>>" ++ check (runes_of_ascii "MetaData Pad { Z9_
    // c
    pack ,u8 asx
    , i32
    MetaDataX , int8 // `tick` ""quote"" 'q'
x_y_z ,u128 f32a, calculatedFrom calculatedFrom
    `say ""hi""`  ,
    // trailing space 
    }
")).
Eval vm_compute in ("<<<M1077>>>" ++ check (runes_of_ascii "// @lengthOf(
MetaData u
{ char[]	float
    ,u8
    leftPad
`
` ,
// a // b
// a // b
metadata
string_ ,char[] // c
Header
    // trailing space 
    , zchar[
    0123456789]  a1`
` ,}
")).
Eval vm_compute in ("<<<M3754>>>" ++ check (runes_of_ascii "
options  {

// trailing space 
	A=	' '
;
calculatedFrom
// c
	// a // b

  = ""a\""b"" ; 
msg_type=char[ 
4294967296

    ]	; 

    //
    	rootA=	'\x00' msg_type
= 
false
	} ")).
Eval vm_compute in ("<<<M1553>>>" ++ check (runes_of_ascii "root packet Foo // " ++ [128512]%N ++ runes_of_ascii " emoji
{ } options {
    // a // b
    tag // `tick` ""quote"" 'q'
= //	t
""""
    ; u8x = zchar[0  ] }
MetaData
    int {zchar[ 10]
lengthOf	`` , i64 u8x")).
Eval vm_compute in ("<<<M1051>>>" ++ check (runes_of_ascii "MetaData leftPad {
    string int
// c
// " ++ [27880; 37322]%N ++ runes_of_ascii "
`tab	here` // c
, char[] f32a`u8 x,` ,zchar[ // @lengthOf(
255 ]
    uint8x
, i32 x
    `crlf
line` ,// c
i8 asx	,}
")).
Eval vm_compute in ("<<<M4240>>>" ++ check (runes_of_ascii "  // top
	  MetaData 
    // c0
	  zchar 
      // c1

  {
// c2
	zchar[

// c3
	3
	    // c4
]
    // c5

  Pad

    // c6
  ,  
  // c7
  } 
    // c8")).
Eval vm_compute in ("<<<M3584>>>" ++ check (runes_of_ascii "packet A {
    match k as n {
        [
            ""a"", ""bb"", ""c c"", ""d"", ""e"",
            ""f"", ""g"", ""h"", ""i""
        ] : B,
        2 : C,
    },
}")).
Eval vm_compute in ("<<<M3392>>>" ++ check (runes_of_ascii "MetaData _x
    // c1
{
    // c2
zchar[ 4294967296 // c4a
  // c4b
] lengthOf // c6
`// not a comment` // c7a
  // c7b
,
    // c8
}
    // c9
")).
Eval vm_compute in ("<<<M977>>>" ++ check (runes_of_ascii "MetaData As
    { u repeatCount//	t
, zchar[ 0123456789] x//
`two words`
, float asx
, falsey
lengthOf  , char[] leftPad `crlf
line` , }")).
Eval vm_compute in ("<<<M3592>>>" ++ check (runes_of_ascii "  packet calculatedFrom{
    @tag( 4294967296

    )  u msg_type ,

    char[	3]
	crc@lengthOf(
    // c
len ) `u8 x,` ,

    } ")).
Eval vm_compute in ("<<<M4273>>>" ++ check (runes_of_ascii "root packet T {
    string zchar,
    zchar[3] stringy,
}

packet rootA {
    u {
        repeatCount @lengthOf(o) `{ , }`,
    },
}")).
Eval vm_compute in ("<<<M3746>>>" ++ check (runes_of_ascii "

  options	{// c
  matchKey =
	""a\""b""  ;

a1  =
    uint16
	charz=

    char[]
    a1
	=
u8
    ;As  = 00

    ;

    }
")).
Eval vm_compute in ("<<<M1710>>>" ++ check (runes_of_ascii "root packet /// triple
rootA {	i32
MetaDataX@calculatedFrom( ""CRC32"" ) `line1
line2` , } MetaData BodyLength {
u8
rootA( } // c")).
Eval vm_compute in ("<<<M4464>>>" ++ check (runes_of_ascii "
// @lengthOf(
	options { }
    packet 
pack
{//
	} options {
	}MetaData msg_type

    {}
root

packet repeatCount {  }
")).
Eval vm_compute in ("<<<M526>>>" ++ check (runes_of_ascii "packet options1 { @calculatedFrom( ""a\\""
)  Logon	@calculatedFrom(
""" ++ [233]%N ++ runes_of_ascii "t" ++ [233]%N ++ runes_of_ascii """ // c
)`a\` ,
float32 packetx
    `
` ,} // a // b")).
Eval vm_compute in ("<<<M1863>>>" ++ check (runes_of_ascii "packet
    Pad // a // b
{ i8i8 @calculatedFrom( ""a	b"") `u8 x,` ,
} options{ float// " ++ [128512]%N ++ runes_of_ascii " emoji
= f64 i64_
uint8//	t
00 }
")).
Eval vm_compute in ("<<<M1879>>>" ++ check (runes_of_ascii "packet
    Pad // a // b
{ i8i8 @calculatedFrom( ""a	b"") `u8 x,` ,
} options{ float// " ++ [128512]%N ++ runes_of_ascii " emoji
= f64 i64_
=//	t
00 }
@x")).
Eval vm_compute in ("<<<M1493>>>" ++ check (runes_of_ascii "root packet Foo // " ++ [128512]%N ++ runes_of_ascii " emoji
{ } options {
    // a // b
    tag // `tick` ""quote"" 'q'
= //	t
""""
    ; u8x = zchar[0  ]")).
Eval vm_compute in ("<<<M1825>>>" ++ check (runes_of_ascii "packet
    Pad // a // b
{ i8i8 @calculatedFrom( ""a	b"") `u8 x,` ,
 options{ float// " ++ [128512]%N ++ runes_of_ascii " emoji
= f64 i64_
=//	t
00 }
")).
Eval vm_compute in ("<<<M1488>>>" ++ check (runes_of_ascii "root packet Foo // " ++ [128512]%N ++ runes_of_ascii " emoji
{ } options {
    // a // b
    tag // `tick` ""quote"" 'q'
= //	t
""""
    ; u8x = zchar[0")).
Eval vm_compute in ("<<<M724>>>" ++ check (runes_of_ascii "MetaData float {
tag
    body `" ++ [233]%N ++ runes_of_ascii "`
,f64 i8i8 `{ , }` , f32 chars `two words` , Pad
i64_ // @lengthOf(
,} //	t")).
Eval vm_compute in ("<<<M4325>>>" ++ check (runes_of_ascii "packet	o
	{	@tag( 
42 )

// c
	repeat x	{

    char[

    0123456789 ] 
i64_ 
,

} ,
	}
options

{ 
}

")).
Eval vm_compute in ("<<<M4339>>>" ++ check (runes_of_ascii "packet

BodyLength

{	@tag(
3 ) int16
	BodyLength,zchar[  1
]
body @calculatedFrom( ""`tick`""
)
,
    }
")).
Eval vm_compute in ("<<<M3343>>>" ++ check (runes_of_ascii "packet calculatedFrom { // c
@tag( 4294967296 ) u msg_type , char[ 3 ] crc @lengthOf( len ) `u8 x,` , }")).
Eval vm_compute in ("<<<M3450>>>" ++ check (runes_of_ascii "
options{

    FixedStringPadFromLeft

=

    true

; } root
	packet 
P{
    char[4
]z 
,

    } ")).
Eval vm_compute in ("<<<M2969>>>" ++ check (runes_of_ascii "packet A {
  match k as n {
    [""a"", 22, ""c c"", 4, ""e"", 66, ""g"", 8, ""i"", 10] : B,
    2 : C
  },
}")).
Eval vm_compute in ("<<<M1997>>>" ++ check (runes_of_ascii "root
packet crc
    { f32a @calculatedFrom( """ ++ [233]%N ++ runes_of_ascii "t" ++ [233]%N ++ runes_of_ascii """ )
    `say ""hi""` `say ""hi""`, lengthOf `` ,  }")).
Eval vm_compute in ("<<<M3225>>>" ++ check (runes_of_ascii "packet Logon { @tag( 42
// c
) @rightPad ( ' ' ) @leftPad ( ) repeat trueish { string T , } , }")).
Eval vm_compute in ("<<<M3257>>>" ++ check (runes_of_ascii "packet Logon { @tag( 42 ) @rightPad ( ' ' ) @leftPad ( ) repeat trueish { string T , } ,
// c
}")).
Eval vm_compute in ("<<<M2954>>>" ++ check (runes_of_ascii "packet A {
  match k as n {
    [1, ""bb"", 007, ""d"", 5, ""f"", 7, ""h"", 9] : B,
    2 : C
  },
}")).
Eval vm_compute in ("<<<M1961>>>" ++ check (runes_of_ascii "@leftPad
packet crc
    { f32a @calculatedFrom( """ ++ [233]%N ++ runes_of_ascii "t" ++ [233]%N ++ runes_of_ascii """ )
    `say ""hi""`, lengthOf `` ,  }")).
Eval vm_compute in ("<<<M2036>>>" ++ check (runes_of_ascii "root
packet crc
    { f32a @calculatedFrom( """ ++ [233]%N ++ runes_of_ascii "t" ++ [233]%N ++ runes_of_ascii """ )
    `say ""hi""`, \ lengthOf `` ,  }")).
Eval vm_compute in ("<<<M1968>>>" ++ check (runes_of_ascii "root
packet {
    crc f32a @calculatedFrom( """ ++ [233]%N ++ runes_of_ascii "t" ++ [233]%N ++ runes_of_ascii """ )
    `say ""hi""`, lengthOf `` ,  }")).
Eval vm_compute in ("<<<M2946>>>" ++ check (runes_of_ascii "packet A {
  match k as n {
    [1, 22, ""c c"", 4, 5, ""f"", 7, 8] : B
    2 : C
  },
}")).
Eval vm_compute in ("<<<M1958>>>" ++ check (runes_of_ascii "
packet crc
    { f32a @calculatedFrom( """ ++ [233]%N ++ runes_of_ascii "t" ++ [233]%N ++ runes_of_ascii """ )
    `say ""hi""`, lengthOf `` ,  }")).
Eval vm_compute in ("<<<M3316>>>" ++ check (runes_of_ascii "packet o { @tag( 42 ) repeat x { char[ 0123456789 ] // c
i64_ , } , } options { }")).
Eval vm_compute in ("<<<M3467>>>" ++ check (runes_of_ascii "

  root 
packet
    P	{ u8 s_u8

, 
repeat

    u8 r_u8 ,	u16 b_len
    ,  } ")).
Eval vm_compute in ("<<<M2006>>>" ++ check (runes_of_ascii "root
packet crc
    { f32a @calculatedFrom( """ ++ [233]%N ++ runes_of_ascii "t" ++ [233]%N ++ runes_of_ascii """ )
    `say ""hi""`,  `` ,  }")).
Eval vm_compute in ("<<<M4039>>>" ++ check (runes_of_ascii "root
    packet crc{ f32a @calculatedFrom(

""" ++ [233]%N ++ runes_of_ascii "t" ++ [233]%N ++ runes_of_ascii """)

,
    lengthOf``
	, }
")).
Eval vm_compute in ("<<<M2198>>>" ++ check (runes_of_ascii "root
    // `'\x01'tick` ""quote"" 'q'
    packet As { trueish Packet , }
")).
Eval vm_compute in ("<<<M2209>>>" ++ check (runes_of_ascii "root
    // `tick` ""quote"" 'q'
    packet caf" ++ [233]%N ++ runes_of_ascii "_1 { trueish Packet , }
")).
Eval vm_compute in ("<<<M1981>>>" ++ check (runes_of_ascii "root
packet crc
    { f32a  """ ++ [233]%N ++ runes_of_ascii "t" ++ [233]%N ++ runes_of_ascii """ )
    `say ""hi""`, lengthOf `` ,  }")).
Eval vm_compute in ("<<<M2880>>>" ++ check (runes_of_ascii "packet A {
  match k as n {
    [1, 22, ""c c""] : B,
    2 : C
  },
}")).
Eval vm_compute in ("<<<M2168>>>" ++ check (runes_of_ascii "root
    // `tick` ""quote"" 'q'
    packet As trueish { Packet , }
")).
Eval vm_compute in ("<<<M1174>>>" ++ check (runes_of_ascii "options { asx = '\x00'// packet A { u8 x, }
;
    float = '0';
}")).
Eval vm_compute in ("<<<M1897>>>" ++ check (runes_of_ascii "
packet packet	As { @calculatedFrom(//x
""{,}""	)lengthOf , } 	 ")).
Eval vm_compute in ("<<<M2176>>>" ++ check (runes_of_ascii "root
    // `tick` ""quote"" 'q'
    packet As { trueish  , }
")).
Eval vm_compute in ("<<<M2694>>>" ++ check (runes_of_ascii "true MetaDataX as ""a\""b"" = u64 : i64 int16 @lengthOf( char")).
Eval vm_compute in ("<<<M473>>>" ++ check (runes_of_ascii "packet len {	Logon@calculatedFrom( // a // b
""a\""b""
), }")).
Eval vm_compute in ("<<<M3957>>>" ++ check (runes_of_ascii "MetaData
    zchar	{
zchar[

3] 
	    // c

  Pad  ,}")).
Eval vm_compute in ("<<<M2407>>>" ++ check (runes_of_ascii "MetaData A
{
i64
chars	, match // `tick` ""quote"" 'q'")).
Eval vm_compute in ("<<<M2411>>>" ++ check (runes_of_ascii "\ MetaData A
{
i64
chars	, } // `tick` ""quote"" 'q'")).
Eval vm_compute in ("<<<M644>>>" ++ check (runes_of_ascii "// trailing space 
packet chars { string len , }")).
Eval vm_compute in ("<<<M2148>>>" ++ check (runes_of_ascii "MetaData x
@lengthOf{// " ++ [128512]%N ++ runes_of_ascii " emoji
i16 stringy , }")).
Eval vm_compute in ("<<<M1121>>>" ++ check (runes_of_ascii "options{ MetaDataX=// @lengthOf(
true
    ; }")).
Eval vm_compute in ("<<<M4267>>>" ++ check (runes_of_ascii "
options {
i8i8
    ='0'	;	asx

=uint32
} ")).
Eval vm_compute in ("<<<M2115>>>" ++ check (runes_of_ascii "MetaData x
{// " ++ [128512]%N ++ runes_of_ascii " emoji
i16 i16 stringy , }")).
Eval vm_compute in ("<<<M4219>>>" ++ check (runes_of_ascii "
options {	metadata

    =  ""packet""} ")).
Eval vm_compute in ("<<<M3194>>>" ++ check (runes_of_ascii "MetaData zchar { // c
zchar[ 3 ] Pad , }")).
Eval vm_compute in ("<<<M2809>>>" ++ check (runes_of_ascii "MetaData `` ; @calculatedFrom( MetaData")).
Eval vm_compute in ("<<<M4200>>>" ++ check (runes_of_ascii "options {
    int = ""\" ++ [233]%N ++ runes_of_ascii """// " ++ [128512]%N ++ runes_of_ascii " emoji
}//")).
Eval vm_compute in ("<<<M2602>>>" ++ check (runes_of_ascii "packet A { match k as n { 1 : B }, }")).
Eval vm_compute in ("<<<M1136>>>" ++ check (runes_of_ascii "root packet //	t
packetx { //x
}")).
Eval vm_compute in ("<<<M3784>>>" ++ check (runes_of_ascii "options {
    MetaDataX = true;
}")).
Eval vm_compute in ("<<<M776>>>" ++ check (runes_of_ascii "options { falsey = false
    }
")).
Eval vm_compute in ("<<<M3088>>>" ++ check (runes_of_ascii "packet A {
 u8 x `d" ++ [8192]%N ++ runes_of_ascii "`, // c" ++ [8192]%N ++ runes_of_ascii "
}")).
Eval vm_compute in ("<<<M4315>>>" ++ check (runes_of_ascii "packet	// c
  lengthOf
{  }
")).
Eval vm_compute in ("<<<M2596>>>" ++ check (runes_of_ascii "packet A { B { u8 x, } C, }")).
Eval vm_compute in ("<<<M2591>>>" ++ check (runes_of_ascii "packet A { u8 x @tag(1), }")).
Eval vm_compute in ("<<<M3165>>>" ++ check (runes_of_ascii "options { a = 1 // a
 ; }")).
Eval vm_compute in ("<<<M3271>>>" ++ check (runes_of_ascii "options // c
{ u8x = 3 }")).
Eval vm_compute in ("<<<M2703>>>" ++ check (runes_of_ascii "U" ++ [65533]%N ++ runes_of_ascii "D" ++ [65533; 65533]%N ++ runes_of_ascii "4O	" ++ [65533; 65533]%N ++ runes_of_ascii "a" ++ [65533; 65533]%N ++ runes_of_ascii "P" ++ [65533; 8; 65533; 27]%N ++ runes_of_ascii "H" ++ [65533; 426]%N ++ runes_of_ascii "F" ++ [65533]%N)).
Eval vm_compute in ("<<<M3833>>>" ++ check (runes_of_ascii "MetaData

Header{

}

")).
Eval vm_compute in ("<<<M409>>>" ++ check (runes_of_ascii "MetaData leftPad	{}
")).
Eval vm_compute in ("<<<M2637>>>" ++ check (runes_of_ascii "root MetaData M { }")).
Eval vm_compute in ("<<<M2846>>>" ++ check (runes_of_ascii "Q,OfTqw6\RO}Mcbo,K")).
Eval vm_compute in ("<<<M3137>>>" ++ check (runes_of_ascii "// c" ++ [65279]%N ++ runes_of_ascii "
packet A {
}")).
Eval vm_compute in ("<<<M3079>>>" ++ check (runes_of_ascii "packet A {
}// c" ++ [5760]%N)).
Eval vm_compute in ("<<<M325>>>" ++ check (runes_of_ascii "packet Z9_ {	}
")).
Eval vm_compute in ("<<<M2827>>>" ++ check (runes_of_ascii ";,1Ws PvAg=KMJ")).
Eval vm_compute in ("<<<M2485>>>" ++ check (runes_of_ascii "@lengthOf (")).
Eval vm_compute in ("<<<M4384>>>" ++ check (runes_of_ascii "
// c" ++ [8239]%N ++ runes_of_ascii "
")).
Eval vm_compute in ("<<<M3578>>>" ++ check (runes_of_ascii "// c" ++ [65279]%N ++ runes_of_ascii "
")).
Eval vm_compute in ("<<<M2428>>>" ++ check (runes_of_ascii "chars")).
Eval vm_compute in ("<<<M3105>>>" ++ check (runes_of_ascii "// c" ++ [8239]%N)).
Eval vm_compute in ("<<<M2679>>>" ++ check (runes_of_ascii "
	 ")).
Eval vm_compute in ("<<<M2549>>>" ++ check (runes_of_ascii "a" ++ [8232]%N ++ runes_of_ascii "b")).
Eval vm_compute in ("<<<M18>>>" ++ check (runes_of_ascii "
")).
