From FP Require Import Lexer Parser ShowPT Digest Formatter.
From Coq Require Import String List NArith.
Import ListNotations.
Open Scope string_scope.
Set Printing Width 100000000.
Set Printing Depth 100000000.
Definition show_fres (r : fres) : string :=
  match r with
  | FOk s => "OK:" ++ sh_escaped s ""
  | FErr s => "ERR:" ++ sh_escaped s ""
  | FPanic p => "PANIC:" ++ p
  end.
Definition check (rs : list rune) : string := digest (show_fres (format_res rs)).
Definition full (rs : list rune) : string := show_fres (format_res rs).
Eval vm_compute in ("<<<M4233>>>" ++ check (runes_of_ascii "
// top
	options  // c0a

  // c0b
  {  LittleEndian 
	// c2
  = 

// c3
true  // c4
;
    StringPrefixLenType 
	    // c6
		= 	 // c7
      u32// c8a

	// c8b
  ; FixedStringPadChar// c10a
	// c10b
= 	 // c11
	  '0'	; 
// c13
		}// c14a

// c14b
	packet// c15a
    // c15b
		Logout // c16
  {
// c17
    repeat InMsgkind49

    {// c20

  u8  // c21a
  // c21b

pad0  // c22
      ,// c23
      }

    // c24
    , 	 // c25
    	repeat// c26
	char[  // c27a
	  // c27b
    5 ]  
  // c29
seqNo
	// c30
  , // c31
    repeat// c32a

  // c32b
  u8 // c33a
    // c33b
    	price// c34
  ,
}  
      // c36
	packet
// c37
	  Party // c38a
    // c38b
  	{

    // c39
	zchar[7// c41a
	// c41b
	]// c42
    Qty// c43
	,  // c44a
      // c44b
  } 
packet  // c46a
  	// c46b
  Logon	// c47
  { 
        // c48
repeat InRef10// c50a
  // c50b
    {  string	price// c53a
    	// c53b
  ,	// c54a
  // c54b

	char[] 
  // c55
    sym	// c56a
  	// c56b
	, // c57
  repeat // c58a
    // c58b
	  Logout	// c59a
// c59b
  , // c60

}	// c61
    , 
    // c62
    repeat // c63a
  // c63b
	char[ 3// c65a
    	// c65b
      ] 

// c66

count 
  // c67
  ,
    // c68

	repeat
Party// c70
  , 	 // c71a
    	// c71b
char[] 	 // c72a
    	// c72b
  tag7
	,
// c74
@rightPad  // c75a
    // c75b
    ( 	 // c76a
		// c76b

'0' )  // c78a
	// c78b
	char[  // c79a
    	// c79b

2

    ] 
      // c81
clOrdID
// c82
,// c83
  } packet
    Order
    // c86

{ 
  // c87
    InTail13// c88

{  // c89
  Party  
  // c90
    	,// c91

}  
  // c92
    ,	// c93
  repeat // c94
	char[  // c95a
      // c95b
	4 
]  
      // c97
    count

    // c98

,	// c99
  } 
    // c100
	  root 	 // c101a
	// c101b
	packet	// c102

Cancel{	// c104a
	// c104b
Logout
        // c105
  ,  // c106a
	// c106b

@leftPad // c107a

// c107b
  (
'0'
) // c110a
    	// c110b
  	char[

    9 	 // c112
]
    msgKind 
,// c115
string	// c116a
// c116b
lastPx  // c117

  ,
	string	// c119a
	// c119b
    tag7 	 // c120a
	// c120b
	  ,  
      // c121
    zchar[// c122a
// c122b
  1 // c123
    ] 	 // c124
    OrderId// c125
      , 
    // c126
	repeat

// c127
    Party 	 // c128a
    // c128b
	, // c129
	u16
// c130
    	sym
    // c131
	,u16 // c133
	Acct  @lengthOf(	// c135a
    	// c135b
Body  
      // c136
)  ,  // c138a

// c138b
  	match
// c139

	sym  
      // c140
	as
// c141
    Body 	 // c142a
	// c142b
	{

    [// c144a

  // c144b
	  24	,
	44  // c147
  ]  
      // c148
  : Logout// c150a
// c150b

  ,	// c151
  160// c152a
	// c152b
: 
Order	,	// c155
    91 // c156a
	// c156b
: Logon
,  43	// c160
: 	 // c161

Party 
// c162
  ,  // c163
	  }  // c164
  	, u16

    Tail	// c167
    @calculatedFrom(	// c168a

	// c168b
  	""CRC32""  )  // c170a
	// c170b
, // c171
    }  // c172
")).
Eval vm_compute in ("<<<M4122>>>" ++ check (runes_of_ascii "
root packet	o
{ 
@lengthOf(BodyLength
	) uint64
string_
	@calculatedFrom(

""a\""b""
)
    ,repeat tag
	{
    match  crc
    as

lengthOf 
{ 
""{,}""

    : 
//	t
  	i8i8  , 255

    :trueish  
  // c
  	/// triple
[
    10 
    // @lengthOf(
	, 1
    ,
    // " ++ [128512]%N ++ runes_of_ascii " emoji
    ""abc""
	, 0123456789

    , 4294967296
,

    00 ]:

body  }
,
	int32
    uint8x @calculatedFrom( 
""// no comment"" ) 
,  // @lengthOf(
	zchar[
3 ] msg_type
    ``	,
	repeat float32
pack`it's`  //
	  ,
    }
,

match u	as	_x 
{00	: calculatedFrom, 255 // @lengthOf(
  : 
float
	, 
""\n""

:
	repeatCount
    ,
	} ,  @tag( 3) match
        // c
  //
    A 
as

Z9_ {
""a\\"" 
: //x

  rootA ""// no comment""

    : f32a,  [

    ""x y""
]
:i64_ }
    ,
x_y_z

, int32

f32a 
,// packet A { u8 x, }
@leftPad()
    f32
    roots
	,

    @lengthOf( packetx
    ) 
@tag(

255
	)  // c
    	@tag(

3 )  i32 
string_

    @calculatedFrom( 
      //	t

  // packet A { u8 x, }
  """ ++ [128512]%N ++ runes_of_ascii """ ) `doc`,@leftPad  ( 
) int8
    trueish  // `tick` ""quote"" 'q'
	@lengthOf(
    uint8x 
    /// triple
	// " ++ [27880; 37322]%N ++ runes_of_ascii "
  )
,zchar[
007 ]
    tag @calculatedFrom(
""{,}""

),

}	packet leftPad {	string

    Foo , metadata 
      //	t
	// " ++ [128512]%N ++ runes_of_ascii " emoji
u8x

    ,

    msg_type	// c
`
`

,
    @leftPad
()repeat
    metadata { 
      //x
  //	t
  char[] 
      // a // b
	// packet A { u8 x, }
	i8i8  @calculatedFrom(
""CRC32"")

,
char[
	1

    ]

rootA
	,match falsey
	as  zchar

{

4294967296 
:

    leftPad }
, // c
	char[/// triple
	007
    ]

stringy  @lengthOf( 
    /// triple
  i64_ )  `a\`  ,	// packet A { u8 x, }
  }	, @rightPad	(
	'0' ) @lengthOf(
    /// triple
    x

    )

    @calculatedFrom(""1""	)
repeat	roots,
char[]int @calculatedFrom(
""" ++ [128512]%N ++ runes_of_ascii """
    )
    `a\`,  zchar[

42

    ]
	stringy ,

@lengthOf(

    chars
    )
char[ 255  ]int 
,crc	@lengthOf(  falsey )
	`line1
line2`
	,  } 
// trailing space 
 
")).
Eval vm_compute in ("<<<M3665>>>" ++ check (runes_of_ascii "

  options
{  msg_type =
""{,}"" ;

    asx = true; 
trueish	= 
""// no comment"" 
Pad =

    ""\n""
;	metadata=
	uint64  ; } root	// @lengthOf(
packet
    // @lengthOf(
	// c
  int

{ @tag(0123456789 ) 
@tag( 	 //	t
    00)
    @calculatedFrom(""packet""  ) zchar[ 4294967296 ]
leftPad

    `line1
line2`

    ,
	@calculatedFrom(

""x y""
)
    falsey @calculatedFrom(	""x y"" 

//
	// `tick` ""quote"" 'q'
	) , repeat

uint8
Packet  ,

@tag(	4294967296
) u8x
,

    repeat
	char[
42	]
	Logon`it's`, 
int16 falsey
    @calculatedFrom(""it's"" )  
  //

, msg_type	@lengthOf(leftPad 
) 
        /// triple

`" ++ [28040; 24687; 31867; 22411]%N ++ runes_of_ascii "`

, match  string_
as 
charz

    { 
    //
""it's""  :Foo

    ,0123456789
    :
	calculatedFrom 
""// no comment""
	:T ,
	[""// no comment""

    , 65535 , 
""a\\""
,  ""abc"" 
,
007
,// " ++ [27880; 37322]%N ++ runes_of_ascii "
    ""// no comment"" ,  4294967296
]
: Z9_	} 
	// packet A { u8 x, }
	,
float64
charz@lengthOf(  Z9_)	`a\`, }
packet 
a1
	{
}  packet  T
{}
packet i64_  { repeat
	zchar[65535

]
	Logon ,	@calculatedFrom( ""CRC32""	// " ++ [128512]%N ++ runes_of_ascii " emoji
) repeat
string  stringy`crlf
line`
, repeat char[ 007

]

leftPad

,
	@calculatedFrom( 
    //
""abc""	)
string
	calculatedFrom	`two words`  , len

{ 
        // `tick` ""quote"" 'q'
  float64
    lengthOf

`" ++ [28040; 24687; 31867; 22411]%N ++ runes_of_ascii "` 
    // " ++ [27880; 37322]%N ++ runes_of_ascii "
    	// packet A { u8 x, }
	,
}  ,

A @calculatedFrom( 
""abc"" )

    `line1
line2`
,

zchar[	10
]

    charz

`" ++ [28040; 24687; 31867; 22411]%N ++ runes_of_ascii "`
	,  repeat 
Packet

, 
      // packet A { u8 x, }
	string As

@lengthOf(
	roots

    ),
@tag( 7)Packet chars,
    //x
    // trailing space 

  }

")).
Eval vm_compute in ("<<<M4088>>>" ++ check (runes_of_ascii "
packet

a1 {@lengthOf(

f32a )

    repeat
    u64
	string_
    ,
    @calculatedFrom(  """" 
)
	repeat
i16

    tag
	`u8 x,`
,
@tag(

    42  ) @calculatedFrom( 
""a\\""  )  @calculatedFrom( ""\" ++ [233]%N ++ runes_of_ascii """ ) zchar[
    10]
	Foo ,
    char[ 42 
        //	t
    ]

    body`// not a comment` ,	}MetaData 
roots  {
uint64
Z9_
`{ , }`	, char[] charz
	`doc`

    ,

uint16  u128 `u8 x,` ,zchar[4294967296  // trailing space 
]len,  float32

stringy,
	}packet
Z9_
    { 
@leftPad	( 
'\x00' 
)
@tag( 42  )

@tag( 7)roots
    x ,
    @lengthOf(
int

) crc 
zchar
    //	t
	//
,  }
packet string_  {u8 Pad 

// c
	// " ++ [128512]%N ++ runes_of_ascii " emoji
	,

    u64
chars	,@lengthOf(

    Logon
)	pack
    , 
@leftPad 
()@rightPad	//
		(

    ' ' )
	@calculatedFrom( ""a	b"" ) 
i8 x
	`crlf
line`	,

char[ 0123456789	// @lengthOf(
    	]options1 
@calculatedFrom( ""{,}""  )`two words`,

    uint64
	charz`doc`

,
char[] u128 
      // packet A { u8 x, }
	//	t
	  , @calculatedFrom( ""1"")repeat
    matchKey{ repeat

    int	o 	 // c
  ,  }

    ,
@lengthOf( calculatedFrom
	)@rightPad  ( 
'\x00'
)	@tag( 00
) MetaDataX 
{ uint32
	BodyLength

, 
}	, 
    // trailing space 

//
}
    packet lengthOf {
@calculatedFrom(""" ++ [28040; 24687]%N ++ runes_of_ascii """
)
    // trailing space 
	  // " ++ [27880; 37322]%N ++ runes_of_ascii "
  repeat
repeatCount

{
    repeat char[
7 ] pack `// not a comment`	, } ,

}")).
Eval vm_compute in ("<<<M1401>>>" ++ check (runes_of_ascii "options {
	StringPrefixLenType = u16;
	ArrayPrefixLenType = u16;
}

packet SampleBinary {
    uint16 MsgType `" ++ [28040; 24687; 31867; 22411]%N ++ runes_of_ascii "`,
    u16 BodyLenght @lengthOf(Body) `" ++ [28040; 24687; 20307; 38271; 24230]%N ++ runes_of_ascii "`,
    match MsgType as Body {
        1 : Logon,
        2 : Logout,
        3 : Heartbeat,
        4 : RiskControlRequest,
        5 : RiskControlResponse,
    },
        @calculatedFrom(""CRC32"")
    u32 Ckecksum `" ++ [26657; 39564; 21644]%N ++ runes_of_ascii "`,
}

packet Logon {
     @leftPad('0')
    char[10] UserName `" ++ [29992; 25143; 21517]%N ++ runes_of_ascii "`,
    string Password `" ++ [23494; 30721]%N ++ runes_of_ascii "`,
    uint64 ClientId `" ++ [23458; 25143; 31471]%N ++ runes_of_ascii "ID`,
    u16 HeartbeatInterval `" ++ [24515; 36339; 38388; 38548]%N ++ runes_of_ascii "`,
}

packet Logout {
      @rightPad('0')
    char[10] UserName `" ++ [29992; 25143; 21517]%N ++ runes_of_ascii "`,
    uint64 ClientId `" ++ [23458; 25143; 31471]%N ++ runes_of_ascii "ID`,
}

packet Heartbeat {
}

packet RiskControlRequest {
    string UniqueOrderId `" ++ [21807; 19968; 35746; 21333; 21495]%N ++ runes_of_ascii "`,
    char[16] ClOrdID `" ++ [23458; 25143; 35746; 21333; 21495]%N ++ runes_of_ascii "`,
    char[3] MarketID `" ++ [24066; 22330]%N ++ runes_of_ascii "id`,
    char[12] SecurityID `" ++ [35777; 21048; 20195; 30721]%N ++ runes_of_ascii "`,
    char Side `" ++ [20080; 21334; 26041; 21521]%N ++ runes_of_ascii "`,
    char OrderType `" ++ [35746; 21333; 31867; 22411]%N ++ runes_of_ascii "`,
    u64 Price `" ++ [20215; 26684]%N ++ runes_of_ascii "`,
    u32 Qty `" ++ [25968; 37327]%N ++ runes_of_ascii "`,
    repeat string ExtraInfo `" ++ [38468; 21152; 20449; 24687]%N ++ runes_of_ascii "`,
    repeat SubOrder {
    		char[16] ClOrdID `" ++ [23376; 35746; 21333; 21495]%N ++ runes_of_ascii "`,
    		u64 Price `" ++ [23376; 35746; 21333; 20215; 26684]%N ++ runes_of_ascii "`,
    		u32 Qty `" ++ [23376; 35746; 21333; 25968; 37327]%N ++ runes_of_ascii "`,
    	},
}

packet RiskControlResponse {
    string UniqueOrderId `" ++ [21807; 19968; 35746; 21333; 21495]%N ++ runes_of_ascii "`,
    i32 Status `" ++ [29366; 24577]%N ++ runes_of_ascii "`,
    string Msg `" ++ [32467; 26524; 20449; 24687]%N ++ runes_of_ascii "`,
    repeat Detail,
}

packet Detail {
    string RuleName `" ++ [35268; 21017; 21517; 31216]%N ++ runes_of_ascii "`,
    u16 Code `" ++ [21407; 22240; 20195; 30721]%N ++ runes_of_ascii "`,
}")).
Eval vm_compute in ("<<<M1161>>>" ++ check (runes_of_ascii "MetaData body	{ asx stringy  , f64
// " ++ [27880; 37322]%N ++ runes_of_ascii "
// c
As ``	, Foo Logon `a\`
    // " ++ [27880; 37322]%N ++ runes_of_ascii "
    ,
    packetx asx `" ++ [28040; 24687; 31867; 22411]%N ++ runes_of_ascii "` ,u32 matchKey `line1
line2`
,
    u16  chars , } root
    packet
    _x //	t
{match rootA as repeatCount{
/// triple
//x
007 : msg_type /// triple
[
4294967296 ,""// no comment""
    ]
    : leftPad ,""""
    :packetx ,0123456789
    : Logon
, 10:
    a1 ,
    [
""abc"" , 7 // packet A { u8 x, }
,
""CRC32""
, 0123456789 ,
255
    ,""a\""b"" ,""" ++ [128512]%N ++ runes_of_ascii """ ]: len
    ,}, repeat string trueish , @rightPad ( ) int64 f32a@lengthOf(
tag  ) ,
// a // b
// @lengthOf(
zchar[ 42 ] lengthOf
    @lengthOf( tag )`{ , }`
    ,
    @tag( 10
) int32
//
//	t
leftPad `doc`,
    x_y_z
    chars
,@calculatedFrom( ""// no comment""
)
    @lengthOf(
_x ) @lengthOf( matchKey)repeat zchar
    zchar , @calculatedFrom(/// triple
""a	b""
    ) repeat
Pad i8i8 , @tag( 1
    // c
    ) repeat int16 metadata
    , }	options
{ T = ""`tick`""
    // packet A { u8 x, }
    ;
    crc
= '\x00' ; // packet A { u8 x, }
o=
    ' ' ;
    } packet matchKey // trailing space 
{
zchar[ 0123456789 ]  crc ,@lengthOf(packetx)
char[]//	t
uint8x
    `say ""hi""`, repeat As A, }
// c
")).
Eval vm_compute in ("<<<M110>>>" ++ check (runes_of_ascii "//	t
packet// `tick` ""quote"" 'q'
crc {@tag( /// triple
10
) uint16/// triple
matchKey @calculatedFrom( ""\" ++ [233]%N ++ runes_of_ascii """ ) , @calculatedFrom(
""x y"" )
u16
    // a // b
    Packet  @calculatedFrom(""" ++ [233]%N ++ runes_of_ascii "t" ++ [233]%N ++ runes_of_ascii """) ,string Pad
    // @lengthOf(
    @lengthOf(  roots) ,//x
@tag( 42 ) repeat float{
    match
    // @lengthOf(
    roots
//	t
//
as Z9_
    { 42: packetx // c
, } // a // b
, Pad { pack , uint32 u, repeat Z9_ {
    packetx
float ,
    } , uint64 msg_type
    `it's` ,
} ,Header`" ++ [233]%N ++ runes_of_ascii "`
    , //	t
char[]stringy ,}	, match // packet A { u8 x, }
u as a1 //	t
{ [ 7
]// " ++ [27880; 37322]%N ++ runes_of_ascii "
:	zchar
    ,[255,""a\""b"",  0123456789 , 4294967296
    ,
1
,
    42, 0 ]
:Foo
    [  ""{,}"" ] : a1 , ""// no comment""
    :
A ,0
    : u8x, 255 : Packet
}	, repeat i64 chars ,
repeat char[ 0123456789 ]repeatCount
,
body  Foo, @calculatedFrom(
""\n""
    )char[]
int
    @lengthOf(	len
    )  , @tag( 3) char[]
A
`doc`
    ,
}
packet a1  { @rightPad( '0'  )
    // `tick` ""quote"" 'q'
    float // a // b
@lengthOf(
stringy
    ) `doc`
,} options
    {	As	= 7 crc = ""{,}""
    u =""it's"" zchar= '\x00'
}
")).
Eval vm_compute in ("<<<M4081>>>" ++ check (runes_of_ascii "
root 
packet	rootA {repeat 
    //x
  // c
	uint32	charz	,} 
packet 
Packet

{
    falsey

    charz
	`say ""hi""` , 
    // packet A { u8 x, }
@tag( 
7  )BodyLength@calculatedFrom( ""a\""b""
)
`line1
line2`

,}
	root

    packet
u 	 //x
  	{zchar[
    0

    ] 
msg_type
@calculatedFrom(
	""CRC32""  )
	`tab	here` 
,  }
	packet

    tag

    {	@lengthOf( 
A )	match x 	 //	t
	  as
roots

{

    // `tick` ""quote"" 'q'

	// c
	"""" :
tag , 00 	 //x

:  packetx

,

    007
	:	body
    """ ++ [28040; 24687]%N ++ runes_of_ascii """ :
	trueish ,  0	:

    lengthOf  , }  , crc  ,
    string
Packet  ,

Pad @calculatedFrom( ""a\""b""  )

    , repeat  Pad 
{
match	a1
	as

    trueish{
	00
	:trueish 7 :
calculatedFrom

    , // c
    [ """"	]

    :	BodyLength ,  [	7
] :  BodyLength ,

3

: i64_

    0
    : Pad
, } ,
    } 
	// " ++ [27880; 37322]%N ++ runes_of_ascii "
    // a // b
  , 	 //	t
      string
    T
`line1
line2`
    ,

    @rightPad(
' '
    )
rootA
	{

string 
x  `doc`
    ,char[ 0 ]
Packet 
@calculatedFrom(

""abc"" )
, } ,
    }
")).
Eval vm_compute in ("<<<M1196>>>" ++ check (runes_of_ascii "options	{metadata=  char[]
; asx  =
    ""// no comment""crc
    = """ ++ [128512]%N ++ runes_of_ascii """ ;
    }
packet int { char[ 1 ] BodyLength // packet A { u8 x, }
,  u8x `say ""hi""` ,  Pad
, @rightPad
(  '\x00'	) trueish @calculatedFrom( """ ++ [233]%N ++ runes_of_ascii "t" ++ [233]%N ++ runes_of_ascii """ ) `// not a comment`
    ,	repeat body /// triple
, @lengthOf(
Z9_) match
    Header as repeatCount
{
255 :
_x ,
[ 65535, ""a\""b"" ,
    7,// trailing space 
65535  , 10,
""a\""b""
    , 007, // " ++ [27880; 37322]%N ++ runes_of_ascii "
""x y""
] : MetaDataX
    4294967296
:
    msg_type	""{,}""
    : f32a , ""`tick`"" :
asx //	t
, 007
    : A,} // packet A { u8 x, }
,  @calculatedFrom(""1"" ) repeat string// packet A { u8 x, }
crc ,match rootA as
MetaDataX { ""1""	:
MetaDataX , 7 // c
:trueish ,007 : stringy  , 007
    : i64_ } ,@rightPad
( '\x00'// a // b
)
a1
    `u8 x,`
// c
// a // b
, }
packet	int { repeat i64_
    // c
    { chars
repeatCount
    , } , } root packet
//
// c
x_y_z {} MetaData  i64_  { // `tick` ""quote"" 'q'
zchar[ /// triple
7 ] uint8x , // " ++ [128512]%N ++ runes_of_ascii " emoji
}
")).
Eval vm_compute in ("<<<M4112>>>" ++ check (runes_of_ascii "packet
    Logon

{

    repeat

    char
    MetaDataX
`say ""hi""`	, @lengthOf(
packetx )char[]
	repeatCount// `tick` ""quote"" 'q'

`doc`, @leftPad(
'0'  ) @tag(
    7 )
	Header 
@calculatedFrom(
""""	// " ++ [128512]%N ++ runes_of_ascii " emoji

  )	,
	@lengthOf(

    /// triple
  MetaDataX )match  // trailing space 

x 

    //
      // trailing space 

	as Header 

// trailing space 
    //	t
{	""x y""
	:

    u8x  // trailing space 
	,

    """ ++ [128512]%N ++ runes_of_ascii """
	: 	 /// triple
charz

,
""" ++ [233]%N ++ runes_of_ascii "t" ++ [233]%N ++ runes_of_ascii """ :// packet A { u8 x, }
	_x, [3,// " ++ [27880; 37322]%N ++ runes_of_ascii "
  00 ] 
: uint8x 
,  ""it's""//	t
:	// `tick` ""quote"" 'q'
rootA [00,
65535  //x

  ] :
	zchar}
    ,	@calculatedFrom( ""// no comment""

) 
int32  i64_ ,
    repeat  // " ++ [128512]%N ++ runes_of_ascii " emoji
	  body

    {zchar[ 10	] BodyLength`line1
line2`,
lengthOf Logon,// @lengthOf(
  repeat float64 i8i8
,	char[
0123456789
] leftPad  // `tick` ""quote"" 'q'
    `
`,

}
,  repeat 
char[
    255

    //
    ]
a1 `" ++ [28040; 24687; 31867; 22411]%N ++ runes_of_ascii "`

,

    }

")).
Eval vm_compute in ("<<<M782>>>" ++ check (runes_of_ascii "packet i8i8  { options1 @calculatedFrom(
""packet""
// trailing space 
/// triple
) `crlf
line` ,
    @rightPad (
' ' //x
) string
lengthOf `" ++ [233]%N ++ runes_of_ascii "` ,u64 string_
, }
options { options1  = false; } MetaData u
    { a1
    options1,
lengthOf
// trailing space 
//	t
x_y_z `line1
line2`
,// c
MetaDataX
rootA
    , zchar[255 ] len ,
    char[007 ] int //x
`say ""hi""`,
// @lengthOf(
//
char[ 4294967296] // `tick` ""quote"" 'q'
stringy, //	t
} root packet u8x { Z9_ @lengthOf(	Packet
    ) ,@calculatedFrom(
""packet"" ) // a // b
@rightPad (
'0' //
)
@calculatedFrom( ""it's"" )packetx`" ++ [28040; 24687; 31867; 22411]%N ++ runes_of_ascii "`
    , float64 Packet
@calculatedFrom(""`tick`"")
`a\`
, @leftPad (
'0' )  match
len as rootA {
    // `tick` ""quote"" 'q'
    ""x y"": uint8x ""1""
: asx
, ""a\""b"" :u8x ,
    } ,// " ++ [27880; 37322]%N ++ runes_of_ascii "
@lengthOf( tag
) trueish As , @lengthOf(falsey ) zchar[1 ] a1 , } root packet
    body
{ }")).
Eval vm_compute in ("<<<M613>>>" ++ check (runes_of_ascii "packet o // @lengthOf(
{repeat char[
//	t
// @lengthOf(
65535] rootA,	}packet repeatCount {@tag( // c
10)	@lengthOf( _x )  repeat int64 f32a //	t
`" ++ [233]%N ++ runes_of_ascii "`
    ,
    @leftPad
('0' )@leftPad(
' '
    )
    @tag(3
    ) // trailing space 
o`doc` ,
    // a // b
    @calculatedFrom( """"
)string o , @lengthOf( msg_type
    // c
    ) match  A as T { [ ""packet""
, ""a\\""
    // " ++ [27880; 37322]%N ++ runes_of_ascii "
    ,
    1,10 //
,""x y"" , 3 ]
: leftPad ,""packet"" : calculatedFrom, //	t
[255
//x
//x
]:  o
    , 42  : int ,}
    , Z9_
float `a\`
,
    char[] u , @lengthOf(i64_ )	string A@lengthOf( // a // b
int )
`it's` , @rightPad
( '0') roots { pack@lengthOf(
As )
`crlf
line`	,// c
zchar[ 00 ]zchar
    @lengthOf( // " ++ [128512]%N ++ runes_of_ascii " emoji
u8x )	,
    } , @tag(
    0 )
@rightPad (
)
    @calculatedFrom( """ ++ [128512]%N ++ runes_of_ascii """ )
f32a lengthOf
`{ , }` , }
// `tick` ""quote"" 'q'
")).
Eval vm_compute in ("<<<M4410>>>" ++ check (runes_of_ascii "

  packet	MetaDataX
    {  T
    @lengthOf( 
        //x
// a // b
  trueish 
) ``

,  @rightPad
(' '	)  repeat

    options1// @lengthOf(
    A 	 /// triple

`" ++ [233]%N ++ runes_of_ascii "`//x
	,options1@lengthOf(lengthOf

)
    // `tick` ""quote"" 'q'
	`u8 x,`, }
root
    packet 
As
	{ repeat Logon  `
` 
,

    @calculatedFrom(
""" ++ [28040; 24687]%N ++ runes_of_ascii """)	// packet A { u8 x, }

zchar[ 3] 
T	,
match  Foo
as
u{
    [
	""`tick`""
]
	// `tick` ""quote"" 'q'
		// @lengthOf(

:

As

    ,

}
    , 
} packet 	 //	t
	  charz {@lengthOf( 
u 
)

    match

charz	// @lengthOf(

	as
    zchar  { [
	    //	t
    // @lengthOf(
""" ++ [128512]%N ++ runes_of_ascii """

,
	""packet""
]:
crc

[
7
, 
10

,

7 ,3  // packet A { u8 x, }
    ,4294967296
    // trailing space 
      ,""a\\"" 
]:	string_
,
[ 
3 ] :As
10
:	uint8x ,65535
	: matchKey ,  }
,

    } ")).
Eval vm_compute in ("<<<M272>>>" ++ check (runes_of_ascii "root packet Header {
int16 repeatCount ,
    } //x
root packet len {  match i8i8
    as// c
roots{ [""abc"" , 255 ]
    : Pad, }  ,	@rightPad ( '\x00' ) @lengthOf(	leftPad
)float32 As `" ++ [28040; 24687; 31867; 22411]%N ++ runes_of_ascii "` , @calculatedFrom( ""1""
) zchar[  007
] // " ++ [128512]%N ++ runes_of_ascii " emoji
stringy @lengthOf( f32a ) ,}
    // @lengthOf(
    packet  BodyLength{
@lengthOf( trueish ) char[
7 ]
    falsey
@calculatedFrom( """ ++ [128512]%N ++ runes_of_ascii """ )	, @calculatedFrom(""a\""b""
) x`// not a comment` , @lengthOf(chars ) char[ 65535 ]leftPad
@calculatedFrom(""" ++ [128512]%N ++ runes_of_ascii """
) , trueish ,
string lengthOf
    , }root
    packet
_x
{ match _x as
uint8x
{// c
[""`tick`"" ,
""packet""] :
u, [// `tick` ""quote"" 'q'
007 , ""abc""
,255
    , ""\n"" , 7 , // c
""a	b"" , 0
    ]
    :
    // c
    Foo	[ 007 , """ ++ [233]%N ++ runes_of_ascii "t" ++ [233]%N ++ runes_of_ascii """ , 0 ]
:
x_y_z //	t
} ,
}
")).
Eval vm_compute in ("<<<M713>>>" ++ check (runes_of_ascii "packet
    // @lengthOf(
    leftPad { match body as chars { 7:Pad[ """" ] :
//x
// trailing space 
Pad ,[
""packet"" , 7 , // trailing space 
""\" ++ [233]%N ++ runes_of_ascii """ // packet A { u8 x, }
,	3
, ""1"" ,	""" ++ [233]%N ++ runes_of_ascii "t" ++ [233]%N ++ runes_of_ascii """, 42 ,
007
    ] :calculatedFrom [ ""a\\""  ,
""`tick`""
    // " ++ [128512]%N ++ runes_of_ascii " emoji
    , /// triple
""it's"" ,// " ++ [27880; 37322]%N ++ runes_of_ascii "
""CRC32""
    , ""x y"" ,
    """ ++ [128512]%N ++ runes_of_ascii """
// `tick` ""quote"" 'q'
// trailing space 
,
    // trailing space 
    ""a\\"" ] : falsey , } , @lengthOf(a1 )
@rightPad ( '\x00' ) i64 matchKey ,
    @lengthOf( o ) _x { tag
`say ""hi""` //x
, }
    , @calculatedFrom( ""\n"")
// trailing space 
//x
body
    BodyLength
//x
//x
, u16 // packet A { u8 x, }
msg_type ,// @lengthOf(
} packet a1  { zchar[
    4294967296]u
    // " ++ [27880; 37322]%N ++ runes_of_ascii "
    ,string Logon`" ++ [233]%N ++ runes_of_ascii "`
, }")).
Eval vm_compute in ("<<<M3833>>>" ++ check (runes_of_ascii "// a // b
root packet charz {
    @tag(007)
    repeat u32 chars,
    Packet `doc`,
}

MetaData rootA {
    char[42] Packet `crlf
    line`,
}// c

packet asx {
    repeat calculatedFrom {
        asx @lengthOf(chars),
        repeat string x_y_z `line1
        line2`,
        repeat u32 i64_ `it's`,
        A @lengthOf(Logon) `tab	here`,
    },
    uint32 asx @lengthOf(BodyLength),
    // " ++ [27880; 37322]%N ++ runes_of_ascii "
    // " ++ [27880; 37322]%N ++ runes_of_ascii "
    char[0123456789] calculatedFrom,
    repeat Z9_,
    match asx as uint8x {
        // c
        [""{,}"", ""it's"", 7, ""CRC32""] : msg_type,
        [1] : u8x,
        ""CRC32"" : T,
    },
    i8 charz @calculatedFrom(""x y"") `" ++ [233]%N ++ runes_of_ascii "`,
}

MetaData u8x {
    // " ++ [128512]%N ++ runes_of_ascii " emoji
    i8 T,
}")).
Eval vm_compute in ("<<<M1276>>>" ++ check (runes_of_ascii "packet
As{
@lengthOf(
    chars
)@leftPad( ' ' )	string
    leftPad @lengthOf(
    _x ) , @tag( // " ++ [128512]%N ++ runes_of_ascii " emoji
00
    /// triple
    ) match// " ++ [128512]%N ++ runes_of_ascii " emoji
A as
    falsey { // `tick` ""quote"" 'q'
0:
i64_ ,
[ ""x y"", ""a\""b"" , ""it's"" ,""x y""  ,
007 , ""a	b"" ]// `tick` ""quote"" 'q'
:roots 65535://x
stringy , }
,  zchar[4294967296]
string_ `it's` , int16 Logon `it's` , @calculatedFrom(""" ++ [233]%N ++ runes_of_ascii "t" ++ [233]%N ++ runes_of_ascii """ )repeat char[]// " ++ [27880; 37322]%N ++ runes_of_ascii "
stringy `a\` ,repeat
char[3	] crc , @lengthOf( msg_type )  x { u8x  int`two words` ,
    i8i8 _x // packet A { u8 x, }
`
`
, int8	Logon@lengthOf(
    Pad) ,} ,@tag(1 )	i64	string_@calculatedFrom( ""\" ++ [233]%N ++ runes_of_ascii """ ) , // packet A { u8 x, }
char[]
    Foo  ,  }
")).
Eval vm_compute in ("<<<M470>>>" ++ check (runes_of_ascii "packet
Packet {
asx , // a // b
falsey
`" ++ [233]%N ++ runes_of_ascii "`,
    @lengthOf( a1 ) @lengthOf( uint8x ) @calculatedFrom( ""it's"" )
    match u128 as msg_type {0123456789 : charz , 1 :int // packet A { u8 x, }
""" ++ [233]%N ++ runes_of_ascii "t" ++ [233]%N ++ runes_of_ascii """:
    metadata , [// packet A { u8 x, }
""a	b"",
// c
// packet A { u8 x, }
""1"" , ""\" ++ [233]%N ++ runes_of_ascii """ , 007,
42
    // trailing space 
    , 3, 65535 ,007 // c
]  :
chars ,// trailing space 
""\" ++ [233]%N ++ runes_of_ascii """	:crc	,}
// packet A { u8 x, }
/// triple
,
    //x
    repeat u64 float ,
zchar[ 10
] Header
,crc ,
@calculatedFrom(""" ++ [233]%N ++ runes_of_ascii "t" ++ [233]%N ++ runes_of_ascii """
    ) @calculatedFrom(
""\n"") float32  A @lengthOf( Foo ) , string As
@lengthOf( body), u64 asx
, uint32
tag // c
, }
")).
Eval vm_compute in ("<<<M3262>>>" ++ check (runes_of_ascii "// top
MetaData // c0
x_y_z // c1a
  // c1b
{ // c2
char // c3a
  // c3b
body // c4
, // c5a
  // c5b
f64 // c6
i8i8 // c7a
  // c7b
`two words` // c8
, // c9a
  // c9b
body // c10
body `" ++ [28040; 24687; 31867; 22411]%N ++ runes_of_ascii "`
    // c12
, } // c14a
  // c14b
root packet chars // c17a
  // c17b
{
    // c18
@lengthOf( // c19a
  // c19b
i64_ // c20a
  // c20b
) chars , // c23a
  // c23b
i8i8
    // c24
{ // c25a
  // c25b
falsey
    // c26
@lengthOf( stringy ) // c29a
  // c29b
`doc` ,
    // c31
} // c32
, x @lengthOf( // c35a
  // c35b
A // c36
) // c37a
  // c37b
`crlf
line`
    // c38
, } // c40a
  // c40b
")).
Eval vm_compute in ("<<<M1282>>>" ++ check (runes_of_ascii "packet matchKey{char u128@calculatedFrom( ""CRC32""
    //x
    )
`{ , }`
, }
    MetaData
    leftPad
//
// c
{ uint8x lengthOf
// packet A { u8 x, }
// @lengthOf(
, o
    f32a
// a // b
/// triple
,zchar[7 ] Z9_ ,
}
packet body {	@tag( 255)
repeatCount @lengthOf( BodyLength )
, @tag( 7 ) repeat zchar[ 4294967296]i64_ , match x_y_z	as Header {""`tick`""
: rootA , }  ,@calculatedFrom(
""packet""
    ) rootA
    {  uint64
string_
, char[ // " ++ [27880; 37322]%N ++ runes_of_ascii "
65535 ] BodyLength	@calculatedFrom(""a\""b"" ) `tab	here`
    ,
    int64 pack `line1
line2`
    ,}	, }
")).
Eval vm_compute in ("<<<M796>>>" ++ check (runes_of_ascii "//
packet
options1 { @leftPad (
    ) char[ 4294967296] Z9_@lengthOf(i64_ )`" ++ [28040; 24687; 31867; 22411]%N ++ runes_of_ascii "` , }
    options {} packet len
{ u16
    lengthOf , repeat
    matchKey f32a
,  string i64_ @calculatedFrom(  ""`tick`""  ) , zchar[ // @lengthOf(
0
]
repeatCount ,stringy , _x {repeat As`crlf
line`// `tick` ""quote"" 'q'
, repeat Header MetaDataX,
match
    As as asx{
    [ """ ++ [128512]%N ++ runes_of_ascii """
// trailing space 
// " ++ [128512]%N ++ runes_of_ascii " emoji
] : len }	, repeat
int16 u8x `say ""hi""`
    ,}
    , repeat char[] trueish , u32 tag @calculatedFrom( ""a\\"" ) `two words` , }
")).
Eval vm_compute in ("<<<M1085>>>" ++ check (runes_of_ascii "packet// a // b
u8x{// a // b
len
    { o roots , match
string_// c
as
repeatCount { [
""`tick`"" ,""" ++ [128512]%N ++ runes_of_ascii """
    ,// " ++ [128512]%N ++ runes_of_ascii " emoji
7
,""" ++ [233]%N ++ runes_of_ascii "t" ++ [233]%N ++ runes_of_ascii """ ,
    10 , ""packet"" ,""\" ++ [233]%N ++ runes_of_ascii """  ] : roots ,[
10,1 ]
:
    leftPad , } ,
// c
// c
u  T // packet A { u8 x, }
, zchar[ 3 // a // b
] float `" ++ [28040; 24687; 31867; 22411]%N ++ runes_of_ascii "` ,} ,
    } MetaData
asx{ zchar[
    10 ] BodyLength , roots tag , } MetaData zchar
{uint64
chars `" ++ [28040; 24687; 31867; 22411]%N ++ runes_of_ascii "`
    ,char[]Logon
, Packet o`crlf
line` ,
falsey float,
    // @lengthOf(
    char[]
    uint8x , int  A`it's`, }")).
Eval vm_compute in ("<<<M4191>>>" ++ check (runes_of_ascii "packet

float// a // b
	{// c
}

    packet
u128 
{@calculatedFrom( ""1""
    )
asx
x_y_z
`" ++ [28040; 24687; 31867; 22411]%N ++ runes_of_ascii "`
	, }

    root packet u8x{
repeat
uint8x
T
    ,

    } packet 
leftPad{ i64_
    ,

    @leftPad
( '0'

)
	repeat
tag

    , repeat
	uint8x
    {  matchKey  @calculatedFrom(
""abc""  )
, string
charz,

    }// trailing space 
	,
@rightPad(

    )zchar[
	10
]

charz @calculatedFrom(  """ ++ [128512]%N ++ runes_of_ascii """ )`// not a comment`	,	// trailing space 
	}
    // @lengthOf(
")).
Eval vm_compute in ("<<<M4350>>>" ++ check (runes_of_ascii "root packet uint8x {
    @tag(7)
    @leftPad()
    // a // b
    repeat Logon {
        chars @calculatedFrom(""x y"") `tab	here`,
        match falsey as uint8x {
            7 : Logon,
            [""\n"", 42] : repeatCount,
            10 : x,
            """ ++ [28040; 24687]%N ++ runes_of_ascii """ : i64_,
            // c
        },
        u128 @calculatedFrom(""a	b"") `crlf
        line`,
    },
}

packet charz {
    @lengthOf(Packet)
    // " ++ [27880; 37322]%N ++ runes_of_ascii "
    i64 lengthOf `tab	here`,/// triple
}")).
Eval vm_compute in ("<<<M4381>>>" ++ check (runes_of_ascii "
options
{ }
packet

    crc // " ++ [27880; 37322]%N ++ runes_of_ascii "
    {	calculatedFrom  {zchar[

7
]  Logon 
, // @lengthOf(
trueish rootA

    `say ""hi""` 
      // `tick` ""quote"" 'q'
	/// triple
, repeat 
    // packet A { u8 x, }
    calculatedFrom
Z9_	,

repeat

MetaDataX
    { 
repeat  // " ++ [27880; 37322]%N ++ runes_of_ascii "
    	char[] int	,

    }

    ,
	}	,
rootA
@calculatedFrom(

    ""it's""

)
    , match 
charz
as body{
    0123456789
:

    chars

    ,  } ,	}
")).
Eval vm_compute in ("<<<M1035>>>" ++ check (runes_of_ascii "  packet//	t
leftPad
// @lengthOf(
//x
{  falsey `it's` , Packet u128 , // `tick` ""quote"" 'q'
float calculatedFrom, zchar[1] options1 @calculatedFrom(
    ""a\\"" ) , zchar[ 42]As ,
    @rightPad (
    )
    T `say ""hi""`, body
//x
//
Header ,
    f32 T , @calculatedFrom( """ ++ [233]%N ++ runes_of_ascii "t" ++ [233]%N ++ runes_of_ascii """ ) MetaDataX  Pad `// not a comment`
    , }	packet u {
/// triple
// c
int16
Header	`say ""hi""` ,
    } MetaData options1 {} // trailing space ")).
Eval vm_compute in ("<<<M3721>>>" ++ check (runes_of_ascii "options
	{ len  = 255
tag
=	""" ++ [233]%N ++ runes_of_ascii "t" ++ [233]%N ++ runes_of_ascii """ }
packet  packetx	{

} options {

    repeatCount
=

'\x00'

; x 
=4294967296 len

=false ;
	A =
    false	;  Packet	= """"	// " ++ [27880; 37322]%N ++ runes_of_ascii "
;
} MetaData
x	{
	    //
	// `tick` ""quote"" 'q'
      uint32
roots

    ,
	lengthOf o
	`
`
,

    u32
x_y_z`line1
line2`
,	int64
msg_type 
// a // b
  //
  	`crlf
line` ,  string
repeatCount
`line1
line2` 
,u128 
stringy

, }")).
Eval vm_compute in ("<<<M4016>>>" ++ check (runes_of_ascii "

  MetaData

    len /// triple
    {//
f64 T

    `u8 x,`
	,

    rootA stringy,
    zchar  repeatCount
`say ""hi""` ,
MetaDataX
	As

    , i8i8 
string_  ,  x_y_z f32a ,
	}  options // c
    {

    Logon
	    //
=

string float
=
    string

    A =""abc"" /// triple
	; 
//
  A  = ""\" ++ [233]%N ++ runes_of_ascii """	Logon= 7
}options{ }
options 
{  packetx
	=  ""abc"" // c
  ;

    x =
true	}")).
Eval vm_compute in ("<<<M3762>>>" ++ check (runes_of_ascii "
// top
	packet // c0a

	// c0b
  o  // c1

	{// c2a
    // c2b

	@tag( // c3a
    // c3b
42	// c4a
	// c4b

)
    // c5
  repeat  
      // c6
	x	{	char[ 	 // c9a
  // c9b
0123456789// c10
    ] 	 // c11a
	// c11b
i64_ 	 // c12a

	// c12b
    ,  
      // c13
  }  , 
	    // c15
}	options // c17a
  // c17b
		{ 	 // c18a
  	// c18b
    }	// c19a
	// c19b")).
Eval vm_compute in ("<<<M3815>>>" ++ check (runes_of_ascii "  // a // b

options {	_x=' '
}

    packet
    pack

{ } 
packet
Foo{ 
@tag(	10
)	char	BodyLength@lengthOf(
_x

)

    `say ""hi""`  /// triple
  ,zchar[ 42 ]
    Foo ,
	match

string_
    as

    o
	{
    0123456789  : 
u128
42 : asx ,}
,// " ++ [27880; 37322]%N ++ runes_of_ascii "
  match
    lengthOf
as body{
""1""
:

u128 ,3 :	chars ,00	: T
, 
}
, 
// `tick` ""quote"" 'q'
  }
")).
Eval vm_compute in ("<<<M4118>>>" ++ check (runes_of_ascii "

  root 
packet
u {@rightPad
    ('\x00'  ) 
Logon@calculatedFrom(
""{,}"" )

    `" ++ [233]%N ++ runes_of_ascii "`, @tag(

3 
)

string repeatCount
,  match
    packetx // " ++ [128512]%N ++ runes_of_ascii " emoji
as
	u8x {65535
	:
    i8i8 
//x
      , 007	// trailing space 
:
    roots // " ++ [27880; 37322]%N ++ runes_of_ascii "
	  ,
""a	b""
	:	BodyLength  //	t
    ,
	} ,
@tag( 00
)

uint32

repeatCount
@lengthOf(u128 ) 
,	} ")).
Eval vm_compute in ("<<<M1083>>>" ++ check (runes_of_ascii "// a // b
options {
_x = ' '	} packet pack { } packet Foo { @tag(10
)
char BodyLength @lengthOf(	_x )
`say ""hi""` /// triple
, zchar[42 ] Foo ,
    match string_
    as
o {
0123456789: u128 42
    :
    asx,
} , // " ++ [27880; 37322]%N ++ runes_of_ascii "
match lengthOf as
    body
{ ""1"" : u128
    , 3 : chars , 00
    :	T, },
    // `tick` ""quote"" 'q'
    }
")).
Eval vm_compute in ("<<<M1363>>>" ++ check (runes_of_ascii "packet float {	@lengthOf(	pack ) int16 string_ , } options  {
leftPad
// c
/// triple
= true;  x
=	int16 Foo
=
00 string_
    = '\x00'
    ; }root packet Foo {
packetx
@lengthOf(
i8i8 ) `tab	here`
,
int16
A ,
@lengthOf(
// " ++ [128512]%N ++ runes_of_ascii " emoji
//
trueish ) repeat int
zchar `a\`
,}
/// triple
//
MetaData body
{ }
//
")).
Eval vm_compute in ("<<<M1525>>>" ++ check (runes_of_ascii "root packet Foo // " ++ [128512]%N ++ runes_of_ascii " emoji
{ } options {
    // a // b
    tag // `tick` ""quote"" 'q'
= //	t
""""
    ; u8x = zchar[0  ] }
MetaData
    int {zchar[ 10]
lengthOf lengthOf	`` , i64 u8x`// not a comment` ,MetaDataX pack// `tick` ""quote"" 'q'
`crlf
line`
, Logon charz `crlf
line`
    ,
    // a // b
    }
")).
Eval vm_compute in ("<<<M1487>>>" ++ check (runes_of_ascii "root packet Foo // " ++ [128512]%N ++ runes_of_ascii " emoji
{ } options {
    // a // b
    tag // `tick` ""quote"" 'q'
= //	t
""""
    ; u8x = zchar[0  true }
MetaData
    int {zchar[ 10]
lengthOf	`` , i64 u8x`// not a comment` ,MetaDataX pack// `tick` ""quote"" 'q'
`crlf
line`
, Logon charz `crlf
line`
    ,
    // a // b
    }
")).
Eval vm_compute in ("<<<M1610>>>" ++ check (runes_of_ascii "root packet Foo // " ++ [128512]%N ++ runes_of_ascii " emoji
{ } options {
    // a // b
    tag // `tick` ""quote"" 'q'
= //	t
""""
    ; u8x = zchar[0  ] }
' MetaData
    int {zchar[ 10]
lengthOf	`` , i64 u8x`// not a comment` ,MetaDataX pack// `tick` ""quote"" 'q'
`crlf
line`
, Logon charz `crlf
line`
    ,
    // a // b
    }
")).
Eval vm_compute in ("<<<M1461>>>" ++ check (runes_of_ascii "root packet Foo // " ++ [128512]%N ++ runes_of_ascii " emoji
{ } options {
    // a // b
    tag // `tick` ""quote"" 'q'
= //	t
""""
    u8x ; = zchar[0  ] }
MetaData
    int {zchar[ 10]
lengthOf	`` , i64 u8x`// not a comment` ,MetaDataX pack// `tick` ""quote"" 'q'
`crlf
line`
, Logon charz `crlf
line`
    ,
    // a // b
    }
")).
Eval vm_compute in ("<<<M1424>>>" ++ check (runes_of_ascii "root packet Foo // " ++ [128512]%N ++ runes_of_ascii " emoji
 } options {
    // a // b
    tag // `tick` ""quote"" 'q'
= //	t
""""
    ; u8x = zchar[0  ] }
MetaData
    int {zchar[ 10]
lengthOf	`` , i64 u8x`// not a comment` ,MetaDataX pack// `tick` ""quote"" 'q'
`crlf
line`
, Logon charz `crlf
line`
    ,
    // a // b
    }
")).
Eval vm_compute in ("<<<M1419>>>" ++ check (runes_of_ascii "root packet  // " ++ [128512]%N ++ runes_of_ascii " emoji
{ } options {
    // a // b
    tag // `tick` ""quote"" 'q'
= //	t
""""
    ; u8x = zchar[0  ] }
MetaData
    int {zchar[ 10]
lengthOf	`` , i64 u8x`// not a comment` ,MetaDataX pack// `tick` ""quote"" 'q'
`crlf
line`
, Logon charz `crlf
line`
    ,
    // a // b
    }
")).
Eval vm_compute in ("<<<M4158>>>" ++ check (runes_of_ascii "options {
    LittleEndian = true;
    ArrayPrefixLenType = u64;
    FixedStringPadFromLeft = false;
}

packet Quote {
}

root packet Order {
    i64 Side2,
    Quote,
    u32 Px,
    match Px as Body {
        [119, 147] : Quote,
    },
    u16 Flags @calculatedFrom(""CR\
    C32""),
}")).
Eval vm_compute in ("<<<M1247>>>" ++ check (runes_of_ascii "packet As{ @calculatedFrom(
""1"" // c
)x_y_z f32a ,//	t
repeat Packet, @leftPad
( ' ' )float64
msg_type @calculatedFrom(  ""it's"") `
`
,@lengthOf(/// triple
i64_ ) // " ++ [128512]%N ++ runes_of_ascii " emoji
trueish @lengthOf( charz )
    ,
    // trailing space 
    @rightPad ( '0' //x
)
Z9_ `" ++ [233]%N ++ runes_of_ascii "`
,
} // c")).
Eval vm_compute in ("<<<M1070>>>" ++ check (runes_of_ascii "// packet A { u8 x, }
packet string_ {
char[4294967296 ]charz , } packet _x//x
{ }
packet As
    { // @lengthOf(
} root
    packet
string_
{ i64
u128 ,// `tick` ""quote"" 'q'
} root // packet A { u8 x, }
packet
Foo {match // " ++ [128512]%N ++ runes_of_ascii " emoji
A as Pad{ 1 :	u128 } , }
")).
Eval vm_compute in ("<<<M4260>>>" ++ check (runes_of_ascii "packet charz {
    repeat Z9_ x,
    @calculatedFrom(""`tick`"")
    string A `crlf
    line`,
    repeat crc {
        repeat u8x,
        char[42] x @lengthOf(o),
    },
}

MetaData tag {
    uint16 falsey `say ""hi""`,
    i32 asx,
    char[007] As,
}")).
Eval vm_compute in ("<<<M481>>>" ++ check (runes_of_ascii "MetaData	a1
    { rootA
i8i8 `crlf
line`
, } options { msg_type
= 65535 Header  =false lengthOf = char[]	} packet stringy
    { repeat chars chars `u8 x,` , }
packet u128 // a // b
{ repeat x
    {  u16 As@calculatedFrom( ""`tick`""
),} ,
}
")).
Eval vm_compute in ("<<<M1044>>>" ++ check (runes_of_ascii "
options{ len //
= false // " ++ [128512]%N ++ runes_of_ascii " emoji
}	options
    { leftPad =
""`tick`"" ;repeatCount
= char[// " ++ [128512]%N ++ runes_of_ascii " emoji
4294967296
// c
// trailing space 
]chars = ""`tick`""}packet trueish{ u16  crc,
@tag( 0123456789 ) string trueish `crlf
line` , }")).
Eval vm_compute in ("<<<M2346>>>" ++ check (runes_of_ascii "MetaData Packet { }packet	asx  { @lengthOf( asx) falsey`crlf
line`
,
    }
    packet x	{uint32// @lengthOf(
rootA	,u32 options1 `say ""hi""` , @tag( 7
    )// packet A { u8 x, }
msg_type msg_type @lengthOf(
stringy	)	, }

")).
Eval vm_compute in ("<<<M2223>>>" ++ check (runes_of_ascii "MetaData Packet @tag( }packet	asx  { @lengthOf( asx) falsey`crlf
line`
,
    }
    packet x	{uint32// @lengthOf(
rootA	,u32 options1 `say ""hi""` , @tag( 7
    )// packet A { u8 x, }
msg_type @lengthOf(
stringy	)	, }

")).
Eval vm_compute in ("<<<M2384>>>" ++ check (runes_of_ascii "MetaData Packet { }packet	asx  { @lengthOf( asx) falsey`crlf
line`
,
    }
    packet x	{uint32// @lengthOf(
rootA	,u32 options1 `say ""hi""` , @tag( 7
    )// packet A { ''u8 x, }
msg_type @lengthOf(
stringy	)	, }

")).
Eval vm_compute in ("<<<M2267>>>" ++ check (runes_of_ascii "MetaData Packet { }packet	asx  { @lengthOf( asx) falsey,
`crlf
line`
    }
    packet x	{uint32// @lengthOf(
rootA	,u32 options1 `say ""hi""` , @tag( 7
    )// packet A { u8 x, }
msg_type @lengthOf(
stringy	)	, }

")).
Eval vm_compute in ("<<<M2285>>>" ++ check (runes_of_ascii "MetaData Packet { }packet	asx  { @lengthOf( asx) falsey`crlf
line`
,
    }
    packet 	{uint32// @lengthOf(
rootA	,u32 options1 `say ""hi""` , @tag( 7
    )// packet A { u8 x, }
msg_type @lengthOf(
stringy	)	, }

")).
Eval vm_compute in ("<<<M1259>>>" ++ check (runes_of_ascii "packet
x_y_z//x
{@tag(	0123456789
    )match // " ++ [27880; 37322]%N ++ runes_of_ascii "
T	as	roots
{ 255 : asx ,[
    1
    //x
    ,
    3 , ""`tick`"" ] : Header 3
    :
    pack// " ++ [128512]%N ++ runes_of_ascii " emoji
},u64  a1/// triple
`tab	here`
,
_x options1`{ , }` ,
}")).
Eval vm_compute in ("<<<M2353>>>" ++ check (runes_of_ascii "MetaData Packet { }packet	asx  { @lengthOf( asx) falsey`crlf
line`
,
    }
    packet x	{uint32// @lengthOf(
rootA	,u32 options1 `say ""hi""` , @tag( 7
    )// packet A { u8 x, }
msg_type [
stringy	)	, }

")).
Eval vm_compute in ("<<<M953>>>" ++ check (runes_of_ascii "
root packet i64_
    {rootA {	zchar[1 ]
    packetx
@calculatedFrom( ""1"" ),
// @lengthOf(
/// triple
} ,
} options // " ++ [128512]%N ++ runes_of_ascii " emoji
{ chars = // trailing space 
char[]  ; falsey
    =
    u32 ; } //x")).
Eval vm_compute in ("<<<M1008>>>" ++ check (runes_of_ascii "MetaData stringy
{ u len `line1
line2`,zchar[42
]
pack
    ,char[7 ] f32a //	t
`say ""hi""` // @lengthOf(
,
    // a // b
    char[
    7] i8i8
, }
    packet// " ++ [128512]%N ++ runes_of_ascii " emoji
float
    { }
// c
")).
Eval vm_compute in ("<<<M1118>>>" ++ check (runes_of_ascii "
options{ // `tick` ""quote"" 'q'
} options // packet A { u8 x, }
{ As
    = ""\n""
// `tick` ""quote"" 'q'
// a // b
;	} MetaData
    msg_type {string
    trueish , } options { A= ""{,}"" ;}")).
Eval vm_compute in ("<<<M1062>>>" ++ check (runes_of_ascii "packet body /// triple
{ float32
zchar @lengthOf(
    x_y_z ), u64
int @calculatedFrom(
// trailing space 
//
""abc"" ) //x
,
    // " ++ [27880; 37322]%N ++ runes_of_ascii "
    }
root packet u
    //x
    { }
")).
Eval vm_compute in ("<<<M3798>>>" ++ check (runes_of_ascii "// top
packet o {
    // c2
    @tag(42)
    // c5
    repeat x {
        // c8
        char[0123456789] i64_,// c13
    },// c15
}// c16

options {
    // c18
}// c19")).
Eval vm_compute in ("<<<M247>>>" ++ check (runes_of_ascii "packet
Pad { } packet// packet A { u8 x, }
len // a // b
{ string u128 , } root packet o {
@tag( 7
) char[] msg_type @calculatedFrom( ""// no comment""
)
    ,}
")).
Eval vm_compute in ("<<<M4407>>>" ++ check (runes_of_ascii "packet A {
    Inner {
        match k as n {
            [
                1, 22, 007, 4, 5,
                66, 7
            ] : B,
        },
    },
}")).
Eval vm_compute in ("<<<M346>>>" ++ check (runes_of_ascii "packet BodyLength {repeat u128 charz ,
i64 i64_
@lengthOf(
asx )
,
repeat
    i64_ { repeat int `u8 x,` , //	t
},repeat float32
pack
`" ++ [233]%N ++ runes_of_ascii "` ,
    }")).
Eval vm_compute in ("<<<M2334>>>" ++ check (runes_of_ascii "MetaData Packet { }packet	asx  { @lengthOf( asx) falsey`crlf
line`
,
    }
    packet x	{uint32// @lengthOf(
rootA	,u32 options1 `say ""hi""` ,")).
Eval vm_compute in ("<<<M1722>>>" ++ check (runes_of_ascii "root packet /// triple
rootA {	i32
MetaDataX@calculatedFrom( ""CRC32"" ) `line1
lin@lengthOfe2` , } MetaData BodyLength {
u8
rootA, } // c")).
Eval vm_compute in ("<<<M120>>>" ++ check (runes_of_ascii "root
packet Header
    // packet A { u8 x, }
    { // " ++ [27880; 37322]%N ++ runes_of_ascii "
@lengthOf(
rootA // a // b
) int8 Foo//
@lengthOf(	uint8x)`tab	here`
,}
")).
Eval vm_compute in ("<<<M1173>>>" ++ check (runes_of_ascii "  options { BodyLength=
// trailing space 
// a // b
char[]
    ; lengthOf =
    // @lengthOf(
    i8 asx = 7 ; rootA= ""a\""b"" ; }
")).
Eval vm_compute in ("<<<M1640>>>" ++ check (runes_of_ascii "root packet /// triple
rootA }	i32
MetaDataX@calculatedFrom( ""CRC32"" ) `line1
line2` , } MetaData BodyLength {
u8
rootA, } // c")).
Eval vm_compute in ("<<<M874>>>" ++ check (runes_of_ascii "  options { Logon = 007	leftPad= true
; repeatCount =
    // trailing space 
    0
    // a // b
    u =	i32
; f32a
='0';
}

")).
Eval vm_compute in ("<<<M1045>>>" ++ check (runes_of_ascii "MetaData calculatedFrom { zchar[ 10]
    u128 `doc` ,zchar[ 0123456789 ]
    packetx ,char[]// trailing space 
MetaDataX
,
}")).
Eval vm_compute in ("<<<M1856>>>" ++ check (runes_of_ascii "packet
    Pad // a // b
{ i8i8 @calculatedFrom( ""a	b"") `u8 x,` ,
} options{ float// " ++ [128512]%N ++ runes_of_ascii " emoji
= f64 i64_ i64_
=//	t
00 }
")).
Eval vm_compute in ("<<<M3831>>>" ++ check (runes_of_ascii "//	t
options {
    // c
}

MetaData asx {
    float64 x_y_z,
}

options {
    // packet A { u8 x, }
    stringy = '0';
}")).
Eval vm_compute in ("<<<M1843>>>" ++ check (runes_of_ascii "packet
    Pad // a // b
{ i8i8 @calculatedFrom( ""a	b"") `u8 x,` ,
} options{ repeat// " ++ [128512]%N ++ runes_of_ascii " emoji
= f64 i64_
=//	t
00 }
")).
Eval vm_compute in ("<<<M1822>>>" ++ check (runes_of_ascii "packet
    Pad // a // b
{ i8i8 @calculatedFrom( ""a	b"") `u8 x,` }
, options{ float// " ++ [128512]%N ++ runes_of_ascii " emoji
= f64 i64_
=//	t
00 }
")).
Eval vm_compute in ("<<<M3792>>>" ++ check (runes_of_ascii "packet A {
    u16 len @lengthOf(body) `a
    b`,
    u32 crc @calculatedFrom(""CRC32"") `a
    b`,
    string body,
}")).
Eval vm_compute in ("<<<M1483>>>" ++ check (runes_of_ascii "root packet Foo // " ++ [128512]%N ++ runes_of_ascii " emoji
{ } options {
    // a // b
    tag // `tick` ""quote"" 'q'
= //	t
""""
    ; u8x = zchar[")).
Eval vm_compute in ("<<<M4389>>>" ++ check (runes_of_ascii "packet o 
{
    @tag( 
42

    )
	repeat
    x{
    char[
	0123456789 ]	i64_
    // c
,

}	,
} options	{	}
")).
Eval vm_compute in ("<<<M862>>>" ++ check (runes_of_ascii "MetaData// " ++ [27880; 37322]%N ++ runes_of_ascii "
Pad { roots options1`tab	here`
, //	t
char[ 0123456789
// `tick` ""quote"" 'q'
// c
] Foo , }
")).
Eval vm_compute in ("<<<M901>>>" ++ check (runes_of_ascii "
MetaData x{
a1 // c
repeatCount // packet A { u8 x, }
`" ++ [233]%N ++ runes_of_ascii "` , u64 falsey //	t
`" ++ [233]%N ++ runes_of_ascii "` ,  i64_ matchKey , }
")).
Eval vm_compute in ("<<<M3350>>>" ++ check (runes_of_ascii "packet calculatedFrom { @tag( 4294967296 )
// c
u msg_type , char[ 3 ] crc @lengthOf( len ) `u8 x,` , }")).
Eval vm_compute in ("<<<M2952>>>" ++ check (runes_of_ascii "packet A {
  match k as n {
    [""a"", ""bb"", ""c c"", ""d"", ""e"", ""f"", ""g"", ""h"", ""i""] : B,
    2 : C
  },
}")).
Eval vm_compute in ("<<<M4265>>>" ++ check (runes_of_ascii "  packet

T

{ 
@lengthOf(	As	)
    u8x	`tab	here`  , }MetaData
    f32a{uint64

    trueish, 
} ")).
Eval vm_compute in ("<<<M2990>>>" ++ check (runes_of_ascii "packet A {
  match k as n {
    [1, 22, 007, 4, 5, 66, 7, 8, 9, 10, 11, 12] : B
    2 : C
  },
}")).
Eval vm_compute in ("<<<M3226>>>" ++ check (runes_of_ascii "packet Logon { @tag( 42 ) // c
@rightPad ( ' ' ) @leftPad ( ) repeat trueish { string T , } , }")).
Eval vm_compute in ("<<<M3706>>>" ++ check (runes_of_ascii "MetaData charz {
    Pad tag `two words`,
    u32 matchKey,
    u128 Foo,
    char[255] body,
}")).
Eval vm_compute in ("<<<M2954>>>" ++ check (runes_of_ascii "packet A {
  match k as n {
    [1, ""bb"", 007, ""d"", 5, ""f"", 7, ""h"", 9] : B,
    2 : C
  },
}")).
Eval vm_compute in ("<<<M4318>>>" ++ check (runes_of_ascii "
options{	T  =
' 'asx
= '\x00'	; 
falsey 	 /// triple
    =' ' 
// " ++ [128512]%N ++ runes_of_ascii " emoji
// c
    } ")).
Eval vm_compute in ("<<<M1681>>>" ++ check (runes_of_ascii "root packet /// triple
rootA {	i32
MetaDataX@calculatedFrom( ""CRC32"" ) `line1
line2` ,")).
Eval vm_compute in ("<<<M2037>>>" ++ check (runes_of_ascii "r#oot
packet crc
    { f32a @calculatedFrom( """ ++ [233]%N ++ runes_of_ascii "t" ++ [233]%N ++ runes_of_ascii """ )
    `say ""hi""`, lengthOf `` ,  }")).
Eval vm_compute in ("<<<M2800>>>" ++ check (runes_of_ascii "@tag( ) true @calculatedFrom( repeat ] as `say ""hi""` char[ MetaData i32 int16 i32 f32")).
Eval vm_compute in ("<<<M2011>>>" ++ check (runes_of_ascii "root
packet crc
    { f32a @calculatedFrom( """ ++ [233]%N ++ runes_of_ascii "t" ++ [233]%N ++ runes_of_ascii """ )
    `say ""hi""`, lengthOf  ,  }")).
Eval vm_compute in ("<<<M3292>>>" ++ check (runes_of_ascii "// c
packet o { @tag( 42 ) repeat x { char[ 0123456789 ] i64_ , } , } options { }")).
Eval vm_compute in ("<<<M3325>>>" ++ check (runes_of_ascii "packet o { @tag( 42 ) repeat x { char[ 0123456789 ] i64_ , } ,
// c
} options { }")).
Eval vm_compute in ("<<<M946>>>" ++ check (runes_of_ascii "
MetaData As
    { } // @lengthOf(
MetaData  crc {
float64 lengthOf `it's` , }")).
Eval vm_compute in ("<<<M2887>>>" ++ check (runes_of_ascii "packet A {
  match k as n {
    [""a"", ""bb"", ""c c"", ""d""] : B,
    2 : C
  },
}")).
Eval vm_compute in ("<<<M2903>>>" ++ check (runes_of_ascii "packet A {
  match k as n {
    [1, ""bb"", 007, ""d"", 5] : B
    2 : C
  },
}")).
Eval vm_compute in ("<<<M4285>>>" ++ check (runes_of_ascii "packet
A
    {
match  k
as
	n
	{

    [	""a"",
22  ]  :B
2:
	C

} ,
}

")).
Eval vm_compute in ("<<<M2169>>>" ++ check (runes_of_ascii "root
    // `tick` ""quote"" 'q'
    packet As false trueish Packet , }
")).
Eval vm_compute in ("<<<M4426>>>" ++ check (runes_of_ascii "

  // " ++ [128512]%N ++ runes_of_ascii " emoji
  packet

roots 
// trailing space 
{} // @lengthOf(
")).
Eval vm_compute in ("<<<M2207>>>" ++ check (runes_of_ascii "\ root
    // `tick` ""quote"" 'q'
    packet As { trueish Packet , }
")).
Eval vm_compute in ("<<<M2155>>>" ++ check (runes_of_ascii "packet
    // `tick` ""quote"" 'q'
    root As { trueish Packet , }
")).
Eval vm_compute in ("<<<M4121>>>" ++ check (runes_of_ascii "packet  A
    {B b  `a
b` ,B `a
b`, repeat B

    bs `a
b`	,
}
")).
Eval vm_compute in ("<<<M1453>>>" ++ check (runes_of_ascii "root packet Foo // " ++ [128512]%N ++ runes_of_ascii " emoji
{ } options {
    // a // b
    tag")).
Eval vm_compute in ("<<<M2157>>>" ++ check (runes_of_ascii "root
    // `tick` ""quote"" 'q'
     As { trueish Packet , }
")).
Eval vm_compute in ("<<<M2694>>>" ++ check (runes_of_ascii "true MetaDataX as ""a\""b"" = u64 : i64 int16 @lengthOf( char")).
Eval vm_compute in ("<<<M57>>>" ++ check (runes_of_ascii "MetaData stringy { uint8
//x
// @lengthOf(
string_
, }
")).
Eval vm_compute in ("<<<M2269>>>" ++ check (runes_of_ascii "MetaData Packet { }packet	asx  { @lengthOf( asx) falsey")).
Eval vm_compute in ("<<<M3737>>>" ++ check (runes_of_ascii "  MetaData
	zchar {	zchar[
	3  ]Pad
,

    }	// c")).
Eval vm_compute in ("<<<M3164>>>" ++ check (runes_of_ascii "packet A { u8 x, } // a
// b
packet B {} // c
// d")).
Eval vm_compute in ("<<<M841>>>" ++ check (runes_of_ascii "root
// @lengthOf(
// @lengthOf(
packet f32a
{
}")).
Eval vm_compute in ("<<<M2581>>>" ++ check (runes_of_ascii "packet A { char[] x @calculatedFrom(""c"") `d`, }")).
Eval vm_compute in ("<<<M405>>>" ++ check (runes_of_ascii "options
    { x
=
    //	t
    zchar[65535 ]}")).
Eval vm_compute in ("<<<M2831>>>" ++ check (runes_of_ascii "char[ ( true f32 packet u64 255 string false")).
Eval vm_compute in ("<<<M1719>>>" ++ check (runes_of_ascii "root packet /// triple
rootA {	i32
MetaDa")).
Eval vm_compute in ("<<<M4045>>>" ++ check (runes_of_ascii "

  options{ metadata
=""packet""

    }")).
Eval vm_compute in ("<<<M3193>>>" ++ check (runes_of_ascii "MetaData zchar
// c
{ zchar[ 3 ] Pad , }")).
Eval vm_compute in ("<<<M2149>>>" ++ check (runes_of_ascii "Met" ++ [0]%N ++ runes_of_ascii "aData x
{// " ++ [128512]%N ++ runes_of_ascii " emoji
i16 stringy , }")).
Eval vm_compute in ("<<<M3730>>>" ++ check (runes_of_ascii "MetaData u128 {
    uint32 lengthOf,
}")).
Eval vm_compute in ("<<<M2194>>>" ++ check (runes_of_ascii "root
    // `tick` ""quote"" 'q'
    p")).
Eval vm_compute in ("<<<M2589>>>" ++ check (runes_of_ascii "packet A { x @calculatedFrom(c), }")).
Eval vm_compute in ("<<<M1766>>>" ++ check (runes_of_ascii "options { }options {  } // `tick")).
Eval vm_compute in ("<<<M3884>>>" ++ check (runes_of_ascii "packet A {
    // a
    u8 x,
}")).
Eval vm_compute in ("<<<M3118>>>" ++ check (runes_of_ascii "packet A {
 u8 x `d" ++ [11]%N ++ runes_of_ascii "`, // c" ++ [11]%N ++ runes_of_ascii "
}")).
Eval vm_compute in ("<<<M2059>>>" ++ check (runes_of_ascii "MetaData A match u64 pack, }")).
Eval vm_compute in ("<<<M2731>>>" ++ check ([14; 3]%N ++ runes_of_ascii "AV" ++ [65533; 65533; 65533]%N ++ runes_of_ascii "r" ++ [4]%N ++ runes_of_ascii "+{e" ++ [65533; 65533; 65533]%N ++ runes_of_ascii ";&" ++ [65533; 65533; 3; 3; 65533]%N ++ runes_of_ascii "Q" ++ [65533]%N ++ runes_of_ascii "+G" ++ [5]%N)).
Eval vm_compute in ("<<<M2625>>>" ++ check (runes_of_ascii "packet A { u8 x, @tag(1) }")).
Eval vm_compute in ("<<<M3282>>>" ++ check (runes_of_ascii "options { u8x = 3 }
// c
")).
Eval vm_compute in ("<<<M3274>>>" ++ check (runes_of_ascii "options {
// c
u8x = 3 }")).
Eval vm_compute in ("<<<M2703>>>" ++ check (runes_of_ascii "U" ++ [65533]%N ++ runes_of_ascii "D" ++ [65533; 65533]%N ++ runes_of_ascii "4O	" ++ [65533; 65533]%N ++ runes_of_ascii "a" ++ [65533; 65533]%N ++ runes_of_ascii "P" ++ [65533; 8; 65533; 27]%N ++ runes_of_ascii "H" ++ [65533; 426]%N ++ runes_of_ascii "F" ++ [65533]%N)).
Eval vm_compute in ("<<<M3600>>>" ++ check (runes_of_ascii "packet A {
} 	 // c" ++ [12288]%N ++ runes_of_ascii "
")).
Eval vm_compute in ("<<<M477>>>" ++ check (runes_of_ascii "MetaData pack
{ } 	 ")).
Eval vm_compute in ("<<<M2643>>>" ++ check (runes_of_ascii "MetaData M { x y, }")).
Eval vm_compute in ("<<<M2747>>>" ++ check ([65533; 65533; 1; 65533; 65533; 65533; 65533]%N ++ runes_of_ascii "@" ++ [65533; 767]%N ++ runes_of_ascii "<x2" ++ [65533; 65533]%N ++ runes_of_ascii "Xq" ++ [65533]%N)).
Eval vm_compute in ("<<<M3124>>>" ++ check (runes_of_ascii "packet A {
}// c 	")).
Eval vm_compute in ("<<<M3064>>>" ++ check (runes_of_ascii "packet A {
}// c" ++ [12288]%N)).
Eval vm_compute in ("<<<M126>>>" ++ check (runes_of_ascii "packet	float{ }")).
Eval vm_compute in ("<<<M4263>>>" ++ check (runes_of_ascii "packet crc {
}")).
Eval vm_compute in ("<<<M2791>>>" ++ check (runes_of_ascii "f['U26$ht_8")).
Eval vm_compute in ("<<<M2455>>>" ++ check (runes_of_ascii "optionss")).
Eval vm_compute in ("<<<M2423>>>" ++ check (runes_of_ascii "char[]")).
Eval vm_compute in ("<<<M2458>>>" ++ check (runes_of_ascii "roots")).
Eval vm_compute in ("<<<M3890>>>" ++ check (runes_of_ascii "
// x")).
Eval vm_compute in ("<<<M2134>>>" ++ check (runes_of_ascii "Met")).
Eval vm_compute in ("<<<M56>>>" ++ check (runes_of_ascii "
")).
Eval vm_compute in ("<<<M2532>>>" ++ check (runes_of_ascii "_")).
