From FP Require Import Lexer Parser ShowPT Digest Formatter.
From Coq Require Import String List NArith.
Import ListNotations.
Open Scope string_scope.
Set Printing Width 100000000.
Set Printing Depth 100000000.
Definition show_fres (r : fres) : string :=
  match r with
  | FOk s => "OK:" ++ sh_escaped s ""
  | FErr s => "ERR:" ++ sh_escaped s ""
  | FPanic p => "PANIC:" ++ p
  end.
Definition check (rs : list rune) : string := digest (show_fres (format_res rs)).
Definition full (rs : list rune) : string := show_fres (format_res rs).
Eval vm_compute in ("<<<M3581>>>" ++ check (runes_of_ascii "// top
options // c0
{ // c1
LittleEndian // c2
= // c3
true
    // c4
; // c5
ArrayPrefixLenType
    // c6
= u8 // c8
; // c9
FixedStringPadChar // c10
= '0' // c12a
  // c12b
; JavaPackage = // c15a
  // c15b
""com.example.msg""
    // c16
; // c17a
  // c17b
GoPackage // c18
=
    // c19
""msg"" // c20a
  // c20b
; // c21a
  // c21b
GoModule
    // c22
= // c23a
  // c23b
""example.com/msg"" // c24a
  // c24b
; // c25
} // c26
MetaData
    // c27
Meta // c28
{ // c29
u32
    // c30
SeqNum // c31
`sequence number`
    // c32
,
    // c33
char[
    // c34
8 // c35
] // c36
Symbol
    // c37
`symbol`
    // c38
, // c39a
  // c39b
zchar[
    // c40
5 // c41
] // c42
ZSym `z symbol` ,
    // c45
string // c46
Note , // c48a
  // c48b
Symbol
    // c49
AltSymbol `alias of symbol` // c51a
  // c51b
, // c52
f64
    // c53
Price ,
    // c55
} // c56
packet Inner // c58a
  // c58b
{ // c59a
  // c59b
u8 // c60a
  // c60b
a // c61a
  // c61b
, // c62
i16 // c63a
  // c63b
b , // c65a
  // c65b
string c , // c68a
  // c68b
} // c69a
  // c69b
packet Inner2
    // c71
{ // c72a
  // c72b
u8 // c73
a2 // c74
,
    // c75
char[ // c76
3
    // c77
] // c78
c2 // c79a
  // c79b
, // c80a
  // c80b
}
    // c81
packet
    // c82
Logon {
    // c84
u8 // c85
x ,
    // c87
string // c88
user // c89a
  // c89b
,
    // c90
repeat // c91a
  // c91b
u16
    // c92
codes
    // c93
, // c94
} packet
    // c96
Logout // c97a
  // c97b
{ // c98a
  // c98b
u16
    // c99
reason // c100a
  // c100b
, // c101
} // c102a
  // c102b
packet // c103
Empty
    // c104
{
    // c105
}
    // c106
root packet
    // c108
Msg
    // c109
{ u8
    // c111
su8 , // c113
uint8
    // c114
luint8 , // c116a
  // c116b
u16 // c117
su16
    // c118
, // c119a
  // c119b
uint16 luint16 // c121
, // c122a
  // c122b
u32
    // c123
su32 ,
    // c125
uint32 // c126a
  // c126b
luint32 // c127
, // c128
u64 // c129
su64
    // c130
,
    // c131
uint64
    // c132
luint64 , // c134
i8 si8 // c136a
  // c136b
, int8
    // c138
lint8 // c139a
  // c139b
, // c140
i16
    // c141
si16 , int16 // c144a
  // c144b
lint16
    // c145
, i32 // c147a
  // c147b
si32 // c148a
  // c148b
,
    // c149
int32
    // c150
lint32 // c151a
  // c151b
,
    // c152
i64 si64 ,
    // c155
int64 // c156a
  // c156b
lint64 // c157a
  // c157b
,
    // c158
f32 // c159
sf32 // c160
, // c161
float32 lfloat32 , f64 // c165a
  // c165b
sf64 // c166
, // c167
float64
    // c168
lfloat64 // c169
,
    // c170
char[
    // c171
6 ] fsplain // c174a
  // c174b
,
    // c175
@leftPad
    // c176
( // c177
'0'
    // c178
) char[ 4
    // c181
] // c182a
  // c182b
fs0 // c183
, // c184a
  // c184b
@rightPad // c185
( // c186a
  // c186b
'0' // c187
) char[ // c189
5
    // c190
]
    // c191
fs1
    // c192
, @leftPad // c194a
  // c194b
( // c195a
  // c195b
' '
    // c196
) char[
    // c198
6
    // c199
]
    // c200
fs2 // c201
, @rightPad // c203
( // c204
' ' ) // c206
char[ // c207
7
    // c208
] // c209a
  // c209b
fs3 // c210
, // c211a
  // c211b
@leftPad
    // c212
( '\x00'
    // c214
) char[ // c216a
  // c216b
8 // c217
] // c218
fs4
    // c219
,
    // c220
@rightPad // c221a
  // c221b
( // c222a
  // c222b
'\x00' // c223a
  // c223b
) // c224a
  // c224b
char[ 9 ] // c227a
  // c227b
fs5 // c228a
  // c228b
, // c229a
  // c229b
@leftPad // c230
( // c231
) // c232
char[ // c233a
  // c233b
10 ]
    // c235
fs6 // c236a
  // c236b
, // c237
@rightPad // c238
( // c239
) char[
    // c241
11 // c242a
  // c242b
] // c243
fs7
    // c244
, // c245
zchar[
    // c246
7 // c247
] fz
    // c249
, // c250
@leftPad // c251a
  // c251b
( '0' // c253
)
    // c254
zchar[ // c255
3 // c256a
  // c256b
] fzl0 , string // c260
s1 // c261
`doc`
    // c262
, // c263a
  // c263b
char[] s2 , // c266a
  // c266b
Inner
    // c267
, Sub // c269a
  // c269b
{
    // c270
u8 // c271
q ,
    // c273
string // c274a
  // c274b
w // c275a
  // c275b
,
    // c276
Deep
    // c277
{ // c278
u16 // c279
z // c280
,
    // c281
repeat i32 // c283
zs // c284
, // c285a
  // c285b
} // c286
,
    // c287
} // c288
, // c289
repeat // c290a
  // c290b
u8 // c291a
  // c291b
ru8 , repeat // c294a
  // c294b
u16 ru16
    // c296
, // c297
repeat // c298a
  // c298b
u32 ru32 // c300a
  // c300b
, // c301
repeat u64 // c303a
  // c303b
ru64
    // c304
, // c305a
  // c305b
repeat // c306a
  // c306b
i8 // c307a
  // c307b
ri8 , // c309
repeat // c310a
  // c310b
i16 // c311
ri16 // c312a
  // c312b
, repeat // c314
i32 ri32 // c316
, // c317a
  // c317b
repeat // c318a
  // c318b
i64 // c319a
  // c319b
ri64
    // c320
, // c321a
  // c321b
repeat // c322
f32 // c323
rf32
    // c324
,
    // c325
repeat // c326a
  // c326b
f64
    // c327
rf64 , // c329a
  // c329b
repeat // c330a
  // c330b
string // c331a
  // c331b
rstr // c332
, // c333a
  // c333b
repeat
    // c334
char[] // c335
rstr2 , repeat
    // c338
char[ // c339
3 ]
    // c341
rfs
    // c342
, // c343a
  // c343b
repeat zchar[
    // c345
3 // c346a
  // c346b
]
    // c347
rfz
    // c348
, // c349
repeat // c350
Inner2 // c351a
  // c351b
, // c352
repeat // c353
Grp // c354a
  // c354b
{ // c355
u8 k ,
    // c358
char[ // c359a
  // c359b
2
    // c360
] // c361a
  // c361b
v , } // c364a
  // c364b
,
    // c365
SeqNum // c366a
  // c366b
, // c367
SeqNum seq2
    // c369
, // c370
repeat SeqNum seqs
    // c373
, // c374a
  // c374b
Symbol // c375
, AltSymbol // c377
alt // c378a
  // c378b
, // c379a
  // c379b
ZSym , Note // c382
, // c383a
  // c383b
repeat
    // c384
Symbol
    // c385
syms // c386a
  // c386b
,
    // c387
Price // c388
px , u16 // c391a
  // c391b
MsgType // c392a
  // c392b
,
    // c393
u32 // c394
BodyLen
    // c395
@lengthOf( // c396
Body
    // c397
)
    // c398
, // c399a
  // c399b
match // c400a
  // c400b
MsgType // c401a
  // c401b
as
    // c402
Body {
    // c404
1 // c405a
  // c405b
: // c406a
  // c406b
Logon // c407a
  // c407b
, [ // c409
2
    // c410
, // c411
3 // c412a
  // c412b
] : Logout , // c416a
  // c416b
7
    // c417
:
    // c418
Logon , 9 // c421
: Empty // c423a
  // c423b
, // c424a
  // c424b
} // c425a
  // c425b
, // c426a
  // c426b
u32
    // c427
Checksum
    // c428
@calculatedFrom( ""CRC32"" // c430a
  // c430b
) // c431a
  // c431b
, // c432
} // c433
")).
Eval vm_compute in ("<<<M945>>>" ++ check (runes_of_ascii "root packet // " ++ [27880; 37322]%N ++ runes_of_ascii "
Logon
{	@lengthOf(
    options1)
    @rightPad
( '\x00') matchKey@lengthOf( roots) ,repeat i8 packetx , f32 uint8x @calculatedFrom(
    // " ++ [27880; 37322]%N ++ runes_of_ascii "
    ""CRC32""
) ,
// `tick` ""quote"" 'q'
//x
@lengthOf( rootA ) char[
// packet A { u8 x, }
// packet A { u8 x, }
007
    ]
stringy	,  zchar[65535 ] trueish @calculatedFrom( ""a\""b"" ) ,
// " ++ [128512]%N ++ runes_of_ascii " emoji
/// triple
@tag(
    10 )
    tag	{ match
body as i8i8
{  007 :
    o ,
7: Packet ,
3 : Pad, } , }, // trailing space 
@lengthOf( matchKey) match// " ++ [128512]%N ++ runes_of_ascii " emoji
len
as
    chars { 0123456789 : uint8x [ 255 , 65535 ,
""" ++ [128512]%N ++ runes_of_ascii """ ]
    : roots,
}
    , } root  packet MetaDataX { match roots
as Header  {""packet""  : _x
42
// trailing space 
//	t
: MetaDataX , ""`tick`"" :
    i64_ , [
// " ++ [27880; 37322]%N ++ runes_of_ascii "
// c
65535, ""abc"" ,
""it's"", ""abc"" ,
    // packet A { u8 x, }
    ""a\\"" ,
    // " ++ [128512]%N ++ runes_of_ascii " emoji
    ""packet"" ]// `tick` ""quote"" 'q'
: options1,}, matchKey
    `" ++ [233]%N ++ runes_of_ascii "` ,
@lengthOf(
Header
) i16
int `crlf
line`,
match
int
as o {
7 : // trailing space 
A	,//	t
}  , repeat u64 MetaDataX , @rightPad ( '\x00' ) @lengthOf( zchar)
    zchar[ 7 ] u128 ,
string
// " ++ [27880; 37322]%N ++ runes_of_ascii "
// trailing space 
_x
    @lengthOf(	metadata )`doc` ,
@rightPad
    ( // " ++ [27880; 37322]%N ++ runes_of_ascii "
'\x00' ) float string_	, } options
{x_y_z =  zchar[ 7 ] Packet  = false ; u8x
// a // b
// 50% %s
=
""packet"" uint8x= 7;_x
=' '
} options
    {As ='\x00'
u128
    //x
    =	false } // 50% %s
root packet  As
    // " ++ [128512]%N ++ runes_of_ascii " emoji
    {  @lengthOf( chars
    ) match body as Packet {
    ""packet""
    : u	, [
//x
//	t
42 , // 50% %s
""CRC32"" ]
    :float ,	[""abc"" ] : matchKey ,
    [""" ++ [233]%N ++ runes_of_ascii "t" ++ [233]%N ++ runes_of_ascii """ ]	:
Z9_
    , ""packet"" :
repeatCount }, @lengthOf( stringy)
@rightPad ( )  @leftPad	( ' '	) u
    @lengthOf( Header ) `doc`
    , metadata crc ,// " ++ [27880; 37322]%N ++ runes_of_ascii "
calculatedFrom matchKey`100% of %d`
, // a // b
repeat
int8 i8i8	,uint64 options1 `u8 x,` ,int falsey  `100% of %d` ,u crc
    ,@lengthOf( msg_type
// trailing space 
// trailing space 
)i16 pack @calculatedFrom(""packet"" ) `it's` , u8x Foo ,
    /// triple
    }
")).
Eval vm_compute in ("<<<M402>>>" ++ check (runes_of_ascii "
options {}root packet
msg_type {
match	u8x // `tick` ""quote"" 'q'
as
    zchar
{ [
    0 ,
00 ]
:metadata //x
,10
    :
    Z9_
,
""a\""b"":
    //	t
    chars	,
0 :uint8x ,
    // " ++ [27880; 37322]%N ++ runes_of_ascii "
    007 : chars /// triple
, } ,
    A @lengthOf(Pad // c
) , @leftPad(' ' )	@leftPad(' ' )
@tag( 00	)  int8 Pad @calculatedFrom( ""x y"") ,}	root
packet
    // trailing space 
    msg_type {
    i64 uint8x ,
@leftPad ( '\x00' ) Z9_ @calculatedFrom(
    """" ) ,  Pad`two words`
, } packet f32a
    {
    zchar[ 4294967296 ] // @lengthOf(
u , @leftPad ( '0'
    ) repeat uint64 zchar `crlf
line`,
    // 50% %s
    int16 msg_type`100% of %d` ,@lengthOf( crc
    )
calculatedFrom
    {
// packet A { u8 x, }
// " ++ [27880; 37322]%N ++ runes_of_ascii "
Header {matchKey
    @lengthOf( falsey
    )/// triple
,match int as
/// triple
//
BodyLength { // 50% %s
7: packetx , """ ++ [28040; 24687]%N ++ runes_of_ascii """ : msg_type , } , x @calculatedFrom(""a\""b"" ) ,match body as len { ""`tick`"": body	, """ ++ [128512]%N ++ runes_of_ascii """ :
roots  ,
// trailing space 
//
4294967296  :  packetx
    ,
/// triple
// @lengthOf(
""a\""b"" : matchKey,
    }	, } ,
    } , repeat i8i8
body ,repeat As
crc ,
match
    uint8x
as
tag
    {  [ ""a\\""
    , 7
, ""x y"" ]: float ,""a	b""
    // @lengthOf(
    :A
    ""CRC32"":
    rootA ,
[
    //	t
    ""a\""b"", ""CRC32"", 3 ,
    ""it's"" , 42 , // `tick` ""quote"" 'q'
65535
, """"]
: options1 , [ 1 ] :
    Packet, }
,
match
string_ as
u8x { 0123456789 : zchar ,
    //x
    }
    ,zchar
@calculatedFrom( """") `line1
line2`
, repeat	T { metadata@calculatedFrom(
""x y""
) , match
a1 as metadata{  4294967296	:	options1 , ""x y"" : i8i8
},
repeat  leftPad {
    char[42 ] //
float
, // a // b
} , }
, }
options { i64_ =
true }")).
Eval vm_compute in ("<<<M739>>>" ++ check (runes_of_ascii "// `tick` ""quote"" 'q'
options{options1 =
    10
    } packet packetx {
@leftPad ( ' '
) match
    x as // trailing space 
body
//	t
// trailing space 
{ [ 65535 ] : Pad
// a // b
//x
,}
, @calculatedFrom(
""abc""
    // trailing space 
    ) repeat
string u  ,
    @lengthOf( tag  )trueish As
    , @lengthOf( falsey ) zchar[	1 ]
    a1 , repeat char[]packetx
// " ++ [27880; 37322]%N ++ runes_of_ascii "
// trailing space 
`a\` ,  uint64
    rootA @calculatedFrom( ""a	b""
) `crlf
line` , string Packet `" ++ [28040; 24687; 31867; 22411]%N ++ runes_of_ascii "` , uint8 tag
    @lengthOf(  o ) , } packet Foo
{u64 u128 @lengthOf( u )
    ,@tag(	00 )@lengthOf(
    //	t
    i8i8
    ) @leftPad ( '0')char[ 1 ] calculatedFrom @lengthOf(
i64_ ) ,repeat u{matchKey
//	t
//
, repeat Packet
// trailing space 
// " ++ [27880; 37322]%N ++ runes_of_ascii "
,char[ 10 ] Z9_ // c
@lengthOf(
// trailing space 
// @lengthOf(
MetaDataX
    )  `" ++ [233]%N ++ runes_of_ascii "` ,repeat
    falsey {
zchar[0 ] u8x @lengthOf(f32a )
    , string
falsey `" ++ [28040; 24687; 31867; 22411]%N ++ runes_of_ascii "`,} , }
,charz`doc` , @tag(  10 )
char[]
u128 @lengthOf(rootA ) `doc` ,
}packet chars	{  uint8 Z9_
    , //x
} packet len// a // b
{@lengthOf( tag )@tag( 0123456789  )	@lengthOf(repeatCount)
_x
    { x Packet
    `line1
line2` , match
// a // b
// 50% %s
crc as packetx { 1
    :
    body,
255:
As , // " ++ [128512]%N ++ runes_of_ascii " emoji
""a\""b"" : As[	007	,
007	]
:
// a // b
// c
repeatCount """ ++ [233]%N ++ runes_of_ascii "t" ++ [233]%N ++ runes_of_ascii """ :
    u8x // `tick` ""quote"" 'q'
}
    // 50% %s
    , // 50% %s
uint64 leftPad @lengthOf( asx )	`` ,zchar[  007] string_, } , chars	@lengthOf(int ) //	t
`" ++ [28040; 24687; 31867; 22411]%N ++ runes_of_ascii "`
,}")).
Eval vm_compute in ("<<<M3916>>>" ++ check (runes_of_ascii "// a // b
    root
	packet	asx// packet A { u8 x, }
	  { }
	root

packet

asx 
{

    @calculatedFrom( 
// 50% %s
	  ""\n"")	metadata
    @lengthOf(
    T  )  ,	@lengthOf(
	x )	Logon	@calculatedFrom(
	"""")	// 50% %s
  ,  @calculatedFrom(""a	b"" )

    x_y_z`a\`

    ,  stringy { uint64

    float	`doc`

    ,	//
  },
@tag(

7)	@lengthOf( 
MetaDataX

    ) @tag(
	10

)string 
packetx 
`a\`
    , 
int 
@calculatedFrom(
""it's"")	,

    A

trueish,

@calculatedFrom(	""{,}"" ) 
i32 chars , } root

    packet  lengthOf{ @leftPad	(	'0'

)
	@lengthOf(float )@tag(	00

    // c
  //	t

	)
	// `tick` ""quote"" 'q'

repeat	f32
metadata
	``
	, 
@lengthOf(	As  // trailing space 
)// a // b

	float32
msg_type `line1
line2`
	,
@lengthOf(

    repeatCount )	@lengthOf(	Logon 
) char[  
      // 50% %s
  	4294967296]
    BodyLength
,  }	packet
	// packet A { u8 x, }

	packetx{

    @leftPad  (	)

    Logon	// " ++ [27880; 37322]%N ++ runes_of_ascii "
    `u8 x,` ,
match matchKey

as
MetaDataX  {
1
    :

_x,  """ ++ [128512]%N ++ runes_of_ascii """
:
f32a
00 // c
: x, }	,
    @calculatedFrom(""a	b""  )	repeat
x_y_z
x_y_z
    ,
	zchar[
	007
	]
calculatedFrom

`100% of %d` ,
packetx 	 // @lengthOf(

@lengthOf(  // a // b

msg_type
    ) `a\` ,

    char[	// a // b
  007 
]	x_y_z 
`it's`	// trailing space 
,

    }

")).
Eval vm_compute in ("<<<M887>>>" ++ check (runes_of_ascii "
root	packet
uint8x
{ }packet i8i8 { @lengthOf( x_y_z )
// 50% %s
//x
char[]	BodyLength @calculatedFrom(
""a\\"")`crlf
line`// trailing space 
, @tag( 1
    //	t
    ) tag { match repeatCount as repeatCount{ ""a	b"" //	t
: body,	} ,
},x_y_z@lengthOf( trueish ) ,
    // a // b
    f64 crc,@calculatedFrom(
""x y"")	@tag(
0// " ++ [128512]%N ++ runes_of_ascii " emoji
) @tag( 65535 )
int16 u128 @lengthOf(string_  ) `tab	here` ,char[	0123456789]Foo @calculatedFrom(""CRC32"") , @calculatedFrom(""a\\"")
    match T
as msg_type{
[65535,	""x y"" ,3 ,  255 ,  0 ] :
T , [""CRC32"", ""1"" , 3 , 10 ,65535	]	:u
    ,
    4294967296:  a1// c
, }
    , crc `doc` , @calculatedFrom(	""" ++ [28040; 24687]%N ++ runes_of_ascii """ )
    // c
    @tag( 42
) uint16 Foo, }
// " ++ [27880; 37322]%N ++ runes_of_ascii "
// c
root //	t
packet
// c
/// triple
tag {calculatedFrom `tab	here` , } packet metadata
{ u64
uint8x	@calculatedFrom(
""// no comment"") , } root packet
chars {@tag( 255
) @calculatedFrom( ""\n"" )@lengthOf( Packet
)repeat // 50% %s
options1
{	f32 MetaDataX @calculatedFrom( ""a\""b""
),
// c
/// triple
repeat
char[ 0123456789
]
// `tick` ""quote"" 'q'
// packet A { u8 x, }
Foo , // packet A { u8 x, }
float32
    charz
// packet A { u8 x, }
// 50% %s
@lengthOf( msg_type ) `a\`
    , } , }")).
Eval vm_compute in ("<<<M1407>>>" ++ check (runes_of_ascii "options {
	StringPrefixLenType = u16;
	ArrayPrefixLenType = u16;
}

packet SampleBinary {
	uint16 MsgType `" ++ [28040; 24687; 31867; 22411]%N ++ runes_of_ascii "`,
	u16 BodyLenght @lengthOf(Body) `" ++ [28040; 24687; 20307; 38271; 24230]%N ++ runes_of_ascii "`,
	match MsgType as Body {
		1 : Logon,
		2 : Logout,
		3 : Heartbeat,
		4 : RiskControlRequest,
		5 : RiskControlResponse,
	},
		@calculatedFrom(""CRC32"")
	u32 Ckecksum `" ++ [26657; 39564; 21644]%N ++ runes_of_ascii "`,
}

packet Logon {
	 @leftPad('0')
	char[10] UserName `" ++ [29992; 25143; 21517]%N ++ runes_of_ascii "`,
	string Password `" ++ [23494; 30721]%N ++ runes_of_ascii "`,
	uint64 ClientId `" ++ [23458; 25143; 31471]%N ++ runes_of_ascii "ID`,
	u16 HeartbeatInterval `" ++ [24515; 36339; 38388; 38548]%N ++ runes_of_ascii "`,
}

packet Logout {
	  @rightPad('0')
	char[10] UserName `" ++ [29992; 25143; 21517]%N ++ runes_of_ascii "`,
	uint64 ClientId `" ++ [23458; 25143; 31471]%N ++ runes_of_ascii "ID`,
}

packet Heartbeat {
}

packet RiskControlRequest {
	string UniqueOrderId `" ++ [21807; 19968; 35746; 21333; 21495]%N ++ runes_of_ascii "`,
	char[16] ClOrdID `" ++ [23458; 25143; 35746; 21333; 21495]%N ++ runes_of_ascii "`,
	char[3] MarketID `" ++ [24066; 22330]%N ++ runes_of_ascii "id`,
	char[12] SecurityID `" ++ [35777; 21048; 20195; 30721]%N ++ runes_of_ascii "`,
	char Side `" ++ [20080; 21334; 26041; 21521]%N ++ runes_of_ascii "`,
	char OrderType `" ++ [35746; 21333; 31867; 22411]%N ++ runes_of_ascii "`,
	u64 Price `" ++ [20215; 26684]%N ++ runes_of_ascii "`,
	u32 Qty `" ++ [25968; 37327]%N ++ runes_of_ascii "`,
	repeat string ExtraInfo `" ++ [38468; 21152; 20449; 24687]%N ++ runes_of_ascii "`,
	repeat SubOrder {
			char[16] ClOrdID `" ++ [23376; 35746; 21333; 21495]%N ++ runes_of_ascii "`,
			u64 Price `" ++ [23376; 35746; 21333; 20215; 26684]%N ++ runes_of_ascii "`,
			u32 Qty `" ++ [23376; 35746; 21333; 25968; 37327]%N ++ runes_of_ascii "`,
		},
}

packet RiskControlResponse {
	string UniqueOrderId `" ++ [21807; 19968; 35746; 21333; 21495]%N ++ runes_of_ascii "`,
	i32 Status `" ++ [29366; 24577]%N ++ runes_of_ascii "`,
	string Msg `" ++ [32467; 26524; 20449; 24687]%N ++ runes_of_ascii "`,
	repeat Detail,
}

packet Detail {
	string RuleName `" ++ [35268; 21017; 21517; 31216]%N ++ runes_of_ascii "`,
	u16 Code `" ++ [21407; 22240; 20195; 30721]%N ++ runes_of_ascii "`,
}")).
Eval vm_compute in ("<<<M3530>>>" ++ check (runes_of_ascii "packet NewOrder { // c2a
  // c2b
u32 // c3
qty // c4a
  // c4b
, } // c6
packet // c7a
  // c7b
Cancel
    // c8
{ // c9
u64 // c10
id
    // c11
, // c12
}
    // c13
packet
    // c14
Business // c15a
  // c15b
{ u8 // c17
Kind , match // c20
Kind // c21a
  // c21b
as // c22
Detail
    // c23
{ 1 // c25a
  // c25b
: NewOrder // c27
,
    // c28
2 : // c30
Cancel ,
    // c32
} , } packet // c36a
  // c36b
TcpFrame // c37a
  // c37b
{
    // c38
u8
    // c39
T ,
    // c41
match // c42
T // c43a
  // c43b
as Body // c45a
  // c45b
{ // c46
1 // c47a
  // c47b
: Business // c49a
  // c49b
, // c50
} // c51a
  // c51b
, // c52
} // c53
packet UdpFrame // c55a
  // c55b
{
    // c56
u8 // c57
U // c58a
  // c58b
, // c59a
  // c59b
match // c60a
  // c60b
U as // c62a
  // c62b
Body // c63a
  // c63b
{ // c64
1 : Business
    // c67
, // c68
} // c69a
  // c69b
,
    // c70
Business // c71a
  // c71b
extra // c72a
  // c72b
, } // c74
root packet Wire // c77
{ TcpFrame // c79a
  // c79b
,
    // c80
UdpFrame , // c82
} ")).
Eval vm_compute in ("<<<M3810>>>" ++ check (runes_of_ascii "

  packet o { match

asx as  u8x

    { [
    ""x y"" ,//
    ""CRC32"" ,  ""// no comment""  ,	""a	b""
, 
""abc""  , 	 // `tick` ""quote"" 'q'
  ""// no comment""]
:

Foo , } , int64
uint8x  @lengthOf(

T 	 // trailing space 
      )	,char[
    4294967296	//	t
  ]roots ,// a // b
repeat  Pad {

string
zchar @lengthOf(
asx	)	,

    repeat lengthOf { 
string
u
    @lengthOf(
    int), 
repeat	float64 Packet
,} , 
match
    uint8x
as

    rootA

    { 1
:o
	,

    },

}  , // @lengthOf(
repeat

char[65535 

    //

	//x
    ]
	crc
,@lengthOf(  options1  )
string	/// triple
Packet	`crlf
line`
	, // `tick` ""quote"" 'q'
	pack
{
	u64
    i64_ `say ""hi""`  ,
    i32  a1  `say ""hi""`
, match
	Z9_
as 

    // `tick` ""quote"" 'q'
  msg_type
	{
65535:
u,
    [
    7
,
7, 42
, """ ++ [28040; 24687]%N ++ runes_of_ascii """]:
asx,

    """ ++ [233]%N ++ runes_of_ascii "t" ++ [233]%N ++ runes_of_ascii """
:
    _x
    ,[
255
]
        // 50% %s
// trailing space 
	:

metadata  ,}
	,i32  T  `" ++ [28040; 24687; 31867; 22411]%N ++ runes_of_ascii "` , }

,
    //
	  uint32
rootA, @tag( 007
	) repeat f64 pack ,} ")).
Eval vm_compute in ("<<<M1203>>>" ++ check (runes_of_ascii "packet float { @tag( 3
// " ++ [27880; 37322]%N ++ runes_of_ascii "
// packet A { u8 x, }
) repeat zchar[
3 ]	falsey, @leftPad ( )	packetx calculatedFrom , o  @lengthOf(
i8i8 )	,	i64 o
,  char[
0
    ]stringy , match metadata  as metadata
//
//	t
{0
    :BodyLength ""it's""
:u 3	: chars ,
    255
    : asx , [	4294967296  ,
    10 ] : int  , 4294967296 :stringy
    , } , Foo { match
    chars as A {
    ""a\\"" : Packet , [0123456789 // `tick` ""quote"" 'q'
,0123456789 // `tick` ""quote"" 'q'
,//x
0123456789 , """ ++ [128512]%N ++ runes_of_ascii """ ,
    ""1"", 3 ,
""CRC32"" ] :
msg_type, } , match body
as
    int{ 7 : packetx
    // packet A { u8 x, }
    , } , i8 zchar //
@calculatedFrom( ""\n""
) , match stringy
// `tick` ""quote"" 'q'
// 50% %s
as Foo
{
    65535  :	calculatedFrom// c
}, }
    ,@rightPad ('\x00'  )
MetaDataX
    pack `" ++ [28040; 24687; 31867; 22411]%N ++ runes_of_ascii "`
, }options { roots
= 65535 ;
} MetaData //
float
    // " ++ [128512]%N ++ runes_of_ascii " emoji
    {Foo
f32a , } options
{ f32a  = //
1  }  options { Packet = '\x00';	}")).
Eval vm_compute in ("<<<M3692>>>" ++ check (runes_of_ascii "

  packet
    string_
	{@calculatedFrom(
	""" ++ [128512]%N ++ runes_of_ascii """ )
zchar[ 3

    ] packetx
	, 
}

packet
//x

  // trailing space 
MetaDataX{ x	T,@leftPad
	( '\x00'  ) 

/// triple

  // packet A { u8 x, }

  zchar[	// `tick` ""quote"" 'q'
    10]

leftPad

    @lengthOf( chars

    ) `" ++ [233]%N ++ runes_of_ascii "` , }

packet len { @calculatedFrom(
    ""1""  ) @tag(	// `tick` ""quote"" 'q'
	  4294967296 )
leftPad	, repeat i8i8 {string_ @lengthOf(rootA  )
	, } 
,
    @lengthOf( 
leftPad )
char	zchar, 
@lengthOf(
MetaDataX ) // 50% %s
  @tag(
10
    )	@rightPad
('0'	)	options1 // " ++ [128512]%N ++ runes_of_ascii " emoji
      matchKey	`tab	here`	,@tag( 1 ) 	 //
  repeat
	    // packet A { u8 x, }
  float
, 
} 
MetaData
stringy
    {
    }packet packetx
{

@tag(	// c
	42)  @leftPad
( '0' )	int8  f32a  ,
@leftPad
    (

    ) @calculatedFrom(  ""a\""b"" 
)

    @rightPad	( '\x00' )
u16
    packetx @calculatedFrom( ""it's""
	) ,  } ")).
Eval vm_compute in ("<<<M1278>>>" ++ check (runes_of_ascii "MetaData asx { msg_type  leftPad ,roots T // `tick` ""quote"" 'q'
`{ , }` , } root packet
MetaDataX	{ i16 u @calculatedFrom( ""packet""
    ) , match
    As as	chars {""a	b""
: metadata ,
    [ //	t
""a	b"" ,""1""	,""// no comment"" , 0123456789
    //	t
    , """" , ""x y"" ,00	,0
    ]:x ""packet"" : stringy 10
: Logon// @lengthOf(
,
// " ++ [27880; 37322]%N ++ runes_of_ascii "
// a // b
[ 7 , 4294967296 //	t
]
:
calculatedFrom
    ,""it's""
:  matchKey } , uint32 trueish  ``  ,
    string  string_,	} packet
Foo
{ Foo@lengthOf( f32a )
, repeat metadata
{
// c
// " ++ [27880; 37322]%N ++ runes_of_ascii "
char[// " ++ [128512]%N ++ runes_of_ascii " emoji
255
]
    /// triple
    matchKey `{ , }`
    ,repeat string_ Pad
    //x
    , } ,
repeat// " ++ [27880; 37322]%N ++ runes_of_ascii "
tag // " ++ [27880; 37322]%N ++ runes_of_ascii "
{ i32 options1 , falsey@calculatedFrom(/// triple
""x y"" // packet A { u8 x, }
), float
{ i64 body @lengthOf( metadata )
,int64 falsey`say ""hi""`, }  ,/// triple
}
    ,
    roots roots ``
,}
")).
Eval vm_compute in ("<<<M4464>>>" ++ check (runes_of_ascii "
MetaData Packet {

    }
	packet stringy

    {

    zchar[
00
]
tag  @lengthOf( u	)  /// triple
	`it's` 
,
	repeat
char[
255]
    Foo`line1
line2`
    , @tag(

0123456789 )
a1
    @lengthOf(  Header
)
, 
@rightPad (
'\x00'
)
match

MetaDataX  as u128 {// 50% %s
  [  """ ++ [28040; 24687]%N ++ runes_of_ascii """]
    :calculatedFrom,
0123456789  :
    _x

    ,""1""

    :	u
[ """ ++ [28040; 24687]%N ++ runes_of_ascii """ , ""`tick`"" ] 
  //x

// @lengthOf(
  :int
	,""\n""  :
x
	,7  : 
asx

,

} ,As

crc
    `doc` ,

    @lengthOf(	charz 
// " ++ [128512]%N ++ runes_of_ascii " emoji

  )	uint8x chars	, 
  /// triple
	}
options 
{ i64_	=
zchar[	007  ]

    ;

    pack =

    42

; 	 // 50% %s
	tag  =// " ++ [128512]%N ++ runes_of_ascii " emoji
	42  ; }
options
{ 
metadata

// trailing space 
    =zchar[
65535

];
    a1

    =

    '0' 	 // 50% %s
      ;

    roots =
    00 o
    =42  Pad=	false	; }
")).
Eval vm_compute in ("<<<M547>>>" ++ check (runes_of_ascii "// c
MetaData options1 { Pad body , int64 As , uint8  f32a`" ++ [233]%N ++ runes_of_ascii "`, /// triple
char
    // trailing space 
    repeatCount  ,	} root packet calculatedFrom// @lengthOf(
{ match Packet as calculatedFrom
{ 3
    //
    :lengthOf ,[  65535  ] :roots, //
0123456789 : // trailing space 
A , 42  :// c
Logon ,  [65535 ]  :i64_
    [007
,	4294967296 ] : o, }
    , }	packet BodyLength {
@tag( // trailing space 
007) @tag( 0123456789  )match
Pad as// 50% %s
i8i8
    {	""" ++ [233]%N ++ runes_of_ascii "t" ++ [233]%N ++ runes_of_ascii """ :
chars, 4294967296 :
    A , 10 :
x //	t
,""" ++ [233]%N ++ runes_of_ascii "t" ++ [233]%N ++ runes_of_ascii """ : crc""\n"" : options1 , }// " ++ [27880; 37322]%N ++ runes_of_ascii "
,}packet matchKey
//
// packet A { u8 x, }
{
u8 repeatCount ,repeat
    zchar[
0123456789 ]stringy ,@leftPad
( )@tag(
10)
    @tag(	255
    // `tick` ""quote"" 'q'
    )
//
// 50% %s
options1 @lengthOf( x_y_z )	, }
")).
Eval vm_compute in ("<<<M1307>>>" ++ check (runes_of_ascii "root
    // " ++ [128512]%N ++ runes_of_ascii " emoji
    packet falsey { @lengthOf(leftPad)	repeat
    a1 Foo
`
`
//x
// @lengthOf(
,repeat crc ,
string_
{ repeatCount ,packetx , u8	metadata @lengthOf( body// c
)`say ""hi""` , char// trailing space 
Packet @calculatedFrom( ""// no comment"" ) //
`{ , }`, } , @lengthOf( u8x ) zchar[ 65535 ] lengthOf @lengthOf(
    crc),
@tag( 4294967296 ) @lengthOf(
string_ )@rightPad( ' '	)
repeat int64 As	,
    //	t
    u16 options1 , @calculatedFrom(	""a\\"")repeat
    float {
    zchar[ 3 ] crc , }
    , int8 lengthOf `" ++ [233]%N ++ runes_of_ascii "` , u8x //
@lengthOf( i8i8
) `{ , }` ,
} packet
options1 //x
{
    asx @lengthOf( matchKey ) ,}
options{	i64_ =
    // @lengthOf(
    zchar[65535
]	; u128	=""// no comment"" leftPad = ""\n"" ;}
")).
Eval vm_compute in ("<<<M0>>>" ++ check (runes_of_ascii "packet body{ @tag( 0123456789 )repeatCount { // @lengthOf(
i32
roots	@calculatedFrom( ""it's""
    )
    // trailing space 
    ,
    char[]repeatCount @calculatedFrom(
""packet"" ) `" ++ [28040; 24687; 31867; 22411]%N ++ runes_of_ascii "` // " ++ [128512]%N ++ runes_of_ascii " emoji
,repeat u16 roots , match lengthOf as As //	t
{ [ ""packet"" ,""" ++ [28040; 24687]%N ++ runes_of_ascii """,	255
, 42 ,""\" ++ [233]%N ++ runes_of_ascii """ ] : x_y_z ,
    } , } , trueish ,@tag( 65535 )
@tag( 255  ) /// triple
@tag(00) chars @calculatedFrom(""it's"" ) ,	match o as
    // `tick` ""quote"" 'q'
    roots {
// " ++ [27880; 37322]%N ++ runes_of_ascii "
// c
""{,}""
: options1 , """ ++ [28040; 24687]%N ++ runes_of_ascii """
    :	lengthOf	, 00: pack  ,[ ""a\""b"" ] :
    msg_type ,1 : i8i8
, [ 10  , 3 ,"""" ] : falsey ,} , }
root packet// 50% %s
Z9_ {repeat
char[]
Packet
    , string chars
@calculatedFrom( ""a\""b"" )`100% of %d`,
}
")).
Eval vm_compute in ("<<<M4316>>>" ++ check (runes_of_ascii "packet u128 {
    zchar[7] Logon ``,
    @leftPad('\x00')
    repeat Logon `
    `,
    Pad MetaDataX,
    @rightPad()
    char pack,
    @lengthOf(matchKey)
    repeat roots {
        char[00] Logon `// not a comment`,
    },
    // 50% %s
    @calculatedFrom(""1"")
    repeat x_y_z {
        tag MetaDataX `two words`,
        msg_type @calculatedFrom(""" ++ [233]%N ++ runes_of_ascii "t" ++ [233]%N ++ runes_of_ascii """) `" ++ [28040; 24687; 31867; 22411]%N ++ runes_of_ascii "`,
        int64 zchar @calculatedFrom(""a\\""),
        BodyLength @lengthOf(tag),
    },
    uint64 a1,
}

packet x {
    repeat zchar[10] falsey `u8 x,`,
}// " ++ [27880; 37322]%N ++ runes_of_ascii "

options {
    //	t
    int = ""\n""
    float = ""\n""
    float = ""`tick`"";
}

root packet tag {
    //x
    x_y_z `crlf
    line`,
}")).
Eval vm_compute in ("<<<M500>>>" ++ check (runes_of_ascii "// trailing space 
root
packet msg_type {
@tag(
    007 )char A
@lengthOf(
_x )
    , @tag(00 )//	t
int16
    chars `// not a comment`,Logon stringy , @lengthOf(_x )// @lengthOf(
@tag( 0123456789	)	@tag( 007 ) repeat
int, repeatCount `
` ,@tag( 0123456789 )
@calculatedFrom( ""\n"" )
i8i8	calculatedFrom
, repeat roots {body@lengthOf( msg_type) ``, } , @rightPad	( )// packet A { u8 x, }
match
// trailing space 
// trailing space 
packetx as Z9_ {
    [ 3// `tick` ""quote"" 'q'
]
: leftPad , 0123456789: A , 00: crc
,
007: len	,[
""a	b"" ] : Pad ,  ""a	b""
:/// triple
tag ,},msg_type leftPad	`tab	here` , // packet A { u8 x, }
}
")).
Eval vm_compute in ("<<<M1360>>>" ++ check (runes_of_ascii "packet
stringy { Packet// a // b
@calculatedFrom(  ""a\""b""
)
    ,
@leftPad
( '\x00'
) chars roots `two words`
,
@lengthOf(
    charz )char[]
// a // b
/// triple
crc	, } packet
    int {
char[ 255 // `tick` ""quote"" 'q'
]
    i8i8`two words` ,
    match options1 as  T {[
    ""1""
// `tick` ""quote"" 'q'
// " ++ [27880; 37322]%N ++ runes_of_ascii "
, ""`tick`""  , 42 , ""CRC32""
, /// triple
0123456789// `tick` ""quote"" 'q'
] : // a // b
repeatCount,""\" ++ [233]%N ++ runes_of_ascii """ :
    f32a//
, 0:rootA , } , @calculatedFrom(
    ""it's""
    ) As
    o	, @tag(10 ) zchar[ 255
    ]
    // `tick` ""quote"" 'q'
    trueish @calculatedFrom(  """ ++ [233]%N ++ runes_of_ascii "t" ++ [233]%N ++ runes_of_ascii """)	,	} options{ u8x= """"
}
")).
Eval vm_compute in ("<<<M748>>>" ++ check (runes_of_ascii "packet	_x {
@tag(255 )
    Header@calculatedFrom(
    ""`tick`"" ) , @tag( 00 ) @lengthOf( metadata ) repeat x_y_z repeatCount `crlf
line`
// trailing space 
// @lengthOf(
,//x
@rightPad(
' ' ) //x
string zchar	`
` , char[]T , match	Z9_ as
string_{
0:
    //	t
    pack ,
    0123456789 : Pad
7
    : float
// packet A { u8 x, }
//x
[ 0 ,
0123456789
    , 3 ] :
    //
    As [ 255 , 00	] : BodyLength , }
,repeat
BodyLength `doc` , // `tick` ""quote"" 'q'
f32a Packet `doc` , calculatedFrom
@calculatedFrom(""// no comment"" )
`crlf
line`
, u16 zchar ,
repeat u128 ,}
")).
Eval vm_compute in ("<<<M1003>>>" ++ check (runes_of_ascii "packet falsey { @calculatedFrom( ""it's"" ) @tag(
1 //x
)
match Header	as	f32a
    { 255 : o	,
[ 255 ,4294967296
] : metadata
//
// c
10 :
    matchKey	[  42 ,
    3 ] : len ,	[007] // trailing space 
: charz, //x
[
0 ]//
:matchKey // trailing space 
, } , //	t
u32 calculatedFrom `line1
line2` ,match  A as i64_
{""\" ++ [233]%N ++ runes_of_ascii """ :	charz  , ""// no comment""
: // " ++ [27880; 37322]%N ++ runes_of_ascii "
matchKey , }
    //x
    , }
    //x
    packet
Logon{
char[]
T
    // " ++ [128512]%N ++ runes_of_ascii " emoji
    `two words`,
    @calculatedFrom(""" ++ [28040; 24687]%N ++ runes_of_ascii """ ) repeat int32 msg_type , char[ 65535] pack `it's`
    //	t
    , }
")).
Eval vm_compute in ("<<<M270>>>" ++ check (runes_of_ascii "
root packet metadata
    { // `tick` ""quote"" 'q'
@calculatedFrom(""" ++ [128512]%N ++ runes_of_ascii """	)	match  o // " ++ [27880; 37322]%N ++ runes_of_ascii "
as pack {""packet"" : A// `tick` ""quote"" 'q'
,[
    // @lengthOf(
    65535	,0123456789 ,
    // trailing space 
    4294967296,
    255	, ""`tick`""  ,// 50% %s
""packet"", """ ++ [28040; 24687]%N ++ runes_of_ascii """ ] : packetx  """"// " ++ [27880; 37322]%N ++ runes_of_ascii "
: zchar
    42 : // " ++ [27880; 37322]%N ++ runes_of_ascii "
packetx , }, //	t
@rightPad( ' ' )	body , char[  7 ]
BodyLength@lengthOf( _x )
,
    //	t
    repeat
f32a{
    i16
    roots @lengthOf(
    len ) , }
    ,
    options1
// a // b
// trailing space 
@calculatedFrom( ""\n"" ), }
")).
Eval vm_compute in ("<<<M4197>>>" ++ check (runes_of_ascii "// trailing space 
root packet uint8x {
    char[] repeatCount,
    repeat asx {
        char[00] stringy @lengthOf(Foo),
        i8 string_,
    },
    float64 i8i8 `a\`,
    @tag(0)
    MetaDataX {
        repeat uint16 stringy,
        repeat x_y_z,
        asx,
    },
    @rightPad('\x00')
    repeat char[7] metadata,
    i16 x,
    match falsey as asx {
        ""a\""b"" : u,
    },
}

options {
    // 50% %s
    A = string
    o = i32;
    Pad = ""abc""
    _x = true;
}

options {
    Pad = zchar[42];
}")).
Eval vm_compute in ("<<<M4542>>>" ++ check (runes_of_ascii "packet stringy {
    // trailing space 
    //x
    match falsey as uint8x {
        ""a\\"" : As,
        ""1"" : f32a,
        ""it's"" : MetaDataX,
        65535 : msg_type,
        """ ++ [128512]%N ++ runes_of_ascii """ : matchKey,
    },
}

packet trueish {
    string_ u8x,
    repeat string_ {
        // a // b
        msg_type {
            charz @lengthOf(u8x),
        },
    },
    @lengthOf(body)
    zchar[7] string_ `say ""hi""`,
    char[255] uint8x @calculatedFrom(""\" ++ [233]%N ++ runes_of_ascii """) `a\`,
}

MetaData tag {
    As roots,
}")).
Eval vm_compute in ("<<<M895>>>" ++ check (runes_of_ascii "packet	A
    {
repeat body
,
    @tag(
// packet A { u8 x, }
// trailing space 
0123456789 )  @tag( 255 ) @lengthOf(	body )  repeat	crc { match MetaDataX
    as u
    {42
: A , """ ++ [233]%N ++ runes_of_ascii "t" ++ [233]%N ++ runes_of_ascii """ :_x} ,
    repeat
    // " ++ [128512]%N ++ runes_of_ascii " emoji
    float64 packetx `two words`	,
}//	t
,BodyLength`{ , }`// 50% %s
,
    }packet tag{Logon // `tick` ""quote"" 'q'
trueish // `tick` ""quote"" 'q'
, crc@calculatedFrom( """ ++ [233]%N ++ runes_of_ascii "t" ++ [233]%N ++ runes_of_ascii """) ,
@tag( 1
)  zchar[
//x
/// triple
007
] packetx	`it's`
, // c
}
")).
Eval vm_compute in ("<<<M4547>>>" ++ check (runes_of_ascii "packet BodyLength {
    uint16 crc @calculatedFrom(""" ++ [28040; 24687]%N ++ runes_of_ascii """) `crlf
        line`,
    int `// not a comment`,
    // @lengthOf(
    // trailing space 
    @leftPad('0')
    string tag,
    string_,
    f64 zchar,
    metadata @calculatedFrom(""a\\""),
    @tag(00)
    repeat int8 u8x,
    match int as o {
        ""// no comment"" : body,
        ""a	b"" : trueish,
        007 : falsey,
        ""a\""b"" : tag,
        10 : trueish,
    },
    Pad,
}")).
Eval vm_compute in ("<<<M576>>>" ++ check (runes_of_ascii "options { pack // @lengthOf(
= false
    //
    ; i64_ =""1"" len =
' '	}
// @lengthOf(
// " ++ [27880; 37322]%N ++ runes_of_ascii "
packet
Z9_ { repeat
char[
1
] i8i8 `
` , @lengthOf(
    crc ) options1// a // b
{ repeat char[]	f32a
    `{ , }` , match uint8x as _x {
    ""packet"" : charz  ,	""\" ++ [233]%N ++ runes_of_ascii """ :	trueish ,	[
007 , ""abc""	]
: i64_ ,
    007
: o,
    4294967296
    // c
    : options1 , }, repeat
uint8x , }, char[65535  ]repeatCount `100% of %d` ,// a // b
}
")).
Eval vm_compute in ("<<<M3764>>>" ++ check (runes_of_ascii "options {
    Pad = true;// " ++ [27880; 37322]%N ++ runes_of_ascii "
}

root packet u128 {
    repeat zchar[0123456789] x,
    @calculatedFrom(""" ++ [28040; 24687]%N ++ runes_of_ascii """)
    @tag(7)
    i32 Logon,
    matchKey u128 `100% of %d`,
    repeat lengthOf As `100% of %d`,
    match x_y_z as As {
        ""x y"" : stringy,
        """ ++ [233]%N ++ runes_of_ascii "t" ++ [233]%N ++ runes_of_ascii """ : Logon,
        [65535, 007] : Pad,
    },
    f32 leftPad,
    // trailing space 
    @rightPad()
    char[] uint8x @lengthOf(Foo) `it's`,
}")).
Eval vm_compute in ("<<<M716>>>" ++ check (runes_of_ascii "options {
a1
    =
00
    }	root packet roots {
zchar[ 65535 ] T `tab	here` ,// @lengthOf(
uint8 repeatCount
, @lengthOf( chars ) @calculatedFrom(
""\" ++ [233]%N ++ runes_of_ascii """)match //
roots as MetaDataX {  """" :Z9_	,
}
, } MetaData repeatCount // @lengthOf(
{ string _x
, zchar[ 0]
    body ,float64
Pad
    `" ++ [233]%N ++ runes_of_ascii "` ,
// 50% %s
// c
} packet // " ++ [27880; 37322]%N ++ runes_of_ascii "
a1
    {
u32 Z9_
,} packet x_y_z {repeat packetx `// not a comment` ,  }
")).
Eval vm_compute in ("<<<M3848>>>" ++ check (runes_of_ascii "packet matchKey {
    char[7] T @lengthOf(matchKey),
    match leftPad as options1 {
        [""x y""] : As,
    },
    falsey @calculatedFrom(""{,}""),
    @rightPad('0')
    @calculatedFrom(""a\\"")
    zchar[4294967296] asx `doc`,
    len,
    body @calculatedFrom(""abc""),
    i64 len @calculatedFrom(""`tick`"") `100% of %d`,
    @lengthOf(a1)
    char[] metadata,//x
}

options {
}")).
Eval vm_compute in ("<<<M914>>>" ++ check (runes_of_ascii "root packet
Logon
{ zchar[ 4294967296  ]A , // trailing space 
@tag( 007 )repeat
    a1
    { packetx@calculatedFrom(
    ""a\""b"" ) ,repeat //x
crc {
leftPad {char[]
float , rootA	,  repeat
charz
    `100% of %d` , } ,// c
}, } ,	@lengthOf( Z9_ ) charz @calculatedFrom( """ ++ [233]%N ++ runes_of_ascii "t" ++ [233]%N ++ runes_of_ascii """ )
    `
` , }
options { i8i8 = '\x00' ; u8x = char[	7]
}	root packet BodyLength // c
{ }")).
Eval vm_compute in ("<<<M698>>>" ++ check (runes_of_ascii "root packet x_y_z { repeat	uint8
    asx
// packet A { u8 x, }
// c
,u128 string_
, uint8 options1 @calculatedFrom( // a // b
""x y""	) ,
    } options	{ crc =
    ""`tick`"" ; f32a= // a // b
'\x00' o
    = 1 u128
=// `tick` ""quote"" 'q'
string; }
    // 50% %s
    MetaData
// `tick` ""quote"" 'q'
// trailing space 
Header {a1 Logon ,
/// triple
// c
}
")).
Eval vm_compute in ("<<<M4442>>>" ++ check (runes_of_ascii "packet trueish {
    trueish uint8x,
    char[3] roots `" ++ [233]%N ++ runes_of_ascii "`,
    int16 x_y_z,
}

MetaData o {
    // trailing space 
    f64 stringy `100% of %d`,
    Z9_ len,
    len x,
    char[00] _x,
}

MetaData string_ {
    msg_type T,
    f32 tag `say ""hi""`,
    char[] asx `doc`,
    u asx,
    char[65535] trueish,
    zchar[0123456789] asx,
}")).
Eval vm_compute in ("<<<M3693>>>" ++ check (runes_of_ascii "packet falsey {
    // @lengthOf(
    @rightPad(' ')
    int a1,
    @calculatedFrom(""packet"")
    @lengthOf(lengthOf)
    repeat uint64 Logon,
    char[3] T `crlf
    line`,
    @rightPad()
    @tag(255)
    @lengthOf(BodyLength)
    repeat char[007] asx,
    repeat _x Pad `a\`,
    int16 asx ``,
    char uint8x `doc`,
}")).
Eval vm_compute in ("<<<M21>>>" ++ check (runes_of_ascii "packet f32a{}options// packet A { u8 x, }
{
Pad
    =
    i8 } root
packet Logon {	string o `doc` , @lengthOf(
    pack // trailing space 
) match
    o as u
{
    4294967296 :
    calculatedFrom ,  [ """ ++ [28040; 24687]%N ++ runes_of_ascii """,""x y"" ] :
    A,	} ,
    zchar[
007 ] // trailing space 
Logon , @lengthOf( o) repeat//
char[
0 ]_x
, }")).
Eval vm_compute in ("<<<M4108>>>" ++ check (runes_of_ascii "
MetaData

    chars

{ 
f32 
u128
	`{ , }`,
zchar[1
]
chars	,
}

    MetaData x //

{

u8 
	    /// triple
// `tick` ""quote"" 'q'

pack 
`u8 x,`
,

    float32
MetaDataX 
	// @lengthOf(
    `crlf
line` 	 // @lengthOf(
	,  string 
Packet

    ,
char[] Z9_
    ``
    , zchar[ 3 ]A  ,}")).
Eval vm_compute in ("<<<M960>>>" ++ check (runes_of_ascii "packet crc{ @lengthOf(f32a
)@tag(3
)repeat uint32 repeatCount,@tag(
    3
)
msg_type @lengthOf( MetaDataX
// a // b
// packet A { u8 x, }
) ,
    @leftPad (
'0')
    match roots
as
i64_{
    //
    7  : As } , }
    root packet u128{
} packet lengthOf {
// @lengthOf(
//	t
int16 u8x , }
")).
Eval vm_compute in ("<<<M1944>>>" ++ check (runes_of_ascii "packet	packetx { // trailing space 
x_y_z
{
string
charz ,
string x// @lengthOf(
`two words`
    ,  u8x { // `tick` ""quote"" 'q'
charz `100% of %d` // packet A { u8 x, }
,}// " ++ [27880; 37322]%N ++ runes_of_ascii "
,char[] , }
    // a // b
    packet metadata {  @leftPad ( '0') repeat i32 options1 ,u64 uint8x , }
")).
Eval vm_compute in ("<<<M1912>>>" ++ check (runes_of_ascii "packet	packetx { // trailing space 
x_y_z
{
string
charz ,
string x// @lengthOf(
`two words`
    ,  u8x { { // `tick` ""quote"" 'q'
charz `100% of %d` // packet A { u8 x, }
,}// " ++ [27880; 37322]%N ++ runes_of_ascii "
,} , }
    // a // b
    packet metadata {  @leftPad ( '0') repeat i32 options1 ,u64 uint8x , }
")).
Eval vm_compute in ("<<<M1868>>>" ++ check (runes_of_ascii "packet	packetx { // trailing space 
x_y_z
string
{
charz ,
string x// @lengthOf(
`two words`
    ,  u8x { // `tick` ""quote"" 'q'
charz `100% of %d` // packet A { u8 x, }
,}// " ++ [27880; 37322]%N ++ runes_of_ascii "
,} , }
    // a // b
    packet metadata {  @leftPad ( '0') repeat i32 options1 ,u64 uint8x , }
")).
Eval vm_compute in ("<<<M2008>>>" ++ check (runes_of_ascii "packet	packetx { // trailing space 
x_y_z
{
string
charz ,
string x// @lengthOf(
`two words`
    ,  u8x { // `tick` ""quote"" 'q'
charz `100% of %d` // packet A { u8 x, }
,}// " ++ [27880; 37322]%N ++ runes_of_ascii "
,} , }
    // a // b
    packet metadata {  @leftPad ( '0') repeat i32 options1 u64, uint8x , }
")).
Eval vm_compute in ("<<<M2004>>>" ++ check (runes_of_ascii "packet	packetx { // trailing space 
x_y_z
{
string
charz ,
string x// @lengthOf(
`two words`
    ,  u8x { // `tick` ""quote"" 'q'
charz `100% of %d` // packet A { u8 x, }
,}// " ++ [27880; 37322]%N ++ runes_of_ascii "
,} , }
    // a // b
    packet metadata {  @leftPad ( '0') repeat i32 packet ,u64 uint8x , }
")).
Eval vm_compute in ("<<<M3698>>>" ++ check (runes_of_ascii "packet crc {
    string chars `
    `,
    i64 Z9_ @calculatedFrom(""1""),
    match zchar as asx {
        4294967296 : trueish,
    },
}

options {
    zchar = """";
}

root packet matchKey {
    zchar[65535] int,
    zchar[4294967296] leftPad `// not a comment`,
}
// 50% %s")).
Eval vm_compute in ("<<<M291>>>" ++ check (runes_of_ascii "packet // 50% %s
trueish { lengthOf len ``, @leftPad // @lengthOf(
(
    ' '  ) @calculatedFrom( """" )
@tag(4294967296 // packet A { u8 x, }
)
Z9_ falsey
    `doc`
    ,char[]
    lengthOf@lengthOf(
    charz
    ) , u16 BodyLength
`a\`
    // trailing space 
    , }
")).
Eval vm_compute in ("<<<M1499>>>" ++ check (runes_of_ascii "packet calculatedFrom
{ @calculatedFrom( ""a\\"" ) zchar[ 4294967296 ]
calculatedFrom@lengthOf( pack )	`100% of %d` ,char[]body@calculatedFrom( @calculatedFrom( ""// no comment"" )  ,
@tag( 007) //x
int8
leftPad`it's` , repeat pack
    { repeat char[ 3] body
,},
}")).
Eval vm_compute in ("<<<M2185>>>" ++ check (runes_of_ascii "packet// packet A { u8 x, }
repeatCount	{// packet A { u8 x, }
@leftPad ( '\x00'
) repeat u8x MetaDataX `crlf
line`,
    repeat
    char[] MetaDataX
    ,
u64	uint8x@calculatedFrom(""a\""b""
// c
// packet A { u8 x, }
) `tab	here`
,//
}MetaData pack
    {
    } }
")).
Eval vm_compute in ("<<<M2076>>>" ++ check (runes_of_ascii "packet// packet A { u8 x, }
repeatCount	{// packet A { u8 x, }
@leftPad ( )
'\x00' repeat u8x MetaDataX `crlf
line`,
    repeat
    char[] MetaDataX
    ,
u64	uint8x@calculatedFrom(""a\""b""
// c
// packet A { u8 x, }
) `tab	here`
,//
}MetaData pack
    {
    }
")).
Eval vm_compute in ("<<<M2104>>>" ++ check (runes_of_ascii "packet// packet A { u8 x, }
repeatCount	{// packet A { u8 x, }
@leftPad ( '\x00'
) repeat u8x MetaDataX `crlf
line`
    repeat
    char[] MetaDataX
    ,
u64	uint8x@calculatedFrom(""a\""b""
// c
// packet A { u8 x, }
) `tab	here`
,//
}MetaData pack
    {
    }
")).
Eval vm_compute in ("<<<M4313>>>" ++ check (runes_of_ascii "options {

    pack	=
0123456789 }	MetaData

    // `tick` ""quote"" 'q'
    metadata{
u16
float ,  }
	packet

As
{ char[

    0123456789
]
	repeatCount,
	u32
_x
    `100% of %d`  ,  // a // b
    @tag(  3
)repeat

    i64

    len 
`a\`  ,

}
")).
Eval vm_compute in ("<<<M1559>>>" ++ check (runes_of_ascii "packet calculatedFrom
{ @calculatedFrom( ""a\\"" ) zchar[ 4294967296 ]
calculatedFrom@lengthOf( pack )	`100% of %d` ,char[]body@calculatedFrom( ""// no comment"" )  ,
@tag( 007) //x
int8
leftPad`it's` , repeat pack pack
    { repeat char[ 3] body
,},
}")).
Eval vm_compute in ("<<<M1474>>>" ++ check (runes_of_ascii "packet calculatedFrom
{ @calculatedFrom( ""a\\"" ) zchar[ 4294967296 ]
calculatedFrom@lengthOf( pack ) )	`100% of %d` ,char[]body@calculatedFrom( ""// no comment"" )  ,
@tag( 007) //x
int8
leftPad`it's` , repeat pack
    { repeat char[ 3] body
,},
}")).
Eval vm_compute in ("<<<M1618>>>" ++ check (runes_of_ascii "packet calcul#atedFrom
{ @calculatedFrom( ""a\\"" ) zchar[ 4294967296 ]
calculatedFrom@lengthOf( pack )	`100% of %d` ,char[]body@calculatedFrom( ""// no comment"" )  ,
@tag( 007) //x
int8
leftPad`it's` , repeat pack
    { repeat char[ 3] body
,},
}")).
Eval vm_compute in ("<<<M1486>>>" ++ check (runes_of_ascii "packet calculatedFrom
{ @calculatedFrom( ""a\\"" ) zchar[ 4294967296 ]
calculatedFrom@lengthOf( pack )	`100% of %d` [char[]body@calculatedFrom( ""// no comment"" )  ,
@tag( 007) //x
int8
leftPad`it's` , repeat pack
    { repeat char[ 3] body
,},
}")).
Eval vm_compute in ("<<<M1483>>>" ++ check (runes_of_ascii "packet calculatedFrom
{ @calculatedFrom( ""a\\"" ) zchar[ 4294967296 ]
calculatedFrom@lengthOf( pack )	`100% of %d` char[]body@calculatedFrom( ""// no comment"" )  ,
@tag( 007) //x
int8
leftPad`it's` , repeat pack
    { repeat char[ 3] body
,},
}")).
Eval vm_compute in ("<<<M1588>>>" ++ check (runes_of_ascii "packet calculatedFrom
{ @calculatedFrom( ""a\\"" ) zchar[ 4294967296 ]
calculatedFrom@lengthOf( pack )	`100% of %d` ,char[]body@calculatedFrom( ""// no comment"" )  ,
@tag( 007) //x
int8
leftPad`it's` , repeat pack
    { repeat char[ 3] 
,},
}")).
Eval vm_compute in ("<<<M1461>>>" ++ check (runes_of_ascii "packet calculatedFrom
{ @calculatedFrom( ""a\\"" ) zchar[ 4294967296 ]
""it's""@lengthOf( pack )	`100% of %d` ,char[]body@calculatedFrom( ""// no comment"" )  ,
@tag( 007) //x
int8
leftPad`it's` , repeat pack
    { repeat char[ 3] body
,},
}")).
Eval vm_compute in ("<<<M957>>>" ++ check (runes_of_ascii "root packet charz {
match
// trailing space 
// trailing space 
f32a as
    lengthOf { [""1""
    ]: asx , """ ++ [233]%N ++ runes_of_ascii "t" ++ [233]%N ++ runes_of_ascii """ :f32a ,
    // c
    [
7 , ""1""
,""\n""]
: // 50% %s
uint8x , """" :rootA ,
},}
// " ++ [27880; 37322]%N ++ runes_of_ascii "
// @lengthOf(
packet
Header  { } 	 ")).
Eval vm_compute in ("<<<M385>>>" ++ check (runes_of_ascii "packet f32a
{ repeat
    packetx `// not a comment` ,
@lengthOf(
Foo  )
zchar ,@tag( 007 // packet A { u8 x, }
)
    @calculatedFrom( ""\" ++ [233]%N ++ runes_of_ascii """ )	@tag(007)
x_y_z @calculatedFrom( ""packet""	)
    `
`	, char[
3  ] pack ,
}")).
Eval vm_compute in ("<<<M3655>>>" ++ check (runes_of_ascii "packet leftPad {
    string stringy,
}// 50% %s

packet u8x {
    repeat float64 a1,
    @tag(0123456789)
    @rightPad()
    A @lengthOf(matchKey) `
    `,
    zchar[7] Logon @calculatedFrom(""x y""),
    a1,
}")).
Eval vm_compute in ("<<<M1557>>>" ++ check (runes_of_ascii "packet calculatedFrom
{ @calculatedFrom( ""a\\"" ) zchar[ 4294967296 ]
calculatedFrom@lengthOf( pack )	`100% of %d` ,char[]body@calculatedFrom( ""// no comment"" )  ,
@tag( 007) //x
int8
leftPad`it's` ,")).
Eval vm_compute in ("<<<M4349>>>" ++ check (runes_of_ascii "
options {}
packet
Packet
	{
    char[] 
i64_
	, 
@tag( 
255)

    match 
crc  as
i8i8

{ ""{,}""

    :  trueish

""""  :
    Pad ,""a\\""

:Foo  ,
1
	: packetx  """ ++ [128512]%N ++ runes_of_ascii """ : trueish
,  }

    , } ")).
Eval vm_compute in ("<<<M3517>>>" ++ check (runes_of_ascii "root packet Frame {
    u8 K,
    Logon first,
    match K as Body {
        1 : Logon,
        2 : Logout,
    },
}
packet Logon {
    string user,
}
packet Logout {
    u16 reason,
}
")).
Eval vm_compute in ("<<<M4070>>>" ++ check (runes_of_ascii "packet lengthOf {
    // trailing space 
    @lengthOf(Pad)
    @leftPad(' ')
    @rightPad('0')
    u @lengthOf(_x) `say ""hi""`,
    o x,
    @calculatedFrom(""`tick`"")
    Pad,
}")).
Eval vm_compute in ("<<<M4538>>>" ++ check (runes_of_ascii "root packet trueish {
}

root packet T {
    repeat asx float,
}

MetaData repeatCount {
    /// triple
    Packet falsey,
}

MetaData Z9_ {
    zchar[7] Foo,
}
/// triple")).
Eval vm_compute in ("<<<M4162>>>" ++ check (runes_of_ascii "
MetaData
	float

    {
    uint8 
BodyLength 
, }MetaData

    charz

    {
float32

    trueish
`a\`

    ,  // c
	i16

    metadata  `say ""hi""`
,
}

")).
Eval vm_compute in ("<<<M2360>>>" ++ check (runes_of_ascii "
packet MetaDataX
{
    @leftPad
( // a // b
'0'
) i8 na" ++ [239]%N ++ runes_of_ascii "ve @lengthOf(
MetaDataX
    ) `say ""hi""` ,	} MetaData BodyLength {
    asx
x_y_z `" ++ [233]%N ++ runes_of_ascii "`
, uint64 u128 , }
")).
Eval vm_compute in ("<<<M2354>>>" ++ check (runes_of_ascii "
packet MetaDataX
{
    @leftPad
( // a // b
'0'
) i8 u @lengthOf(
MetaDataX
    ) `say ""hi""` , ,	} MetaData BodyLength {
    asx
x_y_z `" ++ [233]%N ++ runes_of_ascii "`
, uint64 u128 , }
")).
Eval vm_compute in ("<<<M2426>>>" ++ check (runes_of_ascii "
packet MetaDataX
{
    @leftPad
( // a // b
'0'
) i8 u @lengthOf(
MetaDataX
    ) `say ""hi""` ,	} MetaData BodyLength {
    asx
x_y_z `" ++ [233]%N ++ runes_of_ascii "`
`, uint64 u128 , }
")).
Eval vm_compute in ("<<<M3966>>>" ++ check (runes_of_ascii "
MetaData	metadata	{ }MetaData

    rootA 
{i8
i64_

,roots
    options1 `a\`,

    lengthOf  Header
,
Z9_	Foo
,int16 
BodyLength

    // c
  ,
    }
")).
Eval vm_compute in ("<<<M2364>>>" ++ check (runes_of_ascii "
packet MetaDataX
{
    @leftPad
( // a // b
'0'
) i8 u @lengthOf(
MetaDataX
    ) `say ""hi""` ,	} MetaData BodyLength {
    asx
x_y_z `" ++ [233]%N ++ runes_of_ascii "`
, uint64 u128 , 
")).
Eval vm_compute in ("<<<M3450>>>" ++ check (runes_of_ascii "root packet // c1
P
    // c2
{ // c3a
  // c3b
hdr // c4
{ // c5
u8 // c6
a
    // c7
,
    // c8
} , u8
    // c11
x // c12
, // c13
} // c14a
  // c14b
")).
Eval vm_compute in ("<<<M1764>>>" ++ check (runes_of_ascii "options { } packet Packet{char[] i64_ ,
@tag(
    255) match
crc as i8i8{""{,}"" : trueish """" : Pad , ""a\\"" :
, Foo
    1 :packetx
, """ ++ [128512]%N ++ runes_of_ascii """ : trueish , } , }")).
Eval vm_compute in ("<<<M1767>>>" ++ check (runes_of_ascii "options { } packet Packet{char[] i64_ ,
@tag(
    255) match
crc as i8i8{""{,}"" : trueish """" : Pad , ""a\\"" :
Foo 
    1 :packetx
, """ ++ [128512]%N ++ runes_of_ascii """ : trueish , } , }")).
Eval vm_compute in ("<<<M3752>>>" ++ check (runes_of_ascii "packet A {
    match k as n {
        [
            1, 22, 007, 4, 5,
            66, 7, 8, 9, 10,
            11
        ] : B,
        2 : C,
    },
}")).
Eval vm_compute in ("<<<M1167>>>" ++ check (runes_of_ascii "/// triple
options
// " ++ [27880; 37322]%N ++ runes_of_ascii "
// c
{ u8x	= u64 // `tick` ""quote"" 'q'
lengthOf =
""a	b""  lengthOf = ' '
; T
= '\x00' // @lengthOf(
; // @lengthOf(
} //	t")).
Eval vm_compute in ("<<<M3989>>>" ++ check (runes_of_ascii "packet	crc{

int32 
Z9_
    @lengthOf(tag  )
`// not a comment` //x
  ,
	}MetaData  string_
{
}
	// c
    options
	{

a1=

    """ ++ [233]%N ++ runes_of_ascii "t" ++ [233]%N ++ runes_of_ascii """

    } ")).
Eval vm_compute in ("<<<M1342>>>" ++ check (runes_of_ascii "packet body {	uint32
    metadata `
`,  } MetaData body	{	uint16
int	, }MetaData
charz
{ asx matchKey
    , i8i8 int,
string_ msg_type, }
")).
Eval vm_compute in ("<<<M3977>>>" ++ check (runes_of_ascii "
packet	A
    {match

k
    as
    n  { 
[1
,

22

,	""c c"",

4
,
    5 ,
""f""
    ,
    7 , 8

    ,

    ""i"" 
]
: B 2 :C }
, 
}
")).
Eval vm_compute in ("<<<M106>>>" ++ check (runes_of_ascii "options
{ x_y_z=0123456789 ; falsey = ' '  float
    // c
    = true} MetaData
int {  u64	BodyLength
    `// not a comment` ,
    }
")).
Eval vm_compute in ("<<<M200>>>" ++ check (runes_of_ascii "  MetaData len { }
    packet A{  body
metadata ,
} MetaData trueish { u16
Foo
    ,
    char[] calculatedFrom,
uint16 i64_
,}
")).
Eval vm_compute in ("<<<M3265>>>" ++ check (runes_of_ascii "MetaData metadata
// c
{ } MetaData rootA { i8 i64_ , roots options1 `a\` , lengthOf Header , Z9_ Foo , int16 BodyLength , }")).
Eval vm_compute in ("<<<M3297>>>" ++ check (runes_of_ascii "MetaData metadata { } MetaData rootA { i8 i64_ , roots options1 `a\` , lengthOf Header , Z9_
// c
Foo , int16 BodyLength , }")).
Eval vm_compute in ("<<<M3846>>>" ++ check (runes_of_ascii "// c
MetaData float {
    uint8 BodyLength,
}

MetaData charz {
    float32 trueish `a\`,
    i16 metadata `say ""hi""`,
}")).
Eval vm_compute in ("<<<M1354>>>" ++ check (runes_of_ascii "packet f32a
    {int16 int
    ,
    } MetaData f32a { char i8i8 , /// triple
string Pad, zchar
f32a ,
    x	T,
}
")).
Eval vm_compute in ("<<<M3317>>>" ++ check (runes_of_ascii "
// c
MetaData float { uint8 BodyLength , } MetaData charz { float32 trueish `a\` , i16 metadata `say ""hi""` , }")).
Eval vm_compute in ("<<<M3336>>>" ++ check (runes_of_ascii "MetaData float { uint8 BodyLength , } MetaData charz { // c
float32 trueish `a\` , i16 metadata `say ""hi""` , }")).
Eval vm_compute in ("<<<M335>>>" ++ check (runes_of_ascii "root
    packet BodyLength { i64_ tag
    `{ , }` ,@leftPad (
'\x00' ) Pad `{ , }`/// triple
, u128 body ,	}")).
Eval vm_compute in ("<<<M3087>>>" ++ check (runes_of_ascii "packet A {
    Inner {
        u8 x `%%d%!`,
        Deep {
            u8 y `%%d%!`,
        },
    },
}")).
Eval vm_compute in ("<<<M4038>>>" ++ check (runes_of_ascii "  MetaData

    _x 
{

    f64
charz `tab	here`	,
} options
	{
	BodyLength

= """ ++ [233]%N ++ runes_of_ascii "t" ++ [233]%N ++ runes_of_ascii """ ; 	 // c
  }

")).
Eval vm_compute in ("<<<M3063>>>" ++ check (runes_of_ascii "packet A {
    Inner {
        u8 x `
x`,
        Deep {
            u8 y `
x`,
        },
    },
}")).
Eval vm_compute in ("<<<M2357>>>" ++ check (runes_of_ascii "
packet MetaDataX
{
    @leftPad
( // a // b
'0'
) i8 u @lengthOf(
MetaDataX
    ) `say ""hi""` ,")).
Eval vm_compute in ("<<<M2993>>>" ++ check (runes_of_ascii "packet A {
  match k as n {
    [1, 22, ""c c"", 4, 5, ""f"", 7, 8, ""i"", 10] : B,
    2 : C
  },
}")).
Eval vm_compute in ("<<<M2215>>>" ++ check (runes_of_ascii "MetaData _x _x {string x `// not a comment` , string
i64_ // trailing space 
`a\` ,
    }
")).
Eval vm_compute in ("<<<M1171>>>" ++ check (runes_of_ascii "MetaData T
{ // `tick` ""quote"" 'q'
} MetaData
body {char[4294967296] calculatedFrom,	}
")).
Eval vm_compute in ("<<<M2236>>>" ++ check (runes_of_ascii "MetaData _x {string x , `// not a comment` string
i64_ // trailing space 
`a\` ,
    }
")).
Eval vm_compute in ("<<<M883>>>" ++ check (runes_of_ascii "MetaData T { int16
    Logon // packet A { u8 x, }
, u8x rootA ,
    packetx A , } 	 ")).
Eval vm_compute in ("<<<M2731>>>" ++ check (runes_of_ascii "repeat u32 char[] char zchar[ string char[ MetaData float64 4294967296 uint32 char ;")).
Eval vm_compute in ("<<<M4141>>>" ++ check (runes_of_ascii "MetaData _x {
    f64 charz `tab	here`,
}// c

options {
    BodyLength = """ ++ [233]%N ++ runes_of_ascii "t" ++ [233]%N ++ runes_of_ascii """;
}")).
Eval vm_compute in ("<<<M3816>>>" ++ check (runes_of_ascii "packet
    A
{  B
    b
    `a

b`,B
	`a

b` ,repeat
    B
    bs
	`a

b` ,

} ")).
Eval vm_compute in ("<<<M4434>>>" ++ check (runes_of_ascii "options {
    Packet = f64
    T = '\x00';
    Header = 42;
    stringy = 1;
}")).
Eval vm_compute in ("<<<M3369>>>" ++ check (runes_of_ascii "MetaData _x {
// c
f64 charz `tab	here` , } options { BodyLength = """ ++ [233]%N ++ runes_of_ascii "t" ++ [233]%N ++ runes_of_ascii """ ; }")).
Eval vm_compute in ("<<<M2778>>>" ++ check (runes_of_ascii ": @lengthOf( false zchar[ string ] root @tag( [ MetaData { char[ @leftPad ]")).
Eval vm_compute in ("<<<M3439>>>" ++ check (runes_of_ascii "
root  packet
P

    {	repeat char

    cs, u8

    x

    ,
	} ")).
Eval vm_compute in ("<<<M2901>>>" ++ check (runes_of_ascii "packet A {
  match k as n {
    [""a"", 22, ""c c""] : B
    2 : C
  },
}")).
Eval vm_compute in ("<<<M3415>>>" ++ check (runes_of_ascii "packet o { @tag( 4294967296 ) options1
// c
@lengthOf( u8x ) `" ++ [233]%N ++ runes_of_ascii "` , }")).
Eval vm_compute in ("<<<M931>>>" ++ check (runes_of_ascii "  MetaData pack { Logon
stringy
    //
    `// not a comment`
,	}")).
Eval vm_compute in ("<<<M2806>>>" ++ check (runes_of_ascii "char[ char = 42 false i32 u16 i16 ( char[ char[ @tag( `tab	here`")).
Eval vm_compute in ("<<<M1179>>>" ++ check (runes_of_ascii "MetaData uint8x // trailing space 
{
As
chars//	t
`u8 x,` ,}")).
Eval vm_compute in ("<<<M3219>>>" ++ check (runes_of_ascii "packet A { @leftPad() char[4] x, @rightPad( ) zchar[2] y, }")).
Eval vm_compute in ("<<<M749>>>" ++ check (runes_of_ascii "MetaData Z9_ { char[]charz, T  i64_ ,Logon Z9_ , }
//	t
")).
Eval vm_compute in ("<<<M2387>>>" ++ check (runes_of_ascii "
packet MetaDataX
{
    @leftPad
( // a // b
'0'
) i8")).
Eval vm_compute in ("<<<M49>>>" ++ check (runes_of_ascii "MetaData
Pad { string
    uint8x ,
int8	As
,
} 	 ")).
Eval vm_compute in ("<<<M4418>>>" ++ check (runes_of_ascii "

  root
packet	P

{	hdr { u8 a
	,}

,
u8
	x,	}
")).
Eval vm_compute in ("<<<M2305>>>" ++ check (runes_of_ascii "
MetaData Pad{
rootA u32 `line1
line2` ,
    }
")).
Eval vm_compute in ("<<<M4345>>>" ++ check (runes_of_ascii "
packet
	zchar
{zchar[	65535
] body
`
`
, }
")).
Eval vm_compute in ("<<<M3945>>>" ++ check (runes_of_ascii "

  // " ++ [128512]%N ++ runes_of_ascii " emoji

	options
{  // a // b
  }

")).
Eval vm_compute in ("<<<M840>>>" ++ check (runes_of_ascii "
MetaData T  {// " ++ [27880; 37322]%N ++ runes_of_ascii "
Packet rootA ,
    }")).
Eval vm_compute in ("<<<M3237>>>" ++ check (runes_of_ascii "MetaData zchar { // c
zchar[ 3 ] Pad , }")).
Eval vm_compute in ("<<<M2879>>>" ++ check ([16]%N ++ runes_of_ascii "v" ++ [65533; 65533; 65533; 65533; 17; 5]%N ++ runes_of_ascii "&1" ++ [65533; 65533]%N ++ runes_of_ascii "b" ++ [65533; 65533]%N ++ runes_of_ascii "s" ++ [29]%N ++ runes_of_ascii "
" ++ [65533; 65533; 65533]%N ++ runes_of_ascii "$" ++ [20; 65533]%N ++ runes_of_ascii "b}" ++ [65533; 19]%N ++ runes_of_ascii "	-," ++ [65533; 65533; 65533]%N ++ runes_of_ascii "3%" ++ [65533; 322]%N)).
Eval vm_compute in ("<<<M2722>>>" ++ check (runes_of_ascii "255 ; int8 as f64 , @leftPad float32")).
Eval vm_compute in ("<<<M2863>>>" ++ check (runes_of_ascii "] as int16 [ 007 f32 { @lengthOf( =")).
Eval vm_compute in ("<<<M2407>>>" ++ check (runes_of_ascii "
packet MetaDataX
{
    @leftPad
")).
Eval vm_compute in ("<<<M3704>>>" ++ check (runes_of_ascii "packet A {
    u8 x `d" ++ [12288]%N ++ runes_of_ascii "`,// c" ++ [12288]%N ++ runes_of_ascii "
}")).
Eval vm_compute in ("<<<M3186>>>" ++ check (runes_of_ascii "packet A {
 u8 x `d" ++ [6158]%N ++ runes_of_ascii "`, // c" ++ [6158]%N ++ runes_of_ascii "
}")).
Eval vm_compute in ("<<<M59>>>" ++ check (runes_of_ascii "root packet i8i8
    {  }

")).
Eval vm_compute in ("<<<M2614>>>" ++ check (runes_of_ascii "packet A { x @leftPad(), }")).
Eval vm_compute in ("<<<M4068>>>" ++ check (runes_of_ascii "packet calculatedFrom {
}")).
Eval vm_compute in ("<<<M147>>>" ++ check (runes_of_ascii " // packet A { u8 x, }")).
Eval vm_compute in ("<<<M442>>>" ++ check (runes_of_ascii "
root packet crc { }")).
Eval vm_compute in ("<<<M2663>>>" ++ check (runes_of_ascii "MetaData M { u8 x }")).
Eval vm_compute in ("<<<M3135>>>" ++ check (runes_of_ascii "// c" ++ [8202]%N ++ runes_of_ascii "
packet A {
}")).
Eval vm_compute in ("<<<M1047>>>" ++ check (runes_of_ascii "
packet
a1 {
}
")).
Eval vm_compute in ("<<<M269>>>" ++ check (runes_of_ascii "packet pack	{ }
")).
Eval vm_compute in ("<<<M4262>>>" ++ check (runes_of_ascii "packet A{}// c" ++ [12288]%N)).
Eval vm_compute in ("<<<M781>>>" ++ check (runes_of_ascii "options {}
")).
Eval vm_compute in ("<<<M2656>>>" ++ check (runes_of_ascii "packet A }")).
Eval vm_compute in ("<<<M2875>>>" ++ check (runes_of_ascii "true """ ++ [128512]%N ++ runes_of_ascii """")).
Eval vm_compute in ("<<<M2461>>>" ++ check (runes_of_ascii "uint88")).
Eval vm_compute in ("<<<M2533>>>" ++ check (runes_of_ascii """ab""")).
Eval vm_compute in ("<<<M2510>>>" ++ check (runes_of_ascii "@tag")).
Eval vm_compute in ("<<<M2519>>>" ++ check (runes_of_ascii "///")).
Eval vm_compute in ("<<<M2526>>>" ++ check (runes_of_ascii """""")).
Eval vm_compute in ("<<<M2700>>>" ++ check (runes_of_ascii " ")).
