From FP Require Import Lexer Parser ShowPT Digest Formatter.
From Coq Require Import String List NArith.
Import ListNotations.
Open Scope string_scope.
Set Printing Width 100000000.
Set Printing Depth 100000000.
Definition show_fres (r : fres) : string :=
  match r with
  | FOk s => "OK:" ++ sh_escaped s ""
  | FErr s => "ERR:" ++ sh_escaped s ""
  | FPanic p => "PANIC:" ++ p
  end.
Definition check (rs : list rune) : string := digest (show_fres (format_res rs)).
Definition full (rs : list rune) : string := show_fres (format_res rs).
Eval vm_compute in ("<<<M1436>>>" ++ check (runes_of_ascii "// top
options // c0
{ // c1a
  // c1b
StringPrefixLenType // c2a
  // c2b
= u8 ; // c5
ArrayPrefixLenType = // c7
u8 ;
    // c9
FixedStringPadFromLeft // c10a
  // c10b
= true // c12a
  // c12b
; FixedStringPadChar // c14a
  // c14b
= // c15
' ' ; // c17
} // c18
packet Logout
    // c20
{
    // c21
repeat // c22
string // c23a
  // c23b
Px // c24a
  // c24b
, // c25
repeat // c26a
  // c26b
string // c27a
  // c27b
seqNo
    // c28
, // c29a
  // c29b
InMsgkind64
    // c30
{
    // c31
uint16 OrderId // c33
, // c34
char[] // c35
count , repeat i32 // c39a
  // c39b
venue ,
    // c41
} // c42
, } packet
    // c45
Heartbeat
    // c46
{ // c47a
  // c47b
float32
    // c48
tag7 // c49a
  // c49b
, repeat InPrice50 // c52
{ repeat
    // c54
char[ 5 ] // c57a
  // c57b
lastPx // c58
,
    // c59
InRef42 // c60a
  // c60b
{
    // c61
u8 // c62a
  // c62b
pad0 // c63
, // c64
} // c65a
  // c65b
, // c66
uint32 // c67a
  // c67b
Acct // c68
, repeat // c70a
  // c70b
Logout , // c72a
  // c72b
repeat // c73a
  // c73b
char[ 5 ] // c76
Qty ,
    // c78
} // c79
, repeat
    // c81
InSeqno30
    // c82
{
    // c83
repeat // c84a
  // c84b
Logout // c85
, // c86
} // c87a
  // c87b
, // c88a
  // c88b
@leftPad ( // c90a
  // c90b
'0' // c91a
  // c91b
) // c92a
  // c92b
char[ // c93a
  // c93b
12 ] Acct , // c97a
  // c97b
char[] Side2 // c99a
  // c99b
,
    // c100
repeat // c101
string // c102a
  // c102b
msgKind // c103a
  // c103b
, }
    // c105
packet Ack // c107
{
    // c108
Heartbeat // c109
,
    // c110
char[ // c111a
  // c111b
8 // c112
]
    // c113
seqNo
    // c114
,
    // c115
float64
    // c116
clOrdID // c117a
  // c117b
, } // c119
packet Trade { // c122
char[] // c123
OrderId
    // c124
, // c125
f64 Side2 // c127a
  // c127b
, // c128a
  // c128b
zchar[ // c129
8
    // c130
]
    // c131
f1 ,
    // c133
string // c134a
  // c134b
Qty // c135
,
    // c136
float64 // c137a
  // c137b
seqNo // c138a
  // c138b
, // c139a
  // c139b
repeat // c140a
  // c140b
Logout // c141
,
    // c142
} packet // c144a
  // c144b
Order { f32 // c147a
  // c147b
OrderId , // c149
repeat u8
    // c151
x
    // c152
, // c153
Ack ,
    // c155
zchar[
    // c156
7 // c157a
  // c157b
]
    // c158
Note , // c160
} root
    // c162
packet
    // c163
Logon { @rightPad // c166a
  // c166b
( // c167
'\x00' // c168
)
    // c169
char[
    // c170
9 // c171
] // c172a
  // c172b
f1 // c173
, // c174
}
    // c175
")).
Eval vm_compute in ("<<<M1871>>>" ++ check (runes_of_ascii "packet x {
    len {
        // " ++ [27880; 37322]%N ++ runes_of_ascii "
        repeat i32 crc `say ""hi""`,
        match chars as Packet {
            0123456789 : Pad,
            0123456789 : falsey,
            // " ++ [27880; 37322]%N ++ runes_of_ascii "
            [4294967296, 3, 4294967296, 0, ""1""] : roots,
            ""a\\"" : _x,
            3 : packetx,
        },
        repeat string stringy `tab	here`,
        match roots as lengthOf {
            ""abc"" : packetx,
        },
    },
    @lengthOf(chars)
    match rootA as roots {
        ""\n"" : Packet,
    },// `tick` ""quote"" 'q'
    string As `" ++ [28040; 24687; 31867; 22411]%N ++ runes_of_ascii "`,
    @rightPad('\x00')
    int64 trueish @lengthOf(lengthOf) `" ++ [233]%N ++ runes_of_ascii "`,
}

packet len {
}

options {
    a1 = false
    // a // b
}

packet Z9_ {
    repeat zchar[00] options1,
    @lengthOf(falsey)
    repeat i8 options1 `two words`,
    @rightPad()
    i8 msg_type,
    char[3] lengthOf `{ , }`,
    string _x,
    @leftPad()
    // c
    uint16 chars,
    // @lengthOf(
    //
    @lengthOf(crc)
    @leftPad('0')
    repeat stringy calculatedFrom,
    string int `line1
    line2`,
    @rightPad(' ')
    match Foo as rootA {
        [""packet"", ""a\""b"", """ ++ [128512]%N ++ runes_of_ascii """, """", 42] : u,
        0 : A,
        // trailing space 
        00 : asx,
        //x
        // trailing space 
        0 : x_y_z,
        ""CRC32"" : i64_,
        42 : x,
    },
    roots {
        repeat zchar[10] stringy `" ++ [28040; 24687; 31867; 22411]%N ++ runes_of_ascii "`,
    },
}

MetaData tag {
    f32 tag ``,
}")).
Eval vm_compute in ("<<<M1678>>>" ++ check (runes_of_ascii "  packet Packet{
    }
packet

    repeatCount {

    @tag(
4294967296 ) @lengthOf(
	A
	)

@lengthOf(
	float)
rootA ,
    @tag(
	0123456789
)
Header
	`// not a comment`,matchKey

f32a
    ,
Pad , 
repeat  float32	uint8x `" ++ [233]%N ++ runes_of_ascii "`
,	@leftPad

    (
'\x00'
	) repeat

    char[ 
3 
]  tag

`
` ,  repeat
    pack
{repeat
    x{repeat	f64
    len ,i64_

len  ,  },

    repeatCount 
	    // `tick` ""quote"" 'q'
@lengthOf(
uint8x

)	, match  zchar  as a1
	{ 
    // a // b
    // packet A { u8 x, }
    3 :
u
,
} , 	 // packet A { u8 x, }
repeat
rootA{ 
options1 
{ 
repeat

    body u8x `crlf
line`
,
match
Z9_  as f32a
	{ 007 
:repeatCount  , ""packet""
    :
	calculatedFrom
, 
    // " ++ [128512]%N ++ runes_of_ascii " emoji
  10 	 // `tick` ""quote"" 'q'
  :  /// triple
		calculatedFrom ,""CRC32""
    : 
_x

, [""x y"" ]

:
i64_

    ,
	""packet""
// `tick` ""quote"" 'q'

// a // b
    	:// `tick` ""quote"" 'q'
MetaDataX 
, 
}
    // a // b
    // " ++ [27880; 37322]%N ++ runes_of_ascii "

,
} , 
      //x
  }
    ,

    }
	, } 
MetaData  // @lengthOf(
	asx {
u trueish

, chars	// c
		f32a
`// not a comment` ,
float64 u128,

string_ string_  `
`
,

    }

packet
	crc{
    } ")).
Eval vm_compute in ("<<<M1435>>>" ++ check (runes_of_ascii "options {
    StringPrefixLenType = u8;
    ArrayPrefixLenType = u8;
    FixedStringPadFromLeft = true;
    FixedStringPadChar = ' ';
}
packet Logout {
    repeat string Px,
    repeat string seqNo,
    InMsgkind64 {
        uint16 OrderId,
        char[] count,
        repeat i32 venue,
    },
}
packet Heartbeat {
    float32 tag7,
    repeat InPrice50 {
        repeat char[5] lastPx,
        InRef42 {
            u8 pad0,
        },
        uint32 Acct,
        repeat Logout,
        repeat char[5] Qty,
    },
    repeat InSeqno30 {
        repeat Logout,
    },
    @leftPad('0') char[12] Acct,
    char[] Side2,
    repeat string msgKind,
}
packet Ack {
    Heartbeat,
    char[8] seqNo,
    float64 clOrdID,
}
packet Trade {
    char[] OrderId,
    f64 Side2,
    zchar[8] f1,
    string Qty,
    float64 seqNo,
    repeat Logout,
}
packet Order {
    f32 OrderId,
    repeat u8 x,
    Ack,
    zchar[7] Note,
}
root packet Logon {
    @rightPad('\x00') char[9] f1,
}
")).
Eval vm_compute in ("<<<M376>>>" ++ check (runes_of_ascii "packet options1 { repeat  matchKey `doc` , char[] string_
    // " ++ [27880; 37322]%N ++ runes_of_ascii "
    `
`, // packet A { u8 x, }
uint16 T , repeatCount
    _x
    ,} packet msg_type
    { @lengthOf( Pad
    )
asx @calculatedFrom(
    ""\" ++ [233]%N ++ runes_of_ascii """) ,  @tag( 4294967296
) Logon `a\`,@tag( 0
    )
crc  @lengthOf(charz// " ++ [128512]%N ++ runes_of_ascii " emoji
) `u8 x,`
, char[	0	] f32a // " ++ [128512]%N ++ runes_of_ascii " emoji
,  u8
    A `line1
line2`,Z9_ u `{ , }`
, repeat uint8x `" ++ [28040; 24687; 31867; 22411]%N ++ runes_of_ascii "`	, int8 Packet@calculatedFrom( ""{,}""
) ,
    // packet A { u8 x, }
    } packet A {
// trailing space 
// trailing space 
@tag( 3)@tag(
    /// triple
    1
    )
u16 A// c
, @tag(1 )
match
//
// @lengthOf(
roots as
pack{ // c
[
    ""CRC32"" ] :
i8i8
""a\\""
    : trueish , [ ""{,}"",	""" ++ [28040; 24687]%N ++ runes_of_ascii """ ] :
    falsey
    // `tick` ""quote"" 'q'
    } // a // b
, @rightPad// packet A { u8 x, }
( ' ') int16 Packet `
` , // `tick` ""quote"" 'q'
repeat zchar[1
] Pad  , // a // b
}
")).
Eval vm_compute in ("<<<M1744>>>" ++ check (runes_of_ascii "packet Pad {
    char[007] string_,// @lengthOf(
    @lengthOf(zchar)
    string rootA,
    @lengthOf(T)
    char trueish @lengthOf(zchar) `line1
    line2`,
    repeat f64 calculatedFrom,
    @calculatedFrom(""it's"")
    leftPad `it's`,
    stringy {
        int8 Packet @lengthOf(metadata) `tab	here`,
        A,
        match charz as uint8x {
            3 : MetaDataX,
            1 : charz,
            ""a	b"" : msg_type,
            //x
            [0, 10, ""// no comment"", ""\" ++ [233]%N ++ runes_of_ascii """] : A,
            // @lengthOf(
            ""\n"" : trueish,
        },
    },
    @calculatedFrom(""a\\"")
    char[7] u @calculatedFrom(""a\\""),
    //	t
    @tag(7)
    o {
        As `it's`,
    },
}

packet u {
}

packet stringy {
    @tag(0123456789)
    string pack @lengthOf(Pad),
}")).
Eval vm_compute in ("<<<M137>>>" ++ check (runes_of_ascii "root packet x_y_z{
    }packet calculatedFrom {char[] Foo @lengthOf( Pad
    ) ,} root packet // @lengthOf(
u128 // @lengthOf(
{} packet u8x { @lengthOf(asx ) match charz
    as msg_type { // @lengthOf(
[ 0123456789
    ] : i64_	,
    [ 0]
: a1  }
,f32 Pad , //x
match /// triple
falsey as BodyLength
    { """ ++ [233]%N ++ runes_of_ascii "t" ++ [233]%N ++ runes_of_ascii """
:// trailing space 
charz 10 :
    roots ,
10
: x_y_z// " ++ [27880; 37322]%N ++ runes_of_ascii "
,
    ""`tick`"" :_x ,""// no comment""
: chars [
    10,
    1
]:	Foo ,	}	, repeat u64	u8x
    `doc`
,
    @lengthOf(
body) uint64 options1  `` ,
@calculatedFrom(
""a\""b"")
    // trailing space 
    match  Packet as x_y_z{[ 007 ]
    // a // b
    :
tag  ,[ ""a\""b"" ] : rootA , //	t
"""" : x_y_z // " ++ [27880; 37322]%N ++ runes_of_ascii "
65535 :
asx  ,	""" ++ [233]%N ++ runes_of_ascii "t" ++ [233]%N ++ runes_of_ascii """ : o  , } , }
")).
Eval vm_compute in ("<<<M1457>>>" ++ check (runes_of_ascii "options {
    LittleEndian = true;
    FixedStringPadFromLeft = true;
    FixedStringPadChar = '0';
}
packet Trade {
    string clOrdID,
    char[] Px,
    u32 x,
}
packet Reject {
    int32 Side2,
    repeat char[3] clOrdID,
    i32 tag7,
}
packet Leg {
}
root packet Quote {
    string Side2,
    string lastPx,
    InSym58 {
        int16 OrderId,
        Reject,
        i8 Qty,
        i64 venue,
        f32 Note,
    },
    char[] count,
    zchar[9] price,
    u16 Qty,
    match Qty as Body {
        69 : Leg,
        48 : Trade,
        51 : Reject,
    },
    u16 Acct @calculatedFrom(""CRC32""),
}
")).
Eval vm_compute in ("<<<M36>>>" ++ check (runes_of_ascii "root packet
leftPad { match roots as packetx{
42 : chars, 255 : f32a , }
    , @rightPad
(	' ' ) // @lengthOf(
charz
    @lengthOf( packetx ) , i32 u8x  , uint8x
, } root packet x_y_z { u64 packetx
@lengthOf( stringy )
    ,
    @leftPad// " ++ [27880; 37322]%N ++ runes_of_ascii "
( ' '
    ) // packet A { u8 x, }
@rightPad ( '\x00'
    ) // trailing space 
@calculatedFrom(	""\" ++ [233]%N ++ runes_of_ascii """ ) uint8
MetaDataX@lengthOf(
    As
    ) ,@lengthOf(
rootA ) // c
float64 uint8x`say ""hi""` ,@leftPad ( ' ' ) repeat float64 Pad ,
    // packet A { u8 x, }
    }
")).
Eval vm_compute in ("<<<M1674>>>" ++ check (runes_of_ascii "  // c
    packet  float 	 // `tick` ""quote"" 'q'
    {
    match
tag	as x  // " ++ [128512]%N ++ runes_of_ascii " emoji

  {

""\n""
    : 
      // a // b
    A  ,
}

    ,

@lengthOf(	o 
)
A
,char[ 
4294967296]

o@lengthOf( 	 // packet A { u8 x, }
	a1 )
    ,	} packet	x{ char[
3 ] 
BodyLength ,

} packet	Header  {
@lengthOf(
stringy)@tag(42
	)
@calculatedFrom(

""1"" )
    zchar[

    0123456789

] As @lengthOf( 
        // a // b

packetx )
`// not a comment`	,
}//	t")).
Eval vm_compute in ("<<<M298>>>" ++ check (runes_of_ascii "// a // b
packet int  { //	t
pack
    // trailing space 
    @lengthOf(// " ++ [27880; 37322]%N ++ runes_of_ascii "
leftPad
// @lengthOf(
// c
),
u128 MetaDataX,	char[] charz
    // a // b
    @calculatedFrom(
""\" ++ [233]%N ++ runes_of_ascii """ ) ,calculatedFrom{
float
BodyLength,
}
, @calculatedFrom(
""" ++ [233]%N ++ runes_of_ascii "t" ++ [233]%N ++ runes_of_ascii """
    )  @lengthOf( MetaDataX) match Logon //
as  i64_{  [0 ,255 , 10, 7
    // `tick` ""quote"" 'q'
    , 0123456789 ]
    :  asx // " ++ [128512]%N ++ runes_of_ascii " emoji
}
,
    }")).
Eval vm_compute in ("<<<M2026>>>" ++ check (runes_of_ascii "  // top
	packet 
    // c0

o 
// c1

	{
	// c2
@tag( 
      // c3
	42 
      // c4
  ) 
  // c5
    repeat 
// c6

	x 
// c7

{
        // c8
  char[ 
// c9
      0123456789 
    // c10

] 
    // c11
		i64_

    // c12
	, 
      // c13

  } 
    // c14
		, 

// c15
}
    // c16
  options  
      // c17
    	{ 
      // c18
    	}
    // c19
")).
Eval vm_compute in ("<<<M136>>>" ++ check (runes_of_ascii "options { As
=char[007 ] ;_x // a // b
=1
;
    matchKey
    =true
;
Logon // trailing space 
= ' ' ;
    stringy =/// triple
zchar[007  ] ;
    } root
    packet MetaDataX { //x
match leftPad
    as Logon { 255
    : packetx [0123456789
    ]
    : x_y_z
, 10
// `tick` ""quote"" 'q'
// a // b
: rootA} , }")).
Eval vm_compute in ("<<<M1434>>>" ++ check (runes_of_ascii "options {
    LittleEndian = true;
    ArrayPrefixLenType = u64;
    FixedStringPadFromLeft = false;
}
packet Quote {
}
root packet Order {
    i64 Side2,
    Quote,
    u32 Px,
    match Px as Body {
        [119, 147] : Quote,
    },
    u16 Flags @calculatedFrom(""CR\
C32""),
}
")).
Eval vm_compute in ("<<<M1473>>>" ++ check (runes_of_ascii "packet Sub  {
	u8
a
, @calculatedFrom(
    ""CRC16"")  i16

SubSum 
,

    }root
packet Frame 
{ 
u16
MsgType , u16  BodyLen
	@lengthOf(Body )	, 
Sub
    Body
, 
string note,
@calculatedFrom(""CRC16""
    )
i16	Checksum  ,

    u8 tail  ,}
")).
Eval vm_compute in ("<<<M1670>>>" ++ check (runes_of_ascii "packet  Logon	{ 
string user  ,
	} root packet  Frame

{
	u8 K ,
match

K
    as  Body{
	1
:

    Logon  ,  2
	:

Logout,  }

    ,
    Tail
,

    }	packet Logout {

    u16
    reason 
,}	packet Tail 
{u32

crc
,	}
")).
Eval vm_compute in ("<<<M547>>>" ++ check (runes_of_ascii "options
{
matchKey = 42/// triple
x='0' ;
// packet A { u8 x, }
//
charz
=
// packet A { u8 x, }
// trailing space 
true  ; } MetaData BodyLength
{
uint8
pack,zchar[ 1]float ,  float32 x_y_z `` ,u32
_x,i16 i16 body  , }
")).
Eval vm_compute in ("<<<M570>>>" ++ check (runes_of_ascii "options
~ {
matchKey = 42/// triple
x='0' ;
// packet A { u8 x, }
//
charz
=
// packet A { u8 x, }
// trailing space 
true  ; } MetaData BodyLength
{
uint8
pack,zchar[ 1]float ,  float32 x_y_z `` ,u32
_x,i16 body  , }
")).
Eval vm_compute in ("<<<M428>>>" ++ check (runes_of_ascii "options
{
matchKey = 42/// triple
x='0' charz
// packet A { u8 x, }
//
;
=
// packet A { u8 x, }
// trailing space 
true  ; } MetaData BodyLength
{
uint8
pack,zchar[ 1]float ,  float32 x_y_z `` ,u32
_x,i16 body  , }
")).
Eval vm_compute in ("<<<M416>>>" ++ check (runes_of_ascii "options
{
matchKey = 42/// triple
x'0' ;
// packet A { u8 x, }
//
charz
=
// packet A { u8 x, }
// trailing space 
true  ; } MetaData BodyLength
{
uint8
pack,zchar[ 1]float ,  float32 x_y_z `` ,u32
_x,i16 body  , }
")).
Eval vm_compute in ("<<<M1203>>>" ++ check (runes_of_ascii "// top
packet // c0
o // c1
{ // c2
@tag( // c3
42 // c4
) // c5
repeat // c6
x // c7
{ // c8
char[ // c9
0123456789 // c10
] // c11
i64_ // c12
, // c13
} // c14
, // c15
} // c16
options // c17
{ // c18
} // c19
")).
Eval vm_compute in ("<<<M33>>>" ++ check (runes_of_ascii "packet BodyLength{//	t
x
f32a
    `line1
line2`
,
@calculatedFrom( ""a\\""
)@lengthOf(
repeatCount
) i8 Header
    `{ , }` ,float64	leftPad@calculatedFrom(	""\" ++ [233]%N ++ runes_of_ascii """)
,@calculatedFrom(  ""1"") uint64 o, } 	 ")).
Eval vm_compute in ("<<<M569>>>" ++ check (runes_of_ascii "options
{
matchKey = 42/// triple
x='0' ;
// packet A { u8 x, }
//
charz
=
// packet A { u8 x, }
// trailing space 
true  ; } MetaData BodyLength
{
uint8
pack,zchar[ 1]float ,  float3")).
Eval vm_compute in ("<<<M1650>>>" ++ check (runes_of_ascii "packet MetaDataX {
    match Header as zchar {
        0 : pack,
        [42, 65535] : crc,
    },// @lengthOf(
    @tag(1)
    @rightPad(' ')
    int64 Foo,
}// packet A { u8 x, }")).
Eval vm_compute in ("<<<M1723>>>" ++ check (runes_of_ascii "packet Foo {
    uint64 Header @lengthOf(float) `
    `,// a // b
    char[] _x,
    @tag(10)
    char[] Packet,
    uint16 stringy @lengthOf(calculatedFrom),
}//x

options {
}")).
Eval vm_compute in ("<<<M1520>>>" ++ check (runes_of_ascii "
options	{
    Logon=	""{,}""
    }	//	t

  MetaData
	leftPad {i8 zchar 
`// not a comment`
	,}MetaData	len{char[] u128  , }	// " ++ [27880; 37322]%N ++ runes_of_ascii "
  root

    packet
Pad
	{
    }
")).
Eval vm_compute in ("<<<M475>>>" ++ check (runes_of_ascii "options
{
matchKey = 42/// triple
x='0' ;
// packet A { u8 x, }
//
charz
=
// packet A { u8 x, }
// trailing space 
true  ; } MetaData BodyLength
{")).
Eval vm_compute in ("<<<M1716>>>" ++ check (runes_of_ascii "  packet
A
{	match  k
as
	n
    { [  1 ,
	22 
,

""c c"", 
4
    ,
    5
,

    ""f"" ,

    7,8, ""i"" 
,
	10]
: B

    ,	2 :
	C } ,
}

")).
Eval vm_compute in ("<<<M1984>>>" ++ check (runes_of_ascii "  packet 
A
{  u16

    len
@lengthOf(body
	) `a
b`	,
u32
	crc@calculatedFrom(
""CRC32""  ) 
`a
b`

    ,
string
body ,
} ")).
Eval vm_compute in ("<<<M287>>>" ++ check (runes_of_ascii "
MetaData Pad { int64 roots ,body u128
    //x
    , float64 x // trailing space 
, int32
    chars , A options1 `
`,
    }
")).
Eval vm_compute in ("<<<M1769>>>" ++ check (runes_of_ascii "packet A {
    u16 len @lengthOf(body) `
        `,
    u32 crc @calculatedFrom(""CRC32"") `
        `,
    string body,
}")).
Eval vm_compute in ("<<<M1628>>>" ++ check (runes_of_ascii "
packet
calculatedFrom	{ @tag( 4294967296  )	// c
	u

msg_type,
char[ 
3
	]	crc

@lengthOf(
    len
	)

`u8 x,` , }
")).
Eval vm_compute in ("<<<M1610>>>" ++ check (runes_of_ascii "packet A {
    u16 len @lengthOf(body) `a
    b`,
    u32 crc @calculatedFrom(""CRC32"") `a
    b`,
    string body,
}")).
Eval vm_compute in ("<<<M1481>>>" ++ check (runes_of_ascii "
packet
	Logon
	{ @tag(
42 )
	@rightPad (' '

    ) @leftPad (
) repeat trueish{ // c

  string T 
,} 
,	}

")).
Eval vm_compute in ("<<<M1697>>>" ++ check (runes_of_ascii "
packet
Logon
{
@tag(

42	)

@rightPad(	' '
)

    @leftPad
() repeat // c
  trueish

{string	T	,}, 
}
")).
Eval vm_compute in ("<<<M911>>>" ++ check (runes_of_ascii "packet A {
  match k as n {
    [1, 22, ""c c"", 4, 5, ""f"", 7, 8, ""i"", 10, 11, ""l""] : B,
    2 : C
  },
}")).
Eval vm_compute in ("<<<M1281>>>" ++ check (runes_of_ascii "packet calculatedFrom { @tag( 4294967296 ) u msg_type , char[ 3 ] crc @lengthOf( len // c
) `u8 x,` , }")).
Eval vm_compute in ("<<<M949>>>" ++ check (runes_of_ascii "packet A {
    Inner {
        u8 x `x
`,
        Deep {
            u8 y `x
`,
        },
    },
}")).
Eval vm_compute in ("<<<M327>>>" ++ check (runes_of_ascii "MetaData
    // " ++ [128512]%N ++ runes_of_ascii " emoji
    msg_type { As  roots , i32  rootA, f64 falsey  ,
char[]
rootA ,}
")).
Eval vm_compute in ("<<<M1159>>>" ++ check (runes_of_ascii "packet Logon { @tag( 42 ) @rightPad ( ' ' ) @leftPad ( ) repeat trueish
// c
{ string T , } , }")).
Eval vm_compute in ("<<<M891>>>" ++ check (runes_of_ascii "packet A {
  match k as n {
    [1, 22, 007, 4, 5, 66, 7, 8, 9, 10, 11] : B
    2 : C
  },
}")).
Eval vm_compute in ("<<<M675>>>" ++ check (runes_of_ascii "// c
packet i64_ {	char[] calculatedFrom , } packet
trueish  {@calculatedFrom(
""a\\"" ) o")).
Eval vm_compute in ("<<<M842>>>" ++ check (runes_of_ascii "packet A {
  match k as n {
    [1, ""bb"", 007, ""d"", 5, ""f"", 7] : B,
    2 : C
  },
}")).
Eval vm_compute in ("<<<M1210>>>" ++ check (runes_of_ascii "packet o // c
{ @tag( 42 ) repeat x { char[ 0123456789 ] i64_ , } , } options { }")).
Eval vm_compute in ("<<<M1242>>>" ++ check (runes_of_ascii "packet o { @tag( 42 ) repeat x { char[ 0123456789 ] i64_ , } , } options // c
{ }")).
Eval vm_compute in ("<<<M46>>>" ++ check (runes_of_ascii "options
    {
    }packet
    repeatCount { // `tick` ""quote"" 'q'
}options{}
")).
Eval vm_compute in ("<<<M1534>>>" ++ check (runes_of_ascii "  MetaData
stringy 
{  char[  0	]
    chars	// @lengthOf(
  `{ , }`
, } ")).
Eval vm_compute in ("<<<M755>>>" ++ check (runes_of_ascii "match u16 match zchar[ '\x00' true [ false ) @lengthOf( ""a\\"" float32 }")).
Eval vm_compute in ("<<<M1324>>>" ++ check (runes_of_ascii "MetaData _x { zchar[ 4294967296 ] lengthOf `// not a comment`
// c
, }")).
Eval vm_compute in ("<<<M1616>>>" ++ check (runes_of_ascii "root packet P {
    u16 a,
    u32 Sum @calculatedFrom(""CRC32""),
}")).
Eval vm_compute in ("<<<M738>>>" ++ check (runes_of_ascii "'0' '\x00' 255 rootA root string '0' match zchar[ ( uint16 ,")).
Eval vm_compute in ("<<<M643>>>" ++ check (runes_of_ascii "MetaData
    // trailing space 
    matchKey
{ u64 char")).
Eval vm_compute in ("<<<M1293>>>" ++ check (runes_of_ascii "// top
packet
    // c0
lengthOf {
    // c2
} ")).
Eval vm_compute in ("<<<M430>>>" ++ check (runes_of_ascii "options
{
matchKey = 42/// triple
x='0'")).
Eval vm_compute in ("<<<M345>>>" ++ check (runes_of_ascii "options
{ Logon = //x
'\x00'
    ; }
")).
Eval vm_compute in ("<<<M1693>>>" ++ check (runes_of_ascii "options	// c
    { u8x  =
    3}
")).
Eval vm_compute in ("<<<M977>>>" ++ check (runes_of_ascii "packet A {
 u8 x `d `, // c 
}")).
Eval vm_compute in ("<<<M266>>>" ++ check (runes_of_ascii "options
{Packet=
char[] }")).
Eval vm_compute in ("<<<M1190>>>" ++ check (runes_of_ascii "options { u8x
// c
= 3 }")).
Eval vm_compute in ("<<<M182>>>" ++ check (runes_of_ascii "root packet As { }

")).
Eval vm_compute in ("<<<M1005>>>" ++ check (runes_of_ascii "packet A {
}
// c" ++ [8202]%N)).
Eval vm_compute in ("<<<M983>>>" ++ check (runes_of_ascii "packet A {
}// c" ++ [160]%N)).
Eval vm_compute in ("<<<M1866>>>" ++ check (runes_of_ascii "

  // c 	
")).
Eval vm_compute in ("<<<M1014>>>" ++ check (runes_of_ascii "// c" ++ [8233]%N)).
