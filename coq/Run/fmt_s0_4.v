From FP Require Import Lexer Parser ShowPT Digest Formatter.
From Coq Require Import String List NArith.
Import ListNotations.
Open Scope string_scope.
Set Printing Width 100000000.
Set Printing Depth 100000000.
Definition show_fres (r : fres) : string :=
  match r with
  | FOk s => "OK:" ++ sh_escaped s ""
  | FErr s => "ERR:" ++ sh_escaped s ""
  | FPanic p => "PANIC:" ++ p
  end.
Definition check (rs : list rune) : string := digest (show_fres (format_res rs)).
Definition full (rs : list rune) : string := show_fres (format_res rs).
Eval vm_compute in ("<<<M1342>>>" ++ check (runes_of_ascii "// top
options
    // c0
{ StringPrefixLenType
    // c2
= u64 ; ArrayPrefixLenType // c6
= u32
    // c8
; // c9a
  // c9b
FixedStringPadFromLeft
    // c10
=
    // c11
false // c12
; } // c14
packet // c15
Party // c16
{ zchar[ // c18
7 // c19
] // c20
OrderId // c21a
  // c21b
, // c22
InTail6 { // c24
repeat // c25a
  // c25b
char[ // c26
1 ] // c28
msgKind , // c30
char[
    // c31
3 // c32a
  // c32b
] Tail , char[
    // c36
3 // c37a
  // c37b
]
    // c38
Flags // c39
, // c40a
  // c40b
i16 tag7
    // c42
, // c43a
  // c43b
} ,
    // c45
@rightPad
    // c46
(
    // c47
'0' // c48
) char[ // c50
12 // c51a
  // c51b
]
    // c52
clOrdID
    // c53
, // c54
} packet // c56a
  // c56b
Quote // c57a
  // c57b
{ @leftPad // c59
( // c60
'0' // c61a
  // c61b
)
    // c62
char[ // c63a
  // c63b
11
    // c64
]
    // c65
price // c66a
  // c66b
, // c67
repeat InCount7 // c69
{ // c70
i32 // c71
x // c72
, // c73a
  // c73b
Party , // c75a
  // c75b
u8 // c76a
  // c76b
Ref // c77a
  // c77b
, u8 // c79
tag7 // c80
, // c81
} ,
    // c83
char[] // c84
seqNo // c85
,
    // c86
Party
    // c87
, // c88
} // c89
packet // c90
Logon // c91a
  // c91b
{ @rightPad // c93a
  // c93b
(
    // c94
'\x00'
    // c95
) // c96a
  // c96b
char[ // c97
5 ] // c99
Note
    // c100
, i16 sym // c103
, // c104a
  // c104b
InPrice72 // c105
{ // c106
char[ 9 // c108
]
    // c109
Ref // c110
,
    // c111
zchar[
    // c112
1 ] venue // c115
, // c116a
  // c116b
} // c117a
  // c117b
, // c118a
  // c118b
char[]
    // c119
clOrdID
    // c120
, // c121a
  // c121b
} // c122
root
    // c123
packet // c124
Reject { // c126
repeat // c127a
  // c127b
Logon // c128
, // c129a
  // c129b
@leftPad ( // c131
' ' // c132
) // c133a
  // c133b
char[
    // c134
4 // c135a
  // c135b
] // c136a
  // c136b
seqNo
    // c137
,
    // c138
zchar[ // c139a
  // c139b
5
    // c140
] // c141
Acct // c142
, // c143
u32
    // c144
x
    // c145
, // c146
u16
    // c147
f1
    // c148
@lengthOf( // c149a
  // c149b
Body // c150a
  // c150b
)
    // c151
, match x // c154a
  // c154b
as
    // c155
Body // c156a
  // c156b
{ // c157a
  // c157b
[
    // c158
169
    // c159
, 74 ]
    // c162
:
    // c163
Quote
    // c164
, // c165
45 // c166a
  // c166b
: Party // c168a
  // c168b
, // c169
7 // c170
:
    // c171
Logon , // c173
} // c174
,
    // c175
} // c176a
  // c176b
")).
Eval vm_compute in ("<<<M313>>>" ++ check (runes_of_ascii "options { BodyLength = char[ 7] ;	}
// c
// @lengthOf(
packet asx// " ++ [128512]%N ++ runes_of_ascii " emoji
{ int16
    x_y_z , @calculatedFrom(
    """" ) @lengthOf(
    /// triple
    chars) //
repeat repeatCount
charz
/// triple
// " ++ [27880; 37322]%N ++ runes_of_ascii "
, @leftPad ( ) i64_@calculatedFrom(
""\" ++ [233]%N ++ runes_of_ascii """	) `// not a comment` , tag Z9_
`two words` ,
@lengthOf( asx
)@calculatedFrom(
""`tick`""
    )match uint8x as
matchKey
    {0123456789
// packet A { u8 x, }
// a // b
: u8x ,1 : zchar , } ,u128 @lengthOf( u128 // packet A { u8 x, }
)// " ++ [128512]%N ++ runes_of_ascii " emoji
, } MetaData	msg_type  {
string
BodyLength  `two words` , options1// " ++ [128512]%N ++ runes_of_ascii " emoji
i64_ ,
    }// " ++ [128512]%N ++ runes_of_ascii " emoji
packet roots { u `` , @calculatedFrom( ""a	b"")match len as	msg_type{
    // c
    """ ++ [28040; 24687]%N ++ runes_of_ascii """
:
charz}, crc @calculatedFrom(
// packet A { u8 x, }
// packet A { u8 x, }
""it's"" ) `a\`
,@leftPad
( '0' )@tag( 007	) zchar[// trailing space 
3
    // trailing space 
    ] falsey ,  @calculatedFrom(// `tick` ""quote"" 'q'
""\n""
    )@calculatedFrom(""CRC32""// c
)
    // trailing space 
    match
    //x
    Packet as // @lengthOf(
stringy	{ 1:
Pad
, ""it's"" :f32a ,
} , @leftPad (
' '
)
    match // " ++ [27880; 37322]%N ++ runes_of_ascii "
int as	a1 { [ 0123456789 ,255]
    :
    options1
//x
//x
}
    ,BodyLength
    //
    @calculatedFrom( """ ++ [28040; 24687]%N ++ runes_of_ascii """ ),
float32
    zchar
@calculatedFrom( ""// no comment""
)
,	@tag( 10 ) zchar[
    // packet A { u8 x, }
    1  ] rootA , }
")).
Eval vm_compute in ("<<<M1364>>>" ++ check (runes_of_ascii "options { // c1
LittleEndian = // c3
true ; // c5a
  // c5b
StringPrefixLenType = // c7
u64 // c8a
  // c8b
; // c9a
  // c9b
ArrayPrefixLenType // c10
= // c11
u16 // c12
; // c13a
  // c13b
FixedStringPadFromLeft
    // c14
= // c15a
  // c15b
false // c16
; FixedStringPadChar = ' ' // c20a
  // c20b
; } packet // c23a
  // c23b
Logon // c24a
  // c24b
{ // c25a
  // c25b
zchar[ 5 // c27
] // c28a
  // c28b
Side2 // c29
, // c30
} root
    // c32
packet Logout
    // c34
{ // c35
repeat i64 // c37a
  // c37b
Tail , // c39a
  // c39b
Logon // c40
, // c41a
  // c41b
repeat i16 // c43
OrderId
    // c44
,
    // c45
char[] venue
    // c47
,
    // c48
uint64 x // c50
, // c51a
  // c51b
repeat
    // c52
i16 // c53
count // c54a
  // c54b
, u8
    // c56
Flags // c57
, // c58
match // c59a
  // c59b
Flags // c60
as // c61
Body // c62
{ // c63a
  // c63b
25
    // c64
: // c65a
  // c65b
Logon , // c67
} , // c69
u16 // c70
Qty // c71a
  // c71b
@calculatedFrom( // c72
""CRC32"" ) , // c75
} // c76
")).
Eval vm_compute in ("<<<M1433>>>" ++ check (runes_of_ascii "packet i8i8 {
    @tag(0)
    int32 leftPad `it's`,
    repeat char[] Header `crlf
    line`,
    @calculatedFrom(""\" ++ [233]%N ++ runes_of_ascii """)
    /// triple
    repeat uint8 float,
    @rightPad('\x00')
    char[] zchar @lengthOf(leftPad) `
    `,
    Z9_,
    @lengthOf(x)
    match As as tag {
        ""a	b"" : string_,
        [
            10, 7, 255, 3, 42,
            0123456789, ""1"", """ ++ [128512]%N ++ runes_of_ascii """
        ] : x_y_z,
        ""CRC32"" : Z9_,
        00 : Logon,
    },
    @tag(007)
    o {
        char Packet @lengthOf(repeatCount),
    },
    @lengthOf(pack)
    float64 rootA `two words`,
    repeat char[] BodyLength,
}

packet Z9_ {
    match As as a1 {
        //
        0 : trueish,
    },
}

root packet u8x {
    /// triple
    // " ++ [128512]%N ++ runes_of_ascii " emoji
    repeat string Logon `tab	here`,// " ++ [128512]%N ++ runes_of_ascii " emoji
}

options {
    _x = ""packet"";
    f32a = 007
}

packet i8i8 {
    @calculatedFrom(""CRC32"")
    A @lengthOf(a1),
}")).
Eval vm_compute in ("<<<M1377>>>" ++ check (runes_of_ascii "// top
options
    // c0
{
    // c1
LittleEndian = // c3a
  // c3b
true // c4a
  // c4b
; // c5
} // c6
packet // c7
Logon { // c9a
  // c9b
u8 x
    // c11
, }
    // c13
packet
    // c14
Logout // c15
{ u16
    // c17
reason // c18a
  // c18b
, // c19
} root // c21
packet
    // c22
Frame {
    // c24
i8 Kind // c26
, i8 // c28
Kind2 , // c30a
  // c30b
match // c31
Kind // c32a
  // c32b
as // c33
Body // c34a
  // c34b
{
    // c35
1
    // c36
: // c37a
  // c37b
Logon // c38
, // c39
[ 2 // c41a
  // c41b
, // c42a
  // c42b
3 , // c44
4 ] // c46
: // c47
Logout
    // c48
, // c49
100 // c50
: // c51
Logon , }
    // c54
, // c55
match Kind2 // c57
as // c58a
  // c58b
Trailer // c59a
  // c59b
{
    // c60
0
    // c61
:
    // c62
Logout , // c64
} // c65
, // c66a
  // c66b
} // c67a
  // c67b
")).
Eval vm_compute in ("<<<M1871>>>" ++ check (runes_of_ascii "packet
	pack
	    // c
    // packet A { u8 x, }

{
	u8 a1
	// trailing space 
	/// triple
  	`say ""hi""` // packet A { u8 x, }
	,@leftPad (
'\x00' 
)
	uint8
Logon
	`
` 	 // `tick` ""quote"" 'q'
      ,

char[]lengthOf// " ++ [27880; 37322]%N ++ runes_of_ascii "
    	`" ++ [233]%N ++ runes_of_ascii "`

,
//
//x
repeat char[]
As ,
    //	t
	@lengthOf(

    string_
    ) @calculatedFrom(""a\\""
)repeat

    u8x	o
	,char 
string_ @calculatedFrom(

""a\""b"" )	`tab	here`

    ,
	repeat As	{

char[  
  // packet A { u8 x, }
    	0 
] i64_ //	t
	@lengthOf(
T)`" ++ [233]%N ++ runes_of_ascii "`
,  char[
4294967296]  T @calculatedFrom( ""\" ++ [233]%N ++ runes_of_ascii """
) 
, 
trueish
,
repeat  int
{string
	Logon
	@calculatedFrom(""1"" 
)
	,	metadata

    ,	uint32

    Z9_,	// " ++ [27880; 37322]%N ++ runes_of_ascii "
  }
,

    }

,

@tag(00	)	//	t
  i16 
a1

    `a\` , } ")).
Eval vm_compute in ("<<<M1873>>>" ++ check (runes_of_ascii "options {
}

packet u8x {
    string uint8x @calculatedFrom(""{,}"") `crlf
    line`,
}

MetaData falsey {
    Logon packetx `tab	here`,
}

root packet o {
    falsey @calculatedFrom(""" ++ [28040; 24687]%N ++ runes_of_ascii """),
    @tag(0123456789)
    // `tick` ""quote"" 'q'
    char[0123456789] u128 @calculatedFrom(""{,}""),
    @tag(00)
    @lengthOf(stringy)
    @tag(4294967296)
    rootA Header,
    @lengthOf(As)
    repeat leftPad `// not a comment`,
    i8 leftPad @calculatedFrom(""""),
    @tag(10)
    zchar[007] packetx @lengthOf(u8x) `" ++ [28040; 24687; 31867; 22411]%N ++ runes_of_ascii "`,
}

packet options1 {
    //	t
    // trailing space 
    falsey {
        //	t
        zchar[3] roots,
        u32 Header,
    },// a // b
}")).
Eval vm_compute in ("<<<M1239>>>" ++ check (runes_of_ascii "// top
options // c0
{ // c1a
  // c1b
zchar // c2
= // c3a
  // c3b
true // c4
; Pad // c6a
  // c6b
=
    // c7
char[ 00 // c9a
  // c9b
]
    // c10
a1 = // c12a
  // c12b
uint32 // c13a
  // c13b
BodyLength = true // c16a
  // c16b
;
    // c17
} root // c19
packet // c20
T // c21a
  // c21b
{
    // c22
@lengthOf( // c23a
  // c23b
repeatCount ) @tag( // c26a
  // c26b
1
    // c27
) // c28a
  // c28b
@calculatedFrom( // c29
""a	b"" // c30a
  // c30b
) // c31a
  // c31b
string // c32
stringy @calculatedFrom( ""\n"" ) // c36
`u8 x,` // c37a
  // c37b
, // c38
} // c39
")).
Eval vm_compute in ("<<<M45>>>" ++ check (runes_of_ascii "
packet
tag{ string matchKey `line1
line2` , @tag( 0 )// c
@calculatedFrom( ""1"" )@calculatedFrom( // " ++ [128512]%N ++ runes_of_ascii " emoji
""a\""b"" ) float64 matchKey
,}options
{ crc
    = true
    msg_type
    //	t
    =
true;
} packet o { match  roots
as calculatedFrom { ""// no comment""
    // packet A { u8 x, }
    :
    msg_type	, ""{,}""
    :u128, [
    65535 , 0123456789
]/// triple
: body ,// " ++ [128512]%N ++ runes_of_ascii " emoji
} ,@rightPad ( ' '	) repeat
string_ i64_ ,
@lengthOf(
lengthOf )@tag( 255// packet A { u8 x, }
)	@tag( 00 )
char[]
stringy
, }
")).
Eval vm_compute in ("<<<M291>>>" ++ check (runes_of_ascii "root
// " ++ [27880; 37322]%N ++ runes_of_ascii "
// @lengthOf(
packet
    Packet
{ string o @calculatedFrom( ""\" ++ [233]%N ++ runes_of_ascii """)
, @lengthOf( Packet
    // packet A { u8 x, }
    ) body @calculatedFrom( // @lengthOf(
""x y"" )
`it's` ,
float64 As @calculatedFrom( ""`tick`""	), char[]	stringy  @calculatedFrom(""" ++ [28040; 24687]%N ++ runes_of_ascii """	) `doc` , @calculatedFrom(""a	b"") match
float as o{ [ """ ++ [128512]%N ++ runes_of_ascii """
    ,007]
    :metadata
,
} ,f32a a1 `a\` , }
MetaData
repeatCount
    { packetx i64_ `" ++ [28040; 24687; 31867; 22411]%N ++ runes_of_ascii "` , // " ++ [128512]%N ++ runes_of_ascii " emoji
zchar[
3
] tag ,
i8i8 int , }
")).
Eval vm_compute in ("<<<M1421>>>" ++ check (runes_of_ascii "
options
	{
}
	MetaData	string_  // `tick` ""quote"" 'q'
  {u32 matchKey
`u8 x,`

    ,

    string
MetaDataX
    ,uint8
    Logon ,  uint64 options1 ,	char[
00
    ]

    len 
        // `tick` ""quote"" 'q'
  // trailing space 
	`tab	here`  ,

u8 
options1
, 
}// a // b
  packet
    a1
    {chars
	,

char[]
i64_

    @lengthOf( 
        // " ++ [27880; 37322]%N ++ runes_of_ascii "
		stringy  )	,char  T	,
	repeat
    i8

charz  `a\` 
, 
}
")).
Eval vm_compute in ("<<<M1262>>>" ++ check (runes_of_ascii "// top
packet // c0
B // c1
{
    // c2
u8
    // c3
a , } root packet // c8a
  // c8b
P // c9a
  // c9b
{
    // c10
u8 // c11
K , // c13
u64 // c14a
  // c14b
L @lengthOf( // c16a
  // c16b
Body
    // c17
) , match // c20a
  // c20b
K as // c22a
  // c22b
Body // c23
{ // c24a
  // c24b
1 : // c26a
  // c26b
B // c27a
  // c27b
,
    // c28
} // c29
, // c30
}
    // c31
")).
Eval vm_compute in ("<<<M1412>>>" ++ check (runes_of_ascii "  // top

	MetaData 	 // c0
leftPad	// c1
{	// c2
chars	// c3
  MetaDataX // c4

, 	 // c5
    	} // c6

packet 	 // c7

  repeatCount	// c8
    {// c9
	char[ // c10
  255 // c11
    ]  // c12
  uint8x  // c13
  `" ++ [233]%N ++ runes_of_ascii "` 	 // c14
	,// c15
}  // c16
MetaData	// c17
	pack// c18
	  {	// c19
	As 	 // c20
	Foo // c21
    ,	// c22
  	} 	 // c23
")).
Eval vm_compute in ("<<<M1799>>>" ++ check (runes_of_ascii "packet BodyLength {
    repeatCount `// not a comment`,
    @lengthOf(lengthOf)
    @tag(65535)
    @rightPad('0')
    /// triple
    u8 Logon,
}

packet chars {
    o msg_type,
    @tag(10)
    zchar[65535] f32a,
    repeat char[] i64_ `
        `,
}

root packet f32a {
    @tag(255)
    repeat u8 stringy,
}")).
Eval vm_compute in ("<<<M1138>>>" ++ check (runes_of_ascii "// top
MetaData // c0
leftPad // c1
{ // c2
chars // c3
MetaDataX // c4
, // c5
} // c6
packet // c7
repeatCount // c8
{ // c9
char[ // c10
255 // c11
] // c12
uint8x // c13
`" ++ [233]%N ++ runes_of_ascii "` // c14
, // c15
} // c16
MetaData // c17
pack // c18
{ // c19
As // c20
Foo // c21
, // c22
} // c23
")).
Eval vm_compute in ("<<<M254>>>" ++ check (runes_of_ascii "packet  zchar
{ zchar[ 42
//
//
]uint8x ,
    match
    A as
As{
    0: int
    ,
}
, @tag(7 ) @calculatedFrom(
""packet"" ) match
i64_
as metadata //	t
{
    ""CRC32"" :
A , }
,
    // c
    }	root
packet
uint8x {
    char[ 00 ]	crc
,// " ++ [128512]%N ++ runes_of_ascii " emoji
} 	 ")).
Eval vm_compute in ("<<<M82>>>" ++ check (runes_of_ascii "packet metadata
{int32 calculatedFrom , } options {} options { u128 = '\x00'	;
    string_ =	""abc""
    ; }root
packet i8i8
    {  @rightPad
( '\x00' ) repeat	metadata { string_,
    tag@lengthOf( falsey ) ,
} ,//x
}")).
Eval vm_compute in ("<<<M357>>>" ++ check (runes_of_ascii "MetaData x_y_z
{
lengthOf // packet A { u8 x, }
rootA , MetaDataX// " ++ [128512]%N ++ runes_of_ascii " emoji
_x , char[ 4294967296 ] stringy , char[
//
// c
007
] u128
, tag u8x `line1
line2` ,  uint8 u128 , }
")).
Eval vm_compute in ("<<<M1196>>>" ++ check (runes_of_ascii "// top
packet // c0a
  // c0b
body
    // c1
{ i32 // c3
f32a
    // c4
`{ , }` // c5a
  // c5b
, }
    // c7
options // c8a
  // c8b
{ // c9
} // c10a
  // c10b
")).
Eval vm_compute in ("<<<M406>>>" ++ check (runes_of_ascii "packet uint8x
{ match match pack
    as msg_type	{
    0123456789 :	float
}
,
} packet //	t
a1
    { } options {packetx
    = '\x00'	; u128= ""a	b""  ; }
")).
Eval vm_compute in ("<<<M1915>>>" ++ check (runes_of_ascii "MetaData

    // c
	leftPad
{
    chars
    MetaDataX

,

}
packet 
repeatCount
{	char[	255
]

    uint8x`" ++ [233]%N ++ runes_of_ascii "`
	,} 
MetaData pack { As Foo
,

    }")).
Eval vm_compute in ("<<<M536>>>" ++ check (runes_of_ascii "packet uint8x
{ match pack
    as msg_type	{
    0123456789 :	float
}
,
} packet //	t
a1
    { } options {packetx
    = '\x00'	/; u128= ""a	b""  ; }
")).
Eval vm_compute in ("<<<M487>>>" ++ check (runes_of_ascii "packet uint8x
{ match pack
    as msg_type	{
    0123456789 :	float
}
,
} packet //	t
a1
    { } options packetx{
    = '\x00'	; u128= ""a	b""  ; }
")).
Eval vm_compute in ("<<<M1785>>>" ++ check (runes_of_ascii "// @lengthOf(
packet i8i8 {
    o,
}

options {
    MetaDataX = true;
    BodyLength = ""packet""
    x_y_z = 007
    crc = ""abc"";
    msg_type = i16
}")).
Eval vm_compute in ("<<<M440>>>" ++ check (runes_of_ascii "packet uint8x
{ match pack
    as msg_type	{
    0123456789 :	
}
,
} packet //	t
a1
    { } options {packetx
    = '\x00'	; u128= ""a	b""  ; }
")).
Eval vm_compute in ("<<<M480>>>" ++ check (runes_of_ascii "packet uint8x
{ match pack
    as msg_type	{
    0123456789 :	float
}
,
} packet //	t
a1
    { }  {packetx
    = '\x00'	; u128= ""a	b""  ; }
")).
Eval vm_compute in ("<<<M1720>>>" ++ check (runes_of_ascii "packet A {
    match k as n {
        [
            22, 4, 66, 8, ""a"",
            ""c c"", ""e"", ""g"", ""i""
        ] : B,
        2 : C,
    },
}")).
Eval vm_compute in ("<<<M716>>>" ++ check (runes_of_ascii "// @lengthOf(
packet i8i8 { u128 o , }
 { MetaDataX = true;
    BodyLength =""packet"" x_y_z= 007
crc //x
= ""abc"" ;
    msg_type =
i16 }")).
Eval vm_compute in ("<<<M1549>>>" ++ check (runes_of_ascii "
packet	A 
{
match	k
as n	{
[ 1	,
22
	,	007
	, 
4 
,  5 
,
66

    ,7 ,
    8

    , 9
	,  10  ]:	B

    2
: C
} 
,}
")).
Eval vm_compute in ("<<<M1142>>>" ++ check (runes_of_ascii "
// c
MetaData leftPad { chars MetaDataX , } packet repeatCount { char[ 255 ] uint8x `" ++ [233]%N ++ runes_of_ascii "` , } MetaData pack { As Foo , }")).
Eval vm_compute in ("<<<M1167>>>" ++ check (runes_of_ascii "MetaData leftPad { chars MetaDataX , } packet repeatCount { char[ 255 ] // c
uint8x `" ++ [233]%N ++ runes_of_ascii "` , } MetaData pack { As Foo , }")).
Eval vm_compute in ("<<<M1606>>>" ++ check (runes_of_ascii "packet A {
    u16 len @lengthOf(body) `a
    b`,
    u32 crc @calculatedFrom(""CRC32"") `a
    b`,
    string body,
}")).
Eval vm_compute in ("<<<M901>>>" ++ check (runes_of_ascii "packet A {
  match k as n {
    [""a"", ""bb"", 007, ""d"", ""e"", 66, ""g"", ""h"", 9, ""j"", ""k""] : B,
    2 : C
  },
}")).
Eval vm_compute in ("<<<M1600>>>" ++ check (runes_of_ascii "
packet

A { match k

as
n
{
[  1 ,
    22 ,
	007 ,
4  , 5 , 66, 
7 
] : B 2 :

    C }

    ,}

")).
Eval vm_compute in ("<<<M656>>>" ++ check (runes_of_ascii "// @lengthOf(
packet i8i8 { u128 o , }
options { MetaDataX = true;
    BodyLength =""packet"" x_y_z")).
Eval vm_compute in ("<<<M886>>>" ++ check (runes_of_ascii "packet A {
  match k as n {
    [1, 22, ""c c"", 4, 5, ""f"", 7, 8, ""i"", 10] : B,
    2 : C
  },
}")).
Eval vm_compute in ("<<<M623>>>" ++ check (runes_of_ascii "
packet
    asx {match u128 as lengthOf
{
//	t
// `tick` ""quote"" 'q'
255 : x ,
    } ,	} }")).
Eval vm_compute in ("<<<M589>>>" ++ check (runes_of_ascii "
packet
    asx {match u128 as lengthOf
255
//	t
// `tick` ""quote"" 'q'
{ : x ,
    } ,	}")).
Eval vm_compute in ("<<<M936>>>" ++ check (runes_of_ascii "packet A {
    B b `a
    b
  c`,
    B `a
    b
  c`,
    repeat B bs `a
    b
  c`,
}")).
Eval vm_compute in ("<<<M861>>>" ++ check (runes_of_ascii "packet A {
  match k as n {
    [1, 22, ""c c"", 4, 5, ""f"", 7, 8] : B
    2 : C
  },
}")).
Eval vm_compute in ("<<<M1273>>>" ++ check (runes_of_ascii "options {
    FixedStringPadFromLeft = true;
}
root packet P {
    char[4] z,
}
")).
Eval vm_compute in ("<<<M1282>>>" ++ check (runes_of_ascii "root 
packet

    P  { u16	a ,

u32

Sum	@calculatedFrom( ""CRC32""
	) ,

} ")).
Eval vm_compute in ("<<<M789>>>" ++ check (runes_of_ascii "packet A {
  match k as n {
    [""a"", ""bb"", ""c c""] : B,
    2 : C
  },
}")).
Eval vm_compute in ("<<<M1400>>>" ++ check (runes_of_ascii "
packet
    A

{ Inner
	{
	u8 x`x
`  ,
	Deep	{
u8
y
`x
`	, } ,}	, }")).
Eval vm_compute in ("<<<M155>>>" ++ check (runes_of_ascii "options
{calculatedFrom
= ""abc""
;float=i16
} // trailing space ")).
Eval vm_compute in ("<<<M1102>>>" ++ check (runes_of_ascii "// top
MetaData
    // c0
tag
    // c1
{ // c2
}
    // c3
")).
Eval vm_compute in ("<<<M1696>>>" ++ check (runes_of_ascii "packet body {
    i32 f32a `{ , }`,
}

// c
options {
}")).
Eval vm_compute in ("<<<M1209>>>" ++ check (runes_of_ascii "packet body { i32 f32a `{ , }` // c
, } options { }")).
Eval vm_compute in ("<<<M927>>>" ++ check (runes_of_ascii "MetaData M {
    u8 x `a
b`,
    T t `a
b`,
}")).
Eval vm_compute in ("<<<M724>>>" ++ check (runes_of_ascii "// @lengthOf(
packet i8i8 { u128 o , }
opt")).
Eval vm_compute in ("<<<M935>>>" ++ check (runes_of_ascii "packet A {
    u8 x `a
    b
  c`,
}")).
Eval vm_compute in ("<<<M1636>>>" ++ check (runes_of_ascii "packet A {
    u8 x `d" ++ [133]%N ++ runes_of_ascii "`,// c" ++ [133]%N ++ runes_of_ascii "
}")).
Eval vm_compute in ("<<<M1058>>>" ++ check (runes_of_ascii "packet A {
 u8 x `d" ++ [6158]%N ++ runes_of_ascii "`, // c" ++ [6158]%N ++ runes_of_ascii "
}")).
Eval vm_compute in ("<<<M1776>>>" ++ check (runes_of_ascii "
MetaData u 	 // c

  { }")).
Eval vm_compute in ("<<<M1571>>>" ++ check (runes_of_ascii "
// c 

packet A{ 
}

")).
Eval vm_compute in ("<<<M162>>>" ++ check (runes_of_ascii "
packet f32a  { }
")).
Eval vm_compute in ("<<<M1007>>>" ++ check (runes_of_ascii "// c" ++ [8202]%N ++ runes_of_ascii "
packet A {
}")).
Eval vm_compute in ("<<<M729>>>" ++ check (runes_of_ascii "// only a comment")).
Eval vm_compute in ("<<<M1498>>>" ++ check (runes_of_ascii "packet A {
}// c")).
Eval vm_compute in ("<<<M84>>>" ++ check (runes_of_ascii " // " ++ [27880; 37322]%N)).
Eval vm_compute in ("<<<M769>>>" ++ check ([12]%N ++ runes_of_ascii "7" ++ [30]%N)).
