From FP Require Import Lexer Parser ShowPT Digest Formatter.
From Coq Require Import String List NArith.
Import ListNotations.
Open Scope string_scope.
Set Printing Width 100000000.
Set Printing Depth 100000000.
Definition show_fres (r : fres) : string :=
  match r with
  | FOk s => "OK:" ++ sh_escaped s ""
  | FErr s => "ERR:" ++ sh_escaped s ""
  | FPanic p => "PANIC:" ++ p
  end.
Definition check (rs : list rune) : string := digest (show_fres (format_res rs)).
Definition full (rs : list rune) : string := show_fres (format_res rs).
Eval vm_compute in ("<<<M1339>>>" ++ check (runes_of_ascii "options { // c1a
  // c1b
FixedStringPadFromLeft // c2a
  // c2b
= // c3a
  // c3b
true // c4a
  // c4b
; // c5
FixedStringPadChar
    // c6
= // c7a
  // c7b
'0' ;
    // c9
} // c10a
  // c10b
packet // c11
Leg // c12a
  // c12b
{ InPrice0 // c14
{ // c15a
  // c15b
repeat
    // c16
string // c17
clOrdID // c18a
  // c18b
,
    // c19
int16 // c20
msgKind // c21a
  // c21b
, // c22a
  // c22b
zchar[ // c23
5
    // c24
] Px
    // c26
, // c27
}
    // c28
,
    // c29
i16 // c30
f1 // c31
,
    // c32
repeat // c33a
  // c33b
f64 // c34a
  // c34b
Side2
    // c35
, string
    // c37
Acct // c38
, }
    // c40
packet Cancel // c42
{ zchar[ // c44
4 ] // c46a
  // c46b
clOrdID // c47a
  // c47b
, // c48a
  // c48b
string // c49
seqNo // c50
, // c51a
  // c51b
Leg // c52
,
    // c53
@leftPad // c54a
  // c54b
( '0' // c56
)
    // c57
char[ 11
    // c59
]
    // c60
OrderId // c61
,
    // c62
} packet
    // c64
Quote // c65a
  // c65b
{ repeat
    // c67
char[ 4 // c69
] sym // c71
, // c72
f64 OrderId ,
    // c75
repeat
    // c76
Leg , // c78a
  // c78b
repeat i64 // c80
f1 // c81a
  // c81b
, // c82
int16
    // c83
Note
    // c84
, zchar[ 3 // c87a
  // c87b
] count
    // c89
, } // c91
root
    // c92
packet Ack { // c95a
  // c95b
@leftPad
    // c96
(
    // c97
' ' // c98a
  // c98b
) char[
    // c100
10
    // c101
] // c102a
  // c102b
sym // c103a
  // c103b
, // c104
InPx60 // c105
{ Cancel // c107a
  // c107b
, // c108
repeat char[ 1 // c111
] f1 // c113
, // c114a
  // c114b
string // c115
Tail ,
    // c117
repeat // c118a
  // c118b
InNote55
    // c119
{ // c120
int8 count
    // c122
,
    // c123
f64 // c124a
  // c124b
f1 // c125a
  // c125b
, repeat Cancel
    // c128
, // c129a
  // c129b
}
    // c130
,
    // c131
char[]
    // c132
tag7
    // c133
, repeat // c135a
  // c135b
string
    // c136
msgKind
    // c137
, } , // c140
u8
    // c141
lastPx ,
    // c143
match // c144
lastPx
    // c145
as // c146a
  // c146b
Body // c147
{
    // c148
152 : Quote , // c152a
  // c152b
173 // c153
: // c154a
  // c154b
Cancel
    // c155
, // c156a
  // c156b
4 : // c158a
  // c158b
Leg // c159a
  // c159b
, } // c161
, u16
    // c163
Ref // c164
@calculatedFrom(
    // c165
""CRC32""
    // c166
) // c167a
  // c167b
, // c168a
  // c168b
}
    // c169
")).
Eval vm_compute in ("<<<M279>>>" ++ check (runes_of_ascii "  root packet
    crc {	uint32
repeatCount //
@lengthOf( // a // b
MetaDataX	) `say ""hi""` ,
    @tag( 65535 ) A {
    u128 , u8x	{ repeatCount  @lengthOf( As )// c
,// packet A { u8 x, }
i32	_x@calculatedFrom(//	t
""" ++ [128512]%N ++ runes_of_ascii """	), } , } // c
,
@lengthOf(As ) @tag(  0 ) @tag(4294967296 ) string metadata ,
string lengthOf // `tick` ""quote"" 'q'
@lengthOf(f32a) , @tag( 3 )string packetx,	@lengthOf( Pad) @lengthOf( packetx ) BodyLength @calculatedFrom( ""a	b"" )
, repeat u8x
{ zchar[ 3 ]
    tag `doc` , match As as leftPad
    { [
    10 ,
3 , 7 ,
""abc"" , 42 // @lengthOf(
]
:
A
, } , match Header as falsey { 42
// `tick` ""quote"" 'q'
// trailing space 
:
    msg_type
    , 00
: A
1 :
charz ,""// no comment"" : int // @lengthOf(
,	0123456789 :chars , 4294967296
: x } ,
}
    /// triple
    , @tag(
10 ) @tag(//x
007 )
@calculatedFrom( ""`tick`""
    )i8i8 @lengthOf(
    //
    charz ),
    char[ 7] Header
, } packet
lengthOf // @lengthOf(
{match metadata
    // " ++ [128512]%N ++ runes_of_ascii " emoji
    as asx{ 7 // packet A { u8 x, }
: //
float  ,
    // " ++ [128512]%N ++ runes_of_ascii " emoji
    """ ++ [233]%N ++ runes_of_ascii "t" ++ [233]%N ++ runes_of_ascii """:
stringy
, """ ++ [28040; 24687]%N ++ runes_of_ascii """ :
BodyLength , 7 : leftPad , } , @lengthOf(MetaDataX
)repeat zchar[ 7 ]float , @tag( 0
    )matchKey @calculatedFrom(""packet""
    ) // packet A { u8 x, }
, }packet Pad{ options1 @lengthOf(rootA ),} root // c
packet BodyLength{
string uint8x
//
// " ++ [27880; 37322]%N ++ runes_of_ascii "
@lengthOf( Z9_) , } // c")).
Eval vm_compute in ("<<<M384>>>" ++ check (runes_of_ascii "options {
	StringPrefixLenType = u16;
	ArrayPrefixLenType = u16;
}

packet SampleBinary {
	uint16 MsgType `" ++ [28040; 24687; 31867; 22411]%N ++ runes_of_ascii "`,
	u16 BodyLenght @lengthOf(Body) `" ++ [28040; 24687; 20307; 38271; 24230]%N ++ runes_of_ascii "`,
	match MsgType as Body {
		1 : Logon,
		2 : Logout,
		3 : Heartbeat,
		4 : RiskControlRequest,
		5 : RiskControlResponse,
	},
		@calculatedFrom(""CRC32"")
	u32 Ckecksum `" ++ [26657; 39564; 21644]%N ++ runes_of_ascii "`,
}

packet Logon {
	 @leftPad('0')
	char[10] UserName `" ++ [29992; 25143; 21517]%N ++ runes_of_ascii "`,
	string Password `" ++ [23494; 30721]%N ++ runes_of_ascii "`,
	uint64 ClientId `" ++ [23458; 25143; 31471]%N ++ runes_of_ascii "ID`,
	u16 HeartbeatInterval `" ++ [24515; 36339; 38388; 38548]%N ++ runes_of_ascii "`,
}

packet Logout {
	  @rightPad('0')
	char[10] UserName `" ++ [29992; 25143; 21517]%N ++ runes_of_ascii "`,
	uint64 ClientId `" ++ [23458; 25143; 31471]%N ++ runes_of_ascii "ID`,
}

packet Heartbeat {
}

packet RiskControlRequest {
	string UniqueOrderId `" ++ [21807; 19968; 35746; 21333; 21495]%N ++ runes_of_ascii "`,
	char[16] ClOrdID `" ++ [23458; 25143; 35746; 21333; 21495]%N ++ runes_of_ascii "`,
	char[3] MarketID `" ++ [24066; 22330]%N ++ runes_of_ascii "id`,
	char[12] SecurityID `" ++ [35777; 21048; 20195; 30721]%N ++ runes_of_ascii "`,
	char Side `" ++ [20080; 21334; 26041; 21521]%N ++ runes_of_ascii "`,
	char OrderType `" ++ [35746; 21333; 31867; 22411]%N ++ runes_of_ascii "`,
	u64 Price `" ++ [20215; 26684]%N ++ runes_of_ascii "`,
	u32 Qty `" ++ [25968; 37327]%N ++ runes_of_ascii "`,
	repeat string ExtraInfo `" ++ [38468; 21152; 20449; 24687]%N ++ runes_of_ascii "`,
	repeat SubOrder {
			char[16] ClOrdID `" ++ [23376; 35746; 21333; 21495]%N ++ runes_of_ascii "`,
			u64 Price `" ++ [23376; 35746; 21333; 20215; 26684]%N ++ runes_of_ascii "`,
			u32 Qty `" ++ [23376; 35746; 21333; 25968; 37327]%N ++ runes_of_ascii "`,
		},
}

packet RiskControlResponse {
	string UniqueOrderId `" ++ [21807; 19968; 35746; 21333; 21495]%N ++ runes_of_ascii "`,
	i32 Status `" ++ [29366; 24577]%N ++ runes_of_ascii "`,
	string Msg `" ++ [32467; 26524; 20449; 24687]%N ++ runes_of_ascii "`,
	repeat Detail,
}

packet Detail {
	string RuleName `" ++ [35268; 21017; 21517; 31216]%N ++ runes_of_ascii "`,
	u16 Code `" ++ [21407; 22240; 20195; 30721]%N ++ runes_of_ascii "`,
}")).
Eval vm_compute in ("<<<M1333>>>" ++ check (runes_of_ascii "// top
options // c0
{ LittleEndian
    // c2
= // c3a
  // c3b
false // c4
; // c5a
  // c5b
StringPrefixLenType // c6
= // c7a
  // c7b
u8 ; ArrayPrefixLenType =
    // c11
u64 // c12
;
    // c13
FixedStringPadFromLeft
    // c14
= false ; // c17a
  // c17b
FixedStringPadChar = // c19a
  // c19b
' ' ;
    // c21
} // c22
packet Reject // c24a
  // c24b
{ repeat // c26
char[ // c27a
  // c27b
4 // c28
]
    // c29
seqNo , // c31
string // c32a
  // c32b
Px // c33a
  // c33b
, // c34
} root
    // c36
packet // c37
Trade
    // c38
{ // c39a
  // c39b
@rightPad // c40
(
    // c41
'0' ) // c43a
  // c43b
char[ // c44
2 // c45
] msgKind , // c48
repeat
    // c49
f64 // c50a
  // c50b
price
    // c51
, // c52
InAcct79 // c53
{
    // c54
repeat
    // c55
Reject , // c57a
  // c57b
zchar[ // c58
7 // c59a
  // c59b
] // c60a
  // c60b
OrderId // c61
,
    // c62
} // c63a
  // c63b
, Reject , } // c67a
  // c67b
")).
Eval vm_compute in ("<<<M1656>>>" ++ check (runes_of_ascii "packet u128 {
    @rightPad(' ')
    i64_ {
        Logon,
        char[4294967296] MetaDataX @calculatedFrom(""" ++ [28040; 24687]%N ++ runes_of_ascii """),
    },
    rootA {
        zchar[1] rootA,
        asx {
            rootA @calculatedFrom(""abc""),
            repeat uint16 x_y_z,
            // packet A { u8 x, }
            zchar[42] stringy,
            body,
        },
    },
    @leftPad('\x00')
    char[3] Z9_ @lengthOf(roots) `" ++ [233]%N ++ runes_of_ascii "`,
    @lengthOf(charz)
    @leftPad('0')
    @calculatedFrom(""a\""b"")
    zchar[7] a1 @calculatedFrom(""\" ++ [233]%N ++ runes_of_ascii """) `// not a comment`,
    @lengthOf(lengthOf)
    repeat i16 chars,
    int {
        //	t
        zchar[1] calculatedFrom `line1
                line2`,
        Packet `" ++ [28040; 24687; 31867; 22411]%N ++ runes_of_ascii "`,
    },// " ++ [128512]%N ++ runes_of_ascii " emoji
    @rightPad('\x00')
    zchar[255] repeatCount @calculatedFrom(""\" ++ [233]%N ++ runes_of_ascii """),
    repeat char[] Pad `a\`,
    @lengthOf(pack)
    i8 int,
}")).
Eval vm_compute in ("<<<M1353>>>" ++ check (runes_of_ascii "options {
    StringPrefixLenType = u16;
    ArrayPrefixLenType = u32;
    FixedStringPadFromLeft = true;
    FixedStringPadChar = '0';
}
packet Cancel {
}
packet Party {
}
packet Logon {
}
packet Ack {
}
packet Logout {
    repeat InSym87 {
        InClordid94 {
            string clOrdID,
        },
        string Px,
        i16 Qty,
        repeat InCount71 {
            repeat Cancel,
            uint16 Tail,
            char[2] x,
            repeat string Ref,
        },
        Cancel,
    },
}
root packet Order {
    repeat string tag7,
    @leftPad(' ') char[3] Px,
    u8 Qty,
    match Qty as Body {
        [28, 62] : Logon,
        148 : Ack,
        88 : Party,
        184 : Cancel,
    },
    u16 Note @calculatedFrom(""CRC32""),
}
")).
Eval vm_compute in ("<<<M1641>>>" ++ check (runes_of_ascii "packet u128 {
    repeat char[65535] float,
}

options {
    f32a = char[];
}

packet _x {
    @rightPad('0')
    // packet A { u8 x, }
    @lengthOf(i8i8)
    @lengthOf(lengthOf)
    repeat Z9_ `crlf
    line`,
    string_ {
        // `tick` ""quote"" 'q'
        // c
        zchar[7] x_y_z,
        Header x `line1
        line2`,
    },//	t
    @leftPad()
    match float as x_y_z {
        """ ++ [28040; 24687]%N ++ runes_of_ascii """ : metadata,
        007 : A,
        00 : falsey,
        0123456789 : Foo,
        0123456789 : zchar,
    },
    @calculatedFrom(""1"")
    @tag(0)
    char[00] options1,
}

packet Pad {
    u16 body @lengthOf(stringy),
}

options {
    BodyLength = '0'
    msg_type = ""a\""b"";
}")).
Eval vm_compute in ("<<<M1735>>>" ++ check (runes_of_ascii "  packet float  
      // c1

	{	// c2
@rightPad 	 // c3a
	// c3b
      ( 	 // c4a
// c4b
    )// c5a
  	// c5b
rootA  // c6

@lengthOf(  // c7a
// c7b
	trueish  // c8
) 
  // c9
  , 
        // c10
stringy  // c11a
    // c11b
  @lengthOf( 	 // c12a

  // c12b
      matchKey ) 
	    // c14
    	,// c15a
  // c15b
	char[ 4294967296 ] 
	    // c18
pack@lengthOf(
        // c20
    uint8x
	// c21

  ) 	 // c22a
  // c22b
  ,
// c23
    } // c24
  root// c25
  	packet
	trueish
{ 
	    // c28
    	repeat
    uint64

// c30
	u128 
// c31
`line1
line2`// c32

, 

// c33
  } 

// c34
")).
Eval vm_compute in ("<<<M1727>>>" ++ check (runes_of_ascii "
options	{

rootA

=
4294967296;
falsey =""a\""b""; As = 

    // @lengthOf(
  /// triple
	"""" ;
packetx  =
""packet""

    i8i8= true
;

    } 	 // `tick` ""quote"" 'q'
  packet
x {
    repeat zchar 
rootA	,
	char[]	pack
	`// not a comment`
, 
@tag(  00
)	@tag(
0123456789
)
u

@calculatedFrom( ""packet""	) 
`u8 x,` ,

    Header { 
zchar[ 00  ]
body ,
    a1
@calculatedFrom( 	 // " ++ [128512]%N ++ runes_of_ascii " emoji
	""it's"" ) `" ++ [233]%N ++ runes_of_ascii "`  ,

    }

    , }// " ++ [27880; 37322]%N ++ runes_of_ascii "
	MetaData
A// a // b
      {
zchar/// triple
    matchKey

    ``,
int64	metadata,
	char[] _x 	 //	t
    ,
    }")).
Eval vm_compute in ("<<<M1765>>>" ++ check (runes_of_ascii "packet leftPad {
    match A as x {
        ""`tick`"" : MetaDataX,
        [""it's"", ""\n"", """ ++ [28040; 24687]%N ++ runes_of_ascii """] : string_,
        0123456789 : o,
        [""{,}"", ""x y""] : uint8x,
    },
    char[3] msg_type @lengthOf(u) `two words`,
    // c
    repeat int Foo,
    @rightPad()
    @rightPad(' ')
    Foo charz `{ , }`,
}

MetaData A {
    zchar[0] A `{ , }`,
    float32 a1,
    char[] pack,/// triple
    string body `" ++ [233]%N ++ runes_of_ascii "`,
    string chars `doc`,
    int _x `two words`,
}

options {
    Z9_ = uint16;
}")).
Eval vm_compute in ("<<<M180>>>" ++ check (runes_of_ascii "options
    // @lengthOf(
    {}
packet charz { @rightPad (  ' ') @calculatedFrom(
    ""a\\"" ) repeat int	crc `two words` , string stringy
    @calculatedFrom( ""a	b""
    // " ++ [128512]%N ++ runes_of_ascii " emoji
    )`// not a comment`	,//
char i8i8,
}  MetaData	crc {// `tick` ""quote"" 'q'
crc i64_`{ , }`
,
    // `tick` ""quote"" 'q'
    i32// c
u128 ,// packet A { u8 x, }
BodyLength Header
    ,char[ 0123456789]
/// triple
//
Packet `u8 x,`
, uint8 repeatCount , //	t
}")).
Eval vm_compute in ("<<<M1642>>>" ++ check (runes_of_ascii "

  packet

    BodyLength {repeatCount// packet A { u8 x, }
`// not a comment` ,
	@lengthOf(	lengthOf )	@tag(65535 
) 
@rightPad 
( 
// @lengthOf(
	  //	t
'0'

)	/// triple
	  u8
	Logon
,
} packet  chars
	{ 
o msg_type	, @tag(
	10

    )
zchar[	65535]
f32a

    ,repeat char[]  i64_
	`
`

    ,	} root  packet
	f32a{
    @tag(

    255

    ) 
repeat u8

    stringy 
, 
}

")).
Eval vm_compute in ("<<<M15>>>" ++ check (runes_of_ascii "MetaData // c
u128{
    }MetaData
    a1 {
}
    root packet	o {	char[
10 ]  stringy @lengthOf( Z9_) ,
match
x_y_z as stringy
{	3
: float ,
    } , @leftPad //	t
( ' '
    ) u128 {	repeat i32 msg_type `crlf
line` , x	, repeat char[	65535
] T, match
    A as
i8i8 { """ ++ [128512]%N ++ runes_of_ascii """ : Logon
, } //
, } ,
@rightPad (  '\x00') repeat x_y_z options1 `two words` , }
")).
Eval vm_compute in ("<<<M368>>>" ++ check (runes_of_ascii "MetaData T
    {
uint8
float ,
repeatCount x ,	char[ 10  ] asx /// triple
, char[ 00]
metadata
    `" ++ [233]%N ++ runes_of_ascii "` ,u8x asx//	t
, } MetaData
    trueish {	charz	string_ `crlf
line`,  zchar[ 42 ]	_x
//
// `tick` ""quote"" 'q'
, }packet o { char[]u8x
    @calculatedFrom(""abc""  ) , } options{ x
=
    255 ; u // " ++ [27880; 37322]%N ++ runes_of_ascii "
= '0'	}
")).
Eval vm_compute in ("<<<M1633>>>" ++ check (runes_of_ascii "
options{	LittleEndian=
true

; 
}  packet Logon	{u8  x
    ,
    string
user
,  }	packet
Logout

    {

    u16
reason ,
	}packet
	Empty { }

root
packet

Frame 
{ u16

    MsgType , u8
	BodyLen  @lengthOf(
Body
    ) ,	u8	flags

,  Logon

Body 
,
u32 trailer ,  }")).
Eval vm_compute in ("<<<M1919>>>" ++ check (runes_of_ascii "
root packet string_ 
{@leftPad
	( ' '  ) chars {
repeat zchar[

    0	]

    tag ,

    string	falsey ,// " ++ [128512]%N ++ runes_of_ascii " emoji
	  repeat
    char[
	007  ]
    body	`two words`
	,

}
,
@calculatedFrom(
""// no comment"" ) Foo
	T
    ,// " ++ [128512]%N ++ runes_of_ascii " emoji
}
")).
Eval vm_compute in ("<<<M1427>>>" ++ check (runes_of_ascii "// top
MetaData leftPad {
    // c2
    chars MetaDataX,
    // c5
}

// c6
packet repeatCount {
    // c9
    char[255] uint8x `" ++ [233]%N ++ runes_of_ascii "`,
    // c15
}

// c16
MetaData pack {
    // c19
    As Foo,
    // c22
}
// c23")).
Eval vm_compute in ("<<<M1323>>>" ++ check (runes_of_ascii "root packet Frame {
    u8 K,
    Logon first,
    match K as Body {
        1 : Logon,
        2 : Logout,
    },
}
packet Logon {
    string user,
}
packet Logout {
    u16 reason,
}
")).
Eval vm_compute in ("<<<M1777>>>" ++ check (runes_of_ascii "MetaData falsey  {
o
i8i8
,

char[]

    pack
    ,float32

    lengthOf

    ,	len //x
    	BodyLength

, 
BodyLength 
o

, stringy	u128`crlf
line`
	,}
")).
Eval vm_compute in ("<<<M406>>>" ++ check (runes_of_ascii "packet uint8x
{ match match pack
    as msg_type	{
    0123456789 :	float
}
,
} packet //	t
a1
    { } options {packetx
    = '\x00'	; u128= ""a	b""  ; }
")).
Eval vm_compute in ("<<<M401>>>" ++ check (runes_of_ascii "packet uint8x
{ { match pack
    as msg_type	{
    0123456789 :	float
}
,
} packet //	t
a1
    { } options {packetx
    = '\x00'	; u128= ""a	b""  ; }
")).
Eval vm_compute in ("<<<M549>>>" ++ check (runes_of_ascii "pa\cket uint8x
{ match pack
    as msg_type	{
    0123456789 :	float
}
,
} packet //	t
a1
    { } options {packetx
    = '\x00'	; u128= ""a	b""  ; }
")).
Eval vm_compute in ("<<<M507>>>" ++ check (runes_of_ascii "packet uint8x
{ match pack
    as msg_type	{
    0123456789 :	float
}
,
} packet //	t
a1
    { } options {packetx
    = '\x00'	u128 ;= ""a	b""  ; }
")).
Eval vm_compute in ("<<<M465>>>" ++ check (runes_of_ascii "packet uint8x
{ match pack
    as msg_type	{
    0123456789 :	float
}
,
} packet //	t

    { } options {packetx
    = '\x00'	; u128= ""a	b""  ; }
")).
Eval vm_compute in ("<<<M684>>>" ++ check (runes_of_ascii "// @lengthOf(
packet i8i8 { u128 o , }
options { MetaDataX = true;
    BodyLength =""packet"" x_y_z= 007
crc //x
= ""abc"" ;
    msg_type =
i16 } }")).
Eval vm_compute in ("<<<M685>>>" ++ check (runes_of_ascii "// @lengthOf(
packet i8i8 { u128 o , }
options { MetaDataX = true;
    BodyLength =""packet"" x_y_z= 007
crc //x
= ""abc"" ;
    = msg_type
i16 }")).
Eval vm_compute in ("<<<M1452>>>" ++ check (runes_of_ascii "packet A {
    Inner {
        u8 x `
                x`,
        Deep {
            u8 y `
                        x`,
        },
    },
}")).
Eval vm_compute in ("<<<M719>>>" ++ check (runes_of_ascii "// @lengthOf(
packet i8i8 { u128 o , }
options { MetaDataX = true;
     =""packet"" x_y_z= 007
crc //x
= ""abc"" ;
    msg_type =
i16 }")).
Eval vm_compute in ("<<<M1875>>>" ++ check (runes_of_ascii "root packet lengthOf {
    @leftPad(' ')
    repeat char MetaDataX,
}

MetaData Pad {
    msg_type rootA `// not a comment`,
}")).
Eval vm_compute in ("<<<M1842>>>" ++ check (runes_of_ascii "packet A {
    Inner {
        u8 x `x
        `,
        Deep {
            u8 y `x
            `,
        },
    },
}")).
Eval vm_compute in ("<<<M1171>>>" ++ check (runes_of_ascii "MetaData leftPad { chars MetaDataX , } packet repeatCount { char[ 255 ] uint8x `" ++ [233]%N ++ runes_of_ascii "` // c
, } MetaData pack { As Foo , }")).
Eval vm_compute in ("<<<M302>>>" ++ check (runes_of_ascii "packet string_{@lengthOf(	float ) // @lengthOf(
BodyLength { match uint8x as i64_ { 0123456789
: As
    , } , } , }")).
Eval vm_compute in ("<<<M1478>>>" ++ check (runes_of_ascii "
packet
    A {
match k as

    n { 
[

1 ,
22 ,007 
,
	4
	, 
5

, 66 ]  :  B ,

    2
	:  C}
    , }

")).
Eval vm_compute in ("<<<M158>>>" ++ check (runes_of_ascii "
MetaData charz { As u128 , Logon options1 `say ""hi""` ,
    zchar[ 0
// @lengthOf(
//
]Logon ,
    }
")).
Eval vm_compute in ("<<<M1558>>>" ++ check (runes_of_ascii "root packet
SimpleMessage

{uint16 
MsgType

`" ++ [28040; 24687; 31867; 22411]%N ++ runes_of_ascii "`,  string

JsonBody
`Json" ++ [23383; 31526; 20018; 28040; 24687; 20307]%N ++ runes_of_ascii "` ,

    }
")).
Eval vm_compute in ("<<<M624>>>" ++ check (runes_of_ascii "
packet
    asx {match u128 as lengthOf
{
//	t
// `tick` ""quote"" 'q'
255 : x ,
    } ,	repeat")).
Eval vm_compute in ("<<<M603>>>" ++ check (runes_of_ascii "
packet
    asx {match u128 as lengthOf
{
//	t
// `tick` ""quote"" 'q'
255 : x x ,
    } ,	}")).
Eval vm_compute in ("<<<M574>>>" ++ check (runes_of_ascii "
packet
    asx {match as u128 lengthOf
{
//	t
// `tick` ""quote"" 'q'
255 : x ,
    } ,	}")).
Eval vm_compute in ("<<<M643>>>" ++ check (runes_of_ascii "
packet
    asx {match x" ++ [178]%N ++ runes_of_ascii " as lengthOf
{
//	t
// `tick` ""quote"" 'q'
255 : x ,
    } ,	}")).
Eval vm_compute in ("<<<M866>>>" ++ check (runes_of_ascii "packet A {
  match k as n {
    [1, 22, 007, 4, 5, 66, 7, 8, 9] : B
    2 : C
  },
}")).
Eval vm_compute in ("<<<M823>>>" ++ check (runes_of_ascii "packet A {
  match k as n {
    [""a"", ""bb"", 007, ""d"", ""e""] : B,
    2 : C
  },
}")).
Eval vm_compute in ("<<<M1467>>>" ++ check (runes_of_ascii "root packet P {
    u16 a,
    u32 Sum @calculatedFrom(""CR\
        C32""),
}")).
Eval vm_compute in ("<<<M1485>>>" ++ check (runes_of_ascii "

  packet	body { i32 
f32a
`{ , }`
	,

    }

options { 	 // c

  }
")).
Eval vm_compute in ("<<<M1087>>>" ++ check (runes_of_ascii "packet A { match k as n { [ // a
 1 // b
 , // c
 2 ] // d
 : B }, }")).
Eval vm_compute in ("<<<M1517>>>" ++ check (runes_of_ascii "

  MetaData
    M{

    u8

    x 
`
`  ,T
    t `
`
	,}
")).
Eval vm_compute in ("<<<M1685>>>" ++ check (runes_of_ascii "packet body {
    i32 f32a `{ , }`,
}

options {
    // c
}")).
Eval vm_compute in ("<<<M1851>>>" ++ check (runes_of_ascii "
packet

A
    {  u8
    x , 
    // c

	u8
y
	,	}

")).
Eval vm_compute in ("<<<M1216>>>" ++ check (runes_of_ascii "packet body { i32 f32a `{ , }` , } options
// c
{ }")).
Eval vm_compute in ("<<<M1582>>>" ++ check (runes_of_ascii "packet  MetaDataX	{i16 
u128 
`" ++ [233]%N ++ runes_of_ascii "`
, 	 //x
	}

")).
Eval vm_compute in ("<<<M724>>>" ++ check (runes_of_ascii "// @lengthOf(
packet i8i8 { u128 o , }
opt")).
Eval vm_compute in ("<<<M1841>>>" ++ check (runes_of_ascii "

  packet

    int
{ }  
  //	t
 
")).
Eval vm_compute in ("<<<M952>>>" ++ check (runes_of_ascii "root packet A {
    u8 x `x
`,
}")).
Eval vm_compute in ("<<<M1008>>>" ++ check (runes_of_ascii "packet A {
 u8 x `d" ++ [8202]%N ++ runes_of_ascii "`, // c" ++ [8202]%N ++ runes_of_ascii "
}")).
Eval vm_compute in ("<<<M581>>>" ++ check (runes_of_ascii "
packet
    asx {match u128")).
Eval vm_compute in ("<<<M770>>>" ++ check (runes_of_ascii "EJYa-@ZpfaJe_ojrLyZC9M")).
Eval vm_compute in ("<<<M211>>>" ++ check (runes_of_ascii "MetaData
roots {
}

")).
Eval vm_compute in ("<<<M982>>>" ++ check (runes_of_ascii "// c" ++ [12288]%N ++ runes_of_ascii "
packet A {
}")).
Eval vm_compute in ("<<<M1083>>>" ++ check (runes_of_ascii "packet A { // a
 }")).
Eval vm_compute in ("<<<M1230>>>" ++ check (runes_of_ascii "packet x { // c
}")).
Eval vm_compute in ("<<<M740>>>" ++ check (runes_of_ascii ", = , ; int16")).
Eval vm_compute in ("<<<M1000>>>" ++ check (runes_of_ascii "// c" ++ [8192]%N)).
Eval vm_compute in ("<<<M731>>>" ++ check (runes_of_ascii "/")).
