From FP Require Import Lexer Parser ShowPT Digest Formatter.
From Coq Require Import String List NArith.
Import ListNotations.
Open Scope string_scope.
Set Printing Width 100000000.
Set Printing Depth 100000000.
Definition show_fres (r : fres) : string :=
  match r with
  | FOk s => "OK:" ++ sh_escaped s ""
  | FErr s => "ERR:" ++ sh_escaped s ""
  | FPanic p => "PANIC:" ++ p
  end.
Definition check (rs : list rune) : string := digest (show_fres (format_res rs)).
Definition full (rs : list rune) : string := show_fres (format_res rs).
Eval vm_compute in ("<<<M1350>>>" ++ check (runes_of_ascii "// top
options // c0
{ LittleEndian // c2a
  // c2b
= // c3a
  // c3b
false // c4a
  // c4b
; // c5
FixedStringPadChar // c6
= // c7a
  // c7b
' ' // c8
;
    // c9
} // c10a
  // c10b
packet Fill // c12
{
    // c13
InFlags6 {
    // c15
repeat
    // c16
u64 // c17
count
    // c18
, }
    // c20
, // c21a
  // c21b
char[ 8
    // c23
] price // c25
, repeat // c27
char[ // c28
2 ] lastPx
    // c31
,
    // c32
char[] count // c34a
  // c34b
, } // c36
packet // c37a
  // c37b
Quote // c38
{
    // c39
char[]
    // c40
Qty , int32 // c43a
  // c43b
sym ,
    // c45
zchar[ 9 // c47
]
    // c48
Flags , int8 // c51a
  // c51b
tag7
    // c52
,
    // c53
char[ // c54a
  // c54b
7 ]
    // c56
count
    // c57
, // c58a
  // c58b
} // c59a
  // c59b
packet // c60
Cancel // c61
{ string // c63a
  // c63b
Acct // c64
, @rightPad ( // c67
'\x00' ) // c69
char[ // c70a
  // c70b
2 // c71
] Note
    // c73
, // c74a
  // c74b
zchar[
    // c75
5 // c76
] Side2
    // c78
,
    // c79
} // c80a
  // c80b
packet // c81a
  // c81b
Trade { repeat
    // c84
Quote // c85a
  // c85b
,
    // c86
Fill
    // c87
,
    // c88
repeat
    // c89
i64 Side2 // c91a
  // c91b
,
    // c92
uint16
    // c93
Tail , zchar[ // c96
7
    // c97
] OrderId
    // c99
, // c100
}
    // c101
root // c102a
  // c102b
packet // c103
Party
    // c104
{ repeat InLastpx79 { // c108a
  // c108b
char[ // c109
12 // c110a
  // c110b
]
    // c111
Px // c112a
  // c112b
, int8 // c114a
  // c114b
Tail // c115a
  // c115b
, } // c117
, f32
    // c119
count // c120
,
    // c121
repeat
    // c122
u8 // c123a
  // c123b
Note // c124a
  // c124b
,
    // c125
Trade // c126a
  // c126b
, // c127a
  // c127b
f64
    // c128
venue // c129a
  // c129b
, // c130
@rightPad ( // c132
'\x00' ) char[
    // c135
11
    // c136
] // c137a
  // c137b
tag7 // c138
, u16 // c140a
  // c140b
Px , // c142a
  // c142b
u32
    // c143
Side2 @lengthOf( // c145
Body ) // c147
, match // c149
Px as // c151a
  // c151b
Body // c152
{ [ // c154
48 // c155a
  // c155b
, 188 ] // c158a
  // c158b
: Fill , // c161
190
    // c162
: // c163a
  // c163b
Trade // c164a
  // c164b
, 160 // c166
: Quote // c168a
  // c168b
,
    // c169
85 // c170
:
    // c171
Cancel , } // c174
,
    // c175
}
    // c176
")).
Eval vm_compute in ("<<<M232>>>" ++ check (runes_of_ascii "// packet A { u8 x, }
root packet rootA
    {
repeat char[]int
    /// triple
    `it's` , string asx @calculatedFrom(""a\""b"") //x
`tab	here`	, falsey `` , repeat string
    metadata ``
//
// " ++ [27880; 37322]%N ++ runes_of_ascii "
,  match
x
    // @lengthOf(
    as	chars{007 : lengthOf ""// no comment"" :o	,
[ """ ++ [233]%N ++ runes_of_ascii "t" ++ [233]%N ++ runes_of_ascii """] //	t
: len , [ 0123456789
    ,
    007 ,""" ++ [233]%N ++ runes_of_ascii "t" ++ [233]%N ++ runes_of_ascii """, // trailing space 
42 , 0123456789
, ""packet"" , 00	]
    : x , } ,  match pack as int
{ [ // a // b
1
    , ""a\""b""
,
    ""a\""b""	]:x
,} ,
} root packet	int
    {
char[10] len @lengthOf(	string_) , @calculatedFrom( ""1""
) repeat
    //	t
    packetx {
    char[ 42 ] Foo , a1 A  , repeat zchar[1  ] i8i8
`a\` ,	zchar[
4294967296 ]
x_y_z@lengthOf( T )`` , }, char
chars , repeat zchar[255 ] tag
    `tab	here`
,
    @calculatedFrom(""it's"" //	t
) // packet A { u8 x, }
char[ 00 ] BodyLength
//x
// " ++ [128512]%N ++ runes_of_ascii " emoji
``  ,
//	t
/// triple
} packet asx
    {zchar[
255	]x
@lengthOf(
int)
, } MetaData repeatCount{a1 Logon , u8x As
, char[
    /// triple
    00	]// c
metadata
    `line1
line2`, i32 Logon
    `it's`,string falsey ,
}
    packet Z9_
// trailing space 
// " ++ [27880; 37322]%N ++ runes_of_ascii "
{
options1
{ u32
    MetaDataX
, char[ 1]
// " ++ [128512]%N ++ runes_of_ascii " emoji
//x
x	@lengthOf( Header ) ,	repeatCount
    /// triple
    x_y_z, } ,	float ,
repeat packetx Z9_,@rightPad (
// trailing space 
// trailing space 
' ' ) asx
{string	asx @lengthOf( uint8x // c
),	packetx , char[ 007 ] metadata ,  } ,
    }
")).
Eval vm_compute in ("<<<M1458>>>" ++ check (runes_of_ascii "  packet rootA

{ 
    // a // b

// " ++ [128512]%N ++ runes_of_ascii " emoji
  @tag( 00 ) match 
i8i8
    as
f32a{ 
0: 
u8x
    , [

    ""a\\""
]
:
    BodyLength ,
[ ""{,}""] 
:body
,

    4294967296
    : options1 
,  // c
    ""CRC32"" :	A 
,	}  
      // c

	// " ++ [27880; 37322]%N ++ runes_of_ascii "
	,	Logon 
@lengthOf(T

    )  , @lengthOf(stringy ) char[	0123456789
    ]zchar
,zchar[
    1  ]

i8i8 
`it's`	,
	@calculatedFrom(  
      // 50% %s
  // packet A { u8 x, }
  ""1"" )
	// `tick` ""quote"" 'q'

repeat
zchar[
	42

]
A

    `u8 x,` , 
i16 
A
    @calculatedFrom(//
	""packet"" 
    // " ++ [128512]%N ++ runes_of_ascii " emoji
/// triple
)

,/// triple
@lengthOf( MetaDataX )
match 

    // " ++ [27880; 37322]%N ++ runes_of_ascii "
	falsey
    as 
repeatCount
{
	0123456789
:

T
, }	,
@leftPad
(	// " ++ [27880; 37322]%N ++ runes_of_ascii "
  	'\x00'  )
	@rightPad
    ( '0'

    )  @tag(
0
)

    repeat 
len

    {

    trueish

rootA  `" ++ [28040; 24687; 31867; 22411]%N ++ runes_of_ascii "`,
char[
7 ] 
repeatCount
	@calculatedFrom(

""// no comment""
	)

    , 
string_ @calculatedFrom(
    ""it's""
	)
	,	}
	,
repeat

    Header
    `say ""hi""`	,

    //x

	//x
    match
    packetx as
	Packet  {  [
    ""`tick`"" ] :
    asx	7 :
	asx
[""a\\""]  // `tick` ""quote"" 'q'
: 	 /// triple
		float, ""packet"" :  lengthOf
""x y"": len 
,	}
	,}

")).
Eval vm_compute in ("<<<M376>>>" ++ check (runes_of_ascii "packet
    rootA
{
// a // b
// " ++ [128512]%N ++ runes_of_ascii " emoji
@tag( 00
) match i8i8 as	f32a{ 0
: u8x	,[ ""a\\""]: BodyLength ,[""{,}"" ]: body
,4294967296 : options1, // c
""CRC32""
: A
    ,}
// c
// " ++ [27880; 37322]%N ++ runes_of_ascii "
,
Logon
    @lengthOf(
T ) , @lengthOf( stringy)char[
    0123456789]zchar ,	zchar[ 1] i8i8 `it's`, @calculatedFrom(
// 50% %s
// packet A { u8 x, }
""1"" )
    // `tick` ""quote"" 'q'
    repeat zchar[
42] A
    `u8 x,` , i16 A @calculatedFrom( //
""packet""
// " ++ [128512]%N ++ runes_of_ascii " emoji
/// triple
) , /// triple
@lengthOf( MetaDataX
    ) match
    // " ++ [27880; 37322]%N ++ runes_of_ascii "
    falsey
    as repeatCount { 0123456789:T, } ,@leftPad
( // " ++ [27880; 37322]%N ++ runes_of_ascii "
'\x00' ) @rightPad ( '0'
) @tag(
0 ) repeat len {
trueish rootA`" ++ [28040; 24687; 31867; 22411]%N ++ runes_of_ascii "` ,
    char[
    7 ] repeatCount
@calculatedFrom( ""// no comment""
) , string_ @calculatedFrom( ""it's"" ) ,
} , repeat Header `say ""hi""` ,
//x
//x
match
    packetx as Packet {[
""`tick`""] :
    asx 7	:
    asx
    [ ""a\\""	]// `tick` ""quote"" 'q'
: /// triple
float ,
""packet"" :
lengthOf ""x y"" : len , }  ,}")).
Eval vm_compute in ("<<<M1154>>>" ++ check (runes_of_ascii "// top
options
    // c0
{
    // c1
uint8x
    // c2
=
    // c3
007
    // c4
;
    // c5
lengthOf
    // c6
=
    // c7
i8
    // c8
;
    // c9
}
    // c10
packet
    // c11
i64_
    // c12
{
    // c13
@calculatedFrom(
    // c14
""1""
    // c15
)
    // c16
@tag(
    // c17
3
    // c18
)
    // c19
@lengthOf(
    // c20
rootA
    // c21
)
    // c22
repeat
    // c23
int8
    // c24
Packet
    // c25
`tab	here`
    // c26
,
    // c27
}
    // c28
packet
    // c29
_x
    // c30
{
    // c31
matchKey
    // c32
x
    // c33
`" ++ [28040; 24687; 31867; 22411]%N ++ runes_of_ascii "`
    // c34
,
    // c35
int32
    // c36
calculatedFrom
    // c37
`100% of %d`
    // c38
,
    // c39
@lengthOf(
    // c40
trueish
    // c41
)
    // c42
Packet
    // c43
,
    // c44
repeat
    // c45
f32
    // c46
o
    // c47
,
    // c48
}
    // c49
")).
Eval vm_compute in ("<<<M1837>>>" ++ check (runes_of_ascii "
options {
ArrayPrefixLenType
=
u32
; 
FixedStringPadFromLeft
    =false  ;
FixedStringPadChar	=

'0'
; }
    packet Trade{ repeat

InVenue78{
u16
tag7 , repeat

InLastpx9	{  u8
	pad0
    ,
    } ,
    int64
Tail  ,repeat
InQty37 {
    char[2  ] OrderId ,
	zchar[
	6
] 
lastPx
    , int64	Qty
,
}, uint8
Side2 ,}
, }

packet
Logon { 
repeat
string
venue,@rightPad

(
'\x00'	)
char[ 3
	]
sym
,
    zchar[

    9  ] count , zchar[ 7

]	f1 ,
Trade  ,
	}	packet Logout

{ }	root packet
    Reject {
int32 sym
,u8
Px  ,  u32
Tail
    @lengthOf(
Body

    ),

match	Px 
as Body { 184:

Trade
	,
    173  : Logon

    ,12 :	Logout  , }
    ,
u32 tag7 @calculatedFrom( ""CRC32""	)
,
}
")).
Eval vm_compute in ("<<<M1844>>>" ++ check (runes_of_ascii "  MetaData  trueish // " ++ [128512]%N ++ runes_of_ascii " emoji
{ uint64
Z9_
`u8 x,` // packet A { u8 x, }

, zchar[3  ]
tag	,

} root	packet  tag // " ++ [128512]%N ++ runes_of_ascii " emoji
	{

    Packet

    chars, }packet
	trueish
    {
@lengthOf(roots  ) string
repeatCount
	,
	@calculatedFrom( ""1""  )	@leftPad// 50% %s
	  ( '\x00' 
)@tag(
    3

    ) 
int16
stringy
, 
    // `tick` ""quote"" 'q'
@rightPad

    ( 
'0' )
	@rightPad

    ('\x00'

    ) 

    //

// c
    	@lengthOf(

    x )repeat	trueish pack
`a\`	, 
len// " ++ [128512]%N ++ runes_of_ascii " emoji
  ,
    @tag( 
3
)  char

packetx  ,	}// `tick` ""quote"" 'q'
    packet u
{  u64 options1	//	t

  ,

    } options {
}
")).
Eval vm_compute in ("<<<M200>>>" ++ check (runes_of_ascii "packet charz {repeat i64_
, trueish
    {	repeat _x , repeatCount
, repeat
u16
// " ++ [128512]%N ++ runes_of_ascii " emoji
// a // b
matchKey `
` , trueish
@lengthOf( Z9_)	,
}
, zchar[3
    ]body	,
    @rightPad // @lengthOf(
(' ') body packetx `{ , }` , // packet A { u8 x, }
repeat matchKey { uint8
metadata
    ``
    // @lengthOf(
    ,  trueish @calculatedFrom( ""abc"" )
    ,
}
    , @lengthOf( packetx )	int32 uint8x`tab	here`,
@rightPad//
(
) @rightPad ( ) f32a
// " ++ [27880; 37322]%N ++ runes_of_ascii "
// a // b
,tag _x `a\` , } packet
    a1 {
@tag(4294967296 ) repeat
    f32 a1 `line1
line2` , }")).
Eval vm_compute in ("<<<M142>>>" ++ check (runes_of_ascii "packet Header{ uint16 As @calculatedFrom(
    ""CRC32"" )
,float
`doc`,char[	3
] crc , //x
repeat
u32
packetx , a1 @calculatedFrom(	""`tick`"") ,
repeat rootA
{
    u8x
`crlf
line`
, string x, }
    , roots { char[	65535
]len `100% of %d` // " ++ [27880; 37322]%N ++ runes_of_ascii "
,u32	x_y_z
,}
    // @lengthOf(
    ,
    a1 { match zchar
as
len  {
    ""a\""b"" : roots , }	,uint32
i64_ `// not a comment`
,
    repeat	x_y_z {
u@calculatedFrom("""") , Packet
    { char[ 00 ]
msg_type , } ,
} ,} ,options1 i8i8
, string calculatedFrom, }

")).
Eval vm_compute in ("<<<M1960>>>" ++ check (runes_of_ascii "packet body {
    @leftPad('\x00')
    @tag(42)
    @tag(65535)
    repeat tag u `a\`,
    Z9_,//	t
    @tag(10)
    //	t
    // @lengthOf(
    f32 msg_type `// not a comment`,
    int16 matchKey @calculatedFrom(""a	b"") `it's`,
}

packet T {
    zchar[7] matchKey,
    falsey @lengthOf(stringy) `crlf
    line`,
}

root packet options1 {
    @calculatedFrom(""{,}"")
    matchKey @calculatedFrom(""`tick`""),
    zchar[0] stringy @lengthOf(int),
}

packet msg_type {
}")).
Eval vm_compute in ("<<<M1783>>>" ++ check (runes_of_ascii "options {
    ArrayPrefixLenType = u64;
    FixedStringPadFromLeft = true;
    FixedStringPadChar = '0';
}

packet Order {
}

root packet Leg {
    char[] Ref,
    repeat Order,
    f32 Acct,
    @leftPad('0')
    char[10] venue,
    @rightPad('0')
    char[3] seqNo,
    repeat u64 Px,
    u8 Flags,
    u32 lastPx @lengthOf(Body),
    match Flags as Body {
        185 : Order,
    },
    u16 sym @calculatedFrom(""CRC32""),
}")).
Eval vm_compute in ("<<<M16>>>" ++ check (runes_of_ascii "packet pack {@rightPad (
    '\x00' )	options1  ,repeat
f32
    Packet`u8 x,`
, repeat  Logon { repeat
    a1 {char[  0 ]
    tag
,
u64 leftPad,
    } // 50% %s
, repeatCount ,repeat // packet A { u8 x, }
BodyLength /// triple
, }
    , repeat char[] packetx,
char[
00]tag@lengthOf(o
) , }packet matchKey { repeat As	u8x `it's` , }options{}MetaData
string_
{ msg_type
    Z9_ `line1
line2` ,} //x")).
Eval vm_compute in ("<<<M141>>>" ++ check (runes_of_ascii "packet
string_ { @tag( 4294967296 ) repeat u	`crlf
line`
    , repeat zchar[ 0
    ]BodyLength
    , @tag( 255	) int  `say ""hi""` ,uint8x`u8 x,` ,@leftPad(' ' ) string
MetaDataX @lengthOf(
options1)
, zchar[00 // packet A { u8 x, }
]  charz  `" ++ [28040; 24687; 31867; 22411]%N ++ runes_of_ascii "` ,@calculatedFrom(
""" ++ [128512]%N ++ runes_of_ascii """
) _x calculatedFrom ,uint8 //
packetx
    `it's` ,@leftPad ( ) zchar[ 0 ] Foo
`a\` ,
}
")).
Eval vm_compute in ("<<<M1953>>>" ++ check (runes_of_ascii "options {
}

root packet chars {
    @rightPad('0')
    chars f32a `say ""hi""`,
    int16 u8x,
    @tag(4294967296)
    @rightPad()
    u64 packetx @calculatedFrom(""it's""),
    @calculatedFrom(""\n"")
    o @calculatedFrom(""a\""b""),
    Logon @lengthOf(BodyLength),
}

options {
}

MetaData zchar {
    u64 MetaDataX `// not a comment`,
}")).
Eval vm_compute in ("<<<M1321>>>" ++ check (runes_of_ascii "

  packet A{	u8  a,}	packet
B {
u16  b ,}

packet

C {  u32	c
    ,
} root
packet M
{	u16 
Kc, u16 
Kb,
u16 Ka
,

    match Kc  as
	X {	9 :
A , 
10 
:

    B , 
}  , 
match

Kb	as

    Y{ 2  : C

    ,
	1
    :
A ,}
,
	match Ka

    as Z { 1
:

B,  },
A
, B,  C

,
	}")).
Eval vm_compute in ("<<<M68>>>" ++ check (runes_of_ascii "// a // b
root packet
    u { f64 //
chars	@calculatedFrom( ""\n"" )
, @lengthOf(msg_type//
)x_y_z
`
`
,
// " ++ [27880; 37322]%N ++ runes_of_ascii "
// `tick` ""quote"" 'q'
repeat char[ 0123456789
    ]f32a, repeat
u8 u8x
`u8 x,` , zchar[3	]
// " ++ [128512]%N ++ runes_of_ascii " emoji
// trailing space 
x_y_z , x_y_z @lengthOf( len),}")).
Eval vm_compute in ("<<<M417>>>" ++ check (runes_of_ascii "packet
    asx { @calculatedFrom(
""""  ) @tag( @tag( 255 )repeat
// packet A { u8 x, }
// trailing space 
int16 u8x
,
@tag(
    //
    007 )
    @tag( 0
    /// triple
    ) @tag( 1) u
    @lengthOf( T ),
// `tick` ""quote"" 'q'
//x
} // " ++ [128512]%N ++ runes_of_ascii " emoji")).
Eval vm_compute in ("<<<M487>>>" ++ check (runes_of_ascii "packet
    asx { @calculatedFrom(
""""  ) @tag( 255 )repeat
// packet A { u8 x, }
// trailing space 
int16 u8x
,
@tag(
    //
    007 )
    @tag( 0
    /// triple
    ) @tag( 1 1) u
    @lengthOf( T ),
// `tick` ""quote"" 'q'
//x
} // " ++ [128512]%N ++ runes_of_ascii " emoji")).
Eval vm_compute in ("<<<M433>>>" ++ check (runes_of_ascii "packet
    asx { @calculatedFrom(
""""  ) @tag( 255 )int16
// packet A { u8 x, }
// trailing space 
repeat u8x
,
@tag(
    //
    007 )
    @tag( 0
    /// triple
    ) @tag( 1) u
    @lengthOf( T ),
// `tick` ""quote"" 'q'
//x
} // " ++ [128512]%N ++ runes_of_ascii " emoji")).
Eval vm_compute in ("<<<M426>>>" ++ check (runes_of_ascii "packet
    asx { @calculatedFrom(
""""  ) @tag( 255 repeat
// packet A { u8 x, }
// trailing space 
int16 u8x
,
@tag(
    //
    007 )
    @tag( 0
    /// triple
    ) @tag( 1) u
    @lengthOf( T ),
// `tick` ""quote"" 'q'
//x
} // " ++ [128512]%N ++ runes_of_ascii " emoji")).
Eval vm_compute in ("<<<M1459>>>" ++ check (runes_of_ascii "// " ++ [27880; 37322]%N ++ runes_of_ascii "
options {
    calculatedFrom = '\x00'
    packetx = """ ++ [28040; 24687]%N ++ runes_of_ascii """;
    i8i8 = """ ++ [28040; 24687]%N ++ runes_of_ascii """;
    body = '0'
    falsey = 10
}

packet o {
    calculatedFrom {
        repeat zchar[0] a1,
        char[] f32a `" ++ [28040; 24687; 31867; 22411]%N ++ runes_of_ascii "`,
    },
}// packet A { u8 x, }")).
Eval vm_compute in ("<<<M1566>>>" ++ check (runes_of_ascii "packet Logon {
    string user,
}

root packet Frame {
    u8 K,
    match K as Body {
        1 : Logon,
        2 : Logout,
    },
    Tail,
}

packet Logout {
    u16 reason,
}

packet Tail {
    u32 crc,
}")).
Eval vm_compute in ("<<<M227>>>" ++ check (runes_of_ascii "MetaData Header
    // " ++ [128512]%N ++ runes_of_ascii " emoji
    { trueish Pad ,
} MetaData
    Z9_ { char[] metadata , Header
    A
    ``, uint32 packetx, int16 uint8x ,
    Header // packet A { u8 x, }
leftPad , }
")).
Eval vm_compute in ("<<<M490>>>" ++ check (runes_of_ascii "packet
    asx { @calculatedFrom(
""""  ) @tag( 255 )repeat
// packet A { u8 x, }
// trailing space 
int16 u8x
,
@tag(
    //
    007 )
    @tag( 0
    /// triple
    ) @tag(")).
Eval vm_compute in ("<<<M632>>>" ++ check (runes_of_ascii "MetaData u
    { } MetaData o
{ float uint8x
`100% of %d` ,repeatCount u8x, string_ leftPad
, i32 i32
    Foo , int64 x `two words` , calculatedFrom
stringy `a\` ,
}
")).
Eval vm_compute in ("<<<M698>>>" ++ check (runes_of_ascii "MetaData u
    { } MetaData o
{ float uint8x
`100% of %d` ,repeatCount u8x, string_ leftPad
, i32
    Foo , int64 x `two words` , calculatedFrom
@xstringy `a\` ,
}
")).
Eval vm_compute in ("<<<M609>>>" ++ check (runes_of_ascii "MetaData u
    { } MetaData o
{ float uint8x
`100% of %d` ,repeatCount `
`, string_ leftPad
, i32
    Foo , int64 x `two words` , calculatedFrom
stringy `a\` ,
}
")).
Eval vm_compute in ("<<<M674>>>" ++ check (runes_of_ascii "MetaData u
    { } MetaData o
{ float uint8x
`100% of %d` ,repeatCount u8x, string_ leftPad
, i32
    Foo , int64 x `two words` , calculatedFrom
packet `a\` ,
}
")).
Eval vm_compute in ("<<<M1831>>>" ++ check (runes_of_ascii "MetaData crc {
    packetx repeatCount,
    f32a As `line1
        line2`,
    crc len `line1
        line2`,
    zchar[0123456789] uint8x,
    zchar[0] As,
}")).
Eval vm_compute in ("<<<M60>>>" ++ check (runes_of_ascii "MetaData len{ }packet int
    {
repeat
    char[1 ] stringy,}// a // b
packet MetaDataX { zchar[
10]
leftPad
@calculatedFrom( ""// no comment"" )
, }
")).
Eval vm_compute in ("<<<M1271>>>" ++ check (runes_of_ascii "  packet	B
{u8
    a 
,  }  root packet

    P{
	u8
	K ,u8 L

    @lengthOf(	Body )
,

    match
K 
as 
Body	{
1

:
B	, }
    ,
} ")).
Eval vm_compute in ("<<<M208>>>" ++ check (runes_of_ascii "MetaData uint8x{char msg_type `two words`, char[3 ] chars `say ""hi""`, zchar[
007]
zchar	,
    // " ++ [128512]%N ++ runes_of_ascii " emoji
    } // `tick` ""quote"" 'q'")).
Eval vm_compute in ("<<<M1289>>>" ++ check (runes_of_ascii "
options
	{	LittleEndian
	= true

;

}
root

packet 
P
    {
	u16
a, u32 Sum

    @calculatedFrom( ""CRC32""
    ) 
,	}

")).
Eval vm_compute in ("<<<M256>>>" ++ check (runes_of_ascii "  packet u8x { } MetaData Pad { //
trueish lengthOf // 50% %s
,
    }
    root packet
trueish {
//
// 50% %s
}
")).
Eval vm_compute in ("<<<M1225>>>" ++ check (runes_of_ascii "options { } options { MetaDataX = char ; } MetaData Pad // c
{ i8 metadata , string stringy , int8 As `{ , }` , }")).
Eval vm_compute in ("<<<M892>>>" ++ check (runes_of_ascii "packet A {
  match k as n {
    [""a"", ""bb"", ""c c"", ""d"", ""e"", ""f"", ""g"", ""h"", ""i"", ""j"", ""k""] : B
    2 : C
  },
}")).
Eval vm_compute in ("<<<M978>>>" ++ check (runes_of_ascii "packet A {
    Inner {
        u8 x `%%d%!`,
        Deep {
            u8 y `%%d%!`,
        },
    },
}")).
Eval vm_compute in ("<<<M1782>>>" ++ check (runes_of_ascii "packet
A{ match
    k as n{

[ 1	,
22
,
	007

    ,
4 , 5
, 66 
,7

    ]

:

B 2: 
C
    } ,}")).
Eval vm_compute in ("<<<M881>>>" ++ check (runes_of_ascii "packet A {
  match k as n {
    [1, ""bb"", 007, ""d"", 5, ""f"", 7, ""h"", 9, ""j""] : B
    2 : C
  },
}")).
Eval vm_compute in ("<<<M1694>>>" ++ check (runes_of_ascii "
// top

options  // c0
	{// c1

  A // c2
    =// c3
  ""// no comment""	// c4
    }	// c5
")).
Eval vm_compute in ("<<<M934>>>" ++ check (runes_of_ascii "packet A {
    B b `a
    b
  c`,
    B `a
    b
  c`,
    repeat B bs `a
    b
  c`,
}")).
Eval vm_compute in ("<<<M835>>>" ++ check (runes_of_ascii "packet A {
  match k as n {
    [""a"", ""bb"", 007, ""d"", ""e"", 66] : B
    2 : C
  },
}")).
Eval vm_compute in ("<<<M1934>>>" ++ check (runes_of_ascii "options {
    FixedStringPadFromLeft = true;
}

root packet P {
    char[4] z,
}")).
Eval vm_compute in ("<<<M825>>>" ++ check (runes_of_ascii "packet A {
  match k as n {
    [1, 22, 007, 4, 5, 66] : B
    2 : C
  },
}")).
Eval vm_compute in ("<<<M349>>>" ++ check (runes_of_ascii "// `tick` ""quote"" 'q'
options	{ stringy=""\" ++ [233]%N ++ runes_of_ascii """float= """ ++ [233]%N ++ runes_of_ascii "t" ++ [233]%N ++ runes_of_ascii """ trueish= u8 }
")).
Eval vm_compute in ("<<<M794>>>" ++ check (runes_of_ascii "packet A {
  match k as n {
    [1, 22, ""c c""] : B
    2 : C
  },
}")).
Eval vm_compute in ("<<<M783>>>" ++ check (runes_of_ascii "packet A {
  match k as n {
    [""a"", 22] : B
    2 : C
  },
}")).
Eval vm_compute in ("<<<M1544>>>" ++ check (runes_of_ascii "packet A {
    match k as n {
        [1, 2] : B,
    },
}")).
Eval vm_compute in ("<<<M1097>>>" ++ check (runes_of_ascii "// a
MetaData M {} // b
// c
MetaData N {} // d
// e")).
Eval vm_compute in ("<<<M41>>>" ++ check (runes_of_ascii "root
packet
msg_type
    // 50% %s
    {  }
")).
Eval vm_compute in ("<<<M1601>>>" ++ check (runes_of_ascii "// c
options {
    A = ""// no comment""
}")).
Eval vm_compute in ("<<<M204>>>" ++ check (runes_of_ascii "MetaData  matchKey
{ char[] Foo , }")).
Eval vm_compute in ("<<<M1971>>>" ++ check (runes_of_ascii "
// c 	
    packet
A
	{

    }

")).
Eval vm_compute in ("<<<M1600>>>" ++ check (runes_of_ascii "packet A {
    u8 x `d `,// c 
}")).
Eval vm_compute in ("<<<M1095>>>" ++ check (runes_of_ascii "MetaData M {
}// c
packet A {}")).
Eval vm_compute in ("<<<M1771>>>" ++ check (runes_of_ascii "
// c" ++ [12]%N ++ runes_of_ascii "
  packet
    A
	{ }")).
Eval vm_compute in ("<<<M1495>>>" ++ check (runes_of_ascii "  packet  Packet  { }
")).
Eval vm_compute in ("<<<M1081>>>" ++ check (runes_of_ascii "// c x
packet A {
}")).
Eval vm_compute in ("<<<M1070>>>" ++ check (runes_of_ascii "packet A {
}
// c" ++ [65279]%N)).
Eval vm_compute in ("<<<M1167>>>" ++ check (runes_of_ascii "packet // c
x { }")).
Eval vm_compute in ("<<<M1614>>>" ++ check (runes_of_ascii "packet A {
}")).
Eval vm_compute in ("<<<M1064>>>" ++ check (runes_of_ascii "// c" ++ [8203]%N)).
