From FP Require Import Lexer Parser ShowPT Digest Formatter.
From Coq Require Import String List NArith.
Import ListNotations.
Open Scope string_scope.
Set Printing Width 100000000.
Set Printing Depth 100000000.
Definition show_fres (r : fres) : string :=
  match r with
  | FOk s => "OK:" ++ sh_escaped s ""
  | FErr s => "ERR:" ++ sh_escaped s ""
  | FPanic p => "PANIC:" ++ p
  end.
Definition check (rs : list rune) : string := digest (show_fres (format_res rs)).
Definition full (rs : list rune) : string := show_fres (format_res rs).
Eval vm_compute in ("<<<M1360>>>" ++ check (runes_of_ascii "options { // c1
FixedStringPadFromLeft // c2a
  // c2b
= true // c4
; FixedStringPadChar // c6
= // c7
'0' ; // c9a
  // c9b
} // c10
packet
    // c11
Leg { repeat // c14
InSym93 // c15
{ zchar[
    // c17
3 // c18a
  // c18b
] // c19
Acct
    // c20
, // c21a
  // c21b
string // c22a
  // c22b
Side2 , // c24a
  // c24b
i32 // c25
Flags ,
    // c27
f32 // c28
Note , i32 // c31a
  // c31b
msgKind
    // c32
, } // c34
, // c35
f64
    // c36
Note ,
    // c38
uint16 Px // c40a
  // c40b
, // c41
} packet // c43a
  // c43b
Quote // c44
{ zchar[ // c46
2 // c47a
  // c47b
] OrderId // c49a
  // c49b
,
    // c50
}
    // c51
packet Ack
    // c53
{ // c54
repeat // c55a
  // c55b
string // c56
lastPx , zchar[ 4 // c60
] price , // c63
uint32 // c64
OrderId , Quote // c67a
  // c67b
, int8
    // c69
Acct
    // c70
, } packet
    // c73
Fill
    // c74
{
    // c75
repeat
    // c76
Leg
    // c77
, // c78a
  // c78b
@rightPad
    // c79
(
    // c80
'0'
    // c81
) // c82a
  // c82b
char[ 11 ] // c85
Note
    // c86
,
    // c87
f64
    // c88
Px // c89
, // c90
@rightPad
    // c91
( '\x00' // c93a
  // c93b
)
    // c94
char[
    // c95
5 // c96
] // c97
Flags , zchar[
    // c100
9
    // c101
] // c102a
  // c102b
x // c103
, // c104
string msgKind , // c107
}
    // c108
root packet
    // c110
Order // c111
{ Leg , // c114
repeat Ack , // c117
@rightPad (
    // c119
'\x00' )
    // c121
char[ // c122
3 // c123a
  // c123b
]
    // c124
Side2 // c125a
  // c125b
, // c126a
  // c126b
repeat // c127a
  // c127b
char[
    // c128
1 ] // c130
seqNo // c131
, u16 // c133
clOrdID // c134a
  // c134b
, match
    // c136
clOrdID
    // c137
as // c138
Body { // c140
198 // c141
:
    // c142
Leg
    // c143
, 23 // c145a
  // c145b
: // c146a
  // c146b
Quote // c147a
  // c147b
, // c148a
  // c148b
13 // c149a
  // c149b
:
    // c150
Ack // c151a
  // c151b
, 159 // c153a
  // c153b
: Fill // c155
, // c156
} // c157a
  // c157b
, u32 venue @calculatedFrom( ""CRC32"" ) // c163a
  // c163b
, // c164
} // c165a
  // c165b
")).
Eval vm_compute in ("<<<M383>>>" ++ check (runes_of_ascii "options {
	StringPrefixLenType = u16;
	ArrayPrefixLenType = u16;
}

packet SampleBinary {
    uint16 MsgType `" ++ [28040; 24687; 31867; 22411]%N ++ runes_of_ascii "`,
    u16 BodyLenght @lengthOf(Body) `" ++ [28040; 24687; 20307; 38271; 24230]%N ++ runes_of_ascii "`,
    match MsgType as Body {
        1 : Logon,
        2 : Logout,
        3 : Heartbeat,
        4 : RiskControlRequest,
        5 : RiskControlResponse,
    },
        @calculatedFrom(""CRC32"")
    u32 Ckecksum `" ++ [26657; 39564; 21644]%N ++ runes_of_ascii "`,
}

packet Logon {
     @leftPad('0')
    char[10] UserName `" ++ [29992; 25143; 21517]%N ++ runes_of_ascii "`,
    string Password `" ++ [23494; 30721]%N ++ runes_of_ascii "`,
    uint64 ClientId `" ++ [23458; 25143; 31471]%N ++ runes_of_ascii "ID`,
    u16 HeartbeatInterval `" ++ [24515; 36339; 38388; 38548]%N ++ runes_of_ascii "`,
}

packet Logout {
      @rightPad('0')
    char[10] UserName `" ++ [29992; 25143; 21517]%N ++ runes_of_ascii "`,
    uint64 ClientId `" ++ [23458; 25143; 31471]%N ++ runes_of_ascii "ID`,
}

packet Heartbeat {
}

packet RiskControlRequest {
    string UniqueOrderId `" ++ [21807; 19968; 35746; 21333; 21495]%N ++ runes_of_ascii "`,
    char[16] ClOrdID `" ++ [23458; 25143; 35746; 21333; 21495]%N ++ runes_of_ascii "`,
    char[3] MarketID `" ++ [24066; 22330]%N ++ runes_of_ascii "id`,
    char[12] SecurityID `" ++ [35777; 21048; 20195; 30721]%N ++ runes_of_ascii "`,
    char Side `" ++ [20080; 21334; 26041; 21521]%N ++ runes_of_ascii "`,
    char OrderType `" ++ [35746; 21333; 31867; 22411]%N ++ runes_of_ascii "`,
    u64 Price `" ++ [20215; 26684]%N ++ runes_of_ascii "`,
    u32 Qty `" ++ [25968; 37327]%N ++ runes_of_ascii "`,
    repeat string ExtraInfo `" ++ [38468; 21152; 20449; 24687]%N ++ runes_of_ascii "`,
    repeat SubOrder {
    		char[16] ClOrdID `" ++ [23376; 35746; 21333; 21495]%N ++ runes_of_ascii "`,
    		u64 Price `" ++ [23376; 35746; 21333; 20215; 26684]%N ++ runes_of_ascii "`,
    		u32 Qty `" ++ [23376; 35746; 21333; 25968; 37327]%N ++ runes_of_ascii "`,
    	},
}

packet RiskControlResponse {
    string UniqueOrderId `" ++ [21807; 19968; 35746; 21333; 21495]%N ++ runes_of_ascii "`,
    i32 Status `" ++ [29366; 24577]%N ++ runes_of_ascii "`,
    string Msg `" ++ [32467; 26524; 20449; 24687]%N ++ runes_of_ascii "`,
    repeat Detail,
}

packet Detail {
    string RuleName `" ++ [35268; 21017; 21517; 31216]%N ++ runes_of_ascii "`,
    u16 Code `" ++ [21407; 22240; 20195; 30721]%N ++ runes_of_ascii "`,
}")).
Eval vm_compute in ("<<<M1624>>>" ++ check (runes_of_ascii "packet  falsey

{

    i64_ ,charz{	match

Packet	as
Pad

{
""\n"" : 
Packet  ,
    ""// no comment""// " ++ [128512]%N ++ runes_of_ascii " emoji

: f32a// `tick` ""quote"" 'q'

  ,
	[  
      /// triple
    3
    ,
4294967296, 
10,	//
  7	,
    10 ]
    :

u ,  // trailing space 
    ""`tick`""
    :	u8x
,  [
	7,

""it's""

    ]:
Packet,

0

    : len 

    //

, } ,}, 	 /// triple
  @lengthOf(

    f32a  )  char[
    3

]options1 @lengthOf(	Pad )
, 
zchar[	0123456789 
] 	 // trailing space 
T  ``,
    } packet	Pad
    {

    // c
    	o	roots `{ , }`	// " ++ [128512]%N ++ runes_of_ascii " emoji
	  , }

packet

    f32a {

    _x//

@calculatedFrom(
	""x y"" 
) //x
	,
@tag(  65535 
) 	 //	t
	char pack@lengthOf(
    zchar
	)
	,	repeat	//
    int64 falsey 
,

repeat  len
{	match
A as rootA	{
	[42
	,""\n""  ]: Z9_ ,

},repeat i16
	A  ,
repeat
zchar[ 65535 ] tag `
`  , f64

float

@lengthOf(
f32a )``

    , 
    // `tick` ""quote"" 'q'
	  // packet A { u8 x, }
  },x 
u8x	,

    @tag(  42
) repeat

    As
	Packet

,
	@lengthOf(
    Pad )repeat  f64
    rootA , 	 // @lengthOf(
	}")).
Eval vm_compute in ("<<<M17>>>" ++ check (runes_of_ascii "
MetaData
    x{ len
    crc , float
    // " ++ [128512]%N ++ runes_of_ascii " emoji
    asx, i32 uint8x`line1
line2` ,u16
tag
// `tick` ""quote"" 'q'
//x
`it's` , As string_
    ,
}
packet metadata {@lengthOf(zchar )// c
i64_ @calculatedFrom(
""\" ++ [233]%N ++ runes_of_ascii """	) , //x
@leftPad
    ( '\x00' ) zchar[ 10
] zchar
    ,
    lengthOf //x
string_ ,int @lengthOf( pack
    ),
    zchar[ 00 ]
    Foo , @lengthOf( packetx )
    @leftPad (
'\x00'// " ++ [27880; 37322]%N ++ runes_of_ascii "
) @calculatedFrom(
    // @lengthOf(
    ""x y"" )uint16
len@calculatedFrom( """" )
`two words` , int8
    metadata @lengthOf( Foo )`two words`	, // @lengthOf(
}options
{ }
packet
pack{
// `tick` ""quote"" 'q'
//
f64
    o , T BodyLength  ,
    repeat
    uint8 chars  `" ++ [233]%N ++ runes_of_ascii "`
    ,repeat
    // c
    Logon
u
    // " ++ [128512]%N ++ runes_of_ascii " emoji
    ,@tag(
    0123456789 )
char[] repeatCount @lengthOf(// " ++ [27880; 37322]%N ++ runes_of_ascii "
_x )
    // c
    `
` ,//
@tag(
// packet A { u8 x, }
/// triple
7 )  repeatCount @calculatedFrom(""packet"" ) `{ , }` , }")).
Eval vm_compute in ("<<<M1359>>>" ++ check (runes_of_ascii "options {
    FixedStringPadFromLeft = true;
    FixedStringPadChar = '0';
}
packet Leg {
    repeat InSym93 {
        zchar[3] Acct,
        string Side2,
        i32 Flags,
        f32 Note,
        i32 msgKind,
    },
    f64 Note,
    uint16 Px,
}
packet Quote {
    zchar[2] OrderId,
}
packet Ack {
    repeat string lastPx,
    zchar[4] price,
    uint32 OrderId,
    Quote,
    int8 Acct,
}
packet Fill {
    repeat Leg,
    @rightPad('0') char[11] Note,
    f64 Px,
    @rightPad('\x00') char[5] Flags,
    zchar[9] x,
    string msgKind,
}
root packet Order {
    Leg,
    repeat Ack,
    @rightPad('\x00') char[3] Side2,
    repeat char[1] seqNo,
    u16 clOrdID,
    match clOrdID as Body {
        198 : Leg,
        23 : Quote,
        13 : Ack,
        159 : Fill,
    },
    u32 venue @calculatedFrom(""CRC32""),
}
")).
Eval vm_compute in ("<<<M1117>>>" ++ check (runes_of_ascii "// top
MetaData
    // c0
Packet
    // c1
{
    // c2
}
    // c3
packet
    // c4
charz
    // c5
{
    // c6
Foo
    // c7
asx
    // c8
`it's`
    // c9
,
    // c10
@lengthOf(
    // c11
T
    // c12
)
    // c13
@calculatedFrom(
    // c14
""""
    // c15
)
    // c16
@calculatedFrom(
    // c17
""x y""
    // c18
)
    // c19
zchar[
    // c20
007
    // c21
]
    // c22
repeatCount
    // c23
@lengthOf(
    // c24
int
    // c25
)
    // c26
`a\`
    // c27
,
    // c28
i8
    // c29
string_
    // c30
,
    // c31
repeat
    // c32
options1
    // c33
Pad
    // c34
,
    // c35
}
    // c36
root
    // c37
packet
    // c38
Packet
    // c39
{
    // c40
int8
    // c41
float
    // c42
`doc`
    // c43
,
    // c44
}
    // c45
")).
Eval vm_compute in ("<<<M1764>>>" ++ check (runes_of_ascii "packet charz {
    //	t
    repeat i64_,
    trueish {
        repeat _x,
        repeatCount,
        repeat u16 matchKey `
        `,
        // " ++ [128512]%N ++ runes_of_ascii " emoji
        // a // b
        matchKey @calculatedFrom(""a\""b"") `it's`,
    },
    @tag(007)
    @calculatedFrom(""a\\"")
    @tag(3)
    f32 f32a @lengthOf(asx) `crlf
    line`,
    repeat i8 string_,
    @lengthOf(Logon)
    @lengthOf(x_y_z)
    @lengthOf(zchar)
    repeat char[65535] Foo `" ++ [233]%N ++ runes_of_ascii "`,
    @calculatedFrom(""abc"")
    trueish @lengthOf(A),
    char[0] float,
    Packet @calculatedFrom(""a	b""),
}

MetaData Pad {
    char[00] leftPad,
    u8 rootA `
    `,
    int32 a1 `say ""hi""`,
    Z9_ float,
    i32 Pad,
}")).
Eval vm_compute in ("<<<M147>>>" ++ check (runes_of_ascii "root
    packet falsey{	@tag( 255) len@calculatedFrom( ""`tick`""
    )//
,match MetaDataX as
crc
{	[7 ] :
    roots ,} ,	@tag( 10 ) @tag(
// `tick` ""quote"" 'q'
// `tick` ""quote"" 'q'
10//
) @tag( 255)	repeat /// triple
uint64 rootA	, tag // a // b
`" ++ [28040; 24687; 31867; 22411]%N ++ runes_of_ascii "` ,
float32  i64_ , int64 _x  `doc` , @leftPad( ' '
    )
match
// @lengthOf(
// @lengthOf(
i8i8 as pack { // `tick` ""quote"" 'q'
7 : Logon , ""x y"" : lengthOf , } , // trailing space 
match x_y_z as u
{
// `tick` ""quote"" 'q'
// " ++ [27880; 37322]%N ++ runes_of_ascii "
[ 0123456789 ] :	packetx ,007 :x_y_z
// trailing space 
//
, 10 : rootA , 7 : u 0123456789 :falsey
, }	, // packet A { u8 x, }
}
")).
Eval vm_compute in ("<<<M1489>>>" ++ check (runes_of_ascii "

  root
    // " ++ [27880; 37322]%N ++ runes_of_ascii "
  	// @lengthOf(

packet

    Packet
	{ string o
	@calculatedFrom( 
""\" ++ [233]%N ++ runes_of_ascii """

)

    ,
    @lengthOf(

    Packet 
        // packet A { u8 x, }
	) body@calculatedFrom(// @lengthOf(
	""x y"" )

    `it's` ,

float64 As

@calculatedFrom(""`tick`""
)  ,
	char[]	stringy @calculatedFrom(	""" ++ [28040; 24687]%N ++ runes_of_ascii """ )
	`doc`
, 
@calculatedFrom(
    ""a	b""	)	match
float 
as

    o

    {[	""" ++ [128512]%N ++ runes_of_ascii """

    ,
007 ]
    :
metadata ,
    } 
,
    f32a
	a1`a\` ,
}
MetaData 
repeatCount

{
packetx
    i64_
`" ++ [28040; 24687; 31867; 22411]%N ++ runes_of_ascii "`
	,  // " ++ [128512]%N ++ runes_of_ascii " emoji
zchar[
3	]tag

, i8i8 int
,

} ")).
Eval vm_compute in ("<<<M1937>>>" ++ check (runes_of_ascii "
packet 
rootA 
{@tag(
    0123456789 
)
	options1

    {	int32

uint8x
    `u8 x,`
    ,
u8x
	//x
// packet A { u8 x, }
      {  match 
Header

as
    metadata
    { [
10

] 
:	pack} ,	}  ,
    f64	// `tick` ""quote"" 'q'
	chars

, 
} ,
	@lengthOf(
    body )u64 
        // @lengthOf(
    //
	Z9_  ,} 
MetaData

    repeatCount
{
zchar[10 ]

string_ ,
	f64

A	,
u32  BodyLength

    ,zchar[

    00
    ]
	uint8x
,trueish leftPad
	, char[65535]rootA
, }  
      //	t
 
")).
Eval vm_compute in ("<<<M1366>>>" ++ check (runes_of_ascii "options {
    LittleEndian = true;
    StringPrefixLenType = u64;
    ArrayPrefixLenType = u16;
    FixedStringPadFromLeft = false;
    FixedStringPadChar = ' ';
}
packet Logon {
    zchar[5] Side2,
}
root packet Logout {
    repeat i64 Tail,
    Logon,
    repeat i16 OrderId,
    char[] venue,
    uint64 x,
    repeat i16 count,
    u8 Flags,
    match Flags as Body {
        25 : Logon,
    },
    u16 Qty @calculatedFrom(""CR\
C32""),
}
")).
Eval vm_compute in ("<<<M220>>>" ++ check (runes_of_ascii "root
    packet string_{
//	t
//x
i16 o /// triple
,
    @tag( 4294967296
)
repeat char o ,Foo {match MetaDataX // trailing space 
as leftPad
    { 0123456789 : calculatedFrom ,
[ 0 ]
: u128}
, repeat
u
// `tick` ""quote"" 'q'
// @lengthOf(
{
    zchar[65535]body@lengthOf( float  )
,o , asx @calculatedFrom( ""{,}"" ) `it's` // `tick` ""quote"" 'q'
,}// `tick` ""quote"" 'q'
,
} ,  }
")).
Eval vm_compute in ("<<<M1913>>>" ++ check (runes_of_ascii "MetaData Header {
}

packet crc {
    match zchar as leftPad {
        7 : As,
        0 : Packet,
        [00] : Pad,
        //x
        //x
        ""// no comment"" : calculatedFrom,
        3 : string_,
    },
    falsey packetx `crlf
    line`,// " ++ [27880; 37322]%N ++ runes_of_ascii "
    @tag(42)
    repeat u64 packetx,
    @calculatedFrom(""1"")
    repeat u16 calculatedFrom,
}")).
Eval vm_compute in ("<<<M368>>>" ++ check (runes_of_ascii "MetaData T
    {
uint8
float ,
repeatCount x ,	char[ 10  ] asx /// triple
, char[ 00]
metadata
    `" ++ [233]%N ++ runes_of_ascii "` ,u8x asx//	t
, } MetaData
    trueish {	charz	string_ `crlf
line`,  zchar[ 42 ]	_x
//
// `tick` ""quote"" 'q'
, }packet o { char[]u8x
    @calculatedFrom(""abc""  ) , } options{ x
=
    255 ; u // " ++ [27880; 37322]%N ++ runes_of_ascii "
= '0'	}
")).
Eval vm_compute in ("<<<M1435>>>" ++ check (runes_of_ascii "packet float {
    @rightPad()
    // c5a
    // c5b
    rootA @lengthOf(trueish),
    // c10
    stringy @lengthOf(matchKey),// c15a
    // c15b
    char[4294967296] pack @lengthOf(uint8x),
}// c24

root packet trueish {
    // c28
    repeat uint64 u128 `line1
        line2`,
}")).
Eval vm_compute in ("<<<M361>>>" ++ check (runes_of_ascii "MetaData BodyLength { uint16 leftPad `" ++ [233]%N ++ runes_of_ascii "` // a // b
, uint8x asx,
    len lengthOf `// not a comment` ,
string uint8x `doc`
, }options {i8i8 = 0
lengthOf =
    0123456789 ; } packet uint8x { @lengthOf(
pack ) float64
u8x@lengthOf(asx //x
)
, }
")).
Eval vm_compute in ("<<<M1616>>>" ++ check (runes_of_ascii "

  MetaData 
zchar 
{

uint8
	_x 
    // `tick` ""quote"" 'q'
		//
`doc` , float64 
metadata `doc` // " ++ [128512]%N ++ runes_of_ascii " emoji
		,	zchar[ 
42
]
// packet A { u8 x, }
	// c
	x_y_z

, zchar[
    3] Logon

    `{ , }`

,
}

")).
Eval vm_compute in ("<<<M1931>>>" ++ check (runes_of_ascii "packet A {
    Inner {
        u8 x `a
                
                b`,
        Deep {
            u8 y `a
                        
                        b`,
        },
    },
}")).
Eval vm_compute in ("<<<M1565>>>" ++ check (runes_of_ascii "packet A {
    match k as n {
        [
            22, 4, 66, 8, 10,
            ""a"", ""c c"", ""e"", ""g"", ""i"",
            ""k""
        ] : B,
        2 : C,
    },
}")).
Eval vm_compute in ("<<<M406>>>" ++ check (runes_of_ascii "packet uint8x
{ match match pack
    as msg_type	{
    0123456789 :	float
}
,
} packet //	t
a1
    { } options {packetx
    = '\x00'	; u128= ""a	b""  ; }
")).
Eval vm_compute in ("<<<M401>>>" ++ check (runes_of_ascii "packet uint8x
{ { match pack
    as msg_type	{
    0123456789 :	float
}
,
} packet //	t
a1
    { } options {packetx
    = '\x00'	; u128= ""a	b""  ; }
")).
Eval vm_compute in ("<<<M549>>>" ++ check (runes_of_ascii "pa\cket uint8x
{ match pack
    as msg_type	{
    0123456789 :	float
}
,
} packet //	t
a1
    { } options {packetx
    = '\x00'	; u128= ""a	b""  ; }
")).
Eval vm_compute in ("<<<M502>>>" ++ check (runes_of_ascii "packet uint8x
{ match pack
    as msg_type	{
    0123456789 :	float
}
,
} packet //	t
a1
    { } options {packetx
    = ;	'\x00' u128= ""a	b""  ; }
")).
Eval vm_compute in ("<<<M415>>>" ++ check (runes_of_ascii "packet uint8x
{ match pack
     msg_type	{
    0123456789 :	float
}
,
} packet //	t
a1
    { } options {packetx
    = '\x00'	; u128= ""a	b""  ; }
")).
Eval vm_compute in ("<<<M678>>>" ++ check (runes_of_ascii "// @lengthOf(
packet i8i8 { u128 o , }
options { MetaDataX = true;
    BodyLength =""packet"" x_y_z= 007
crc //x
= ""abc"" ;
    < msg_type =
i16 }")).
Eval vm_compute in ("<<<M679>>>" ++ check (runes_of_ascii "// @lengthOf(
packet { i8i8 u128 o , }
options { MetaDataX = true;
    BodyLength =""packet"" x_y_z= 007
crc //x
= ""abc"" ;
    msg_type =
i16 }")).
Eval vm_compute in ("<<<M1502>>>" ++ check (runes_of_ascii "packet A {
    match k as n {
        [
            1, 007, 5, 7, 9,
            ""bb"", ""d"", ""f"", ""h""
        ] : B,
        2 : C,
    },
}")).
Eval vm_compute in ("<<<M16>>>" ++ check (runes_of_ascii "options { }MetaData u8x { uint8x	body`crlf
line`
    //	t
    , calculatedFrom body ,
}
    options  {
} root packet options1
{  }")).
Eval vm_compute in ("<<<M1859>>>" ++ check (runes_of_ascii "packet A {
    u16 len @lengthOf(body) `a
        b`,
    u32 crc @calculatedFrom(""CRC32"") `a
        b`,
    string body,
}")).
Eval vm_compute in ("<<<M1151>>>" ++ check (runes_of_ascii "MetaData leftPad { chars MetaDataX // c
, } packet repeatCount { char[ 255 ] uint8x `" ++ [233]%N ++ runes_of_ascii "` , } MetaData pack { As Foo , }")).
Eval vm_compute in ("<<<M1183>>>" ++ check (runes_of_ascii "MetaData leftPad { chars MetaDataX , } packet repeatCount { char[ 255 ] uint8x `" ++ [233]%N ++ runes_of_ascii "` , } MetaData pack { As // c
Foo , }")).
Eval vm_compute in ("<<<M1514>>>" ++ check (runes_of_ascii "packet
A{
    match k 
as n 
{
[
    ""a"",  ""bb""
    , 007  ,""d"" , 
""e"" ,
	66 , ""g""

, 
""h"" ]
    :B 2	:
C
}, } ")).
Eval vm_compute in ("<<<M1269>>>" ++ check (runes_of_ascii "  packet	B
{
u8 a , 
string	s
	,
    }
    root
	packet P

{ u16

L @lengthOf( B ), B
    , 
u8  t ,
}
")).
Eval vm_compute in ("<<<M868>>>" ++ check (runes_of_ascii "packet A {
  match k as n {
    [""a"", ""bb"", ""c c"", ""d"", ""e"", ""f"", ""g"", ""h"", ""i""] : B
    2 : C
  },
}")).
Eval vm_compute in ("<<<M875>>>" ++ check (runes_of_ascii "packet A {
  match k as n {
    [""a"", ""bb"", 007, ""d"", ""e"", 66, ""g"", ""h"", 9] : B,
    2 : C
  },
}")).
Eval vm_compute in ("<<<M615>>>" ++ check (runes_of_ascii "
packet
    asx {match u128 as lengthOf
{
//	t
// `tick` ""quote"" 'q'
255 : x ,
    match ,	}")).
Eval vm_compute in ("<<<M645>>>" ++ check (runes_of_ascii "
packet
    asx {match u128 as lengthOf
{
//	t
// `tick` ""quote"" 'q'
255 : a" ++ [769]%N ++ runes_of_ascii "b ,
    } ,	}")).
Eval vm_compute in ("<<<M619>>>" ++ check (runes_of_ascii "
packet
    asx {match u128 as lengthOf
{
//	t
// `tick` ""quote"" 'q'
255 : x ,
    } }	,")).
Eval vm_compute in ("<<<M1572>>>" ++ check (runes_of_ascii "
packet  calculatedFrom {  repeat 	 // packet A { u8 x, }

string Foo`{ , }`
    ,
}
")).
Eval vm_compute in ("<<<M1730>>>" ++ check (runes_of_ascii "packet A {
    match k as n {
        [1, 22, 4, ""c c""] : B,
        2 : C,
    },
}")).
Eval vm_compute in ("<<<M1713>>>" ++ check (runes_of_ascii "
packet
A{  match
k
as n

    {
[  1
    ,22 
, 007
]
:
	B  ,
2:	C  }, }

")).
Eval vm_compute in ("<<<M1703>>>" ++ check (runes_of_ascii "root packet P {
    u16 a,
    u32 Sum @calculatedFrom(""CR\
        C32""),
}")).
Eval vm_compute in ("<<<M807>>>" ++ check (runes_of_ascii "packet A {
  match k as n {
    [""a"", 22, ""c c"", 4] : B
    2 : C
  },
}")).
Eval vm_compute in ("<<<M1087>>>" ++ check (runes_of_ascii "packet A { match k as n { [ // a
 1 // b
 , // c
 2 ] // d
 : B }, }")).
Eval vm_compute in ("<<<M534>>>" ++ check (runes_of_ascii "packet uint8x
{ match pack
    as msg_type	{
    0123456789 :	")).
Eval vm_compute in ("<<<M1891>>>" ++ check (runes_of_ascii "
packet 	 // c
  body
{
i32
f32a
`{ , }` ,
} options
{ } ")).
Eval vm_compute in ("<<<M786>>>" ++ check (runes_of_ascii "packet A { Inner { match k as n { [1,22] : B, }, }, }")).
Eval vm_compute in ("<<<M1217>>>" ++ check (runes_of_ascii "packet body { i32 f32a `{ , }` , } options { // c
}")).
Eval vm_compute in ("<<<M921>>>" ++ check (runes_of_ascii "MetaData M {
    u8 x `a
b`,
    T t `a
b`,
}")).
Eval vm_compute in ("<<<M1512>>>" ++ check (runes_of_ascii "
root
	packet A
{
	u8
x 
`x
`,

    }")).
Eval vm_compute in ("<<<M200>>>" ++ check (runes_of_ascii "options {
options1 =
    ' ' ;
}

")).
Eval vm_compute in ("<<<M738>>>" ++ check (runes_of_ascii "\B1ss""~3@|Nr!9$[0mx>ti>t+Fp_cN&")).
Eval vm_compute in ("<<<M941>>>" ++ check (runes_of_ascii "packet A {
    u8 x `a

b`,
}")).
Eval vm_compute in ("<<<M1084>>>" ++ check (runes_of_ascii "packet A { // a
 u8 x, }")).
Eval vm_compute in ("<<<M747>>>" ++ check (runes_of_ascii "true int16 u16 { f32a")).
Eval vm_compute in ("<<<M1131>>>" ++ check (runes_of_ascii "MetaData
// c
u { }")).
Eval vm_compute in ("<<<M1026>>>" ++ check (runes_of_ascii "packet A {
}
// c" ++ [8287]%N)).
Eval vm_compute in ("<<<M1004>>>" ++ check (runes_of_ascii "packet A {
}// c" ++ [8202]%N)).
Eval vm_compute in ("<<<M1072>>>" ++ check (runes_of_ascii "

  packet A {}")).
Eval vm_compute in ("<<<M399>>>" ++ check (runes_of_ascii "packet")).
Eval vm_compute in ("<<<M733>>>" ++ check (runes_of_ascii "


")).
