From FP Require Import Lexer Parser ShowPT Digest Formatter.
From Coq Require Import String List NArith.
Import ListNotations.
Open Scope string_scope.
Set Printing Width 100000000.
Set Printing Depth 100000000.
Definition show_fres (r : fres) : string :=
  match r with
  | FOk s => "OK:" ++ sh_escaped s ""
  | FErr s => "ERR:" ++ sh_escaped s ""
  | FPanic p => "PANIC:" ++ p
  end.
Definition check (rs : list rune) : string := digest (show_fres (format_res rs)).
Definition full (rs : list rune) : string := show_fres (format_res rs).
Eval vm_compute in ("<<<M1350>>>" ++ check (runes_of_ascii "// top
options // c0
{ LittleEndian // c2a
  // c2b
= // c3a
  // c3b
false // c4a
  // c4b
; // c5
FixedStringPadChar // c6
= // c7a
  // c7b
' ' // c8
;
    // c9
} // c10a
  // c10b
packet Fill // c12
{
    // c13
InFlags6 {
    // c15
repeat
    // c16
u64 // c17
count
    // c18
, }
    // c20
, // c21a
  // c21b
char[ 8
    // c23
] price // c25
, repeat // c27
char[ // c28
2 ] lastPx
    // c31
,
    // c32
char[] count // c34a
  // c34b
, } // c36
packet // c37a
  // c37b
Quote // c38
{
    // c39
char[]
    // c40
Qty , int32 // c43a
  // c43b
sym ,
    // c45
zchar[ 9 // c47
]
    // c48
Flags , int8 // c51a
  // c51b
tag7
    // c52
,
    // c53
char[ // c54a
  // c54b
7 ]
    // c56
count
    // c57
, // c58a
  // c58b
} // c59a
  // c59b
packet // c60
Cancel // c61
{ string // c63a
  // c63b
Acct // c64
, @rightPad ( // c67
'\x00' ) // c69
char[ // c70a
  // c70b
2 // c71
] Note
    // c73
, // c74a
  // c74b
zchar[
    // c75
5 // c76
] Side2
    // c78
,
    // c79
} // c80a
  // c80b
packet // c81a
  // c81b
Trade { repeat
    // c84
Quote // c85a
  // c85b
,
    // c86
Fill
    // c87
,
    // c88
repeat
    // c89
i64 Side2 // c91a
  // c91b
,
    // c92
uint16
    // c93
Tail , zchar[ // c96
7
    // c97
] OrderId
    // c99
, // c100
}
    // c101
root // c102a
  // c102b
packet // c103
Party
    // c104
{ repeat InLastpx79 { // c108a
  // c108b
char[ // c109
12 // c110a
  // c110b
]
    // c111
Px // c112a
  // c112b
, int8 // c114a
  // c114b
Tail // c115a
  // c115b
, } // c117
, f32
    // c119
count // c120
,
    // c121
repeat
    // c122
u8 // c123a
  // c123b
Note // c124a
  // c124b
,
    // c125
Trade // c126a
  // c126b
, // c127a
  // c127b
f64
    // c128
venue // c129a
  // c129b
, // c130
@rightPad ( // c132
'\x00' ) char[
    // c135
11
    // c136
] // c137a
  // c137b
tag7 // c138
, u16 // c140a
  // c140b
Px , // c142a
  // c142b
u32
    // c143
Side2 @lengthOf( // c145
Body ) // c147
, match // c149
Px as // c151a
  // c151b
Body // c152
{ [ // c154
48 // c155a
  // c155b
, 188 ] // c158a
  // c158b
: Fill , // c161
190
    // c162
: // c163a
  // c163b
Trade // c164a
  // c164b
, 160 // c166
: Quote // c168a
  // c168b
,
    // c169
85 // c170
:
    // c171
Cancel , } // c174
,
    // c175
}
    // c176
")).
Eval vm_compute in ("<<<M382>>>" ++ check (runes_of_ascii "options {
    StringPrefixLenType = u16;
    ArrayPrefixLenType = u16;
}

packet SampleBinary {
    uint16 MsgType `" ++ [28040; 24687; 31867; 22411]%N ++ runes_of_ascii "`,
    u16 BodyLenght @lengthOf(Body) `" ++ [28040; 24687; 20307; 38271; 24230]%N ++ runes_of_ascii "`,
    match MsgType as Body {
        1 : Logon,
        2 : Logout,
        3 : Heartbeat,
        4 : RiskControlRequest,
        5 : RiskControlResponse,
    },
    @calculatedFrom(""CRC32"")
    u32 Ckecksum `" ++ [26657; 39564; 21644]%N ++ runes_of_ascii "`,
}

packet Logon {
    @leftPad('0')
    char[10] UserName `" ++ [29992; 25143; 21517]%N ++ runes_of_ascii "`,
    string Password `" ++ [23494; 30721]%N ++ runes_of_ascii "`,
    uint64 ClientId `" ++ [23458; 25143; 31471]%N ++ runes_of_ascii "ID`,
    u16 HeartbeatInterval `" ++ [24515; 36339; 38388; 38548]%N ++ runes_of_ascii "`,
}

packet Logout {
    @rightPad('0')
    char[10] UserName `" ++ [29992; 25143; 21517]%N ++ runes_of_ascii "`,
    uint64 ClientId `" ++ [23458; 25143; 31471]%N ++ runes_of_ascii "ID`,
}

packet Heartbeat {
}

packet RiskControlRequest {
    string UniqueOrderId `" ++ [21807; 19968; 35746; 21333; 21495]%N ++ runes_of_ascii "`,
    char[16] ClOrdID `" ++ [23458; 25143; 35746; 21333; 21495]%N ++ runes_of_ascii "`,
    char[3] MarketID `" ++ [24066; 22330]%N ++ runes_of_ascii "id`,
    char[12] SecurityID `" ++ [35777; 21048; 20195; 30721]%N ++ runes_of_ascii "`,
    char Side `" ++ [20080; 21334; 26041; 21521]%N ++ runes_of_ascii "`,
    char OrderType `" ++ [35746; 21333; 31867; 22411]%N ++ runes_of_ascii "`,
    u64 Price `" ++ [20215; 26684]%N ++ runes_of_ascii "`,
    u32 Qty `" ++ [25968; 37327]%N ++ runes_of_ascii "`,
    repeat string ExtraInfo `" ++ [38468; 21152; 20449; 24687]%N ++ runes_of_ascii "`,
    repeat SubOrder {
        char[16] ClOrdID `" ++ [23376; 35746; 21333; 21495]%N ++ runes_of_ascii "`,
        u64 Price `" ++ [23376; 35746; 21333; 20215; 26684]%N ++ runes_of_ascii "`,
        u32 Qty `" ++ [23376; 35746; 21333; 25968; 37327]%N ++ runes_of_ascii "`,
    },
}

packet RiskControlResponse {
    string UniqueOrderId `" ++ [21807; 19968; 35746; 21333; 21495]%N ++ runes_of_ascii "`,
    i32 Status `" ++ [29366; 24577]%N ++ runes_of_ascii "`,
    string Msg `" ++ [32467; 26524; 20449; 24687]%N ++ runes_of_ascii "`,
    repeat Detail,
}

packet Detail {
    string RuleName `" ++ [35268; 21017; 21517; 31216]%N ++ runes_of_ascii "`,
    u16 Code `" ++ [21407; 22240; 20195; 30721]%N ++ runes_of_ascii "`,
}")).
Eval vm_compute in ("<<<M83>>>" ++ check (runes_of_ascii "packet  A{
@rightPad (
' '
)
    // trailing space 
    zchar[ 42
    // 50% %s
    ]MetaDataX , repeat
int32 // 50% %s
Logon ,leftPad string_// packet A { u8 x, }
, @calculatedFrom(	""packet""
    )
char[ 3  ]
    // 50% %s
    Logon `{ , }` ,	match
    crc as _x{65535:float, 00
:
    BodyLength [
""" ++ [128512]%N ++ runes_of_ascii """
    , // `tick` ""quote"" 'q'
""a\\"" ,// packet A { u8 x, }
""a\""b"" ,
""// no comment"" ,  ""\n""
    , 255	]
    :
    // c
    MetaDataX ,0 : u8x}
    , }	options { zchar = false; i64_
= zchar[ 7
    ] ; BodyLength =
    ""1""	i8i8	= // @lengthOf(
true
; _x // packet A { u8 x, }
= ""// no comment""
; } packet //	t
crc{
match	As
as zchar {0 : leftPad
,
[0 , 255 , """ ++ [233]%N ++ runes_of_ascii "t" ++ [233]%N ++ runes_of_ascii """, ""x y""
    ,
    ""`tick`"" ,  4294967296 , """ ++ [233]%N ++ runes_of_ascii "t" ++ [233]%N ++ runes_of_ascii """ //	t
, """" ] :
stringy [ 0 ,	""{,}"" , ""packet""
    , 3
,
    65535
,42 ,	""packet"",0 ]:A 00
    : x }
,  @tag(	42 )
    match
    chars as x {
[ ""packet"" ,65535 ]
://x
T
    ,
""" ++ [28040; 24687]%N ++ runes_of_ascii """ : float ,
""" ++ [28040; 24687]%N ++ runes_of_ascii """
:packetx 0:
    /// triple
    trueish ,""" ++ [128512]%N ++ runes_of_ascii """ :
pack,} , // packet A { u8 x, }
@calculatedFrom(""abc"" ) stringy
pack , }
    packet msg_type
{ }
")).
Eval vm_compute in ("<<<M158>>>" ++ check (runes_of_ascii "packet
MetaDataX
    { A
    // @lengthOf(
    @lengthOf( leftPad )
`// not a comment`, @leftPad( '0' ) zchar[255 ] metadata `tab	here` ,  match Packet
as x_y_z
{
0123456789 :	o ,	007 :
// 50% %s
// " ++ [128512]%N ++ runes_of_ascii " emoji
float, 0: pack,
42:
i8i8
,
[  3	]
/// triple
//x
: BodyLength , },@lengthOf(
    // " ++ [128512]%N ++ runes_of_ascii " emoji
    repeatCount ) match stringy as
rootA
{ 00
// " ++ [128512]%N ++ runes_of_ascii " emoji
//	t
: /// triple
x, 10:  Z9_ /// triple
,4294967296 : crc , 00	:
    _x
, } ,
repeat x{	uint32	int , repeat string_ metadata, }
    // " ++ [128512]%N ++ runes_of_ascii " emoji
    ,@leftPad( ' ' )
    repeat zchar[ 007]	falsey `tab	here` ,
    // trailing space 
    @leftPad	( )	rootA @lengthOf( T)
, }
root packet f32a//x
{ As @calculatedFrom( ""abc""
) `// not a comment`, }  packet Z9_{ match // " ++ [128512]%N ++ runes_of_ascii " emoji
falsey as  string_ {""a	b"":  trueish,
[ 255 , 007
    ]
    : falsey
    """ ++ [28040; 24687]%N ++ runes_of_ascii """ : Header , 00 : /// triple
string_
    00
:	metadata } ,
    } root
    packet string_ { repeat int8 T , } 	 ")).
Eval vm_compute in ("<<<M1744>>>" ++ check (runes_of_ascii "
// @lengthOf(
	  packet	x_y_z
{  float32 T

    @lengthOf(

    int	)// c
,

@tag(  //	t

  255
    ) @calculatedFrom(
	""\n"")

lengthOf

    { repeat	Packet repeatCount  , } ,
char[ 0
	] body
	`two words` ,	o 	 // a // b

`a\` 
,
	@tag( 1

    )repeat	Foo  lengthOf 	 //	t
	, 
repeat  lengthOf
	{ string_
@lengthOf( 
    // packet A { u8 x, }

// trailing space 
x_y_z
	    // " ++ [128512]%N ++ runes_of_ascii " emoji

),	repeat 
asx	{

int16 float
    @calculatedFrom(

    ""CRC32""
	) , },	//

i8 leftPad
	@calculatedFrom( ""\n"" )`// not a comment` ,

},

char[00

    ] u	,match
a1 
as	roots
// `tick` ""quote"" 'q'

  // `tick` ""quote"" 'q'
  	{ //
		[ """ ++ [28040; 24687]%N ++ runes_of_ascii """,	""// no comment""

, 	 /// triple
  ""1"" ,0

    ]// a // b
	: calculatedFrom
	,  }  ,
	}
options

    { metadata

=
char[]}
")).
Eval vm_compute in ("<<<M75>>>" ++ check (runes_of_ascii "  options { _x =  '0'
// a // b
// packet A { u8 x, }
; Logon =
false	}packet
    A {} packet //
Logon
{ @leftPad (
' ' ) repeat	repeatCount { stringy  @lengthOf(
// " ++ [27880; 37322]%N ++ runes_of_ascii "
// trailing space 
len // @lengthOf(
)`say ""hi""`
, repeat metadata
    `u8 x,` , match x as
    int { [ ""`tick`"",7
] // trailing space 
: BodyLength ,255 : packetx
42 // " ++ [128512]%N ++ runes_of_ascii " emoji
:
_x ,} ,
    } , @rightPad ('0' ) @leftPad
    (	' ' )
@tag(65535 ) Header
    `{ , }`	,int16 // trailing space 
stringy
    @lengthOf( // " ++ [128512]%N ++ runes_of_ascii " emoji
calculatedFrom  ),
repeat MetaDataX {x_y_z ,	repeat //
calculatedFrom o`doc`
,string_ repeatCount , rootA {repeatCount
@calculatedFrom(
""\" ++ [233]%N ++ runes_of_ascii """) `tab	here`	,
}
    , },
    }")).
Eval vm_compute in ("<<<M1854>>>" ++ check (runes_of_ascii "

  packet metadata 
{
	Header	// @lengthOf(
    u128 ,
}packet
zchar

{  /// triple
    @tag(

4294967296) @lengthOf(
a1
) 
i8
	_x
`crlf
line`	,	@lengthOf(

_x
	)match

x_y_z  as 
Packet

    {

0

    : leftPad
    ,	65535
    : tag  00	: leftPad,	""a\\""  :
Packet
,	10
    :
o
,
    [	""CRC32""	] :
float  // " ++ [128512]%N ++ runes_of_ascii " emoji
		,
    } ,match

    stringy as  calculatedFrom { 
""`tick`"" :
rootA ,
	""`tick`""
    : 
asx

    // packet A { u8 x, }
	/// triple
    	,
3 
: 
u128, 
} , 
@lengthOf( msg_type )
    @tag(  10 ) // 50% %s

	repeatCount
    @lengthOf(	string_ ) `a\`, }

")).
Eval vm_compute in ("<<<M269>>>" ++ check (runes_of_ascii "options {stringy = 00//
f32a= // " ++ [128512]%N ++ runes_of_ascii " emoji
uint16 ;u8x = int64 ; // " ++ [27880; 37322]%N ++ runes_of_ascii "
}
root packet Header { body { // @lengthOf(
string	repeatCount	@calculatedFrom( ""x y"") `// not a comment` ,
    match roots as uint8x
    { ""a\\"": T , } , repeat i64_ { trueish @lengthOf( x_y_z )`" ++ [28040; 24687; 31867; 22411]%N ++ runes_of_ascii "` , } , } , int64 Packet , match
pack as
zchar
    {
    ""it's""
    : Header ,	[""a\\"" , 3] :calculatedFrom ,
    00 : options1// packet A { u8 x, }
, 0
    // c
    : u8x
    [ 65535 , 0123456789]
: float  255
: uint8x,} ,	}
    MetaData
u {// a // b
}
")).
Eval vm_compute in ("<<<M268>>>" ++ check (runes_of_ascii "packet x_y_z {repeat
asx { falsey	@lengthOf( u )`100% of %d`
    ,repeat
matchKey { x_y_z@calculatedFrom(""a\\""
// trailing space 
// trailing space 
)
, i64
// 50% %s
//
calculatedFrom @calculatedFrom( ""// no comment"" )  `{ , }` , }// 50% %s
,
// c
//	t
char[ // 50% %s
007 ] Foo @calculatedFrom( ""abc""
), }
    , repeat
    uint32 Pad, repeat Logon
{
Logon
    {
    char[] packetx @calculatedFrom(
// " ++ [128512]%N ++ runes_of_ascii " emoji
// `tick` ""quote"" 'q'
""it's"" )
`
` ,
}, i8 len, asx , } , }
")).
Eval vm_compute in ("<<<M1653>>>" ++ check (runes_of_ascii "  packet  NewOrder

{

    u32 qty, 
}
    packet 
Cancel {

u64 id ,
	}	packet
Business

    {
u8  Kind , match
	Kind	as  Detail
	{1

    :NewOrder
,

2

: Cancel  ,
    },
    } packet 
TcpFrame
    {	u8
T
,

    match	T
	as

    Body
{	1
	:

Business	, 
} ,  } packet
UdpFrame{ u8
U ,
    match	U as Body
{
	1 : 
Business
	, } ,
Business	extra,}root
	packet	Wire {

    TcpFrame

    ,UdpFrame

    ,  } ")).
Eval vm_compute in ("<<<M1342>>>" ++ check (runes_of_ascii "

  packet
Frame
{

    u8 HK, u8
	BK , u8

TK, match HK as Hdr { 1 :  HdrA
,2
    : 
HdrB 
,}
	,  match	BK as	Body { 1 :
BodyA,2
	:

    BodyB
, } ,
    match
TK  as  Trl
{1: TrlA
	,
}

, }
packet
    HdrA

{u8
a

,
    }

packet

    HdrB {	u16 b
,
    }	packet
BodyA {	u32
    c , 
} 
packet	BodyB{

u64 d
    , }
packet TrlA
{u8	e , 
} root packet Msg

    { Frame
, 
u8

    x  ,	} ")).
Eval vm_compute in ("<<<M1672>>>" ++ check (runes_of_ascii "packet string_ {
    @tag(4294967296)
    repeat u `crlf
        line`,
    repeat zchar[0] BodyLength,
    @tag(255)
    int `say ""hi""`,
    uint8x `u8 x,`,
    @leftPad(' ' )
    string MetaDataX @lengthOf(options1),
    zchar[00] charz `" ++ [28040; 24687; 31867; 22411]%N ++ runes_of_ascii "`,
    @calculatedFrom(""" ++ [128512]%N ++ runes_of_ascii """)
    _x calculatedFrom,
    uint8 packetx `it's`,
    @leftPad( )
    zchar[0] Foo `a\`,
}")).
Eval vm_compute in ("<<<M138>>>" ++ check (runes_of_ascii "packet falsey
    { repeat f32 msg_type,
    // `tick` ""quote"" 'q'
    } options  {	x = false // trailing space 
;//	t
A = 0123456789	;
}packet stringy { u128 int
// @lengthOf(
// @lengthOf(
, } MetaData A { u16 o ,	A u8x
    ,
string roots , options1 u128 `line1
line2` ,char[] msg_type
``
, roots rootA `{ , }` ,// @lengthOf(
}")).
Eval vm_compute in ("<<<M1798>>>" ++ check (runes_of_ascii "packet o {
    @rightPad( '\x00')
    @calculatedFrom(""a\""b"")
    @rightPad( '0')
    char[255] zchar @calculatedFrom(""\" ++ [233]%N ++ runes_of_ascii """),
    char[10] _x `" ++ [28040; 24687; 31867; 22411]%N ++ runes_of_ascii "`,
}

options {
}

options {
    Pad = '0';
}

packet i64_ {
    repeat string zchar,
    @calculatedFrom("""")
    @lengthOf(Packet)
    f32a,
}")).
Eval vm_compute in ("<<<M1454>>>" ++ check (runes_of_ascii "options {
    LittleEndian = true;
}

packet Sub {
    u8 a,
    u16 SubSum @calculatedFrom(""CRC16""),
}

root packet Frame {
    u16 MsgType,
    u16 BodyLen @lengthOf(Body),
    Sub Body,
    string note,
    u16 Checksum @calculatedFrom(""CRC16""),
    u8 tail,
}")).
Eval vm_compute in ("<<<M432>>>" ++ check (runes_of_ascii "packet
    asx { @calculatedFrom(
""""  ) @tag( 255 )repeat repeat
// packet A { u8 x, }
// trailing space 
int16 u8x
,
@tag(
    //
    007 )
    @tag( 0
    /// triple
    ) @tag( 1) u
    @lengthOf( T ),
// `tick` ""quote"" 'q'
//x
} // " ++ [128512]%N ++ runes_of_ascii " emoji")).
Eval vm_compute in ("<<<M447>>>" ++ check (runes_of_ascii "packet
    asx { @calculatedFrom(
""""  ) @tag( 255 )repeat
// packet A { u8 x, }
// trailing space 
int16 u8x
, ,
@tag(
    //
    007 )
    @tag( 0
    /// triple
    ) @tag( 1) u
    @lengthOf( T ),
// `tick` ""quote"" 'q'
//x
} // " ++ [128512]%N ++ runes_of_ascii " emoji")).
Eval vm_compute in ("<<<M398>>>" ++ check (runes_of_ascii "packet
    asx @calculatedFrom( {
""""  ) @tag( 255 )repeat
// packet A { u8 x, }
// trailing space 
int16 u8x
,
@tag(
    //
    007 )
    @tag( 0
    /// triple
    ) @tag( 1) u
    @lengthOf( T ),
// `tick` ""quote"" 'q'
//x
} // " ++ [128512]%N ++ runes_of_ascii " emoji")).
Eval vm_compute in ("<<<M545>>>" ++ check (runes_of_ascii "packet
    asx { @calculatedFrom(
""""  ) @tag( 255 )repeat
// packet A { u8 x, }
// trailing space 
int16 a" ++ [769]%N ++ runes_of_ascii "b
,
@tag(
    //
    007 )
    @tag( 0
    /// triple
    ) @tag( 1) u
    @lengthOf( T ),
// `tick` ""quote"" 'q'
//x
} // " ++ [128512]%N ++ runes_of_ascii " emoji")).
Eval vm_compute in ("<<<M504>>>" ++ check (runes_of_ascii "packet
    asx { @calculatedFrom(
""""  ) @tag( 255 )repeat
// packet A { u8 x, }
// trailing space 
int16 u8x
,
@tag(
    //
    007 )
    @tag( 0
    /// triple
    ) @tag( 1) u
    uint8 T ),
// `tick` ""quote"" 'q'
//x
} // " ++ [128512]%N ++ runes_of_ascii " emoji")).
Eval vm_compute in ("<<<M1671>>>" ++ check (runes_of_ascii "

  // top
  packet
// c0
  	orderItem
{	// c2a
  // c2b
  u8// c3
    a 
, } 
// c6
root 
  // c7
    packet// c8a
  // c8b
  newOrder { 	 // c10
	orderItem	,  
  // c12

  u8	x// c14a

  // c14b
	,	// c15
	}

")).
Eval vm_compute in ("<<<M515>>>" ++ check (runes_of_ascii "packet
    asx { @calculatedFrom(
""""  ) @tag( 255 )repeat
// packet A { u8 x, }
// trailing space 
int16 u8x
,
@tag(
    //
    007 )
    @tag( 0
    /// triple
    ) @tag( 1) u
    @lengthOf( T")).
Eval vm_compute in ("<<<M134>>>" ++ check (runes_of_ascii "MetaData len
{ x_y_z options1
    `// not a comment` //
,
f32	msg_type
    // " ++ [27880; 37322]%N ++ runes_of_ascii "
    `
` , char[]string_,} // c
MetaData // `tick` ""quote"" 'q'
packetx
{
string
u128 `say ""hi""`
, }")).
Eval vm_compute in ("<<<M647>>>" ++ check (runes_of_ascii "MetaData u
    { } MetaData o
{ float uint8x
`100% of %d` ,repeatCount u8x, string_ leftPad
, i32
    Foo , int64 int64 x `two words` , calculatedFrom
stringy `a\` ,
}
")).
Eval vm_compute in ("<<<M579>>>" ++ check (runes_of_ascii "MetaData u
    { } MetaData o
u32 float uint8x
`100% of %d` ,repeatCount u8x, string_ leftPad
, i32
    Foo , int64 x `two words` , calculatedFrom
stringy `a\` ,
}
")).
Eval vm_compute in ("<<<M553>>>" ++ check (runes_of_ascii "MetaData {
    u } MetaData o
{ float uint8x
`100% of %d` ,repeatCount u8x, string_ leftPad
, i32
    Foo , int64 x `two words` , calculatedFrom
stringy `a\` ,
}
")).
Eval vm_compute in ("<<<M1511>>>" ++ check (runes_of_ascii "packet _x {
    @calculatedFrom(""packet"")
    char[] T `" ++ [28040; 24687; 31867; 22411]%N ++ runes_of_ascii "`,
    @calculatedFrom(""" ++ [28040; 24687]%N ++ runes_of_ascii """)
    f64 pack `" ++ [233]%N ++ runes_of_ascii "`,
    @calculatedFrom(""a	b"")
    repeat crc `100% of %d`,
}")).
Eval vm_compute in ("<<<M676>>>" ++ check (runes_of_ascii "MetaData u
    { } MetaData o
{ float uint8x
`100% of %d` ,repeatCount u8x, string_ leftPad
, i32
    Foo , int64 x `two words` , calculatedFrom
stringy  ,
}
")).
Eval vm_compute in ("<<<M659>>>" ++ check (runes_of_ascii "MetaData u
    { } MetaData o
{ float uint8x
`100% of %d` ,repeatCount u8x, string_ leftPad
, i32
    Foo , int64 x } , calculatedFrom
stringy `a\` ,
}
")).
Eval vm_compute in ("<<<M475>>>" ++ check (runes_of_ascii "packet
    asx { @calculatedFrom(
""""  ) @tag( 255 )repeat
// packet A { u8 x, }
// trailing space 
int16 u8x
,
@tag(
    //
    007 )
    @tag(")).
Eval vm_compute in ("<<<M1853>>>" ++ check (runes_of_ascii "packet A {
    match k as n {
        [
            ""a"", ""bb"", 007, ""d"", ""e"",
            66, ""g""
        ] : B,
        2 : C,
    },
}")).
Eval vm_compute in ("<<<M54>>>" ++ check (runes_of_ascii "// trailing space 
packet
stringy
{	repeat char[]  roots , @leftPad
    //x
    (// c
' '  )char T `// not a comment`
    ,//
}
")).
Eval vm_compute in ("<<<M528>>>" ++ check (runes_of_ascii "packet
    asx { @calculatedFrom(
""""  ) @tag( 255 )repeat
// packet A { u8 x, }
// trailing space 
int16 u8x
,
@tag(
")).
Eval vm_compute in ("<<<M1201>>>" ++ check (runes_of_ascii "// c
options { } options { MetaDataX = char ; } MetaData Pad { i8 metadata , string stringy , int8 As `{ , }` , }")).
Eval vm_compute in ("<<<M1234>>>" ++ check (runes_of_ascii "options { } options { MetaDataX = char ; } MetaData Pad { i8 metadata ,
// c
string stringy , int8 As `{ , }` , }")).
Eval vm_compute in ("<<<M374>>>" ++ check (runes_of_ascii "
packet options1{
repeat char[] A `" ++ [233]%N ++ runes_of_ascii "`
//x
// 50% %s
, float rootA
    ,  Foo ,
    } root packet Z9_  {
}
")).
Eval vm_compute in ("<<<M266>>>" ++ check (runes_of_ascii "options { /// triple
msg_type =4294967296 ;
chars  = 4294967296 ;}
options{
// c
//
asx =
    ""\n"" }
")).
Eval vm_compute in ("<<<M1179>>>" ++ check (runes_of_ascii "// top
options
    // c0
{
    // c1
A
    // c2
=
    // c3
""// no comment""
    // c4
}
    // c5
")).
Eval vm_compute in ("<<<M72>>>" ++ check (runes_of_ascii "
root
packet string_ {  }options { i64_ = '\x00'
    ; Pad =
int32 ; calculatedFrom = 255
    }")).
Eval vm_compute in ("<<<M1265>>>" ++ check (runes_of_ascii "

  packet 
Inner {u8  a	,  }  root

    packet
P  {  repeat
Inner

items
    ,	u8	x
, }
")).
Eval vm_compute in ("<<<M1886>>>" ++ check (runes_of_ascii "

  packet
	A{ 
Inner

{ match

    k
as
    n {
    [

1 ]	:

    B , 
}
, }, }
")).
Eval vm_compute in ("<<<M991>>>" ++ check (runes_of_ascii "packet A {
    u32 crc @calculatedFrom(""%d%s""),
    @calculatedFrom(""%d%s"") u8 y,
}")).
Eval vm_compute in ("<<<M914>>>" ++ check (runes_of_ascii "packet A { Inner { match k as n { [1,22,007,4,5,66,7,8,9,10,11,12] : B, }, }, }")).
Eval vm_compute in ("<<<M369>>>" ++ check (runes_of_ascii "packet
_x { }
    root
    packet leftPad { }
options { Pad
=	string ; }
")).
Eval vm_compute in ("<<<M788>>>" ++ check (runes_of_ascii "packet A {
  match k as n {
    [""a"", ""bb"", ""c c""] : B
    2 : C
  },
}")).
Eval vm_compute in ("<<<M794>>>" ++ check (runes_of_ascii "packet A {
  match k as n {
    [1, 22, ""c c""] : B
    2 : C
  },
}")).
Eval vm_compute in ("<<<M781>>>" ++ check (runes_of_ascii "packet A {
  match k as n {
    [1, ""bb""] : B
    2 : C
  },
}")).
Eval vm_compute in ("<<<M1108>>>" ++ check (runes_of_ascii "packet A { // a
 @tag(1) u8 x, // b
 // c
 @tag(2) u8 y, }")).
Eval vm_compute in ("<<<M1097>>>" ++ check (runes_of_ascii "// a
MetaData M {} // b
// c
MetaData N {} // d
// e")).
Eval vm_compute in ("<<<M1864>>>" ++ check (runes_of_ascii "root packet P {
    repeat char cs,
    u8 x,
}")).
Eval vm_compute in ("<<<M963>>>" ++ check (runes_of_ascii "packet A {
    u8 x `100% of %s %d %v`,
}")).
Eval vm_compute in ("<<<M1193>>>" ++ check (runes_of_ascii "options { A = ""// no comment"" } // c
")).
Eval vm_compute in ("<<<M1111>>>" ++ check (runes_of_ascii "root // a
 packet // b
 A // c
 { }")).
Eval vm_compute in ("<<<M739>>>" ++ check ([65533; 8; 65533; 65533]%N ++ runes_of_ascii "_" ++ [18]%N ++ runes_of_ascii "%" ++ [65533]%N ++ runes_of_ascii "." ++ [65533; 65533; 65533; 6]%N ++ runes_of_ascii "AR" ++ [31; 65533]%N ++ runes_of_ascii "rNi" ++ [1450; 22]%N ++ runes_of_ascii "tL9" ++ [0; 65533]%N ++ runes_of_ascii "A" ++ [65533]%N ++ runes_of_ascii "/")).
Eval vm_compute in ("<<<M1531>>>" ++ check (runes_of_ascii "
root packet

a1
{}  // c
")).
Eval vm_compute in ("<<<M1601>>>" ++ check (runes_of_ascii "

  packet x { }

// c
 
")).
Eval vm_compute in ("<<<M767>>>" ++ check ([65533]%N ++ runes_of_ascii ">" ++ [65533; 3; 65533; 65533; 65533]%N ++ runes_of_ascii "z" ++ [29]%N ++ runes_of_ascii "(" ++ [646; 65533]%N ++ runes_of_ascii "5" ++ [65533]%N ++ runes_of_ascii "4_" ++ [65533; 15; 65533]%N ++ runes_of_ascii "i" ++ [65533; 65533]%N)).
Eval vm_compute in ("<<<M1498>>>" ++ check (runes_of_ascii "MetaData Packet {
}")).
Eval vm_compute in ("<<<M1071>>>" ++ check (runes_of_ascii "// c" ++ [65279]%N ++ runes_of_ascii "
packet A {
}")).
Eval vm_compute in ("<<<M1169>>>" ++ check (runes_of_ascii "packet x // c
{ }")).
Eval vm_compute in ("<<<M741>>>" ++ check (runes_of_ascii "u16 zchar {")).
Eval vm_compute in ("<<<M724>>>" ++ check (runes_of_ascii "
	 ")).
