From FP Require Import Lexer Parser ShowPT Digest Formatter.
From Coq Require Import String List NArith.
Import ListNotations.
Open Scope string_scope.
Set Printing Width 100000000.
Set Printing Depth 100000000.
Definition show_fres (r : fres) : string :=
  match r with
  | FOk s => "OK:" ++ sh_escaped s ""
  | FErr s => "ERR:" ++ sh_escaped s ""
  | FPanic p => "PANIC:" ++ p
  end.
Definition check (rs : list rune) : string := digest (show_fres (format_res rs)).
Definition full (rs : list rune) : string := show_fres (format_res rs).
Eval vm_compute in ("<<<M1339>>>" ++ check (runes_of_ascii "options { // c1a
  // c1b
FixedStringPadFromLeft // c2a
  // c2b
= // c3a
  // c3b
true // c4a
  // c4b
; // c5
FixedStringPadChar
    // c6
= // c7a
  // c7b
'0' ;
    // c9
} // c10a
  // c10b
packet // c11
Leg // c12a
  // c12b
{ InPrice0 // c14
{ // c15a
  // c15b
repeat
    // c16
string // c17
clOrdID // c18a
  // c18b
,
    // c19
int16 // c20
msgKind // c21a
  // c21b
, // c22a
  // c22b
zchar[ // c23
5
    // c24
] Px
    // c26
, // c27
}
    // c28
,
    // c29
i16 // c30
f1 // c31
,
    // c32
repeat // c33a
  // c33b
f64 // c34a
  // c34b
Side2
    // c35
, string
    // c37
Acct // c38
, }
    // c40
packet Cancel // c42
{ zchar[ // c44
4 ] // c46a
  // c46b
clOrdID // c47a
  // c47b
, // c48a
  // c48b
string // c49
seqNo // c50
, // c51a
  // c51b
Leg // c52
,
    // c53
@leftPad // c54a
  // c54b
( '0' // c56
)
    // c57
char[ 11
    // c59
]
    // c60
OrderId // c61
,
    // c62
} packet
    // c64
Quote // c65a
  // c65b
{ repeat
    // c67
char[ 4 // c69
] sym // c71
, // c72
f64 OrderId ,
    // c75
repeat
    // c76
Leg , // c78a
  // c78b
repeat i64 // c80
f1 // c81a
  // c81b
, // c82
int16
    // c83
Note
    // c84
, zchar[ 3 // c87a
  // c87b
] count
    // c89
, } // c91
root
    // c92
packet Ack { // c95a
  // c95b
@leftPad
    // c96
(
    // c97
' ' // c98a
  // c98b
) char[
    // c100
10
    // c101
] // c102a
  // c102b
sym // c103a
  // c103b
, // c104
InPx60 // c105
{ Cancel // c107a
  // c107b
, // c108
repeat char[ 1 // c111
] f1 // c113
, // c114a
  // c114b
string // c115
Tail ,
    // c117
repeat // c118a
  // c118b
InNote55
    // c119
{ // c120
int8 count
    // c122
,
    // c123
f64 // c124a
  // c124b
f1 // c125a
  // c125b
, repeat Cancel
    // c128
, // c129a
  // c129b
}
    // c130
,
    // c131
char[]
    // c132
tag7
    // c133
, repeat // c135a
  // c135b
string
    // c136
msgKind
    // c137
, } , // c140
u8
    // c141
lastPx ,
    // c143
match // c144
lastPx
    // c145
as // c146a
  // c146b
Body // c147
{
    // c148
152 : Quote , // c152a
  // c152b
173 // c153
: // c154a
  // c154b
Cancel
    // c155
, // c156a
  // c156b
4 : // c158a
  // c158b
Leg // c159a
  // c159b
, } // c161
, u16
    // c163
Ref // c164
@calculatedFrom(
    // c165
""CRC32""
    // c166
) // c167a
  // c167b
, // c168a
  // c168b
}
    // c169
")).
Eval vm_compute in ("<<<M213>>>" ++ check (runes_of_ascii "
packet body
{@tag(
    3 ) i16 options1 ,  repeat string
body ,
@calculatedFrom( // trailing space 
""a\""b""
) x_y_z @calculatedFrom(
""a\\"") `it's` , match o as BodyLength
{ 00
:
pack,
1 : u	,
[255,255,""// no comment"" ]
    : Packet	[ 65535 ] :  i64_ , }
// @lengthOf(
//
,// a // b
@calculatedFrom( // c
""" ++ [233]%N ++ runes_of_ascii "t" ++ [233]%N ++ runes_of_ascii """ ) string// `tick` ""quote"" 'q'
len `tab	here`,
    @tag( 0123456789
) repeat
    //	t
    matchKey A `a\`,
    i8i8 Packet , stringy @calculatedFrom( ""x y"" ) ,f32a As
`crlf
line` ,u128{ repeat
    int  {
    repeat
    zchar[255 ] a1`{ , }`
,
// a // b
// a // b
match calculatedFrom as body//	t
{
    0 // " ++ [27880; 37322]%N ++ runes_of_ascii "
:body	42
    // c
    :tag // @lengthOf(
, ""1""	:packetx , ""it's"":  roots,}, i32 u @calculatedFrom(// " ++ [128512]%N ++ runes_of_ascii " emoji
""a\\"" ) ,
}	,
string_`crlf
line`, _x  , repeat lengthOf crc ,	}, // " ++ [27880; 37322]%N ++ runes_of_ascii "
}
MetaData rootA {
uint8	tag , string	Z9_ `u8 x,` ,
    f64 float ,
    Logon
falsey`a\`
, } packet len{  char[] u	`// not a comment`, char[] Header
`// not a comment`	, string charz
// a // b
/// triple
`tab	here` ,
    //
    @leftPad
    // packet A { u8 x, }
    ( )@lengthOf(
a1)
// " ++ [128512]%N ++ runes_of_ascii " emoji
//x
len
crc, @leftPad ( ' ' )Packet @calculatedFrom(""" ++ [128512]%N ++ runes_of_ascii """ ) , repeat uint8 a1
, match
    T as As { ""packet"": Logon , [	""" ++ [128512]%N ++ runes_of_ascii """
    , 0 ]
: i64_ , [ ""packet"" , 7
    ]
    : string_ ,
} , repeat//
zchar[
007 ] zchar `{ , }` ,
    }
")).
Eval vm_compute in ("<<<M384>>>" ++ check (runes_of_ascii "options {
	StringPrefixLenType = u16;
	ArrayPrefixLenType = u16;
}

packet SampleBinary {
	uint16 MsgType `" ++ [28040; 24687; 31867; 22411]%N ++ runes_of_ascii "`,
	u16 BodyLenght @lengthOf(Body) `" ++ [28040; 24687; 20307; 38271; 24230]%N ++ runes_of_ascii "`,
	match MsgType as Body {
		1 : Logon,
		2 : Logout,
		3 : Heartbeat,
		4 : RiskControlRequest,
		5 : RiskControlResponse,
	},
		@calculatedFrom(""CRC32"")
	u32 Ckecksum `" ++ [26657; 39564; 21644]%N ++ runes_of_ascii "`,
}

packet Logon {
	 @leftPad('0')
	char[10] UserName `" ++ [29992; 25143; 21517]%N ++ runes_of_ascii "`,
	string Password `" ++ [23494; 30721]%N ++ runes_of_ascii "`,
	uint64 ClientId `" ++ [23458; 25143; 31471]%N ++ runes_of_ascii "ID`,
	u16 HeartbeatInterval `" ++ [24515; 36339; 38388; 38548]%N ++ runes_of_ascii "`,
}

packet Logout {
	  @rightPad('0')
	char[10] UserName `" ++ [29992; 25143; 21517]%N ++ runes_of_ascii "`,
	uint64 ClientId `" ++ [23458; 25143; 31471]%N ++ runes_of_ascii "ID`,
}

packet Heartbeat {
}

packet RiskControlRequest {
	string UniqueOrderId `" ++ [21807; 19968; 35746; 21333; 21495]%N ++ runes_of_ascii "`,
	char[16] ClOrdID `" ++ [23458; 25143; 35746; 21333; 21495]%N ++ runes_of_ascii "`,
	char[3] MarketID `" ++ [24066; 22330]%N ++ runes_of_ascii "id`,
	char[12] SecurityID `" ++ [35777; 21048; 20195; 30721]%N ++ runes_of_ascii "`,
	char Side `" ++ [20080; 21334; 26041; 21521]%N ++ runes_of_ascii "`,
	char OrderType `" ++ [35746; 21333; 31867; 22411]%N ++ runes_of_ascii "`,
	u64 Price `" ++ [20215; 26684]%N ++ runes_of_ascii "`,
	u32 Qty `" ++ [25968; 37327]%N ++ runes_of_ascii "`,
	repeat string ExtraInfo `" ++ [38468; 21152; 20449; 24687]%N ++ runes_of_ascii "`,
	repeat SubOrder {
			char[16] ClOrdID `" ++ [23376; 35746; 21333; 21495]%N ++ runes_of_ascii "`,
			u64 Price `" ++ [23376; 35746; 21333; 20215; 26684]%N ++ runes_of_ascii "`,
			u32 Qty `" ++ [23376; 35746; 21333; 25968; 37327]%N ++ runes_of_ascii "`,
		},
}

packet RiskControlResponse {
	string UniqueOrderId `" ++ [21807; 19968; 35746; 21333; 21495]%N ++ runes_of_ascii "`,
	i32 Status `" ++ [29366; 24577]%N ++ runes_of_ascii "`,
	string Msg `" ++ [32467; 26524; 20449; 24687]%N ++ runes_of_ascii "`,
	repeat Detail,
}

packet Detail {
	string RuleName `" ++ [35268; 21017; 21517; 31216]%N ++ runes_of_ascii "`,
	u16 Code `" ++ [21407; 22240; 20195; 30721]%N ++ runes_of_ascii "`,
}")).
Eval vm_compute in ("<<<M1333>>>" ++ check (runes_of_ascii "// top
options // c0
{ LittleEndian
    // c2
= // c3a
  // c3b
false // c4
; // c5a
  // c5b
StringPrefixLenType // c6
= // c7a
  // c7b
u8 ; ArrayPrefixLenType =
    // c11
u64 // c12
;
    // c13
FixedStringPadFromLeft
    // c14
= false ; // c17a
  // c17b
FixedStringPadChar = // c19a
  // c19b
' ' ;
    // c21
} // c22
packet Reject // c24a
  // c24b
{ repeat // c26
char[ // c27a
  // c27b
4 // c28
]
    // c29
seqNo , // c31
string // c32a
  // c32b
Px // c33a
  // c33b
, // c34
} root
    // c36
packet // c37
Trade
    // c38
{ // c39a
  // c39b
@rightPad // c40
(
    // c41
'0' ) // c43a
  // c43b
char[ // c44
2 // c45
] msgKind , // c48
repeat
    // c49
f64 // c50a
  // c50b
price
    // c51
, // c52
InAcct79 // c53
{
    // c54
repeat
    // c55
Reject , // c57a
  // c57b
zchar[ // c58
7 // c59a
  // c59b
] // c60a
  // c60b
OrderId // c61
,
    // c62
} // c63a
  // c63b
, Reject , } // c67a
  // c67b
")).
Eval vm_compute in ("<<<M1913>>>" ++ check (runes_of_ascii "options {
    // " ++ [27880; 37322]%N ++ runes_of_ascii "
    //x
    float = char[];
    Header = false
    //
    /// triple
}

// `tick` ""quote"" 'q'
options {
    x = char[];
}

MetaData i64_ {
    f64 As `
        `,
    repeatCount MetaDataX,
    repeatCount u128,
    metadata msg_type `tab	here`,
}

packet options1 {
    repeat char[0123456789] T,
    @tag(65535)
    //x
    @calculatedFrom(""CRC32"")
    @calculatedFrom(""" ++ [28040; 24687]%N ++ runes_of_ascii """)
    repeat string Logon,
    @lengthOf(u128)
    stringy {
        string_ x,
    },
    @tag(10)
    u64 tag @lengthOf(roots),
    Foo @lengthOf(Foo) `// not a comment`,
    string pack `a\`,
    match A as charz {
        [3] : x,
    },
    @tag(42)
    f64 msg_type @lengthOf(trueish),
    match pack as options1 {
        """ ++ [28040; 24687]%N ++ runes_of_ascii """ : string_,
        [65535, 7, ""a\""b"", 7] : f32a,
        4294967296 : o,
    },
    char[] falsey,
}// " ++ [128512]%N ++ runes_of_ascii " emoji")).
Eval vm_compute in ("<<<M1353>>>" ++ check (runes_of_ascii "options {
    StringPrefixLenType = u16;
    ArrayPrefixLenType = u32;
    FixedStringPadFromLeft = true;
    FixedStringPadChar = '0';
}
packet Cancel {
}
packet Party {
}
packet Logon {
}
packet Ack {
}
packet Logout {
    repeat InSym87 {
        InClordid94 {
            string clOrdID,
        },
        string Px,
        i16 Qty,
        repeat InCount71 {
            repeat Cancel,
            uint16 Tail,
            char[2] x,
            repeat string Ref,
        },
        Cancel,
    },
}
root packet Order {
    repeat string tag7,
    @leftPad(' ') char[3] Px,
    u8 Qty,
    match Qty as Body {
        [28, 62] : Logon,
        148 : Ack,
        88 : Party,
        184 : Cancel,
    },
    u16 Note @calculatedFrom(""CRC32""),
}
")).
Eval vm_compute in ("<<<M1360>>>" ++ check (runes_of_ascii "options {
    StringPrefixLenType = u8;
    ArrayPrefixLenType = u32;
    FixedStringPadFromLeft = true;
    FixedStringPadChar = ' ';
}
packet Leg {
}
packet Heartbeat {
    zchar[6] msgKind,
    @rightPad('0') char[3] Qty,
    zchar[9] Side2,
    i8 Acct,
}
packet Logout {
    int8 x,
}
packet Order {
    char[] Acct,
    zchar[8] count,
    u32 OrderId,
    uint8 lastPx,
    u16 clOrdID,
    zchar[7] Note,
}
root packet Reject {
    @leftPad(' ') char[8] Side2,
    i8 clOrdID,
    repeat f32 x,
    u32 lastPx,
    match lastPx as Body {
        [30, 147] : Heartbeat,
        134 : Leg,
        183 : Logout,
        40 : Order,
    },
    u16 Ref @calculatedFrom(""CRC32""),
}
")).
Eval vm_compute in ("<<<M247>>>" ++ check (runes_of_ascii "
options { leftPad // packet A { u8 x, }
= 0
;
    //
    Logon
    =
char // `tick` ""quote"" 'q'
i64_ = '\x00'
; }
options { crc =
i32	; matchKey =
255
    leftPad = ' ' ; metadata= 42// trailing space 
; packetx =10
    }
root packet//
A { @calculatedFrom( ""x y"" // c
)/// triple
zchar[ 00]
f32a, @tag(
255 )
    zchar[
0123456789 ]	a1
@lengthOf(As )`" ++ [28040; 24687; 31867; 22411]%N ++ runes_of_ascii "`
    /// triple
    , int16 body, // `tick` ""quote"" 'q'
uint64
x
@calculatedFrom(""1""
//	t
// " ++ [128512]%N ++ runes_of_ascii " emoji
) // packet A { u8 x, }
`line1
line2` ,@lengthOf( Logon )char[
    0// packet A { u8 x, }
]float@calculatedFrom(
""abc"" ) ,
} MetaData u128 { }
")).
Eval vm_compute in ("<<<M1121>>>" ++ check (runes_of_ascii "// top
root // c0
packet // c1
_x
    // c2
{ match
    // c4
Foo // c5
as // c6a
  // c6b
Z9_ {
    // c8
""a	b"" // c9a
  // c9b
: // c10
Pad // c11
,
    // c12
} , // c14
repeat // c15a
  // c15b
x `line1
line2`
    // c17
, // c18
@rightPad // c19a
  // c19b
(
    // c20
' ' // c21
) // c22
@calculatedFrom( ""a\\""
    // c24
) // c25a
  // c25b
metadata MetaDataX
    // c27
, @tag(
    // c29
0 ) // c31
Logon int
    // c33
``
    // c34
,
    // c35
} // c36
options // c37
{
    // c38
T // c39
= // c40a
  // c40b
'\x00' } // c42a
  // c42b
")).
Eval vm_compute in ("<<<M1861>>>" ++ check (runes_of_ascii "packet  /// triple
  matchKey {
	float32  float

    ,
@calculatedFrom(

""a\\""  // " ++ [27880; 37322]%N ++ runes_of_ascii "
    )
@rightPad

(	'\x00'
	)

    i16 
tag
    @calculatedFrom(""abc"" )
, repeat zchar[  255
]
    pack
	,

    @lengthOf(
	Z9_)
	tag
    ,

    }// trailing space 
root

    packet

    rootA
{ repeat

    metadata 
{
	Logon

    , }	,
@tag(10

)  @lengthOf( A	)
	@tag(  007)	u32 options1,  match float
as
u

{	0123456789
:u8x
	, 
}

    , } 	 // " ++ [27880; 37322]%N ++ runes_of_ascii "
    root  packet
lengthOf{ 
}

")).
Eval vm_compute in ("<<<M1297>>>" ++ check (runes_of_ascii "packet A { // c2a
  // c2b
u8
    // c3
a ,
    // c5
} // c6a
  // c6b
packet B // c8
{ // c9
u16
    // c10
b // c11
, // c12
} // c13a
  // c13b
root // c14a
  // c14b
packet // c15a
  // c15b
P
    // c16
{ u8 // c18a
  // c18b
K // c19
, match // c21
K // c22a
  // c22b
as // c23
M // c24
{ // c25a
  // c25b
1 : // c27a
  // c27b
A // c28a
  // c28b
,
    // c29
1
    // c30
: B
    // c32
,
    // c33
} // c34a
  // c34b
,
    // c35
} ")).
Eval vm_compute in ("<<<M1679>>>" ++ check (runes_of_ascii "options {
    As = zchar[4294967296];
}//	t

packet len {
    @lengthOf(_x)
    match lengthOf as string_ {
        [4294967296] : i64_,
        ""a	b"" : o,
    },
    leftPad @calculatedFrom(""`tick`""),
    @leftPad('\x00')
    repeat charz msg_type,
    repeat i8 Foo,
}

packet msg_type {
    //x
    // @lengthOf(
    @leftPad('0')
    u64 repeatCount @calculatedFrom(""" ++ [28040; 24687]%N ++ runes_of_ascii """),// packet A { u8 x, }
}")).
Eval vm_compute in ("<<<M1265>>>" ++ check (runes_of_ascii "// top
packet // c0
B // c1
{ // c2
u8 // c3
a , // c5a
  // c5b
} // c6
root // c7
packet P // c9a
  // c9b
{ // c10a
  // c10b
u8 // c11
K , // c13a
  // c13b
match K // c15a
  // c15b
as // c16a
  // c16b
Body { // c18
1 :
    // c20
B , }
    // c23
, // c24a
  // c24b
u16 // c25a
  // c25b
L // c26
@lengthOf( Body
    // c28
)
    // c29
,
    // c30
} ")).
Eval vm_compute in ("<<<M1765>>>" ++ check (runes_of_ascii "options {
    u = 7
    // " ++ [27880; 37322]%N ++ runes_of_ascii "
    roots = zchar[65535]
    msg_type = """ ++ [233]%N ++ runes_of_ascii "t" ++ [233]%N ++ runes_of_ascii """;
    x = false
}

MetaData string_ {
    char[42] i8i8 `" ++ [28040; 24687; 31867; 22411]%N ++ runes_of_ascii "`,
    u8 x_y_z,
    packetx lengthOf ``,
    T Header `line1
        line2`,
    char[] u8x `two words`,
}

packet float {
    calculatedFrom,
    @rightPad('0')
    char[3] u128,
}")).
Eval vm_compute in ("<<<M1381>>>" ++ check (runes_of_ascii "options
{

    LittleEndian= 
true; }  packet
Logon	{	u8	x 
,

string
	user
,}
	packet 
Logout 
{u16
    reason  ,

    }packet Empty

    { }
    root

packet
Frame
{
    u16
MsgType
,
    u8  BodyLen @lengthOf(Body )  ,
	u8
flags ,	Logon
Body ,
	u32 
trailer ,

    } ")).
Eval vm_compute in ("<<<M202>>>" ++ check (runes_of_ascii "packet Z9_
    { @calculatedFrom( ""packet"") char //
BodyLength , match chars as falsey {[65535,
    // c
    """ ++ [128512]%N ++ runes_of_ascii """ ,""" ++ [28040; 24687]%N ++ runes_of_ascii """ , ""`tick`""  , 10,
    ""a\\"" ,""a\""b"" // @lengthOf(
]: repeatCount , ""x y"" :chars , // " ++ [128512]%N ++ runes_of_ascii " emoji
65535
://x
calculatedFrom , } , }
")).
Eval vm_compute in ("<<<M1676>>>" ++ check (runes_of_ascii "// top
options {
    f32a = 0
}// c5

packet trueish {
    // c8
}

// c9
MetaData _x {
    char[0123456789] zchar,// c17a
    // c17b
    string crc,
    // c20
    char[1] options1,
    uint8 repeatCount,// c28
}// c29")).
Eval vm_compute in ("<<<M311>>>" ++ check (runes_of_ascii "MetaData
falsey { Header falsey
`
` , string Foo `" ++ [28040; 24687; 31867; 22411]%N ++ runes_of_ascii "`
    // `tick` ""quote"" 'q'
    ,falsey repeatCount , i8
u , }
packet A	{ match _x as T { 007: lengthOf// `tick` ""quote"" 'q'
}, } 	 ")).
Eval vm_compute in ("<<<M1836>>>" ++ check (runes_of_ascii "packet A {
    match k as n {
        [
            ""a"", 22, ""c c"", 4, ""e"",
            66, ""g"", 8, ""i"", 10,
            ""k"", 12
        ] : B,
        2 : C,
    },
}")).
Eval vm_compute in ("<<<M250>>>" ++ check (runes_of_ascii "MetaData // a // b
o {string Foo
    , }
MetaData  msg_type { Header len `" ++ [28040; 24687; 31867; 22411]%N ++ runes_of_ascii "`
,
    }
options
{ tag
= '0' ;
    o=
""CRC32"" ; Logon = ""`tick`"" ;// a // b
}")).
Eval vm_compute in ("<<<M413>>>" ++ check (runes_of_ascii "packet uint8x
{ match float32
    as msg_type	{
    0123456789 :	float
}
,
} packet //	t
a1
    { } options {packetx
    = '\x00'	; u128= ""a	b""  ; }
")).
Eval vm_compute in ("<<<M672>>>" ++ check (runes_of_ascii "// @lengthOf(
packet i8i8 { u128 o , }
options { MetaDataX = true;
    BodyLength =""packet"" x_y_z= 007
crc //x
= ""abc"" ;
    msg_type =
@leftpad i16 }")).
Eval vm_compute in ("<<<M457>>>" ++ check (runes_of_ascii "packet uint8x
{ match pack
    as msg_type	{
    0123456789 :	float
}
,
packet } //	t
a1
    { } options {packetx
    = '\x00'	; u128= ""a	b""  ; }
")).
Eval vm_compute in ("<<<M485>>>" ++ check (runes_of_ascii "packet uint8x
{ match pack
    as msg_type	{
    0123456789 :	float
}
,
} packet //	t
a1
    { } options packetx
    = '\x00'	; u128= ""a	b""  ; }
")).
Eval vm_compute in ("<<<M1663>>>" ++ check (runes_of_ascii "options {
    body = """ ++ [28040; 24687]%N ++ runes_of_ascii """
}

packet matchKey {
    string_ @lengthOf(f32a),
    int32 int @lengthOf(u128),
    tag x_y_z,
}

packet BodyLength {
}")).
Eval vm_compute in ("<<<M423>>>" ++ check (runes_of_ascii "packet uint8x
{ match pack
    as ,	{
    0123456789 :	float
}
,
} packet //	t
a1
    { } options {packetx
    = '\x00'	; u128= ""a	b""  ; }
")).
Eval vm_compute in ("<<<M1647>>>" ++ check (runes_of_ascii "
options

    {
	o=  '\x00'	// " ++ [128512]%N ++ runes_of_ascii " emoji
  ;
    T=	u32 ; 
msg_type  
      // `tick` ""quote"" 'q'

//
    = ""a	b""a1 =	'\x00'	}
	// " ++ [128512]%N ++ runes_of_ascii " emoji")).
Eval vm_compute in ("<<<M1298>>>" ++ check (runes_of_ascii "packet
A
{ 
u8 a,
}

packet
    B {

u16  b
,} 
root	packet	P
{ u8
K

,

    match	K

as M	{1
    :
A,

1	: 
B 
, }
,

    }

")).
Eval vm_compute in ("<<<M1541>>>" ++ check (runes_of_ascii "packet A {
    match k as n {
        [
            1, 22, ""c c"", 4, 5,
            ""f"", 7
        ] : B,
        2 : C,
    },
}")).
Eval vm_compute in ("<<<M1778>>>" ++ check (runes_of_ascii "//
packet
metadata	{ 
} 
MetaData

    chars
	    //x
	//	t
	{
char[42
    ]

leftPad `crlf
line`
    ,

    }

")).
Eval vm_compute in ("<<<M1165>>>" ++ check (runes_of_ascii "MetaData leftPad { chars MetaDataX , } packet repeatCount { char[ 255 // c
] uint8x `" ++ [233]%N ++ runes_of_ascii "` , } MetaData pack { As Foo , }")).
Eval vm_compute in ("<<<M938>>>" ++ check (runes_of_ascii "packet A {
    Inner {
        u8 x `a
    b
  c`,
        Deep {
            u8 y `a
    b
  c`,
        },
    },
}")).
Eval vm_compute in ("<<<M1909>>>" ++ check (runes_of_ascii "packet

    A
{ match
	k as n  {	[ ""a""
    ,
""bb""
    ,
	""c c""

,

""d""
]

    : B

    2

:
	C 
} , } ")).
Eval vm_compute in ("<<<M931>>>" ++ check (runes_of_ascii "packet A {
    u16 len @lengthOf(body) `
`,
    u32 crc @calculatedFrom(""CRC32"") `
`,
    string body,
}")).
Eval vm_compute in ("<<<M956>>>" ++ check (runes_of_ascii "packet A {
    Inner {
        u8 x `
x`,
        Deep {
            u8 y `
x`,
        },
    },
}")).
Eval vm_compute in ("<<<M199>>>" ++ check (runes_of_ascii "packet falsey { string a1 @lengthOf( packetx ) , }
packet	int { Header	@lengthOf( stringy)
, }")).
Eval vm_compute in ("<<<M1859>>>" ++ check (runes_of_ascii "packet u {
    repeat A,
    @lengthOf(lengthOf)
    repeat i64 i64_,//
    zchar[3] body,
}")).
Eval vm_compute in ("<<<M1675>>>" ++ check (runes_of_ascii "
packet
	A {

    Inner {match
    k

as

    n {

[	1  ]
    : 
B ,
    } ,
}
, }
")).
Eval vm_compute in ("<<<M622>>>" ++ check (runes_of_ascii "
packet
    asx {match u128 as lengthOf
{
//	t
// `tick` ""quote"" 'q'
255 : x ,
    } ,	")).
Eval vm_compute in ("<<<M1425>>>" ++ check (runes_of_ascii "packet A {
    match k as n {
        [1, 22, 007, 4, 5] : B,
        2 : C,
    },
}")).
Eval vm_compute in ("<<<M848>>>" ++ check (runes_of_ascii "packet A {
  match k as n {
    [1, 22, ""c c"", 4, 5, ""f"", 7] : B
    2 : C
  },
}")).
Eval vm_compute in ("<<<M1928>>>" ++ check (runes_of_ascii "

  packet  body

    {
    i32 f32a

`{ , }`

    ,
} options	// c

	{} ")).
Eval vm_compute in ("<<<M91>>>" ++ check (runes_of_ascii "packet
roots{ }	MetaData
    metadata{
asx matchKey ,
uint64
rootA , }")).
Eval vm_compute in ("<<<M795>>>" ++ check (runes_of_ascii "packet A {
  match k as n {
    [1, 22, ""c c""] : B,
    2 : C
  },
}")).
Eval vm_compute in ("<<<M155>>>" ++ check (runes_of_ascii "options
{calculatedFrom
= ""abc""
;float=i16
} // trailing space ")).
Eval vm_compute in ("<<<M1091>>>" ++ check (runes_of_ascii "packet A { @leftPad() char[4] x, @rightPad( ) zchar[2] y, }")).
Eval vm_compute in ("<<<M148>>>" ++ check (runes_of_ascii "options
{
    a1	=""packet""// a // b
; } // @lengthOf(")).
Eval vm_compute in ("<<<M1212>>>" ++ check (runes_of_ascii "packet body { i32 f32a `{ , }` ,
// c
} options { }")).
Eval vm_compute in ("<<<M927>>>" ++ check (runes_of_ascii "MetaData M {
    u8 x `a
b`,
    T t `a
b`,
}")).
Eval vm_compute in ("<<<M596>>>" ++ check (runes_of_ascii "
packet
    asx {match u128 as lengthOf
{")).
Eval vm_compute in ("<<<M1839>>>" ++ check (runes_of_ascii "

  packet

    int
{ }  
  //	t
 
")).
Eval vm_compute in ("<<<M179>>>" ++ check (runes_of_ascii "// `tick` ""quote"" 'q'
options {}")).
Eval vm_compute in ("<<<M993>>>" ++ check (runes_of_ascii "packet A {
 u8 x `d" ++ [133]%N ++ runes_of_ascii "`, // c" ++ [133]%N ++ runes_of_ascii "
}")).
Eval vm_compute in ("<<<M655>>>" ++ check (runes_of_ascii "// @lengthOf(
packet i8i8 {")).
Eval vm_compute in ("<<<M576>>>" ++ check (runes_of_ascii "
packet
    asx {match")).
Eval vm_compute in ("<<<M59>>>" ++ check (runes_of_ascii "packet
int {
}
//	t
")).
Eval vm_compute in ("<<<M278>>>" ++ check (runes_of_ascii "packet Packet { }
")).
Eval vm_compute in ("<<<M1052>>>" ++ check (runes_of_ascii "// c" ++ [65279]%N ++ runes_of_ascii "
packet A {
}")).
Eval vm_compute in ("<<<M1226>>>" ++ check (runes_of_ascii "packet // c
x { }")).
Eval vm_compute in ("<<<M740>>>" ++ check (runes_of_ascii ", = , ; int16")).
Eval vm_compute in ("<<<M1005>>>" ++ check (runes_of_ascii "// c" ++ [8202]%N)).
Eval vm_compute in ("<<<M734>>>" ++ check ([65279]%N)).
