From FP Require Import Lexer Parser ShowPT Digest Formatter.
From Coq Require Import String List NArith.
Import ListNotations.
Open Scope string_scope.
Set Printing Width 100000000.
Set Printing Depth 100000000.
Definition show_fres (r : fres) : string :=
  match r with
  | FOk s => "OK:" ++ sh_escaped s ""
  | FErr s => "ERR:" ++ sh_escaped s ""
  | FPanic p => "PANIC:" ++ p
  end.
Definition check (rs : list rune) : string := digest (show_fres (format_res rs)).
Definition full (rs : list rune) : string := show_fres (format_res rs).
Eval vm_compute in ("<<<M1342>>>" ++ check (runes_of_ascii "// top
options
    // c0
{
    // c1
FixedStringPadFromLeft // c2a
  // c2b
= // c3a
  // c3b
true // c4
; // c5
FixedStringPadChar = // c7a
  // c7b
'0' // c8
; } packet // c11
Leg { // c13
InPrice0 // c14a
  // c14b
{ // c15
repeat string
    // c17
clOrdID // c18a
  // c18b
,
    // c19
int16 // c20
msgKind ,
    // c22
zchar[
    // c23
5 // c24a
  // c24b
] // c25a
  // c25b
Px , }
    // c28
, // c29a
  // c29b
i16
    // c30
f1
    // c31
,
    // c32
repeat
    // c33
f64 Side2 // c35a
  // c35b
,
    // c36
string
    // c37
Acct , } // c40
packet
    // c41
Cancel {
    // c43
zchar[ // c44
4
    // c45
] // c46a
  // c46b
clOrdID // c47
,
    // c48
string seqNo , Leg // c52a
  // c52b
, // c53
@leftPad // c54a
  // c54b
(
    // c55
'0' // c56a
  // c56b
) char[ // c58a
  // c58b
11 // c59a
  // c59b
] OrderId // c61
, }
    // c63
packet // c64
Quote
    // c65
{
    // c66
repeat // c67a
  // c67b
char[ // c68a
  // c68b
4
    // c69
] // c70a
  // c70b
sym // c71a
  // c71b
,
    // c72
f64 // c73a
  // c73b
OrderId // c74
, repeat // c76
Leg , repeat
    // c79
i64
    // c80
f1 // c81a
  // c81b
, // c82
int16 Note // c84a
  // c84b
, zchar[ // c86a
  // c86b
3
    // c87
] count // c89
, } // c91
root packet // c93
Ack { // c95a
  // c95b
@leftPad // c96
( ' ' // c98
) // c99a
  // c99b
char[ 10 ] // c102a
  // c102b
sym , InPx60 // c105
{
    // c106
Cancel // c107a
  // c107b
, // c108a
  // c108b
repeat char[ // c110
1 ] // c112a
  // c112b
f1
    // c113
, // c114
string
    // c115
Tail , repeat // c118
InNote55
    // c119
{
    // c120
int8 // c121a
  // c121b
count // c122a
  // c122b
, // c123a
  // c123b
f64
    // c124
f1 // c125a
  // c125b
, // c126a
  // c126b
repeat
    // c127
Cancel
    // c128
,
    // c129
}
    // c130
, // c131
char[] // c132a
  // c132b
tag7 ,
    // c134
repeat
    // c135
string // c136
msgKind , // c138
} // c139a
  // c139b
, // c140a
  // c140b
u8
    // c141
lastPx , match // c144
lastPx // c145a
  // c145b
as Body // c147a
  // c147b
{ 152 : // c150
Quote ,
    // c152
173 : // c154
Cancel // c155
, // c156a
  // c156b
4 // c157
: // c158a
  // c158b
Leg
    // c159
,
    // c160
} // c161a
  // c161b
,
    // c162
u16 Ref @calculatedFrom( ""CRC32"" )
    // c167
, // c168a
  // c168b
}
    // c169
")).
Eval vm_compute in ("<<<M1330>>>" ++ check (runes_of_ascii "// top
packet // c0a
  // c0b
Frame // c1a
  // c1b
{ // c2a
  // c2b
u8 // c3
HK // c4
,
    // c5
u8
    // c6
BK // c7
, // c8a
  // c8b
u8 // c9
TK // c10
, // c11a
  // c11b
match // c12
HK as Hdr // c15a
  // c15b
{ // c16
1
    // c17
:
    // c18
HdrA , 2 // c21
:
    // c22
HdrB // c23
, // c24a
  // c24b
} ,
    // c26
match
    // c27
BK as
    // c29
Body // c30
{
    // c31
1 : // c33a
  // c33b
BodyA // c34
,
    // c35
2 :
    // c37
BodyB , } // c40a
  // c40b
, // c41
match // c42
TK
    // c43
as // c44
Trl // c45a
  // c45b
{ // c46a
  // c46b
1
    // c47
: // c48
TrlA , // c50a
  // c50b
} // c51a
  // c51b
, // c52a
  // c52b
} // c53a
  // c53b
packet HdrA // c55
{ u8 // c57
a // c58a
  // c58b
, // c59
} // c60
packet // c61a
  // c61b
HdrB
    // c62
{ // c63a
  // c63b
u16
    // c64
b // c65
, // c66
} // c67
packet // c68
BodyA { // c70a
  // c70b
u32
    // c71
c // c72
, } // c74
packet
    // c75
BodyB {
    // c77
u64 // c78a
  // c78b
d // c79
, // c80a
  // c80b
} // c81a
  // c81b
packet TrlA // c83a
  // c83b
{
    // c84
u8 e // c86
,
    // c87
} // c88a
  // c88b
root // c89a
  // c89b
packet
    // c90
Msg
    // c91
{ Frame , // c94a
  // c94b
u8 // c95a
  // c95b
x // c96a
  // c96b
, // c97a
  // c97b
}
    // c98
")).
Eval vm_compute in ("<<<M1644>>>" ++ check (runes_of_ascii "root packet metadata {
    @lengthOf(options1)
    int32 zchar @calculatedFrom(""// no comment"") `
    `,
    repeat calculatedFrom `it's`,//
    match BodyLength as lengthOf {
        3 : leftPad,
    },
    repeat u128,
    char[10] chars,// @lengthOf(
    falsey @calculatedFrom(""x y"") `{ , }`,
    @tag(42)
    float64 i64_,
    u8x @calculatedFrom(""{,}"") `two words`,
    @lengthOf(T)
    char[255] pack `it's`,
    match MetaDataX as i64_ {
        //
        """ ++ [28040; 24687]%N ++ runes_of_ascii """ : Header,
        0 : x_y_z,
        3 : int,
        ""abc"" : u8x,
    },
}

packet i64_ {
    @rightPad()
    /// triple
    pack {
        match MetaDataX as trueish {
            1 : len,
            00 : falsey,
            """" : x,
        },
    },
    @tag(1)
    char[] int @lengthOf(metadata),
    a1 @lengthOf(calculatedFrom),
    @tag(7)
    tag @lengthOf(u),
    BodyLength @calculatedFrom(""it's"") `say ""hi""`,
    string msg_type,
}

MetaData Logon {
    BodyLength _x `it's`,
    int32 body,
    // trailing space 
}

root packet body {
}")).
Eval vm_compute in ("<<<M1353>>>" ++ check (runes_of_ascii "options {
    StringPrefixLenType = u64;
    ArrayPrefixLenType = u32;
    FixedStringPadFromLeft = false;
}
packet Party {
    zchar[7] OrderId,
    InTail6 {
        repeat char[1] msgKind,
        char[3] Tail,
        char[3] Flags,
        i16 tag7,
    },
    @rightPad('0') char[12] clOrdID,
}
packet Quote {
    @leftPad('0') char[11] price,
    repeat InCount7 {
        i32 x,
        Party,
        u8 Ref,
        u8 tag7,
    },
    char[] seqNo,
    Party,
}
packet Logon {
    @rightPad('\x00') char[5] Note,
    i16 sym,
    InPrice72 {
        char[9] Ref,
        zchar[1] venue,
    },
    char[] clOrdID,
}
root packet Reject {
    repeat Logon,
    @leftPad(' ') char[4] seqNo,
    zchar[5] Acct,
    u32 x,
    u16 f1 @lengthOf(Body),
    match x as Body {
        [169, 74] : Quote,
        45 : Party,
        7 : Logon,
    },
}
")).
Eval vm_compute in ("<<<M1602>>>" ++ check (runes_of_ascii "
root packet  leftPad

{ 
@calculatedFrom(
""" ++ [128512]%N ++ runes_of_ascii """
)int64
len `{ , }`
,
} packet
u128 {	zchar[

65535
    ] chars

    @calculatedFrom(""\" ++ [233]%N ++ runes_of_ascii """
    ) ,
@lengthOf(int
    // packet A { u8 x, }
// @lengthOf(
)
i64_
	,
	crc
	{
    match Z9_ as  Logon{
	10 
:
    int ,

[ 0
	] 
: u8x

    , 

// trailing space 
    //x
    	42 : 
trueish ,	[ 
""\" ++ [233]%N ++ runes_of_ascii """ ,	4294967296
]
	:
	Z9_""\n""
	:

u128

    ,}
    ,
    repeat	string_

uint8x

,
	i8i8

    ,match
    u 
as
    body{
	4294967296  : 
        // " ++ [27880; 37322]%N ++ runes_of_ascii "
	/// triple

Z9_,  10
: Z9_ ,

[

    """ ++ [128512]%N ++ runes_of_ascii """ ,
""x y""

]
:
	pack ,  }
    , }

    ,
@tag(// " ++ [128512]%N ++ runes_of_ascii " emoji
	0123456789
	)  @lengthOf(

    calculatedFrom
    )	@leftPad(	'\x00'  // c
    ) 
zchar[
3  ]T	,	match A

    as  leftPad
{

[ """ ++ [28040; 24687]%N ++ runes_of_ascii """]	:
	i64_""// no comment"": string_ ,} , }	// trailing space 
")).
Eval vm_compute in ("<<<M219>>>" ++ check (runes_of_ascii "
packet
falsey{ // `tick` ""quote"" 'q'
repeat charz
    /// triple
    float // a // b
`tab	here`
    ,
char[]stringy  , Logon
    f32a,
    char[] string_/// triple
,
int16
_x
`` ,
    match/// triple
crc as stringy { ""abc"" :Pad
    [ ""\n"" , 10, 4294967296, 0123456789 , ""abc"" ,	""" ++ [28040; 24687]%N ++ runes_of_ascii """
    ] :
i8i8 , 10 :
    //x
    Header , 10:// c
calculatedFrom
    , 0123456789: charz
10
    :
    repeatCount} ,
    leftPad @lengthOf(
u8x )  , @lengthOf(a1) repeat x body ,
} MetaData
string_
{ float64  f32a	, zchar[
255] T, u32 trueish, BodyLength roots
`two words` , }
// " ++ [128512]%N ++ runes_of_ascii " emoji
//	t
packet stringy{ zchar[
    255
    ]Foo ,
}
MetaData
leftPad {
    } //
options { x //x
=
true
    ;
zchar = """" } //")).
Eval vm_compute in ("<<<M1801>>>" ++ check (runes_of_ascii "MetaData packetx {
    zchar[7] leftPad `// not a comment`,
}

packet i64_ {
    @calculatedFrom("""")
    // trailing space 
    // c
    @lengthOf(x_y_z)
    @tag(00)
    repeatCount @calculatedFrom(""1""),
}

packet falsey {
    int16 _x @calculatedFrom(""it's""),
}// @lengthOf(

root packet matchKey {
    repeat u32 Pad `" ++ [233]%N ++ runes_of_ascii "`,
    zchar[7] leftPad,
    match chars as lengthOf {
        1 : o,
        42 : chars,
    },
    repeat zchar[255] a1,
    matchKey Packet,
    f32 tag,
    // @lengthOf(
    // trailing space 
    @calculatedFrom(""a\""b"")
    @leftPad(' ')
    @lengthOf(T)
    stringy @lengthOf(o),
    packetx i64_,
}
/// triple")).
Eval vm_compute in ("<<<M1239>>>" ++ check (runes_of_ascii "// top
options // c0
{ // c1a
  // c1b
zchar // c2
= // c3a
  // c3b
true // c4
; Pad // c6a
  // c6b
=
    // c7
char[ 00 // c9a
  // c9b
]
    // c10
a1 = // c12a
  // c12b
uint32 // c13a
  // c13b
BodyLength = true // c16a
  // c16b
;
    // c17
} root // c19
packet // c20
T // c21a
  // c21b
{
    // c22
@lengthOf( // c23a
  // c23b
repeatCount ) @tag( // c26a
  // c26b
1
    // c27
) // c28a
  // c28b
@calculatedFrom( // c29
""a	b"" // c30a
  // c30b
) // c31a
  // c31b
string // c32
stringy @calculatedFrom( ""\n"" ) // c36
`u8 x,` // c37a
  // c37b
, // c38
} // c39
")).
Eval vm_compute in ("<<<M1685>>>" ++ check (runes_of_ascii "options {
    leftPad = 0;
    //
    Logon = char// `tick` ""quote"" 'q'
    i64_ = '\x00';
}

options {
    crc = i32;
    matchKey = 255
    leftPad = ' ';
    metadata = 42;
    packetx = 10
}

root packet A {
    @calculatedFrom(""x y"")
    /// triple
    zchar[00] f32a,
    @tag(255)
    zchar[0123456789] a1 @lengthOf(As) `" ++ [28040; 24687; 31867; 22411]%N ++ runes_of_ascii "`,
    int16 body,// `tick` ""quote"" 'q'
    uint64 x @calculatedFrom(""1"") `line1
        line2`,
    @lengthOf(Logon)
    char[0] float @calculatedFrom(""abc""),
}

MetaData u128 {
}")).
Eval vm_compute in ("<<<M133>>>" ++ check (runes_of_ascii "MetaData  falsey
{ } root packet // `tick` ""quote"" 'q'
o {@tag(3// " ++ [128512]%N ++ runes_of_ascii " emoji
) @calculatedFrom( """") @lengthOf(
    pack)char[ 65535
    ]falsey
    @lengthOf(falsey ) , }  root packet roots
    {@lengthOf(
chars )match Logon as chars{ ""`tick`"" :charz
    // packet A { u8 x, }
    ""a\\"" :Z9_ 007 : trueish ""CRC32"" :	msg_type , [
3
    ,3 // `tick` ""quote"" 'q'
,
00 ,4294967296 ,
0
,7 , //
""x y"",""\" ++ [233]%N ++ runes_of_ascii """
    //	t
    ] : metadata ,""a	b""
//x
// " ++ [27880; 37322]%N ++ runes_of_ascii "
:	crc } , }
")).
Eval vm_compute in ("<<<M1140>>>" ++ check (runes_of_ascii "// top
MetaData
    // c0
leftPad // c1
{
    // c2
chars // c3a
  // c3b
MetaDataX // c4
, // c5a
  // c5b
} packet // c7a
  // c7b
repeatCount // c8
{ char[
    // c10
255 // c11a
  // c11b
] // c12a
  // c12b
uint8x
    // c13
`" ++ [233]%N ++ runes_of_ascii "` // c14a
  // c14b
,
    // c15
} // c16a
  // c16b
MetaData // c17a
  // c17b
pack // c18
{ // c19a
  // c19b
As // c20a
  // c20b
Foo
    // c21
,
    // c22
} // c23a
  // c23b
")).
Eval vm_compute in ("<<<M1807>>>" ++ check (runes_of_ascii "packet leftPad {
    @tag(10)
    @tag(007)
    @lengthOf(a1)
    // a // b
    //
    repeat metadata,
}// " ++ [128512]%N ++ runes_of_ascii " emoji

options {
    lengthOf = """ ++ [128512]%N ++ runes_of_ascii """;
}

packet T {
    A {
        //
        // `tick` ""quote"" 'q'
        tag @calculatedFrom(""abc""),
    },
    @lengthOf(matchKey)
    string Header @lengthOf(metadata),
    leftPad @calculatedFrom(""a\""b"") `crlf
        line`,
}")).
Eval vm_compute in ("<<<M1234>>>" ++ check (runes_of_ascii "// top
options // c0
{ // c1
f32a // c2
= // c3
0 // c4
} // c5
packet // c6
trueish // c7
{ // c8
} // c9
MetaData // c10
_x // c11
{ // c12
char[ // c13
0123456789 // c14
] // c15
zchar // c16
, // c17
string // c18
crc // c19
, // c20
char[ // c21
1 // c22
] // c23
options1 // c24
, // c25
uint8 // c26
repeatCount // c27
, // c28
} // c29
")).
Eval vm_compute in ("<<<M240>>>" ++ check (runes_of_ascii "
packet BodyLength { repeatCount // packet A { u8 x, }
`// not a comment`
,
@lengthOf( lengthOf	)  @tag( 65535
    )@rightPad (
// @lengthOf(
//	t
'0' )/// triple
u8 Logon , } packet chars { o msg_type , @tag( 10)zchar[ 65535
] f32a
,repeat char[]
i64_
`
` ,} root packet f32a { @tag( 255 )repeat u8 stringy, }
")).
Eval vm_compute in ("<<<M287>>>" ++ check (runes_of_ascii "root // trailing space 
packet int {
    f32a @calculatedFrom(""packet"" )
    `
`
    , } options
{
    rootA
    // @lengthOf(
    =
""\" ++ [233]%N ++ runes_of_ascii """; }
    packet
i8i8 {
    // trailing space 
    uint8
    uint8x
    @lengthOf( string_ ) //	t
, i32 tag //	t
@lengthOf(
Logon )  , }")).
Eval vm_compute in ("<<<M361>>>" ++ check (runes_of_ascii "MetaData BodyLength { uint16 leftPad `" ++ [233]%N ++ runes_of_ascii "` // a // b
, uint8x asx,
    len lengthOf `// not a comment` ,
string uint8x `doc`
, }options {i8i8 = 0
lengthOf =
    0123456789 ; } packet uint8x { @lengthOf(
pack ) float64
u8x@lengthOf(asx //x
)
, }
")).
Eval vm_compute in ("<<<M1858>>>" ++ check (runes_of_ascii "packet matchKey {
    // @lengthOf(
    @lengthOf(a1)
    string_ T `" ++ [28040; 24687; 31867; 22411]%N ++ runes_of_ascii "`,//
}

packet body {
    f32 _x,
    packetx @lengthOf(options1) ``,
    @leftPad(' ')
    i16 crc,
    @calculatedFrom(""" ++ [128512]%N ++ runes_of_ascii """)
    Pad,
}//")).
Eval vm_compute in ("<<<M1332>>>" ++ check (runes_of_ascii "packet u128 {
    u8 a,
}
root packet Msg {
    u8 k,
    u24 {
        u8 Hi,
        u16 Lo,
    },
    repeat i24 {
        u32 q,
    },
    u128,
    u16 float32x,
    string s,
}
")).
Eval vm_compute in ("<<<M1435>>>" ++ check (runes_of_ascii "// top
packet Inner {
    // c2
    u8 a,
    // c5
}// c6

root packet P {
    // c10a
    // c10b
    repeat Inner items,// c14
    u8 x,// c17a
    // c17b
}// c18")).
Eval vm_compute in ("<<<M392>>>" ++ check (runes_of_ascii "packet packet uint8x
{ match pack
    as msg_type	{
    0123456789 :	float
}
,
} packet //	t
a1
    { } options {packetx
    = '\x00'	; u128= ""a	b""  ; }
")).
Eval vm_compute in ("<<<M552>>>" ++ check (runes_of_ascii "packet uint8x
{ match pack
    as msg_type	{
    0123456789 :	float
}
,
} packet //	t
na" ++ [239]%N ++ runes_of_ascii "ve
    { } options {packetx
    = '\x00'	; u128= ""a	b""  ; }
")).
Eval vm_compute in ("<<<M539>>>" ++ check (runes_of_ascii "packet uint8x
{ match pack
    as msg_type	{
    0123456789 :	float
}
,
} p" ++ [8232]%N ++ runes_of_ascii "acket //	t
a1
    { } options {packetx
    = '\x00'	; u128= ""a	b""  ; }
")).
Eval vm_compute in ("<<<M492>>>" ++ check (runes_of_ascii "packet uint8x
{ match pack
    as msg_type	{
    0123456789 :	float
}
,
} packet //	t
a1
    { } options {=
    packetx '\x00'	; u128= ""a	b""  ; }
")).
Eval vm_compute in ("<<<M1749>>>" ++ check (runes_of_ascii "packet A {
    match k as n {
        [
            ""a"", ""bb"", 007, ""d"", ""e"",
            66, ""g"", ""h"", 9, ""j""
        ] : B,
        2 : C,
    },
}")).
Eval vm_compute in ("<<<M670>>>" ++ check (runes_of_ascii "// @lengthOf(
packet i8i8 { u128 o , }
options { MetaDataX = true;
    BodyLength =""packet"" x_y_z= 007
crc //x
= ""abc"" ;
    msg_type = =
i16 }")).
Eval vm_compute in ("<<<M679>>>" ++ check (runes_of_ascii "// @lengthOf(
packet { i8i8 u128 o , }
options { MetaDataX = true;
    BodyLength =""packet"" x_y_z= 007
crc //x
= ""abc"" ;
    msg_type =
i16 }")).
Eval vm_compute in ("<<<M669>>>" ++ check (runes_of_ascii "// @lengthOf(
packet i8i8 {  o , }
options { MetaDataX = true;
    BodyLength =""packet"" x_y_z= 007
crc //x
= ""abc"" ;
    msg_type =
i16 }")).
Eval vm_compute in ("<<<M1957>>>" ++ check (runes_of_ascii "MetaData leftPad  {chars MetaDataX,
}  packet
repeatCount { char[
	255 ]uint8x

    `" ++ [233]%N ++ runes_of_ascii "` , } MetaData  // c
    pack {
As	Foo ,
	}
")).
Eval vm_compute in ("<<<M1492>>>" ++ check (runes_of_ascii "
packet

    A

    {	match k
    as n
{	[	""a""
, ""bb""
	,007	, ""d""
    , ""e""
,  66	,""g""

,
""h""
,
9
    ]	: 
B
2
:C} 
,
}
")).
Eval vm_compute in ("<<<M1142>>>" ++ check (runes_of_ascii "
// c
MetaData leftPad { chars MetaDataX , } packet repeatCount { char[ 255 ] uint8x `" ++ [233]%N ++ runes_of_ascii "` , } MetaData pack { As Foo , }")).
Eval vm_compute in ("<<<M1166>>>" ++ check (runes_of_ascii "MetaData leftPad { chars MetaDataX , } packet repeatCount { char[ 255
// c
] uint8x `" ++ [233]%N ++ runes_of_ascii "` , } MetaData pack { As Foo , }")).
Eval vm_compute in ("<<<M907>>>" ++ check (runes_of_ascii "packet A {
  match k as n {
    [""a"", ""bb"", ""c c"", ""d"", ""e"", ""f"", ""g"", ""h"", ""i"", ""j"", ""k"", ""l""] : B
    2 : C
  },
}")).
Eval vm_compute in ("<<<M910>>>" ++ check (runes_of_ascii "packet A {
  match k as n {
    [""a"", 22, ""c c"", 4, ""e"", 66, ""g"", 8, ""i"", 10, ""k"", 12] : B,
    2 : C
  },
}")).
Eval vm_compute in ("<<<M912>>>" ++ check (runes_of_ascii "packet A {
  match k as n {
    [1, 22, ""c c"", 4, 5, ""f"", 7, 8, ""i"", 10, 11, ""l""] : B,
    2 : C
  },
}")).
Eval vm_compute in ("<<<M620>>>" ++ check (runes_of_ascii "
packet
    asx {match u128 as lengthOf
{
//	t
// `tick` ""quote"" 'q'
255 : x ,
    } @lengthOf(	}")).
Eval vm_compute in ("<<<M573>>>" ++ check (runes_of_ascii "
packet
    asx {match u128 u128 as lengthOf
{
//	t
// `tick` ""quote"" 'q'
255 : x ,
    } ,	}")).
Eval vm_compute in ("<<<M474>>>" ++ check (runes_of_ascii "packet uint8x
{ match pack
    as msg_type	{
    0123456789 :	float
}
,
} packet //	t
a1")).
Eval vm_compute in ("<<<M858>>>" ++ check (runes_of_ascii "packet A {
  match k as n {
    [""a"", 22, ""c c"", 4, ""e"", 66, ""g"", 8] : B,
    2 : C
  },
}")).
Eval vm_compute in ("<<<M607>>>" ++ check (runes_of_ascii "
packet
    asx {match u128 as lengthOf
{
//	t
// `tick` ""quote"" 'q'
255 : x 
    } ,	}")).
Eval vm_compute in ("<<<M969>>>" ++ check (runes_of_ascii "packet A {
    u32 crc @calculatedFrom(""x\
y""),
    @calculatedFrom(""x\
y"") u8 y,
}")).
Eval vm_compute in ("<<<M748>>>" ++ check (runes_of_ascii "options match @lengthOf( options char[] zchar[ MetaData f32 f64 u16 ""{,}"" `doc` (")).
Eval vm_compute in ("<<<M835>>>" ++ check (runes_of_ascii "packet A {
  match k as n {
    [1, 22, ""c c"", 4, 5, ""f""] : B
    2 : C
  },
}")).
Eval vm_compute in ("<<<M67>>>" ++ check (runes_of_ascii "options { charz =""1"" _x= """ ++ [128512]%N ++ runes_of_ascii """ u = string ; stringy=
""" ++ [28040; 24687]%N ++ runes_of_ascii """ }
// @lengthOf(
")).
Eval vm_compute in ("<<<M800>>>" ++ check (runes_of_ascii "packet A {
  match k as n {
    [1, 22, 007, 4] : B,
    2 : C
  },
}")).
Eval vm_compute in ("<<<M838>>>" ++ check (runes_of_ascii "packet A { Inner { match k as n { [1,22,007,4,5,66] : B, }, }, }")).
Eval vm_compute in ("<<<M779>>>" ++ check (runes_of_ascii "packet A {
  match k as n {
    [1, 22] : B
    2 : C
  },
}")).
Eval vm_compute in ("<<<M760>>>" ++ check (runes_of_ascii "MetaData @rightPad 3 i32 int32 ; int8 body ""a	b"" `" ++ [28040; 24687; 31867; 22411]%N ++ runes_of_ascii "`")).
Eval vm_compute in ("<<<M1206>>>" ++ check (runes_of_ascii "packet body { i32
// c
f32a `{ , }` , } options { }")).
Eval vm_compute in ("<<<M347>>>" ++ check (runes_of_ascii "packet As{
/// triple
// packet A { u8 x, }
}

")).
Eval vm_compute in ("<<<M965>>>" ++ check (runes_of_ascii "options {
    a = ""x\
y"";
    b = ""x\
y""
}")).
Eval vm_compute in ("<<<M274>>>" ++ check (runes_of_ascii "packet Z9_
{ }
    packet Pad { } 	 ")).
Eval vm_compute in ("<<<M1736>>>" ++ check (runes_of_ascii "packet A {
    @tag(1)
    u8 x,
}")).
Eval vm_compute in ("<<<M36>>>" ++ check (runes_of_ascii "// c
packet asx  {} /// triple")).
Eval vm_compute in ("<<<M270>>>" ++ check (runes_of_ascii "  root packet msg_type
{
}
")).
Eval vm_compute in ("<<<M1507>>>" ++ check (runes_of_ascii "// c" ++ [8287]%N ++ runes_of_ascii "
    packet

A
{  }")).
Eval vm_compute in ("<<<M1103>>>" ++ check (runes_of_ascii "// c
MetaData tag { }")).
Eval vm_compute in ("<<<M1483>>>" ++ check (runes_of_ascii "packet

    o {}
")).
Eval vm_compute in ("<<<M1037>>>" ++ check (runes_of_ascii "// c" ++ [12]%N ++ runes_of_ascii "
packet A {
}")).
Eval vm_compute in ("<<<M1034>>>" ++ check (runes_of_ascii "packet A {
}// c" ++ [12]%N)).
Eval vm_compute in ("<<<M99>>>" ++ check (runes_of_ascii "
 // " ++ [128512]%N ++ runes_of_ascii " emoji")).
Eval vm_compute in ("<<<M980>>>" ++ check (runes_of_ascii "// c" ++ [12288]%N)).
Eval vm_compute in ("<<<M745>>>" ++ check ([65533]%N ++ runes_of_ascii "1")).
