From FP Require Import Lexer Parser ShowPT Digest.
From Coq Require Import String List NArith.
Import ListNotations.
Open Scope string_scope.
Set Printing Width 100000000.
Set Printing Depth 100000000.
Definition nl : string := String (Ascii.ascii_of_nat 10) EmptyString.
Definition model_lex (rs : list rune) : string := show_toks (lex rs).
Definition model_parse (rs : list rune) : string :=
  show_pt (match lex rs with Some ts => parse ts | None => None end).
(* coqc is slow at printing long strings: digests first (Digest.v), full texts on demand *)
Definition check (rs : list rune) : string :=
  digest (model_lex rs) ++ " " ++ digest (model_parse rs).
Definition full (rs : list rune) : string := model_lex rs ++ nl ++ model_parse rs.
Definition terms (ts : list tok) (t : pt) : string :=
  digest (show_toks (Some ts)) ++ " " ++ digest (show_pt (Some t)) ++ " " ++ digest (show_pt (parse ts)).
Definition terms_full (ts : list tok) (t : pt) : string :=
  show_toks (Some ts) ++ nl ++ show_pt (Some t) ++ nl ++ show_pt (parse ts).
Eval vm_compute in ("<<<M3>>>" ++ check (runes_of_ascii "options
    { u
    = ' ' } packet crc
    { @rightPad // @lengthOf(
() u	u`tab	here` , } //x")).
Eval vm_compute in ("<<<M13>>>" ++ check (runes_of_ascii "options
{ matchKey= ""x y"";len =
'\x00' }
")).
Eval vm_compute in ("<<<T13>>>" ++ terms [mkTok 1 "options" 1 0 false; mkTok 2 "{" 2 0 false; mkTok 42 "matchKey" 2 2 false; mkTok 4 "=" 2 10 false; mkTok 31 """x y""" 2 12 false; mkTok 41 ";" 2 17 false; mkTok 42 "len" 2 18 false; mkTok 4 "=" 2 22 false; mkTok 33 "'\x00'" 3 0 false; mkTok 3 "}" 3 7 false; mkTok 0 "<EOF>" 4 0 false] (mkPacket (mkPtok 1 "options" 1 0 0) (Some (mkPtok 3 "}" 3 7 9)) [(DOption (mkOptionDef (mkSpan (mkPtok 1 "options" 1 0 0) (mkPtok 3 "}" 3 7 9)) (mkPtok 1 "options" 1 0 0) (mkPtok 2 "{" 2 0 1) [(mkOptionDecl (mkSpan (mkPtok 42 "matchKey" 2 2 2) (mkPtok 41 ";" 2 17 5)) (mkPtok 42 "matchKey" 2 2 2) (mkPtok 4 "=" 2 10 3) (VString (mkSpan (mkPtok 31 """x y""" 2 12 4) (mkPtok 31 """x y""" 2 12 4)) (mkPtok 31 """x y""" 2 12 4)) (Some (mkPtok 41 ";" 2 17 5))); (mkOptionDecl (mkSpan (mkPtok 42 "len" 2 18 6) (mkPtok 33 "'\x00'" 3 0 8)) (mkPtok 42 "len" 2 18 6) (mkPtok 4 "=" 2 22 7) (VPaddingChar (mkSpan (mkPtok 33 "'\x00'" 3 0 8) (mkPtok 33 "'\x00'" 3 0 8)) (mkPtok 33 "'\x00'" 3 0 8)) None)] (mkPtok 3 "}" 3 7 9)))])).
Eval vm_compute in ("<<<M23>>>" ++ check (runes_of_ascii "root packet x_y_z
{ int32 lengthOf
    `line1
line2` , }packet
    T{ u16  i64_	, } packet
Z9_ { repeat string//
trueish // `tick` ""quote"" 'q'
`doc`,
} options
/// triple
// 50% %s
{repeatCount
    ='0' //	t
;charz  =
    i16
; tag= ""packet""}

")).
Eval vm_compute in ("<<<M33>>>" ++ check (runes_of_ascii "root packet MetaDataX { } packet  uint8x
{crc @calculatedFrom( ""a	b"") `it's` , repeat
    string
zchar `" ++ [233]%N ++ runes_of_ascii "`
    // a // b
    ,
    match
lengthOf as u { """"
// c
// `tick` ""quote"" 'q'
: zchar ,
}, @tag(  3 ) repeat  string f32a `it's` ,}
")).
Eval vm_compute in ("<<<M43>>>" ++ check (runes_of_ascii "
packet body{ @lengthOf(  zchar
)
f32
    i8i8 , uint8x zchar `u8 x,` ,/// triple
}packet pack
{ @lengthOf( u ) /// triple
char[]
    charz// a // b
@lengthOf(
    o) , f32a @calculatedFrom( ""packet"") ,@lengthOf( metadata
    )repeat int32 repeatCount
    ,@leftPad(
'\x00' ) char[] chars	@lengthOf( roots )
, @calculatedFrom(""\n"" ) matchKey
    //	t
    ,
    }
packet
u8x { @calculatedFrom( ""{,}"" )uint8 string_ @lengthOf( trueish ) , Header {  char[] lengthOf
`u8 x,` , }
    // " ++ [128512]%N ++ runes_of_ascii " emoji
    ,// 50% %s
i16 u `say ""hi""`	, }
// " ++ [27880; 37322]%N ++ runes_of_ascii "
")).
Eval vm_compute in ("<<<M53>>>" ++ check (runes_of_ascii "root
packet
len { int16//	t
falsey @lengthOf( _x
)	, } // " ++ [128512]%N ++ runes_of_ascii " emoji")).
Eval vm_compute in ("<<<M63>>>" ++ check (runes_of_ascii "
MetaData trueish { len packetx
`" ++ [28040; 24687; 31867; 22411]%N ++ runes_of_ascii "` , lengthOf len
// a // b
// trailing space 
,zchar[
7
    ]	T
`{ , }` , string_ // packet A { u8 x, }
f32a , len Z9_
`` , f64 options1 ,}	options
    {	u8x=
    string// 50% %s
;}")).
Eval vm_compute in ("<<<M73>>>" ++ check (runes_of_ascii "packet // packet A { u8 x, }
uint8x {
calculatedFrom
    {
repeat
options1{ char[42 ] packetx ,	len {
repeat	_x `
` , int8 rootA // 50% %s
@calculatedFrom(  ""abc"") `" ++ [28040; 24687; 31867; 22411]%N ++ runes_of_ascii "`, MetaDataX // trailing space 
@calculatedFrom( ""\n"" )
    `
`
    , match
leftPad
as zchar {
[
""// no comment""
//
// " ++ [27880; 37322]%N ++ runes_of_ascii "
,0	, """ ++ [128512]%N ++ runes_of_ascii """ ,/// triple
""" ++ [28040; 24687]%N ++ runes_of_ascii """ ] : MetaDataX ,
[ """"] :  stringy ,42
: calculatedFrom ,  65535
: options1
    /// triple
    ,
//	t
// " ++ [128512]%N ++ runes_of_ascii " emoji
} ,
},	f32 MetaDataX ,//x
} , lengthOf
    Foo , } , @rightPad (
' '
) //
char[]options1 @calculatedFrom( ""a\""b"" ) , // 50% %s
@rightPad
(' '
) @tag(	00)  match matchKey
    as	msg_type { [ ""1"" ] : tag} , zchar[ 00 ]  a1 @lengthOf(asx )
``
    ,
char[ 007 ]
    A
    , //	t
Pad
, @leftPad ( // @lengthOf(
'\x00' ) @calculatedFrom( ""a\\"" )
@calculatedFrom( ""{,}"" )  repeat	trueish {
MetaDataX@lengthOf(zchar ) ,
} ,
}
")).
Eval vm_compute in ("<<<M83>>>" ++ check (runes_of_ascii "options
    {f32a	= zchar[ 65535 ]	;
//	t
// trailing space 
Logon
    = // `tick` ""quote"" 'q'
""1"" x_y_z /// triple
=65535 u=
    ""// no comment""
    ; A = ""a\\""
; } //	t
root packet BodyLength { match	crc
as charz { """ ++ [128512]%N ++ runes_of_ascii """ : matchKey, 0123456789 :
T, ""it's"" // " ++ [27880; 37322]%N ++ runes_of_ascii "
: f32a,
7
// `tick` ""quote"" 'q'
// a // b
: body , [ 7 ]  : x_y_z, }
,  }
    MetaData
    string_ { len metadata `line1
line2` ,
    f64 calculatedFrom ,x_y_z x
, char[ 0123456789] Header  , }
")).
Eval vm_compute in ("<<<T83>>>" ++ terms [mkTok 1 "options" 1 0 false; mkTok 2 "{" 2 4 false; mkTok 42 "f32a" 2 5 false; mkTok 4 "=" 2 10 false; mkTok 14 "zchar[" 2 12 false; mkTok 30 "65535" 2 19 false; mkTok 13 "]" 2 25 false; mkTok 41 ";" 2 27 false; mkTok 44 (string_of_bytes [47; 47; 9; 116]%N) 3 0 true; mkTok 44 "// trailing space " 4 0 true; mkTok 42 "Logon" 5 0 false; mkTok 4 "=" 6 4 false; mkTok 44 "// `tick` ""quote"" 'q'" 6 6 true; mkTok 31 """1""" 7 0 false; mkTok 42 "x_y_z" 7 4 false; mkTok 44 "/// triple" 7 10 true; mkTok 4 "=" 8 0 false; mkTok 30 "65535" 8 1 false; mkTok 42 "u" 8 7 false; mkTok 4 "=" 8 8 false; mkTok 31 """// no comment""" 9 4 false; mkTok 41 ";" 10 4 false; mkTok 42 "A" 10 6 false; mkTok 4 "=" 10 8 false; mkTok 31 """a\\""" 10 10 false; mkTok 41 ";" 11 0 false; mkTok 3 "}" 11 2 false; mkTok 44 (string_of_bytes [47; 47; 9; 116]%N) 11 4 true; mkTok 34 "root" 12 0 false; mkTok 35 "packet" 12 5 false; mkTok 42 "BodyLength" 12 12 false; mkTok 2 "{" 12 23 false; mkTok 38 "match" 12 25 false; mkTok 42 "crc" 12 31 false; mkTok 17 "as" 13 0 false; mkTok 42 "charz" 13 3 false; mkTok 2 "{" 13 9 false; mkTok 31 (string_of_bytes [34; 240; 159; 152; 128; 34]%N) 13 11 false; mkTok 39 ":" 13 15 false; mkTok 42 "matchKey" 13 17 false; mkTok 40 "," 13 25 false; mkTok 30 "0123456789" 13 27 false; mkTok 39 ":" 13 38 false; mkTok 42 "T" 14 0 false; mkTok 40 "," 14 1 false; mkTok 31 """it's""" 14 3 false; mkTok 44 (string_of_bytes [47; 47; 32; 230; 179; 168; 233; 135; 138]%N) 14 10 true; mkTok 39 ":" 15 0 false; mkTok 42 "f32a" 15 2 false; mkTok 40 "," 15 6 false; mkTok 30 "7" 16 0 false; mkTok 44 "// `tick` ""quote"" 'q'" 17 0 true; mkTok 44 "// a // b" 18 0 true; mkTok 39 ":" 19 0 false; mkTok 42 "body" 19 2 false; mkTok 40 "," 19 7 false; mkTok 18 "[" 19 9 false; mkTok 30 "7" 19 11 false; mkTok 13 "]" 19 13 false; mkTok 39 ":" 19 16 false; mkTok 42 "x_y_z" 19 18 false; mkTok 40 "," 19 23 false; mkTok 3 "}" 19 25 false; mkTok 40 "," 20 0 false; mkTok 3 "}" 20 3 false; mkTok 37 "MetaData" 21 4 false; mkTok 42 "string_" 22 4 false; mkTok 2 "{" 22 12 false; mkTok 42 "len" 22 14 false; mkTok 42 "metadata" 22 18 false; mkTok 43 (string_of_bytes [96; 108; 105; 110; 101; 49; 10; 108; 105; 110; 101; 50; 96]%N) 22 27 false; mkTok 40 "," 23 7 false; mkTok 29 "f64" 24 4 false; mkTok 42 "calculatedFrom" 24 8 false; mkTok 40 "," 24 23 false; mkTok 42 "x_y_z" 24 24 false; mkTok 42 "x" 24 30 false; mkTok 40 "," 25 0 false; mkTok 12 "char[" 25 2 false; mkTok 30 "0123456789" 25 8 false; mkTok 13 "]" 25 18 false; mkTok 42 "Header" 25 20 false; mkTok 40 "," 25 28 false; mkTok 3 "}" 25 30 false; mkTok 0 "<EOF>" 26 0 false] (mkPacket (mkPtok 1 "options" 1 0 0) (Some (mkPtok 3 "}" 25 30 83)) [(DOption (mkOptionDef (mkSpan (mkPtok 1 "options" 1 0 0) (mkPtok 3 "}" 11 2 26)) (mkPtok 1 "options" 1 0 0) (mkPtok 2 "{" 2 4 1) [(mkOptionDecl (mkSpan (mkPtok 42 "f32a" 2 5 2) (mkPtok 41 ";" 2 27 7)) (mkPtok 42 "f32a" 2 5 2) (mkPtok 4 "=" 2 10 3) (VType (mkSpan (mkPtok 14 "zchar[" 2 12 4) (mkPtok 13 "]" 2 25 6)) (TyFixed (mkSpan (mkPtok 14 "zchar[" 2 12 4) (mkPtok 13 "]" 2 25 6)) (mkFixedString (mkSpan (mkPtok 14 "zchar[" 2 12 4) (mkPtok 13 "]" 2 25 6)) (mkPtok 14 "zchar[" 2 12 4) (mkPtok 30 "65535" 2 19 5) (mkPtok 13 "]" 2 25 6)))) (Some (mkPtok 41 ";" 2 27 7))); (mkOptionDecl (mkSpan (mkPtok 42 "Logon" 5 0 10) (mkPtok 31 """1""" 7 0 13)) (mkPtok 42 "Logon" 5 0 10) (mkPtok 4 "=" 6 4 11) (VString (mkSpan (mkPtok 31 """1""" 7 0 13) (mkPtok 31 """1""" 7 0 13)) (mkPtok 31 """1""" 7 0 13)) None); (mkOptionDecl (mkSpan (mkPtok 42 "x_y_z" 7 4 14) (mkPtok 30 "65535" 8 1 17)) (mkPtok 42 "x_y_z" 7 4 14) (mkPtok 4 "=" 8 0 16) (VDigits (mkSpan (mkPtok 30 "65535" 8 1 17) (mkPtok 30 "65535" 8 1 17)) (mkPtok 30 "65535" 8 1 17)) None); (mkOptionDecl (mkSpan (mkPtok 42 "u" 8 7 18) (mkPtok 41 ";" 10 4 21)) (mkPtok 42 "u" 8 7 18) (mkPtok 4 "=" 8 8 19) (VString (mkSpan (mkPtok 31 """// no comment""" 9 4 20) (mkPtok 31 """// no comment""" 9 4 20)) (mkPtok 31 """// no comment""" 9 4 20)) (Some (mkPtok 41 ";" 10 4 21))); (mkOptionDecl (mkSpan (mkPtok 42 "A" 10 6 22) (mkPtok 41 ";" 11 0 25)) (mkPtok 42 "A" 10 6 22) (mkPtok 4 "=" 10 8 23) (VString (mkSpan (mkPtok 31 """a\\""" 10 10 24) (mkPtok 31 """a\\""" 10 10 24)) (mkPtok 31 """a\\""" 10 10 24)) (Some (mkPtok 41 ";" 11 0 25)))] (mkPtok 3 "}" 11 2 26))); (DPacket (mkPacketDef (mkSpan (mkPtok 34 "root" 12 0 28) (mkPtok 3 "}" 20 3 64)) (Some (mkPtok 34 "root" 12 0 28)) (mkPtok 35 "packet" 12 5 29) (mkPtok 42 "BodyLength" 12 12 30) (mkPtok 2 "{" 12 23 31) [(mkFieldWithAttr (mkSpan (mkPtok 38 "match" 12 25 32) (mkPtok 40 "," 20 0 63)) [] (MatchField (mkSpan (mkPtok 38 "match" 12 25 32) (mkPtok 40 "," 20 0 63)) (mkMatchFieldDecl (mkSpan (mkPtok 38 "match" 12 25 32) (mkPtok 3 "}" 19 25 62)) (mkPtok 38 "match" 12 25 32) (mkPtok 42 "crc" 12 31 33) (mkPtok 17 "as" 13 0 34) (mkPtok 42 "charz" 13 3 35) (mkPtok 2 "{" 13 9 36) [(mkMatchPair (mkSpan (mkPtok 31 (string_of_bytes [34; 240; 159; 152; 128; 34]%N) 13 11 37) (mkPtok 40 "," 13 25 40)) (MKString (mkPtok 31 (string_of_bytes [34; 240; 159; 152; 128; 34]%N) 13 11 37)) (mkPtok 39 ":" 13 15 38) (mkPtok 42 "matchKey" 13 17 39) (Some (mkPtok 40 "," 13 25 40))); (mkMatchPair (mkSpan (mkPtok 30 "0123456789" 13 27 41) (mkPtok 40 "," 14 1 44)) (MKDigits (mkPtok 30 "0123456789" 13 27 41)) (mkPtok 39 ":" 13 38 42) (mkPtok 42 "T" 14 0 43) (Some (mkPtok 40 "," 14 1 44))); (mkMatchPair (mkSpan (mkPtok 31 """it's""" 14 3 45) (mkPtok 40 "," 15 6 49)) (MKString (mkPtok 31 """it's""" 14 3 45)) (mkPtok 39 ":" 15 0 47) (mkPtok 42 "f32a" 15 2 48) (Some (mkPtok 40 "," 15 6 49))); (mkMatchPair (mkSpan (mkPtok 30 "7" 16 0 50) (mkPtok 40 "," 19 7 55)) (MKDigits (mkPtok 30 "7" 16 0 50)) (mkPtok 39 ":" 19 0 53) (mkPtok 42 "body" 19 2 54) (Some (mkPtok 40 "," 19 7 55))); (mkMatchPair (mkSpan (mkPtok 18 "[" 19 9 56) (mkPtok 40 "," 19 23 61)) (MKList (mkKeyList (mkSpan (mkPtok 18 "[" 19 9 56) (mkPtok 13 "]" 19 13 58)) (mkPtok 18 "[" 19 9 56) (mkPtok 30 "7" 19 11 57) [] (mkPtok 13 "]" 19 13 58))) (mkPtok 39 ":" 19 16 59) (mkPtok 42 "x_y_z" 19 18 60) (Some (mkPtok 40 "," 19 23 61)))] (mkPtok 3 "}" 19 25 62)) (mkPtok 40 "," 20 0 63)))] (mkPtok 3 "}" 20 3 64))); (DMeta (mkMetaDef (mkSpan (mkPtok 37 "MetaData" 21 4 65) (mkPtok 3 "}" 25 30 83)) (mkPtok 37 "MetaData" 21 4 65) (mkPtok 42 "string_" 22 4 66) (mkPtok 2 "{" 22 12 67) [(MIRef (mkRefMetaDecl (mkSpan (mkPtok 42 "len" 22 14 68) (mkPtok 40 "," 23 7 71)) (mkPtok 42 "len" 22 14 68) (mkPtok 42 "metadata" 22 18 69) (Some (mkPtok 43 (string_of_bytes [96; 108; 105; 110; 101; 49; 10; 108; 105; 110; 101; 50; 96]%N) 22 27 70)) (mkPtok 40 "," 23 7 71))); (MIDecl (mkMetaDecl (mkSpan (mkPtok 29 "f64" 24 4 72) (mkPtok 40 "," 24 23 74)) (TyBasic (mkSpan (mkPtok 29 "f64" 24 4 72) (mkPtok 29 "f64" 24 4 72)) (mkBasicType (mkSpan (mkPtok 29 "f64" 24 4 72) (mkPtok 29 "f64" 24 4 72)) (mkPtok 29 "f64" 24 4 72))) (mkPtok 42 "calculatedFrom" 24 8 73) None (mkPtok 40 "," 24 23 74))); (MIRef (mkRefMetaDecl (mkSpan (mkPtok 42 "x_y_z" 24 24 75) (mkPtok 40 "," 25 0 77)) (mkPtok 42 "x_y_z" 24 24 75) (mkPtok 42 "x" 24 30 76) None (mkPtok 40 "," 25 0 77))); (MIDecl (mkMetaDecl (mkSpan (mkPtok 12 "char[" 25 2 78) (mkPtok 40 "," 25 28 82)) (TyFixed (mkSpan (mkPtok 12 "char[" 25 2 78) (mkPtok 13 "]" 25 18 80)) (mkFixedString (mkSpan (mkPtok 12 "char[" 25 2 78) (mkPtok 13 "]" 25 18 80)) (mkPtok 12 "char[" 25 2 78) (mkPtok 30 "0123456789" 25 8 79) (mkPtok 13 "]" 25 18 80))) (mkPtok 42 "Header" 25 20 81) None (mkPtok 40 "," 25 28 82)))] (mkPtok 3 "}" 25 30 83)))])).
Eval vm_compute in ("<<<M93>>>" ++ check (runes_of_ascii "// c
root /// triple
packet Pad
    {
    }
")).
Eval vm_compute in ("<<<M103>>>" ++ check (runes_of_ascii "packet body
    { zchar[ 4294967296 ] uint8x
@lengthOf(
leftPad )
,
@tag( 1	) // " ++ [128512]%N ++ runes_of_ascii " emoji
@tag( 3 ) match i8i8	as string_ { [
""a	b"" ,""1"", 4294967296
    ,	007 , ""a\\""	, 3	]
:
string_ , } , @lengthOf(
    //	t
    Foo)match a1 as
    Pad { 00 :trueish
, [
65535 ,
    0  , ""1"" , ""it's"" ] : uint8x
    ""CRC32"": A ,  } , u16 matchKey ,o@calculatedFrom(  """ ++ [28040; 24687]%N ++ runes_of_ascii """	), a1 { repeat // packet A { u8 x, }
i64_ ,} ,}
")).
Eval vm_compute in ("<<<M113>>>" ++ check (runes_of_ascii "options {
body ='\x00' u128 =
    i16 ; float = // packet A { u8 x, }
zchar[
65535 ]
; Z9_ =
""// no comment"" trueish
=// packet A { u8 x, }
false } // packet A { u8 x, }")).
Eval vm_compute in ("<<<M123>>>" ++ check (runes_of_ascii "packet stringy { @lengthOf(
chars) char calculatedFrom
,
repeat u8x
    calculatedFrom`two words` ,	@leftPad ( '\x00') repeat Packet
    {match Packet as	rootA
{
42 : repeatCount
, // " ++ [128512]%N ++ runes_of_ascii " emoji
""CRC32"" // packet A { u8 x, }
: Pad 65535: // trailing space 
Header, [ // `tick` ""quote"" 'q'
""// no comment"" ,	007  ]// packet A { u8 x, }
: Z9_, 00	:body
    // " ++ [128512]%N ++ runes_of_ascii " emoji
    , [ ""// no comment"" ,
    //
    """ ++ [28040; 24687]%N ++ runes_of_ascii """
    , 1
    , // a // b
42 ,""it's""] :	metadata, }
    ,zchar[
    1
    ] asx@calculatedFrom( ""// no comment"" ) , zchar[ 10 ] u8x
,
}, repeat char[ // " ++ [27880; 37322]%N ++ runes_of_ascii "
0 ] // `tick` ""quote"" 'q'
falsey,} 	 ")).
Eval vm_compute in ("<<<M133>>>" ++ check (runes_of_ascii "root packet //
metadata// " ++ [27880; 37322]%N ++ runes_of_ascii "
{// 50% %s
@calculatedFrom( ""1""
    ) repeat
    i16 body ,
// @lengthOf(
// c
@calculatedFrom( // 50% %s
""a	b""// 50% %s
)
    char roots `{ , }`	, repeat zchar[10 ]
    pack// a // b
`doc` ,
} //")).
Eval vm_compute in ("<<<M143>>>" ++ check (runes_of_ascii "root  packet
options1
{repeat Foo { T@lengthOf( leftPad)`two words`
    // a // b
    ,
    // packet A { u8 x, }
    A,Z9_ x`tab	here` , chars
    `a\`,
},@calculatedFrom( ""{,}"" ) // a // b
float32
    // @lengthOf(
    T `{ , }`,
    @lengthOf(
crc )
    char[ 10  ]
    float //	t
, repeat	char[] rootA
    , As
`it's` ,
i16 zchar `" ++ [233]%N ++ runes_of_ascii "` , }packet a1 { @tag( 4294967296) Header { char[] msg_type@calculatedFrom(
    """ ++ [128512]%N ++ runes_of_ascii """	) `` , } /// triple
, char[ 1 ]x, @leftPad (
'0'
    )int64 trueish
, }")).
Eval vm_compute in ("<<<M153>>>" ++ check (runes_of_ascii "options { options1
    =
    // packet A { u8 x, }
    float64
    leftPad =
true ; MetaDataX
=char[ 00 ] ;roots=false } packet string_{ }
")).
Eval vm_compute in ("<<<T153>>>" ++ terms [mkTok 1 "options" 1 0 false; mkTok 2 "{" 1 8 false; mkTok 42 "options1" 1 10 false; mkTok 4 "=" 2 4 false; mkTok 44 "// packet A { u8 x, }" 3 4 true; mkTok 29 "float64" 4 4 false; mkTok 42 "leftPad" 5 4 false; mkTok 4 "=" 5 12 false; mkTok 10 "true" 6 0 false; mkTok 41 ";" 6 5 false; mkTok 42 "MetaDataX" 6 7 false; mkTok 4 "=" 7 0 false; mkTok 12 "char[" 7 1 false; mkTok 30 "00" 7 7 false; mkTok 13 "]" 7 10 false; mkTok 41 ";" 7 12 false; mkTok 42 "roots" 7 13 false; mkTok 4 "=" 7 18 false; mkTok 11 "false" 7 19 false; mkTok 3 "}" 7 25 false; mkTok 35 "packet" 7 27 false; mkTok 42 "string_" 7 34 false; mkTok 2 "{" 7 41 false; mkTok 3 "}" 7 43 false; mkTok 0 "<EOF>" 8 0 false] (mkPacket (mkPtok 1 "options" 1 0 0) (Some (mkPtok 3 "}" 7 43 23)) [(DOption (mkOptionDef (mkSpan (mkPtok 1 "options" 1 0 0) (mkPtok 3 "}" 7 25 19)) (mkPtok 1 "options" 1 0 0) (mkPtok 2 "{" 1 8 1) [(mkOptionDecl (mkSpan (mkPtok 42 "options1" 1 10 2) (mkPtok 29 "float64" 4 4 5)) (mkPtok 42 "options1" 1 10 2) (mkPtok 4 "=" 2 4 3) (VType (mkSpan (mkPtok 29 "float64" 4 4 5) (mkPtok 29 "float64" 4 4 5)) (TyBasic (mkSpan (mkPtok 29 "float64" 4 4 5) (mkPtok 29 "float64" 4 4 5)) (mkBasicType (mkSpan (mkPtok 29 "float64" 4 4 5) (mkPtok 29 "float64" 4 4 5)) (mkPtok 29 "float64" 4 4 5)))) None); (mkOptionDecl (mkSpan (mkPtok 42 "leftPad" 5 4 6) (mkPtok 41 ";" 6 5 9)) (mkPtok 42 "leftPad" 5 4 6) (mkPtok 4 "=" 5 12 7) (VTrue (mkSpan (mkPtok 10 "true" 6 0 8) (mkPtok 10 "true" 6 0 8)) (mkPtok 10 "true" 6 0 8)) (Some (mkPtok 41 ";" 6 5 9))); (mkOptionDecl (mkSpan (mkPtok 42 "MetaDataX" 6 7 10) (mkPtok 41 ";" 7 12 15)) (mkPtok 42 "MetaDataX" 6 7 10) (mkPtok 4 "=" 7 0 11) (VType (mkSpan (mkPtok 12 "char[" 7 1 12) (mkPtok 13 "]" 7 10 14)) (TyFixed (mkSpan (mkPtok 12 "char[" 7 1 12) (mkPtok 13 "]" 7 10 14)) (mkFixedString (mkSpan (mkPtok 12 "char[" 7 1 12) (mkPtok 13 "]" 7 10 14)) (mkPtok 12 "char[" 7 1 12) (mkPtok 30 "00" 7 7 13) (mkPtok 13 "]" 7 10 14)))) (Some (mkPtok 41 ";" 7 12 15))); (mkOptionDecl (mkSpan (mkPtok 42 "roots" 7 13 16) (mkPtok 11 "false" 7 19 18)) (mkPtok 42 "roots" 7 13 16) (mkPtok 4 "=" 7 18 17) (VFalse (mkSpan (mkPtok 11 "false" 7 19 18) (mkPtok 11 "false" 7 19 18)) (mkPtok 11 "false" 7 19 18)) None)] (mkPtok 3 "}" 7 25 19))); (DPacket (mkPacketDef (mkSpan (mkPtok 35 "packet" 7 27 20) (mkPtok 3 "}" 7 43 23)) None (mkPtok 35 "packet" 7 27 20) (mkPtok 42 "string_" 7 34 21) (mkPtok 2 "{" 7 41 22) [] (mkPtok 3 "}" 7 43 23)))])).
Eval vm_compute in ("<<<M163>>>" ++ check (runes_of_ascii "MetaData A // a // b
{
    uint32 T
`doc` , uint32 BodyLength `{ , }`
    ,
    Foo f32a, i32 falsey , }
    root	packet _x {
repeat float32 pack  `doc`
// packet A { u8 x, }
// packet A { u8 x, }
,	char[ // @lengthOf(
3 ] float //
`` , match x as int{ ""`tick`"" :string_ ,}, repeat
repeatCount // `tick` ""quote"" 'q'
asx`say ""hi""` ,
zchar[
    10]roots, // 50% %s
}
")).
Eval vm_compute in ("<<<M173>>>" ++ check (@nil rune)).
Eval vm_compute in ("<<<M183>>>" ++ check (runes_of_ascii "options {	metadata =false
// packet A { u8 x, }
// 50% %s
options1 = f64 a1	= char[]
    options1 =  zchar[	7 ]
// @lengthOf(
// trailing space 
; } options{ string_ =7
    // `tick` ""quote"" 'q'
    ;
MetaDataX =
    ""a	b""
int=
false ; }")).
Eval vm_compute in ("<<<M193>>>" ++ check (runes_of_ascii "
MetaData lengthOf
    { zchar[ 007
    ] u8x `u8 x,` // packet A { u8 x, }
,	char[ 0123456789 ]
Logon `{ , }`
    ,
//
//
f64 o  `{ , }`
, char[
007 //	t
]	tag, char stringy// c
`100% of %d` ,
Pad uint8x
    ,}
/// triple
")).
Eval vm_compute in ("<<<M203>>>" ++ check (runes_of_ascii "packet  u128  {
repeat
string float `100% of %d`
    , @tag( 1
) @tag( // " ++ [27880; 37322]%N ++ runes_of_ascii "
007	)
    match pack as i8i8
{  ""CRC32"" //	t
:
trueish 0123456789	: _x ,[00 ,""" ++ [128512]%N ++ runes_of_ascii """, /// triple
255 , 255
]	: // trailing space 
uint8x
    ,[  ""`tick`""	] :trueish , 7  :
    i8i8 } , Logon
, @calculatedFrom(""1"" // packet A { u8 x, }
) zchar[ 0123456789 ]
/// triple
// trailing space 
trueish @calculatedFrom(""1""// " ++ [128512]%N ++ runes_of_ascii " emoji
) `u8 x,`	, @leftPad ( )@tag(	7) char[
// trailing space 
//	t
0123456789] BodyLength
//x
// 50% %s
@calculatedFrom( ""abc"" /// triple
)
    ,	T/// triple
a1 ,}packet
Packet {  }
")).
Eval vm_compute in ("<<<M213>>>" ++ check (runes_of_ascii "  MetaData
    int { }
options{	u8x = 10 }
")).
Eval vm_compute in ("<<<M223>>>" ++ check (runes_of_ascii "MetaData
float { uint8 Foo
    , zchar[1 ] asx `{ , }`  ,a1 lengthOf , falsey pack `u8 x,` ,
// " ++ [27880; 37322]%N ++ runes_of_ascii "
// packet A { u8 x, }
metadata Packet ,falsey // packet A { u8 x, }
pack ,
    }")).
Eval vm_compute in ("<<<T223>>>" ++ terms [mkTok 37 "MetaData" 1 0 false; mkTok 42 "float" 2 0 false; mkTok 2 "{" 2 6 false; mkTok 20 "uint8" 2 8 false; mkTok 42 "Foo" 2 14 false; mkTok 40 "," 3 4 false; mkTok 14 "zchar[" 3 6 false; mkTok 30 "1" 3 12 false; mkTok 13 "]" 3 14 false; mkTok 42 "asx" 3 16 false; mkTok 43 "`{ , }`" 3 20 false; mkTok 40 "," 3 29 false; mkTok 42 "a1" 3 30 false; mkTok 42 "lengthOf" 3 33 false; mkTok 40 "," 3 42 false; mkTok 42 "falsey" 3 44 false; mkTok 42 "pack" 3 51 false; mkTok 43 "`u8 x,`" 3 56 false; mkTok 40 "," 3 64 false; mkTok 44 (string_of_bytes [47; 47; 32; 230; 179; 168; 233; 135; 138]%N) 4 0 true; mkTok 44 "// packet A { u8 x, }" 5 0 true; mkTok 42 "metadata" 6 0 false; mkTok 42 "Packet" 6 9 false; mkTok 40 "," 6 16 false; mkTok 42 "falsey" 6 17 false; mkTok 44 "// packet A { u8 x, }" 6 24 true; mkTok 42 "pack" 7 0 false; mkTok 40 "," 7 5 false; mkTok 3 "}" 8 4 false; mkTok 0 "<EOF>" 8 5 false] (mkPacket (mkPtok 37 "MetaData" 1 0 0) (Some (mkPtok 3 "}" 8 4 28)) [(DMeta (mkMetaDef (mkSpan (mkPtok 37 "MetaData" 1 0 0) (mkPtok 3 "}" 8 4 28)) (mkPtok 37 "MetaData" 1 0 0) (mkPtok 42 "float" 2 0 1) (mkPtok 2 "{" 2 6 2) [(MIDecl (mkMetaDecl (mkSpan (mkPtok 20 "uint8" 2 8 3) (mkPtok 40 "," 3 4 5)) (TyBasic (mkSpan (mkPtok 20 "uint8" 2 8 3) (mkPtok 20 "uint8" 2 8 3)) (mkBasicType (mkSpan (mkPtok 20 "uint8" 2 8 3) (mkPtok 20 "uint8" 2 8 3)) (mkPtok 20 "uint8" 2 8 3))) (mkPtok 42 "Foo" 2 14 4) None (mkPtok 40 "," 3 4 5))); (MIDecl (mkMetaDecl (mkSpan (mkPtok 14 "zchar[" 3 6 6) (mkPtok 40 "," 3 29 11)) (TyFixed (mkSpan (mkPtok 14 "zchar[" 3 6 6) (mkPtok 13 "]" 3 14 8)) (mkFixedString (mkSpan (mkPtok 14 "zchar[" 3 6 6) (mkPtok 13 "]" 3 14 8)) (mkPtok 14 "zchar[" 3 6 6) (mkPtok 30 "1" 3 12 7) (mkPtok 13 "]" 3 14 8))) (mkPtok 42 "asx" 3 16 9) (Some (mkPtok 43 "`{ , }`" 3 20 10)) (mkPtok 40 "," 3 29 11))); (MIRef (mkRefMetaDecl (mkSpan (mkPtok 42 "a1" 3 30 12) (mkPtok 40 "," 3 42 14)) (mkPtok 42 "a1" 3 30 12) (mkPtok 42 "lengthOf" 3 33 13) None (mkPtok 40 "," 3 42 14))); (MIRef (mkRefMetaDecl (mkSpan (mkPtok 42 "falsey" 3 44 15) (mkPtok 40 "," 3 64 18)) (mkPtok 42 "falsey" 3 44 15) (mkPtok 42 "pack" 3 51 16) (Some (mkPtok 43 "`u8 x,`" 3 56 17)) (mkPtok 40 "," 3 64 18))); (MIRef (mkRefMetaDecl (mkSpan (mkPtok 42 "metadata" 6 0 21) (mkPtok 40 "," 6 16 23)) (mkPtok 42 "metadata" 6 0 21) (mkPtok 42 "Packet" 6 9 22) None (mkPtok 40 "," 6 16 23))); (MIRef (mkRefMetaDecl (mkSpan (mkPtok 42 "falsey" 6 17 24) (mkPtok 40 "," 7 5 27)) (mkPtok 42 "falsey" 6 17 24) (mkPtok 42 "pack" 7 0 26) None (mkPtok 40 "," 7 5 27)))] (mkPtok 3 "}" 8 4 28)))])).
Eval vm_compute in ("<<<M233>>>" ++ check (runes_of_ascii "
options
    // @lengthOf(
    { } options {  } packet asx {@calculatedFrom(""a\\"") repeat int32
len	, @calculatedFrom( ""{,}"" ) @lengthOf( zchar
    // @lengthOf(
    ) match repeatCount	as f32a {
    0123456789
: msg_type, // " ++ [27880; 37322]%N ++ runes_of_ascii "
4294967296 : pack  , }	, @tag(
    65535
    //x
    )falsey metadata ,match msg_type as pack
    {[0 ,
    7
    ] :
    f32a,
    // 50% %s
    },
match Foo as Foo
// 50% %s
// a // b
{
4294967296:options1 , } , }
packet uint8x	{@rightPad( '0' )
string A @lengthOf( leftPad)/// triple
`
` , } packet
    rootA {  }
")).
Eval vm_compute in ("<<<M243>>>" ++ check (runes_of_ascii "packet
stringy
{ @lengthOf( string_
)matchKey
    @lengthOf( float
)
, @leftPad
(  '0' ) match i8i8 as x
    {[65535 , 10 , 4294967296] : repeatCount,""// no comment"" : // 50% %s
stringy ,
} , }MetaData repeatCount { u32 metadata, } MetaData	crc {
repeatCount f32a ``
    , }")).
Eval vm_compute in ("<<<M253>>>" ++ check (runes_of_ascii "packet calculatedFrom { @leftPad	( /// triple
'\x00') match asx as
x  { 0 :T
,}, roots Pad
, @lengthOf( o) packetx { BodyLength { f64 charz ,
// c
//x
Packet  , repeat A {
Header , } ,repeat
Pad
f32a
    `a\`  , } ,
    repeat options1 , } ,
    @leftPad ( ' ' ) repeat packetx { //
int16 Logon  , } , float32
    rootA	@calculatedFrom( ""a\\""), char[] u	,
tag leftPad `doc`
,@calculatedFrom(	""" ++ [28040; 24687]%N ++ runes_of_ascii """ )
match roots as trueish
{[
    255 ,
""a\""b""
    , ""1""
, ""\n""
,
42 , 42  , 65535 ,
10]
: u8x,[ // trailing space 
""""
, ""CRC32"" ,
3 ,
    255, 0123456789 ,
""packet"", ""a	b""
, """"
]
:leftPad ,
0123456789  : crc
    , ""a\""b"" : Header , 1 :string_ 65535	: a1 } , repeat// `tick` ""quote"" 'q'
crc ,
    }
")).
Eval vm_compute in ("<<<M263>>>" ++ check (runes_of_ascii "packet stringy{ @leftPad ( ) /// triple
@leftPad// @lengthOf(
('0' ) string  string_
, }
options	{ //x
}  root packet chars//x
{ @tag(	1
    ) @tag( 00 ) // " ++ [128512]%N ++ runes_of_ascii " emoji
rootA ,@calculatedFrom(
""abc"" ) x_y_z , repeat chars{ uint8x @calculatedFrom(""CRC32"" ) `// not a comment`
, match a1
as
lengthOf //x
{ ""// no comment"" //	t
: // a // b
packetx ,} , uint64
    int `100% of %d`
    ,zchar[42 ]  Packet
`two words`
    , }
    //x
    ,@leftPad( '0'
)
// " ++ [128512]%N ++ runes_of_ascii " emoji
// " ++ [128512]%N ++ runes_of_ascii " emoji
@leftPad ()  @leftPad (
)  leftPad {  repeat i8 roots
, i16 float
    @lengthOf( string_
)// " ++ [128512]%N ++ runes_of_ascii " emoji
, repeat Logon msg_type ,repeat x { repeat
zchar[  3
] _x  `two words` , string i8i8 `u8 x,`	, i32 float @calculatedFrom( ""\" ++ [233]%N ++ runes_of_ascii """ ) // c
, } // " ++ [27880; 37322]%N ++ runes_of_ascii "
, }
, // c
repeat
uint64 i64_
, string options1	, char[ 1 ]
i8i8, } // @lengthOf(")).
Eval vm_compute in ("<<<M273>>>" ++ check (runes_of_ascii "
")).
Eval vm_compute in ("<<<M283>>>" ++ check (runes_of_ascii "  packet	i64_ {
_x
i64_ `// not a comment` , @rightPad	(
)
@calculatedFrom( ""`tick`"" // packet A { u8 x, }
)match _x as  Logon { [ ""a	b"" ]	: metadata , 1 :
o 00 :float	,},	@tag( 1
    ) @lengthOf(matchKey ) zchar[ 255 ]	options1`tab	here` , } // @lengthOf(")).
Eval vm_compute in ("<<<M293>>>" ++ check (runes_of_ascii "packet i8i8 {// packet A { u8 x, }
match /// triple
float
as x_y_z { """" :
u128 // trailing space 
} ,
@calculatedFrom(	""packet"" ) repeat
char[
// " ++ [27880; 37322]%N ++ runes_of_ascii "
// " ++ [128512]%N ++ runes_of_ascii " emoji
65535
]
uint8x ,	@rightPad (
    ' ' ) leftPad `doc` ,tag @calculatedFrom(// `tick` ""quote"" 'q'
""x y"" //
) `// not a comment` , @leftPad(' ' ) zchar[
    00 ]int
    `" ++ [28040; 24687; 31867; 22411]%N ++ runes_of_ascii "`
,}  root packet pack
// " ++ [128512]%N ++ runes_of_ascii " emoji
//
{options1
{
rootA {char[ 42 ]
//
// @lengthOf(
float
    // `tick` ""quote"" 'q'
    ,
    char[ //	t
255
    ] roots
    // @lengthOf(
    , // " ++ [128512]%N ++ runes_of_ascii " emoji
repeat int64
matchKey , // packet A { u8 x, }
} // `tick` ""quote"" 'q'
,Header , u8x  zchar `{ , }`	, }
, match  x_y_z
as
options1 {""x y""
    :
    calculatedFrom ""x y"" :
pack , [""x y"" , 1, 0,
/// triple
// `tick` ""quote"" 'q'
""\" ++ [233]%N ++ runes_of_ascii """ ,	4294967296 ,
    ""a	b"" ,42 ,
0123456789]
: lengthOf ,	4294967296 :
    len ,
} ,asx@lengthOf( // " ++ [27880; 37322]%N ++ runes_of_ascii "
Header ) , match
float as calculatedFrom {3 : T,
    """ ++ [28040; 24687]%N ++ runes_of_ascii """
    // trailing space 
    :// @lengthOf(
uint8x
255: Packet
,}// " ++ [128512]%N ++ runes_of_ascii " emoji
, repeat char[] Header , } packet
u128 {
    @calculatedFrom(
//	t
//	t
""" ++ [233]%N ++ runes_of_ascii "t" ++ [233]%N ++ runes_of_ascii """ ) @lengthOf( calculatedFrom	)	zchar	, @lengthOf( Packet )
    lengthOf @calculatedFrom(
//x
// 50% %s
""\n"" ) ``,
@rightPad //	t
() char[ 0123456789
]	float
,@lengthOf( options1) @tag(
7
    // c
    )
@tag(007 ) crc int,}  packet i64_{
    // c
    @tag( 7) repeat string Logon  , @tag( 1) u32 metadata @lengthOf( rootA),} 	 ")).
Eval vm_compute in ("<<<T293>>>" ++ terms [mkTok 35 "packet" 1 0 false; mkTok 42 "i8i8" 1 7 false; mkTok 2 "{" 1 12 false; mkTok 44 "// packet A { u8 x, }" 1 13 true; mkTok 38 "match" 2 0 false; mkTok 44 "/// triple" 2 6 true; mkTok 42 "float" 3 0 false; mkTok 17 "as" 4 0 false; mkTok 42 "x_y_z" 4 3 false; mkTok 2 "{" 4 9 false; mkTok 31 """""" 4 11 false; mkTok 39 ":" 4 14 false; mkTok 42 "u128" 5 0 false; mkTok 44 "// trailing space " 5 5 true; mkTok 3 "}" 6 0 false; mkTok 40 "," 6 2 false; mkTok 5 "@calculatedFrom(" 7 0 false; mkTok 31 """packet""" 7 17 false; mkTok 6 ")" 7 26 false; mkTok 36 "repeat" 7 28 false; mkTok 12 "char[" 8 0 false; mkTok 44 (string_of_bytes [47; 47; 32; 230; 179; 168; 233; 135; 138]%N) 9 0 true; mkTok 44 (string_of_bytes [47; 47; 32; 240; 159; 152; 128; 32; 101; 109; 111; 106; 105]%N) 10 0 true; mkTok 30 "65535" 11 0 false; mkTok 13 "]" 12 0 false; mkTok 42 "uint8x" 13 0 false; mkTok 40 "," 13 7 false; mkTok 32 "@rightPad" 13 9 false; mkTok 8 "(" 13 19 false; mkTok 33 "' '" 14 4 false; mkTok 6 ")" 14 8 false; mkTok 42 "leftPad" 14 10 false; mkTok 43 "`doc`" 14 18 false; mkTok 40 "," 14 24 false; mkTok 42 "tag" 14 25 false; mkTok 5 "@calculatedFrom(" 14 29 false; mkTok 44 "// `tick` ""quote"" 'q'" 14 45 true; mkTok 31 """x y""" 15 0 false; mkTok 44 "//" 15 6 true; mkTok 6 ")" 16 0 false; mkTok 43 "`// not a comment`" 16 2 false; mkTok 40 "," 16 21 false; mkTok 32 "@leftPad" 16 23 false; mkTok 8 "(" 16 31 false; mkTok 33 "' '" 16 32 false; mkTok 6 ")" 16 36 false; mkTok 14 "zchar[" 16 38 false; mkTok 30 "00" 17 4 false; mkTok 13 "]" 17 7 false; mkTok 42 "int" 17 8 false; mkTok 43 (string_of_bytes [96; 230; 182; 136; 230; 129; 175; 231; 177; 187; 229; 158; 139; 96]%N) 18 4 false; mkTok 40 "," 19 0 false; mkTok 3 "}" 19 1 false; mkTok 34 "root" 19 4 false; mkTok 35 "packet" 19 9 false; mkTok 42 "pack" 19 16 false; mkTok 44 (string_of_bytes [47; 47; 32; 240; 159; 152; 128; 32; 101; 109; 111; 106; 105]%N) 20 0 true; mkTok 44 "//" 21 0 true; mkTok 2 "{" 22 0 false; mkTok 42 "options1" 22 1 false; mkTok 2 "{" 23 0 false; mkTok 42 "rootA" 24 0 false; mkTok 2 "{" 24 6 false; mkTok 12 "char[" 24 7 false; mkTok 30 "42" 24 13 false; mkTok 13 "]" 24 16 false; mkTok 44 "//" 25 0 true; mkTok 44 "// @lengthOf(" 26 0 true; mkTok 42 "float" 27 0 false; mkTok 44 "// `tick` ""quote"" 'q'" 28 4 true; mkTok 40 "," 29 4 false; mkTok 12 "char[" 30 4 false; mkTok 44 (string_of_bytes [47; 47; 9; 116]%N) 30 10 true; mkTok 30 "255" 31 0 false; mkTok 13 "]" 32 4 false; mkTok 42 "roots" 32 6 false; mkTok 44 "// @lengthOf(" 33 4 true; mkTok 40 "," 34 4 false; mkTok 44 (string_of_bytes [47; 47; 32; 240; 159; 152; 128; 32; 101; 109; 111; 106; 105]%N) 34 6 true; mkTok 36 "repeat" 35 0 false; mkTok 27 "int64" 35 7 false; mkTok 42 "matchKey" 36 0 false; mkTok 40 "," 36 9 false; mkTok 44 "// packet A { u8 x, }" 36 11 true; mkTok 3 "}" 37 0 false; mkTok 44 "// `tick` ""quote"" 'q'" 37 2 true; mkTok 40 "," 38 0 false; mkTok 42 "Header" 38 1 false; mkTok 40 "," 38 8 false; mkTok 42 "u8x" 38 10 false; mkTok 42 "zchar" 38 15 false; mkTok 43 "`{ , }`" 38 21 false; mkTok 40 "," 38 29 false; mkTok 3 "}" 38 31 false; mkTok 40 "," 39 0 false; mkTok 38 "match" 39 2 false; mkTok 42 "x_y_z" 39 9 false; mkTok 17 "as" 40 0 false; mkTok 42 "options1" 41 0 false; mkTok 2 "{" 41 9 false; mkTok 31 """x y""" 41 10 false; mkTok 39 ":" 42 4 false; mkTok 42 "calculatedFrom" 43 4 false; mkTok 31 """x y""" 43 19 false; mkTok 39 ":" 43 25 false; mkTok 42 "pack" 44 0 false; mkTok 40 "," 44 5 false; mkTok 18 "[" 44 7 false; mkTok 31 """x y""" 44 8 false; mkTok 40 "," 44 14 false; mkTok 30 "1" 44 16 false; mkTok 40 "," 44 17 false; mkTok 30 "0" 44 19 false; mkTok 40 "," 44 20 false; mkTok 44 "/// triple" 45 0 true; mkTok 44 "// `tick` ""quote"" 'q'" 46 0 true; mkTok 31 (string_of_bytes [34; 92; 195; 169; 34]%N) 47 0 false; mkTok 40 "," 47 5 false; mkTok 30 "4294967296" 47 7 false; mkTok 40 "," 47 18 false; mkTok 31 (string_of_bytes [34; 97; 9; 98; 34]%N) 48 4 false; mkTok 40 "," 48 10 false; mkTok 30 "42" 48 11 false; mkTok 40 "," 48 14 false; mkTok 30 "0123456789" 49 0 false; mkTok 13 "]" 49 10 false; mkTok 39 ":" 50 0 false; mkTok 42 "lengthOf" 50 2 false; mkTok 40 "," 50 11 false; mkTok 30 "4294967296" 50 13 false; mkTok 39 ":" 50 24 false; mkTok 42 "len" 51 4 false; mkTok 40 "," 51 8 false; mkTok 3 "}" 52 0 false; mkTok 40 "," 52 2 false; mkTok 42 "asx" 52 3 false; mkTok 7 "@lengthOf(" 52 6 false; mkTok 44 (string_of_bytes [47; 47; 32; 230; 179; 168; 233; 135; 138]%N) 52 17 true; mkTok 42 "Header" 53 0 false; mkTok 6 ")" 53 7 false; mkTok 40 "," 53 9 false; mkTok 38 "match" 53 11 false; mkTok 42 "float" 54 0 false; mkTok 17 "as" 54 6 false; mkTok 42 "calculatedFrom" 54 9 false; mkTok 2 "{" 54 24 false; mkTok 30 "3" 54 25 false; mkTok 39 ":" 54 27 false; mkTok 42 "T" 54 29 false; mkTok 40 "," 54 30 false; mkTok 31 (string_of_bytes [34; 230; 182; 136; 230; 129; 175; 34]%N) 55 4 false; mkTok 44 "// trailing space " 56 4 true; mkTok 39 ":" 57 4 false; mkTok 44 "// @lengthOf(" 57 5 true; mkTok 42 "uint8x" 58 0 false; mkTok 30 "255" 59 0 false; mkTok 39 ":" 59 3 false; mkTok 42 "Packet" 59 5 false; mkTok 40 "," 60 0 false; mkTok 3 "}" 60 1 false; mkTok 44 (string_of_bytes [47; 47; 32; 240; 159; 152; 128; 32; 101; 109; 111; 106; 105]%N) 60 2 true; mkTok 40 "," 61 0 false; mkTok 36 "repeat" 61 2 false; mkTok 16 "char[]" 61 9 false; mkTok 42 "Header" 61 16 false; mkTok 40 "," 61 23 false; mkTok 3 "}" 61 25 false; mkTok 35 "packet" 61 27 false; mkTok 42 "u128" 62 0 false; mkTok 2 "{" 62 5 false; mkTok 5 "@calculatedFrom(" 63 4 false; mkTok 44 (string_of_bytes [47; 47; 9; 116]%N) 64 0 true; mkTok 44 (string_of_bytes [47; 47; 9; 116]%N) 65 0 true; mkTok 31 (string_of_bytes [34; 195; 169; 116; 195; 169; 34]%N) 66 0 false; mkTok 6 ")" 66 6 false; mkTok 7 "@lengthOf(" 66 8 false; mkTok 42 "calculatedFrom" 66 19 false; mkTok 6 ")" 66 34 false; mkTok 42 "zchar" 66 36 false; mkTok 40 "," 66 42 false; mkTok 7 "@lengthOf(" 66 44 false; mkTok 42 "Packet" 66 55 false; mkTok 6 ")" 66 62 false; mkTok 42 "lengthOf" 67 4 false; mkTok 5 "@calculatedFrom(" 67 13 false; mkTok 44 "//x" 68 0 true; mkTok 44 "// 50% %s" 69 0 true; mkTok 31 """\n""" 70 0 false; mkTok 6 ")" 70 5 false; mkTok 43 "``" 70 7 false; mkTok 40 "," 70 9 false; mkTok 32 "@rightPad" 71 0 false; mkTok 44 (string_of_bytes [47; 47; 9; 116]%N) 71 10 true; mkTok 8 "(" 72 0 false; mkTok 6 ")" 72 1 false; mkTok 12 "char[" 72 3 false; mkTok 30 "0123456789" 72 9 false; mkTok 13 "]" 73 0 false; mkTok 42 "float" 73 2 false; mkTok 40 "," 74 0 false; mkTok 7 "@lengthOf(" 74 1 false; mkTok 42 "options1" 74 12 false; mkTok 6 ")" 74 20 false; mkTok 9 "@tag(" 74 22 false; mkTok 30 "7" 75 0 false; mkTok 44 "// c" 76 4 true; mkTok 6 ")" 77 4 false; mkTok 9 "@tag(" 78 0 false; mkTok 30 "007" 78 5 false; mkTok 6 ")" 78 9 false; mkTok 42 "crc" 78 11 false; mkTok 42 "int" 78 15 false; mkTok 40 "," 78 18 false; mkTok 3 "}" 78 19 false; mkTok 35 "packet" 78 22 false; mkTok 42 "i64_" 78 29 false; mkTok 2 "{" 78 33 false; mkTok 44 "// c" 79 4 true; mkTok 9 "@tag(" 80 4 false; mkTok 30 "7" 80 10 false; mkTok 6 ")" 80 11 false; mkTok 36 "repeat" 80 13 false; mkTok 15 "string" 80 20 false; mkTok 42 "Logon" 80 27 false; mkTok 40 "," 80 34 false; mkTok 9 "@tag(" 80 36 false; mkTok 30 "1" 80 42 false; mkTok 6 ")" 80 43 false; mkTok 22 "u32" 80 45 false; mkTok 42 "metadata" 80 49 false; mkTok 7 "@lengthOf(" 80 58 false; mkTok 42 "rootA" 80 69 false; mkTok 6 ")" 80 74 false; mkTok 40 "," 80 75 false; mkTok 3 "}" 80 76 false; mkTok 0 "<EOF>" 80 80 false] (mkPacket (mkPtok 35 "packet" 1 0 0) (Some (mkPtok 3 "}" 80 76 234)) [(DPacket (mkPacketDef (mkSpan (mkPtok 35 "packet" 1 0 0) (mkPtok 3 "}" 19 1 52)) None (mkPtok 35 "packet" 1 0 0) (mkPtok 42 "i8i8" 1 7 1) (mkPtok 2 "{" 1 12 2) [(mkFieldWithAttr (mkSpan (mkPtok 38 "match" 2 0 4) (mkPtok 40 "," 6 2 15)) [] (MatchField (mkSpan (mkPtok 38 "match" 2 0 4) (mkPtok 40 "," 6 2 15)) (mkMatchFieldDecl (mkSpan (mkPtok 38 "match" 2 0 4) (mkPtok 3 "}" 6 0 14)) (mkPtok 38 "match" 2 0 4) (mkPtok 42 "float" 3 0 6) (mkPtok 17 "as" 4 0 7) (mkPtok 42 "x_y_z" 4 3 8) (mkPtok 2 "{" 4 9 9) [(mkMatchPair (mkSpan (mkPtok 31 """""" 4 11 10) (mkPtok 42 "u128" 5 0 12)) (MKString (mkPtok 31 """""" 4 11 10)) (mkPtok 39 ":" 4 14 11) (mkPtok 42 "u128" 5 0 12) None)] (mkPtok 3 "}" 6 0 14)) (mkPtok 40 "," 6 2 15))); (mkFieldWithAttr (mkSpan (mkPtok 5 "@calculatedFrom(" 7 0 16) (mkPtok 40 "," 13 7 26)) [(FACalculatedFrom (mkSpan (mkPtok 5 "@calculatedFrom(" 7 0 16) (mkPtok 6 ")" 7 26 18)) (mkCalculatedFrom (mkSpan (mkPtok 5 "@calculatedFrom(" 7 0 16) (mkPtok 6 ")" 7 26 18)) (mkPtok 5 "@calculatedFrom(" 7 0 16) (mkPtok 31 """packet""" 7 17 17) (mkPtok 6 ")" 7 26 18)))] (MetaField (mkSpan (mkPtok 36 "repeat" 7 28 19) (mkPtok 40 "," 13 7 26)) (Some (mkPtok 36 "repeat" 7 28 19)) (mkMetaDecl (mkSpan (mkPtok 12 "char[" 8 0 20) (mkPtok 40 "," 13 7 26)) (TyFixed (mkSpan (mkPtok 12 "char[" 8 0 20) (mkPtok 13 "]" 12 0 24)) (mkFixedString (mkSpan (mkPtok 12 "char[" 8 0 20) (mkPtok 13 "]" 12 0 24)) (mkPtok 12 "char[" 8 0 20) (mkPtok 30 "65535" 11 0 23) (mkPtok 13 "]" 12 0 24))) (mkPtok 42 "uint8x" 13 0 25) None (mkPtok 40 "," 13 7 26)))); (mkFieldWithAttr (mkSpan (mkPtok 32 "@rightPad" 13 9 27) (mkPtok 40 "," 14 24 33)) [(FAPadding (mkSpan (mkPtok 32 "@rightPad" 13 9 27) (mkPtok 6 ")" 14 8 30)) (mkPaddingAttr (mkSpan (mkPtok 32 "@rightPad" 13 9 27) (mkPtok 6 ")" 14 8 30)) (mkPtok 32 "@rightPad" 13 9 27) (mkPtok 8 "(" 13 19 28) (Some (mkPtok 33 "' '" 14 4 29)) (mkPtok 6 ")" 14 8 30)))] (ObjectField (mkSpan (mkPtok 42 "leftPad" 14 10 31) (mkPtok 40 "," 14 24 33)) None (mkPtok 42 "leftPad" 14 10 31) None (Some (mkPtok 43 "`doc`" 14 18 32)) (mkPtok 40 "," 14 24 33))); (mkFieldWithAttr (mkSpan (mkPtok 42 "tag" 14 25 34) (mkPtok 40 "," 16 21 41)) [] (CheckSumField (mkSpan (mkPtok 42 "tag" 14 25 34) (mkPtok 40 "," 16 21 41)) (mkChecksumFieldDecl (mkSpan (mkPtok 42 "tag" 14 25 34) (mkPtok 40 "," 16 21 41)) None (mkPtok 42 "tag" 14 25 34) (mkCalculatedFrom (mkSpan (mkPtok 5 "@calculatedFrom(" 14 29 35) (mkPtok 6 ")" 16 0 39)) (mkPtok 5 "@calculatedFrom(" 14 29 35) (mkPtok 31 """x y""" 15 0 37) (mkPtok 6 ")" 16 0 39)) (Some (mkPtok 43 "`// not a comment`" 16 2 40)) (mkPtok 40 "," 16 21 41)))); (mkFieldWithAttr (mkSpan (mkPtok 32 "@leftPad" 16 23 42) (mkPtok 40 "," 19 0 51)) [(FAPadding (mkSpan (mkPtok 32 "@leftPad" 16 23 42) (mkPtok 6 ")" 16 36 45)) (mkPaddingAttr (mkSpan (mkPtok 32 "@leftPad" 16 23 42) (mkPtok 6 ")" 16 36 45)) (mkPtok 32 "@leftPad" 16 23 42) (mkPtok 8 "(" 16 31 43) (Some (mkPtok 33 "' '" 16 32 44)) (mkPtok 6 ")" 16 36 45)))] (MetaField (mkSpan (mkPtok 14 "zchar[" 16 38 46) (mkPtok 40 "," 19 0 51)) None (mkMetaDecl (mkSpan (mkPtok 14 "zchar[" 16 38 46) (mkPtok 40 "," 19 0 51)) (TyFixed (mkSpan (mkPtok 14 "zchar[" 16 38 46) (mkPtok 13 "]" 17 7 48)) (mkFixedString (mkSpan (mkPtok 14 "zchar[" 16 38 46) (mkPtok 13 "]" 17 7 48)) (mkPtok 14 "zchar[" 16 38 46) (mkPtok 30 "00" 17 4 47) (mkPtok 13 "]" 17 7 48))) (mkPtok 42 "int" 17 8 49) (Some (mkPtok 43 (string_of_bytes [96; 230; 182; 136; 230; 129; 175; 231; 177; 187; 229; 158; 139; 96]%N) 18 4 50)) (mkPtok 40 "," 19 0 51))))] (mkPtok 3 "}" 19 1 52))); (DPacket (mkPacketDef (mkSpan (mkPtok 34 "root" 19 4 53) (mkPtok 3 "}" 61 25 166)) (Some (mkPtok 34 "root" 19 4 53)) (mkPtok 35 "packet" 19 9 54) (mkPtok 42 "pack" 19 16 55) (mkPtok 2 "{" 22 0 58) [(mkFieldWithAttr (mkSpan (mkPtok 42 "options1" 22 1 59) (mkPtok 40 "," 39 0 94)) [] (InerObjectField (mkSpan (mkPtok 42 "options1" 22 1 59) (mkPtok 40 "," 39 0 94)) None (InerObjectDecl (mkSpan (mkPtok 42 "options1" 22 1 59) (mkPtok 3 "}" 38 31 93)) (mkPtok 42 "options1" 22 1 59) (mkPtok 2 "{" 23 0 60) [(InerObjectField (mkSpan (mkPtok 42 "rootA" 24 0 61) (mkPtok 40 "," 38 0 86)) None (InerObjectDecl (mkSpan (mkPtok 42 "rootA" 24 0 61) (mkPtok 3 "}" 37 0 84)) (mkPtok 42 "rootA" 24 0 61) (mkPtok 2 "{" 24 6 62) [(MetaField (mkSpan (mkPtok 12 "char[" 24 7 63) (mkPtok 40 "," 29 4 70)) None (mkMetaDecl (mkSpan (mkPtok 12 "char[" 24 7 63) (mkPtok 40 "," 29 4 70)) (TyFixed (mkSpan (mkPtok 12 "char[" 24 7 63) (mkPtok 13 "]" 24 16 65)) (mkFixedString (mkSpan (mkPtok 12 "char[" 24 7 63) (mkPtok 13 "]" 24 16 65)) (mkPtok 12 "char[" 24 7 63) (mkPtok 30 "42" 24 13 64) (mkPtok 13 "]" 24 16 65))) (mkPtok 42 "float" 27 0 68) None (mkPtok 40 "," 29 4 70))); (MetaField (mkSpan (mkPtok 12 "char[" 30 4 71) (mkPtok 40 "," 34 4 77)) None (mkMetaDecl (mkSpan (mkPtok 12 "char[" 30 4 71) (mkPtok 40 "," 34 4 77)) (TyFixed (mkSpan (mkPtok 12 "char[" 30 4 71) (mkPtok 13 "]" 32 4 74)) (mkFixedString (mkSpan (mkPtok 12 "char[" 30 4 71) (mkPtok 13 "]" 32 4 74)) (mkPtok 12 "char[" 30 4 71) (mkPtok 30 "255" 31 0 73) (mkPtok 13 "]" 32 4 74))) (mkPtok 42 "roots" 32 6 75) None (mkPtok 40 "," 34 4 77))); (MetaField (mkSpan (mkPtok 36 "repeat" 35 0 79) (mkPtok 40 "," 36 9 82)) (Some (mkPtok 36 "repeat" 35 0 79)) (mkMetaDecl (mkSpan (mkPtok 27 "int64" 35 7 80) (mkPtok 40 "," 36 9 82)) (TyBasic (mkSpan (mkPtok 27 "int64" 35 7 80) (mkPtok 27 "int64" 35 7 80)) (mkBasicType (mkSpan (mkPtok 27 "int64" 35 7 80) (mkPtok 27 "int64" 35 7 80)) (mkPtok 27 "int64" 35 7 80))) (mkPtok 42 "matchKey" 36 0 81) None (mkPtok 40 "," 36 9 82)))] (mkPtok 3 "}" 37 0 84)) (mkPtok 40 "," 38 0 86)); (ObjectField (mkSpan (mkPtok 42 "Header" 38 1 87) (mkPtok 40 "," 38 8 88)) None (mkPtok 42 "Header" 38 1 87) None None (mkPtok 40 "," 38 8 88)); (ObjectField (mkSpan (mkPtok 42 "u8x" 38 10 89) (mkPtok 40 "," 38 29 92)) None (mkPtok 42 "u8x" 38 10 89) (Some (mkPtok 42 "zchar" 38 15 90)) (Some (mkPtok 43 "`{ , }`" 38 21 91)) (mkPtok 40 "," 38 29 92))] (mkPtok 3 "}" 38 31 93)) (mkPtok 40 "," 39 0 94))); (mkFieldWithAttr (mkSpan (mkPtok 38 "match" 39 2 95) (mkPtok 40 "," 52 2 134)) [] (MatchField (mkSpan (mkPtok 38 "match" 39 2 95) (mkPtok 40 "," 52 2 134)) (mkMatchFieldDecl (mkSpan (mkPtok 38 "match" 39 2 95) (mkPtok 3 "}" 52 0 133)) (mkPtok 38 "match" 39 2 95) (mkPtok 42 "x_y_z" 39 9 96) (mkPtok 17 "as" 40 0 97) (mkPtok 42 "options1" 41 0 98) (mkPtok 2 "{" 41 9 99) [(mkMatchPair (mkSpan (mkPtok 31 """x y""" 41 10 100) (mkPtok 42 "calculatedFrom" 43 4 102)) (MKString (mkPtok 31 """x y""" 41 10 100)) (mkPtok 39 ":" 42 4 101) (mkPtok 42 "calculatedFrom" 43 4 102) None); (mkMatchPair (mkSpan (mkPtok 31 """x y""" 43 19 103) (mkPtok 40 "," 44 5 106)) (MKString (mkPtok 31 """x y""" 43 19 103)) (mkPtok 39 ":" 43 25 104) (mkPtok 42 "pack" 44 0 105) (Some (mkPtok 40 "," 44 5 106))); (mkMatchPair (mkSpan (mkPtok 18 "[" 44 7 107) (mkPtok 40 "," 50 11 128)) (MKList (mkKeyList (mkSpan (mkPtok 18 "[" 44 7 107) (mkPtok 13 "]" 49 10 125)) (mkPtok 18 "[" 44 7 107) (mkPtok 31 """x y""" 44 8 108) [((mkPtok 40 "," 44 14 109), (mkPtok 30 "1" 44 16 110)); ((mkPtok 40 "," 44 17 111), (mkPtok 30 "0" 44 19 112)); ((mkPtok 40 "," 44 20 113), (mkPtok 31 (string_of_bytes [34; 92; 195; 169; 34]%N) 47 0 116)); ((mkPtok 40 "," 47 5 117), (mkPtok 30 "4294967296" 47 7 118)); ((mkPtok 40 "," 47 18 119), (mkPtok 31 (string_of_bytes [34; 97; 9; 98; 34]%N) 48 4 120)); ((mkPtok 40 "," 48 10 121), (mkPtok 30 "42" 48 11 122)); ((mkPtok 40 "," 48 14 123), (mkPtok 30 "0123456789" 49 0 124))] (mkPtok 13 "]" 49 10 125))) (mkPtok 39 ":" 50 0 126) (mkPtok 42 "lengthOf" 50 2 127) (Some (mkPtok 40 "," 50 11 128))); (mkMatchPair (mkSpan (mkPtok 30 "4294967296" 50 13 129) (mkPtok 40 "," 51 8 132)) (MKDigits (mkPtok 30 "4294967296" 50 13 129)) (mkPtok 39 ":" 50 24 130) (mkPtok 42 "len" 51 4 131) (Some (mkPtok 40 "," 51 8 132)))] (mkPtok 3 "}" 52 0 133)) (mkPtok 40 "," 52 2 134))); (mkFieldWithAttr (mkSpan (mkPtok 42 "asx" 52 3 135) (mkPtok 40 "," 53 9 140)) [] (LengthField (mkSpan (mkPtok 42 "asx" 52 3 135) (mkPtok 40 "," 53 9 140)) (mkLengthFieldDecl (mkSpan (mkPtok 42 "asx" 52 3 135) (mkPtok 40 "," 53 9 140)) None (mkPtok 42 "asx" 52 3 135) (mkLengthOf (mkSpan (mkPtok 7 "@lengthOf(" 52 6 136) (mkPtok 6 ")" 53 7 139)) (mkPtok 7 "@lengthOf(" 52 6 136) (mkPtok 42 "Header" 53 0 138) (mkPtok 6 ")" 53 7 139)) None (mkPtok 40 "," 53 9 140)))); (mkFieldWithAttr (mkSpan (mkPtok 38 "match" 53 11 141) (mkPtok 40 "," 61 0 161)) [] (MatchField (mkSpan (mkPtok 38 "match" 53 11 141) (mkPtok 40 "," 61 0 161)) (mkMatchFieldDecl (mkSpan (mkPtok 38 "match" 53 11 141) (mkPtok 3 "}" 60 1 159)) (mkPtok 38 "match" 53 11 141) (mkPtok 42 "float" 54 0 142) (mkPtok 17 "as" 54 6 143) (mkPtok 42 "calculatedFrom" 54 9 144) (mkPtok 2 "{" 54 24 145) [(mkMatchPair (mkSpan (mkPtok 30 "3" 54 25 146) (mkPtok 40 "," 54 30 149)) (MKDigits (mkPtok 30 "3" 54 25 146)) (mkPtok 39 ":" 54 27 147) (mkPtok 42 "T" 54 29 148) (Some (mkPtok 40 "," 54 30 149))); (mkMatchPair (mkSpan (mkPtok 31 (string_of_bytes [34; 230; 182; 136; 230; 129; 175; 34]%N) 55 4 150) (mkPtok 42 "uint8x" 58 0 154)) (MKString (mkPtok 31 (string_of_bytes [34; 230; 182; 136; 230; 129; 175; 34]%N) 55 4 150)) (mkPtok 39 ":" 57 4 152) (mkPtok 42 "uint8x" 58 0 154) None); (mkMatchPair (mkSpan (mkPtok 30 "255" 59 0 155) (mkPtok 40 "," 60 0 158)) (MKDigits (mkPtok 30 "255" 59 0 155)) (mkPtok 39 ":" 59 3 156) (mkPtok 42 "Packet" 59 5 157) (Some (mkPtok 40 "," 60 0 158)))] (mkPtok 3 "}" 60 1 159)) (mkPtok 40 "," 61 0 161))); (mkFieldWithAttr (mkSpan (mkPtok 36 "repeat" 61 2 162) (mkPtok 40 "," 61 23 165)) [] (MetaField (mkSpan (mkPtok 36 "repeat" 61 2 162) (mkPtok 40 "," 61 23 165)) (Some (mkPtok 36 "repeat" 61 2 162)) (mkMetaDecl (mkSpan (mkPtok 16 "char[]" 61 9 163) (mkPtok 40 "," 61 23 165)) (TyDynamic (mkSpan (mkPtok 16 "char[]" 61 9 163) (mkPtok 16 "char[]" 61 9 163)) (mkDynamicString (mkSpan (mkPtok 16 "char[]" 61 9 163) (mkPtok 16 "char[]" 61 9 163)) (mkPtok 16 "char[]" 61 9 163))) (mkPtok 42 "Header" 61 16 164) None (mkPtok 40 "," 61 23 165))))] (mkPtok 3 "}" 61 25 166))); (DPacket (mkPacketDef (mkSpan (mkPtok 35 "packet" 61 27 167) (mkPtok 3 "}" 78 19 213)) None (mkPtok 35 "packet" 61 27 167) (mkPtok 42 "u128" 62 0 168) (mkPtok 2 "{" 62 5 169) [(mkFieldWithAttr (mkSpan (mkPtok 5 "@calculatedFrom(" 63 4 170) (mkPtok 40 "," 66 42 179)) [(FACalculatedFrom (mkSpan (mkPtok 5 "@calculatedFrom(" 63 4 170) (mkPtok 6 ")" 66 6 174)) (mkCalculatedFrom (mkSpan (mkPtok 5 "@calculatedFrom(" 63 4 170) (mkPtok 6 ")" 66 6 174)) (mkPtok 5 "@calculatedFrom(" 63 4 170) (mkPtok 31 (string_of_bytes [34; 195; 169; 116; 195; 169; 34]%N) 66 0 173) (mkPtok 6 ")" 66 6 174))); (FALengthOf (mkSpan (mkPtok 7 "@lengthOf(" 66 8 175) (mkPtok 6 ")" 66 34 177)) (mkLengthOf (mkSpan (mkPtok 7 "@lengthOf(" 66 8 175) (mkPtok 6 ")" 66 34 177)) (mkPtok 7 "@lengthOf(" 66 8 175) (mkPtok 42 "calculatedFrom" 66 19 176) (mkPtok 6 ")" 66 34 177)))] (ObjectField (mkSpan (mkPtok 42 "zchar" 66 36 178) (mkPtok 40 "," 66 42 179)) None (mkPtok 42 "zchar" 66 36 178) None None (mkPtok 40 "," 66 42 179))); (mkFieldWithAttr (mkSpan (mkPtok 7 "@lengthOf(" 66 44 180) (mkPtok 40 "," 70 9 190)) [(FALengthOf (mkSpan (mkPtok 7 "@lengthOf(" 66 44 180) (mkPtok 6 ")" 66 62 182)) (mkLengthOf (mkSpan (mkPtok 7 "@lengthOf(" 66 44 180) (mkPtok 6 ")" 66 62 182)) (mkPtok 7 "@lengthOf(" 66 44 180) (mkPtok 42 "Packet" 66 55 181) (mkPtok 6 ")" 66 62 182)))] (CheckSumField (mkSpan (mkPtok 42 "lengthOf" 67 4 183) (mkPtok 40 "," 70 9 190)) (mkChecksumFieldDecl (mkSpan (mkPtok 42 "lengthOf" 67 4 183) (mkPtok 40 "," 70 9 190)) None (mkPtok 42 "lengthOf" 67 4 183) (mkCalculatedFrom (mkSpan (mkPtok 5 "@calculatedFrom(" 67 13 184) (mkPtok 6 ")" 70 5 188)) (mkPtok 5 "@calculatedFrom(" 67 13 184) (mkPtok 31 """\n""" 70 0 187) (mkPtok 6 ")" 70 5 188)) (Some (mkPtok 43 "``" 70 7 189)) (mkPtok 40 "," 70 9 190)))); (mkFieldWithAttr (mkSpan (mkPtok 32 "@rightPad" 71 0 191) (mkPtok 40 "," 74 0 199)) [(FAPadding (mkSpan (mkPtok 32 "@rightPad" 71 0 191) (mkPtok 6 ")" 72 1 194)) (mkPaddingAttr (mkSpan (mkPtok 32 "@rightPad" 71 0 191) (mkPtok 6 ")" 72 1 194)) (mkPtok 32 "@rightPad" 71 0 191) (mkPtok 8 "(" 72 0 193) None (mkPtok 6 ")" 72 1 194)))] (MetaField (mkSpan (mkPtok 12 "char[" 72 3 195) (mkPtok 40 "," 74 0 199)) None (mkMetaDecl (mkSpan (mkPtok 12 "char[" 72 3 195) (mkPtok 40 "," 74 0 199)) (TyFixed (mkSpan (mkPtok 12 "char[" 72 3 195) (mkPtok 13 "]" 73 0 197)) (mkFixedString (mkSpan (mkPtok 12 "char[" 72 3 195) (mkPtok 13 "]" 73 0 197)) (mkPtok 12 "char[" 72 3 195) (mkPtok 30 "0123456789" 72 9 196) (mkPtok 13 "]" 73 0 197))) (mkPtok 42 "float" 73 2 198) None (mkPtok 40 "," 74 0 199)))); (mkFieldWithAttr (mkSpan (mkPtok 7 "@lengthOf(" 74 1 200) (mkPtok 40 "," 78 18 212)) [(FALengthOf (mkSpan (mkPtok 7 "@lengthOf(" 74 1 200) (mkPtok 6 ")" 74 20 202)) (mkLengthOf (mkSpan (mkPtok 7 "@lengthOf(" 74 1 200) (mkPtok 6 ")" 74 20 202)) (mkPtok 7 "@lengthOf(" 74 1 200) (mkPtok 42 "options1" 74 12 201) (mkPtok 6 ")" 74 20 202))); (FATag (mkSpan (mkPtok 9 "@tag(" 74 22 203) (mkPtok 6 ")" 77 4 206)) (mkTagAttr (mkSpan (mkPtok 9 "@tag(" 74 22 203) (mkPtok 6 ")" 77 4 206)) (mkPtok 9 "@tag(" 74 22 203) (mkPtok 30 "7" 75 0 204) (mkPtok 6 ")" 77 4 206))); (FATag (mkSpan (mkPtok 9 "@tag(" 78 0 207) (mkPtok 6 ")" 78 9 209)) (mkTagAttr (mkSpan (mkPtok 9 "@tag(" 78 0 207) (mkPtok 6 ")" 78 9 209)) (mkPtok 9 "@tag(" 78 0 207) (mkPtok 30 "007" 78 5 208) (mkPtok 6 ")" 78 9 209)))] (ObjectField (mkSpan (mkPtok 42 "crc" 78 11 210) (mkPtok 40 "," 78 18 212)) None (mkPtok 42 "crc" 78 11 210) (Some (mkPtok 42 "int" 78 15 211)) None (mkPtok 40 "," 78 18 212)))] (mkPtok 3 "}" 78 19 213))); (DPacket (mkPacketDef (mkSpan (mkPtok 35 "packet" 78 22 214) (mkPtok 3 "}" 80 76 234)) None (mkPtok 35 "packet" 78 22 214) (mkPtok 42 "i64_" 78 29 215) (mkPtok 2 "{" 78 33 216) [(mkFieldWithAttr (mkSpan (mkPtok 9 "@tag(" 80 4 218) (mkPtok 40 "," 80 34 224)) [(FATag (mkSpan (mkPtok 9 "@tag(" 80 4 218) (mkPtok 6 ")" 80 11 220)) (mkTagAttr (mkSpan (mkPtok 9 "@tag(" 80 4 218) (mkPtok 6 ")" 80 11 220)) (mkPtok 9 "@tag(" 80 4 218) (mkPtok 30 "7" 80 10 219) (mkPtok 6 ")" 80 11 220)))] (MetaField (mkSpan (mkPtok 36 "repeat" 80 13 221) (mkPtok 40 "," 80 34 224)) (Some (mkPtok 36 "repeat" 80 13 221)) (mkMetaDecl (mkSpan (mkPtok 15 "string" 80 20 222) (mkPtok 40 "," 80 34 224)) (TyDynamic (mkSpan (mkPtok 15 "string" 80 20 222) (mkPtok 15 "string" 80 20 222)) (mkDynamicString (mkSpan (mkPtok 15 "string" 80 20 222) (mkPtok 15 "string" 80 20 222)) (mkPtok 15 "string" 80 20 222))) (mkPtok 42 "Logon" 80 27 223) None (mkPtok 40 "," 80 34 224)))); (mkFieldWithAttr (mkSpan (mkPtok 9 "@tag(" 80 36 225) (mkPtok 40 "," 80 75 233)) [(FATag (mkSpan (mkPtok 9 "@tag(" 80 36 225) (mkPtok 6 ")" 80 43 227)) (mkTagAttr (mkSpan (mkPtok 9 "@tag(" 80 36 225) (mkPtok 6 ")" 80 43 227)) (mkPtok 9 "@tag(" 80 36 225) (mkPtok 30 "1" 80 42 226) (mkPtok 6 ")" 80 43 227)))] (LengthField (mkSpan (mkPtok 22 "u32" 80 45 228) (mkPtok 40 "," 80 75 233)) (mkLengthFieldDecl (mkSpan (mkPtok 22 "u32" 80 45 228) (mkPtok 40 "," 80 75 233)) (Some (TyBasic (mkSpan (mkPtok 22 "u32" 80 45 228) (mkPtok 22 "u32" 80 45 228)) (mkBasicType (mkSpan (mkPtok 22 "u32" 80 45 228) (mkPtok 22 "u32" 80 45 228)) (mkPtok 22 "u32" 80 45 228)))) (mkPtok 42 "metadata" 80 49 229) (mkLengthOf (mkSpan (mkPtok 7 "@lengthOf(" 80 58 230) (mkPtok 6 ")" 80 74 232)) (mkPtok 7 "@lengthOf(" 80 58 230) (mkPtok 42 "rootA" 80 69 231) (mkPtok 6 ")" 80 74 232)) None (mkPtok 40 "," 80 75 233))))] (mkPtok 3 "}" 80 76 234)))])).
Eval vm_compute in ("<<<M303>>>" ++ check (runes_of_ascii "options {
    StringPrefixLenType = u16;
    ArrayPrefixLenType = u16;
}

packet SampleBinary {
    uint16 MsgType `" ++ [28040; 24687; 31867; 22411]%N ++ runes_of_ascii "`,
    u16 BodyLenght @lengthOf(Body) `" ++ [28040; 24687; 20307; 38271; 24230]%N ++ runes_of_ascii "`,
    match MsgType as Body {
        1 : Logon,
        2 : Logout,
        3 : Heartbeat,
        4 : RiskControlRequest,
        5 : RiskControlResponse,
    },
    @calculatedFrom(""CRC32"")
    u32 Ckecksum `" ++ [26657; 39564; 21644]%N ++ runes_of_ascii "`,
}

packet Logon {
    @leftPad('0')
    char[10] UserName `" ++ [29992; 25143; 21517]%N ++ runes_of_ascii "`,
    string Password `" ++ [23494; 30721]%N ++ runes_of_ascii "`,
    uint64 ClientId `" ++ [23458; 25143; 31471]%N ++ runes_of_ascii "ID`,
    u16 HeartbeatInterval `" ++ [24515; 36339; 38388; 38548]%N ++ runes_of_ascii "`,
}

packet Logout {
    @rightPad('0')
    char[10] UserName `" ++ [29992; 25143; 21517]%N ++ runes_of_ascii "`,
    uint64 ClientId `" ++ [23458; 25143; 31471]%N ++ runes_of_ascii "ID`,
}

packet Heartbeat {
}

packet RiskControlRequest {
    string UniqueOrderId `" ++ [21807; 19968; 35746; 21333; 21495]%N ++ runes_of_ascii "`,
    char[16] ClOrdID `" ++ [23458; 25143; 35746; 21333; 21495]%N ++ runes_of_ascii "`,
    char[3] MarketID `" ++ [24066; 22330]%N ++ runes_of_ascii "id`,
    char[12] SecurityID `" ++ [35777; 21048; 20195; 30721]%N ++ runes_of_ascii "`,
    char Side `" ++ [20080; 21334; 26041; 21521]%N ++ runes_of_ascii "`,
    char OrderType `" ++ [35746; 21333; 31867; 22411]%N ++ runes_of_ascii "`,
    u64 Price `" ++ [20215; 26684]%N ++ runes_of_ascii "`,
    u32 Qty `" ++ [25968; 37327]%N ++ runes_of_ascii "`,
    repeat string ExtraInfo `" ++ [38468; 21152; 20449; 24687]%N ++ runes_of_ascii "`,
    repeat SubOrder {
        char[16] ClOrdID `" ++ [23376; 35746; 21333; 21495]%N ++ runes_of_ascii "`,
        u64 Price `" ++ [23376; 35746; 21333; 20215; 26684]%N ++ runes_of_ascii "`,
        u32 Qty `" ++ [23376; 35746; 21333; 25968; 37327]%N ++ runes_of_ascii "`,
    },
}

packet RiskControlResponse {
    string UniqueOrderId `" ++ [21807; 19968; 35746; 21333; 21495]%N ++ runes_of_ascii "`,
    i32 Status `" ++ [29366; 24577]%N ++ runes_of_ascii "`,
    string Msg `" ++ [32467; 26524; 20449; 24687]%N ++ runes_of_ascii "`,
    repeat Detail,
}

packet Detail {
    string RuleName `" ++ [35268; 21017; 21517; 31216]%N ++ runes_of_ascii "`,
    u16 Code `" ++ [21407; 22240; 20195; 30721]%N ++ runes_of_ascii "`,
}")).
Eval vm_compute in ("<<<M313>>>" ++ check (@nil rune)).
Eval vm_compute in ("<<<M323>>>" ++ check (runes_of_ascii "MetaData
crc")).
Eval vm_compute in ("<<<M333>>>" ++ check (runes_of_ascii "MetaData
crc	{ char[]")).
Eval vm_compute in ("<<<M343>>>" ++ check (runes_of_ascii "MetaData
crc	{ char[] Z9_`{ , }`")).
Eval vm_compute in ("<<<M353>>>" ++ check (runes_of_ascii "MetaData
crc	{ char[] Z9_`{ , }`,}")).
Eval vm_compute in ("<<<M363>>>" ++ check (runes_of_ascii "MetaData
crc	{ char[] Z9_`{ , }`,} options {")).
Eval vm_compute in ("<<<M373>>>" ++ check (runes_of_ascii "MetaData
crc	{ char[] Z9_`{ , }`,} options { tag =")).
Eval vm_compute in ("<<<M383>>>" ++ check (runes_of_ascii "MetaData
crc	{ char[] Z9_`{ , }`,} options { tag =
    false }")).
Eval vm_compute in ("<<<T383>>>" ++ terms [mkTok 37 "MetaData" 1 0 false; mkTok 42 "crc" 2 0 false; mkTok 2 "{" 2 4 false; mkTok 16 "char[]" 2 6 false; mkTok 42 "Z9_" 2 13 false; mkTok 43 "`{ , }`" 2 16 false; mkTok 40 "," 2 23 false; mkTok 3 "}" 2 24 false; mkTok 1 "options" 2 26 false; mkTok 2 "{" 2 34 false; mkTok 42 "tag" 2 36 false; mkTok 4 "=" 2 40 false; mkTok 11 "false" 3 4 false; mkTok 3 "}" 3 10 false; mkTok 0 "<EOF>" 3 11 false] (mkPacket (mkPtok 37 "MetaData" 1 0 0) (Some (mkPtok 3 "}" 3 10 13)) [(DMeta (mkMetaDef (mkSpan (mkPtok 37 "MetaData" 1 0 0) (mkPtok 3 "}" 2 24 7)) (mkPtok 37 "MetaData" 1 0 0) (mkPtok 42 "crc" 2 0 1) (mkPtok 2 "{" 2 4 2) [(MIDecl (mkMetaDecl (mkSpan (mkPtok 16 "char[]" 2 6 3) (mkPtok 40 "," 2 23 6)) (TyDynamic (mkSpan (mkPtok 16 "char[]" 2 6 3) (mkPtok 16 "char[]" 2 6 3)) (mkDynamicString (mkSpan (mkPtok 16 "char[]" 2 6 3) (mkPtok 16 "char[]" 2 6 3)) (mkPtok 16 "char[]" 2 6 3))) (mkPtok 42 "Z9_" 2 13 4) (Some (mkPtok 43 "`{ , }`" 2 16 5)) (mkPtok 40 "," 2 23 6)))] (mkPtok 3 "}" 2 24 7))); (DOption (mkOptionDef (mkSpan (mkPtok 1 "options" 2 26 8) (mkPtok 3 "}" 3 10 13)) (mkPtok 1 "options" 2 26 8) (mkPtok 2 "{" 2 34 9) [(mkOptionDecl (mkSpan (mkPtok 42 "tag" 2 36 10) (mkPtok 11 "false" 3 4 12)) (mkPtok 42 "tag" 2 36 10) (mkPtok 4 "=" 2 40 11) (VFalse (mkSpan (mkPtok 11 "false" 3 4 12) (mkPtok 11 "false" 3 4 12)) (mkPtok 11 "false" 3 4 12)) None)] (mkPtok 3 "}" 3 10 13)))])).
Eval vm_compute in ("<<<M393>>>" ++ check (runes_of_ascii "MetaData
crc	{ char[] Z9_`{ , }`,} options { tag =
    false } packet
// a // b
// @lengthOf(
Pad")).
Eval vm_compute in ("<<<M403>>>" ++ check (runes_of_ascii "MetaData
crc	{ char[] Z9_`{ , }`,} options { tag =
    false } packet
// a // b
// @lengthOf(
Pad {Foo")).
Eval vm_compute in ("<<<M413>>>" ++ check (runes_of_ascii "MetaData
crc	{ char[] Z9_`{ , }`,} options { tag =
    false } packet
// a // b
// @lengthOf(
Pad {Foo @calculatedFrom( // `tick` ""quote"" 'q'
""a\\""")).
Eval vm_compute in ("<<<M423>>>" ++ check (runes_of_ascii "MetaData
crc	{ char[] Z9_`{ , }`,} options { tag =
    false } packet
// a // b
// @lengthOf(
Pad {Foo @calculatedFrom( // `tick` ""quote"" 'q'
""a\\"" ) ,")).
Eval vm_compute in ("<<<M433>>>" ++ check (runes_of_ascii "MetaData
crc	{ char[] Z9_`{ , }`,} options { tag =
    false } packet
// a // b
// @lengthOf(
Pad {Foo @calculatedFrom( // `tick` ""quote"" 'q'
""a\\"" ) ,
    trueish ,")).
Eval vm_compute in ("<<<M443>>>" ++ check (runes_of_ascii "MetaData
crc	{ char[] Z9_`{ , }`,} options { tag =
    false } packet
// a // b
// @lengthOf(
Pad {Foo @calculatedFrom( // `tick` ""quote"" 'q'
""a\\"" ) ,
    trueish ,
    char[ 00")).
Eval vm_compute in ("<<<M453>>>" ++ check (runes_of_ascii "MetaData
crc	{ char[] Z9_`{ , }`,} options { tag =
    false } packet
// a // b
// @lengthOf(
Pad {Foo @calculatedFrom( // `tick` ""quote"" 'q'
""a\\"" ) ,
    trueish ,
    char[ 00]
    // " ++ [128512]%N ++ runes_of_ascii " emoji
    packetx")).
Eval vm_compute in ("<<<M463>>>" ++ check (runes_of_ascii "MetaData
crc	{ char[] Z9_`{ , }`,} options { tag =
    false } packet
// a // b
// @lengthOf(
Pad {Foo @calculatedFrom( // `tick` ""quote"" 'q'
""a\\"" ) ,
    trueish ,
    char[ 00]
    // " ++ [128512]%N ++ runes_of_ascii " emoji
    packetx , @x}
")).
Eval vm_compute in ("<<<M473>>>" ++ check (runes_of_ascii "MetaData
crc	{ char[] Z9_`{ , }`,} options ? { tag =
    false } packet
// a // b
// @lengthOf(
Pad {Foo @calculatedFrom( // `tick` ""quote"" 'q'
""a\\"" ) ,
    trueish ,
    char[ 00]
    // " ++ [128512]%N ++ runes_of_ascii " emoji
    packetx , }
")).
Eval vm_compute in ("<<<M483>>>" ++ check (runes_of_ascii "root packet _x	{")).
Eval vm_compute in ("<<<M493>>>" ++ check (runes_of_ascii "root packet _x	{ @rightPad (
' ' ) string u8x @lengthOf(
    _x
i64 , repeat Pad  { // " ++ [128512]%N ++ runes_of_ascii " emoji
As
// `tick` ""quote"" 'q'
//x
{matchKey chars,
} , }, }")).
Eval vm_compute in ("<<<M503>>>" ++ check (runes_of_ascii "root packet _x	{ zchar[ (
' ' ) string u8x @lengthOf(
    _x
) , repeat Pad  { // " ++ [128512]%N ++ runes_of_ascii " emoji
As
// `tick` ""quote"" 'q'
//x
{matchKey chars,
} , }, }")).
Eval vm_compute in ("<<<M513>>>" ++ check (runes_of_ascii "root , _x	{ @rightPad (
' ' ) string u8x @lengthOf(
    _x
) , repeat Pad  { // " ++ [128512]%N ++ runes_of_ascii " emoji
As
// `tick` ""quote"" 'q'
//x
{matchKey chars,
} , }, }")).
Eval vm_compute in ("<<<M523>>>" ++ check (runes_of_ascii "root packet _x	{ @rightPad (
' ' ) string u8x @lengthOf(
    _x
) , repeat Pad  { // " ++ [128512]%N ++ runes_of_ascii " emoji
As
// `tick` ""quote"" 'q'
//x
{matchKey "" chars,
} , }, }")).
Eval vm_compute in ("<<<M533>>>" ++ check (runes_of_ascii "root packet _x	{ @rightPad (
' ' ) string u8x @lengthOf(
    _x
) ,% repeat Pad  { // " ++ [128512]%N ++ runes_of_ascii " emoji
As
// `tick` ""quote"" 'q'
//x
{matchKey chars,
} , }, }")).
Eval vm_compute in ("<<<M543>>>" ++ check (runes_of_ascii "root packet _x	{ @rightPad (
' ' ) string u8x @lengthOf(
    _x
) , repeat Pad  { // " ++ [128512]%N ++ runes_of_ascii " emoji
As
// `tick` ""quote"" 'q'
//x
{matchKey chars,
] , }, }")).
Eval vm_compute in ("<<<M553>>>" ++ check (runes_of_ascii "root packet _x	{ @rightPad (
' ' ) string u8x u8x @lengthOf(
    _x
) , repeat Pad  { // " ++ [128512]%N ++ runes_of_ascii " emoji
As
// `tick` ""quote"" 'q'
//x
{matchKey chars,
} , }, }")).
Eval vm_compute in ("<<<M563>>>" ++ check (@nil rune)).
Eval vm_compute in ("<<<M573>>>" ++ check (runes_of_ascii "


")).
Eval vm_compute in ("<<<M583>>>" ++ check (runes_of_ascii "{ : , root string @leftPad char [ f32")).
Eval vm_compute in ("<<<M593>>>" ++ check (runes_of_ascii "u" ++ [605; 65533]%N ++ runes_of_ascii "#dh" ++ [65533; 65533]%N ++ runes_of_ascii "j " ++ [65533; 65533; 65533]%N ++ runes_of_ascii "l" ++ [65533]%N ++ runes_of_ascii "9G" ++ [65533; 65533]%N)).
