From FP Require Import Lexer Parser ShowPT Digest.
From Coq Require Import String List NArith.
Import ListNotations.
Open Scope string_scope.
Set Printing Width 100000000.
Set Printing Depth 100000000.
Definition nl : string := String (Ascii.ascii_of_nat 10) EmptyString.
Definition model_lex (rs : list rune) : string := show_toks (lex rs).
Definition model_parse (rs : list rune) : string :=
  show_pt (match lex rs with Some ts => parse ts | None => None end).
(* coqc is slow at printing long strings: digests first (Digest.v), full texts on demand *)
Definition check (rs : list rune) : string :=
  digest (model_lex rs) ++ " " ++ digest (model_parse rs).
Definition full (rs : list rune) : string := model_lex rs ++ nl ++ model_parse rs.
Definition terms (ts : list tok) (t : pt) : string :=
  digest (show_toks (Some ts)) ++ " " ++ digest (show_pt (Some t)) ++ " " ++ digest (show_pt (parse ts)).
Definition terms_full (ts : list tok) (t : pt) : string :=
  show_toks (Some ts) ++ nl ++ show_pt (Some t) ++ nl ++ show_pt (parse ts).
Eval vm_compute in ("<<<M3>>>" ++ check (runes_of_ascii "
options	{
} MetaData pack {string T ,
    msg_type
    // a // b
    stringy `" ++ [233]%N ++ runes_of_ascii "`
, }
    // " ++ [128512]%N ++ runes_of_ascii " emoji
    packet a1 {
// " ++ [128512]%N ++ runes_of_ascii " emoji
// packet A { u8 x, }
repeat i32 x , i16 msg_type @calculatedFrom( ""it's""
    )`two words` , } // " ++ [27880; 37322]%N)).
Eval vm_compute in ("<<<M13>>>" ++ check (runes_of_ascii "
packet msg_type
    // packet A { u8 x, }
    {//	t
string	packetx @lengthOf( charz )	, @calculatedFrom( """"  )
repeat char[ 0123456789
    ]
    // c
    int `it's` ,
    @rightPad (// packet A { u8 x, }
)
@tag( 42 )
    @calculatedFrom( ""`tick`""
) repeat
uint16
falsey  `" ++ [233]%N ++ runes_of_ascii "`
, i32 Foo , @tag(7 ) u64
chars@lengthOf(  BodyLength ), i16
    Z9_@lengthOf(/// triple
a1 ) ,@lengthOf(leftPad ) lengthOf body ``	, @tag(
    007 )
char[
    10 //x
]
_x
// a // b
// " ++ [27880; 37322]%N ++ runes_of_ascii "
@lengthOf(
    roots )	`
` , // a // b
@calculatedFrom(""a\\"" )
    float64 //	t
rootA`doc` , string T @calculatedFrom( """" ) , }")).
Eval vm_compute in ("<<<T13>>>" ++ terms [mkTok 35 "packet" 2 0 false; mkTok 42 "msg_type" 2 7 false; mkTok 44 "// packet A { u8 x, }" 3 4 true; mkTok 2 "{" 4 4 false; mkTok 44 (string_of_bytes [47; 47; 9; 116]%N) 4 5 true; mkTok 15 "string" 5 0 false; mkTok 42 "packetx" 5 7 false; mkTok 7 "@lengthOf(" 5 15 false; mkTok 42 "charz" 5 26 false; mkTok 6 ")" 5 32 false; mkTok 40 "," 5 34 false; mkTok 5 "@calculatedFrom(" 5 36 false; mkTok 31 """""" 5 53 false; mkTok 6 ")" 5 57 false; mkTok 36 "repeat" 6 0 false; mkTok 12 "char[" 6 7 false; mkTok 30 "0123456789" 6 13 false; mkTok 13 "]" 7 4 false; mkTok 44 "// c" 8 4 true; mkTok 42 "int" 9 4 false; mkTok 43 "`it's`" 9 8 false; mkTok 40 "," 9 15 false; mkTok 32 "@rightPad" 10 4 false; mkTok 8 "(" 10 14 false; mkTok 44 "// packet A { u8 x, }" 10 15 true; mkTok 6 ")" 11 0 false; mkTok 9 "@tag(" 12 0 false; mkTok 30 "42" 12 6 false; mkTok 6 ")" 12 9 false; mkTok 5 "@calculatedFrom(" 13 4 false; mkTok 31 """`tick`""" 13 21 false; mkTok 6 ")" 14 0 false; mkTok 36 "repeat" 14 2 false; mkTok 21 "uint16" 15 0 false; mkTok 42 "falsey" 16 0 false; mkTok 43 (string_of_bytes [96; 195; 169; 96]%N) 16 8 false; mkTok 40 "," 17 0 false; mkTok 26 "i32" 17 2 false; mkTok 42 "Foo" 17 6 false; mkTok 40 "," 17 10 false; mkTok 9 "@tag(" 17 12 false; mkTok 30 "7" 17 17 false; mkTok 6 ")" 17 19 false; mkTok 23 "u64" 17 21 false; mkTok 42 "chars" 18 0 false; mkTok 7 "@lengthOf(" 18 5 false; mkTok 42 "BodyLength" 18 17 false; mkTok 6 ")" 18 28 false; mkTok 40 "," 18 29 false; mkTok 25 "i16" 18 31 false; mkTok 42 "Z9_" 19 4 false; mkTok 7 "@lengthOf(" 19 7 false; mkTok 44 "/// triple" 19 17 true; mkTok 42 "a1" 20 0 false; mkTok 6 ")" 20 3 false; mkTok 40 "," 20 5 false; mkTok 7 "@lengthOf(" 20 6 false; mkTok 42 "leftPad" 20 16 false; mkTok 6 ")" 20 24 false; mkTok 42 "lengthOf" 20 26 false; mkTok 42 "body" 20 35 false; mkTok 43 "``" 20 40 false; mkTok 40 "," 20 43 false; mkTok 9 "@tag(" 20 45 false; mkTok 30 "007" 21 4 false; mkTok 6 ")" 21 8 false; mkTok 12 "char[" 22 0 false; mkTok 30 "10" 23 4 false; mkTok 44 "//x" 23 7 true; mkTok 13 "]" 24 0 false; mkTok 42 "_x" 25 0 false; mkTok 44 "// a // b" 26 0 true; mkTok 44 (string_of_bytes [47; 47; 32; 230; 179; 168; 233; 135; 138]%N) 27 0 true; mkTok 7 "@lengthOf(" 28 0 false; mkTok 42 "roots" 29 4 false; mkTok 6 ")" 29 10 false; mkTok 43 (string_of_bytes [96; 10; 96]%N) 29 12 false; mkTok 40 "," 30 2 false; mkTok 44 "// a // b" 30 4 true; mkTok 5 "@calculatedFrom(" 31 0 false; mkTok 31 """a\\""" 31 16 false; mkTok 6 ")" 31 22 false; mkTok 29 "float64" 32 4 false; mkTok 44 (string_of_bytes [47; 47; 9; 116]%N) 32 12 true; mkTok 42 "rootA" 33 0 false; mkTok 43 "`doc`" 33 5 false; mkTok 40 "," 33 11 false; mkTok 15 "string" 33 13 false; mkTok 42 "T" 33 20 false; mkTok 5 "@calculatedFrom(" 33 22 false; mkTok 31 """""" 33 39 false; mkTok 6 ")" 33 42 false; mkTok 40 "," 33 44 false; mkTok 3 "}" 33 46 false; mkTok 0 "<EOF>" 33 47 false] (mkPacket (mkPtok 35 "packet" 2 0 0) (Some (mkPtok 3 "}" 33 46 93)) [(DPacket (mkPacketDef (mkSpan (mkPtok 35 "packet" 2 0 0) (mkPtok 3 "}" 33 46 93)) None (mkPtok 35 "packet" 2 0 0) (mkPtok 42 "msg_type" 2 7 1) (mkPtok 2 "{" 4 4 3) [(mkFieldWithAttr (mkSpan (mkPtok 15 "string" 5 0 5) (mkPtok 40 "," 5 34 10)) [] (LengthField (mkSpan (mkPtok 15 "string" 5 0 5) (mkPtok 40 "," 5 34 10)) (mkLengthFieldDecl (mkSpan (mkPtok 15 "string" 5 0 5) (mkPtok 40 "," 5 34 10)) (Some (TyDynamic (mkSpan (mkPtok 15 "string" 5 0 5) (mkPtok 15 "string" 5 0 5)) (mkDynamicString (mkSpan (mkPtok 15 "string" 5 0 5) (mkPtok 15 "string" 5 0 5)) (mkPtok 15 "string" 5 0 5)))) (mkPtok 42 "packetx" 5 7 6) (mkLengthOf (mkSpan (mkPtok 7 "@lengthOf(" 5 15 7) (mkPtok 6 ")" 5 32 9)) (mkPtok 7 "@lengthOf(" 5 15 7) (mkPtok 42 "charz" 5 26 8) (mkPtok 6 ")" 5 32 9)) None (mkPtok 40 "," 5 34 10)))); (mkFieldWithAttr (mkSpan (mkPtok 5 "@calculatedFrom(" 5 36 11) (mkPtok 40 "," 9 15 21)) [(FACalculatedFrom (mkSpan (mkPtok 5 "@calculatedFrom(" 5 36 11) (mkPtok 6 ")" 5 57 13)) (mkCalculatedFrom (mkSpan (mkPtok 5 "@calculatedFrom(" 5 36 11) (mkPtok 6 ")" 5 57 13)) (mkPtok 5 "@calculatedFrom(" 5 36 11) (mkPtok 31 """""" 5 53 12) (mkPtok 6 ")" 5 57 13)))] (MetaField (mkSpan (mkPtok 36 "repeat" 6 0 14) (mkPtok 40 "," 9 15 21)) (Some (mkPtok 36 "repeat" 6 0 14)) (mkMetaDecl (mkSpan (mkPtok 12 "char[" 6 7 15) (mkPtok 40 "," 9 15 21)) (TyFixed (mkSpan (mkPtok 12 "char[" 6 7 15) (mkPtok 13 "]" 7 4 17)) (mkFixedString (mkSpan (mkPtok 12 "char[" 6 7 15) (mkPtok 13 "]" 7 4 17)) (mkPtok 12 "char[" 6 7 15) (mkPtok 30 "0123456789" 6 13 16) (mkPtok 13 "]" 7 4 17))) (mkPtok 42 "int" 9 4 19) (Some (mkPtok 43 "`it's`" 9 8 20)) (mkPtok 40 "," 9 15 21)))); (mkFieldWithAttr (mkSpan (mkPtok 32 "@rightPad" 10 4 22) (mkPtok 40 "," 17 0 36)) [(FAPadding (mkSpan (mkPtok 32 "@rightPad" 10 4 22) (mkPtok 6 ")" 11 0 25)) (mkPaddingAttr (mkSpan (mkPtok 32 "@rightPad" 10 4 22) (mkPtok 6 ")" 11 0 25)) (mkPtok 32 "@rightPad" 10 4 22) (mkPtok 8 "(" 10 14 23) None (mkPtok 6 ")" 11 0 25))); (FATag (mkSpan (mkPtok 9 "@tag(" 12 0 26) (mkPtok 6 ")" 12 9 28)) (mkTagAttr (mkSpan (mkPtok 9 "@tag(" 12 0 26) (mkPtok 6 ")" 12 9 28)) (mkPtok 9 "@tag(" 12 0 26) (mkPtok 30 "42" 12 6 27) (mkPtok 6 ")" 12 9 28))); (FACalculatedFrom (mkSpan (mkPtok 5 "@calculatedFrom(" 13 4 29) (mkPtok 6 ")" 14 0 31)) (mkCalculatedFrom (mkSpan (mkPtok 5 "@calculatedFrom(" 13 4 29) (mkPtok 6 ")" 14 0 31)) (mkPtok 5 "@calculatedFrom(" 13 4 29) (mkPtok 31 """`tick`""" 13 21 30) (mkPtok 6 ")" 14 0 31)))] (MetaField (mkSpan (mkPtok 36 "repeat" 14 2 32) (mkPtok 40 "," 17 0 36)) (Some (mkPtok 36 "repeat" 14 2 32)) (mkMetaDecl (mkSpan (mkPtok 21 "uint16" 15 0 33) (mkPtok 40 "," 17 0 36)) (TyBasic (mkSpan (mkPtok 21 "uint16" 15 0 33) (mkPtok 21 "uint16" 15 0 33)) (mkBasicType (mkSpan (mkPtok 21 "uint16" 15 0 33) (mkPtok 21 "uint16" 15 0 33)) (mkPtok 21 "uint16" 15 0 33))) (mkPtok 42 "falsey" 16 0 34) (Some (mkPtok 43 (string_of_bytes [96; 195; 169; 96]%N) 16 8 35)) (mkPtok 40 "," 17 0 36)))); (mkFieldWithAttr (mkSpan (mkPtok 26 "i32" 17 2 37) (mkPtok 40 "," 17 10 39)) [] (MetaField (mkSpan (mkPtok 26 "i32" 17 2 37) (mkPtok 40 "," 17 10 39)) None (mkMetaDecl (mkSpan (mkPtok 26 "i32" 17 2 37) (mkPtok 40 "," 17 10 39)) (TyBasic (mkSpan (mkPtok 26 "i32" 17 2 37) (mkPtok 26 "i32" 17 2 37)) (mkBasicType (mkSpan (mkPtok 26 "i32" 17 2 37) (mkPtok 26 "i32" 17 2 37)) (mkPtok 26 "i32" 17 2 37))) (mkPtok 42 "Foo" 17 6 38) None (mkPtok 40 "," 17 10 39)))); (mkFieldWithAttr (mkSpan (mkPtok 9 "@tag(" 17 12 40) (mkPtok 40 "," 18 29 48)) [(FATag (mkSpan (mkPtok 9 "@tag(" 17 12 40) (mkPtok 6 ")" 17 19 42)) (mkTagAttr (mkSpan (mkPtok 9 "@tag(" 17 12 40) (mkPtok 6 ")" 17 19 42)) (mkPtok 9 "@tag(" 17 12 40) (mkPtok 30 "7" 17 17 41) (mkPtok 6 ")" 17 19 42)))] (LengthField (mkSpan (mkPtok 23 "u64" 17 21 43) (mkPtok 40 "," 18 29 48)) (mkLengthFieldDecl (mkSpan (mkPtok 23 "u64" 17 21 43) (mkPtok 40 "," 18 29 48)) (Some (TyBasic (mkSpan (mkPtok 23 "u64" 17 21 43) (mkPtok 23 "u64" 17 21 43)) (mkBasicType (mkSpan (mkPtok 23 "u64" 17 21 43) (mkPtok 23 "u64" 17 21 43)) (mkPtok 23 "u64" 17 21 43)))) (mkPtok 42 "chars" 18 0 44) (mkLengthOf (mkSpan (mkPtok 7 "@lengthOf(" 18 5 45) (mkPtok 6 ")" 18 28 47)) (mkPtok 7 "@lengthOf(" 18 5 45) (mkPtok 42 "BodyLength" 18 17 46) (mkPtok 6 ")" 18 28 47)) None (mkPtok 40 "," 18 29 48)))); (mkFieldWithAttr (mkSpan (mkPtok 25 "i16" 18 31 49) (mkPtok 40 "," 20 5 55)) [] (LengthField (mkSpan (mkPtok 25 "i16" 18 31 49) (mkPtok 40 "," 20 5 55)) (mkLengthFieldDecl (mkSpan (mkPtok 25 "i16" 18 31 49) (mkPtok 40 "," 20 5 55)) (Some (TyBasic (mkSpan (mkPtok 25 "i16" 18 31 49) (mkPtok 25 "i16" 18 31 49)) (mkBasicType (mkSpan (mkPtok 25 "i16" 18 31 49) (mkPtok 25 "i16" 18 31 49)) (mkPtok 25 "i16" 18 31 49)))) (mkPtok 42 "Z9_" 19 4 50) (mkLengthOf (mkSpan (mkPtok 7 "@lengthOf(" 19 7 51) (mkPtok 6 ")" 20 3 54)) (mkPtok 7 "@lengthOf(" 19 7 51) (mkPtok 42 "a1" 20 0 53) (mkPtok 6 ")" 20 3 54)) None (mkPtok 40 "," 20 5 55)))); (mkFieldWithAttr (mkSpan (mkPtok 7 "@lengthOf(" 20 6 56) (mkPtok 40 "," 20 43 62)) [(FALengthOf (mkSpan (mkPtok 7 "@lengthOf(" 20 6 56) (mkPtok 6 ")" 20 24 58)) (mkLengthOf (mkSpan (mkPtok 7 "@lengthOf(" 20 6 56) (mkPtok 6 ")" 20 24 58)) (mkPtok 7 "@lengthOf(" 20 6 56) (mkPtok 42 "leftPad" 20 16 57) (mkPtok 6 ")" 20 24 58)))] (ObjectField (mkSpan (mkPtok 42 "lengthOf" 20 26 59) (mkPtok 40 "," 20 43 62)) None (mkPtok 42 "lengthOf" 20 26 59) (Some (mkPtok 42 "body" 20 35 60)) (Some (mkPtok 43 "``" 20 40 61)) (mkPtok 40 "," 20 43 62))); (mkFieldWithAttr (mkSpan (mkPtok 9 "@tag(" 20 45 63) (mkPtok 40 "," 30 2 77)) [(FATag (mkSpan (mkPtok 9 "@tag(" 20 45 63) (mkPtok 6 ")" 21 8 65)) (mkTagAttr (mkSpan (mkPtok 9 "@tag(" 20 45 63) (mkPtok 6 ")" 21 8 65)) (mkPtok 9 "@tag(" 20 45 63) (mkPtok 30 "007" 21 4 64) (mkPtok 6 ")" 21 8 65)))] (LengthField (mkSpan (mkPtok 12 "char[" 22 0 66) (mkPtok 40 "," 30 2 77)) (mkLengthFieldDecl (mkSpan (mkPtok 12 "char[" 22 0 66) (mkPtok 40 "," 30 2 77)) (Some (TyFixed (mkSpan (mkPtok 12 "char[" 22 0 66) (mkPtok 13 "]" 24 0 69)) (mkFixedString (mkSpan (mkPtok 12 "char[" 22 0 66) (mkPtok 13 "]" 24 0 69)) (mkPtok 12 "char[" 22 0 66) (mkPtok 30 "10" 23 4 67) (mkPtok 13 "]" 24 0 69)))) (mkPtok 42 "_x" 25 0 70) (mkLengthOf (mkSpan (mkPtok 7 "@lengthOf(" 28 0 73) (mkPtok 6 ")" 29 10 75)) (mkPtok 7 "@lengthOf(" 28 0 73) (mkPtok 42 "roots" 29 4 74) (mkPtok 6 ")" 29 10 75)) (Some (mkPtok 43 (string_of_bytes [96; 10; 96]%N) 29 12 76)) (mkPtok 40 "," 30 2 77)))); (mkFieldWithAttr (mkSpan (mkPtok 5 "@calculatedFrom(" 31 0 79) (mkPtok 40 "," 33 11 86)) [(FACalculatedFrom (mkSpan (mkPtok 5 "@calculatedFrom(" 31 0 79) (mkPtok 6 ")" 31 22 81)) (mkCalculatedFrom (mkSpan (mkPtok 5 "@calculatedFrom(" 31 0 79) (mkPtok 6 ")" 31 22 81)) (mkPtok 5 "@calculatedFrom(" 31 0 79) (mkPtok 31 """a\\""" 31 16 80) (mkPtok 6 ")" 31 22 81)))] (MetaField (mkSpan (mkPtok 29 "float64" 32 4 82) (mkPtok 40 "," 33 11 86)) None (mkMetaDecl (mkSpan (mkPtok 29 "float64" 32 4 82) (mkPtok 40 "," 33 11 86)) (TyBasic (mkSpan (mkPtok 29 "float64" 32 4 82) (mkPtok 29 "float64" 32 4 82)) (mkBasicType (mkSpan (mkPtok 29 "float64" 32 4 82) (mkPtok 29 "float64" 32 4 82)) (mkPtok 29 "float64" 32 4 82))) (mkPtok 42 "rootA" 33 0 84) (Some (mkPtok 43 "`doc`" 33 5 85)) (mkPtok 40 "," 33 11 86)))); (mkFieldWithAttr (mkSpan (mkPtok 15 "string" 33 13 87) (mkPtok 40 "," 33 44 92)) [] (CheckSumField (mkSpan (mkPtok 15 "string" 33 13 87) (mkPtok 40 "," 33 44 92)) (mkChecksumFieldDecl (mkSpan (mkPtok 15 "string" 33 13 87) (mkPtok 40 "," 33 44 92)) (Some (TyDynamic (mkSpan (mkPtok 15 "string" 33 13 87) (mkPtok 15 "string" 33 13 87)) (mkDynamicString (mkSpan (mkPtok 15 "string" 33 13 87) (mkPtok 15 "string" 33 13 87)) (mkPtok 15 "string" 33 13 87)))) (mkPtok 42 "T" 33 20 88) (mkCalculatedFrom (mkSpan (mkPtok 5 "@calculatedFrom(" 33 22 89) (mkPtok 6 ")" 33 42 91)) (mkPtok 5 "@calculatedFrom(" 33 22 89) (mkPtok 31 """""" 33 39 90) (mkPtok 6 ")" 33 42 91)) None (mkPtok 40 "," 33 44 92))))] (mkPtok 3 "}" 33 46 93)))])).
Eval vm_compute in ("<<<M23>>>" ++ check (runes_of_ascii "options
    // a // b
    {
float	= char[ 4294967296 ] ; }
")).
Eval vm_compute in ("<<<M33>>>" ++ check (runes_of_ascii "options	{
    // `tick` ""quote"" 'q'
    Foo
= zchar[
    1
]uint8x =""// no comment"" Pad
=
    //
    char[] ;
    A
= 4294967296
    a1 = ""`tick`"" ; } packet BodyLength  {
@calculatedFrom(
""packet"" ) roots `// not a comment`,@tag( 10 ) f32 uint8x/// triple
`" ++ [28040; 24687; 31867; 22411]%N ++ runes_of_ascii "`
,	}

")).
Eval vm_compute in ("<<<M43>>>" ++ check (runes_of_ascii "packet	BodyLength { repeat f32a Pad`// not a comment` ,
// " ++ [128512]%N ++ runes_of_ascii " emoji
// c
}
MetaData As { }options { crc
    // packet A { u8 x, }
    =
""a\\""
float= '\x00'
    a1 // c
= ' ';i8i8 =
    4294967296
}	packet u128 {
// `tick` ""quote"" 'q'
//
match //x
stringy as o{ ""`tick`""  : Foo  , [ 4294967296 ]	: x_y_z ,} ,zchar[ /// triple
10 ] // `tick` ""quote"" 'q'
Packet@lengthOf(u8x
),
@lengthOf(
roots) // " ++ [27880; 37322]%N ++ runes_of_ascii "
x
    `// not a comment` , i64
    asx @lengthOf( rootA ) , metadata ,
i64_ @calculatedFrom(  ""\" ++ [233]%N ++ runes_of_ascii """ ) ,	@lengthOf(u128
) repeat o `two words` , }
")).
Eval vm_compute in ("<<<M53>>>" ++ check (runes_of_ascii "packet BodyLength {}
")).
Eval vm_compute in ("<<<M63>>>" ++ check (runes_of_ascii "options
{  chars =
    /// triple
    char; o
    /// triple
    = true u128 =
    ""x y"" ;} packet	chars
    { @calculatedFrom( ""\n"" )repeat f64 packetx  ,  @tag(4294967296 ) float32 Header
, zchar[
007
]float `// not a comment`
    ,
    }
options  {
stringy = zchar[ 7 ] ;}")).
Eval vm_compute in ("<<<M73>>>" ++ check (runes_of_ascii "// " ++ [27880; 37322]%N ++ runes_of_ascii "
packet  matchKey{
    }
// c
")).
Eval vm_compute in ("<<<M83>>>" ++ check (runes_of_ascii "
root packet // `tick` ""quote"" 'q'
rootA { @rightPad (
) @leftPad(	) @lengthOf(  MetaDataX  )float// c
u128`a\` , // `tick` ""quote"" 'q'
}
")).
Eval vm_compute in ("<<<T83>>>" ++ terms [mkTok 34 "root" 2 0 false; mkTok 35 "packet" 2 5 false; mkTok 44 "// `tick` ""quote"" 'q'" 2 12 true; mkTok 42 "rootA" 3 0 false; mkTok 2 "{" 3 6 false; mkTok 32 "@rightPad" 3 8 false; mkTok 8 "(" 3 18 false; mkTok 6 ")" 4 0 false; mkTok 32 "@leftPad" 4 2 false; mkTok 8 "(" 4 10 false; mkTok 6 ")" 4 12 false; mkTok 7 "@lengthOf(" 4 14 false; mkTok 42 "MetaDataX" 4 26 false; mkTok 6 ")" 4 37 false; mkTok 42 "float" 4 38 false; mkTok 44 "// c" 4 43 true; mkTok 42 "u128" 5 0 false; mkTok 43 "`a\`" 5 4 false; mkTok 40 "," 5 9 false; mkTok 44 "// `tick` ""quote"" 'q'" 5 11 true; mkTok 3 "}" 6 0 false; mkTok 0 "<EOF>" 7 0 false] (mkPacket (mkPtok 34 "root" 2 0 0) (Some (mkPtok 3 "}" 6 0 20)) [(DPacket (mkPacketDef (mkSpan (mkPtok 34 "root" 2 0 0) (mkPtok 3 "}" 6 0 20)) (Some (mkPtok 34 "root" 2 0 0)) (mkPtok 35 "packet" 2 5 1) (mkPtok 42 "rootA" 3 0 3) (mkPtok 2 "{" 3 6 4) [(mkFieldWithAttr (mkSpan (mkPtok 32 "@rightPad" 3 8 5) (mkPtok 40 "," 5 9 18)) [(FAPadding (mkSpan (mkPtok 32 "@rightPad" 3 8 5) (mkPtok 6 ")" 4 0 7)) (mkPaddingAttr (mkSpan (mkPtok 32 "@rightPad" 3 8 5) (mkPtok 6 ")" 4 0 7)) (mkPtok 32 "@rightPad" 3 8 5) (mkPtok 8 "(" 3 18 6) None (mkPtok 6 ")" 4 0 7))); (FAPadding (mkSpan (mkPtok 32 "@leftPad" 4 2 8) (mkPtok 6 ")" 4 12 10)) (mkPaddingAttr (mkSpan (mkPtok 32 "@leftPad" 4 2 8) (mkPtok 6 ")" 4 12 10)) (mkPtok 32 "@leftPad" 4 2 8) (mkPtok 8 "(" 4 10 9) None (mkPtok 6 ")" 4 12 10))); (FALengthOf (mkSpan (mkPtok 7 "@lengthOf(" 4 14 11) (mkPtok 6 ")" 4 37 13)) (mkLengthOf (mkSpan (mkPtok 7 "@lengthOf(" 4 14 11) (mkPtok 6 ")" 4 37 13)) (mkPtok 7 "@lengthOf(" 4 14 11) (mkPtok 42 "MetaDataX" 4 26 12) (mkPtok 6 ")" 4 37 13)))] (ObjectField (mkSpan (mkPtok 42 "float" 4 38 14) (mkPtok 40 "," 5 9 18)) None (mkPtok 42 "float" 4 38 14) (Some (mkPtok 42 "u128" 5 0 16)) (Some (mkPtok 43 "`a\`" 5 4 17)) (mkPtok 40 "," 5 9 18)))] (mkPtok 3 "}" 6 0 20)))])).
Eval vm_compute in ("<<<M93>>>" ++ check (runes_of_ascii "//	t
packet
packetx { zchar , @lengthOf( x_y_z )o ,
}
    packet  Packet // " ++ [128512]%N ++ runes_of_ascii " emoji
{ match u128 as // a // b
Header{ [
    7
    ,""1""
]: u
    , ""x y"" :
charz 0123456789 : calculatedFrom
//	t
//x
} ,// " ++ [27880; 37322]%N ++ runes_of_ascii "
repeat  roots
tag
    ,}")).
Eval vm_compute in ("<<<M103>>>" ++ check (runes_of_ascii "packet i8i8{ matchKey //x
, match trueish
//	t
// c
as roots
{  [ 00 ] : int , 255 :  u128  ,	3 : matchKey , [ 65535 ]
    :
// c
//
trueish , //	t
}
    , } packet packetx{ }
packet
u8x {@tag(
3
    )
    match x_y_z as
leftPad
{ [ 7 ]:  u8x }
    , @tag(  42
) int64 lengthOf ,@tag(
255 )	zchar[ 7 ]	o , A ,@tag( 0
    // @lengthOf(
    ) repeat lengthOf u8x, }
")).
Eval vm_compute in ("<<<M113>>>" ++ check (runes_of_ascii "


")).
Eval vm_compute in ("<<<M123>>>" ++ check (runes_of_ascii "options{
i64_ = ""`tick`""}

")).
Eval vm_compute in ("<<<M133>>>" ++ check (runes_of_ascii "MetaData msg_type
    { char[]
    int
    ,  char[ 255 ]
o ,
    // `tick` ""quote"" 'q'
    }")).
Eval vm_compute in ("<<<M143>>>" ++ check (runes_of_ascii "//x
MetaData falsey{ string Pad , }
")).
Eval vm_compute in ("<<<M153>>>" ++ check (runes_of_ascii "root packet	BodyLength
    {
    // " ++ [27880; 37322]%N ++ runes_of_ascii "
    @lengthOf( asx) repeat char[ 007
] matchKey ,char[]
MetaDataX @lengthOf(
Foo) `tab	here` ,
repeat uint64 //	t
f32a
, }")).
Eval vm_compute in ("<<<T153>>>" ++ terms [mkTok 34 "root" 1 0 false; mkTok 35 "packet" 1 5 false; mkTok 42 "BodyLength" 1 12 false; mkTok 2 "{" 2 4 false; mkTok 44 (string_of_bytes [47; 47; 32; 230; 179; 168; 233; 135; 138]%N) 3 4 true; mkTok 7 "@lengthOf(" 4 4 false; mkTok 42 "asx" 4 15 false; mkTok 6 ")" 4 18 false; mkTok 36 "repeat" 4 20 false; mkTok 12 "char[" 4 27 false; mkTok 30 "007" 4 33 false; mkTok 13 "]" 5 0 false; mkTok 42 "matchKey" 5 2 false; mkTok 40 "," 5 11 false; mkTok 16 "char[]" 5 12 false; mkTok 42 "MetaDataX" 6 0 false; mkTok 7 "@lengthOf(" 6 10 false; mkTok 42 "Foo" 7 0 false; mkTok 6 ")" 7 3 false; mkTok 43 (string_of_bytes [96; 116; 97; 98; 9; 104; 101; 114; 101; 96]%N) 7 5 false; mkTok 40 "," 7 16 false; mkTok 36 "repeat" 8 0 false; mkTok 23 "uint64" 8 7 false; mkTok 44 (string_of_bytes [47; 47; 9; 116]%N) 8 14 true; mkTok 42 "f32a" 9 0 false; mkTok 40 "," 10 0 false; mkTok 3 "}" 10 2 false; mkTok 0 "<EOF>" 10 3 false] (mkPacket (mkPtok 34 "root" 1 0 0) (Some (mkPtok 3 "}" 10 2 26)) [(DPacket (mkPacketDef (mkSpan (mkPtok 34 "root" 1 0 0) (mkPtok 3 "}" 10 2 26)) (Some (mkPtok 34 "root" 1 0 0)) (mkPtok 35 "packet" 1 5 1) (mkPtok 42 "BodyLength" 1 12 2) (mkPtok 2 "{" 2 4 3) [(mkFieldWithAttr (mkSpan (mkPtok 7 "@lengthOf(" 4 4 5) (mkPtok 40 "," 5 11 13)) [(FALengthOf (mkSpan (mkPtok 7 "@lengthOf(" 4 4 5) (mkPtok 6 ")" 4 18 7)) (mkLengthOf (mkSpan (mkPtok 7 "@lengthOf(" 4 4 5) (mkPtok 6 ")" 4 18 7)) (mkPtok 7 "@lengthOf(" 4 4 5) (mkPtok 42 "asx" 4 15 6) (mkPtok 6 ")" 4 18 7)))] (MetaField (mkSpan (mkPtok 36 "repeat" 4 20 8) (mkPtok 40 "," 5 11 13)) (Some (mkPtok 36 "repeat" 4 20 8)) (mkMetaDecl (mkSpan (mkPtok 12 "char[" 4 27 9) (mkPtok 40 "," 5 11 13)) (TyFixed (mkSpan (mkPtok 12 "char[" 4 27 9) (mkPtok 13 "]" 5 0 11)) (mkFixedString (mkSpan (mkPtok 12 "char[" 4 27 9) (mkPtok 13 "]" 5 0 11)) (mkPtok 12 "char[" 4 27 9) (mkPtok 30 "007" 4 33 10) (mkPtok 13 "]" 5 0 11))) (mkPtok 42 "matchKey" 5 2 12) None (mkPtok 40 "," 5 11 13)))); (mkFieldWithAttr (mkSpan (mkPtok 16 "char[]" 5 12 14) (mkPtok 40 "," 7 16 20)) [] (LengthField (mkSpan (mkPtok 16 "char[]" 5 12 14) (mkPtok 40 "," 7 16 20)) (mkLengthFieldDecl (mkSpan (mkPtok 16 "char[]" 5 12 14) (mkPtok 40 "," 7 16 20)) (Some (TyDynamic (mkSpan (mkPtok 16 "char[]" 5 12 14) (mkPtok 16 "char[]" 5 12 14)) (mkDynamicString (mkSpan (mkPtok 16 "char[]" 5 12 14) (mkPtok 16 "char[]" 5 12 14)) (mkPtok 16 "char[]" 5 12 14)))) (mkPtok 42 "MetaDataX" 6 0 15) (mkLengthOf (mkSpan (mkPtok 7 "@lengthOf(" 6 10 16) (mkPtok 6 ")" 7 3 18)) (mkPtok 7 "@lengthOf(" 6 10 16) (mkPtok 42 "Foo" 7 0 17) (mkPtok 6 ")" 7 3 18)) (Some (mkPtok 43 (string_of_bytes [96; 116; 97; 98; 9; 104; 101; 114; 101; 96]%N) 7 5 19)) (mkPtok 40 "," 7 16 20)))); (mkFieldWithAttr (mkSpan (mkPtok 36 "repeat" 8 0 21) (mkPtok 40 "," 10 0 25)) [] (MetaField (mkSpan (mkPtok 36 "repeat" 8 0 21) (mkPtok 40 "," 10 0 25)) (Some (mkPtok 36 "repeat" 8 0 21)) (mkMetaDecl (mkSpan (mkPtok 23 "uint64" 8 7 22) (mkPtok 40 "," 10 0 25)) (TyBasic (mkSpan (mkPtok 23 "uint64" 8 7 22) (mkPtok 23 "uint64" 8 7 22)) (mkBasicType (mkSpan (mkPtok 23 "uint64" 8 7 22) (mkPtok 23 "uint64" 8 7 22)) (mkPtok 23 "uint64" 8 7 22))) (mkPtok 42 "f32a" 9 0 24) None (mkPtok 40 "," 10 0 25))))] (mkPtok 3 "}" 10 2 26)))])).
Eval vm_compute in ("<<<M163>>>" ++ check (runes_of_ascii "packet asx {
    }
    // packet A { u8 x, }
    options
    { options1
= float64 leftPad
=true ; MetaDataX =char[00] ; roots=false }// " ++ [128512]%N ++ runes_of_ascii " emoji
packet string_{
    }

")).
Eval vm_compute in ("<<<M173>>>" ++ check (runes_of_ascii "packet A {
@lengthOf(
    lengthOf)int16 packetx // trailing space 
@calculatedFrom(""1"" )
    , repeat u64 Packet`
` , match trueish as /// triple
roots { 3
: A ,""x y""
// " ++ [27880; 37322]%N ++ runes_of_ascii "
//
:
BodyLength
    //
    ,
    42:Foo  , },
} packet As	{
    msg_type @lengthOf(
    /// triple
    u )
    , }root packet
    zchar
    {i8i8 i8i8
`
` ,zchar
    {int8	Foo
`a\`  , },
    f32 pack @lengthOf(
crc
// packet A { u8 x, }
// c
) , @calculatedFrom( ""{,}""	) // " ++ [27880; 37322]%N ++ runes_of_ascii "
match crc as
roots { 65535 : int ""packet""
:  float ,00 : zchar
// packet A { u8 x, }
// `tick` ""quote"" 'q'
, [ ""x y""] :
options1, ""it's""
:x, } , @lengthOf(
Packet)
    match x
    //	t
    as As{ //	t
0: lengthOf
,
    //	t
    3 : pack , ""it's""  : x_y_z ,
""a\""b"" : metadata
} , uint16
    i8i8, } // a // b")).
Eval vm_compute in ("<<<M183>>>" ++ check (runes_of_ascii "
packet Foo {	} packet MetaDataX
    {char[]	Logon
// trailing space 
//
,  }root packet MetaDataX { match Z9_ as zchar{
7 : zchar , } , }")).
Eval vm_compute in ("<<<M193>>>" ++ check (runes_of_ascii "packet Packet { @tag(	65535 ) @leftPad ( ' '
    )
@tag( 255
    /// triple
    )
    uint8
len
    @lengthOf( T), int32 u8x , @lengthOf( rootA )float32 i64_
`u8 x,` , } packet// c
int { repeat	i8i8
{lengthOf
    @lengthOf( int)`line1
line2`
, string	falsey `
` ,uint16
// `tick` ""quote"" 'q'
// trailing space 
roots
@lengthOf(
charz), } , }options
    { Foo = ' '	len  = """ ++ [128512]%N ++ runes_of_ascii """
; chars= u64 ;
//x
//
uint8x // a // b
=	""" ++ [128512]%N ++ runes_of_ascii """
    // trailing space 
    ;metadata= ' ' ; }
    // " ++ [27880; 37322]%N ++ runes_of_ascii "
    MetaData Header
    // " ++ [27880; 37322]%N ++ runes_of_ascii "
    {
i16
    matchKey,Packet Packet `u8 x,`  , }packet u128 {uint8x
@lengthOf(charz) `u8 x,`	, }
")).
Eval vm_compute in ("<<<M203>>>" ++ check (runes_of_ascii "/// triple
MetaData roots
    { string
Z9_ `say ""hi""`
    //
    ,o
    tag ,char[4294967296 // " ++ [128512]%N ++ runes_of_ascii " emoji
] body `crlf
line`
,
    _x lengthOf `tab	here` , } options { repeatCount	= ""x y"" ; T = """ ++ [28040; 24687]%N ++ runes_of_ascii """ }
    /// triple
    packet int{ @calculatedFrom( ""CRC32"" )int64 f32a, roots @calculatedFrom( ""it's"" )`` ,@calculatedFrom(""a\\"" )@tag( 007 ) char[ 255//	t
] crc @lengthOf(packetx )
    ,
match
    Pad as string_ { [""\" ++ [233]%N ++ runes_of_ascii """,3
    // " ++ [27880; 37322]%N ++ runes_of_ascii "
    ] : lengthOf  ,[ 42
    ]:
// packet A { u8 x, }
// packet A { u8 x, }
body ,
7 : i8i8
    ,0123456789:
options1
,//x
[ 00 ] : Z9_ ,  }// @lengthOf(
,float
,// " ++ [27880; 37322]%N ++ runes_of_ascii "
} MetaData zchar
    {
    zchar[
3 ]
    options1
    `line1
line2` ,}  packet asx
{ zchar[
    42// " ++ [128512]%N ++ runes_of_ascii " emoji
]
falsey ,	@calculatedFrom(
""1""
)
repeat string As `" ++ [233]%N ++ runes_of_ascii "`, char[] trueish
    , int32 Header , repeat  stringy
`crlf
line`, string
x_y_z,
f64 T
//x
// `tick` ""quote"" 'q'
, uint8x
@lengthOf( charz
)
    `a\` , }")).
Eval vm_compute in ("<<<M213>>>" ++ check (runes_of_ascii "  root packet// " ++ [128512]%N ++ runes_of_ascii " emoji
o
    {
    @calculatedFrom( ""a\""b"" //x
) repeat crc ,	@tag( 10  )
x_y_z, }
")).
Eval vm_compute in ("<<<M223>>>" ++ check (runes_of_ascii "  root packet charz{}")).
Eval vm_compute in ("<<<T223>>>" ++ terms [mkTok 34 "root" 1 2 false; mkTok 35 "packet" 1 7 false; mkTok 42 "charz" 1 14 false; mkTok 2 "{" 1 19 false; mkTok 3 "}" 1 20 false; mkTok 0 "<EOF>" 1 21 false] (mkPacket (mkPtok 34 "root" 1 2 0) (Some (mkPtok 3 "}" 1 20 4)) [(DPacket (mkPacketDef (mkSpan (mkPtok 34 "root" 1 2 0) (mkPtok 3 "}" 1 20 4)) (Some (mkPtok 34 "root" 1 2 0)) (mkPtok 35 "packet" 1 7 1) (mkPtok 42 "charz" 1 14 2) (mkPtok 2 "{" 1 19 3) [] (mkPtok 3 "}" 1 20 4)))])).
Eval vm_compute in ("<<<M233>>>" ++ check (runes_of_ascii "root
packet Logon	{/// triple
@calculatedFrom(
    ""`tick`"" ) @rightPad ( ' '  )
    @tag(
    42 ) //	t
char[ 3 ]
trueish  @lengthOf(
matchKey
    // @lengthOf(
    ) `" ++ [233]%N ++ runes_of_ascii "` ,}
")).
Eval vm_compute in ("<<<M243>>>" ++ check (runes_of_ascii "options
{ f32a= zchar[3
//
// c
]
// " ++ [128512]%N ++ runes_of_ascii " emoji
//	t
}	packet falsey
{
Z9_ ,body
    @calculatedFrom( //
""\n""
// packet A { u8 x, }
// c
)
    ,} options { }
")).
Eval vm_compute in ("<<<M253>>>" ++ check (runes_of_ascii "
packet/// triple
packetx {
} // " ++ [27880; 37322]%N)).
Eval vm_compute in ("<<<M263>>>" ++ check (runes_of_ascii "options{
} packet matchKey { repeat
int32 packetx, zchar[
    10
    //x
    ] Packet
    ,@lengthOf(string_
) @tag( 007 ) @tag( 255 )// @lengthOf(
Z9_ @calculatedFrom( """ ++ [28040; 24687]%N ++ runes_of_ascii """ ) ,
@lengthOf(
// `tick` ""quote"" 'q'
// `tick` ""quote"" 'q'
asx
) @calculatedFrom(
    // trailing space 
    ""CRC32"" )
string
_x,
    @calculatedFrom( """"
    ) @lengthOf(
trueish)x , @leftPad (
)
// `tick` ""quote"" 'q'
/// triple
zchar[ 4294967296 ]
    float , @lengthOf(
    // trailing space 
    u128
    )//	t
Logon{repeat char[]x `u8 x,`, // packet A { u8 x, }
} , @tag(
1) f64 Z9_ ,
u32 i64_
`crlf
line`  , @rightPad
// `tick` ""quote"" 'q'
// @lengthOf(
( '\x00'	) @leftPad (	) repeat float32
uint8x , }
root packet
u128
    // `tick` ""quote"" 'q'
    { i32
    charz //	t
@lengthOf( crc
) `u8 x,`  ,// a // b
@tag(
65535 // " ++ [128512]%N ++ runes_of_ascii " emoji
)// trailing space 
@lengthOf( f32a ) repeat// " ++ [27880; 37322]%N ++ runes_of_ascii "
Logon
`{ , }`
    , @rightPad (
    ' ' ) @tag(65535
)
    repeat trueish , i32
lengthOf
    // `tick` ""quote"" 'q'
    , }")).
Eval vm_compute in ("<<<M273>>>" ++ check (runes_of_ascii "MetaData u128 { uint8x msg_type `line1
line2`	, }")).
Eval vm_compute in ("<<<M283>>>" ++ check (@nil rune)).
Eval vm_compute in ("<<<M293>>>" ++ check (runes_of_ascii "
MetaData matchKey { i16
lengthOf, int16
    asx `it's`
    ,
    chars metadata `
` , char[ 00 ] u128 ,// " ++ [128512]%N ++ runes_of_ascii " emoji
zchar[ 007 ] falsey
,  uint64 packetx
, }
    packet string_
    {
}root
packet stringy{u64 packetx	@lengthOf( falsey // @lengthOf(
) `crlf
line` , falsey options1
    , repeat char[] calculatedFrom , @rightPad ( '\x00' )
i64 // c
charz
    @lengthOf(
    x_y_z )
    `u8 x,`,
// @lengthOf(
//x
@lengthOf( rootA )char[] BodyLength `it's`
, msg_type@calculatedFrom( // trailing space 
""packet"") ,
    // " ++ [27880; 37322]%N ++ runes_of_ascii "
    lengthOf {zchar[
65535	]tag
`
`
    , }
    , } 	 ")).
Eval vm_compute in ("<<<T293>>>" ++ terms [mkTok 37 "MetaData" 2 0 false; mkTok 42 "matchKey" 2 9 false; mkTok 2 "{" 2 18 false; mkTok 25 "i16" 2 20 false; mkTok 42 "lengthOf" 3 0 false; mkTok 40 "," 3 8 false; mkTok 25 "int16" 3 10 false; mkTok 42 "asx" 4 4 false; mkTok 43 "`it's`" 4 8 false; mkTok 40 "," 5 4 false; mkTok 42 "chars" 6 4 false; mkTok 42 "metadata" 6 10 false; mkTok 43 (string_of_bytes [96; 10; 96]%N) 6 19 false; mkTok 40 "," 7 2 false; mkTok 12 "char[" 7 4 false; mkTok 30 "00" 7 10 false; mkTok 13 "]" 7 13 false; mkTok 42 "u128" 7 15 false; mkTok 40 "," 7 20 false; mkTok 44 (string_of_bytes [47; 47; 32; 240; 159; 152; 128; 32; 101; 109; 111; 106; 105]%N) 7 21 true; mkTok 14 "zchar[" 8 0 false; mkTok 30 "007" 8 7 false; mkTok 13 "]" 8 11 false; mkTok 42 "falsey" 8 13 false; mkTok 40 "," 9 0 false; mkTok 23 "uint64" 9 3 false; mkTok 42 "packetx" 9 10 false; mkTok 40 "," 10 0 false; mkTok 3 "}" 10 2 false; mkTok 35 "packet" 11 4 false; mkTok 42 "string_" 11 11 false; mkTok 2 "{" 12 4 false; mkTok 3 "}" 13 0 false; mkTok 34 "root" 13 1 false; mkTok 35 "packet" 14 0 false; mkTok 42 "stringy" 14 7 false; mkTok 2 "{" 14 14 false; mkTok 23 "u64" 14 15 false; mkTok 42 "packetx" 14 19 false; mkTok 7 "@lengthOf(" 14 27 false; mkTok 42 "falsey" 14 38 false; mkTok 44 "// @lengthOf(" 14 45 true; mkTok 6 ")" 15 0 false; mkTok 43 (string_of_bytes [96; 99; 114; 108; 102; 13; 10; 108; 105; 110; 101; 96]%N) 15 2 false; mkTok 40 "," 16 6 false; mkTok 42 "falsey" 16 8 false; mkTok 42 "options1" 16 15 false; mkTok 40 "," 17 4 false; mkTok 36 "repeat" 17 6 false; mkTok 16 "char[]" 17 13 false; mkTok 42 "calculatedFrom" 17 20 false; mkTok 40 "," 17 35 false; mkTok 32 "@rightPad" 17 37 false; mkTok 8 "(" 17 47 false; mkTok 33 "'\x00'" 17 49 false; mkTok 6 ")" 17 56 false; mkTok 27 "i64" 18 0 false; mkTok 44 "// c" 18 4 true; mkTok 42 "charz" 19 0 false; mkTok 7 "@lengthOf(" 20 4 false; mkTok 42 "x_y_z" 21 4 false; mkTok 6 ")" 21 10 false; mkTok 43 "`u8 x,`" 22 4 false; mkTok 40 "," 22 11 false; mkTok 44 "// @lengthOf(" 23 0 true; mkTok 44 "//x" 24 0 true; mkTok 7 "@lengthOf(" 25 0 false; mkTok 42 "rootA" 25 11 false; mkTok 6 ")" 25 17 false; mkTok 16 "char[]" 25 18 false; mkTok 42 "BodyLength" 25 25 false; mkTok 43 "`it's`" 25 36 false; mkTok 40 "," 26 0 false; mkTok 42 "msg_type" 26 2 false; mkTok 5 "@calculatedFrom(" 26 10 false; mkTok 44 "// trailing space " 26 27 true; mkTok 31 """packet""" 27 0 false; mkTok 6 ")" 27 8 false; mkTok 40 "," 27 10 false; mkTok 44 (string_of_bytes [47; 47; 32; 230; 179; 168; 233; 135; 138]%N) 28 4 true; mkTok 42 "lengthOf" 29 4 false; mkTok 2 "{" 29 13 false; mkTok 14 "zchar[" 29 14 false; mkTok 30 "65535" 30 0 false; mkTok 13 "]" 30 6 false; mkTok 42 "tag" 30 7 false; mkTok 43 (string_of_bytes [96; 10; 96]%N) 31 0 false; mkTok 40 "," 33 4 false; mkTok 3 "}" 33 6 false; mkTok 40 "," 34 4 false; mkTok 3 "}" 34 6 false; mkTok 0 "<EOF>" 34 10 false] (mkPacket (mkPtok 37 "MetaData" 2 0 0) (Some (mkPtok 3 "}" 34 6 90)) [(DMeta (mkMetaDef (mkSpan (mkPtok 37 "MetaData" 2 0 0) (mkPtok 3 "}" 10 2 28)) (mkPtok 37 "MetaData" 2 0 0) (mkPtok 42 "matchKey" 2 9 1) (mkPtok 2 "{" 2 18 2) [(MIDecl (mkMetaDecl (mkSpan (mkPtok 25 "i16" 2 20 3) (mkPtok 40 "," 3 8 5)) (TyBasic (mkSpan (mkPtok 25 "i16" 2 20 3) (mkPtok 25 "i16" 2 20 3)) (mkBasicType (mkSpan (mkPtok 25 "i16" 2 20 3) (mkPtok 25 "i16" 2 20 3)) (mkPtok 25 "i16" 2 20 3))) (mkPtok 42 "lengthOf" 3 0 4) None (mkPtok 40 "," 3 8 5))); (MIDecl (mkMetaDecl (mkSpan (mkPtok 25 "int16" 3 10 6) (mkPtok 40 "," 5 4 9)) (TyBasic (mkSpan (mkPtok 25 "int16" 3 10 6) (mkPtok 25 "int16" 3 10 6)) (mkBasicType (mkSpan (mkPtok 25 "int16" 3 10 6) (mkPtok 25 "int16" 3 10 6)) (mkPtok 25 "int16" 3 10 6))) (mkPtok 42 "asx" 4 4 7) (Some (mkPtok 43 "`it's`" 4 8 8)) (mkPtok 40 "," 5 4 9))); (MIRef (mkRefMetaDecl (mkSpan (mkPtok 42 "chars" 6 4 10) (mkPtok 40 "," 7 2 13)) (mkPtok 42 "chars" 6 4 10) (mkPtok 42 "metadata" 6 10 11) (Some (mkPtok 43 (string_of_bytes [96; 10; 96]%N) 6 19 12)) (mkPtok 40 "," 7 2 13))); (MIDecl (mkMetaDecl (mkSpan (mkPtok 12 "char[" 7 4 14) (mkPtok 40 "," 7 20 18)) (TyFixed (mkSpan (mkPtok 12 "char[" 7 4 14) (mkPtok 13 "]" 7 13 16)) (mkFixedString (mkSpan (mkPtok 12 "char[" 7 4 14) (mkPtok 13 "]" 7 13 16)) (mkPtok 12 "char[" 7 4 14) (mkPtok 30 "00" 7 10 15) (mkPtok 13 "]" 7 13 16))) (mkPtok 42 "u128" 7 15 17) None (mkPtok 40 "," 7 20 18))); (MIDecl (mkMetaDecl (mkSpan (mkPtok 14 "zchar[" 8 0 20) (mkPtok 40 "," 9 0 24)) (TyFixed (mkSpan (mkPtok 14 "zchar[" 8 0 20) (mkPtok 13 "]" 8 11 22)) (mkFixedString (mkSpan (mkPtok 14 "zchar[" 8 0 20) (mkPtok 13 "]" 8 11 22)) (mkPtok 14 "zchar[" 8 0 20) (mkPtok 30 "007" 8 7 21) (mkPtok 13 "]" 8 11 22))) (mkPtok 42 "falsey" 8 13 23) None (mkPtok 40 "," 9 0 24))); (MIDecl (mkMetaDecl (mkSpan (mkPtok 23 "uint64" 9 3 25) (mkPtok 40 "," 10 0 27)) (TyBasic (mkSpan (mkPtok 23 "uint64" 9 3 25) (mkPtok 23 "uint64" 9 3 25)) (mkBasicType (mkSpan (mkPtok 23 "uint64" 9 3 25) (mkPtok 23 "uint64" 9 3 25)) (mkPtok 23 "uint64" 9 3 25))) (mkPtok 42 "packetx" 9 10 26) None (mkPtok 40 "," 10 0 27)))] (mkPtok 3 "}" 10 2 28))); (DPacket (mkPacketDef (mkSpan (mkPtok 35 "packet" 11 4 29) (mkPtok 3 "}" 13 0 32)) None (mkPtok 35 "packet" 11 4 29) (mkPtok 42 "string_" 11 11 30) (mkPtok 2 "{" 12 4 31) [] (mkPtok 3 "}" 13 0 32))); (DPacket (mkPacketDef (mkSpan (mkPtok 34 "root" 13 1 33) (mkPtok 3 "}" 34 6 90)) (Some (mkPtok 34 "root" 13 1 33)) (mkPtok 35 "packet" 14 0 34) (mkPtok 42 "stringy" 14 7 35) (mkPtok 2 "{" 14 14 36) [(mkFieldWithAttr (mkSpan (mkPtok 23 "u64" 14 15 37) (mkPtok 40 "," 16 6 44)) [] (LengthField (mkSpan (mkPtok 23 "u64" 14 15 37) (mkPtok 40 "," 16 6 44)) (mkLengthFieldDecl (mkSpan (mkPtok 23 "u64" 14 15 37) (mkPtok 40 "," 16 6 44)) (Some (TyBasic (mkSpan (mkPtok 23 "u64" 14 15 37) (mkPtok 23 "u64" 14 15 37)) (mkBasicType (mkSpan (mkPtok 23 "u64" 14 15 37) (mkPtok 23 "u64" 14 15 37)) (mkPtok 23 "u64" 14 15 37)))) (mkPtok 42 "packetx" 14 19 38) (mkLengthOf (mkSpan (mkPtok 7 "@lengthOf(" 14 27 39) (mkPtok 6 ")" 15 0 42)) (mkPtok 7 "@lengthOf(" 14 27 39) (mkPtok 42 "falsey" 14 38 40) (mkPtok 6 ")" 15 0 42)) (Some (mkPtok 43 (string_of_bytes [96; 99; 114; 108; 102; 13; 10; 108; 105; 110; 101; 96]%N) 15 2 43)) (mkPtok 40 "," 16 6 44)))); (mkFieldWithAttr (mkSpan (mkPtok 42 "falsey" 16 8 45) (mkPtok 40 "," 17 4 47)) [] (ObjectField (mkSpan (mkPtok 42 "falsey" 16 8 45) (mkPtok 40 "," 17 4 47)) None (mkPtok 42 "falsey" 16 8 45) (Some (mkPtok 42 "options1" 16 15 46)) None (mkPtok 40 "," 17 4 47))); (mkFieldWithAttr (mkSpan (mkPtok 36 "repeat" 17 6 48) (mkPtok 40 "," 17 35 51)) [] (MetaField (mkSpan (mkPtok 36 "repeat" 17 6 48) (mkPtok 40 "," 17 35 51)) (Some (mkPtok 36 "repeat" 17 6 48)) (mkMetaDecl (mkSpan (mkPtok 16 "char[]" 17 13 49) (mkPtok 40 "," 17 35 51)) (TyDynamic (mkSpan (mkPtok 16 "char[]" 17 13 49) (mkPtok 16 "char[]" 17 13 49)) (mkDynamicString (mkSpan (mkPtok 16 "char[]" 17 13 49) (mkPtok 16 "char[]" 17 13 49)) (mkPtok 16 "char[]" 17 13 49))) (mkPtok 42 "calculatedFrom" 17 20 50) None (mkPtok 40 "," 17 35 51)))); (mkFieldWithAttr (mkSpan (mkPtok 32 "@rightPad" 17 37 52) (mkPtok 40 "," 22 11 63)) [(FAPadding (mkSpan (mkPtok 32 "@rightPad" 17 37 52) (mkPtok 6 ")" 17 56 55)) (mkPaddingAttr (mkSpan (mkPtok 32 "@rightPad" 17 37 52) (mkPtok 6 ")" 17 56 55)) (mkPtok 32 "@rightPad" 17 37 52) (mkPtok 8 "(" 17 47 53) (Some (mkPtok 33 "'\x00'" 17 49 54)) (mkPtok 6 ")" 17 56 55)))] (LengthField (mkSpan (mkPtok 27 "i64" 18 0 56) (mkPtok 40 "," 22 11 63)) (mkLengthFieldDecl (mkSpan (mkPtok 27 "i64" 18 0 56) (mkPtok 40 "," 22 11 63)) (Some (TyBasic (mkSpan (mkPtok 27 "i64" 18 0 56) (mkPtok 27 "i64" 18 0 56)) (mkBasicType (mkSpan (mkPtok 27 "i64" 18 0 56) (mkPtok 27 "i64" 18 0 56)) (mkPtok 27 "i64" 18 0 56)))) (mkPtok 42 "charz" 19 0 58) (mkLengthOf (mkSpan (mkPtok 7 "@lengthOf(" 20 4 59) (mkPtok 6 ")" 21 10 61)) (mkPtok 7 "@lengthOf(" 20 4 59) (mkPtok 42 "x_y_z" 21 4 60) (mkPtok 6 ")" 21 10 61)) (Some (mkPtok 43 "`u8 x,`" 22 4 62)) (mkPtok 40 "," 22 11 63)))); (mkFieldWithAttr (mkSpan (mkPtok 7 "@lengthOf(" 25 0 66) (mkPtok 40 "," 26 0 72)) [(FALengthOf (mkSpan (mkPtok 7 "@lengthOf(" 25 0 66) (mkPtok 6 ")" 25 17 68)) (mkLengthOf (mkSpan (mkPtok 7 "@lengthOf(" 25 0 66) (mkPtok 6 ")" 25 17 68)) (mkPtok 7 "@lengthOf(" 25 0 66) (mkPtok 42 "rootA" 25 11 67) (mkPtok 6 ")" 25 17 68)))] (MetaField (mkSpan (mkPtok 16 "char[]" 25 18 69) (mkPtok 40 "," 26 0 72)) None (mkMetaDecl (mkSpan (mkPtok 16 "char[]" 25 18 69) (mkPtok 40 "," 26 0 72)) (TyDynamic (mkSpan (mkPtok 16 "char[]" 25 18 69) (mkPtok 16 "char[]" 25 18 69)) (mkDynamicString (mkSpan (mkPtok 16 "char[]" 25 18 69) (mkPtok 16 "char[]" 25 18 69)) (mkPtok 16 "char[]" 25 18 69))) (mkPtok 42 "BodyLength" 25 25 70) (Some (mkPtok 43 "`it's`" 25 36 71)) (mkPtok 40 "," 26 0 72)))); (mkFieldWithAttr (mkSpan (mkPtok 42 "msg_type" 26 2 73) (mkPtok 40 "," 27 10 78)) [] (CheckSumField (mkSpan (mkPtok 42 "msg_type" 26 2 73) (mkPtok 40 "," 27 10 78)) (mkChecksumFieldDecl (mkSpan (mkPtok 42 "msg_type" 26 2 73) (mkPtok 40 "," 27 10 78)) None (mkPtok 42 "msg_type" 26 2 73) (mkCalculatedFrom (mkSpan (mkPtok 5 "@calculatedFrom(" 26 10 74) (mkPtok 6 ")" 27 8 77)) (mkPtok 5 "@calculatedFrom(" 26 10 74) (mkPtok 31 """packet""" 27 0 76) (mkPtok 6 ")" 27 8 77)) None (mkPtok 40 "," 27 10 78)))); (mkFieldWithAttr (mkSpan (mkPtok 42 "lengthOf" 29 4 80) (mkPtok 40 "," 34 4 89)) [] (InerObjectField (mkSpan (mkPtok 42 "lengthOf" 29 4 80) (mkPtok 40 "," 34 4 89)) None (InerObjectDecl (mkSpan (mkPtok 42 "lengthOf" 29 4 80) (mkPtok 3 "}" 33 6 88)) (mkPtok 42 "lengthOf" 29 4 80) (mkPtok 2 "{" 29 13 81) [(MetaField (mkSpan (mkPtok 14 "zchar[" 29 14 82) (mkPtok 40 "," 33 4 87)) None (mkMetaDecl (mkSpan (mkPtok 14 "zchar[" 29 14 82) (mkPtok 40 "," 33 4 87)) (TyFixed (mkSpan (mkPtok 14 "zchar[" 29 14 82) (mkPtok 13 "]" 30 6 84)) (mkFixedString (mkSpan (mkPtok 14 "zchar[" 29 14 82) (mkPtok 13 "]" 30 6 84)) (mkPtok 14 "zchar[" 29 14 82) (mkPtok 30 "65535" 30 0 83) (mkPtok 13 "]" 30 6 84))) (mkPtok 42 "tag" 30 7 85) (Some (mkPtok 43 (string_of_bytes [96; 10; 96]%N) 31 0 86)) (mkPtok 40 "," 33 4 87)))] (mkPtok 3 "}" 33 6 88)) (mkPtok 40 "," 34 4 89)))] (mkPtok 3 "}" 34 6 90)))])).
Eval vm_compute in ("<<<M303>>>" ++ check (runes_of_ascii "options {
    StringPrefixLenType = u16;
    ArrayPrefixLenType = u16;
}

packet SampleBinary {
    uint16 MsgType `" ++ [28040; 24687; 31867; 22411]%N ++ runes_of_ascii "`,
    u16 BodyLenght @lengthOf(Body) `" ++ [28040; 24687; 20307; 38271; 24230]%N ++ runes_of_ascii "`,
    match MsgType as Body {
        1 : Logon,
        2 : Logout,
        3 : Heartbeat,
        4 : RiskControlRequest,
        5 : RiskControlResponse,
    },
    @calculatedFrom(""CRC32"")
    u32 Ckecksum `" ++ [26657; 39564; 21644]%N ++ runes_of_ascii "`,
}

packet Logon {
    @leftPad('0')
    char[10] UserName `" ++ [29992; 25143; 21517]%N ++ runes_of_ascii "`,
    string Password `" ++ [23494; 30721]%N ++ runes_of_ascii "`,
    uint64 ClientId `" ++ [23458; 25143; 31471]%N ++ runes_of_ascii "ID`,
    u16 HeartbeatInterval `" ++ [24515; 36339; 38388; 38548]%N ++ runes_of_ascii "`,
}

packet Logout {
    @rightPad('0')
    char[10] UserName `" ++ [29992; 25143; 21517]%N ++ runes_of_ascii "`,
    uint64 ClientId `" ++ [23458; 25143; 31471]%N ++ runes_of_ascii "ID`,
}

packet Heartbeat {
}

packet RiskControlRequest {
    string UniqueOrderId `" ++ [21807; 19968; 35746; 21333; 21495]%N ++ runes_of_ascii "`,
    char[16] ClOrdID `" ++ [23458; 25143; 35746; 21333; 21495]%N ++ runes_of_ascii "`,
    char[3] MarketID `" ++ [24066; 22330]%N ++ runes_of_ascii "id`,
    char[12] SecurityID `" ++ [35777; 21048; 20195; 30721]%N ++ runes_of_ascii "`,
    char Side `" ++ [20080; 21334; 26041; 21521]%N ++ runes_of_ascii "`,
    char OrderType `" ++ [35746; 21333; 31867; 22411]%N ++ runes_of_ascii "`,
    u64 Price `" ++ [20215; 26684]%N ++ runes_of_ascii "`,
    u32 Qty `" ++ [25968; 37327]%N ++ runes_of_ascii "`,
    repeat string ExtraInfo `" ++ [38468; 21152; 20449; 24687]%N ++ runes_of_ascii "`,
    repeat SubOrder {
        char[16] ClOrdID `" ++ [23376; 35746; 21333; 21495]%N ++ runes_of_ascii "`,
        u64 Price `" ++ [23376; 35746; 21333; 20215; 26684]%N ++ runes_of_ascii "`,
        u32 Qty `" ++ [23376; 35746; 21333; 25968; 37327]%N ++ runes_of_ascii "`,
    },
}

packet RiskControlResponse {
    string UniqueOrderId `" ++ [21807; 19968; 35746; 21333; 21495]%N ++ runes_of_ascii "`,
    i32 Status `" ++ [29366; 24577]%N ++ runes_of_ascii "`,
    string Msg `" ++ [32467; 26524; 20449; 24687]%N ++ runes_of_ascii "`,
    repeat Detail,
}

packet Detail {
    string RuleName `" ++ [35268; 21017; 21517; 31216]%N ++ runes_of_ascii "`,
    u16 Code `" ++ [21407; 22240; 20195; 30721]%N ++ runes_of_ascii "`,
}")).
Eval vm_compute in ("<<<M313>>>" ++ check (@nil rune)).
Eval vm_compute in ("<<<M323>>>" ++ check (runes_of_ascii "packet
asx")).
Eval vm_compute in ("<<<M333>>>" ++ check (runes_of_ascii "packet
asx
{ Z9_")).
Eval vm_compute in ("<<<M343>>>" ++ check (runes_of_ascii "packet
asx
{ Z9_ Header// " ++ [128512]%N ++ runes_of_ascii " emoji
,")).
Eval vm_compute in ("<<<M353>>>" ++ check (runes_of_ascii "packet
asx
{ Z9_ Header// " ++ [128512]%N ++ runes_of_ascii " emoji
,} packet")).
Eval vm_compute in ("<<<M363>>>" ++ check (runes_of_ascii "packet
asx
{ Z9_ Header// " ++ [128512]%N ++ runes_of_ascii " emoji")).
Eval vm_compute in ("<<<M373>>>" ++ check (runes_of_ascii "packet
asx
{ Z9_ Header// " ++ [128512]%N ++ runes_of_ascii " emoji
,} packet pac@k
    { }
")).
Eval vm_compute in ("<<<M383>>>" ++ check (runes_of_ascii "packet
asx
{ Z9_ x" ++ [178]%N ++ runes_of_ascii "// " ++ [128512]%N ++ runes_of_ascii " emoji
,} packet pack
    { }
")).
Eval vm_compute in ("<<<M393>>>" ++ check (runes_of_ascii "MetaData @tag( { char[ // `tick` ""quote"" 'q'
3] body, } packet o{
u8
charz ,
    }")).
Eval vm_compute in ("<<<M403>>>" ++ check (runes_of_ascii "MetaData o { ; // `tick` ""quote"" 'q'
3] body, } packet o{
u8
charz ,
    }")).
Eval vm_compute in ("<<<M413>>>" ++ check (runes_of_ascii "MetaData o { char[ // `tick` ""quote"" 'q'
3@lengthOf( body, } packet o{
u8
charz ,
    }")).
Eval vm_compute in ("<<<M423>>>" ++ check (runes_of_ascii "MetaData o { char[ // `tick` ""quote"" 'q'
3] body root } packet o{
u8
charz ,
    }")).
Eval vm_compute in ("<<<M433>>>" ++ check (runes_of_ascii "MetaData o { char[ // `tick` ""quote"" 'q'
3] body, } ' ' o{
u8
charz ,
    }")).
Eval vm_compute in ("<<<M443>>>" ++ check (runes_of_ascii "MetaData o { char[ // `tick` ""quote"" 'q'
3] body, } packet o[
u8
charz ,
    }")).
Eval vm_compute in ("<<<M453>>>" ++ check (runes_of_ascii "MetaData o { char[ // `tick` ""quote"" 'q'
3] body, } packet o{
u8
'\x00' ,
    }")).
Eval vm_compute in ("<<<M463>>>" ++ check (runes_of_ascii "MetaData o { char[ // `tick` ""quote"" 'q'
3] body, } packet o{
u8
charz ,")).
Eval vm_compute in ("<<<M473>>>" ++ check (runes_of_ascii "MetaData o { char[ // `tick` ""quote"" 'q'
3] body, } packet o'\x01'{
u8
charz ,
    }")).
Eval vm_compute in ("<<<M483>>>" ++ check (runes_of_ascii "MetaData o { char[ // `tick` ""quote"" 'q'
3] a" ++ [769]%N ++ runes_of_ascii "b, } packet o{
u8
charz ,
    }")).
Eval vm_compute in ("<<<M493>>>" ++ check (runes_of_ascii "options calculatedFrom{ =	int8 ;}

")).
Eval vm_compute in ("<<<M503>>>" ++ check (runes_of_ascii "options {calculatedFrom int8	= ;}

")).
Eval vm_compute in ("<<<M513>>>" ++ check (runes_of_ascii "options {calculatedFrom =	int8 };

")).
Eval vm_compute in ("<<<M523>>>" ++ check (runes_of_ascii "options {calculatedF")).
Eval vm_compute in ("<<<M533>>>" ++ check (runes_of_ascii "options {@xcalculatedFrom =	int8 ;}

")).
Eval vm_compute in ("<<<M543>>>" ++ check (runes_of_ascii "
MetaData chars { {Logon packetx,
    float calculatedFrom
,  u32 i64_ ,	}")).
Eval vm_compute in ("<<<M553>>>" ++ check (runes_of_ascii "
MetaData chars {Logon packetx,
    float calculatedFrom
,  u32  ,	}")).
Eval vm_compute in ("<<<M563>>>" ++ check (@nil rune)).
Eval vm_compute in ("<<<M573>>>" ++ check (runes_of_ascii "


")).
Eval vm_compute in ("<<<M583>>>" ++ check (runes_of_ascii "@tag( @rightPad [ , @calculatedFrom( string int16 ) uint8x true char char[] @tag( zchar[")).
Eval vm_compute in ("<<<M593>>>" ++ check ([65533]%N ++ runes_of_ascii "P" ++ [65533]%N ++ runes_of_ascii "a" ++ [65533; 65533; 65533; 65533]%N ++ runes_of_ascii "H" ++ [65533; 65533; 65533; 65533; 65533; 65533; 65533]%N)).
