From FP Require Import Lexer Parser ShowPT Digest.
From Coq Require Import String List NArith.
Import ListNotations.
Open Scope string_scope.
Set Printing Width 100000000.
Set Printing Depth 100000000.
Definition nl : string := String (Ascii.ascii_of_nat 10) EmptyString.
Definition model_lex (rs : list rune) : string := show_toks (lex rs).
Definition model_parse (rs : list rune) : string :=
  show_pt (match lex rs with Some ts => parse ts | None => None end).
(* coqc is slow at printing long strings: digests first (Digest.v), full texts on demand *)
Definition check (rs : list rune) : string :=
  digest (model_lex rs) ++ " " ++ digest (model_parse rs).
Definition full (rs : list rune) : string := model_lex rs ++ nl ++ model_parse rs.
Definition terms (ts : list tok) (t : pt) : string :=
  digest (show_toks (Some ts)) ++ " " ++ digest (show_pt (Some t)) ++ " " ++ digest (show_pt (parse ts)).
Definition terms_full (ts : list tok) (t : pt) : string :=
  show_toks (Some ts) ++ nl ++ show_pt (Some t) ++ nl ++ show_pt (parse ts).
Eval vm_compute in ("<<<M2>>>" ++ check (runes_of_ascii "packet metadata
{
    charz	@calculatedFrom(
    // `tick` ""quote"" 'q'
    ""CRC32"")
,
    MetaDataX, } packet uint8x	{ }
    options{//
}options{ u8x= """ ++ [128512]%N ++ runes_of_ascii """; crc = 0123456789 ; stringy
    =
false;
rootA = float32 ; }

")).
Eval vm_compute in ("<<<M12>>>" ++ check (runes_of_ascii "options	{
    // `tick` ""quote"" 'q'
    _x// trailing space 
=""" ++ [28040; 24687]%N ++ runes_of_ascii """ ; }
")).
Eval vm_compute in ("<<<M22>>>" ++ check (runes_of_ascii "
MetaData string_ { uint32 f32a `crlf
line` ,
    zchar[ 0123456789
    ]string_ `100% of %d`,stringy// `tick` ""quote"" 'q'
u	`it's` ,char
    Z9_
, a1
f32a // c
,	char[ 1 ] a1
,
    }
")).
Eval vm_compute in ("<<<M32>>>" ++ check (runes_of_ascii "

")).
Eval vm_compute in ("<<<M42>>>" ++ check (runes_of_ascii "options	{
    // 50% %s
    Foo
=
zchar[ 1
    ]
uint8x= ""// no comment""Pad =
char[]
    // 50% %s
    ; // c
A
    =
4294967296 a1
    = ""`tick`"" ; } packet BodyLength {  @calculatedFrom(
""packet""
) roots `100% of %d` ,@tag(10 ) f32 uint8x `{ , }`/// triple
,
}
")).
Eval vm_compute in ("<<<M52>>>" ++ check (runes_of_ascii "options  { o =// `tick` ""quote"" 'q'
true
// trailing space 
//x
;Z9_  =false ; Z9_ =""" ++ [128512]%N ++ runes_of_ascii """;
    // " ++ [27880; 37322]%N ++ runes_of_ascii "
    } root packet f32a{  int8 metadata
,
@leftPad (
//x
// @lengthOf(
)
float32	int
`100% of %d` , } packet float {@calculatedFrom( ""// no comment"") @tag( 65535 ) @lengthOf(
msg_type ) match
    u as A
{
[ 007 , 7// a // b
, ""x y"", 7, ""{,}"" ]: rootA ,
    """ ++ [128512]%N ++ runes_of_ascii """
    : packetx 0: i8i8
, 4294967296 :
zchar
, 4294967296
    :
x, }
, float32 uint8x
// 50% %s
// c
, match string_ as packetx { """ ++ [128512]%N ++ runes_of_ascii """: stringy, ""\n""
    : x
,""""	:
zchar , 1 : tag ,
    3
: Foo
// trailing space 
//x
,
[ 00]
    :  leftPad , // a // b
},  @calculatedFrom(""1"")
uint64
f32a,@calculatedFrom( ""// no comment"" ) char[
00 ]	trueish	@calculatedFrom( ""a\""b""
)`// not a comment`, repeatCount// 50% %s
{
char /// triple
charz  ,
float64 falsey	@lengthOf(
    chars)  `doc`
,
// " ++ [128512]%N ++ runes_of_ascii " emoji
//
uint16 crc
, int32 pack
    `doc` ,
}  , //x
Foo
    @calculatedFrom(// @lengthOf(
""a\""b""
)
`
`
    // trailing space 
    , zchar @lengthOf(
body ) , }

")).
Eval vm_compute in ("<<<M62>>>" ++ check (runes_of_ascii "
options{ Z9_ =7 ;zchar=	f64  ; }
")).
Eval vm_compute in ("<<<T62>>>" ++ terms [mkTok 1 "options" 2 0 false; mkTok 2 "{" 2 7 false; mkTok 42 "Z9_" 2 9 false; mkTok 4 "=" 2 13 false; mkTok 30 "7" 2 14 false; mkTok 41 ";" 2 16 false; mkTok 42 "zchar" 2 17 false; mkTok 4 "=" 2 22 false; mkTok 29 "f64" 2 24 false; mkTok 41 ";" 2 29 false; mkTok 3 "}" 2 31 false; mkTok 0 "<EOF>" 3 0 false] (mkPacket (mkPtok 1 "options" 2 0 0) (Some (mkPtok 3 "}" 2 31 10)) [(DOption (mkOptionDef (mkSpan (mkPtok 1 "options" 2 0 0) (mkPtok 3 "}" 2 31 10)) (mkPtok 1 "options" 2 0 0) (mkPtok 2 "{" 2 7 1) [(mkOptionDecl (mkSpan (mkPtok 42 "Z9_" 2 9 2) (mkPtok 41 ";" 2 16 5)) (mkPtok 42 "Z9_" 2 9 2) (mkPtok 4 "=" 2 13 3) (VDigits (mkSpan (mkPtok 30 "7" 2 14 4) (mkPtok 30 "7" 2 14 4)) (mkPtok 30 "7" 2 14 4)) (Some (mkPtok 41 ";" 2 16 5))); (mkOptionDecl (mkSpan (mkPtok 42 "zchar" 2 17 6) (mkPtok 41 ";" 2 29 9)) (mkPtok 42 "zchar" 2 17 6) (mkPtok 4 "=" 2 22 7) (VType (mkSpan (mkPtok 29 "f64" 2 24 8) (mkPtok 29 "f64" 2 24 8)) (TyBasic (mkSpan (mkPtok 29 "f64" 2 24 8) (mkPtok 29 "f64" 2 24 8)) (mkBasicType (mkSpan (mkPtok 29 "f64" 2 24 8) (mkPtok 29 "f64" 2 24 8)) (mkPtok 29 "f64" 2 24 8)))) (Some (mkPtok 41 ";" 2 29 9)))] (mkPtok 3 "}" 2 31 10)))])).
Eval vm_compute in ("<<<M72>>>" ++ check (runes_of_ascii "root
    packet //
repeatCount {
    char[] crc `{ , }`
    // `tick` ""quote"" 'q'
    , T { i64_
// a // b
/// triple
asx
, } ,
    // " ++ [27880; 37322]%N ++ runes_of_ascii "
    @leftPad('0' ) char[
    /// triple
    00
    ]
    a1
    @lengthOf( Logon
)
    // c
    `it's` ,
    @tag( 00 )	@calculatedFrom(	""" ++ [233]%N ++ runes_of_ascii "t" ++ [233]%N ++ runes_of_ascii """ )
int32 x ,} root packet tag {}
")).
Eval vm_compute in ("<<<M82>>>" ++ check (runes_of_ascii "
packet Logon  {
match o
as x_y_z {// `tick` ""quote"" 'q'
""x y""
    /// triple
    : matchKey , ""\n"" :
pack """ ++ [128512]%N ++ runes_of_ascii """ :	int[ """ ++ [128512]%N ++ runes_of_ascii """ //	t
,
""// no comment""
] :  x }// @lengthOf(
,} // c")).
Eval vm_compute in ("<<<M92>>>" ++ check (runes_of_ascii "MetaData rootA
    {}
options{ rootA= '\x00' zchar
    ='0' rootA= float64 ;  trueish	= 3 i64_
= float64 ; } options{
    body
= '0'
    ;T= ""CRC32"";matchKey = char[] ; }	packet
rootA {
    // " ++ [128512]%N ++ runes_of_ascii " emoji
    @lengthOf( //
Z9_)
    @rightPad('0' ) Packet calculatedFrom , }packet
body
    { match metadata
as asx {
    3 : Header 3: packetx	, [  10]
:	Packet, """"
// 50% %s
// " ++ [27880; 37322]%N ++ runes_of_ascii "
:
pack
//x
// packet A { u8 x, }
, 10  : // `tick` ""quote"" 'q'
pack // `tick` ""quote"" 'q'
[
    255 , // a // b
"""",00 ,
""it's"" ] :
x }
// c
/// triple
,
    }
")).
Eval vm_compute in ("<<<M102>>>" ++ check (runes_of_ascii "
 	 ")).
Eval vm_compute in ("<<<M112>>>" ++ check (runes_of_ascii "// 50% %s
packet leftPad	{ } packet Packet
{
@lengthOf(	chars  ) repeat u128 u8x`" ++ [233]%N ++ runes_of_ascii "`
, }
")).
Eval vm_compute in ("<<<M122>>>" ++ check (runes_of_ascii "// @lengthOf(
packet
trueish { Pad { float @lengthOf( // " ++ [128512]%N ++ runes_of_ascii " emoji
uint8x
    // a // b
    ), float32 x_y_z @calculatedFrom( ""a\\""
// c
// " ++ [128512]%N ++ runes_of_ascii " emoji
), }
,
uint8
matchKey ,
    @leftPad ( ) _x
    @lengthOf( o ) `{ , }` ,roots  { u64 stringy // packet A { u8 x, }
`two words` , repeat
// `tick` ""quote"" 'q'
// c
i8 lengthOf`doc` ,
    } // trailing space 
,pack	`" ++ [233]%N ++ runes_of_ascii "`  , packetx
// " ++ [128512]%N ++ runes_of_ascii " emoji
// trailing space 
pack , repeat packetx
{falsey  @lengthOf(
    _x //	t
)
,}
    , u128@calculatedFrom( ""CRC32""
    // @lengthOf(
    ) ,@tag(
    0123456789)rootA //
@lengthOf( Pad
)
, // `tick` ""quote"" 'q'
}  packet Foo// 50% %s
{  @lengthOf(
    options1// `tick` ""quote"" 'q'
)	repeatCount packetx  , }options { T =255
leftPad =
' ';roots=  ""\n""; } packet asx
//x
/// triple
{ f32a {float32 falsey ,
}, @leftPad ( '\x00' )
    uint16 MetaDataX `crlf
line`
    ,  repeat
    string options1, repeat i32
    leftPad /// triple
`// not a comment` , repeat string // c
stringy `100% of %d`
,
repeat chars  {
string
MetaDataX`100% of %d`, f64 leftPad `crlf
line` , }	,
char[]
    //	t
    metadata//x
,@tag( 10
    // trailing space 
    ) char[] Pad`tab	here` ,
match matchKey as o	{ ""{,}"" : MetaDataX	, [
7 , ""\" ++ [233]%N ++ runes_of_ascii """  ,
3
    ,
""abc""
,10
] :
stringy  ,""\" ++ [233]%N ++ runes_of_ascii """ :  zchar ,
[
    /// triple
    00 ,
// " ++ [128512]%N ++ runes_of_ascii " emoji
// trailing space 
3 ] :charz
,
    ""a\\"":msg_type , } , }")).
Eval vm_compute in ("<<<M132>>>" ++ check (runes_of_ascii "
options
    { falsey = '0'
} options {i8i8=u16
    ; roots = zchar[
65535 ] ; roots // @lengthOf(
= ""abc"" } //
MetaData asx{ f32a u8x
`it's` , float32 // @lengthOf(
falsey , options1 lengthOf`// not a comment`
,
// trailing space 
// packet A { u8 x, }
}
")).
Eval vm_compute in ("<<<T132>>>" ++ terms [mkTok 1 "options" 2 0 false; mkTok 2 "{" 3 4 false; mkTok 42 "falsey" 3 6 false; mkTok 4 "=" 3 13 false; mkTok 33 "'0'" 3 15 false; mkTok 3 "}" 4 0 false; mkTok 1 "options" 4 2 false; mkTok 2 "{" 4 10 false; mkTok 42 "i8i8" 4 11 false; mkTok 4 "=" 4 15 false; mkTok 21 "u16" 4 16 false; mkTok 41 ";" 5 4 false; mkTok 42 "roots" 5 6 false; mkTok 4 "=" 5 12 false; mkTok 14 "zchar[" 5 14 false; mkTok 30 "65535" 6 0 false; mkTok 13 "]" 6 6 false; mkTok 41 ";" 6 8 false; mkTok 42 "roots" 6 10 false; mkTok 44 "// @lengthOf(" 6 16 true; mkTok 4 "=" 7 0 false; mkTok 31 """abc""" 7 2 false; mkTok 3 "}" 7 8 false; mkTok 44 "//" 7 10 true; mkTok 37 "MetaData" 8 0 false; mkTok 42 "asx" 8 9 false; mkTok 2 "{" 8 12 false; mkTok 42 "f32a" 8 14 false; mkTok 42 "u8x" 8 19 false; mkTok 43 "`it's`" 9 0 false; mkTok 40 "," 9 7 false; mkTok 28 "float32" 9 9 false; mkTok 44 "// @lengthOf(" 9 17 true; mkTok 42 "falsey" 10 0 false; mkTok 40 "," 10 7 false; mkTok 42 "options1" 10 9 false; mkTok 42 "lengthOf" 10 18 false; mkTok 43 "`// not a comment`" 10 26 false; mkTok 40 "," 11 0 false; mkTok 44 "// trailing space " 12 0 true; mkTok 44 "// packet A { u8 x, }" 13 0 true; mkTok 3 "}" 14 0 false; mkTok 0 "<EOF>" 15 0 false] (mkPacket (mkPtok 1 "options" 2 0 0) (Some (mkPtok 3 "}" 14 0 41)) [(DOption (mkOptionDef (mkSpan (mkPtok 1 "options" 2 0 0) (mkPtok 3 "}" 4 0 5)) (mkPtok 1 "options" 2 0 0) (mkPtok 2 "{" 3 4 1) [(mkOptionDecl (mkSpan (mkPtok 42 "falsey" 3 6 2) (mkPtok 33 "'0'" 3 15 4)) (mkPtok 42 "falsey" 3 6 2) (mkPtok 4 "=" 3 13 3) (VPaddingChar (mkSpan (mkPtok 33 "'0'" 3 15 4) (mkPtok 33 "'0'" 3 15 4)) (mkPtok 33 "'0'" 3 15 4)) None)] (mkPtok 3 "}" 4 0 5))); (DOption (mkOptionDef (mkSpan (mkPtok 1 "options" 4 2 6) (mkPtok 3 "}" 7 8 22)) (mkPtok 1 "options" 4 2 6) (mkPtok 2 "{" 4 10 7) [(mkOptionDecl (mkSpan (mkPtok 42 "i8i8" 4 11 8) (mkPtok 41 ";" 5 4 11)) (mkPtok 42 "i8i8" 4 11 8) (mkPtok 4 "=" 4 15 9) (VType (mkSpan (mkPtok 21 "u16" 4 16 10) (mkPtok 21 "u16" 4 16 10)) (TyBasic (mkSpan (mkPtok 21 "u16" 4 16 10) (mkPtok 21 "u16" 4 16 10)) (mkBasicType (mkSpan (mkPtok 21 "u16" 4 16 10) (mkPtok 21 "u16" 4 16 10)) (mkPtok 21 "u16" 4 16 10)))) (Some (mkPtok 41 ";" 5 4 11))); (mkOptionDecl (mkSpan (mkPtok 42 "roots" 5 6 12) (mkPtok 41 ";" 6 8 17)) (mkPtok 42 "roots" 5 6 12) (mkPtok 4 "=" 5 12 13) (VType (mkSpan (mkPtok 14 "zchar[" 5 14 14) (mkPtok 13 "]" 6 6 16)) (TyFixed (mkSpan (mkPtok 14 "zchar[" 5 14 14) (mkPtok 13 "]" 6 6 16)) (mkFixedString (mkSpan (mkPtok 14 "zchar[" 5 14 14) (mkPtok 13 "]" 6 6 16)) (mkPtok 14 "zchar[" 5 14 14) (mkPtok 30 "65535" 6 0 15) (mkPtok 13 "]" 6 6 16)))) (Some (mkPtok 41 ";" 6 8 17))); (mkOptionDecl (mkSpan (mkPtok 42 "roots" 6 10 18) (mkPtok 31 """abc""" 7 2 21)) (mkPtok 42 "roots" 6 10 18) (mkPtok 4 "=" 7 0 20) (VString (mkSpan (mkPtok 31 """abc""" 7 2 21) (mkPtok 31 """abc""" 7 2 21)) (mkPtok 31 """abc""" 7 2 21)) None)] (mkPtok 3 "}" 7 8 22))); (DMeta (mkMetaDef (mkSpan (mkPtok 37 "MetaData" 8 0 24) (mkPtok 3 "}" 14 0 41)) (mkPtok 37 "MetaData" 8 0 24) (mkPtok 42 "asx" 8 9 25) (mkPtok 2 "{" 8 12 26) [(MIRef (mkRefMetaDecl (mkSpan (mkPtok 42 "f32a" 8 14 27) (mkPtok 40 "," 9 7 30)) (mkPtok 42 "f32a" 8 14 27) (mkPtok 42 "u8x" 8 19 28) (Some (mkPtok 43 "`it's`" 9 0 29)) (mkPtok 40 "," 9 7 30))); (MIDecl (mkMetaDecl (mkSpan (mkPtok 28 "float32" 9 9 31) (mkPtok 40 "," 10 7 34)) (TyBasic (mkSpan (mkPtok 28 "float32" 9 9 31) (mkPtok 28 "float32" 9 9 31)) (mkBasicType (mkSpan (mkPtok 28 "float32" 9 9 31) (mkPtok 28 "float32" 9 9 31)) (mkPtok 28 "float32" 9 9 31))) (mkPtok 42 "falsey" 10 0 33) None (mkPtok 40 "," 10 7 34))); (MIRef (mkRefMetaDecl (mkSpan (mkPtok 42 "options1" 10 9 35) (mkPtok 40 "," 11 0 38)) (mkPtok 42 "options1" 10 9 35) (mkPtok 42 "lengthOf" 10 18 36) (Some (mkPtok 43 "`// not a comment`" 10 26 37)) (mkPtok 40 "," 11 0 38)))] (mkPtok 3 "}" 14 0 41)))])).
Eval vm_compute in ("<<<M142>>>" ++ check (runes_of_ascii "packet
//
// " ++ [128512]%N ++ runes_of_ascii " emoji
asx{ @leftPad ('\x00' )@calculatedFrom( ""{,}"" ) //
pack
// " ++ [128512]%N ++ runes_of_ascii " emoji
// " ++ [128512]%N ++ runes_of_ascii " emoji
x_y_z , Pad f32a//x
,  repeat	zchar[/// triple
42 /// triple
]
// packet A { u8 x, }
// " ++ [128512]%N ++ runes_of_ascii " emoji
chars `{ , }`
, string packetx `
`	,
@tag( 10
) metadata@calculatedFrom( ""x y"" )
, uint8x //	t
,repeat int16
    // `tick` ""quote"" 'q'
    pack `a\`
    , float64 rootA// c
,
    /// triple
    } packet
// trailing space 
// a // b
asx//	t
{ string_,	}root
packet Header {
float64 x_y_z
    // packet A { u8 x, }
    @calculatedFrom( ""x y""
),
//
//x
@calculatedFrom(
""a\""b""
) @calculatedFrom( // a // b
""a\""b"" )
int { zchar[ 255 ]
    msg_type, i64_	{ stringy @lengthOf( x_y_z ) // " ++ [27880; 37322]%N ++ runes_of_ascii "
, u
options1`" ++ [233]%N ++ runes_of_ascii "`, repeat	f32 msg_type , float32 // trailing space 
Foo  `two words`
,	} , }// 50% %s
,	uint8 asx `line1
line2` , } MetaData
lengthOf { char[] o `line1
line2`
,
}
")).
Eval vm_compute in ("<<<M152>>>" ++ check (runes_of_ascii "root packet  i64_ { uint8x
`tab	here` ,  }
MetaData// " ++ [27880; 37322]%N ++ runes_of_ascii "
zchar{ falsey lengthOf  ,
// a // b
// @lengthOf(
i64 asx
`a\` , } packet
    _x{ @tag(
    // " ++ [27880; 37322]%N ++ runes_of_ascii "
    007 )repeat
f64 string_ `" ++ [28040; 24687; 31867; 22411]%N ++ runes_of_ascii "` ,
int64 charz,
    // trailing space 
    match a1  as Pad {
    7:trueish, 0 : i64_
, 65535: calculatedFrom
,
1
: chars
,  4294967296: u
,
    42:f32a , } // trailing space 
,	i32 string_@calculatedFrom( """ ++ [28040; 24687]%N ++ runes_of_ascii """ ) ,
    @lengthOf( matchKey ) repeat asx trueish , string
zchar
, uint16
    Z9_
, }  MetaData len /// triple
{T// 50% %s
stringy // " ++ [27880; 37322]%N ++ runes_of_ascii "
`100% of %d`
    , As string_ ,Header MetaDataX,  stringy x // packet A { u8 x, }
, int chars ,
} packet pack {  @lengthOf(
    T
    ) @leftPad
    ( ) A @lengthOf(
    roots)
    `doc` ,  @lengthOf( body
    )
repeat
    zchar { char[ 42 ] o,
match uint8x as MetaDataX
{ 7
    :
// 50% %s
//x
chars , 4294967296 : Pad ,[ 42 , 007
    ] : u128} ,// @lengthOf(
uint16 charz ,// a // b
},
@leftPad(
// a // b
// packet A { u8 x, }
'0') repeat A , Logon@lengthOf(Packet) `say ""hi""` , trueish { chars @lengthOf(A ) ,
repeat u64 chars	,  leftPad@calculatedFrom(""`tick`""// c
) , asx , } , char[ 65535
    ] falsey `a\` // `tick` ""quote"" 'q'
,
    @rightPad (
'0'
    )	int
    { crc @lengthOf(
crc ) `say ""hi""` ,
options1 // packet A { u8 x, }
packetx `" ++ [233]%N ++ runes_of_ascii "`,} , @rightPad( ' ') falsey
    // 50% %s
    @lengthOf(BodyLength ) ,}")).
Eval vm_compute in ("<<<M162>>>" ++ check (runes_of_ascii "root packet
a1 // " ++ [27880; 37322]%N ++ runes_of_ascii "
{
rootA int ,
}  root packet
f32a { u8 o @calculatedFrom( ""x y"" )`" ++ [28040; 24687; 31867; 22411]%N ++ runes_of_ascii "` , f64 body
`{ , }`, @leftPad ( '\x00'
) @leftPad (
    ) @leftPad (	'0' ) int16 i8i8
    , }
")).
Eval vm_compute in ("<<<M172>>>" ++ check (runes_of_ascii "// " ++ [128512]%N ++ runes_of_ascii " emoji
root
packet // packet A { u8 x, }
T
    // a // b
    {
int16  a1 ,
tag {	u16 stringy , }
    , MetaDataX crc ,i16 stringy @calculatedFrom(
""x y"" ) , match
int as
BodyLength//
{ 1 : Header
,
    [ 0 ] : tag """ ++ [28040; 24687]%N ++ runes_of_ascii """ :
    asx,
// " ++ [27880; 37322]%N ++ runes_of_ascii "
// trailing space 
},	@leftPad ( ' ' ) metadata
// a // b
// @lengthOf(
`it's`
,	len
    @lengthOf( metadata), zchar[65535
    ]
A @lengthOf( //	t
trueish
    ) , } //")).
Eval vm_compute in ("<<<M182>>>" ++ check (runes_of_ascii "

")).
Eval vm_compute in ("<<<M192>>>" ++ check (runes_of_ascii "root packet len { repeat
zchar[
    4294967296 // trailing space 
] f32a , //
x_y_z @lengthOf( trueish
) // trailing space 
`two words` ,
    //
    @rightPad ( ) @calculatedFrom( ""\" ++ [233]%N ++ runes_of_ascii """ // c
)string
chars	`say ""hi""` ,@rightPad( ' ') uint8 options1@calculatedFrom(
""1""
    )
`say ""hi""` ,}
")).
Eval vm_compute in ("<<<M202>>>" ++ check (runes_of_ascii "
")).
Eval vm_compute in ("<<<T202>>>" ++ terms [mkTok 0 "<EOF>" 2 0 false] (mkPacket (mkPtok 0 "<EOF>" 2 0 0) None [])).
Eval vm_compute in ("<<<M212>>>" ++ check (runes_of_ascii "packet pack// " ++ [27880; 37322]%N ++ runes_of_ascii "
{ zchar[	007] chars
, int {
char[] asx `two words` , zchar[ 42]a1`crlf
line`
    , tag
Packet, tag @lengthOf( i8i8 )	`crlf
line`
, } ,
uint16 Packet`two words` ,	@calculatedFrom( ""abc"" ) @calculatedFrom(
// c
// " ++ [128512]%N ++ runes_of_ascii " emoji
""" ++ [28040; 24687]%N ++ runes_of_ascii """
)// `tick` ""quote"" 'q'
@lengthOf(
MetaDataX )
char[7
]
    roots  @lengthOf(
matchKey ) , }
options { tag =  '0' packetx =""packet"";
matchKey
= char[ 3 ]
;
    MetaDataX = true
    } root	packet	repeatCount { T
@lengthOf(	int) // @lengthOf(
, }
")).
Eval vm_compute in ("<<<M222>>>" ++ check (runes_of_ascii "packet rootA {
    // a // b
    } options {o
= false ; asx
=char[ 10 ] // `tick` ""quote"" 'q'
}
    options	{	}
")).
Eval vm_compute in ("<<<M232>>>" ++ check (runes_of_ascii "packet
    zchar{ }
")).
Eval vm_compute in ("<<<M242>>>" ++ check (runes_of_ascii "options{roots
=
u8
    // 50% %s
    ; tag//
= 42 ;
    //	t
    falsey = ""{,}""metadata
// `tick` ""quote"" 'q'
/// triple
= ""abc"" ;
    } packet pack
    // trailing space 
    {
    @calculatedFrom(//	t
""a	b"")zchar[255] len, // 50% %s
} options { // trailing space 
asx =	false ; options1 = ""packet""
    ; trueish = char[] ;
pack = '0'
; }packet u128 // " ++ [27880; 37322]%N ++ runes_of_ascii "
{ @tag(
3 )
zchar[
    // `tick` ""quote"" 'q'
    42 ]
    Foo //	t
@calculatedFrom( """"
) ,  @leftPad// a // b
(
'\x00' // " ++ [128512]%N ++ runes_of_ascii " emoji
)// trailing space 
Logon { repeat char[]// " ++ [27880; 37322]%N ++ runes_of_ascii "
x
`100% of %d`
    , } ,
    } packet matchKey{
match
    crc as Packet {
""1""
    // `tick` ""quote"" 'q'
    : packetx , }	,match	int as float	{ ""1""
:metadata
}, repeat float32 uint8x , string u `" ++ [233]%N ++ runes_of_ascii "` , @rightPad ( '0' )	Logon
// `tick` ""quote"" 'q'
/// triple
,  float{
    crc
{
u
, uint64 Packet @calculatedFrom(
""`tick`"" ) `
`
    , char[]	T `
` ,},
}  , @calculatedFrom( ""// no comment"") char[ 0123456789 ] x
    `crlf
line`
, @leftPad(' ' ) @tag(
1  ) @calculatedFrom( ""abc""
)char[  65535 ]Header
,
    repeat	zchar[00 ]trueish // 50% %s
`" ++ [28040; 24687; 31867; 22411]%N ++ runes_of_ascii "`, }")).
Eval vm_compute in ("<<<M252>>>" ++ check (runes_of_ascii "MetaData _x{ }
options{ //	t
A
    = """ ++ [28040; 24687]%N ++ runes_of_ascii """; }")).
Eval vm_compute in ("<<<M262>>>" ++ check (runes_of_ascii "MetaData
    u128
{ u32 packetx, falsey tag ,
    char[255 // a // b
]
leftPad ,	asx
    metadata
    `a\` , Foo Z9_,char[ 00
] _x
    `line1
line2` ,} MetaData
metadata { }")).
Eval vm_compute in ("<<<M272>>>" ++ check (runes_of_ascii "root packet uint8x
    {
char[]pack  @calculatedFrom( ""`tick`"" ) ,
    }")).
Eval vm_compute in ("<<<T272>>>" ++ terms [mkTok 34 "root" 1 0 false; mkTok 35 "packet" 1 5 false; mkTok 42 "uint8x" 1 12 false; mkTok 2 "{" 2 4 false; mkTok 16 "char[]" 3 0 false; mkTok 42 "pack" 3 6 false; mkTok 5 "@calculatedFrom(" 3 12 false; mkTok 31 """`tick`""" 3 29 false; mkTok 6 ")" 3 38 false; mkTok 40 "," 3 40 false; mkTok 3 "}" 4 4 false; mkTok 0 "<EOF>" 4 5 false] (mkPacket (mkPtok 34 "root" 1 0 0) (Some (mkPtok 3 "}" 4 4 10)) [(DPacket (mkPacketDef (mkSpan (mkPtok 34 "root" 1 0 0) (mkPtok 3 "}" 4 4 10)) (Some (mkPtok 34 "root" 1 0 0)) (mkPtok 35 "packet" 1 5 1) (mkPtok 42 "uint8x" 1 12 2) (mkPtok 2 "{" 2 4 3) [(mkFieldWithAttr (mkSpan (mkPtok 16 "char[]" 3 0 4) (mkPtok 40 "," 3 40 9)) [] (CheckSumField (mkSpan (mkPtok 16 "char[]" 3 0 4) (mkPtok 40 "," 3 40 9)) (mkChecksumFieldDecl (mkSpan (mkPtok 16 "char[]" 3 0 4) (mkPtok 40 "," 3 40 9)) (Some (TyDynamic (mkSpan (mkPtok 16 "char[]" 3 0 4) (mkPtok 16 "char[]" 3 0 4)) (mkDynamicString (mkSpan (mkPtok 16 "char[]" 3 0 4) (mkPtok 16 "char[]" 3 0 4)) (mkPtok 16 "char[]" 3 0 4)))) (mkPtok 42 "pack" 3 6 5) (mkCalculatedFrom (mkSpan (mkPtok 5 "@calculatedFrom(" 3 12 6) (mkPtok 6 ")" 3 38 8)) (mkPtok 5 "@calculatedFrom(" 3 12 6) (mkPtok 31 """`tick`""" 3 29 7) (mkPtok 6 ")" 3 38 8)) None (mkPtok 40 "," 3 40 9))))] (mkPtok 3 "}" 4 4 10)))])).
Eval vm_compute in ("<<<M282>>>" ++ check (runes_of_ascii "// `tick` ""quote"" 'q'
MetaData calculatedFrom{ Pad
zchar
, }
")).
Eval vm_compute in ("<<<M292>>>" ++ check (runes_of_ascii "
")).
Eval vm_compute in ("<<<M302>>>" ++ check (runes_of_ascii "options {
	StringPrefixLenType = u16;
	ArrayPrefixLenType = u16;
}

packet SampleBinary {
	uint16 MsgType `" ++ [28040; 24687; 31867; 22411]%N ++ runes_of_ascii "`,
	u16 BodyLenght @lengthOf(Body) `" ++ [28040; 24687; 20307; 38271; 24230]%N ++ runes_of_ascii "`,
	match MsgType as Body {
		1 : Logon,
		2 : Logout,
		3 : Heartbeat,
		4 : RiskControlRequest,
		5 : RiskControlResponse,
	},
		@calculatedFrom(""CRC32"")
	u32 Ckecksum `" ++ [26657; 39564; 21644]%N ++ runes_of_ascii "`,
}

packet Logon {
	 @leftPad('0')
	char[10] UserName `" ++ [29992; 25143; 21517]%N ++ runes_of_ascii "`,
	string Password `" ++ [23494; 30721]%N ++ runes_of_ascii "`,
	uint64 ClientId `" ++ [23458; 25143; 31471]%N ++ runes_of_ascii "ID`,
	u16 HeartbeatInterval `" ++ [24515; 36339; 38388; 38548]%N ++ runes_of_ascii "`,
}

packet Logout {
	  @rightPad('0')
	char[10] UserName `" ++ [29992; 25143; 21517]%N ++ runes_of_ascii "`,
	uint64 ClientId `" ++ [23458; 25143; 31471]%N ++ runes_of_ascii "ID`,
}

packet Heartbeat {
}

packet RiskControlRequest {
	string UniqueOrderId `" ++ [21807; 19968; 35746; 21333; 21495]%N ++ runes_of_ascii "`,
	char[16] ClOrdID `" ++ [23458; 25143; 35746; 21333; 21495]%N ++ runes_of_ascii "`,
	char[3] MarketID `" ++ [24066; 22330]%N ++ runes_of_ascii "id`,
	char[12] SecurityID `" ++ [35777; 21048; 20195; 30721]%N ++ runes_of_ascii "`,
	char Side `" ++ [20080; 21334; 26041; 21521]%N ++ runes_of_ascii "`,
	char OrderType `" ++ [35746; 21333; 31867; 22411]%N ++ runes_of_ascii "`,
	u64 Price `" ++ [20215; 26684]%N ++ runes_of_ascii "`,
	u32 Qty `" ++ [25968; 37327]%N ++ runes_of_ascii "`,
	repeat string ExtraInfo `" ++ [38468; 21152; 20449; 24687]%N ++ runes_of_ascii "`,
	repeat SubOrder {
			char[16] ClOrdID `" ++ [23376; 35746; 21333; 21495]%N ++ runes_of_ascii "`,
			u64 Price `" ++ [23376; 35746; 21333; 20215; 26684]%N ++ runes_of_ascii "`,
			u32 Qty `" ++ [23376; 35746; 21333; 25968; 37327]%N ++ runes_of_ascii "`,
		},
}

packet RiskControlResponse {
	string UniqueOrderId `" ++ [21807; 19968; 35746; 21333; 21495]%N ++ runes_of_ascii "`,
	i32 Status `" ++ [29366; 24577]%N ++ runes_of_ascii "`,
	string Msg `" ++ [32467; 26524; 20449; 24687]%N ++ runes_of_ascii "`,
	repeat Detail,
}

packet Detail {
	string RuleName `" ++ [35268; 21017; 21517; 31216]%N ++ runes_of_ascii "`,
	u16 Code `" ++ [21407; 22240; 20195; 30721]%N ++ runes_of_ascii "`,
}")).
Eval vm_compute in ("<<<M312>>>" ++ check (runes_of_ascii "char
crc	{ char[] Z9_`{ , }`,} options { tag =
    false } packet
// a // b
// @lengthOf(
Pad {Foo @calculatedFrom( // `tick` ""quote"" 'q'
""a\\"" ) ,
    trueish ,
    char[ 00]
    // " ++ [128512]%N ++ runes_of_ascii " emoji
    packetx , }
")).
Eval vm_compute in ("<<<M322>>>" ++ check (runes_of_ascii "MetaData
crc	' ' char[] Z9_`{ , }`,} options { tag =
    false } packet
// a // b
// @lengthOf(
Pad {Foo @calculatedFrom( // `tick` ""quote"" 'q'
""a\\"" ) ,
    trueish ,
    char[ 00]
    // " ++ [128512]%N ++ runes_of_ascii " emoji
    packetx , }
")).
Eval vm_compute in ("<<<M332>>>" ++ check (runes_of_ascii "MetaData
crc	{ char[] uint16`{ , }`,} options { tag =
    false } packet
// a // b
// @lengthOf(
Pad {Foo @calculatedFrom( // `tick` ""quote"" 'q'
""a\\"" ) ,
    trueish ,
    char[ 00]
    // " ++ [128512]%N ++ runes_of_ascii " emoji
    packetx , }
")).
Eval vm_compute in ("<<<M342>>>" ++ check (runes_of_ascii "MetaData
crc	{ char[] Z9_`{ , }`u16} options { tag =
    false } packet
// a // b
// @lengthOf(
Pad {Foo @calculatedFrom( // `tick` ""quote"" 'q'
""a\\"" ) ,
    trueish ,
    char[ 00]
    // " ++ [128512]%N ++ runes_of_ascii " emoji
    packetx , }
")).
Eval vm_compute in ("<<<M352>>>" ++ check (runes_of_ascii "MetaData
crc	{ char[] Z9_`{ , }`,} i64 { tag =
    false } packet
// a // b
// @lengthOf(
Pad {Foo @calculatedFrom( // `tick` ""quote"" 'q'
""a\\"" ) ,
    trueish ,
    char[ 00]
    // " ++ [128512]%N ++ runes_of_ascii " emoji
    packetx , }
")).
Eval vm_compute in ("<<<M362>>>" ++ check (runes_of_ascii "MetaData
crc	{ char[] Z9_`{ , }`,} options { `doc` =
    false } packet
// a // b
// @lengthOf(
Pad {Foo @calculatedFrom( // `tick` ""quote"" 'q'
""a\\"" ) ,
    trueish ,
    char[ 00]
    // " ++ [128512]%N ++ runes_of_ascii " emoji
    packetx , }
")).
Eval vm_compute in ("<<<M372>>>" ++ check (runes_of_ascii "MetaData
crc	{ char[] Z9_`{ , }`,} options { tag =
    u8 } packet
// a // b
// @lengthOf(
Pad {Foo @calculatedFrom( // `tick` ""quote"" 'q'
""a\\"" ) ,
    trueish ,
    char[ 00]
    // " ++ [128512]%N ++ runes_of_ascii " emoji
    packetx , }
")).
Eval vm_compute in ("<<<M382>>>" ++ check (runes_of_ascii "MetaData
crc	{ char[] Z9_`{ , }`,} options { tag =
    false } @tag(
// a // b
// @lengthOf(
Pad {Foo @calculatedFrom( // `tick` ""quote"" 'q'
""a\\"" ) ,
    trueish ,
    char[ 00]
    // " ++ [128512]%N ++ runes_of_ascii " emoji
    packetx , }
")).
Eval vm_compute in ("<<<M392>>>" ++ check (runes_of_ascii "MetaData
crc	{ char[] Z9_`{ , }`,} options { tag =
    false } packet
// a // b
// @lengthOf(
Pad @calculatedFrom(Foo @calculatedFrom( // `tick` ""quote"" 'q'
""a\\"" ) ,
    trueish ,
    char[ 00]
    // " ++ [128512]%N ++ runes_of_ascii " emoji
    packetx , }
")).
Eval vm_compute in ("<<<M402>>>" ++ check (runes_of_ascii "MetaData
crc	{ char[] Z9_`{ , }`,} options { tag =
    false } packet
// a // b
// @lengthOf(
Pad {Foo false // `tick` ""quote"" 'q'
""a\\"" ) ,
    trueish ,
    char[ 00]
    // " ++ [128512]%N ++ runes_of_ascii " emoji
    packetx , }
")).
Eval vm_compute in ("<<<M412>>>" ++ check (runes_of_ascii "MetaData
crc	{ char[] Z9_`{ , }`,} options { tag =
    false } packet
// a // b
// @lengthOf(
Pad {Foo @calculatedFrom( // `tick` ""quote"" 'q'
""a\\"" f64 ,
    trueish ,
    char[ 00]
    // " ++ [128512]%N ++ runes_of_ascii " emoji
    packetx , }
")).
Eval vm_compute in ("<<<M422>>>" ++ check (runes_of_ascii "MetaData
crc	{ char[] Z9_`{ , }`,} options { tag =
    false } packet
// a // b
// @lengthOf(
Pad {Foo @calculatedFrom( // `tick` ""quote"" 'q'
""a\\"" ) ,
    i8 ,
    char[ 00]
    // " ++ [128512]%N ++ runes_of_ascii " emoji
    packetx , }
")).
Eval vm_compute in ("<<<M432>>>" ++ check (runes_of_ascii "MetaData
crc	{ char[] Z9_`{ , }`,} options { tag =
    false } packet
// a // b
// @lengthOf(
Pad {Foo @calculatedFrom( // `tick` ""quote"" 'q'
""a\\"" ) ,
    trueish ,
    root 00]
    // " ++ [128512]%N ++ runes_of_ascii " emoji
    packetx , }
")).
Eval vm_compute in ("<<<M442>>>" ++ check (runes_of_ascii "MetaData
crc	{ char[] Z9_`{ , }`,} options { tag =
    false } packet
// a // b
// @lengthOf(
Pad {Foo @calculatedFrom( // `tick` ""quote"" 'q'
""a\\"" ) ,
    trueish ,
    char[ 00{
    // " ++ [128512]%N ++ runes_of_ascii " emoji
    packetx , }
")).
Eval vm_compute in ("<<<M452>>>" ++ check (runes_of_ascii "MetaData
crc	{ char[] Z9_`{ , }`,} options { tag =
    false } packet
// a // b
// @lengthOf(
Pad {Foo @calculatedFrom( // `tick` ""quote"" 'q'
""a\\"" ) ,
    trueish ,
    char[ 00]
    // " ++ [128512]%N ++ runes_of_ascii " emoji
    packetx u32 }
")).
Eval vm_compute in ("<<<M462>>>" ++ check (runes_of_ascii "MetaData
crc	{ char[] Z9_`{ , }`,} options { tag =
    false } packet
// a // b
// @lengthOf(
Pad {Foo @calculatedFrom(")).
Eval vm_compute in ("<<<M472>>>" ++ check (runes_of_ascii "MetaData
crc	{ char[] Z9_`{ , }`,} options { tag =
    false } packet
// a // b
// @lengthOf(
Pad {Foo @calculatedFrom(~ // `tick` ""quote"" 'q'
""a\\"" ) ,
    trueish ,
    char[ 00]
    // " ++ [128512]%N ++ runes_of_ascii " emoji
    packetx , }
")).
Eval vm_compute in ("<<<M482>>>" ++ check (runes_of_ascii "root packet _x	{ @rightPad (
' ' ) string u8x @lengthOf(
    _x
) , repeat Pad  { // " ++ [128512]%N ++ runes_of_ascii " emoji
As
// `tick` ""quote"" 'q'
//x
matchKey chars,
} , }, }")).
Eval vm_compute in ("<<<M492>>>" ++ check (runes_of_ascii "root packet _x	{ @rightPad (
' ' ) string u8x @lengthOf(
    a" ++ [769]%N ++ runes_of_ascii "b
) , repeat Pad  { // " ++ [128512]%N ++ runes_of_ascii " emoji
As
// `tick` ""quote"" 'q'
//x
{matchKey chars,
} , }, }")).
Eval vm_compute in ("<<<M502>>>" ++ check (runes_of_ascii "root packet _x	{ @rightPad (
' ' ) string u8x @lengthOf(
    _x
) , repeat Pad")).
Eval vm_compute in ("<<<M512>>>" ++ check (runes_of_ascii "root packet _x	{ @rightPad (
' ' ) string u8x @lengthOf(
  ")).
Eval vm_compute in ("<<<M522>>>" ++ check (runes_of_ascii "root packet _x	{ @rightPad :
' ' ) string u8x @lengthOf(
    _x
) , repeat Pad  { // " ++ [128512]%N ++ runes_of_ascii " emoji
As
// `tick` ""quote"" 'q'
//x
{matchKey chars,
} , }, }")).
Eval vm_compute in ("<<<M532>>>" ++ check (runes_of_ascii "root packet _x	{ @rightPad (
) ' ' string u8x @lengthOf(
    _x
) , repeat Pad  { // " ++ [128512]%N ++ runes_of_ascii " emoji
As
// `tick` ""quote"" 'q'
//x
{matchKey chars,
} , }, }")).
Eval vm_compute in ("<<<M542>>>" ++ check (runes_of_ascii "root packet _x	{ @rightPad (
' ' ) string u8x @lengthOf(
    _x
) , repeat Pad  { // " ++ [128512]%N ++ runes_of_ascii " emoji
As
// `tick` ""quote"" 'q'
//x
{matchKey ,
} , }, }")).
Eval vm_compute in ("<<<M552>>>" ++ check (runes_of_ascii "root packet _x	{ @rightPad (
' ' ) string u8x @lengthOf(
    _x
) , repeat Pad  { // " ++ [128512]%N ++ runes_of_ascii " emoji
As
// `tick` ""quote"" 'q'
//x
{matchKey chars,
 , }, }")).
Eval vm_compute in ("<<<M562>>>" ++ check (runes_of_ascii "root packet _x	{ @rightPad (
' ' ) string u8x @lengthOf(
    _x
) , repeat Pad  @tag { // " ++ [128512]%N ++ runes_of_ascii " emoji
As
// `tick` ""quote"" 'q'
//x
{matchKey chars,
} , }, }")).
Eval vm_compute in ("<<<M572>>>" ++ check (runes_of_ascii "// a
// b
")).
Eval vm_compute in ("<<<M582>>>" ++ check (runes_of_ascii "7x^u3t-dk{6SGt$VI")).
Eval vm_compute in ("<<<M592>>>" ++ check (runes_of_ascii "i64 repeat uint64 Z9_ )")).
