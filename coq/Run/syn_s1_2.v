From FP Require Import Lexer Parser ShowPT Digest.
From Coq Require Import String List NArith.
Import ListNotations.
Open Scope string_scope.
Set Printing Width 100000000.
Set Printing Depth 100000000.
Definition nl : string := String (Ascii.ascii_of_nat 10) EmptyString.
Definition model_lex (rs : list rune) : string := show_toks (lex rs).
Definition model_parse (rs : list rune) : string :=
  show_pt (match lex rs with Some ts => parse ts | None => None end).
(* coqc is slow at printing long strings: digests first (Digest.v), full texts on demand *)
Definition check (rs : list rune) : string :=
  digest (model_lex rs) ++ " " ++ digest (model_parse rs).
Definition full (rs : list rune) : string := model_lex rs ++ nl ++ model_parse rs.
Definition terms (ts : list tok) (t : pt) : string :=
  digest (show_toks (Some ts)) ++ " " ++ digest (show_pt (Some t)) ++ " " ++ digest (show_pt (parse ts)).
Definition terms_full (ts : list tok) (t : pt) : string :=
  show_toks (Some ts) ++ nl ++ show_pt (Some t) ++ nl ++ show_pt (parse ts).
Eval vm_compute in ("<<<M2>>>" ++ check (runes_of_ascii "packet i8i8
    {
char[
1
] f32a@calculatedFrom(//	t
""\n"" )
    // packet A { u8 x, }
    , repeat charz,}
")).
Eval vm_compute in ("<<<M12>>>" ++ check (runes_of_ascii "packet
    charz //
{ @rightPad( '0')
repeat
    //x
    Packet//x
msg_type `" ++ [233]%N ++ runes_of_ascii "`	, } options {repeatCount
= false falsey  = int64
}")).
Eval vm_compute in ("<<<M22>>>" ++ check (runes_of_ascii "//	t
packet Packet{ u64 tag
,}
")).
Eval vm_compute in ("<<<M32>>>" ++ check (runes_of_ascii "root
packet uint8x {}root packet  Pad
{}")).
Eval vm_compute in ("<<<M42>>>" ++ check (runes_of_ascii "MetaData crc
{ } // @lengthOf(")).
Eval vm_compute in ("<<<M52>>>" ++ check (runes_of_ascii "//x
packet Header
    {
    body
// " ++ [27880; 37322]%N ++ runes_of_ascii "
// " ++ [27880; 37322]%N ++ runes_of_ascii "
@calculatedFrom(
    ""CRC32"" )
`it's` ,repeat
int64//x
msg_type // " ++ [128512]%N ++ runes_of_ascii " emoji
,
//	t
//
@tag( 0 ) zchar[ 0 //
]
    int
//	t
// @lengthOf(
, }
    // " ++ [128512]%N ++ runes_of_ascii " emoji
    options { Packet=
true
    MetaDataX =
""" ++ [28040; 24687]%N ++ runes_of_ascii """ A
    = string} root packet	Logon {
    @leftPad // " ++ [27880; 37322]%N ++ runes_of_ascii "
('0' //x
)Header//
leftPad `doc` ,
    f32a
    {	rootA @lengthOf( calculatedFrom )	, int8
Packet `line1
line2` , } , repeat calculatedFrom
    { // `tick` ""quote"" 'q'
match
packetx as len { 1:matchKey ,
0123456789 :repeatCount ,
""\" ++ [233]%N ++ runes_of_ascii """ :
float , 255:
    MetaDataX
, },} ,
//x
// " ++ [27880; 37322]%N ++ runes_of_ascii "
leftPad {  repeat roots{ //	t
roots
@calculatedFrom(/// triple
""abc"" ),int32
BodyLength @calculatedFrom( ""packet"" )
,
}	, match repeatCount as
matchKey { ""abc"" : u128 , """ ++ [128512]%N ++ runes_of_ascii """ : a1
, ""a\\""
:rootA ,	[  3,3 ]// c
:
x_y_z	007 :Foo
    } ,
}
, // c
repeat rootA	matchKey	`it's` //	t
,	a1
    @calculatedFrom(""x y"" )  `line1
line2` ,int	,
    @tag(
// trailing space 
//x
65535) match metadata as	As
{ ""x y"": Foo	,//x
[ // `tick` ""quote"" 'q'
""x y"" ]:
    tag
//
// a // b
, 3
    : pack } ,repeat int8 charz ,char[] body , }
options {
    MetaDataX = char[ 0 ] ; } // a // b")).
Eval vm_compute in ("<<<M62>>>" ++ check (runes_of_ascii "MetaData crc // trailing space 
{}options
{ metadata = 10 ; u = 65535
repeatCount
    = char[ 0123456789 // packet A { u8 x, }
]  }MetaData i8i8{ }
")).
Eval vm_compute in ("<<<T62>>>" ++ terms [mkTok 37 "MetaData" 1 0 false; mkTok 42 "crc" 1 9 false; mkTok 44 "// trailing space " 1 13 true; mkTok 2 "{" 2 0 false; mkTok 3 "}" 2 1 false; mkTok 1 "options" 2 2 false; mkTok 2 "{" 3 0 false; mkTok 42 "metadata" 3 2 false; mkTok 4 "=" 3 11 false; mkTok 30 "10" 3 13 false; mkTok 41 ";" 3 16 false; mkTok 42 "u" 3 18 false; mkTok 4 "=" 3 20 false; mkTok 30 "65535" 3 22 false; mkTok 42 "repeatCount" 4 0 false; mkTok 4 "=" 5 4 false; mkTok 12 "char[" 5 6 false; mkTok 30 "0123456789" 5 12 false; mkTok 44 "// packet A { u8 x, }" 5 23 true; mkTok 13 "]" 6 0 false; mkTok 3 "}" 6 3 false; mkTok 37 "MetaData" 6 4 false; mkTok 42 "i8i8" 6 13 false; mkTok 2 "{" 6 17 false; mkTok 3 "}" 6 19 false; mkTok 0 "<EOF>" 7 0 false] (mkPacket (mkPtok 37 "MetaData" 1 0 0) (Some (mkPtok 3 "}" 6 19 24)) [(DMeta (mkMetaDef (mkSpan (mkPtok 37 "MetaData" 1 0 0) (mkPtok 3 "}" 2 1 4)) (mkPtok 37 "MetaData" 1 0 0) (mkPtok 42 "crc" 1 9 1) (mkPtok 2 "{" 2 0 3) [] (mkPtok 3 "}" 2 1 4))); (DOption (mkOptionDef (mkSpan (mkPtok 1 "options" 2 2 5) (mkPtok 3 "}" 6 3 20)) (mkPtok 1 "options" 2 2 5) (mkPtok 2 "{" 3 0 6) [(mkOptionDecl (mkSpan (mkPtok 42 "metadata" 3 2 7) (mkPtok 41 ";" 3 16 10)) (mkPtok 42 "metadata" 3 2 7) (mkPtok 4 "=" 3 11 8) (VDigits (mkSpan (mkPtok 30 "10" 3 13 9) (mkPtok 30 "10" 3 13 9)) (mkPtok 30 "10" 3 13 9)) (Some (mkPtok 41 ";" 3 16 10))); (mkOptionDecl (mkSpan (mkPtok 42 "u" 3 18 11) (mkPtok 30 "65535" 3 22 13)) (mkPtok 42 "u" 3 18 11) (mkPtok 4 "=" 3 20 12) (VDigits (mkSpan (mkPtok 30 "65535" 3 22 13) (mkPtok 30 "65535" 3 22 13)) (mkPtok 30 "65535" 3 22 13)) None); (mkOptionDecl (mkSpan (mkPtok 42 "repeatCount" 4 0 14) (mkPtok 13 "]" 6 0 19)) (mkPtok 42 "repeatCount" 4 0 14) (mkPtok 4 "=" 5 4 15) (VType (mkSpan (mkPtok 12 "char[" 5 6 16) (mkPtok 13 "]" 6 0 19)) (TyFixed (mkSpan (mkPtok 12 "char[" 5 6 16) (mkPtok 13 "]" 6 0 19)) (mkFixedString (mkSpan (mkPtok 12 "char[" 5 6 16) (mkPtok 13 "]" 6 0 19)) (mkPtok 12 "char[" 5 6 16) (mkPtok 30 "0123456789" 5 12 17) (mkPtok 13 "]" 6 0 19)))) None)] (mkPtok 3 "}" 6 3 20))); (DMeta (mkMetaDef (mkSpan (mkPtok 37 "MetaData" 6 4 21) (mkPtok 3 "}" 6 19 24)) (mkPtok 37 "MetaData" 6 4 21) (mkPtok 42 "i8i8" 6 13 22) (mkPtok 2 "{" 6 17 23) [] (mkPtok 3 "}" 6 19 24)))])).
Eval vm_compute in ("<<<M72>>>" ++ check (runes_of_ascii "
options {  MetaDataX= ""\" ++ [233]%N ++ runes_of_ascii """ }options {
// @lengthOf(
//	t
Logon = ""1""
    x_y_z = 65535  } MetaData
    //	t
    u8x {}
")).
Eval vm_compute in ("<<<M82>>>" ++ check (runes_of_ascii "packet u8x {
    //	t
    }

")).
Eval vm_compute in ("<<<M92>>>" ++ check (runes_of_ascii "// trailing space 
packet tag {
    @rightPad
    // @lengthOf(
    ( '0' )
    u128 ,
@lengthOf(MetaDataX
    )
    // c
    leftPad, // packet A { u8 x, }
@tag( 1
    )calculatedFrom
    @lengthOf( Logon )  , }
packet string_	{ } packet u128 {char[	0 // packet A { u8 x, }
]
chars `say ""hi""`
,
int , @leftPad ( '0'
// @lengthOf(
//x
)T { repeat zchar[ 255]
int
,zchar  stringy	, }
    ,repeat zchar{ match leftPad as packetx
{ [
""`tick`""
    ] :
    lengthOf //x
,  [  7,""" ++ [128512]%N ++ runes_of_ascii """
    ,
00 , ""x y"" , ""packet"" ] :
    stringy // @lengthOf(
, [
42 ,""\n""
, ""it's"" ,// " ++ [128512]%N ++ runes_of_ascii " emoji
65535, 1	]
: msg_type ""packet"" :	a1 ,} , u16 int
,
repeat x_y_z float,
repeat//x
u64 A `a\` ,
} , }
")).
Eval vm_compute in ("<<<M102>>>" ++ check (runes_of_ascii "packet// a // b
stringy  {
    Logon { match
    string_ as
    i64_
{ ""x y"":
string_
    ,
// " ++ [27880; 37322]%N ++ runes_of_ascii "
// `tick` ""quote"" 'q'
""`tick`"" : string_
,  1// " ++ [27880; 37322]%N ++ runes_of_ascii "
:
/// triple
// c
float , [ ""1""
    ] :
options1
    // " ++ [27880; 37322]%N ++ runes_of_ascii "
    ,} , zchar[1 ] crc@calculatedFrom( """") `two words` , f32a , float32 lengthOf ,
}
, @tag(255) u8x @calculatedFrom( // packet A { u8 x, }
""abc""
) `a\` , }
")).
Eval vm_compute in ("<<<M112>>>" ++ check (runes_of_ascii "packet  o {  } // " ++ [128512]%N ++ runes_of_ascii " emoji")).
Eval vm_compute in ("<<<M122>>>" ++ check (runes_of_ascii "root packet // packet A { u8 x, }
f32a
{ @lengthOf( int )char[]
    //x
    o, a1 @lengthOf( packetx
) // " ++ [27880; 37322]%N ++ runes_of_ascii "
`u8 x,`
/// triple
/// triple
,
// " ++ [128512]%N ++ runes_of_ascii " emoji
// @lengthOf(
@calculatedFrom( ""1""
)u8
Header ,
    }")).
Eval vm_compute in ("<<<M132>>>" ++ check (runes_of_ascii "root packet As// `tick` ""quote"" 'q'
{
    @calculatedFrom( ""{,}""	)zchar[ 4294967296
    // packet A { u8 x, }
    ]As ,@tag( 7 ) repeat
    pack
    {body
    {// trailing space 
zchar[
65535 //x
] MetaDataX `doc`
, string_ @lengthOf( // " ++ [27880; 37322]%N ++ runes_of_ascii "
Logon  ) , i64 MetaDataX@calculatedFrom( """" )// " ++ [27880; 37322]%N ++ runes_of_ascii "
`a\`, //x
repeat char[] Foo,	} ,
/// triple
// packet A { u8 x, }
},@lengthOf( MetaDataX
    ) @calculatedFrom(
""\n""	) @lengthOf( float )
char[ 0123456789 ] a1 @calculatedFrom( ""a\""b"") ,
repeat msg_type  { // `tick` ""quote"" 'q'
repeat f64 Packet`a\` , int64 asx@calculatedFrom( ""{,}"" )`" ++ [233]%N ++ runes_of_ascii "`  ,zchar[3  ]
    metadata	,	zchar[
00 ] x_y_z
    @calculatedFrom( ""CRC32""
) , }, } packet calculatedFrom // a // b
{ match calculatedFrom as BodyLength{ 65535
: Foo ,
    }, match
    int as falsey {  42 : body, [ ""abc""
// " ++ [128512]%N ++ runes_of_ascii " emoji
// " ++ [27880; 37322]%N ++ runes_of_ascii "
,
    ""\n"" , ""abc""
,""" ++ [28040; 24687]%N ++ runes_of_ascii """	]:stringy
    // `tick` ""quote"" 'q'
    , [0123456789
, ""{,}""
,
42
    , 1
]// " ++ [27880; 37322]%N ++ runes_of_ascii "
: trueish , ""`tick`"" :metadata ,  [ ""1"" , ""a	b"" , 42
]
: zchar}
    ,repeat zchar[  4294967296 ]stringy `line1
line2`
, } options // @lengthOf(
{stringy= // packet A { u8 x, }
' '/// triple
; }")).
Eval vm_compute in ("<<<T132>>>" ++ terms [mkTok 34 "root" 1 0 false; mkTok 35 "packet" 1 5 false; mkTok 42 "As" 1 12 false; mkTok 44 "// `tick` ""quote"" 'q'" 1 14 true; mkTok 2 "{" 2 0 false; mkTok 5 "@calculatedFrom(" 3 4 false; mkTok 31 """{,}""" 3 21 false; mkTok 6 ")" 3 27 false; mkTok 14 "zchar[" 3 28 false; mkTok 30 "4294967296" 3 35 false; mkTok 44 "// packet A { u8 x, }" 4 4 true; mkTok 13 "]" 5 4 false; mkTok 42 "As" 5 5 false; mkTok 40 "," 5 8 false; mkTok 9 "@tag(" 5 9 false; mkTok 30 "7" 5 15 false; mkTok 6 ")" 5 17 false; mkTok 36 "repeat" 5 19 false; mkTok 42 "pack" 6 4 false; mkTok 2 "{" 7 4 false; mkTok 42 "body" 7 5 false; mkTok 2 "{" 8 4 false; mkTok 44 "// trailing space " 8 5 true; mkTok 14 "zchar[" 9 0 false; mkTok 30 "65535" 10 0 false; mkTok 44 "//x" 10 6 true; mkTok 13 "]" 11 0 false; mkTok 42 "MetaDataX" 11 2 false; mkTok 43 "`doc`" 11 12 false; mkTok 40 "," 12 0 false; mkTok 42 "string_" 12 2 false; mkTok 7 "@lengthOf(" 12 10 false; mkTok 44 (string_of_bytes [47; 47; 32; 230; 179; 168; 233; 135; 138]%N) 12 21 true; mkTok 42 "Logon" 13 0 false; mkTok 6 ")" 13 7 false; mkTok 40 "," 13 9 false; mkTok 27 "i64" 13 11 false; mkTok 42 "MetaDataX" 13 15 false; mkTok 5 "@calculatedFrom(" 13 24 false; mkTok 31 """""" 13 41 false; mkTok 6 ")" 13 44 false; mkTok 44 (string_of_bytes [47; 47; 32; 230; 179; 168; 233; 135; 138]%N) 13 45 true; mkTok 43 "`a\`" 14 0 false; mkTok 40 "," 14 4 false; mkTok 44 "//x" 14 6 true; mkTok 36 "repeat" 15 0 false; mkTok 16 "char[]" 15 7 false; mkTok 42 "Foo" 15 14 false; mkTok 40 "," 15 17 false; mkTok 3 "}" 15 19 false; mkTok 40 "," 15 21 false; mkTok 44 "/// triple" 16 0 true; mkTok 44 "// packet A { u8 x, }" 17 0 true; mkTok 3 "}" 18 0 false; mkTok 40 "," 18 1 false; mkTok 7 "@lengthOf(" 18 2 false; mkTok 42 "MetaDataX" 18 13 false; mkTok 6 ")" 19 4 false; mkTok 5 "@calculatedFrom(" 19 6 false; mkTok 31 """\n""" 20 0 false; mkTok 6 ")" 20 5 false; mkTok 7 "@lengthOf(" 20 7 false; mkTok 42 "float" 20 18 false; mkTok 6 ")" 20 24 false; mkTok 12 "char[" 21 0 false; mkTok 30 "0123456789" 21 6 false; mkTok 13 "]" 21 17 false; mkTok 42 "a1" 21 19 false; mkTok 5 "@calculatedFrom(" 21 22 false; mkTok 31 """a\""b""" 21 39 false; mkTok 6 ")" 21 45 false; mkTok 40 "," 21 47 false; mkTok 36 "repeat" 22 0 false; mkTok 42 "msg_type" 22 7 false; mkTok 2 "{" 22 17 false; mkTok 44 "// `tick` ""quote"" 'q'" 22 19 true; mkTok 36 "repeat" 23 0 false; mkTok 29 "f64" 23 7 false; mkTok 42 "Packet" 23 11 false; mkTok 43 "`a\`" 23 17 false; mkTok 40 "," 23 22 false; mkTok 27 "int64" 23 24 false; mkTok 42 "asx" 23 30 false; mkTok 5 "@calculatedFrom(" 23 33 false; mkTok 31 """{,}""" 23 50 false; mkTok 6 ")" 23 56 false; mkTok 43 (string_of_bytes [96; 195; 169; 96]%N) 23 57 false; mkTok 40 "," 23 62 false; mkTok 14 "zchar[" 23 63 false; mkTok 30 "3" 23 69 false; mkTok 13 "]" 23 72 false; mkTok 42 "metadata" 24 4 false; mkTok 40 "," 24 13 false; mkTok 14 "zchar[" 24 15 false; mkTok 30 "00" 25 0 false; mkTok 13 "]" 25 3 false; mkTok 42 "x_y_z" 25 5 false; mkTok 5 "@calculatedFrom(" 26 4 false; mkTok 31 """CRC32""" 26 21 false; mkTok 6 ")" 27 0 false; mkTok 40 "," 27 2 false; mkTok 3 "}" 27 4 false; mkTok 40 "," 27 5 false; mkTok 3 "}" 27 7 false; mkTok 35 "packet" 27 9 false; mkTok 42 "calculatedFrom" 27 16 false; mkTok 44 "// a // b" 27 31 true; mkTok 2 "{" 28 0 false; mkTok 38 "match" 28 2 false; mkTok 42 "calculatedFrom" 28 8 false; mkTok 17 "as" 28 23 false; mkTok 42 "BodyLength" 28 26 false; mkTok 2 "{" 28 36 false; mkTok 30 "65535" 28 38 false; mkTok 39 ":" 29 0 false; mkTok 42 "Foo" 29 2 false; mkTok 40 "," 29 6 false; mkTok 3 "}" 30 4 false; mkTok 40 "," 30 5 false; mkTok 38 "match" 30 7 false; mkTok 42 "int" 31 4 false; mkTok 17 "as" 31 8 false; mkTok 42 "falsey" 31 11 false; mkTok 2 "{" 31 18 false; mkTok 30 "42" 31 21 false; mkTok 39 ":" 31 24 false; mkTok 42 "body" 31 26 false; mkTok 40 "," 31 30 false; mkTok 18 "[" 31 32 false; mkTok 31 """abc""" 31 34 false; mkTok 44 (string_of_bytes [47; 47; 32; 240; 159; 152; 128; 32; 101; 109; 111; 106; 105]%N) 32 0 true; mkTok 44 (string_of_bytes [47; 47; 32; 230; 179; 168; 233; 135; 138]%N) 33 0 true; mkTok 40 "," 34 0 false; mkTok 31 """\n""" 35 4 false; mkTok 40 "," 35 9 false; mkTok 31 """abc""" 35 11 false; mkTok 40 "," 36 0 false; mkTok 31 (string_of_bytes [34; 230; 182; 136; 230; 129; 175; 34]%N) 36 1 false; mkTok 13 "]" 36 6 false; mkTok 39 ":" 36 7 false; mkTok 42 "stringy" 36 8 false; mkTok 44 "// `tick` ""quote"" 'q'" 37 4 true; mkTok 40 "," 38 4 false; mkTok 18 "[" 38 6 false; mkTok 30 "0123456789" 38 7 false; mkTok 40 "," 39 0 false; mkTok 31 """{,}""" 39 2 false; mkTok 40 "," 40 0 false; mkTok 30 "42" 41 0 false; mkTok 40 "," 42 4 false; mkTok 30 "1" 42 6 false; mkTok 13 "]" 43 0 false; mkTok 44 (string_of_bytes [47; 47; 32; 230; 179; 168; 233; 135; 138]%N) 43 1 true; mkTok 39 ":" 44 0 false; mkTok 42 "trueish" 44 2 false; mkTok 40 "," 44 10 false; mkTok 31 """`tick`""" 44 12 false; mkTok 39 ":" 44 21 false; mkTok 42 "metadata" 44 22 false; mkTok 40 "," 44 31 false; mkTok 18 "[" 44 34 false; mkTok 31 """1""" 44 36 false; mkTok 40 "," 44 40 false; mkTok 31 (string_of_bytes [34; 97; 9; 98; 34]%N) 44 42 false; mkTok 40 "," 44 48 false; mkTok 30 "42" 44 50 false; mkTok 13 "]" 45 0 false; mkTok 39 ":" 46 0 false; mkTok 42 "zchar" 46 2 false; mkTok 3 "}" 46 7 false; mkTok 40 "," 47 4 false; mkTok 36 "repeat" 47 5 false; mkTok 14 "zchar[" 47 12 false; mkTok 30 "4294967296" 47 20 false; mkTok 13 "]" 47 31 false; mkTok 42 "stringy" 47 32 false; mkTok 43 (string_of_bytes [96; 108; 105; 110; 101; 49; 10; 108; 105; 110; 101; 50; 96]%N) 47 40 false; mkTok 40 "," 49 0 false; mkTok 3 "}" 49 2 false; mkTok 1 "options" 49 4 false; mkTok 44 "// @lengthOf(" 49 12 true; mkTok 2 "{" 50 0 false; mkTok 42 "stringy" 50 1 false; mkTok 4 "=" 50 8 false; mkTok 44 "// packet A { u8 x, }" 50 10 true; mkTok 33 "' '" 51 0 false; mkTok 44 "/// triple" 51 3 true; mkTok 41 ";" 52 0 false; mkTok 3 "}" 52 2 false; mkTok 0 "<EOF>" 52 3 false] (mkPacket (mkPtok 34 "root" 1 0 0) (Some (mkPtok 3 "}" 52 2 188)) [(DPacket (mkPacketDef (mkSpan (mkPtok 34 "root" 1 0 0) (mkPtok 3 "}" 27 7 103)) (Some (mkPtok 34 "root" 1 0 0)) (mkPtok 35 "packet" 1 5 1) (mkPtok 42 "As" 1 12 2) (mkPtok 2 "{" 2 0 4) [(mkFieldWithAttr (mkSpan (mkPtok 5 "@calculatedFrom(" 3 4 5) (mkPtok 40 "," 5 8 13)) [(FACalculatedFrom (mkSpan (mkPtok 5 "@calculatedFrom(" 3 4 5) (mkPtok 6 ")" 3 27 7)) (mkCalculatedFrom (mkSpan (mkPtok 5 "@calculatedFrom(" 3 4 5) (mkPtok 6 ")" 3 27 7)) (mkPtok 5 "@calculatedFrom(" 3 4 5) (mkPtok 31 """{,}""" 3 21 6) (mkPtok 6 ")" 3 27 7)))] (MetaField (mkSpan (mkPtok 14 "zchar[" 3 28 8) (mkPtok 40 "," 5 8 13)) None (mkMetaDecl (mkSpan (mkPtok 14 "zchar[" 3 28 8) (mkPtok 40 "," 5 8 13)) (TyFixed (mkSpan (mkPtok 14 "zchar[" 3 28 8) (mkPtok 13 "]" 5 4 11)) (mkFixedString (mkSpan (mkPtok 14 "zchar[" 3 28 8) (mkPtok 13 "]" 5 4 11)) (mkPtok 14 "zchar[" 3 28 8) (mkPtok 30 "4294967296" 3 35 9) (mkPtok 13 "]" 5 4 11))) (mkPtok 42 "As" 5 5 12) None (mkPtok 40 "," 5 8 13)))); (mkFieldWithAttr (mkSpan (mkPtok 9 "@tag(" 5 9 14) (mkPtok 40 "," 18 1 54)) [(FATag (mkSpan (mkPtok 9 "@tag(" 5 9 14) (mkPtok 6 ")" 5 17 16)) (mkTagAttr (mkSpan (mkPtok 9 "@tag(" 5 9 14) (mkPtok 6 ")" 5 17 16)) (mkPtok 9 "@tag(" 5 9 14) (mkPtok 30 "7" 5 15 15) (mkPtok 6 ")" 5 17 16)))] (InerObjectField (mkSpan (mkPtok 36 "repeat" 5 19 17) (mkPtok 40 "," 18 1 54)) (Some (mkPtok 36 "repeat" 5 19 17)) (InerObjectDecl (mkSpan (mkPtok 42 "pack" 6 4 18) (mkPtok 3 "}" 18 0 53)) (mkPtok 42 "pack" 6 4 18) (mkPtok 2 "{" 7 4 19) [(InerObjectField (mkSpan (mkPtok 42 "body" 7 5 20) (mkPtok 40 "," 15 21 50)) None (InerObjectDecl (mkSpan (mkPtok 42 "body" 7 5 20) (mkPtok 3 "}" 15 19 49)) (mkPtok 42 "body" 7 5 20) (mkPtok 2 "{" 8 4 21) [(MetaField (mkSpan (mkPtok 14 "zchar[" 9 0 23) (mkPtok 40 "," 12 0 29)) None (mkMetaDecl (mkSpan (mkPtok 14 "zchar[" 9 0 23) (mkPtok 40 "," 12 0 29)) (TyFixed (mkSpan (mkPtok 14 "zchar[" 9 0 23) (mkPtok 13 "]" 11 0 26)) (mkFixedString (mkSpan (mkPtok 14 "zchar[" 9 0 23) (mkPtok 13 "]" 11 0 26)) (mkPtok 14 "zchar[" 9 0 23) (mkPtok 30 "65535" 10 0 24) (mkPtok 13 "]" 11 0 26))) (mkPtok 42 "MetaDataX" 11 2 27) (Some (mkPtok 43 "`doc`" 11 12 28)) (mkPtok 40 "," 12 0 29))); (LengthField (mkSpan (mkPtok 42 "string_" 12 2 30) (mkPtok 40 "," 13 9 35)) (mkLengthFieldDecl (mkSpan (mkPtok 42 "string_" 12 2 30) (mkPtok 40 "," 13 9 35)) None (mkPtok 42 "string_" 12 2 30) (mkLengthOf (mkSpan (mkPtok 7 "@lengthOf(" 12 10 31) (mkPtok 6 ")" 13 7 34)) (mkPtok 7 "@lengthOf(" 12 10 31) (mkPtok 42 "Logon" 13 0 33) (mkPtok 6 ")" 13 7 34)) None (mkPtok 40 "," 13 9 35))); (CheckSumField (mkSpan (mkPtok 27 "i64" 13 11 36) (mkPtok 40 "," 14 4 43)) (mkChecksumFieldDecl (mkSpan (mkPtok 27 "i64" 13 11 36) (mkPtok 40 "," 14 4 43)) (Some (TyBasic (mkSpan (mkPtok 27 "i64" 13 11 36) (mkPtok 27 "i64" 13 11 36)) (mkBasicType (mkSpan (mkPtok 27 "i64" 13 11 36) (mkPtok 27 "i64" 13 11 36)) (mkPtok 27 "i64" 13 11 36)))) (mkPtok 42 "MetaDataX" 13 15 37) (mkCalculatedFrom (mkSpan (mkPtok 5 "@calculatedFrom(" 13 24 38) (mkPtok 6 ")" 13 44 40)) (mkPtok 5 "@calculatedFrom(" 13 24 38) (mkPtok 31 """""" 13 41 39) (mkPtok 6 ")" 13 44 40)) (Some (mkPtok 43 "`a\`" 14 0 42)) (mkPtok 40 "," 14 4 43))); (MetaField (mkSpan (mkPtok 36 "repeat" 15 0 45) (mkPtok 40 "," 15 17 48)) (Some (mkPtok 36 "repeat" 15 0 45)) (mkMetaDecl (mkSpan (mkPtok 16 "char[]" 15 7 46) (mkPtok 40 "," 15 17 48)) (TyDynamic (mkSpan (mkPtok 16 "char[]" 15 7 46) (mkPtok 16 "char[]" 15 7 46)) (mkDynamicString (mkSpan (mkPtok 16 "char[]" 15 7 46) (mkPtok 16 "char[]" 15 7 46)) (mkPtok 16 "char[]" 15 7 46))) (mkPtok 42 "Foo" 15 14 47) None (mkPtok 40 "," 15 17 48)))] (mkPtok 3 "}" 15 19 49)) (mkPtok 40 "," 15 21 50))] (mkPtok 3 "}" 18 0 53)) (mkPtok 40 "," 18 1 54))); (mkFieldWithAttr (mkSpan (mkPtok 7 "@lengthOf(" 18 2 55) (mkPtok 40 "," 21 47 71)) [(FALengthOf (mkSpan (mkPtok 7 "@lengthOf(" 18 2 55) (mkPtok 6 ")" 19 4 57)) (mkLengthOf (mkSpan (mkPtok 7 "@lengthOf(" 18 2 55) (mkPtok 6 ")" 19 4 57)) (mkPtok 7 "@lengthOf(" 18 2 55) (mkPtok 42 "MetaDataX" 18 13 56) (mkPtok 6 ")" 19 4 57))); (FACalculatedFrom (mkSpan (mkPtok 5 "@calculatedFrom(" 19 6 58) (mkPtok 6 ")" 20 5 60)) (mkCalculatedFrom (mkSpan (mkPtok 5 "@calculatedFrom(" 19 6 58) (mkPtok 6 ")" 20 5 60)) (mkPtok 5 "@calculatedFrom(" 19 6 58) (mkPtok 31 """\n""" 20 0 59) (mkPtok 6 ")" 20 5 60))); (FALengthOf (mkSpan (mkPtok 7 "@lengthOf(" 20 7 61) (mkPtok 6 ")" 20 24 63)) (mkLengthOf (mkSpan (mkPtok 7 "@lengthOf(" 20 7 61) (mkPtok 6 ")" 20 24 63)) (mkPtok 7 "@lengthOf(" 20 7 61) (mkPtok 42 "float" 20 18 62) (mkPtok 6 ")" 20 24 63)))] (CheckSumField (mkSpan (mkPtok 12 "char[" 21 0 64) (mkPtok 40 "," 21 47 71)) (mkChecksumFieldDecl (mkSpan (mkPtok 12 "char[" 21 0 64) (mkPtok 40 "," 21 47 71)) (Some (TyFixed (mkSpan (mkPtok 12 "char[" 21 0 64) (mkPtok 13 "]" 21 17 66)) (mkFixedString (mkSpan (mkPtok 12 "char[" 21 0 64) (mkPtok 13 "]" 21 17 66)) (mkPtok 12 "char[" 21 0 64) (mkPtok 30 "0123456789" 21 6 65) (mkPtok 13 "]" 21 17 66)))) (mkPtok 42 "a1" 21 19 67) (mkCalculatedFrom (mkSpan (mkPtok 5 "@calculatedFrom(" 21 22 68) (mkPtok 6 ")" 21 45 70)) (mkPtok 5 "@calculatedFrom(" 21 22 68) (mkPtok 31 """a\""b""" 21 39 69) (mkPtok 6 ")" 21 45 70)) None (mkPtok 40 "," 21 47 71)))); (mkFieldWithAttr (mkSpan (mkPtok 36 "repeat" 22 0 72) (mkPtok 40 "," 27 5 102)) [] (InerObjectField (mkSpan (mkPtok 36 "repeat" 22 0 72) (mkPtok 40 "," 27 5 102)) (Some (mkPtok 36 "repeat" 22 0 72)) (InerObjectDecl (mkSpan (mkPtok 42 "msg_type" 22 7 73) (mkPtok 3 "}" 27 4 101)) (mkPtok 42 "msg_type" 22 7 73) (mkPtok 2 "{" 22 17 74) [(MetaField (mkSpan (mkPtok 36 "repeat" 23 0 76) (mkPtok 40 "," 23 22 80)) (Some (mkPtok 36 "repeat" 23 0 76)) (mkMetaDecl (mkSpan (mkPtok 29 "f64" 23 7 77) (mkPtok 40 "," 23 22 80)) (TyBasic (mkSpan (mkPtok 29 "f64" 23 7 77) (mkPtok 29 "f64" 23 7 77)) (mkBasicType (mkSpan (mkPtok 29 "f64" 23 7 77) (mkPtok 29 "f64" 23 7 77)) (mkPtok 29 "f64" 23 7 77))) (mkPtok 42 "Packet" 23 11 78) (Some (mkPtok 43 "`a\`" 23 17 79)) (mkPtok 40 "," 23 22 80))); (CheckSumField (mkSpan (mkPtok 27 "int64" 23 24 81) (mkPtok 40 "," 23 62 87)) (mkChecksumFieldDecl (mkSpan (mkPtok 27 "int64" 23 24 81) (mkPtok 40 "," 23 62 87)) (Some (TyBasic (mkSpan (mkPtok 27 "int64" 23 24 81) (mkPtok 27 "int64" 23 24 81)) (mkBasicType (mkSpan (mkPtok 27 "int64" 23 24 81) (mkPtok 27 "int64" 23 24 81)) (mkPtok 27 "int64" 23 24 81)))) (mkPtok 42 "asx" 23 30 82) (mkCalculatedFrom (mkSpan (mkPtok 5 "@calculatedFrom(" 23 33 83) (mkPtok 6 ")" 23 56 85)) (mkPtok 5 "@calculatedFrom(" 23 33 83) (mkPtok 31 """{,}""" 23 50 84) (mkPtok 6 ")" 23 56 85)) (Some (mkPtok 43 (string_of_bytes [96; 195; 169; 96]%N) 23 57 86)) (mkPtok 40 "," 23 62 87))); (MetaField (mkSpan (mkPtok 14 "zchar[" 23 63 88) (mkPtok 40 "," 24 13 92)) None (mkMetaDecl (mkSpan (mkPtok 14 "zchar[" 23 63 88) (mkPtok 40 "," 24 13 92)) (TyFixed (mkSpan (mkPtok 14 "zchar[" 23 63 88) (mkPtok 13 "]" 23 72 90)) (mkFixedString (mkSpan (mkPtok 14 "zchar[" 23 63 88) (mkPtok 13 "]" 23 72 90)) (mkPtok 14 "zchar[" 23 63 88) (mkPtok 30 "3" 23 69 89) (mkPtok 13 "]" 23 72 90))) (mkPtok 42 "metadata" 24 4 91) None (mkPtok 40 "," 24 13 92))); (CheckSumField (mkSpan (mkPtok 14 "zchar[" 24 15 93) (mkPtok 40 "," 27 2 100)) (mkChecksumFieldDecl (mkSpan (mkPtok 14 "zchar[" 24 15 93) (mkPtok 40 "," 27 2 100)) (Some (TyFixed (mkSpan (mkPtok 14 "zchar[" 24 15 93) (mkPtok 13 "]" 25 3 95)) (mkFixedString (mkSpan (mkPtok 14 "zchar[" 24 15 93) (mkPtok 13 "]" 25 3 95)) (mkPtok 14 "zchar[" 24 15 93) (mkPtok 30 "00" 25 0 94) (mkPtok 13 "]" 25 3 95)))) (mkPtok 42 "x_y_z" 25 5 96) (mkCalculatedFrom (mkSpan (mkPtok 5 "@calculatedFrom(" 26 4 97) (mkPtok 6 ")" 27 0 99)) (mkPtok 5 "@calculatedFrom(" 26 4 97) (mkPtok 31 """CRC32""" 26 21 98) (mkPtok 6 ")" 27 0 99)) None (mkPtok 40 "," 27 2 100)))] (mkPtok 3 "}" 27 4 101)) (mkPtok 40 "," 27 5 102)))] (mkPtok 3 "}" 27 7 103))); (DPacket (mkPacketDef (mkSpan (mkPtok 35 "packet" 27 9 104) (mkPtok 3 "}" 49 2 178)) None (mkPtok 35 "packet" 27 9 104) (mkPtok 42 "calculatedFrom" 27 16 105) (mkPtok 2 "{" 28 0 107) [(mkFieldWithAttr (mkSpan (mkPtok 38 "match" 28 2 108) (mkPtok 40 "," 30 5 118)) [] (MatchField (mkSpan (mkPtok 38 "match" 28 2 108) (mkPtok 40 "," 30 5 118)) (mkMatchFieldDecl (mkSpan (mkPtok 38 "match" 28 2 108) (mkPtok 3 "}" 30 4 117)) (mkPtok 38 "match" 28 2 108) (mkPtok 42 "calculatedFrom" 28 8 109) (mkPtok 17 "as" 28 23 110) (mkPtok 42 "BodyLength" 28 26 111) (mkPtok 2 "{" 28 36 112) [(mkMatchPair (mkSpan (mkPtok 30 "65535" 28 38 113) (mkPtok 40 "," 29 6 116)) (MKDigits (mkPtok 30 "65535" 28 38 113)) (mkPtok 39 ":" 29 0 114) (mkPtok 42 "Foo" 29 2 115) (Some (mkPtok 40 "," 29 6 116)))] (mkPtok 3 "}" 30 4 117)) (mkPtok 40 "," 30 5 118))); (mkFieldWithAttr (mkSpan (mkPtok 38 "match" 30 7 119) (mkPtok 40 "," 47 4 170)) [] (MatchField (mkSpan (mkPtok 38 "match" 30 7 119) (mkPtok 40 "," 47 4 170)) (mkMatchFieldDecl (mkSpan (mkPtok 38 "match" 30 7 119) (mkPtok 3 "}" 46 7 169)) (mkPtok 38 "match" 30 7 119) (mkPtok 42 "int" 31 4 120) (mkPtok 17 "as" 31 8 121) (mkPtok 42 "falsey" 31 11 122) (mkPtok 2 "{" 31 18 123) [(mkMatchPair (mkSpan (mkPtok 30 "42" 31 21 124) (mkPtok 40 "," 31 30 127)) (MKDigits (mkPtok 30 "42" 31 21 124)) (mkPtok 39 ":" 31 24 125) (mkPtok 42 "body" 31 26 126) (Some (mkPtok 40 "," 31 30 127))); (mkMatchPair (mkSpan (mkPtok 18 "[" 31 32 128) (mkPtok 40 "," 38 4 142)) (MKList (mkKeyList (mkSpan (mkPtok 18 "[" 31 32 128) (mkPtok 13 "]" 36 6 138)) (mkPtok 18 "[" 31 32 128) (mkPtok 31 """abc""" 31 34 129) [((mkPtok 40 "," 34 0 132), (mkPtok 31 """\n""" 35 4 133)); ((mkPtok 40 "," 35 9 134), (mkPtok 31 """abc""" 35 11 135)); ((mkPtok 40 "," 36 0 136), (mkPtok 31 (string_of_bytes [34; 230; 182; 136; 230; 129; 175; 34]%N) 36 1 137))] (mkPtok 13 "]" 36 6 138))) (mkPtok 39 ":" 36 7 139) (mkPtok 42 "stringy" 36 8 140) (Some (mkPtok 40 "," 38 4 142))); (mkMatchPair (mkSpan (mkPtok 18 "[" 38 6 143) (mkPtok 40 "," 44 10 155)) (MKList (mkKeyList (mkSpan (mkPtok 18 "[" 38 6 143) (mkPtok 13 "]" 43 0 151)) (mkPtok 18 "[" 38 6 143) (mkPtok 30 "0123456789" 38 7 144) [((mkPtok 40 "," 39 0 145), (mkPtok 31 """{,}""" 39 2 146)); ((mkPtok 40 "," 40 0 147), (mkPtok 30 "42" 41 0 148)); ((mkPtok 40 "," 42 4 149), (mkPtok 30 "1" 42 6 150))] (mkPtok 13 "]" 43 0 151))) (mkPtok 39 ":" 44 0 153) (mkPtok 42 "trueish" 44 2 154) (Some (mkPtok 40 "," 44 10 155))); (mkMatchPair (mkSpan (mkPtok 31 """`tick`""" 44 12 156) (mkPtok 40 "," 44 31 159)) (MKString (mkPtok 31 """`tick`""" 44 12 156)) (mkPtok 39 ":" 44 21 157) (mkPtok 42 "metadata" 44 22 158) (Some (mkPtok 40 "," 44 31 159))); (mkMatchPair (mkSpan (mkPtok 18 "[" 44 34 160) (mkPtok 42 "zchar" 46 2 168)) (MKList (mkKeyList (mkSpan (mkPtok 18 "[" 44 34 160) (mkPtok 13 "]" 45 0 166)) (mkPtok 18 "[" 44 34 160) (mkPtok 31 """1""" 44 36 161) [((mkPtok 40 "," 44 40 162), (mkPtok 31 (string_of_bytes [34; 97; 9; 98; 34]%N) 44 42 163)); ((mkPtok 40 "," 44 48 164), (mkPtok 30 "42" 44 50 165))] (mkPtok 13 "]" 45 0 166))) (mkPtok 39 ":" 46 0 167) (mkPtok 42 "zchar" 46 2 168) None)] (mkPtok 3 "}" 46 7 169)) (mkPtok 40 "," 47 4 170))); (mkFieldWithAttr (mkSpan (mkPtok 36 "repeat" 47 5 171) (mkPtok 40 "," 49 0 177)) [] (MetaField (mkSpan (mkPtok 36 "repeat" 47 5 171) (mkPtok 40 "," 49 0 177)) (Some (mkPtok 36 "repeat" 47 5 171)) (mkMetaDecl (mkSpan (mkPtok 14 "zchar[" 47 12 172) (mkPtok 40 "," 49 0 177)) (TyFixed (mkSpan (mkPtok 14 "zchar[" 47 12 172) (mkPtok 13 "]" 47 31 174)) (mkFixedString (mkSpan (mkPtok 14 "zchar[" 47 12 172) (mkPtok 13 "]" 47 31 174)) (mkPtok 14 "zchar[" 47 12 172) (mkPtok 30 "4294967296" 47 20 173) (mkPtok 13 "]" 47 31 174))) (mkPtok 42 "stringy" 47 32 175) (Some (mkPtok 43 (string_of_bytes [96; 108; 105; 110; 101; 49; 10; 108; 105; 110; 101; 50; 96]%N) 47 40 176)) (mkPtok 40 "," 49 0 177))))] (mkPtok 3 "}" 49 2 178))); (DOption (mkOptionDef (mkSpan (mkPtok 1 "options" 49 4 179) (mkPtok 3 "}" 52 2 188)) (mkPtok 1 "options" 49 4 179) (mkPtok 2 "{" 50 0 181) [(mkOptionDecl (mkSpan (mkPtok 42 "stringy" 50 1 182) (mkPtok 41 ";" 52 0 187)) (mkPtok 42 "stringy" 50 1 182) (mkPtok 4 "=" 50 8 183) (VPaddingChar (mkSpan (mkPtok 33 "' '" 51 0 185) (mkPtok 33 "' '" 51 0 185)) (mkPtok 33 "' '" 51 0 185)) (Some (mkPtok 41 ";" 52 0 187)))] (mkPtok 3 "}" 52 2 188)))])).
Eval vm_compute in ("<<<M142>>>" ++ check (runes_of_ascii "MetaData
options1
    {
    char[ 7 ] i8i8
, zchar[ 65535
] u128
    , char[]  repeatCount
,
}
")).
Eval vm_compute in ("<<<M152>>>" ++ check (@nil rune)).
Eval vm_compute in ("<<<M162>>>" ++ check (runes_of_ascii "packet T {
    @lengthOf( MetaDataX )match
    Packet as a1 { [ ""1""] : zchar ""{,}""
    : _x ,} ,// @lengthOf(
char[ 007 ]// a // b
u128@lengthOf(
zchar)
// a // b
// packet A { u8 x, }
,string_ , @leftPad ( ' ')match MetaDataX as u128 { [ ""it's"" ,7 , 65535
, 65535]	:  chars,""" ++ [28040; 24687]%N ++ runes_of_ascii """// c
: u , 42 : zchar , }
    , } options // `tick` ""quote"" 'q'
{
    matchKey =
""a\""b""
    }	MetaData
    options1 { i16
len , char[ 7
] // packet A { u8 x, }
crc ,u16 asx `say ""hi""` ,i64 zchar, } // " ++ [27880; 37322]%N)).
Eval vm_compute in ("<<<M172>>>" ++ check (runes_of_ascii "packet x
{ @lengthOf( x_y_z )
BodyLength tag // c
,}
")).
Eval vm_compute in ("<<<M182>>>" ++ check (runes_of_ascii "packet f32a
{
    repeat calculatedFrom u128//	t
,
    T @calculatedFrom( ""a\\"" ) `crlf
line` ,
string /// triple
charz, @leftPad (
    //x
    ) repeat
pack // a // b
T
    ,	}MetaData
charz { } packet	i8i8{A
x ,match A
as
leftPad { ""abc""	: msg_type , ""a	b""
    //	t
    :
    T }	,f64 i8i8
    ,
char charz`" ++ [233]%N ++ runes_of_ascii "`
    // `tick` ""quote"" 'q'
    ,} // " ++ [128512]%N ++ runes_of_ascii " emoji")).
Eval vm_compute in ("<<<M192>>>" ++ check (runes_of_ascii "packet a1 {
    char[ 0 ]
len
    `two words` , char[ 00 ]packetx ,} MetaData pack // a // b
{	int64 a1 `crlf
line` ,i64_  Foo,
char[0123456789
// " ++ [128512]%N ++ runes_of_ascii " emoji
// " ++ [27880; 37322]%N ++ runes_of_ascii "
] x
    `tab	here` ,
    }

")).
Eval vm_compute in ("<<<M202>>>" ++ check (runes_of_ascii "packet i8i8// a // b
{ a1`{ , }` ,
// a // b
// " ++ [27880; 37322]%N ++ runes_of_ascii "
} //x")).
Eval vm_compute in ("<<<T202>>>" ++ terms [mkTok 35 "packet" 1 0 false; mkTok 42 "i8i8" 1 7 false; mkTok 44 "// a // b" 1 11 true; mkTok 2 "{" 2 0 false; mkTok 42 "a1" 2 2 false; mkTok 43 "`{ , }`" 2 4 false; mkTok 40 "," 2 12 false; mkTok 44 "// a // b" 3 0 true; mkTok 44 (string_of_bytes [47; 47; 32; 230; 179; 168; 233; 135; 138]%N) 4 0 true; mkTok 3 "}" 5 0 false; mkTok 44 "//x" 5 2 true; mkTok 0 "<EOF>" 5 5 false] (mkPacket (mkPtok 35 "packet" 1 0 0) (Some (mkPtok 3 "}" 5 0 9)) [(DPacket (mkPacketDef (mkSpan (mkPtok 35 "packet" 1 0 0) (mkPtok 3 "}" 5 0 9)) None (mkPtok 35 "packet" 1 0 0) (mkPtok 42 "i8i8" 1 7 1) (mkPtok 2 "{" 2 0 3) [(mkFieldWithAttr (mkSpan (mkPtok 42 "a1" 2 2 4) (mkPtok 40 "," 2 12 6)) [] (ObjectField (mkSpan (mkPtok 42 "a1" 2 2 4) (mkPtok 40 "," 2 12 6)) None (mkPtok 42 "a1" 2 2 4) None (Some (mkPtok 43 "`{ , }`" 2 4 5)) (mkPtok 40 "," 2 12 6)))] (mkPtok 3 "}" 5 0 9)))])).
Eval vm_compute in ("<<<M212>>>" ++ check (@nil rune)).
Eval vm_compute in ("<<<M222>>>" ++ check (runes_of_ascii "root packet repeatCount
// c
// " ++ [128512]%N ++ runes_of_ascii " emoji
{
msg_type// `tick` ""quote"" 'q'
{
float64 lengthOf
`" ++ [233]%N ++ runes_of_ascii "`,
}
    ,  }")).
Eval vm_compute in ("<<<M232>>>" ++ check (runes_of_ascii "
root packet // a // b
matchKey
    { @calculatedFrom(
""// no comment"")match matchKey as crc { 65535:metadata , 255 :options1 , ""{,}"" :asx
,
    [ ""\" ++ [233]%N ++ runes_of_ascii """ , 00
,	""""  , /// triple
""{,}"" ,
""a\\"" ]
    : msg_type , 007: f32a ,//x
} , @lengthOf(
repeatCount) @leftPad ()
    @calculatedFrom(  ""a\\"")float ,@tag( 42 ) u8 crc @calculatedFrom( //
""" ++ [28040; 24687]%N ++ runes_of_ascii """// " ++ [27880; 37322]%N ++ runes_of_ascii "
)
, uint64
BodyLength @lengthOf( f32a)
    `" ++ [28040; 24687; 31867; 22411]%N ++ runes_of_ascii "` , tag a1 ,
tag @calculatedFrom( ""`tick`""
), } // trailing space ")).
Eval vm_compute in ("<<<M242>>>" ++ check (runes_of_ascii "
options { }
")).
Eval vm_compute in ("<<<M252>>>" ++ check (runes_of_ascii "// c
root packet
calculatedFrom { }
")).
Eval vm_compute in ("<<<M262>>>" ++ check (runes_of_ascii "packet u  { Header {
float64	Foo@lengthOf( Pad
    ) `{ , }`,	leftPad @calculatedFrom(""a	b"" )
    ,msg_type {
Z9_	@lengthOf(
    u8x ) ,
    falsey , len @lengthOf( float // " ++ [27880; 37322]%N ++ runes_of_ascii "
) `it's`
    , repeat int64
options1	`a\` , } , // trailing space 
} ,
//	t
// " ++ [128512]%N ++ runes_of_ascii " emoji
falsey// `tick` ""quote"" 'q'
u8x , zchar[  1 ]
x `` ,
    @lengthOf( uint8x
) crc
    @lengthOf(matchKey )  , repeat f32 string_
// `tick` ""quote"" 'q'
//
,packetx,
    // " ++ [27880; 37322]%N ++ runes_of_ascii "
    u8x
    { f64
Header , repeat uint8 uint8x , x_y_z
{  match string_
// " ++ [27880; 37322]%N ++ runes_of_ascii "
//	t
as a1 { [// `tick` ""quote"" 'q'
255
]  : f32a// @lengthOf(
, [
""packet""  ,""1"" , 00 ,
    """ ++ [128512]%N ++ runes_of_ascii """,  4294967296 , 4294967296]:Logon , } , pack @lengthOf( options1 ), zchar[  1 ] crc ``,}	, } , rootA zchar ,}
options { uint8x
= 4294967296
// " ++ [27880; 37322]%N ++ runes_of_ascii "
// @lengthOf(
tag // `tick` ""quote"" 'q'
=
float32 ; o = true ; // trailing space 
rootA =
    // @lengthOf(
    ""packet"" ; } //x
packet float
    {
    } // " ++ [27880; 37322]%N ++ runes_of_ascii "
options	{ // " ++ [27880; 37322]%N ++ runes_of_ascii "
msg_type// c
= i16 ;
    trueish = zchar[ 1 ] ; Logon =
    ""abc"" rootA = i16 ; } MetaData rootA
{
}
")).
Eval vm_compute in ("<<<M272>>>" ++ check (runes_of_ascii "root packet pack { match MetaDataX as Packet { 7: trueish , /// triple
""" ++ [233]%N ++ runes_of_ascii "t" ++ [233]%N ++ runes_of_ascii """: MetaDataX
,4294967296
:msg_type  65535 : metadata ,3: x_y_z 42 :
//
/// triple
_x// trailing space 
,}	, } packet x_y_z
    {repeat crc	metadata,match A as u8x  { [""it's"" ,""\" ++ [233]%N ++ runes_of_ascii """ ,
0123456789  , ""1"" ,""abc""
,""// no comment"", 4294967296 ]
: pack ,007 : tag , } , } packet
// c
//x
repeatCount  { @lengthOf(stringy )
uint8 f32a , }options
{
BodyLength
    =  '\x00' ; body
    = ' ' ; } packet
    charz { repeat Z9_ rootA `two words` , //
@calculatedFrom( ""a\\""  ) f32a @lengthOf( msg_type
    )	`say ""hi""` ,int8 As , string	stringy
@lengthOf(options1 )
`crlf
line`,	i8 i8i8
, f32a options1,
@leftPad(
    '\x00' )
u
    @calculatedFrom( """ ++ [128512]%N ++ runes_of_ascii """
) ,
@calculatedFrom(
""\" ++ [233]%N ++ runes_of_ascii """ ) @tag(  00 ) @tag(
0)
int64 trueish@calculatedFrom(""`tick`"" // trailing space 
)
, @leftPad (
' ' )
    zchar@lengthOf( Z9_ )
,} // " ++ [27880; 37322]%N)).
Eval vm_compute in ("<<<T272>>>" ++ terms [mkTok 34 "root" 1 0 false; mkTok 35 "packet" 1 5 false; mkTok 42 "pack" 1 12 false; mkTok 2 "{" 1 17 false; mkTok 38 "match" 1 19 false; mkTok 42 "MetaDataX" 1 25 false; mkTok 17 "as" 1 35 false; mkTok 42 "Packet" 1 38 false; mkTok 2 "{" 1 45 false; mkTok 30 "7" 1 47 false; mkTok 39 ":" 1 48 false; mkTok 42 "trueish" 1 50 false; mkTok 40 "," 1 58 false; mkTok 44 "/// triple" 1 60 true; mkTok 31 (string_of_bytes [34; 195; 169; 116; 195; 169; 34]%N) 2 0 false; mkTok 39 ":" 2 5 false; mkTok 42 "MetaDataX" 2 7 false; mkTok 40 "," 3 0 false; mkTok 30 "4294967296" 3 1 false; mkTok 39 ":" 4 0 false; mkTok 42 "msg_type" 4 1 false; mkTok 30 "65535" 4 11 false; mkTok 39 ":" 4 17 false; mkTok 42 "metadata" 4 19 false; mkTok 40 "," 4 28 false; mkTok 30 "3" 4 29 false; mkTok 39 ":" 4 30 false; mkTok 42 "x_y_z" 4 32 false; mkTok 30 "42" 4 38 false; mkTok 39 ":" 4 41 false; mkTok 44 "//" 5 0 true; mkTok 44 "/// triple" 6 0 true; mkTok 42 "_x" 7 0 false; mkTok 44 "// trailing space " 7 2 true; mkTok 40 "," 8 0 false; mkTok 3 "}" 8 1 false; mkTok 40 "," 8 3 false; mkTok 3 "}" 8 5 false; mkTok 35 "packet" 8 7 false; mkTok 42 "x_y_z" 8 14 false; mkTok 2 "{" 9 4 false; mkTok 36 "repeat" 9 5 false; mkTok 42 "crc" 9 12 false; mkTok 42 "metadata" 9 16 false; mkTok 40 "," 9 24 false; mkTok 38 "match" 9 25 false; mkTok 42 "A" 9 31 false; mkTok 17 "as" 9 33 false; mkTok 42 "u8x" 9 36 false; mkTok 2 "{" 9 41 false; mkTok 18 "[" 9 43 false; mkTok 31 """it's""" 9 44 false; mkTok 40 "," 9 51 false; mkTok 31 (string_of_bytes [34; 92; 195; 169; 34]%N) 9 52 false; mkTok 40 "," 9 57 false; mkTok 30 "0123456789" 10 0 false; mkTok 40 "," 10 12 false; mkTok 31 """1""" 10 14 false; mkTok 40 "," 10 18 false; mkTok 31 """abc""" 10 19 false; mkTok 40 "," 11 0 false; mkTok 31 """// no comment""" 11 1 false; mkTok 40 "," 11 16 false; mkTok 30 "4294967296" 11 18 false; mkTok 13 "]" 11 29 false; mkTok 39 ":" 12 0 false; mkTok 42 "pack" 12 2 false; mkTok 40 "," 12 7 false; mkTok 30 "007" 12 8 false; mkTok 39 ":" 12 12 false; mkTok 42 "tag" 12 14 false; mkTok 40 "," 12 18 false; mkTok 3 "}" 12 20 false; mkTok 40 "," 12 22 false; mkTok 3 "}" 12 24 false; mkTok 35 "packet" 12 26 false; mkTok 44 "// c" 13 0 true; mkTok 44 "//x" 14 0 true; mkTok 42 "repeatCount" 15 0 false; mkTok 2 "{" 15 13 false; mkTok 7 "@lengthOf(" 15 15 false; mkTok 42 "stringy" 15 25 false; mkTok 6 ")" 15 33 false; mkTok 20 "uint8" 16 0 false; mkTok 42 "f32a" 16 6 false; mkTok 40 "," 16 11 false; mkTok 3 "}" 16 13 false; mkTok 1 "options" 16 14 false; mkTok 2 "{" 17 0 false; mkTok 42 "BodyLength" 18 0 false; mkTok 4 "=" 19 4 false; mkTok 33 "'\x00'" 19 7 false; mkTok 41 ";" 19 14 false; mkTok 42 "body" 19 16 false; mkTok 4 "=" 20 4 false; mkTok 33 "' '" 20 6 false; mkTok 41 ";" 20 10 false; mkTok 3 "}" 20 12 false; mkTok 35 "packet" 20 14 false; mkTok 42 "charz" 21 4 false; mkTok 2 "{" 21 10 false; mkTok 36 "repeat" 21 12 false; mkTok 42 "Z9_" 21 19 false; mkTok 42 "rootA" 21 23 false; mkTok 43 "`two words`" 21 29 false; mkTok 40 "," 21 41 false; mkTok 44 "//" 21 43 true; mkTok 5 "@calculatedFrom(" 22 0 false; mkTok 31 """a\\""" 22 17 false; mkTok 6 ")" 22 24 false; mkTok 42 "f32a" 22 26 false; mkTok 7 "@lengthOf(" 22 31 false; mkTok 42 "msg_type" 22 42 false; mkTok 6 ")" 23 4 false; mkTok 43 "`say ""hi""`" 23 6 false; mkTok 40 "," 23 17 false; mkTok 24 "int8" 23 18 false; mkTok 42 "As" 23 23 false; mkTok 40 "," 23 26 false; mkTok 15 "string" 23 28 false; mkTok 42 "stringy" 23 35 false; mkTok 7 "@lengthOf(" 24 0 false; mkTok 42 "options1" 24 10 false; mkTok 6 ")" 24 19 false; mkTok 43 (string_of_bytes [96; 99; 114; 108; 102; 13; 10; 108; 105; 110; 101; 96]%N) 25 0 false; mkTok 40 "," 26 5 false; mkTok 24 "i8" 26 7 false; mkTok 42 "i8i8" 26 10 false; mkTok 40 "," 27 0 false; mkTok 42 "f32a" 27 2 false; mkTok 42 "options1" 27 7 false; mkTok 40 "," 27 15 false; mkTok 32 "@leftPad" 28 0 false; mkTok 8 "(" 28 8 false; mkTok 33 "'\x00'" 29 4 false; mkTok 6 ")" 29 11 false; mkTok 42 "u" 30 0 false; mkTok 5 "@calculatedFrom(" 31 4 false; mkTok 31 (string_of_bytes [34; 240; 159; 152; 128; 34]%N) 31 21 false; mkTok 6 ")" 32 0 false; mkTok 40 "," 32 2 false; mkTok 5 "@calculatedFrom(" 33 0 false; mkTok 31 (string_of_bytes [34; 92; 195; 169; 34]%N) 34 0 false; mkTok 6 ")" 34 5 false; mkTok 9 "@tag(" 34 7 false; mkTok 30 "00" 34 14 false; mkTok 6 ")" 34 17 false; mkTok 9 "@tag(" 34 19 false; mkTok 30 "0" 35 0 false; mkTok 6 ")" 35 1 false; mkTok 27 "int64" 36 0 false; mkTok 42 "trueish" 36 6 false; mkTok 5 "@calculatedFrom(" 36 13 false; mkTok 31 """`tick`""" 36 29 false; mkTok 44 "// trailing space " 36 38 true; mkTok 6 ")" 37 0 false; mkTok 40 "," 38 0 false; mkTok 32 "@leftPad" 38 2 false; mkTok 8 "(" 38 11 false; mkTok 33 "' '" 39 0 false; mkTok 6 ")" 39 4 false; mkTok 42 "zchar" 40 4 false; mkTok 7 "@lengthOf(" 40 9 false; mkTok 42 "Z9_" 40 20 false; mkTok 6 ")" 40 24 false; mkTok 40 "," 41 0 false; mkTok 3 "}" 41 1 false; mkTok 44 (string_of_bytes [47; 47; 32; 230; 179; 168; 233; 135; 138]%N) 41 3 true; mkTok 0 "<EOF>" 41 8 false] (mkPacket (mkPtok 34 "root" 1 0 0) (Some (mkPtok 3 "}" 41 1 166)) [(DPacket (mkPacketDef (mkSpan (mkPtok 34 "root" 1 0 0) (mkPtok 3 "}" 8 5 37)) (Some (mkPtok 34 "root" 1 0 0)) (mkPtok 35 "packet" 1 5 1) (mkPtok 42 "pack" 1 12 2) (mkPtok 2 "{" 1 17 3) [(mkFieldWithAttr (mkSpan (mkPtok 38 "match" 1 19 4) (mkPtok 40 "," 8 3 36)) [] (MatchField (mkSpan (mkPtok 38 "match" 1 19 4) (mkPtok 40 "," 8 3 36)) (mkMatchFieldDecl (mkSpan (mkPtok 38 "match" 1 19 4) (mkPtok 3 "}" 8 1 35)) (mkPtok 38 "match" 1 19 4) (mkPtok 42 "MetaDataX" 1 25 5) (mkPtok 17 "as" 1 35 6) (mkPtok 42 "Packet" 1 38 7) (mkPtok 2 "{" 1 45 8) [(mkMatchPair (mkSpan (mkPtok 30 "7" 1 47 9) (mkPtok 40 "," 1 58 12)) (MKDigits (mkPtok 30 "7" 1 47 9)) (mkPtok 39 ":" 1 48 10) (mkPtok 42 "trueish" 1 50 11) (Some (mkPtok 40 "," 1 58 12))); (mkMatchPair (mkSpan (mkPtok 31 (string_of_bytes [34; 195; 169; 116; 195; 169; 34]%N) 2 0 14) (mkPtok 40 "," 3 0 17)) (MKString (mkPtok 31 (string_of_bytes [34; 195; 169; 116; 195; 169; 34]%N) 2 0 14)) (mkPtok 39 ":" 2 5 15) (mkPtok 42 "MetaDataX" 2 7 16) (Some (mkPtok 40 "," 3 0 17))); (mkMatchPair (mkSpan (mkPtok 30 "4294967296" 3 1 18) (mkPtok 42 "msg_type" 4 1 20)) (MKDigits (mkPtok 30 "4294967296" 3 1 18)) (mkPtok 39 ":" 4 0 19) (mkPtok 42 "msg_type" 4 1 20) None); (mkMatchPair (mkSpan (mkPtok 30 "65535" 4 11 21) (mkPtok 40 "," 4 28 24)) (MKDigits (mkPtok 30 "65535" 4 11 21)) (mkPtok 39 ":" 4 17 22) (mkPtok 42 "metadata" 4 19 23) (Some (mkPtok 40 "," 4 28 24))); (mkMatchPair (mkSpan (mkPtok 30 "3" 4 29 25) (mkPtok 42 "x_y_z" 4 32 27)) (MKDigits (mkPtok 30 "3" 4 29 25)) (mkPtok 39 ":" 4 30 26) (mkPtok 42 "x_y_z" 4 32 27) None); (mkMatchPair (mkSpan (mkPtok 30 "42" 4 38 28) (mkPtok 40 "," 8 0 34)) (MKDigits (mkPtok 30 "42" 4 38 28)) (mkPtok 39 ":" 4 41 29) (mkPtok 42 "_x" 7 0 32) (Some (mkPtok 40 "," 8 0 34)))] (mkPtok 3 "}" 8 1 35)) (mkPtok 40 "," 8 3 36)))] (mkPtok 3 "}" 8 5 37))); (DPacket (mkPacketDef (mkSpan (mkPtok 35 "packet" 8 7 38) (mkPtok 3 "}" 12 24 74)) None (mkPtok 35 "packet" 8 7 38) (mkPtok 42 "x_y_z" 8 14 39) (mkPtok 2 "{" 9 4 40) [(mkFieldWithAttr (mkSpan (mkPtok 36 "repeat" 9 5 41) (mkPtok 40 "," 9 24 44)) [] (ObjectField (mkSpan (mkPtok 36 "repeat" 9 5 41) (mkPtok 40 "," 9 24 44)) (Some (mkPtok 36 "repeat" 9 5 41)) (mkPtok 42 "crc" 9 12 42) (Some (mkPtok 42 "metadata" 9 16 43)) None (mkPtok 40 "," 9 24 44))); (mkFieldWithAttr (mkSpan (mkPtok 38 "match" 9 25 45) (mkPtok 40 "," 12 22 73)) [] (MatchField (mkSpan (mkPtok 38 "match" 9 25 45) (mkPtok 40 "," 12 22 73)) (mkMatchFieldDecl (mkSpan (mkPtok 38 "match" 9 25 45) (mkPtok 3 "}" 12 20 72)) (mkPtok 38 "match" 9 25 45) (mkPtok 42 "A" 9 31 46) (mkPtok 17 "as" 9 33 47) (mkPtok 42 "u8x" 9 36 48) (mkPtok 2 "{" 9 41 49) [(mkMatchPair (mkSpan (mkPtok 18 "[" 9 43 50) (mkPtok 40 "," 12 7 67)) (MKList (mkKeyList (mkSpan (mkPtok 18 "[" 9 43 50) (mkPtok 13 "]" 11 29 64)) (mkPtok 18 "[" 9 43 50) (mkPtok 31 """it's""" 9 44 51) [((mkPtok 40 "," 9 51 52), (mkPtok 31 (string_of_bytes [34; 92; 195; 169; 34]%N) 9 52 53)); ((mkPtok 40 "," 9 57 54), (mkPtok 30 "0123456789" 10 0 55)); ((mkPtok 40 "," 10 12 56), (mkPtok 31 """1""" 10 14 57)); ((mkPtok 40 "," 10 18 58), (mkPtok 31 """abc""" 10 19 59)); ((mkPtok 40 "," 11 0 60), (mkPtok 31 """// no comment""" 11 1 61)); ((mkPtok 40 "," 11 16 62), (mkPtok 30 "4294967296" 11 18 63))] (mkPtok 13 "]" 11 29 64))) (mkPtok 39 ":" 12 0 65) (mkPtok 42 "pack" 12 2 66) (Some (mkPtok 40 "," 12 7 67))); (mkMatchPair (mkSpan (mkPtok 30 "007" 12 8 68) (mkPtok 40 "," 12 18 71)) (MKDigits (mkPtok 30 "007" 12 8 68)) (mkPtok 39 ":" 12 12 69) (mkPtok 42 "tag" 12 14 70) (Some (mkPtok 40 "," 12 18 71)))] (mkPtok 3 "}" 12 20 72)) (mkPtok 40 "," 12 22 73)))] (mkPtok 3 "}" 12 24 74))); (DPacket (mkPacketDef (mkSpan (mkPtok 35 "packet" 12 26 75) (mkPtok 3 "}" 16 13 86)) None (mkPtok 35 "packet" 12 26 75) (mkPtok 42 "repeatCount" 15 0 78) (mkPtok 2 "{" 15 13 79) [(mkFieldWithAttr (mkSpan (mkPtok 7 "@lengthOf(" 15 15 80) (mkPtok 40 "," 16 11 85)) [(FALengthOf (mkSpan (mkPtok 7 "@lengthOf(" 15 15 80) (mkPtok 6 ")" 15 33 82)) (mkLengthOf (mkSpan (mkPtok 7 "@lengthOf(" 15 15 80) (mkPtok 6 ")" 15 33 82)) (mkPtok 7 "@lengthOf(" 15 15 80) (mkPtok 42 "stringy" 15 25 81) (mkPtok 6 ")" 15 33 82)))] (MetaField (mkSpan (mkPtok 20 "uint8" 16 0 83) (mkPtok 40 "," 16 11 85)) None (mkMetaDecl (mkSpan (mkPtok 20 "uint8" 16 0 83) (mkPtok 40 "," 16 11 85)) (TyBasic (mkSpan (mkPtok 20 "uint8" 16 0 83) (mkPtok 20 "uint8" 16 0 83)) (mkBasicType (mkSpan (mkPtok 20 "uint8" 16 0 83) (mkPtok 20 "uint8" 16 0 83)) (mkPtok 20 "uint8" 16 0 83))) (mkPtok 42 "f32a" 16 6 84) None (mkPtok 40 "," 16 11 85))))] (mkPtok 3 "}" 16 13 86))); (DOption (mkOptionDef (mkSpan (mkPtok 1 "options" 16 14 87) (mkPtok 3 "}" 20 12 97)) (mkPtok 1 "options" 16 14 87) (mkPtok 2 "{" 17 0 88) [(mkOptionDecl (mkSpan (mkPtok 42 "BodyLength" 18 0 89) (mkPtok 41 ";" 19 14 92)) (mkPtok 42 "BodyLength" 18 0 89) (mkPtok 4 "=" 19 4 90) (VPaddingChar (mkSpan (mkPtok 33 "'\x00'" 19 7 91) (mkPtok 33 "'\x00'" 19 7 91)) (mkPtok 33 "'\x00'" 19 7 91)) (Some (mkPtok 41 ";" 19 14 92))); (mkOptionDecl (mkSpan (mkPtok 42 "body" 19 16 93) (mkPtok 41 ";" 20 10 96)) (mkPtok 42 "body" 19 16 93) (mkPtok 4 "=" 20 4 94) (VPaddingChar (mkSpan (mkPtok 33 "' '" 20 6 95) (mkPtok 33 "' '" 20 6 95)) (mkPtok 33 "' '" 20 6 95)) (Some (mkPtok 41 ";" 20 10 96)))] (mkPtok 3 "}" 20 12 97))); (DPacket (mkPacketDef (mkSpan (mkPtok 35 "packet" 20 14 98) (mkPtok 3 "}" 41 1 166)) None (mkPtok 35 "packet" 20 14 98) (mkPtok 42 "charz" 21 4 99) (mkPtok 2 "{" 21 10 100) [(mkFieldWithAttr (mkSpan (mkPtok 36 "repeat" 21 12 101) (mkPtok 40 "," 21 41 105)) [] (ObjectField (mkSpan (mkPtok 36 "repeat" 21 12 101) (mkPtok 40 "," 21 41 105)) (Some (mkPtok 36 "repeat" 21 12 101)) (mkPtok 42 "Z9_" 21 19 102) (Some (mkPtok 42 "rootA" 21 23 103)) (Some (mkPtok 43 "`two words`" 21 29 104)) (mkPtok 40 "," 21 41 105))); (mkFieldWithAttr (mkSpan (mkPtok 5 "@calculatedFrom(" 22 0 107) (mkPtok 40 "," 23 17 115)) [(FACalculatedFrom (mkSpan (mkPtok 5 "@calculatedFrom(" 22 0 107) (mkPtok 6 ")" 22 24 109)) (mkCalculatedFrom (mkSpan (mkPtok 5 "@calculatedFrom(" 22 0 107) (mkPtok 6 ")" 22 24 109)) (mkPtok 5 "@calculatedFrom(" 22 0 107) (mkPtok 31 """a\\""" 22 17 108) (mkPtok 6 ")" 22 24 109)))] (LengthField (mkSpan (mkPtok 42 "f32a" 22 26 110) (mkPtok 40 "," 23 17 115)) (mkLengthFieldDecl (mkSpan (mkPtok 42 "f32a" 22 26 110) (mkPtok 40 "," 23 17 115)) None (mkPtok 42 "f32a" 22 26 110) (mkLengthOf (mkSpan (mkPtok 7 "@lengthOf(" 22 31 111) (mkPtok 6 ")" 23 4 113)) (mkPtok 7 "@lengthOf(" 22 31 111) (mkPtok 42 "msg_type" 22 42 112) (mkPtok 6 ")" 23 4 113)) (Some (mkPtok 43 "`say ""hi""`" 23 6 114)) (mkPtok 40 "," 23 17 115)))); (mkFieldWithAttr (mkSpan (mkPtok 24 "int8" 23 18 116) (mkPtok 40 "," 23 26 118)) [] (MetaField (mkSpan (mkPtok 24 "int8" 23 18 116) (mkPtok 40 "," 23 26 118)) None (mkMetaDecl (mkSpan (mkPtok 24 "int8" 23 18 116) (mkPtok 40 "," 23 26 118)) (TyBasic (mkSpan (mkPtok 24 "int8" 23 18 116) (mkPtok 24 "int8" 23 18 116)) (mkBasicType (mkSpan (mkPtok 24 "int8" 23 18 116) (mkPtok 24 "int8" 23 18 116)) (mkPtok 24 "int8" 23 18 116))) (mkPtok 42 "As" 23 23 117) None (mkPtok 40 "," 23 26 118)))); (mkFieldWithAttr (mkSpan (mkPtok 15 "string" 23 28 119) (mkPtok 40 "," 26 5 125)) [] (LengthField (mkSpan (mkPtok 15 "string" 23 28 119) (mkPtok 40 "," 26 5 125)) (mkLengthFieldDecl (mkSpan (mkPtok 15 "string" 23 28 119) (mkPtok 40 "," 26 5 125)) (Some (TyDynamic (mkSpan (mkPtok 15 "string" 23 28 119) (mkPtok 15 "string" 23 28 119)) (mkDynamicString (mkSpan (mkPtok 15 "string" 23 28 119) (mkPtok 15 "string" 23 28 119)) (mkPtok 15 "string" 23 28 119)))) (mkPtok 42 "stringy" 23 35 120) (mkLengthOf (mkSpan (mkPtok 7 "@lengthOf(" 24 0 121) (mkPtok 6 ")" 24 19 123)) (mkPtok 7 "@lengthOf(" 24 0 121) (mkPtok 42 "options1" 24 10 122) (mkPtok 6 ")" 24 19 123)) (Some (mkPtok 43 (string_of_bytes [96; 99; 114; 108; 102; 13; 10; 108; 105; 110; 101; 96]%N) 25 0 124)) (mkPtok 40 "," 26 5 125)))); (mkFieldWithAttr (mkSpan (mkPtok 24 "i8" 26 7 126) (mkPtok 40 "," 27 0 128)) [] (MetaField (mkSpan (mkPtok 24 "i8" 26 7 126) (mkPtok 40 "," 27 0 128)) None (mkMetaDecl (mkSpan (mkPtok 24 "i8" 26 7 126) (mkPtok 40 "," 27 0 128)) (TyBasic (mkSpan (mkPtok 24 "i8" 26 7 126) (mkPtok 24 "i8" 26 7 126)) (mkBasicType (mkSpan (mkPtok 24 "i8" 26 7 126) (mkPtok 24 "i8" 26 7 126)) (mkPtok 24 "i8" 26 7 126))) (mkPtok 42 "i8i8" 26 10 127) None (mkPtok 40 "," 27 0 128)))); (mkFieldWithAttr (mkSpan (mkPtok 42 "f32a" 27 2 129) (mkPtok 40 "," 27 15 131)) [] (ObjectField (mkSpan (mkPtok 42 "f32a" 27 2 129) (mkPtok 40 "," 27 15 131)) None (mkPtok 42 "f32a" 27 2 129) (Some (mkPtok 42 "options1" 27 7 130)) None (mkPtok 40 "," 27 15 131))); (mkFieldWithAttr (mkSpan (mkPtok 32 "@leftPad" 28 0 132) (mkPtok 40 "," 32 2 140)) [(FAPadding (mkSpan (mkPtok 32 "@leftPad" 28 0 132) (mkPtok 6 ")" 29 11 135)) (mkPaddingAttr (mkSpan (mkPtok 32 "@leftPad" 28 0 132) (mkPtok 6 ")" 29 11 135)) (mkPtok 32 "@leftPad" 28 0 132) (mkPtok 8 "(" 28 8 133) (Some (mkPtok 33 "'\x00'" 29 4 134)) (mkPtok 6 ")" 29 11 135)))] (CheckSumField (mkSpan (mkPtok 42 "u" 30 0 136) (mkPtok 40 "," 32 2 140)) (mkChecksumFieldDecl (mkSpan (mkPtok 42 "u" 30 0 136) (mkPtok 40 "," 32 2 140)) None (mkPtok 42 "u" 30 0 136) (mkCalculatedFrom (mkSpan (mkPtok 5 "@calculatedFrom(" 31 4 137) (mkPtok 6 ")" 32 0 139)) (mkPtok 5 "@calculatedFrom(" 31 4 137) (mkPtok 31 (string_of_bytes [34; 240; 159; 152; 128; 34]%N) 31 21 138) (mkPtok 6 ")" 32 0 139)) None (mkPtok 40 "," 32 2 140)))); (mkFieldWithAttr (mkSpan (mkPtok 5 "@calculatedFrom(" 33 0 141) (mkPtok 40 "," 38 0 156)) [(FACalculatedFrom (mkSpan (mkPtok 5 "@calculatedFrom(" 33 0 141) (mkPtok 6 ")" 34 5 143)) (mkCalculatedFrom (mkSpan (mkPtok 5 "@calculatedFrom(" 33 0 141) (mkPtok 6 ")" 34 5 143)) (mkPtok 5 "@calculatedFrom(" 33 0 141) (mkPtok 31 (string_of_bytes [34; 92; 195; 169; 34]%N) 34 0 142) (mkPtok 6 ")" 34 5 143))); (FATag (mkSpan (mkPtok 9 "@tag(" 34 7 144) (mkPtok 6 ")" 34 17 146)) (mkTagAttr (mkSpan (mkPtok 9 "@tag(" 34 7 144) (mkPtok 6 ")" 34 17 146)) (mkPtok 9 "@tag(" 34 7 144) (mkPtok 30 "00" 34 14 145) (mkPtok 6 ")" 34 17 146))); (FATag (mkSpan (mkPtok 9 "@tag(" 34 19 147) (mkPtok 6 ")" 35 1 149)) (mkTagAttr (mkSpan (mkPtok 9 "@tag(" 34 19 147) (mkPtok 6 ")" 35 1 149)) (mkPtok 9 "@tag(" 34 19 147) (mkPtok 30 "0" 35 0 148) (mkPtok 6 ")" 35 1 149)))] (CheckSumField (mkSpan (mkPtok 27 "int64" 36 0 150) (mkPtok 40 "," 38 0 156)) (mkChecksumFieldDecl (mkSpan (mkPtok 27 "int64" 36 0 150) (mkPtok 40 "," 38 0 156)) (Some (TyBasic (mkSpan (mkPtok 27 "int64" 36 0 150) (mkPtok 27 "int64" 36 0 150)) (mkBasicType (mkSpan (mkPtok 27 "int64" 36 0 150) (mkPtok 27 "int64" 36 0 150)) (mkPtok 27 "int64" 36 0 150)))) (mkPtok 42 "trueish" 36 6 151) (mkCalculatedFrom (mkSpan (mkPtok 5 "@calculatedFrom(" 36 13 152) (mkPtok 6 ")" 37 0 155)) (mkPtok 5 "@calculatedFrom(" 36 13 152) (mkPtok 31 """`tick`""" 36 29 153) (mkPtok 6 ")" 37 0 155)) None (mkPtok 40 "," 38 0 156)))); (mkFieldWithAttr (mkSpan (mkPtok 32 "@leftPad" 38 2 157) (mkPtok 40 "," 41 0 165)) [(FAPadding (mkSpan (mkPtok 32 "@leftPad" 38 2 157) (mkPtok 6 ")" 39 4 160)) (mkPaddingAttr (mkSpan (mkPtok 32 "@leftPad" 38 2 157) (mkPtok 6 ")" 39 4 160)) (mkPtok 32 "@leftPad" 38 2 157) (mkPtok 8 "(" 38 11 158) (Some (mkPtok 33 "' '" 39 0 159)) (mkPtok 6 ")" 39 4 160)))] (LengthField (mkSpan (mkPtok 42 "zchar" 40 4 161) (mkPtok 40 "," 41 0 165)) (mkLengthFieldDecl (mkSpan (mkPtok 42 "zchar" 40 4 161) (mkPtok 40 "," 41 0 165)) None (mkPtok 42 "zchar" 40 4 161) (mkLengthOf (mkSpan (mkPtok 7 "@lengthOf(" 40 9 162) (mkPtok 6 ")" 40 24 164)) (mkPtok 7 "@lengthOf(" 40 9 162) (mkPtok 42 "Z9_" 40 20 163) (mkPtok 6 ")" 40 24 164)) None (mkPtok 40 "," 41 0 165))))] (mkPtok 3 "}" 41 1 166)))])).
Eval vm_compute in ("<<<M282>>>" ++ check (runes_of_ascii "MetaData _x{ } packet calculatedFrom {
}MetaData
_x	{i32
    body
    , uint8 x , }")).
Eval vm_compute in ("<<<M292>>>" ++ check (runes_of_ascii "MetaData f32a { uint8
/// triple
//x
x ,
f64 As
`" ++ [233]%N ++ runes_of_ascii "`
    // packet A { u8 x, }
    , i64 f32a `u8 x,`  , uint32 // " ++ [128512]%N ++ runes_of_ascii " emoji
string_ `crlf
line` , char[ 10] pack
    `a\` /// triple
,Packet lengthOf	,}
    root
packet
    MetaDataX { i32	u8x`tab	here` ,
char[] stringy @lengthOf( repeatCount
    ) `crlf
line` , @rightPad ( )@lengthOf( Foo  ) char[
65535	] body  , repeat pack{
rootA `it's`
    , match msg_type as  x_y_z {
1:
i64_ , 0123456789
:Logon
    , [ ""CRC32""]
:
A 1
: _x , // a // b
[ 42
    // a // b
    ] //
:// @lengthOf(
repeatCount , ""a	b""
: pack
    ,
},
char[
    4294967296]lengthOf @lengthOf( options1//x
), } , @tag( 4294967296 ) // " ++ [128512]%N ++ runes_of_ascii " emoji
@calculatedFrom( //x
""" ++ [128512]%N ++ runes_of_ascii """ )
// " ++ [128512]%N ++ runes_of_ascii " emoji
// " ++ [27880; 37322]%N ++ runes_of_ascii "
repeat string	u, @lengthOf( // @lengthOf(
f32a	) @tag(
    007 ) @tag(
7  ) msg_type Pad  , }
    MetaData roots
    { u64 MetaDataX
,}
packet // " ++ [27880; 37322]%N ++ runes_of_ascii "
roots
{
@tag(
    255 )
    char[
0123456789
]  Logon`" ++ [28040; 24687; 31867; 22411]%N ++ runes_of_ascii "`
    ,
    body // packet A { u8 x, }
@lengthOf( // a // b
u8x) `two words`
// " ++ [27880; 37322]%N ++ runes_of_ascii "
/// triple
, @lengthOf( Z9_
)
    packetx @calculatedFrom( """ ++ [28040; 24687]%N ++ runes_of_ascii """ )// " ++ [27880; 37322]%N ++ runes_of_ascii "
,
    }
")).
Eval vm_compute in ("<<<M302>>>" ++ check (runes_of_ascii "options {
	StringPrefixLenType = u16;
	ArrayPrefixLenType = u16;
}

packet SampleBinary {
	uint16 MsgType `" ++ [28040; 24687; 31867; 22411]%N ++ runes_of_ascii "`,
	u16 BodyLenght @lengthOf(Body) `" ++ [28040; 24687; 20307; 38271; 24230]%N ++ runes_of_ascii "`,
	match MsgType as Body {
		1 : Logon,
		2 : Logout,
		3 : Heartbeat,
		4 : RiskControlRequest,
		5 : RiskControlResponse,
	},
		@calculatedFrom(""CRC32"")
	u32 Ckecksum `" ++ [26657; 39564; 21644]%N ++ runes_of_ascii "`,
}

packet Logon {
	 @leftPad('0')
	char[10] UserName `" ++ [29992; 25143; 21517]%N ++ runes_of_ascii "`,
	string Password `" ++ [23494; 30721]%N ++ runes_of_ascii "`,
	uint64 ClientId `" ++ [23458; 25143; 31471]%N ++ runes_of_ascii "ID`,
	u16 HeartbeatInterval `" ++ [24515; 36339; 38388; 38548]%N ++ runes_of_ascii "`,
}

packet Logout {
	  @rightPad('0')
	char[10] UserName `" ++ [29992; 25143; 21517]%N ++ runes_of_ascii "`,
	uint64 ClientId `" ++ [23458; 25143; 31471]%N ++ runes_of_ascii "ID`,
}

packet Heartbeat {
}

packet RiskControlRequest {
	string UniqueOrderId `" ++ [21807; 19968; 35746; 21333; 21495]%N ++ runes_of_ascii "`,
	char[16] ClOrdID `" ++ [23458; 25143; 35746; 21333; 21495]%N ++ runes_of_ascii "`,
	char[3] MarketID `" ++ [24066; 22330]%N ++ runes_of_ascii "id`,
	char[12] SecurityID `" ++ [35777; 21048; 20195; 30721]%N ++ runes_of_ascii "`,
	char Side `" ++ [20080; 21334; 26041; 21521]%N ++ runes_of_ascii "`,
	char OrderType `" ++ [35746; 21333; 31867; 22411]%N ++ runes_of_ascii "`,
	u64 Price `" ++ [20215; 26684]%N ++ runes_of_ascii "`,
	u32 Qty `" ++ [25968; 37327]%N ++ runes_of_ascii "`,
	repeat string ExtraInfo `" ++ [38468; 21152; 20449; 24687]%N ++ runes_of_ascii "`,
	repeat SubOrder {
			char[16] ClOrdID `" ++ [23376; 35746; 21333; 21495]%N ++ runes_of_ascii "`,
			u64 Price `" ++ [23376; 35746; 21333; 20215; 26684]%N ++ runes_of_ascii "`,
			u32 Qty `" ++ [23376; 35746; 21333; 25968; 37327]%N ++ runes_of_ascii "`,
		},
}

packet RiskControlResponse {
	string UniqueOrderId `" ++ [21807; 19968; 35746; 21333; 21495]%N ++ runes_of_ascii "`,
	i32 Status `" ++ [29366; 24577]%N ++ runes_of_ascii "`,
	string Msg `" ++ [32467; 26524; 20449; 24687]%N ++ runes_of_ascii "`,
	repeat Detail,
}

packet Detail {
	string RuleName `" ++ [35268; 21017; 21517; 31216]%N ++ runes_of_ascii "`,
	u16 Code `" ++ [21407; 22240; 20195; 30721]%N ++ runes_of_ascii "`,
}")).
Eval vm_compute in ("<<<M312>>>" ++ check (runes_of_ascii ")
asx
{ Z9_ Header// " ++ [128512]%N ++ runes_of_ascii " emoji
,} packet pack
    { }
")).
Eval vm_compute in ("<<<M322>>>" ++ check (runes_of_ascii "packet
asx
@lengthOf( Z9_ Header// " ++ [128512]%N ++ runes_of_ascii " emoji
,} packet pack
    { }
")).
Eval vm_compute in ("<<<M332>>>" ++ check (runes_of_ascii "packet
asx
{ Z9_ ]// " ++ [128512]%N ++ runes_of_ascii " emoji
,} packet pack
    { }
")).
Eval vm_compute in ("<<<M342>>>" ++ check (runes_of_ascii "packet
asx
{ Z9_ Header// " ++ [128512]%N ++ runes_of_ascii " emoji
,MetaData packet pack
    { }
")).
Eval vm_compute in ("<<<M352>>>" ++ check (runes_of_ascii "packet
asx
{ Z9_ Header// " ++ [128512]%N ++ runes_of_ascii " emoji
,} packet true
    { }
")).
Eval vm_compute in ("<<<M362>>>" ++ check (runes_of_ascii "packet
asx
{ Z9_ Header// " ++ [128512]%N ++ runes_of_ascii " emoji
,} packet pack
    {")).
Eval vm_compute in ("<<<M372>>>" ++ check (runes_of_ascii "packet
asx
{ Z9_ Header// " ++ [128512]%N ++ runes_of_ascii " emoji
,} packet '1'pack
    { }
")).
Eval vm_compute in ("<<<M382>>>" ++ check (runes_of_ascii "packet
asx
{ Z9_ Header// " ++ [128512]%N ++ runes_of_ascii " emoji
,} packet a" ++ [769]%N ++ runes_of_ascii "b
    { }
")).
Eval vm_compute in ("<<<M392>>>" ++ check (runes_of_ascii "MetaData { o char[ // `tick` ""quote"" 'q'
3] body, } packet o{
u8
charz ,
    }")).
Eval vm_compute in ("<<<M402>>>" ++ check (runes_of_ascii "MetaData o { 3 // `tick` ""quote"" 'q'
char[ ] body, } packet o{
u8
charz ,
    }")).
Eval vm_compute in ("<<<M412>>>" ++ check (runes_of_ascii "MetaData o { char[ // `tick` ""quote"" 'q'
3 body ], } packet o{
u8
charz ,
    }")).
Eval vm_compute in ("<<<M422>>>" ++ check (runes_of_ascii "MetaData o { char[ // `tick` ""quote"" 'q'
3] body} , packet o{
u8
charz ,
    }")).
Eval vm_compute in ("<<<M432>>>" ++ check (runes_of_ascii "MetaData o { char[ // `tick` ""quote"" 'q'
3] body, } o packet{
u8
charz ,
    }")).
Eval vm_compute in ("<<<M442>>>" ++ check (runes_of_ascii "MetaData o { char[ // `tick` ""quote"" 'q'
3] body, } packet o u8
{
charz ,
    }")).
Eval vm_compute in ("<<<M452>>>" ++ check (runes_of_ascii "MetaData o { char[ // `tick` ""quote"" 'q'
3] body, } packet o{
u8
, charz
    }")).
Eval vm_compute in ("<<<M462>>>" ++ check (runes_of_ascii "MetaData o { char[ // `tick` ""quote"" 'q'
3] body, } packet o{
u8
charz ,
    int64")).
Eval vm_compute in ("<<<M472>>>" ++ check (runes_of_ascii "MetaData o { char[ // `tick` ""quo" ++ [0]%N ++ runes_of_ascii "te"" 'q'
3] body, } packet o{
u8
charz ,
    }")).
Eval vm_compute in ("<<<M482>>>" ++ check (runes_of_ascii "MetaDat@xa o { char[ // `tick` ""quote"" 'q'
3] body, } packet o{
u8
charz ,
    }")).
Eval vm_compute in ("<<<M492>>>" ++ check (runes_of_ascii "options { {calculatedFrom =	int8 ;}

")).
Eval vm_compute in ("<<<M502>>>" ++ check (runes_of_ascii "options {calculatedFrom = =	int8 ;}

")).
Eval vm_compute in ("<<<M512>>>" ++ check (runes_of_ascii "options {calculatedFrom =	int8 ; ;}

")).
Eval vm_compute in ("<<<M522>>>" ++ check (runes_of_ascii "options {calculate")).
Eval vm_compute in ("<<<M532>>>" ++ check (runes_of_ascii "options {calculatedFrom =	int8 ~;}

")).
Eval vm_compute in ("<<<M542>>>" ++ check (runes_of_ascii "
MetaData chars {Logon ,
    float calculatedFrom
,  u32 i64_ ,	}")).
Eval vm_compute in ("<<<M552>>>" ++ check (runes_of_ascii "
MetaData chars { packetx,
    float calculatedFrom
,  u32 i64_ ,	}")).
Eval vm_compute in ("<<<M562>>>" ++ check (runes_of_ascii "
 chars {Logon packetx,
    float calculatedFrom
,  u32 i64_ ,	}")).
Eval vm_compute in ("<<<M572>>>" ++ check (runes_of_ascii "// a
// b
")).
Eval vm_compute in ("<<<M582>>>" ++ check (runes_of_ascii "!@P?FeW$#:`""7b54{)Mg,Ejck")).
Eval vm_compute in ("<<<M592>>>" ++ check (runes_of_ascii ") @lengthOf( u16 repeat [ ( i8 char[ i32 float32")).
