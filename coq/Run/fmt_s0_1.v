From FP Require Import Lexer Parser ShowPT Digest Formatter.
From Coq Require Import String List NArith.
Import ListNotations.
Open Scope string_scope.
Set Printing Width 100000000.
Set Printing Depth 100000000.
Definition show_fres (r : fres) : string :=
  match r with
  | FOk s => "OK:" ++ sh_escaped s ""
  | FErr s => "ERR:" ++ sh_escaped s ""
  | FPanic p => "PANIC:" ++ p
  end.
Definition check (rs : list rune) : string := digest (show_fres (format_res rs)).
Definition full (rs : list rune) : string := show_fres (format_res rs).
Eval vm_compute in ("<<<M1342>>>" ++ check (runes_of_ascii "// top
options
    // c0
{ StringPrefixLenType
    // c2
= u64 ; ArrayPrefixLenType // c6
= u32
    // c8
; // c9a
  // c9b
FixedStringPadFromLeft
    // c10
=
    // c11
false // c12
; } // c14
packet // c15
Party // c16
{ zchar[ // c18
7 // c19
] // c20
OrderId // c21a
  // c21b
, // c22
InTail6 { // c24
repeat // c25a
  // c25b
char[ // c26
1 ] // c28
msgKind , // c30
char[
    // c31
3 // c32a
  // c32b
] Tail , char[
    // c36
3 // c37a
  // c37b
]
    // c38
Flags // c39
, // c40a
  // c40b
i16 tag7
    // c42
, // c43a
  // c43b
} ,
    // c45
@rightPad
    // c46
(
    // c47
'0' // c48
) char[ // c50
12 // c51a
  // c51b
]
    // c52
clOrdID
    // c53
, // c54
} packet // c56a
  // c56b
Quote // c57a
  // c57b
{ @leftPad // c59
( // c60
'0' // c61a
  // c61b
)
    // c62
char[ // c63a
  // c63b
11
    // c64
]
    // c65
price // c66a
  // c66b
, // c67
repeat InCount7 // c69
{ // c70
i32 // c71
x // c72
, // c73a
  // c73b
Party , // c75a
  // c75b
u8 // c76a
  // c76b
Ref // c77a
  // c77b
, u8 // c79
tag7 // c80
, // c81
} ,
    // c83
char[] // c84
seqNo // c85
,
    // c86
Party
    // c87
, // c88
} // c89
packet // c90
Logon // c91a
  // c91b
{ @rightPad // c93a
  // c93b
(
    // c94
'\x00'
    // c95
) // c96a
  // c96b
char[ // c97
5 ] // c99
Note
    // c100
, i16 sym // c103
, // c104a
  // c104b
InPrice72 // c105
{ // c106
char[ 9 // c108
]
    // c109
Ref // c110
,
    // c111
zchar[
    // c112
1 ] venue // c115
, // c116a
  // c116b
} // c117a
  // c117b
, // c118a
  // c118b
char[]
    // c119
clOrdID
    // c120
, // c121a
  // c121b
} // c122
root
    // c123
packet // c124
Reject { // c126
repeat // c127a
  // c127b
Logon // c128
, // c129a
  // c129b
@leftPad ( // c131
' ' // c132
) // c133a
  // c133b
char[
    // c134
4 // c135a
  // c135b
] // c136a
  // c136b
seqNo
    // c137
,
    // c138
zchar[ // c139a
  // c139b
5
    // c140
] // c141
Acct // c142
, // c143
u32
    // c144
x
    // c145
, // c146
u16
    // c147
f1
    // c148
@lengthOf( // c149a
  // c149b
Body // c150a
  // c150b
)
    // c151
, match x // c154a
  // c154b
as
    // c155
Body // c156a
  // c156b
{ // c157a
  // c157b
[
    // c158
169
    // c159
, 74 ]
    // c162
:
    // c163
Quote
    // c164
, // c165
45 // c166a
  // c166b
: Party // c168a
  // c168b
, // c169
7 // c170
:
    // c171
Logon , // c173
} // c174
,
    // c175
} // c176a
  // c176b
")).
Eval vm_compute in ("<<<M279>>>" ++ check (runes_of_ascii "  root packet
    crc {	uint32
repeatCount //
@lengthOf( // a // b
MetaDataX	) `say ""hi""` ,
    @tag( 65535 ) A {
    u128 , u8x	{ repeatCount  @lengthOf( As )// c
,// packet A { u8 x, }
i32	_x@calculatedFrom(//	t
""" ++ [128512]%N ++ runes_of_ascii """	), } , } // c
,
@lengthOf(As ) @tag(  0 ) @tag(4294967296 ) string metadata ,
string lengthOf // `tick` ""quote"" 'q'
@lengthOf(f32a) , @tag( 3 )string packetx,	@lengthOf( Pad) @lengthOf( packetx ) BodyLength @calculatedFrom( ""a	b"" )
, repeat u8x
{ zchar[ 3 ]
    tag `doc` , match As as leftPad
    { [
    10 ,
3 , 7 ,
""abc"" , 42 // @lengthOf(
]
:
A
, } , match Header as falsey { 42
// `tick` ""quote"" 'q'
// trailing space 
:
    msg_type
    , 00
: A
1 :
charz ,""// no comment"" : int // @lengthOf(
,	0123456789 :chars , 4294967296
: x } ,
}
    /// triple
    , @tag(
10 ) @tag(//x
007 )
@calculatedFrom( ""`tick`""
    )i8i8 @lengthOf(
    //
    charz ),
    char[ 7] Header
, } packet
lengthOf // @lengthOf(
{match metadata
    // " ++ [128512]%N ++ runes_of_ascii " emoji
    as asx{ 7 // packet A { u8 x, }
: //
float  ,
    // " ++ [128512]%N ++ runes_of_ascii " emoji
    """ ++ [233]%N ++ runes_of_ascii "t" ++ [233]%N ++ runes_of_ascii """:
stringy
, """ ++ [28040; 24687]%N ++ runes_of_ascii """ :
BodyLength , 7 : leftPad , } , @lengthOf(MetaDataX
)repeat zchar[ 7 ]float , @tag( 0
    )matchKey @calculatedFrom(""packet""
    ) // packet A { u8 x, }
, }packet Pad{ options1 @lengthOf(rootA ),} root // c
packet BodyLength{
string uint8x
//
// " ++ [27880; 37322]%N ++ runes_of_ascii "
@lengthOf( Z9_) , } // c")).
Eval vm_compute in ("<<<M134>>>" ++ check (runes_of_ascii "packet // " ++ [128512]%N ++ runes_of_ascii " emoji
x{
    //x
    lengthOf @calculatedFrom(""abc"")
`u8 x,`
    ,
@rightPad( )
//x
// @lengthOf(
float32 Packet @lengthOf( falsey ) ,	char[ 10] falsey , @tag( 3  ) repeat zchar[
    4294967296 ] repeatCount ,repeatCount`say ""hi""` , int16 u128 // `tick` ""quote"" 'q'
,
char[ 3
] crc
@calculatedFrom( ""x y"" )
, // trailing space 
@leftPad
    (
    // " ++ [27880; 37322]%N ++ runes_of_ascii "
    '\x00' )	match chars as i8i8 {
    42 : charz// trailing space 
,}
, }  options {	} MetaData metadata { char[ 4294967296 ] i8i8	,
    float
    rootA , i64
    packetx // " ++ [27880; 37322]%N ++ runes_of_ascii "
, i8 // " ++ [27880; 37322]%N ++ runes_of_ascii "
roots `crlf
line`
    ,
    tag i64_  , uint8 Pad `" ++ [233]%N ++ runes_of_ascii "`
, }root packet Header{
u64 options1  `two words`
    , @calculatedFrom(""a\\"" // trailing space 
) // " ++ [128512]%N ++ runes_of_ascii " emoji
i32 //	t
x_y_z	@calculatedFrom( ""a\""b"")`tab	here` , match
A as len { [ ""CRC32"" // " ++ [128512]%N ++ runes_of_ascii " emoji
,""it's""  ] //	t
: Z9_ ""a	b"" :
    o ,
} , match asx
as pack {0 :	x_y_z , }
    , char[] i64_ `{ , }`
,
    }
MetaData stringy
{ // trailing space 
lengthOf
// `tick` ""quote"" 'q'
//	t
o, string//
u8x , f32 string_ `doc` ,}
")).
Eval vm_compute in ("<<<M1737>>>" ++ check (runes_of_ascii "options

{

StringPrefixLenType

=	u64  ;
ArrayPrefixLenType
	= 
u32 
; FixedStringPadFromLeft= 
false;
}
	packet	Party
{ 
zchar[	7

]
	OrderId,

    InTail6

{
repeat	char[	1	]

msgKind  , char[	3
]
Tail
,  char[

3 ]Flags
	, i16

tag7

    , } 
, @rightPad (	'0'	)	char[
12
	]  clOrdID ,
	}
packet
Quote{
@leftPad 
( 
'0'
	) char[
	11
    ] price,repeat
    InCount7  {i32 
x ,Party,	u8
    Ref ,u8
    tag7

,
    }  ,char[]

    seqNo
    ,  Party ,  } packet Logon	{ @rightPad
    ( 
'\x00'

    )

    char[ 
5 
]Note ,

    i16 sym
,	InPrice72
{  char[
9]
Ref ,zchar[1

]  venue

    , 
}

    , char[]

    clOrdID  ,
	}
root
packet Reject { repeat Logon ,@leftPad

(
' ' ) char[ 
4

]seqNo
,
zchar[

    5 ]

Acct
	,
u32
	x 
,u16
f1

@lengthOf( 
Body ) 
,match
	x  as
	Body

    {
    [ 
169 
,
    74 
]  :Quote 
,
45

: Party  ,
    7 
:
Logon ,

}
    ,
    }
")).
Eval vm_compute in ("<<<M104>>>" ++ check (runes_of_ascii "options{  matchKey = ""x y""
    ;	MetaDataX
= '0'
;
} packet // c
msg_type { @rightPad ( ' '  )repeat u128 body	, match body	as /// triple
pack{ [ ""\" ++ [233]%N ++ runes_of_ascii """ , ""1"" ]: BodyLength
, [ 255
, ""a	b"" , ""a\\"" , ""{,}""
,  007 , 007 ,
    0123456789
] : options1	,	} ,@leftPad
()@lengthOf(charz	)
@tag(	42
) o{	i32 msg_type @lengthOf( A )// " ++ [27880; 37322]%N ++ runes_of_ascii "
`doc` ,zchar[ 1] charz  , // c
i8 packetx`{ , }`,
msg_type `crlf
line`
    , }	,
@calculatedFrom( ""\" ++ [233]%N ++ runes_of_ascii """ ) Z9_ @calculatedFrom(
""" ++ [128512]%N ++ runes_of_ascii """ )`tab	here` ,
repeat char[] Foo ,
repeat zchar[ 0123456789]	u128
, }	packet f32a{
    f32a @lengthOf( matchKey )//x
, @rightPad (
    ' ' // " ++ [27880; 37322]%N ++ runes_of_ascii "
)@lengthOf( chars ) _x Foo  `` ,  match
    body // c
as
    body
    {	[4294967296
    , ""packet"", 3 , """ ++ [128512]%N ++ runes_of_ascii """
,
0123456789  ]
: T [ ""a\\"" ]// `tick` ""quote"" 'q'
: T
, ""\n""
:
u8x , }
//	t
//x
,} //x
root packet lengthOf
{ }
")).
Eval vm_compute in ("<<<M1344>>>" ++ check (runes_of_ascii "options {
    StringPrefixLenType = u16;
    ArrayPrefixLenType = u32;
    FixedStringPadFromLeft = true;
    FixedStringPadChar = '0';
}
packet Cancel {
}
packet Party {
}
packet Logon {
}
packet Ack {
}
packet Logout {
    repeat InSym87 {
        InClordid94 {
            string clOrdID,
        },
        string Px,
        i16 Qty,
        repeat InCount71 {
            repeat Cancel,
            uint16 Tail,
            char[2] x,
            repeat string Ref,
        },
        Cancel,
    },
}
root packet Order {
    repeat string tag7,
    @leftPad(' ') char[3] Px,
    u8 Qty,
    match Qty as Body {
        [28, 62] : Logon,
        148 : Ack,
        88 : Party,
        184 : Cancel,
    },
    u16 Note @calculatedFrom(""CRC32""),
}
")).
Eval vm_compute in ("<<<M1644>>>" ++ check (runes_of_ascii "packet charz {
    //	t
    repeat i64_,
    trueish {
        repeat _x,
        repeatCount,
        repeat u16 matchKey `
                `,
        // " ++ [128512]%N ++ runes_of_ascii " emoji
        // a // b
        matchKey @calculatedFrom(""a\""b"") `it's`,
    },
    @tag(007)
    @calculatedFrom(""a\\"")
    @tag(3)
    f32 f32a @lengthOf(asx) `crlf
        line`,
    repeat i8 string_,
    @lengthOf(Logon)
    @lengthOf(x_y_z)
    @lengthOf(zchar)
    repeat char[65535] Foo `" ++ [233]%N ++ runes_of_ascii "`,
    @calculatedFrom(""abc"")
    trueish @lengthOf(A),
    char[0] float,
    Packet @calculatedFrom(""a	b""),
}

MetaData Pad {
    char[00] leftPad,
    u8 rootA `
        `,
    int32 a1 `say ""hi""`,
    Z9_ float,
    i32 Pad,
}")).
Eval vm_compute in ("<<<M1446>>>" ++ check (runes_of_ascii "// top
    root	// c0
		packet // c1
  	_x	// c2
  { 	 // c3
  match  // c4
    Foo 	 // c5
	as// c6
    Z9_ // c7
{// c8
""a	b""	// c9
: 	 // c10
      Pad// c11
	,// c12
		}// c13
    	,// c14
repeat // c15
  x// c16
		`line1
line2` // c17
,  // c18
	@rightPad // c19
  ( 	 // c20
	' '// c21
  )// c22
    @calculatedFrom(// c23
    ""a\\"" 	 // c24
	)	// c25
    metadata	// c26
  	MetaDataX	// c27
      ,  // c28
  @tag(// c29
		0  // c30

  ) 	 // c31

Logon // c32
	  int  // c33
    `` // c34
  ,// c35
    }  // c36

  options 	 // c37
    {  // c38
T	// c39
  =	// c40
    '\x00'  // c41
	}	// c42")).
Eval vm_compute in ("<<<M1670>>>" ++ check (runes_of_ascii "MetaData packetx {
    zchar[7] leftPad `// not a comment`,
}

packet i64_ {
    @calculatedFrom("""")
    @lengthOf(x_y_z)
    @tag(00)
    repeatCount @calculatedFrom(""1""),
}

packet falsey {
    int16 _x @calculatedFrom(""it's""),
}// @lengthOf(

root packet matchKey {
    repeat u32 Pad `" ++ [233]%N ++ runes_of_ascii "`,
    zchar[7] leftPad,
    match chars as lengthOf {
        1 : o,
        42 : chars,
    },
    repeat zchar[255] a1,
    matchKey Packet,
    f32 tag,
    @calculatedFrom(""a\""b"")
    @leftPad(' ')
    @lengthOf(T)
    stringy @lengthOf(o),
    packetx i64_,
}")).
Eval vm_compute in ("<<<M1927>>>" ++ check (runes_of_ascii "options

// @lengthOf(
  {
	}	packet charz{
@rightPad(  ' ' ) 
@calculatedFrom(""a\\"" )	repeat int crc

    `two words` 
,
string stringy
	@calculatedFrom(	""a	b"" 
  // " ++ [128512]%N ++ runes_of_ascii " emoji
) `// not a comment`

, 	 //
  char 
i8i8 , } MetaData
    crc	{ 	 // `tick` ""quote"" 'q'
    crc
    i64_  `{ , }`
	,
    // `tick` ""quote"" 'q'

  i32 // c
    u128
,	// packet A { u8 x, }
    BodyLength	Header
,
char[	0123456789
    ]
	    /// triple
	//
	Packet
`u8 x,`
,
uint8 repeatCount

, //	t
  }
")).
Eval vm_compute in ("<<<M1499>>>" ++ check (runes_of_ascii "options {
    LittleEndian = true;
    StringPrefixLenType = u64;
    ArrayPrefixLenType = u16;
    FixedStringPadFromLeft = false;
    FixedStringPadChar = ' ';
}

packet Logon {
    zchar[5] Side2,
}

root packet Logout {
    repeat i64 Tail,
    Logon,
    repeat i16 OrderId,
    char[] venue,
    uint64 x,
    repeat i16 count,
    u8 Flags,
    match Flags as Body {
        25 : Logon,
    },
    u16 Qty @calculatedFrom(""CR\
    C32""),
}")).
Eval vm_compute in ("<<<M1323>>>" ++ check (runes_of_ascii "options {
    LittleEndian = false;
    StringPrefixLenType = u8;
    ArrayPrefixLenType = u64;
    FixedStringPadFromLeft = false;
    FixedStringPadChar = ' ';
}
packet Reject {
    repeat char[4] seqNo,
    string Px,
}
root packet Trade {
    @rightPad('0') char[2] msgKind,
    repeat f64 price,
    InAcct79 {
        repeat Reject,
        zchar[7] OrderId,
    },
    Reject,
}
")).
Eval vm_compute in ("<<<M299>>>" ++ check (runes_of_ascii "// packet A { u8 x, }
MetaData roots{ char[ 00]lengthOf
``  , As stringy, x	calculatedFrom ,} packet i8i8	{
crc `crlf
line` , @rightPad// a // b
( )zchar[ 42] falsey // trailing space 
,
    /// triple
    @tag( 42 ) u32	leftPad  , @tag( 42 ) a1@lengthOf( Z9_ ) , match leftPad as crc{ [""a\""b"" , 1
, 255
]:	trueish ,3
: float ,
0 :lengthOf
    ,
} ,}")).
Eval vm_compute in ("<<<M1191>>>" ++ check (runes_of_ascii "// top
MetaData // c0
uint8x // c1
{ // c2
char[] // c3
f32a // c4
`// not a comment` // c5
, // c6
float32 // c7
roots // c8
, // c9
char[ // c10
7 // c11
] // c12
u8x // c13
, // c14
zchar[ // c15
10 // c16
] // c17
f32a // c18
, // c19
u64 // c20
pack // c21
, // c22
u16 // c23
pack // c24
, // c25
} // c26
")).
Eval vm_compute in ("<<<M1501>>>" ++ check (runes_of_ascii "packet len {
    // trailing space 
    repeat zchar f32a `// not a comment`,
    @tag(255)
    repeat Pad {
        x T,
    },
    @calculatedFrom(""{,}"")
    repeat leftPad {
        u64 u8x `tab	here`,
        o Packet,
        char[] chars,
    },
    @tag(3)
    float64 i8i8,
}")).
Eval vm_compute in ("<<<M202>>>" ++ check (runes_of_ascii "packet Z9_
    { @calculatedFrom( ""packet"") char //
BodyLength , match chars as falsey {[65535,
    // c
    """ ++ [128512]%N ++ runes_of_ascii """ ,""" ++ [28040; 24687]%N ++ runes_of_ascii """ , ""`tick`""  , 10,
    ""a\\"" ,""a\""b"" // @lengthOf(
]: repeatCount , ""x y"" :chars , // " ++ [128512]%N ++ runes_of_ascii " emoji
65535
://x
calculatedFrom , } , }
")).
Eval vm_compute in ("<<<M1854>>>" ++ check (runes_of_ascii "
packet
    crc

    {  @leftPad 	 //	t
	(
	)
repeat

charz float
    ,

    }
root packet

options1
{
@tag(65535/// triple
)

packetx  {u128 , 
f32 	 /// triple
  	a1 ,	}	, 
}  
      // trailing space 
 
")).
Eval vm_compute in ("<<<M1311>>>" ++ check (runes_of_ascii "options {
    FixedStringPadChar = '0';
}
packet Q {
    zchar[4] z,
    @rightPad('\x00') char[3] n,
    char[5] d,
}
root packet R {
    Q,
    zchar[8] top,
    repeat zchar[2] zs,
}
")).
Eval vm_compute in ("<<<M1547>>>" ++ check (runes_of_ascii "

  MetaData
	leftPad	{	chars MetaDataX
,

    } 
packet

repeatCount

    {

    char[
	255	] uint8x `" ++ [233]%N ++ runes_of_ascii "` ,
        // c
  }
    MetaData pack{ As Foo
	,	}
")).
Eval vm_compute in ("<<<M1834>>>" ++ check (runes_of_ascii "packet A {
    Inner {
        u8 x `a
            b
          c`,
        Deep {
            u8 y `a
                b
              c`,
        },
    },
}")).
Eval vm_compute in ("<<<M1272>>>" ++ check (runes_of_ascii "
options{
LittleEndian=

true; } packet
	B	{
u8 a

    ,
string  s, 
}	root

packet

P

{ u16
    L
    @lengthOf(

    B
)
,
B,
    u8
t ,  }")).
Eval vm_compute in ("<<<M541>>>" ++ check (runes_of_ascii "packet uint8x
{ match pack
    as msg_type	{
    0123456789 :	float
}
,
} packet //	t
a1
    { } options {packetx
    = '\x0" ++ [233]%N ++ runes_of_ascii "0'	; u128= ""a	b""  ; }
")).
Eval vm_compute in ("<<<M492>>>" ++ check (runes_of_ascii "packet uint8x
{ match pack
    as msg_type	{
    0123456789 :	float
}
,
} packet //	t
a1
    { } options {=
    packetx '\x00'	; u128= ""a	b""  ; }
")).
Eval vm_compute in ("<<<M1807>>>" ++ check (runes_of_ascii "packet A {
    match k as n {
        [
            007, 66, 9, ""a"", ""bb"",
            ""d"", ""e"", ""g"", ""h"", ""j""
        ] : B,
        2 : C,
    },
}")).
Eval vm_compute in ("<<<M665>>>" ++ check (runes_of_ascii "// @lengthOf(
packet i8i8 { u128 o , }
options { MetaDataX = true;
    BodyLength =""packet"" x_y_z= 007
crc //x
= ""abc"" ; ;
    msg_type =
i16 }")).
Eval vm_compute in ("<<<M648>>>" ++ check (runes_of_ascii "// @lengthOf(
packet i8i8 { u128 o , }
options { = MetaDataX true;
    BodyLength =""packet"" x_y_z= 007
crc //x
= ""abc"" ;
    msg_type =
i16 }")).
Eval vm_compute in ("<<<M669>>>" ++ check (runes_of_ascii "// @lengthOf(
packet i8i8 {  o , }
options { MetaDataX = true;
    BodyLength =""packet"" x_y_z= 007
crc //x
= ""abc"" ;
    msg_type =
i16 }")).
Eval vm_compute in ("<<<M1716>>>" ++ check (runes_of_ascii "packet A {
    match k as n {
        [
            ""a"", ""bb"", ""c c"", ""d"", ""e"",
            ""f""
        ] : B,
        2 : C,
    },
}")).
Eval vm_compute in ("<<<M223>>>" ++ check (runes_of_ascii "packet  u { repeat
    // " ++ [128512]%N ++ runes_of_ascii " emoji
    A , @lengthOf( lengthOf
)
    repeat
    i64
i64_
, //
zchar[
3// a // b
] body , }
")).
Eval vm_compute in ("<<<M1148>>>" ++ check (runes_of_ascii "MetaData leftPad {
// c
chars MetaDataX , } packet repeatCount { char[ 255 ] uint8x `" ++ [233]%N ++ runes_of_ascii "` , } MetaData pack { As Foo , }")).
Eval vm_compute in ("<<<M1180>>>" ++ check (runes_of_ascii "MetaData leftPad { chars MetaDataX , } packet repeatCount { char[ 255 ] uint8x `" ++ [233]%N ++ runes_of_ascii "` , } MetaData pack
// c
{ As Foo , }")).
Eval vm_compute in ("<<<M1395>>>" ++ check (runes_of_ascii "
packet A
{
	match
    k
    as
n 
{ [
	1, 
""bb""	, 
007 ,""d"" 
,	5  ,
	""f""
, 7, 
""h""

]
    :
B
	,2	: C
},
	}
")).
Eval vm_compute in ("<<<M908>>>" ++ check (runes_of_ascii "packet A {
  match k as n {
    [1, ""bb"", 007, ""d"", 5, ""f"", 7, ""h"", 9, ""j"", 11, ""l""] : B,
    2 : C
  },
}")).
Eval vm_compute in ("<<<M888>>>" ++ check (runes_of_ascii "packet A {
  match k as n {
    [""a"", ""bb"", 007, ""d"", ""e"", 66, ""g"", ""h"", 9, ""j""] : B,
    2 : C
  },
}")).
Eval vm_compute in ("<<<M479>>>" ++ check (runes_of_ascii "packet uint8x
{ match pack
    as msg_type	{
    0123456789 :	float
}
,
} packet //	t
a1
    {")).
Eval vm_compute in ("<<<M558>>>" ++ check (runes_of_ascii "
packet
    asx asx {match u128 as lengthOf
{
//	t
// `tick` ""quote"" 'q'
255 : x ,
    } ,	}")).
Eval vm_compute in ("<<<M623>>>" ++ check (runes_of_ascii "
packet
    asx {match u128 as lengthOf
{
//	t
// `tick` ""quote"" 'q'
255 : x ,
    } ,	} }")).
Eval vm_compute in ("<<<M604>>>" ++ check (runes_of_ascii "
packet
    asx {match u128 as lengthOf
{
//	t
// `tick` ""quote"" 'q'
255 : , x
    } ,	}")).
Eval vm_compute in ("<<<M936>>>" ++ check (runes_of_ascii "packet A {
    B b `a
    b
  c`,
    B `a
    b
  c`,
    repeat B bs `a
    b
  c`,
}")).
Eval vm_compute in ("<<<M1531>>>" ++ check (runes_of_ascii "
MetaData
x 
{ x
    Packet

    ,

    i32
lengthOf,// `tick` ""quote"" 'q'
}
")).
Eval vm_compute in ("<<<M1094>>>" ++ check (runes_of_ascii "packet A { u16 // a
 len // b
 @lengthOf( // c
 body // d
 ) // e
 `d` // f
 , }")).
Eval vm_compute in ("<<<M1282>>>" ++ check (runes_of_ascii "root 
packet

    P  { u16	a ,

u32

Sum	@calculatedFrom( ""CRC32""
	) ,

} ")).
Eval vm_compute in ("<<<M91>>>" ++ check (runes_of_ascii "packet
roots{ }	MetaData
    metadata{
asx matchKey ,
uint64
rootA , }")).
Eval vm_compute in ("<<<M795>>>" ++ check (runes_of_ascii "packet A {
  match k as n {
    [1, 22, ""c c""] : B,
    2 : C
  },
}")).
Eval vm_compute in ("<<<M1592>>>" ++ check (runes_of_ascii "root packet
x{

    roots
@calculatedFrom(

""a\""b""
    ),

}
")).
Eval vm_compute in ("<<<M1222>>>" ++ check (runes_of_ascii "// top
packet
    // c0
x
    // c1
{
    // c2
}
    // c3
")).
Eval vm_compute in ("<<<M1527>>>" ++ check (runes_of_ascii "packet body {
    i32 f32a `{ , }`,
}

options {
}// c")).
Eval vm_compute in ("<<<M1214>>>" ++ check (runes_of_ascii "packet body { i32 f32a `{ , }` , }
// c
options { }")).
Eval vm_compute in ("<<<M7>>>" ++ check (runes_of_ascii "options {  metadata = ""a\\""// @lengthOf(
;}
")).
Eval vm_compute in ("<<<M1430>>>" ++ check (runes_of_ascii "packet
    A 
{u8 x
    `d" ++ [133]%N ++ runes_of_ascii "`,  // c" ++ [133]%N ++ runes_of_ascii "
  }
")).
Eval vm_compute in ("<<<M1629>>>" ++ check (runes_of_ascii "root packet A {
    u8 x `x
    `,
}")).
Eval vm_compute in ("<<<M1712>>>" ++ check (runes_of_ascii "packet A {
    u8 x `d" ++ [8203]%N ++ runes_of_ascii "`,// c" ++ [8203]%N ++ runes_of_ascii "
}")).
Eval vm_compute in ("<<<M175>>>" ++ check (runes_of_ascii "
packet calculatedFrom { } 	 ")).
Eval vm_compute in ("<<<M1881>>>" ++ check (runes_of_ascii "packet

A{  }
	    // c" ++ [65279]%N)).
Eval vm_compute in ("<<<M153>>>" ++ check (runes_of_ascii "// trailing space 

")).
Eval vm_compute in ("<<<M1062>>>" ++ check (runes_of_ascii "// c x
packet A {
}")).
Eval vm_compute in ("<<<M1017>>>" ++ check (runes_of_ascii "// c" ++ [8233]%N ++ runes_of_ascii "
packet A {
}")).
Eval vm_compute in ("<<<M989>>>" ++ check (runes_of_ascii "packet A {
}// c" ++ [133]%N)).
Eval vm_compute in ("<<<M761>>>" ++ check (runes_of_ascii "{];z" ++ [65533]%N ++ runes_of_ascii """t" ++ [65533; 65533; 65533]%N ++ runes_of_ascii "XKU" ++ [65533; 2]%N)).
Eval vm_compute in ("<<<M1394>>>" ++ check (runes_of_ascii "
// c" ++ [8232]%N)).
Eval vm_compute in ("<<<M1589>>>" ++ check (runes_of_ascii "

  ")).
