From FP Require Import Lexer Parser ShowPT Digest Formatter.
From Coq Require Import String List NArith.
Import ListNotations.
Open Scope string_scope.
Set Printing Width 100000000.
Set Printing Depth 100000000.
Definition show_fres (r : fres) : string :=
  match r with
  | FOk s => "OK:" ++ sh_escaped s ""
  | FErr s => "ERR:" ++ sh_escaped s ""
  | FPanic p => "PANIC:" ++ p
  end.
Definition check (rs : list rune) : string := digest (show_fres (format_res rs)).
Definition full (rs : list rune) : string := show_fres (format_res rs).
Eval vm_compute in ("<<<M1367>>>" ++ check (runes_of_ascii "// top
options // c0a
  // c0b
{
    // c1
LittleEndian // c2a
  // c2b
= // c3
true // c4
; // c5
StringPrefixLenType
    // c6
= u16 // c8
;
    // c9
ArrayPrefixLenType = u8 ; // c13
FixedStringPadChar =
    // c15
' '
    // c16
; // c17
} // c18a
  // c18b
packet // c19a
  // c19b
Ack { @leftPad (
    // c23
' ' )
    // c25
char[ 5 // c27
] // c28
lastPx
    // c29
, zchar[ // c31
4 // c32
] // c33a
  // c33b
count , // c35a
  // c35b
repeat InVenue30 // c37a
  // c37b
{ char[ // c39a
  // c39b
9 // c40a
  // c40b
] // c41a
  // c41b
Side2 // c42a
  // c42b
, char[ // c44
12 // c45a
  // c45b
] venue
    // c47
, // c48
} // c49a
  // c49b
,
    // c50
} // c51a
  // c51b
packet // c52
Order
    // c53
{ // c54a
  // c54b
int16 Note , // c57a
  // c57b
repeat // c58
InAcct28
    // c59
{ // c60
InSym3 // c61a
  // c61b
{ // c62
Ack // c63a
  // c63b
,
    // c64
char[ // c65a
  // c65b
4 // c66
] // c67
lastPx // c68
, char[
    // c70
1 // c71a
  // c71b
] venue , // c74
f32 // c75a
  // c75b
Ref // c76
, // c77
} , repeat // c80
InTag729 {
    // c82
char[
    // c83
3 // c84a
  // c84b
] // c85a
  // c85b
Side2
    // c86
,
    // c87
uint64
    // c88
Acct // c89a
  // c89b
, // c90a
  // c90b
char[] // c91a
  // c91b
price // c92
, zchar[ // c94a
  // c94b
9 ] Note // c97
,
    // c98
zchar[ 9 // c100
] // c101
venue // c102
,
    // c103
} // c104a
  // c104b
, char[] // c106a
  // c106b
count // c107a
  // c107b
, // c108a
  // c108b
Ack
    // c109
,
    // c110
char[] // c111
Px // c112a
  // c112b
, // c113
} , // c115a
  // c115b
u8 // c116a
  // c116b
f1
    // c117
,
    // c118
Ack // c119
, // c120a
  // c120b
} // c121a
  // c121b
packet // c122a
  // c122b
Fill // c123a
  // c123b
{ zchar[ // c125a
  // c125b
7 ]
    // c127
x
    // c128
, // c129a
  // c129b
Order // c130
, // c131a
  // c131b
@leftPad (
    // c133
' ' // c134
) char[ 9
    // c137
] // c138a
  // c138b
venue // c139a
  // c139b
,
    // c140
string // c141a
  // c141b
count
    // c142
, char[] // c144
Flags , // c146a
  // c146b
} // c147
packet Logon
    // c149
{ // c150
} // c151a
  // c151b
packet
    // c152
Reject { Order ,
    // c156
char[] // c157a
  // c157b
sym , // c159a
  // c159b
} // c160
root // c161a
  // c161b
packet Quote // c163a
  // c163b
{ string // c165a
  // c165b
price ,
    // c167
i64 // c168
Flags , // c170a
  // c170b
repeat Fill // c172a
  // c172b
, // c173
zchar[ // c174
9
    // c175
] // c176
x , // c178
f32 // c179a
  // c179b
lastPx // c180a
  // c180b
, // c181a
  // c181b
repeat // c182a
  // c182b
Ack // c183a
  // c183b
,
    // c184
}
    // c185
")).
Eval vm_compute in ("<<<M1517>>>" ++ check (runes_of_ascii "packet o {
    @leftPad(
            )
    @tag(00)
    int16 int @lengthOf(Header) `
        `,
    @leftPad(
        '\x00')
    char[00] body @lengthOf(a1) `" ++ [28040; 24687; 31867; 22411]%N ++ runes_of_ascii "`,
}

packet roots {
    Logon `crlf
        line`,
}

packet _x {
    zchar[4294967296] Header `
        `,
    chars @calculatedFrom(""1""),
    match As as A {
        ""`tick`"" : u,
    },
    repeat string zchar,
    repeat packetx {
        match pack as lengthOf {
            3 : calculatedFrom,
            3 : metadata,
            ""abc"" : falsey,
            4294967296 : len,
        },
        match Packet as repeatCount {
            [
                ""a\\"", 1, ""a\\"", 0, ""packet"",
                ""a	b""
            ] : f32a,
            4294967296 : tag,
            1 : packetx,
            [
                ""\n"", 42, 4294967296, ""a	b"", 10,
                255, 007
            ] : chars,
            [
                ""1"", ""// no comment"", 0, 1, ""`tick`"",
                3, 42, ""\" ++ [233]%N ++ runes_of_ascii """
            ] : BodyLength,
        },// trailing space 
    },
    string u8x `" ++ [28040; 24687; 31867; 22411]%N ++ runes_of_ascii "`,
    repeat f32a {
        char[7] x_y_z `
                `,
    },
}

MetaData Packet {
    chars u,
    char[] u8x,
    // 50% %s
    // trailing space 
    x_y_z asx `" ++ [28040; 24687; 31867; 22411]%N ++ runes_of_ascii "`,
    int8 Header `{ , }`,
    zchar[4294967296] rootA `u8 x,`,
    char[] calculatedFrom,
}")).
Eval vm_compute in ("<<<M326>>>" ++ check (runes_of_ascii "root packet Logon // packet A { u8 x, }
{ calculatedFrom calculatedFrom
    `it's` ,}  packet	calculatedFrom { @rightPad ( )string
u // a // b
@calculatedFrom(""packet"" )
, @leftPad	('\x00')@tag( 1 ) @tag( 3 ) Packet{ string_	pack , As @calculatedFrom( ""a\""b"" ) `doc` , repeat
msg_type
    metadata ,
// trailing space 
//x
} , _x
`" ++ [233]%N ++ runes_of_ascii "` ,
zchar[
3
]  MetaDataX // `tick` ""quote"" 'q'
, repeat string asx
`say ""hi""` ,
    @lengthOf(
trueish // " ++ [27880; 37322]%N ++ runes_of_ascii "
)@lengthOf(uint8x
    )	@rightPad
    (
// " ++ [128512]%N ++ runes_of_ascii " emoji
//
)char[ 0123456789 ]T`" ++ [28040; 24687; 31867; 22411]%N ++ runes_of_ascii "` ,}/// triple
packet x { @rightPad ( )
    @calculatedFrom(// @lengthOf(
""it's"" )
@tag(
    // " ++ [27880; 37322]%N ++ runes_of_ascii "
    42 ) packetx
falsey ,  char[ 1] body ,
    @calculatedFrom( """ ++ [28040; 24687]%N ++ runes_of_ascii """ )tag @calculatedFrom( ""\" ++ [233]%N ++ runes_of_ascii """ ) ,Packet `100% of %d`/// triple
,
    //x
    @tag(255 ) float32
body @calculatedFrom(
""abc""
// packet A { u8 x, }
// " ++ [27880; 37322]%N ++ runes_of_ascii "
) ,
char f32a , @lengthOf( u ) repeat
    int32 a1	,@tag( 4294967296 )	f32 o @calculatedFrom(
    ""\n"" )`tab	here` , char[] calculatedFrom  `two words` ,
calculatedFrom @lengthOf(
// packet A { u8 x, }
// trailing space 
matchKey ) , }
")).
Eval vm_compute in ("<<<M1355>>>" ++ check (runes_of_ascii "options {
    LittleEndian = true;
    StringPrefixLenType = u8;
    ArrayPrefixLenType = u8;
    FixedStringPadFromLeft = true;
    FixedStringPadChar = '0';
}
packet Logon {
    repeat i8 Ref,
    @rightPad('0') char[8] msgKind,
    repeat InOrderid72 {
        u8 Side2,
        uint32 Qty,
        repeat InPrice27 {
            repeat char[4] Acct,
            u64 sym,
        },
        zchar[4] clOrdID,
        int16 lastPx,
        InAcct22 {
            repeat char[3] OrderId,
        },
    },
    int64 Px,
}
packet Fill {
    uint16 Qty,
    repeat char[1] Flags,
    i8 Ref,
}
packet Logout {
    @leftPad('0') char[3] x,
    int8 f1,
    Logon,
    uint16 venue,
    zchar[2] Px,
}
packet Reject {
}
root packet Leg {
    Fill,
    u16 msgKind,
    match msgKind as Body {
        [182, 83] : Fill,
        199 : Reject,
        137 : Logout,
        35 : Logon,
    },
    u32 lastPx @calculatedFrom(""CR\
C32""),
}
")).
Eval vm_compute in ("<<<M1374>>>" ++ check (runes_of_ascii "// top
options // c0a
  // c0b
{ // c1a
  // c1b
StringPrefixLenType = // c3
u16 // c4a
  // c4b
; // c5
ArrayPrefixLenType // c6
= u64
    // c8
; }
    // c10
packet // c11
Order { // c13a
  // c13b
float64 Ref // c15a
  // c15b
, // c16
repeat // c17a
  // c17b
i32 lastPx // c19
,
    // c20
}
    // c21
packet Fill
    // c23
{
    // c24
zchar[ 9 // c26
] // c27a
  // c27b
Ref
    // c28
, // c29
zchar[ // c30a
  // c30b
4 ]
    // c32
Px // c33
, // c34
Order // c35a
  // c35b
, // c36
int8 // c37
count // c38
, // c39a
  // c39b
}
    // c40
packet // c41a
  // c41b
Cancel { // c43
i16 Side2 // c45
, // c46
Order // c47a
  // c47b
, // c48
} root packet // c51
Party // c52
{ float64 // c54
Px , // c56
zchar[
    // c57
1
    // c58
] // c59
clOrdID // c60
, // c61
} ")).
Eval vm_compute in ("<<<M1155>>>" ++ check (runes_of_ascii "options { uint8x
    // c2
= // c3
007 // c4
;
    // c5
lengthOf // c6
= // c7
i8 ;
    // c9
}
    // c10
packet i64_ // c12
{ // c13
@calculatedFrom( // c14a
  // c14b
""1"" // c15a
  // c15b
) // c16
@tag( // c17
3 // c18a
  // c18b
)
    // c19
@lengthOf( // c20a
  // c20b
rootA
    // c21
) // c22a
  // c22b
repeat int8 Packet // c25
`tab	here` // c26
, // c27a
  // c27b
} // c28
packet // c29
_x { // c31a
  // c31b
matchKey // c32
x // c33a
  // c33b
`" ++ [28040; 24687; 31867; 22411]%N ++ runes_of_ascii "`
    // c34
, // c35
int32
    // c36
calculatedFrom
    // c37
`100% of %d` ,
    // c39
@lengthOf( // c40a
  // c40b
trueish // c41a
  // c41b
) // c42
Packet , repeat f32 o
    // c47
, // c48
}
    // c49
")).
Eval vm_compute in ("<<<M149>>>" ++ check (runes_of_ascii "options { stringy  =zchar[
0123456789] }
    MetaData// trailing space 
charz{ zchar[
42 ] calculatedFrom	,
    // `tick` ""quote"" 'q'
    char[ 65535 ] // " ++ [27880; 37322]%N ++ runes_of_ascii "
trueish
    , float64 // c
roots
    `doc`
,}
    packet// c
calculatedFrom // a // b
{ @calculatedFrom( """ ++ [128512]%N ++ runes_of_ascii """ )string crc `crlf
line` , MetaDataX { Packet
@lengthOf( // c
packetx )`{ , }`, // trailing space 
repeat trueish As
    , } ,int64 T,// `tick` ""quote"" 'q'
match uint8x// trailing space 
as i64_ {
00 :
_x ,
    65535 :Z9_, ""1"" : u8x
// c
// " ++ [27880; 37322]%N ++ runes_of_ascii "
, 007 : Z9_	, /// triple
255
:matchKey ""1"": crc , } ,// " ++ [128512]%N ++ runes_of_ascii " emoji
} // @lengthOf(")).
Eval vm_compute in ("<<<M98>>>" ++ check (runes_of_ascii "MetaData
    //x
    Pad
{ u32  u128  `doc`
// @lengthOf(
//x
, char[] len`a\`, Header  tag
    , u8 repeatCount `tab	here`//	t
,/// triple
Pad int, } packet
    len{
//x
/// triple
As {
pack
_x `
`
, asx {
    //
    string  calculatedFrom
@lengthOf(
MetaDataX
) , stringy u8x, char[
    255 ] MetaDataX
@calculatedFrom( """"
), } ,
calculatedFrom {string_ len , } ,	Header @lengthOf(
// c
//x
charz ), }
    ,
    }
// " ++ [27880; 37322]%N ++ runes_of_ascii "
// " ++ [128512]%N ++ runes_of_ascii " emoji
options {
// c
// a // b
} options
    { packetx	= ""`tick`""
    ; /// triple
i64_	= ' '; }")).
Eval vm_compute in ("<<<M181>>>" ++ check (runes_of_ascii "  packet // c
_x{ calculatedFrom@lengthOf(
roots  ) `it's` ,
match
metadata
as BodyLength {	[
    10 , 10, ""a\""b""
    ,""""//	t
,
""\n""
,// @lengthOf(
""a\\"" ,	4294967296 ] : u,
    },
    repeat // trailing space 
i64_
    Packet// " ++ [128512]%N ++ runes_of_ascii " emoji
`{ , }` // " ++ [27880; 37322]%N ++ runes_of_ascii "
,// packet A { u8 x, }
@tag(
65535 )char[]
float
    `crlf
line`,char[ 7]
    /// triple
    x @calculatedFrom(
""{,}""
)
/// triple
// a // b
,
    @leftPad ( )
    u64 stringy
    // c
    @calculatedFrom( ""\" ++ [233]%N ++ runes_of_ascii """ ) , }packet A	{ }")).
Eval vm_compute in ("<<<M1655>>>" ++ check (runes_of_ascii "options {
    LittleEndian = false;
    StringPrefixLenType = u16;
    FixedStringPadFromLeft = true;
    FixedStringPadChar = '0';
}

packet Fill {
}

root packet Order {
    repeat Fill,
    char[] clOrdID,
    @rightPad('\x00')
    char[4] lastPx,
    char[] OrderId,
    int8 tag7,
    u8 f1,
    u16 count @lengthOf(Body),
    match f1 as Body {
        [159, 49] : Fill,
    },
    u16 Tail @calculatedFrom(""CR\
        C32""),
}")).
Eval vm_compute in ("<<<M1460>>>" ++ check (runes_of_ascii "packet o {
    zchar[7] f32a @calculatedFrom(""a\""b""),
    @lengthOf(pack)
    options1,
    @calculatedFrom(""abc"")
    Header,
    @lengthOf(Logon)
    zchar[4294967296] asx @lengthOf(u) `100% of %d`,
    @leftPad(' ' // trailing space 
        )
    @calculatedFrom(""`tick`"")
    uint16 x_y_z `doc`,
    @tag(00)
    zchar[1] u,
    @calculatedFrom(""a\""b"")
    //
    u8x uint8x,
    char[1] metadata,
}")).
Eval vm_compute in ("<<<M1941>>>" ++ check (runes_of_ascii "  options
	{LittleEndian = 
true

    ;
	StringPrefixLenType 
=u16
;  ArrayPrefixLenType
    =  u16

;
	FixedStringPadFromLeft =  true;  FixedStringPadChar = '0'	;}

packet
Leg{  u16 
Flags , 
u8  price, 
}packet
Quote
{ uint16

    count,
InNote89 {repeat
    Leg, }
	,  } 
root packet Ack{	char[ 
3
]price
	,	u64

sym
,

zchar[

    1	]

    Tail ,}
")).
Eval vm_compute in ("<<<M43>>>" ++ check (runes_of_ascii "packet u {match x_y_z as
leftPad
    { 0123456789
    :	x_y_z	,},@rightPad ()
    u64 trueish ,	repeat u64 trueish
`line1
line2`	,@rightPad ( ) // a // b
char[ 255
    ]
    _x
`// not a comment`
// packet A { u8 x, }
// 50% %s
,	zchar[7]leftPad ,match chars  as
    //x
    lengthOf {1
    :o 42  : chars ,} // trailing space 
,}
")).
Eval vm_compute in ("<<<M1808>>>" ++ check (runes_of_ascii "
// packet A { u8 x, }
root packet

zchar {

@leftPad
    ( 
'\x00')
	repeat
Logon  BodyLength	,
@rightPad  (
	)
	@calculatedFrom(
    ""a\""b"" ) @tag( 42

)
repeat
	_x MetaDataX
    // 50% %s
      ,
    @leftPad//x
		(

    '0'
	)	string

calculatedFrom 
@calculatedFrom(
""it's"" ) ,
	}")).
Eval vm_compute in ("<<<M361>>>" ++ check (runes_of_ascii "// packet A { u8 x, }
root packet  zchar { @leftPad
    ( '\x00' )repeat Logon BodyLength
, @rightPad (  ) @calculatedFrom(
""a\""b""
    )@tag( 42
)
repeat _x MetaDataX
    // 50% %s
    ,@leftPad //x
( '0'
    )string calculatedFrom @calculatedFrom( ""it's"" )
    ,}")).
Eval vm_compute in ("<<<M1668>>>" ++ check (runes_of_ascii "
options
{ i8i8  = 00	matchKey=
    4294967296

    msg_type
=

    ' ' metadata
=
4294967296

    } //
	packet
    u8x

    {	@tag(
    4294967296 ) @leftPad(  /// triple
'0'  )

    @tag(  1

) asx A 
`// not a comment`

    ,
	}
")).
Eval vm_compute in ("<<<M397>>>" ++ check (runes_of_ascii "packet
    asx { { @calculatedFrom(
""""  ) @tag( 255 )repeat
// packet A { u8 x, }
// trailing space 
int16 u8x
,
@tag(
    //
    007 )
    @tag( 0
    /// triple
    ) @tag( 1) u
    @lengthOf( T ),
// `tick` ""quote"" 'q'
//x
} // " ++ [128512]%N ++ runes_of_ascii " emoji")).
Eval vm_compute in ("<<<M1716>>>" ++ check (runes_of_ascii "MetaData packetx {
    zchar[255] u128 `" ++ [233]%N ++ runes_of_ascii "`,
}

packet Pad {
    repeat crc,
    zchar[10] calculatedFrom `{ , }`,
}

packet _x {
    @lengthOf(roots)
    match Header as metadata {
        [10] : pack,
    },
    char[255] Logon,
}// a // b")).
Eval vm_compute in ("<<<M513>>>" ++ check (runes_of_ascii "packet
    asx { @calculatedFrom(
""""  ) @tag( 255 )repeat
// packet A { u8 x, }
// trailing space 
int16 u8x
,
@tag(
    //
    007 )
    @tag( 0
    /// triple
    ) @tag( 1) u
    @lengthOf( T ,)
// `tick` ""quote"" 'q'
//x
} // " ++ [128512]%N ++ runes_of_ascii " emoji")).
Eval vm_compute in ("<<<M451>>>" ++ check (runes_of_ascii "packet
    asx { @calculatedFrom(
""""  ) @tag( 255 )repeat
// packet A { u8 x, }
// trailing space 
int16 u8x
,

    //
    007 )
    @tag( 0
    /// triple
    ) @tag( 1) u
    @lengthOf( T ),
// `tick` ""quote"" 'q'
//x
} // " ++ [128512]%N ++ runes_of_ascii " emoji")).
Eval vm_compute in ("<<<M126>>>" ++ check (runes_of_ascii "packet u{ } packet charz { char[
//
// " ++ [128512]%N ++ runes_of_ascii " emoji
255// " ++ [128512]%N ++ runes_of_ascii " emoji
]options1
,@calculatedFrom( """") zchar[ //x
00 ] leftPad
, char[]  A`it's` ,} options{ i8i8 = '\x00' ;u128
= ' ' ; options1=42; charz
    =
""\n""
int= true ;}
")).
Eval vm_compute in ("<<<M1559>>>" ++ check (runes_of_ascii "MetaData
    u  { 
}MetaData
	o {	uint8x
	float
	`100% of %d`
, 
repeatCount
u8x ,

    string_

    leftPad
    , i32 Foo ,  int64
    x `two words`

    ,
	calculatedFrom  stringy `a\`

, }
")).
Eval vm_compute in ("<<<M1566>>>" ++ check (runes_of_ascii "packet
	_x

{ @calculatedFrom( ""packet"")
    char[]
	T  `" ++ [28040; 24687; 31867; 22411]%N ++ runes_of_ascii "`
,@calculatedFrom(
""" ++ [28040; 24687]%N ++ runes_of_ascii """	) f64

    pack `" ++ [233]%N ++ runes_of_ascii "`

    ,
@calculatedFrom(

""a	b"" 
)
	repeat  crc

`100% of %d`	//

,
}

")).
Eval vm_compute in ("<<<M302>>>" ++ check (runes_of_ascii "MetaData o	{ } MetaData
Header{  repeatCount matchKey  ,}
packet	As{// c
@tag(0123456789 ) char[]
    //	t
    tag
,
    @calculatedFrom(
""x y""
) crc
    `it's` ,
    }
")).
Eval vm_compute in ("<<<M562>>>" ++ check (runes_of_ascii "MetaData u
    { } } MetaData o
{ float uint8x
`100% of %d` ,repeatCount u8x, string_ leftPad
, i32
    Foo , int64 x `two words` , calculatedFrom
stringy `a\` ,
}
")).
Eval vm_compute in ("<<<M1939>>>" ++ check (runes_of_ascii "  packet A 
{
	match
k
as

    n  {
	[
    ""a"" , ""bb""
	, ""c c"" ,
	""d""

, 
""e""

, 
""f"" , ""g"",

    ""h""	, ""i""

,

""j""
	,	""k"", ""l"" ] 
:
	B

2 :

    C

    },}
")).
Eval vm_compute in ("<<<M678>>>" ++ check (runes_of_ascii "MetaData u
    { } MetaData o
{ float uint8x
`100% of %d` ,repeatCount u8x, string_ leftPad
, i32
    Foo , int64 x `two words` , calculatedFrom
stringy , `a\`
}
")).
Eval vm_compute in ("<<<M1312>>>" ++ check (runes_of_ascii "
packet  A
{	u8 a
,
	}  packet  B { u16
	b,} root 
packet
	P
{ u8

K  ,
match

    K as M
{[1 ,
	2  ]
: A

,  3

    :
    B, 
7  :
A
    ,  },

    }

")).
Eval vm_compute in ("<<<M203>>>" ++ check (runes_of_ascii "options { Foo
    =true len = '0' ; metadata
=
    u32
;repeatCount =42
}
MetaData lengthOf {}
    options {options1
= zchar[
    0123456789  ] } // " ++ [27880; 37322]%N)).
Eval vm_compute in ("<<<M1708>>>" ++ check (runes_of_ascii "
packet

A
    { 
Inner{
match k
as
    n

    {

[1 , 22
,

007
,
    4 , 5
,
66

, 7
	,

    8
    ,9 , 
10  , 11 
] 
: 
B, }
    , } , }
")).
Eval vm_compute in ("<<<M1530>>>" ++ check (runes_of_ascii "
packet A	{ match
k	as

n
{
[
    ""a""
,
""bb""

, 007

    , ""d""  ,
	""e"" ,

66
, ""g"", ""h""	,

9
	,	""j"",

""k""  , 12]	:	B 2	:C 
}

,  } ")).
Eval vm_compute in ("<<<M281>>>" ++ check (runes_of_ascii "packet lengthOf{
len charz `it's`, }options
{ } packet metadata {string Pad @calculatedFrom( """ ++ [128512]%N ++ runes_of_ascii """)
    `crlf
line` , } // " ++ [128512]%N ++ runes_of_ascii " emoji")).
Eval vm_compute in ("<<<M1604>>>" ++ check (runes_of_ascii "packet asx {
    f32 u @calculatedFrom(""packet""),
}

MetaData tag {
    zchar[007] pack,
    zchar[00] len `
        `,
}")).
Eval vm_compute in ("<<<M1845>>>" ++ check (runes_of_ascii "

  packet A  {
	match 
k	as
	n

    { [
	1

, 22 
,
	""c c""
,
    4 , 5,  ""f"" 
]

:
B

    , 2	:
	C
}
	,
}
")).
Eval vm_compute in ("<<<M1231>>>" ++ check (runes_of_ascii "options { } options { MetaDataX = char ; } MetaData Pad { i8 metadata // c
, string stringy , int8 As `{ , }` , }")).
Eval vm_compute in ("<<<M450>>>" ++ check (runes_of_ascii "packet
    asx { @calculatedFrom(
""""  ) @tag( 255 )repeat
// packet A { u8 x, }
// trailing space 
int16 u8x")).
Eval vm_compute in ("<<<M971>>>" ++ check (runes_of_ascii "packet A {
    u16 len @lengthOf(body) `%`,
    u32 crc @calculatedFrom(""CRC32"") `%`,
    string body,
}")).
Eval vm_compute in ("<<<M882>>>" ++ check (runes_of_ascii "packet A {
  match k as n {
    [""a"", 22, ""c c"", 4, ""e"", 66, ""g"", 8, ""i"", 10] : B,
    2 : C
  },
}")).
Eval vm_compute in ("<<<M1721>>>" ++ check (runes_of_ascii "  packet Foo
    {
	float64
a1 , 
string

Z9_ @lengthOf( Logon)
`line1
line2` , } 
// " ++ [128512]%N ++ runes_of_ascii " emoji
")).
Eval vm_compute in ("<<<M840>>>" ++ check (runes_of_ascii "packet A {
  match k as n {
    [""a"", ""bb"", ""c c"", ""d"", ""e"", ""f"", ""g""] : B
    2 : C
  },
}")).
Eval vm_compute in ("<<<M1865>>>" ++ check (runes_of_ascii "packet	A
	{	u16 // a
	len// b
  @lengthOf(  // c
body  // d
  	)	// e
`d`  // f
	,

}")).
Eval vm_compute in ("<<<M835>>>" ++ check (runes_of_ascii "packet A {
  match k as n {
    [""a"", ""bb"", 007, ""d"", ""e"", 66] : B
    2 : C
  },
}")).
Eval vm_compute in ("<<<M822>>>" ++ check (runes_of_ascii "packet A {
  match k as n {
    [""a"", ""bb"", 007, ""d"", ""e""] : B
    2 : C
  },
}")).
Eval vm_compute in ("<<<M57>>>" ++ check (runes_of_ascii "options {
asx =""{,}"" } MetaData
    len
    { char[] Packet`say ""hi""` , }
")).
Eval vm_compute in ("<<<M349>>>" ++ check (runes_of_ascii "// `tick` ""quote"" 'q'
options	{ stringy=""\" ++ [233]%N ++ runes_of_ascii """float= """ ++ [233]%N ++ runes_of_ascii "t" ++ [233]%N ++ runes_of_ascii """ trueish= u8 }
")).
Eval vm_compute in ("<<<M1598>>>" ++ check (runes_of_ascii "

  MetaData i64_
    {
	zchar[	// " ++ [27880; 37322]%N ++ runes_of_ascii "
    0123456789
]i8i8	`" ++ [233]%N ++ runes_of_ascii "` ,  }
")).
Eval vm_compute in ("<<<M1268>>>" ++ check (runes_of_ascii "root packet
    P

{

    hdr  {

u8 a
	, }
,  u8

x
    ,}
")).
Eval vm_compute in ("<<<M440>>>" ++ check (runes_of_ascii "packet
    asx { @calculatedFrom(
""""  ) @tag( 255 )repeat")).
Eval vm_compute in ("<<<M1969>>>" ++ check (runes_of_ascii "
root
packet	P

    {
char 
c
    ,  u8  x ,
}
")).
Eval vm_compute in ("<<<M1487>>>" ++ check (runes_of_ascii "

  MetaData M { } 	 // c
options  {

    } ")).
Eval vm_compute in ("<<<M301>>>" ++ check (runes_of_ascii "MetaData matchKey{ int64
    Packet ,} 	 ")).
Eval vm_compute in ("<<<M1094>>>" ++ check (runes_of_ascii "MetaData M {
}// c
MetaData N {
}// d")).
Eval vm_compute in ("<<<M365>>>" ++ check (runes_of_ascii "
MetaData x_y_z {// c
Pad roots , }")).
Eval vm_compute in ("<<<M1712>>>" ++ check (runes_of_ascii "packet A {
    u8 x `d" ++ [8202]%N ++ runes_of_ascii "`,// c" ++ [8202]%N ++ runes_of_ascii "
}")).
Eval vm_compute in ("<<<M921>>>" ++ check (runes_of_ascii "packet A {
    u8 x `a
b`,
}")).
Eval vm_compute in ("<<<M1410>>>" ++ check (runes_of_ascii "  // c" ++ [8239]%N ++ runes_of_ascii "
  packet A
{  }

")).
Eval vm_compute in ("<<<M90>>>" ++ check (runes_of_ascii "
packet Packet {
} 	 ")).
Eval vm_compute in ("<<<M1061>>>" ++ check (runes_of_ascii "// c 	
packet A {
}")).
Eval vm_compute in ("<<<M1065>>>" ++ check (runes_of_ascii "packet A {
}
// c" ++ [8203]%N)).
Eval vm_compute in ("<<<M1165>>>" ++ check (runes_of_ascii "// c
packet x { }")).
Eval vm_compute in ("<<<M751>>>" ++ check (runes_of_ascii "v" ++ [65533; 65533]%N ++ runes_of_ascii "]" ++ [65533]%N ++ runes_of_ascii "P" ++ [4; 65533]%N ++ runes_of_ascii "&" ++ [65533; 65533]%N ++ runes_of_ascii "R")).
Eval vm_compute in ("<<<M1069>>>" ++ check (runes_of_ascii "// c" ++ [65279]%N)).
