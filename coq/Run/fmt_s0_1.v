From FP Require Import Lexer Parser ShowPT Digest Formatter.
From Coq Require Import String List NArith.
Import ListNotations.
Open Scope string_scope.
Set Printing Width 100000000.
Set Printing Depth 100000000.
Definition show_fres (r : fres) : string :=
  match r with
  | FOk s => "OK:" ++ sh_escaped s ""
  | FErr s => "ERR:" ++ sh_escaped s ""
  | FPanic p => "PANIC:" ++ p
  end.
Definition check (rs : list rune) : string := digest (show_fres (format_res rs)).
Definition full (rs : list rune) : string := show_fres (format_res rs).
Eval vm_compute in ("<<<M320>>>" ++ check (runes_of_ascii "packet
    /// triple
    a1 { @rightPad ( ' ' ) @tag( 255
)
@lengthOf( zchar ) string MetaDataX	@calculatedFrom( ""CRC32"" ) // a // b
`crlf
line` ,u8 A @lengthOf( charz
    ) ,
    body ,@rightPad
    ( '0'	)@lengthOf( charz ) match repeatCount as
    Z9_ { 0123456789 : metadata // @lengthOf(
,""" ++ [233]%N ++ runes_of_ascii "t" ++ [233]%N ++ runes_of_ascii """ : float  ,// packet A { u8 x, }
""1"": Logon ,// " ++ [27880; 37322]%N ++ runes_of_ascii "
},
x_y_z`" ++ [233]%N ++ runes_of_ascii "`//x
, @calculatedFrom(	""1"")match Header  as body
    { 4294967296
// @lengthOf(
// @lengthOf(
: MetaDataX
,
""abc"" //x
: packetx
    }
, x_y_z @calculatedFrom( ""\" ++ [233]%N ++ runes_of_ascii """ ),i64_  @calculatedFrom(""abc"")`
`,
@rightPad //	t
(
)
    //	t
    char
    float
@lengthOf(	trueish )
, @tag(42 ) @leftPad ( '\x00' ) @calculatedFrom(	""\n"") repeat string
tag, //x
} packet
tag { repeat T u `
` , string u128 @calculatedFrom( // `tick` ""quote"" 'q'
""packet"" )`u8 x,` ,
// trailing space 
//x
repeat
    f64
stringy `" ++ [233]%N ++ runes_of_ascii "` , u32 leftPad  @lengthOf(float ) , uint32	i8i8
@lengthOf( f32a
) , int@calculatedFrom( """ ++ [233]%N ++ runes_of_ascii "t" ++ [233]%N ++ runes_of_ascii """ )
    ,
    // c
    @calculatedFrom( ""\n""
) @leftPad
    ( '\x00') @rightPad
    ()
    repeat
pack  `// not a comment` , @calculatedFrom( ""1""	)
    char[]  string_
,f64 calculatedFrom
    @lengthOf(	pack)  `tab	here`,@tag(00 ) int8 tag
    ,
} options { f32a
= ""a	b"" _x = false ; _x = '0' o= false /// triple
} packet falsey
    /// triple
    { @tag(
    // trailing space 
    007 ) string falsey,
i64_
@lengthOf(crc),repeat // c
u128 body// packet A { u8 x, }
, char[ 00]roots,/// triple
metadata @lengthOf(packetx // `tick` ""quote"" 'q'
)
    `
`	,// trailing space 
string_
BodyLength, @calculatedFrom(
""it's"" ) repeat matchKey ,
metadata
    @calculatedFrom( ""abc""
)// @lengthOf(
,
@tag( 255 )repeat
Pad
    {
char[] packetx ,repeat o { int16 charz
    // packet A { u8 x, }
    ,packetx {
i8
//
// packet A { u8 x, }
zchar ,} ,char[10 //x
]x
, repeat zchar[ 0123456789 ]
pack , // c
} ,	int ,
i8 asx ,
}
,}
packet leftPad
    { @tag(255
    /// triple
    )repeat uint16 msg_type  ,
    // c
    f32  trueish @calculatedFrom("""" )	`two words` // `tick` ""quote"" 'q'
, @leftPad( '\x00' ) @lengthOf( leftPad
) // a // b
@lengthOf( asx // a // b
)
    //	t
    zchar[ 1] roots @calculatedFrom(
""abc""
) ,pack @lengthOf(
Z9_ ), @tag(
65535) @lengthOf(Header
    ) // c
f64 tag , @tag( 1
)repeat
    u8x, match stringy// c
as x { ""it's"" // " ++ [27880; 37322]%N ++ runes_of_ascii "
: Z9_ ,7 : u128 ,
""// no comment"" :trueish, 00
:
    //	t
    f32a ,
    [3,  1, 00]:	pack,""" ++ [28040; 24687]%N ++ runes_of_ascii """
    // trailing space 
    : options1	,
// `tick` ""quote"" 'q'
//x
} ,
repeat // `tick` ""quote"" 'q'
u128 { repeat
crc
{ int16	int ,  }
// c
// @lengthOf(
, }
    // @lengthOf(
    , @leftPad ( ' '  ) // trailing space 
repeat
zchar[ 255 ]
// " ++ [128512]%N ++ runes_of_ascii " emoji
// `tick` ""quote"" 'q'
int `crlf
line` ,@tag( 1 ) Logon roots
    `// not a comment` , }
")).
Eval vm_compute in ("<<<M1840>>>" ++ check (runes_of_ascii "options {StringPrefixLenType
	= u16
    ; ArrayPrefixLenType=
u16 ;} packet SampleBinary{ 
uint16 
MsgType
    `" ++ [28040; 24687; 31867; 22411]%N ++ runes_of_ascii "`	, 
u16 BodyLenght @lengthOf( Body
    ) 
`" ++ [28040; 24687; 20307; 38271; 24230]%N ++ runes_of_ascii "` 
,
	match MsgType

as Body 
{ 
1:
Logon  , 
2 : 
Logout,

3 : Heartbeat
    ,4
:
    RiskControlRequest  ,
5

    : RiskControlResponse

    ,
}  ,
	@calculatedFrom( ""CRC32"" )u32
Ckecksum`" ++ [26657; 39564; 21644]%N ++ runes_of_ascii "` ,}packet

Logon

{ @leftPad 
('0' )

    char[
    10

    ]
    UserName

    `" ++ [29992; 25143; 21517]%N ++ runes_of_ascii "` ,

    string	Password

    `" ++ [23494; 30721]%N ++ runes_of_ascii "`

,
	uint64
    ClientId

`" ++ [23458; 25143; 31471]%N ++ runes_of_ascii "ID`,  u16
    HeartbeatInterval
	`" ++ [24515; 36339; 38388; 38548]%N ++ runes_of_ascii "` ,}	packet Logout  { @rightPad
    (
    '0'

    )

    char[ 10 ]
	UserName
    `" ++ [29992; 25143; 21517]%N ++ runes_of_ascii "`  ,
	uint64
    ClientId
`" ++ [23458; 25143; 31471]%N ++ runes_of_ascii "ID`  , } 
packet

    Heartbeat
{ }
	packet RiskControlRequest

    {string UniqueOrderId
	`" ++ [21807; 19968; 35746; 21333; 21495]%N ++ runes_of_ascii "`
	, 
char[

16
]
ClOrdID
`" ++ [23458; 25143; 35746; 21333; 21495]%N ++ runes_of_ascii "`,char[

3

]
	MarketID`" ++ [24066; 22330]%N ++ runes_of_ascii "id` ,

char[
	12

    ]  SecurityID
	`" ++ [35777; 21048; 20195; 30721]%N ++ runes_of_ascii "` 
,

char Side

`" ++ [20080; 21334; 26041; 21521]%N ++ runes_of_ascii "`
    ,
    char
    OrderType

    `" ++ [35746; 21333; 31867; 22411]%N ++ runes_of_ascii "`  ,	u64 Price

    `" ++ [20215; 26684]%N ++ runes_of_ascii "`  , 
u32

Qty  `" ++ [25968; 37327]%N ++ runes_of_ascii "`  , 
repeat string
    ExtraInfo
	`" ++ [38468; 21152; 20449; 24687]%N ++ runes_of_ascii "` ,
repeat

    SubOrder
{ char[
16 ]

ClOrdID`" ++ [23376; 35746; 21333; 21495]%N ++ runes_of_ascii "`

    ,
u64
Price  `" ++ [23376; 35746; 21333; 20215; 26684]%N ++ runes_of_ascii "`
, u32	Qty
`" ++ [23376; 35746; 21333; 25968; 37327]%N ++ runes_of_ascii "`
, },
    }
packet RiskControlResponse	{

    string UniqueOrderId
    `" ++ [21807; 19968; 35746; 21333; 21495]%N ++ runes_of_ascii "`  ,
i32
    Status`" ++ [29366; 24577]%N ++ runes_of_ascii "`

,
string
Msg`" ++ [32467; 26524; 20449; 24687]%N ++ runes_of_ascii "`,  repeat 
Detail
,
}
packet Detail 
{ string RuleName  `" ++ [35268; 21017; 21517; 31216]%N ++ runes_of_ascii "`,

    u16 Code

`" ++ [21407; 22240; 20195; 30721]%N ++ runes_of_ascii "`	,  }
")).
Eval vm_compute in ("<<<M1581>>>" ++ check (runes_of_ascii "  // `tick` ""quote"" 'q'
packet	crc

    {  @tag( 0  ) 	 //x

chars,
    i8i8 @lengthOf(

    packetx
	) ,repeat 
f32a{match

packetx
as 
a1

{""x y""  :  
  //
	// `tick` ""quote"" 'q'
  Packet,
} 
,

},  @leftPad

    ( 
'\x00')
    uint8  int  ,
	match 
float as

a1
{ 
    // `tick` ""quote"" 'q'
	[ 
4294967296 ]	:// " ++ [27880; 37322]%N ++ runes_of_ascii "
    Packet ,
	} 	 //
	,
repeat  zchar[007  ] zchar
`tab	here`,
	repeat 

    // " ++ [27880; 37322]%N ++ runes_of_ascii "
  	// a // b
	x
,
	}
    packet

    string_ 
// c
  { char[
    0123456789
    ] a1
    ,
	@calculatedFrom(

    ""a\\""
    ) 
@tag( 42
	)@leftPad(
	'\x00'
    ) options1
@calculatedFrom(""" ++ [28040; 24687]%N ++ runes_of_ascii """
)
`it's`
,

    repeat  rootA// packet A { u8 x, }
{ 

//
    match
Logon as
	Packet

{[10 
, 255 
,

0
,	007 
, 
""CRC32""
	,	""abc""

    ]

: len
	,""" ++ [28040; 24687]%N ++ runes_of_ascii """ : 
a1 , }	, match
    leftPad

    as
	Header {

    007  :
As
,255
:
repeatCount

    ,	/// triple
""""// packet A { u8 x, }
  : 
matchKey 	 //
    	,  [ 255 , 
3 
,

    ""abc""

,
""""	,

""\n"" ,
    1  ,"""" // " ++ [27880; 37322]%N ++ runes_of_ascii "
	,
42 //x

	] :pack, } ,} 
	// @lengthOf(
  	// `tick` ""quote"" 'q'
,
    int 
{

    int64

chars,
}// @lengthOf(
	, } ")).
Eval vm_compute in ("<<<M1600>>>" ++ check (runes_of_ascii "
// top
    options // c0
  {LittleEndian 

    // c2
=
	true
// c4
	; StringPrefixLenType

    =  // c7a
  	// c7b
  	u16	// c8
;// c9a
  // c9b

	FixedStringPadChar =// c11a
  // c11b

' '  // c12
	;	// c13
	}
packet  // c15
      Logon

    {// c17
@leftPad  // c18a
	// c18b
  ('0' 
        // c20
	  )
char[ // c22
	10 ] 
    // c24

  tag7	// c25a
	// c25b
,
    }
// c27

root  // c28a
// c28b
	packet	Ack
    // c30
	{ // c31
int32 Px // c33
    	,	// c34a
// c34b
		uint16  // c35
  	count  // c36a
  	// c36b
  ,	// c37
	string // c38

Qty  // c39
  , string
        // c41
    	OrderId 
// c42
  ,
    string 
Flags// c45a

// c45b
  ,  u8
	x// c48a

// c48b
	,	// c49a
    	// c49b
  match  // c50
	x// c51
    	as
Body 
        // c53
	{  // c54
	[

// c55
  58	// c56

  , // c57a
// c57b
	169

    ]	// c59
:  // c60a
	  // c60b
Logon 
    // c61
	,
}	// c63
		,  }  // c65a
	// c65b
")).
Eval vm_compute in ("<<<M1386>>>" ++ check (runes_of_ascii "// top
options
    // c0
{
    // c1
LittleEndian // c2a
  // c2b
=
    // c3
true // c4a
  // c4b
; } // c6a
  // c6b
packet // c7a
  // c7b
Logon // c8a
  // c8b
{ u8
    // c10
x // c11a
  // c11b
,
    // c12
}
    // c13
packet
    // c14
Logout
    // c15
{ // c16
u16 reason // c18a
  // c18b
, } // c20
root // c21
packet Frame // c23
{ // c24a
  // c24b
u64
    // c25
Kind , // c27
u64 Kind2 // c29
, match Kind // c32
as // c33
Body
    // c34
{
    // c35
1 : // c37a
  // c37b
Logon ,
    // c39
[ // c40a
  // c40b
2 , // c42a
  // c42b
3 // c43a
  // c43b
, // c44
4 // c45a
  // c45b
] // c46a
  // c46b
:
    // c47
Logout
    // c48
, // c49
100 : // c51
Logon
    // c52
, // c53
} // c54
, match // c56a
  // c56b
Kind2 // c57
as // c58
Trailer
    // c59
{ // c60a
  // c60b
0 : // c62
Logout
    // c63
, // c64
} // c65
, } ")).
Eval vm_compute in ("<<<M1884>>>" ++ check (runes_of_ascii "
packet pack 
  // c

  // packet A { u8 x, }
	  {  u8	a1  
  // trailing space 
  	/// triple
`say ""hi""` 	 // packet A { u8 x, }
, @leftPad
    (

    '\x00'
) uint8

Logon
`
`// `tick` ""quote"" 'q'
	, char[]
lengthOf 	 // " ++ [27880; 37322]%N ++ runes_of_ascii "
      `" ++ [233]%N ++ runes_of_ascii "`,
	    //
  //x

  repeat 
char[]

    As 
, 
        //	t
  @lengthOf(	string_
    )
    @calculatedFrom(""a\\""	) 
repeat
u8x
    o, char

    string_  @calculatedFrom( ""a\""b"") `tab	here`	, repeat 
As
    {  char[ 
// packet A { u8 x, }
  0	] i64_	//	t
  @lengthOf(	T 
)
	`" ++ [233]%N ++ runes_of_ascii "` ,	char[
4294967296
] 
T
@calculatedFrom(

""\" ++ [233]%N ++ runes_of_ascii """ ) 
, trueish  , 
repeat	int 
{ 
string

Logon@calculatedFrom(	""1"") ,

    metadata

,
    uint32 
Z9_ , // " ++ [27880; 37322]%N ++ runes_of_ascii "
    }

    ,
}	,

    @tag( 00
) //	t
	i16

    a1`a\` ,
    }

")).
Eval vm_compute in ("<<<M1360>>>" ++ check (runes_of_ascii "options {
    StringPrefixLenType = u8;
    ArrayPrefixLenType = u32;
    FixedStringPadFromLeft = true;
    FixedStringPadChar = ' ';
}
packet Leg {
}
packet Heartbeat {
    zchar[6] msgKind,
    @rightPad('0') char[3] Qty,
    zchar[9] Side2,
    i8 Acct,
}
packet Logout {
    int8 x,
}
packet Order {
    char[] Acct,
    zchar[8] count,
    u32 OrderId,
    uint8 lastPx,
    u16 clOrdID,
    zchar[7] Note,
}
root packet Reject {
    @leftPad(' ') char[8] Side2,
    i8 clOrdID,
    repeat f32 x,
    u32 lastPx,
    match lastPx as Body {
        [30, 147] : Heartbeat,
        134 : Leg,
        183 : Logout,
        40 : Order,
    },
    u16 Ref @calculatedFrom(""CRC32""),
}
")).
Eval vm_compute in ("<<<M1646>>>" ++ check (runes_of_ascii "root packet falsey {
    @tag(255)
    len @calculatedFrom(""`tick`""),
    match MetaDataX as crc {
        [7] : roots,
    },
    @tag(10)
    @tag(10)
    @tag(255)
    repeat uint64 rootA,
    tag `" ++ [28040; 24687; 31867; 22411]%N ++ runes_of_ascii "`,
    float32 i64_,
    int64 _x `doc`,
    @leftPad(' ')
    match i8i8 as pack {
        // `tick` ""quote"" 'q'
        7 : Logon,
        ""x y"" : lengthOf,
    },// trailing space 
    match x_y_z as u {
        // `tick` ""quote"" 'q'
        // " ++ [27880; 37322]%N ++ runes_of_ascii "
        [0123456789] : packetx,
        007 : x_y_z,
        10 : rootA,
        7 : u,
        0123456789 : falsey,
    },// packet A { u8 x, }
}")).
Eval vm_compute in ("<<<M1785>>>" ++ check (runes_of_ascii "packet rootA {
    options1 _x,
    u64 Header,
}

packet lengthOf {
    @rightPad(' ')
    @lengthOf(u128)
    @calculatedFrom(""a\""b"")
    A {
        string i64_ `it's`,
        //	t
        // trailing space 
        uint8 body,
        match pack as u {
            // @lengthOf(
            // trailing space 
            00 : charz,
            00 : int,
            3 : falsey,
            255 : body,
            [0123456789] : x_y_z,
            // a // b
            //
        },
    },
}

MetaData chars {
    u128 zchar,
    char[42] metadata,
}")).
Eval vm_compute in ("<<<M1860>>>" ++ check (runes_of_ascii "packet  /// triple
  matchKey {
	float32  float

    ,
@calculatedFrom(

""a\\""  // " ++ [27880; 37322]%N ++ runes_of_ascii "
    )
@rightPad

(	'\x00'
	)

    i16 
tag
    @calculatedFrom(""abc"" )
, repeat zchar[  255
]
    pack
	,

    @lengthOf(
	Z9_)
	tag
    ,

    }// trailing space 
root

    packet

    rootA
{ repeat

    metadata 
{
	Logon

    , }	,
@tag(10

)  @lengthOf( A	)
	@tag(  007)	u32 options1,  match float
as
u

{	0123456789
:u8x
	, 
}

    , } 	 // " ++ [27880; 37322]%N ++ runes_of_ascii "
    root  packet
lengthOf{ 
}

")).
Eval vm_compute in ("<<<M1297>>>" ++ check (runes_of_ascii "packet A { // c2a
  // c2b
u8
    // c3
a ,
    // c5
} // c6a
  // c6b
packet B // c8
{ // c9
u16
    // c10
b // c11
, // c12
} // c13a
  // c13b
root // c14a
  // c14b
packet // c15a
  // c15b
P
    // c16
{ u8 // c18a
  // c18b
K // c19
, match // c21
K // c22a
  // c22b
as // c23
M // c24
{ // c25a
  // c25b
1 : // c27a
  // c27b
A // c28a
  // c28b
,
    // c29
1
    // c30
: B
    // c32
,
    // c33
} // c34a
  // c34b
,
    // c35
} ")).
Eval vm_compute in ("<<<M1948>>>" ++ check (runes_of_ascii "
options

    {falsey=
	int64

    ;u8x =
uint32
    uint8x
	=  // " ++ [128512]%N ++ runes_of_ascii " emoji
zchar[

    1]  
      // @lengthOf(

	/// triple
      ; leftPad
=  ""a	b"" ;calculatedFrom
    =
	false
;
}	MetaData
	Packet{ 
zchar[
	7

    ]
As ,
    } 
root packet pack	{

@leftPad() @tag(// trailing space 
  	7 )

    zchar[

3	]

    u@lengthOf( 
    // @lengthOf(
	  // trailing space 
  x

)	, 
}")).
Eval vm_compute in ("<<<M1265>>>" ++ check (runes_of_ascii "// top
packet // c0
B // c1
{ // c2
u8 // c3
a , // c5a
  // c5b
} // c6
root // c7
packet P // c9a
  // c9b
{ // c10a
  // c10b
u8 // c11
K , // c13a
  // c13b
match K // c15a
  // c15b
as // c16a
  // c16b
Body { // c18
1 :
    // c20
B , }
    // c23
, // c24a
  // c24b
u16 // c25a
  // c25b
L // c26
@lengthOf( Body
    // c28
)
    // c29
,
    // c30
} ")).
Eval vm_compute in ("<<<M1387>>>" ++ check (runes_of_ascii "options

{ 
LittleEndian
	=
true 
;	}

packet

    Logon { u8
	x
,
    }
	packet
Logout

{ u16

    reason
	, }  root
packet

Frame
{u64
Kind , u64
	Kind2

,match
Kind  as 
Body 
{
1:	Logon,

    [  2 ,3

,
    4 ] 
:	Logout , 100
: Logon
    , 
},
match
Kind2 as

    Trailer{
0
:
	Logout
, } , } ")).
Eval vm_compute in ("<<<M215>>>" ++ check (runes_of_ascii "root	packet
    i8i8 { @tag( // c
4294967296 )
    // packet A { u8 x, }
    Header  calculatedFrom `
`
, @tag(4294967296 )
@rightPad ( ' '
    )
@lengthOf( float )
    options1 zchar `" ++ [233]%N ++ runes_of_ascii "`
//x
/// triple
,}	root packet
    // " ++ [128512]%N ++ runes_of_ascii " emoji
    x {repeat
zchar[  10 ]	x`u8 x,`,
    }")).
Eval vm_compute in ("<<<M361>>>" ++ check (runes_of_ascii "MetaData BodyLength { uint16 leftPad `" ++ [233]%N ++ runes_of_ascii "` // a // b
, uint8x asx,
    len lengthOf `// not a comment` ,
string uint8x `doc`
, }options {i8i8 = 0
lengthOf =
    0123456789 ; } packet uint8x { @lengthOf(
pack ) float64
u8x@lengthOf(asx //x
)
, }
")).
Eval vm_compute in ("<<<M358>>>" ++ check (runes_of_ascii "
packet matchKey	{ // @lengthOf(
@lengthOf(
a1 ) string_
T`" ++ [28040; 24687; 31867; 22411]%N ++ runes_of_ascii "`, //
} packet body {f32 _x  , packetx @lengthOf(
options1 ) // packet A { u8 x, }
`` , @leftPad ( ' ') i16 crc ,@calculatedFrom(
""" ++ [128512]%N ++ runes_of_ascii """
)	Pad
, } //")).
Eval vm_compute in ("<<<M1311>>>" ++ check (runes_of_ascii "options {
    FixedStringPadChar = '0';
}
packet Q {
    zchar[4] z,
    @rightPad('\x00') char[3] n,
    char[5] d,
}
root packet R {
    Q,
    zchar[8] top,
    repeat zchar[2] zs,
}
")).
Eval vm_compute in ("<<<M1583>>>" ++ check (runes_of_ascii "  packet

    A 
{

match
    k as
n {[ 
""a""  , ""bb""
	,
    ""c c"" , ""d""
    ,
    ""e""

, 
""f"" , ""g"" ,

    ""h""

, 
""i""

,
""j""  ,	""k""
    ]
    :	B  2 
:C}	, } ")).
Eval vm_compute in ("<<<M1449>>>" ++ check (runes_of_ascii "packet A {
    match k as n {
        [
            1, 22, ""c c"", 4, 5,
            ""f"", 7, 8, ""i"", 10,
            11
        ] : B,
        2 : C,
    },
}")).
Eval vm_compute in ("<<<M1700>>>" ++ check (runes_of_ascii "  // top
packet	// c0
	  body// c1
  { 	 // c2
	  i32 	 // c3
  f32a// c4
	  `{ , }`	// c5
,// c6
    }  // c7
  options// c8
{	// c9
  	} // c10
")).
Eval vm_compute in ("<<<M541>>>" ++ check (runes_of_ascii "packet uint8x
{ match pack
    as msg_type	{
    0123456789 :	float
}
,
} packet //	t
a1
    { } options {packetx
    = '\x0" ++ [233]%N ++ runes_of_ascii "0'	; u128= ""a	b""  ; }
")).
Eval vm_compute in ("<<<M497>>>" ++ check (runes_of_ascii "packet uint8x
{ match pack
    as msg_type	{
    0123456789 :	float
}
,
} packet //	t
a1
    { } options {packetx
    '\x00' =	; u128= ""a	b""  ; }
")).
Eval vm_compute in ("<<<M272>>>" ++ check (runes_of_ascii "packet _x	{ } packet BodyLength { int64
Packet
@lengthOf( float ),
options1 /// triple
{rootA x	, u8
Packet @calculatedFrom( """ ++ [28040; 24687]%N ++ runes_of_ascii """) `it's`  ,
} , }")).
Eval vm_compute in ("<<<M670>>>" ++ check (runes_of_ascii "// @lengthOf(
packet i8i8 { u128 o , }
options { MetaDataX = true;
    BodyLength =""packet"" x_y_z= 007
crc //x
= ""abc"" ;
    msg_type = =
i16 }")).
Eval vm_compute in ("<<<M675>>>" ++ check (runes_of_ascii "// @lengthOf(
packet i8i8 { u128 o , }
options { MetaDataX true =;
    BodyLength =""packet"" x_y_z= 007
crc //x
= ""abc"" ;
    msg_type =
i16 }")).
Eval vm_compute in ("<<<M98>>>" ++ check (runes_of_ascii "
packet stringy {
}
MetaData u8x	{ zchar[ 65535
    // a // b
    ] Pad ,stringy string_
`u8 x,` ,	u8 lengthOf`
` , char[ 255
] pack , } 	 ")).
Eval vm_compute in ("<<<M1717>>>" ++ check (runes_of_ascii "packet

    A  { match
    k
as
    n 
{

    [

    ""a"", ""bb""  ,
007
,

    ""d""
,""e"", 66 , ""g""

,
	""h""]
	: 
B
2 : C} ,
	} ")).
Eval vm_compute in ("<<<M1684>>>" ++ check (runes_of_ascii "

  packet 
A

    { match	k 
as
    n {  [
""a""

    , 
22	,

""c c"" , 4 ,""e""
    ,
66
,
""g"" ,

8 
]
:	B
2

: 
C} , }

")).
Eval vm_compute in ("<<<M1142>>>" ++ check (runes_of_ascii "
// c
MetaData leftPad { chars MetaDataX , } packet repeatCount { char[ 255 ] uint8x `" ++ [233]%N ++ runes_of_ascii "` , } MetaData pack { As Foo , }")).
Eval vm_compute in ("<<<M1168>>>" ++ check (runes_of_ascii "MetaData leftPad { chars MetaDataX , } packet repeatCount { char[ 255 ]
// c
uint8x `" ++ [233]%N ++ runes_of_ascii "` , } MetaData pack { As Foo , }")).
Eval vm_compute in ("<<<M1731>>>" ++ check (runes_of_ascii "
packet A	{  match k
	as  n  {[	1

    ,
22 ,
""c c"" 
,4	, 5,

    ""f""

, 
7
, 8
,

""i""
]
:  B  , 2  :C 
} 
, }")).
Eval vm_compute in ("<<<M910>>>" ++ check (runes_of_ascii "packet A {
  match k as n {
    [""a"", 22, ""c c"", 4, ""e"", 66, ""g"", 8, ""i"", 10, ""k"", 12] : B,
    2 : C
  },
}")).
Eval vm_compute in ("<<<M912>>>" ++ check (runes_of_ascii "packet A {
  match k as n {
    [1, 22, ""c c"", 4, 5, ""f"", 7, 8, ""i"", 10, 11, ""l""] : B,
    2 : C
  },
}")).
Eval vm_compute in ("<<<M885>>>" ++ check (runes_of_ascii "packet A {
  match k as n {
    [""a"", 22, ""c c"", 4, ""e"", 66, ""g"", 8, ""i"", 10] : B
    2 : C
  },
}")).
Eval vm_compute in ("<<<M600>>>" ++ check (runes_of_ascii "
packet
    asx {match u128 as lengthOf
{
//	t
// `tick` ""quote"" 'q'
255 packet x ,
    } ,	}")).
Eval vm_compute in ("<<<M585>>>" ++ check (runes_of_ascii "
packet
    asx {match u128 as @lengthOf(
{
//	t
// `tick` ""quote"" 'q'
255 : x ,
    } ,	}")).
Eval vm_compute in ("<<<M555>>>" ++ check (runes_of_ascii "
asx
    packet {match u128 as lengthOf
{
//	t
// `tick` ""quote"" 'q'
255 : x ,
    } ,	}")).
Eval vm_compute in ("<<<M577>>>" ++ check (runes_of_ascii "
packet
    asx {match u128  lengthOf
{
//	t
// `tick` ""quote"" 'q'
255 : x ,
    } ,	}")).
Eval vm_compute in ("<<<M836>>>" ++ check (runes_of_ascii "packet A {
  match k as n {
    [""a"", ""bb"", 007, ""d"", ""e"", 66] : B,
    2 : C
  },
}")).
Eval vm_compute in ("<<<M1527>>>" ++ check (runes_of_ascii "MetaData leftPad {
    /// triple
    char[] body,
    As options1,
    o i64_,
}")).
Eval vm_compute in ("<<<M826>>>" ++ check (runes_of_ascii "packet A {
  match k as n {
    [1, 22, 007, 4, 5, 66] : B,
    2 : C
  },
}")).
Eval vm_compute in ("<<<M960>>>" ++ check (runes_of_ascii "packet A {
    B b `tab
	x`,
    B `tab
	x`,
    repeat B bs `tab
	x`,
}")).
Eval vm_compute in ("<<<M795>>>" ++ check (runes_of_ascii "packet A {
  match k as n {
    [1, 22, ""c c""] : B,
    2 : C
  },
}")).
Eval vm_compute in ("<<<M782>>>" ++ check (runes_of_ascii "packet A {
  match k as n {
    [1, ""bb""] : B,
    2 : C
  },
}")).
Eval vm_compute in ("<<<M1503>>>" ++ check (runes_of_ascii "root 
packet P
	{u8  s_u8 ,repeat
u8
	r_u8,  u16 b_len  ,	}")).
Eval vm_compute in ("<<<M1070>>>" ++ check (runes_of_ascii "packet A { match k as n { 1 : B // a // b 2 : C }, }")).
Eval vm_compute in ("<<<M1213>>>" ++ check (runes_of_ascii "packet body { i32 f32a `{ , }` , } // c
options { }")).
Eval vm_compute in ("<<<M927>>>" ++ check (runes_of_ascii "MetaData M {
    u8 x `a
b`,
    T t `a
b`,
}")).
Eval vm_compute in ("<<<M212>>>" ++ check (runes_of_ascii "packet
    MetaDataX {i16 u128`" ++ [233]%N ++ runes_of_ascii "` , //x
}")).
Eval vm_compute in ("<<<M1096>>>" ++ check (runes_of_ascii "packet A { u8 x,// a


// b

 u8 y, }")).
Eval vm_compute in ("<<<M85>>>" ++ check (runes_of_ascii "options// c
{MetaDataX =int16 }
")).
Eval vm_compute in ("<<<M993>>>" ++ check (runes_of_ascii "packet A {
 u8 x `d" ++ [133]%N ++ runes_of_ascii "`, // c" ++ [133]%N ++ runes_of_ascii "
}")).
Eval vm_compute in ("<<<M1637>>>" ++ check (runes_of_ascii "
packet x

    {
} // c
")).
Eval vm_compute in ("<<<M286>>>" ++ check (runes_of_ascii " // `tick` ""quote"" 'q'")).
Eval vm_compute in ("<<<M20>>>" ++ check (runes_of_ascii "packet MetaDataX { }")).
Eval vm_compute in ("<<<M976>>>" ++ check (runes_of_ascii "packet A {
}
// c ")).
Eval vm_compute in ("<<<M1057>>>" ++ check (runes_of_ascii "// c" ++ [6158]%N ++ runes_of_ascii "
packet A {
}")).
Eval vm_compute in ("<<<M1227>>>" ++ check (runes_of_ascii "packet
// c
x { }")).
Eval vm_compute in ("<<<M297>>>" ++ check (runes_of_ascii "// " ++ [128512]%N ++ runes_of_ascii " emoji


")).
Eval vm_compute in ("<<<M985>>>" ++ check (runes_of_ascii "// c" ++ [160]%N)).
Eval vm_compute in ("<<<M19>>>" ++ check (runes_of_ascii "
")).
