From FP Require Import Lexer Parser ShowPT Digest Formatter.
From Coq Require Import String List NArith.
Import ListNotations.
Open Scope string_scope.
Set Printing Width 100000000.
Set Printing Depth 100000000.
Definition show_fres (r : fres) : string :=
  match r with
  | FOk s => "OK:" ++ sh_escaped s ""
  | FErr s => "ERR:" ++ sh_escaped s ""
  | FPanic p => "PANIC:" ++ p
  end.
Definition check (rs : list rune) : string := digest (show_fres (format_res rs)).
Definition full (rs : list rune) : string := show_fres (format_res rs).
Eval vm_compute in ("<<<M1769>>>" ++ check (runes_of_ascii "options{  // c1a
  // c1b
  FixedStringPadFromLeft // c2a
  // c2b
	  = 	 // c3a
	// c3b
true 	 // c4a
	// c4b

  ;// c5
FixedStringPadChar  
      // c6
    	=// c7a
// c7b
  '0' ;  
      // c9
}// c10a
	// c10b
    packet  // c11
	  Leg  // c12a
    // c12b
    { InPrice0 	 // c14
  	{ 	 // c15a
  // c15b
    repeat 
	// c16
  string  // c17
      clOrdID	// c18a

// c18b

,  
      // c19
    	int16 // c20

msgKind 	 // c21a
  // c21b
	  ,  // c22a
// c22b
  zchar[	// c23
	5 

    // c24
]

Px 
	// c26
    ,	// c27
  	}  
  // c28

,
    // c29
i16  // c30
    	f1 	 // c31
	  , 
  // c32
  repeat // c33a
	// c33b
f64 	 // c34a
  	// c34b
	Side2
    // c35
  , string
    // c37
Acct 	 // c38
, }
        // c40
packet Cancel	// c42

	{
zchar[// c44
    	4] // c46a
	  // c46b
    	clOrdID// c47a

// c47b
	, // c48a
	// c48b

string 	 // c49
	  seqNo // c50
,  // c51a
  // c51b

Leg 	 // c52
, 
	    // c53
  @leftPad// c54a

  // c54b
  	( '0' // c56
	) 
    // c57

char[
11
	// c59
  ]
    // c60
OrderId// c61
    ,
    // c62
	  } 
packet
    // c64
    Quote // c65a
    // c65b
  {
repeat

// c67
    char[4  // c69
  ]
sym  // c71
      , 	 // c72
	f64 OrderId,  
      // c75
    repeat 
        // c76
Leg
	,// c78a
	// c78b
    repeat  i64  // c80
	f1  // c81a
// c81b
,// c82
	int16 
      // c83
    Note 
	// c84
    , 
zchar[ 3 	 // c87a
// c87b
	] count
    // c89
  	, } 	 // c91
    	root
// c92

packet 
Ack{// c95a
    // c95b
    @leftPad
// c96
  ( 

// c97
' '	// c98a
  // c98b
  ) char[  
      // c100
      10
// c101
  	] 	 // c102a
  // c102b
sym 	 // c103a
    // c103b
		,  // c104
    InPx60 // c105

{ Cancel	// c107a
	// c107b
    , 	 // c108

  repeat

    char[
	1// c111
  	] f1  // c113
	  , 	 // c114a
	// c114b
    string // c115
Tail , 
// c117
  repeat// c118a
	// c118b
    	InNote55
    // c119
	  {	// c120
int8

    count 
    // c122
    , 

    // c123

  f64  // c124a
      // c124b
	f1	// c125a
    // c125b
	, repeat
    Cancel 
      // c128

	, 	 // c129a
    	// c129b
  }
// c130

, 
    // c131

char[]
    // c132
	tag7
// c133
  	,repeat 	 // c135a
	  // c135b
	string
	// c136
	msgKind 
    // c137
  , }	, 	 // c140
  	u8
    // c141
  	lastPx  ,

// c143
	match// c144

lastPx
	    // c145
	as// c146a
		// c146b
	Body	// c147
    {
// c148
    152
:

Quote

    , 	 // c152a
		// c152b
    173 // c153
    : 	 // c154a
  	// c154b
  Cancel

    // c155

	,// c156a
	// c156b
	4 
:  // c158a
// c158b
    Leg// c159a
	  // c159b
	,}	// c161
	, u16
        // c163

	Ref 	 // c164
  @calculatedFrom(  
  // c165
  ""CRC32""

// c166
  )  // c167a
  // c167b
,	// c168a
	// c168b
	}  
  // c169
")).
Eval vm_compute in ("<<<M1618>>>" ++ check (runes_of_ascii "

  packet

    _x

{
leftPad
	`it's`	,

    match
Logon

as
    matchKey
	{
	""packet""
    :  stringy ,

    3

    :
u,//
  ""1"" :
Pad
	}	,

    float32 Z9_	@lengthOf( i8i8

    ) `" ++ [233]%N ++ runes_of_ascii "`

// " ++ [27880; 37322]%N ++ runes_of_ascii "
  ,@tag( 3  )
	match 
  //	t
    As as Pad 
{""""
:chars,""x y""	//
    :	i64_ ,
	}
    , @calculatedFrom(  ""it's""  // c
	)
	@leftPad
(
    ' ')

zchar[ 
0123456789

]falsey
    , match 
A as	packetx
    { [  42 ]
:

matchKey 	 // c
  , }  // `tick` ""quote"" 'q'

	,
@leftPad (

    ' ') match
x
    // c
	as a1

    {

""packet"" 	 //x
    :  a1
    ,	10 :
pack  ""{,}""
    :
	u8x  // a // b
	,
[ 007 , 
00 // trailing space 
]

    : trueish, 
""x y"":	pack 	 //	t
  ,

    """ ++ [233]%N ++ runes_of_ascii "t" ++ [233]%N ++ runes_of_ascii """ :matchKey ,
}
,
@leftPad 
(
	'0' ) uint8x

u
,
zchar[
	3 // a // b
	] 
//	t
  	u `` ,

@rightPad
	( 
' '
	) repeat	_x
	``  ,  }MetaData

Foo{ a1 Z9_
,

options1  T,

u32
    u8x	`crlf
line`
,  metadata
falsey
	, lengthOf
x_y_z , }

packet
calculatedFrom
{
@tag(
3 )string

    A

, match leftPad as
	a1 
{	//	t
0123456789  :
	calculatedFrom	,	}
,
match
crc //

as
	body {00: _x ,	}
,

o@calculatedFrom(""x y"") 
  //
    // " ++ [128512]%N ++ runes_of_ascii " emoji
	,

    }  packet

    T

    { } packet 
Logon
    { @leftPad
( 	 // @lengthOf(
    '\x00') As	@calculatedFrom(

""a	b""
    )
    `line1
line2`

    ,

pack lengthOf	// `tick` ""quote"" 'q'
    	, }	// `tick` ""quote"" 'q'")).
Eval vm_compute in ("<<<M282>>>" ++ check (runes_of_ascii "// a // b
packet stringy	{
string zchar ,
    repeat T
, match
u
as  charz {
007
    //x
    :
//	t
// @lengthOf(
float// trailing space 
,""\" ++ [233]%N ++ runes_of_ascii """ : Logon ""a	b"":
//	t
//	t
pack, } , match uint8x as
    // " ++ [27880; 37322]%N ++ runes_of_ascii "
    roots
{
1
    // `tick` ""quote"" 'q'
    : len
,	}
//x
// " ++ [27880; 37322]%N ++ runes_of_ascii "
, }packet zchar {	roots options1
    //x
    `// not a comment` , int64 As
,
    i16 float
    @lengthOf( falsey
    // " ++ [27880; 37322]%N ++ runes_of_ascii "
    ) `a\`
    , int64 msg_type `tab	here`
, @tag(0
    // `tick` ""quote"" 'q'
    ) repeat uint8x ,
    @lengthOf(x
    ) repeat metadata
    , zchar[ 0 ]	int , uint64
    zchar ,zchar[7 // " ++ [27880; 37322]%N ++ runes_of_ascii "
]
msg_type
,
@calculatedFrom(
/// triple
// " ++ [27880; 37322]%N ++ runes_of_ascii "
""" ++ [28040; 24687]%N ++ runes_of_ascii """ ) crc
, }
root packet zchar { repeat
leftPad,
} packet
A{
@lengthOf(
    string_ )	x@lengthOf( options1) `two words`,  string
len ,	}packet	falsey{ i64_ @calculatedFrom(	""{,}"" ) , repeat
string chars
, zchar[ 7]calculatedFrom
, Header
    { char u`two words`, repeat char[] // c
tag
    `say ""hi""`	, Z9_
    @lengthOf(
T ) `line1
line2` , } , msg_type @calculatedFrom( ""// no comment""
    ) , @rightPad (// packet A { u8 x, }
'\x00' )
@lengthOf( asx )
falsey
,
    } // packet A { u8 x, }")).
Eval vm_compute in ("<<<M1536>>>" ++ check (runes_of_ascii "
options
	//x
  	// @lengthOf(
	  {Foo
= ""// no comment""
	    /// triple
	//	t
  	;} packet 
float

    {

}
packet
	len 
{ @lengthOf(
    _x  )stringy {
	metadata

    @calculatedFrom(

""a\\""

    ) 
,
	}
,
//x
	  //
	}  packet

asx { @tag( 0
    )  repeat
    float64
	A  `say ""hi""` , 
  //
// trailing space 
  i16  int`say ""hi""`,@calculatedFrom(

    """ ++ [128512]%N ++ runes_of_ascii """
) lengthOf Header `two words`  , f32a zchar , @rightPad
	(
    '0' ) repeat	string_ 
// packet A { u8 x, }
	chars

``
    , @tag(
4294967296	)
@calculatedFrom(

""a	b"" )
    repeat

msg_type
, @leftPad
( 
)

    repeat f64
_x
,
repeat As{  Logon @lengthOf(	calculatedFrom)
`two words`  ,
    repeat
u64 o

    `u8 x,` ,}
	, @calculatedFrom(""packet"" )
repeat// @lengthOf(
    uint8
    u	,}
packet

    uint8x 
{@leftPad	('0' ) 

    //	t
//x
  zchar[ 
    // packet A { u8 x, }
    // " ++ [27880; 37322]%N ++ runes_of_ascii "

255]	metadata

    `a\`
	,	//

	} // `tick` ""quote"" 'q'
 
")).
Eval vm_compute in ("<<<M1575>>>" ++ check (runes_of_ascii "root packet asx {
    leftPad {
        u128 @calculatedFrom(""1""),//x
    },
    lengthOf @calculatedFrom(""" ++ [128512]%N ++ runes_of_ascii """) `a\`,
    i64 Packet @lengthOf(calculatedFrom),
    @calculatedFrom(""" ++ [233]%N ++ runes_of_ascii "t" ++ [233]%N ++ runes_of_ascii """)
    stringy a1 `doc`,
    @rightPad()
    // c
    a1 `a\`,
    char Header @lengthOf(x) `say ""hi""`,
    uint8x Z9_ `tab	here`,
}

options {
    calculatedFrom = 0
}

packet metadata {
    @leftPad('\x00')
    f32 pack,
    @tag(65535)
    u32 uint8x @lengthOf(repeatCount) ``,
    MetaDataX {
        repeat options1,
        match matchKey as len {
            """ ++ [128512]%N ++ runes_of_ascii """ : u8x,
            1 : zchar,
            /// triple
            [""a\\"", ""x y""] : charz,
            0 : x_y_z,
            [4294967296] : asx,
            [""a\""b"", ""\n"", ""\" ++ [233]%N ++ runes_of_ascii """, 10] : _x,
        },
        uint8 metadata @lengthOf(float),
        zchar[255] i8i8,
    },
}

root packet f32a {
}")).
Eval vm_compute in ("<<<M1884>>>" ++ check (runes_of_ascii "
packet pack 
  // c

  // packet A { u8 x, }
	  {  u8	a1  
  // trailing space 
  	/// triple
`say ""hi""` 	 // packet A { u8 x, }
, @leftPad
    (

    '\x00'
) uint8

Logon
`
`// `tick` ""quote"" 'q'
	, char[]
lengthOf 	 // " ++ [27880; 37322]%N ++ runes_of_ascii "
      `" ++ [233]%N ++ runes_of_ascii "`,
	    //
  //x

  repeat 
char[]

    As 
, 
        //	t
  @lengthOf(	string_
    )
    @calculatedFrom(""a\\""	) 
repeat
u8x
    o, char

    string_  @calculatedFrom( ""a\""b"") `tab	here`	, repeat 
As
    {  char[ 
// packet A { u8 x, }
  0	] i64_	//	t
  @lengthOf(	T 
)
	`" ++ [233]%N ++ runes_of_ascii "` ,	char[
4294967296
] 
T
@calculatedFrom(

""\" ++ [233]%N ++ runes_of_ascii """ ) 
, trueish  , 
repeat	int 
{ 
string

Logon@calculatedFrom(	""1"") ,

    metadata

,
    uint32 
Z9_ , // " ++ [27880; 37322]%N ++ runes_of_ascii "
    }

    ,
}	,

    @tag( 00
) //	t
	i16

    a1`a\` ,
    }

")).
Eval vm_compute in ("<<<M1659>>>" ++ check (runes_of_ascii "packet tag {
    @calculatedFrom(""x y"")
    lengthOf {
        options1 `
        `,
    },
    @tag(7)
    int {
        //x
        // " ++ [27880; 37322]%N ++ runes_of_ascii "
        char[007] calculatedFrom @lengthOf(metadata),
        tag @lengthOf(falsey),
        f32 calculatedFrom `{ , }`,
        i8i8 {
            string i64_ @lengthOf(asx) `it's`,
            u @calculatedFrom(""\n""),
        },
    },
    @calculatedFrom(""abc"")
    @leftPad(' ')
    uint64 calculatedFrom,// " ++ [27880; 37322]%N ++ runes_of_ascii "
}

packet o {
    Header,
    @lengthOf(i8i8)
    float32 Pad,
    char[42] leftPad @calculatedFrom(""""),
    @tag(255)
    body u,
}

packet lengthOf {
    // packet A { u8 x, }
    // c
    @tag(255)
    char[0123456789] o `
    `,
}")).
Eval vm_compute in ("<<<M1662>>>" ++ check (runes_of_ascii "root packet asx {
    @rightPad(' ')
    @lengthOf(int)
    @tag(0)
    u64 uint8x @calculatedFrom(""packet""),
    uint32 i64_,
    // c
    repeat options1 o,
    match f32a as falsey {
        42 : stringy,
        10 : As,
        """" : Packet,
    },
    @calculatedFrom(""it's"")
    // " ++ [128512]%N ++ runes_of_ascii " emoji
    f64 a1,
    @lengthOf(tag)
    match roots as MetaDataX {
        """ ++ [128512]%N ++ runes_of_ascii """ : f32a,
        ""\n"" : As,
        [255] : A,
    },
    a1 @calculatedFrom(""abc"") ``,
    @rightPad()
    @rightPad('\x00')
    @calculatedFrom(""CRC32"")
    body As,
}

root packet packetx {
    //x
    //
    repeat lengthOf Logon `" ++ [28040; 24687; 31867; 22411]%N ++ runes_of_ascii "`,//	t
}")).
Eval vm_compute in ("<<<M1342>>>" ++ check (runes_of_ascii "options {
    LittleEndian = false;
    ArrayPrefixLenType = u8;
    FixedStringPadFromLeft = true;
    FixedStringPadChar = '0';
}
packet Heartbeat {
    string lastPx,
    uint8 Qty,
    i64 Acct,
    char[4] Ref,
}
packet Fill {
    uint8 Ref,
    Heartbeat,
    f32 OrderId,
    repeat f32 x,
}
root packet Order {
    zchar[2] OrderId,
    zchar[2] Acct,
    zchar[1] Note,
    zchar[9] Qty,
    string price,
    string tag7,
    u32 x,
    match x as Body {
        123 : Fill,
        112 : Heartbeat,
    },
    u32 seqNo @calculatedFrom(""CRC32""),
}
")).
Eval vm_compute in ("<<<M1433>>>" ++ check (runes_of_ascii "options {
    ArrayPrefixLenType = u64;
    FixedStringPadFromLeft = true;
    FixedStringPadChar = '0';
}

packet Quote {
}

packet Ack {
    repeat InNote66 {
        u8 pad0,
    },
}

packet Reject {
}

root packet Order {
    Quote,
    repeat Reject,
    string venue,
    string seqNo,
    uint32 Ref,
    u16 lastPx,
    u32 clOrdID @lengthOf(Body),
    match lastPx as Body {
        190 : Reject,
        186 : Quote,
        22 : Ack,
    },
    u16 Flags @calculatedFrom(""CRC32""),
}")).
Eval vm_compute in ("<<<M1592>>>" ++ check (runes_of_ascii "

  MetaData  T { a1

Packet,	// " ++ [128512]%N ++ runes_of_ascii " emoji
uint8x

    // @lengthOf(
    	//x

Pad`" ++ [233]%N ++ runes_of_ascii "`,

a1 
    // " ++ [27880; 37322]%N ++ runes_of_ascii "
  	MetaDataX  ,
zchar[
    00	]

    metadata
    `u8 x,` 
,
	Pad// trailing space 
  x

`
`  ,i8 
u8x
,
}  options	{  As 
=

    false  ; }	root

packet options1
    {
	@calculatedFrom(""// no comment"" )
@lengthOf( _x
	)
    @tag(
	007
)repeat
// trailing space 

// @lengthOf(
  f32
i8i8`" ++ [233]%N ++ runes_of_ascii "` , @rightPad  ( ' ' // " ++ [27880; 37322]%N ++ runes_of_ascii "

)  repeat Pad
,

    }")).
Eval vm_compute in ("<<<M1334>>>" ++ check (runes_of_ascii "options
{ 
LittleEndian
=  false ;
StringPrefixLenType 
= u8

    ; ArrayPrefixLenType=	u64
; 
FixedStringPadFromLeft = false ; FixedStringPadChar

    =' ' ;	}
	packet  Reject

    {repeat	char[
    4] seqNo , string  Px , 
}	root
    packet Trade  {
    @rightPad
	(

'0')
	char[ 
2

    ]
	msgKind  ,
    repeat
f64 price,InAcct79 { repeat Reject , zchar[  7]
	OrderId
	, }
	,Reject	,}
")).
Eval vm_compute in ("<<<M1623>>>" ++ check (runes_of_ascii "// top
options {
    // c1a
    // c1b
    zchar = true;
    Pad = char[00]
    // c10
    a1 = uint32// c13a
    // c13b
    BodyLength = true;
    // c17
}

root packet T {
    // c22
    @lengthOf(repeatCount)
    @tag(1)
    // c28a
    // c28b
    @calculatedFrom(""a	b"")
    // c31a
    // c31b
    string stringy @calculatedFrom(""\n"") `u8 x,`,// c38
}// c39")).
Eval vm_compute in ("<<<M1335>>>" ++ check (runes_of_ascii "options {
    LittleEndian = true;
    StringPrefixLenType = u16;
    FixedStringPadChar = ' ';
}
packet Logon {
    @leftPad('0') char[10] tag7,
}
root packet Ack {
    int32 Px,
    uint16 count,
    string Qty,
    string OrderId,
    string Flags,
    u8 x,
    match x as Body {
        [58, 169] : Logon,
    },
}
")).
Eval vm_compute in ("<<<M1308>>>" ++ check (runes_of_ascii "packet A {
    u8 a,
}
packet B {
    u16 b,
}
packet C {
    u32 c,
}
root packet M {
    u16 Kc, u16 Kb, u16 Ka,
    match Kc as X {
        9 : A,
        10 : B,
    },
    match Kb as Y {
        2 : C,
        1 : A,
    },
    match Ka as Z {
        1 : B,
    },
    A, B, C,
}
")).
Eval vm_compute in ("<<<M1379>>>" ++ check (runes_of_ascii "options {
    LittleEndian = true;
}
packet Logon {
    u8 x,
    string user,
}
packet Logout {
    u16 reason,
}
packet Empty {
}
root packet Frame {
    u16 MsgType,
    u8 BodyLen @lengthOf(Body),
    u8 flags,
    Logon Body,
    u32 trailer,
}
")).
Eval vm_compute in ("<<<M1544>>>" ++ check (runes_of_ascii "packet
rootA
    { } 	 // trailing space 
	  packet
f32a//	t
		{ match zchar
    as

    zchar { 65535:

f32a,	7 :
charz  // trailing space 

,  ""{,}"" 
  //	t
	//x
  :  Header,42:

a1 // packet A { u8 x, }

,
    } ,} ")).
Eval vm_compute in ("<<<M1920>>>" ++ check (runes_of_ascii "
options{
falsey 
    /// triple
    =  false
	;falsey

    = 
//
  int16	// `tick` ""quote"" 'q'
  ; 
	// `tick` ""quote"" 'q'
  A
    = 
	// trailing space 
u32
    ; trueish = 1  ;  }")).
Eval vm_compute in ("<<<M1642>>>" ++ check (runes_of_ascii "options {
    As = true
    MetaDataX = true
}

packet A {
    repeat calculatedFrom `say ""hi""`,
}

MetaData crc {
    u crc,
    uint32 body,
    i16 stringy `u8 x,`,
}")).
Eval vm_compute in ("<<<M1543>>>" ++ check (runes_of_ascii "options 
{ LittleEndian 
=
	true
	;	}
	packet	B

{ u8
a  ,

string
	s ,}

    root
packet P {
u16

    L 
@lengthOf(

    B
),
    B

    , 
u8	t,} ")).
Eval vm_compute in ("<<<M1423>>>" ++ check (runes_of_ascii "

  options
{

LittleEndian  = true
    ; }

packet	B 
{
u8

a	,
string
s

    , }  root packet
	P
{ u16
L @lengthOf(  B
    )	,B	,

u8

    t 
,

}")).
Eval vm_compute in ("<<<M544>>>" ++ check (runes_of_ascii "packet uint8x
{ match pack
    as msg_type	{
    0123456789 :	float
}
,
} packet //	t
a1
    { } options {packetx
    = " ++ [65279]%N ++ runes_of_ascii " '\x00'	; u128= ""a	b""  ; }
")).
Eval vm_compute in ("<<<M447>>>" ++ check (runes_of_ascii "packet uint8x
{ match pack
    as msg_type	{
    0123456789 :	float
,
}
} packet //	t
a1
    { } options {packetx
    = '\x00'	; u128= ""a	b""  ; }
")).
Eval vm_compute in ("<<<M470>>>" ++ check (runes_of_ascii "packet uint8x
{ match pack
    as msg_type	{
    0123456789 :	float
}
,
} packet //	t
a1
     } options {packetx
    = '\x00'	; u128= ""a	b""  ; }
")).
Eval vm_compute in ("<<<M668>>>" ++ check (runes_of_ascii "// @len'1'gthOf(
packet i8i8 { u128 o , }
options { MetaDataX = true;
    BodyLength =""packet"" x_y_z= 007
crc //x
= ""abc"" ;
    msg_type =
i16 }")).
Eval vm_compute in ("<<<M1851>>>" ++ check (runes_of_ascii "  packet B {
u8
	a , }

    root  packet P
{
    u8
K

,
u64 L

    @lengthOf(
Body) 
,  match K as

    Body 
{  1 
:B
,
    }	,
    } ")).
Eval vm_compute in ("<<<M1523>>>" ++ check (runes_of_ascii "packet A {
    match k as n {
        [
            1, 22, ""c c"", 4, 5,
            ""f"", 7, 8, ""i"", 10
        ] : B,
        2 : C,
    },
}")).
Eval vm_compute in ("<<<M1632>>>" ++ check (runes_of_ascii "MetaData 
leftPad {chars 
	// c
MetaDataX  ,

    }packet	repeatCount {char[ 255 ]

uint8x
    `" ++ [233]%N ++ runes_of_ascii "`  ,}MetaData
pack { As  Foo

,}
")).
Eval vm_compute in ("<<<M1400>>>" ++ check (runes_of_ascii "

  packet

    A{ match

    k
    as n
{
[  ""a""  ,

""bb"" , 
""c c"" ,
""d"",
	""e""  ,""f"" ,	""g""
    ] :	B
2
:

    C
	}  ,  } ")).
Eval vm_compute in ("<<<M1258>>>" ++ check (runes_of_ascii "packet B {
    u8 a,
}
root packet P {
    u8 K,
    u8 L @lengthOf(Body),
    match K as Body {
        1 : B,
    },
}
")).
Eval vm_compute in ("<<<M1162>>>" ++ check (runes_of_ascii "MetaData leftPad { chars MetaDataX , } packet repeatCount {
// c
char[ 255 ] uint8x `" ++ [233]%N ++ runes_of_ascii "` , } MetaData pack { As Foo , }")).
Eval vm_compute in ("<<<M102>>>" ++ check (runes_of_ascii "packet
    // " ++ [128512]%N ++ runes_of_ascii " emoji
    body {match Logon  as _x
    {
4294967296
// a // b
//x
:
_x , """ ++ [28040; 24687]%N ++ runes_of_ascii """
    : u128
    ,} , }
")).
Eval vm_compute in ("<<<M925>>>" ++ check (runes_of_ascii "packet A {
    u16 len @lengthOf(body) `a
b`,
    u32 crc @calculatedFrom(""CRC32"") `a
b`,
    string body,
}")).
Eval vm_compute in ("<<<M1473>>>" ++ check (runes_of_ascii "
packet
FooBar{ 
u8
a ,}
	packet

foo_bar
    { 
u16

b

,}
root

packet  R { FooBar

, foo_bar  ,  }
")).
Eval vm_compute in ("<<<M641>>>" ++ check (runes_of_ascii "
packet
    asx {match u128 as lengthOf
{
//	t
// `tick` ""quote"" 'q'
255 : x ,
    } @lengthOf ,	}")).
Eval vm_compute in ("<<<M1267>>>" ++ check (runes_of_ascii "packet B {
    u8 a,
    string s,
}
root packet P {
    u16 L @lengthOf(B),
    B,
    u8 t,
}
")).
Eval vm_compute in ("<<<M841>>>" ++ check (runes_of_ascii "packet A {
  match k as n {
    [""a"", ""bb"", ""c c"", ""d"", ""e"", ""f"", ""g""] : B,
    2 : C
  },
}")).
Eval vm_compute in ("<<<M644>>>" ++ check (runes_of_ascii "
packet
    asx {match u128 as lengthOf
{
//	t
// `tick` ""quote"" 'q'
255 : x" ++ [178]%N ++ runes_of_ascii " ,
    } ,	}")).
Eval vm_compute in ("<<<M607>>>" ++ check (runes_of_ascii "
packet
    asx {match u128 as lengthOf
{
//	t
// `tick` ""quote"" 'q'
255 : x 
    } ,	}")).
Eval vm_compute in ("<<<M969>>>" ++ check (runes_of_ascii "packet A {
    u32 crc @calculatedFrom(""x\
y""),
    @calculatedFrom(""x\
y"") u8 y,
}")).
Eval vm_compute in ("<<<M816>>>" ++ check (runes_of_ascii "packet A {
  match k as n {
    [""a"", ""bb"", ""c c"", ""d"", ""e""] : B
    2 : C
  },
}")).
Eval vm_compute in ("<<<M611>>>" ++ check (runes_of_ascii "
packet
    asx {match u128 as lengthOf
{
//	t
// `tick` ""quote"" 'q'
255 : x")).
Eval vm_compute in ("<<<M806>>>" ++ check (runes_of_ascii "packet A {
  match k as n {
    [""a"", 22, ""c c"", 4] : B,
    2 : C
  },
}")).
Eval vm_compute in ("<<<M1587>>>" ++ check (runes_of_ascii "
packet A

{ u8
    x
, }// a
		// b
		packet
B { }  // c
  // d")).
Eval vm_compute in ("<<<M838>>>" ++ check (runes_of_ascii "packet A { Inner { match k as n { [1,22,007,4,5,66] : B, }, }, }")).
Eval vm_compute in ("<<<M751>>>" ++ check (runes_of_ascii "options @calculatedFrom( repeat } [ @tag( uint32 char[] ] :")).
Eval vm_compute in ("<<<M1678>>>" ++ check (runes_of_ascii "root

packet P
    {repeat
char
	cs
    ,
u8
x 
,  }

")).
Eval vm_compute in ("<<<M1209>>>" ++ check (runes_of_ascii "packet body { i32 f32a `{ , }` // c
, } options { }")).
Eval vm_compute in ("<<<M1763>>>" ++ check (runes_of_ascii "
root
	packet
A
{ u8 x `a
    b
  c` ,
    }
")).
Eval vm_compute in ("<<<M1738>>>" ++ check (runes_of_ascii "MetaData o {
}

MetaData T {
}

options {
}")).
Eval vm_compute in ("<<<M1096>>>" ++ check (runes_of_ascii "packet A { u8 x,// a


// b

 u8 y, }")).
Eval vm_compute in ("<<<M1773>>>" ++ check (runes_of_ascii "  packet Z9_	{	}

packet
Pad
{  }")).
Eval vm_compute in ("<<<M978>>>" ++ check (runes_of_ascii "packet A {
 u8 x `d `, // c 
}")).
Eval vm_compute in ("<<<M1714>>>" ++ check (runes_of_ascii "

  // c" ++ [6158]%N ++ runes_of_ascii "
  packet A

{ 
}

")).
Eval vm_compute in ("<<<M268>>>" ++ check (runes_of_ascii " // packet A { u8 x, }")).
Eval vm_compute in ("<<<M1810>>>" ++ check (runes_of_ascii "root packet chars {
}")).
Eval vm_compute in ("<<<M95>>>" ++ check (runes_of_ascii "
packet  Logon {}
")).
Eval vm_compute in ("<<<M1046>>>" ++ check (runes_of_ascii "packet A {
}
// c" ++ [8203]%N)).
Eval vm_compute in ("<<<M1054>>>" ++ check (runes_of_ascii "packet A {
}// c" ++ [6158]%N)).
Eval vm_compute in ("<<<M297>>>" ++ check (runes_of_ascii "// " ++ [128512]%N ++ runes_of_ascii " emoji


")).
Eval vm_compute in ("<<<M990>>>" ++ check (runes_of_ascii "// c" ++ [133]%N)).
Eval vm_compute in ("<<<M725>>>" ++ check (runes_of_ascii " ")).
