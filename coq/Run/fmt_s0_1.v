From FP Require Import Lexer Parser ShowPT Digest Formatter.
From Coq Require Import String List NArith.
Import ListNotations.
Open Scope string_scope.
Set Printing Width 100000000.
Set Printing Depth 100000000.
Definition show_fres (r : fres) : string :=
  match r with
  | FOk s => "OK:" ++ sh_escaped s ""
  | FErr s => "ERR:" ++ sh_escaped s ""
  | FPanic p => "PANIC:" ++ p
  end.
Definition check (rs : list rune) : string := digest (show_fres (format_res rs)).
Definition full (rs : list rune) : string := show_fres (format_res rs).
Eval vm_compute in ("<<<M1367>>>" ++ check (runes_of_ascii "// top
options // c0a
  // c0b
{
    // c1
LittleEndian // c2a
  // c2b
= // c3
true // c4
; // c5
StringPrefixLenType
    // c6
= u16 // c8
;
    // c9
ArrayPrefixLenType = u8 ; // c13
FixedStringPadChar =
    // c15
' '
    // c16
; // c17
} // c18a
  // c18b
packet // c19a
  // c19b
Ack { @leftPad (
    // c23
' ' )
    // c25
char[ 5 // c27
] // c28
lastPx
    // c29
, zchar[ // c31
4 // c32
] // c33a
  // c33b
count , // c35a
  // c35b
repeat InVenue30 // c37a
  // c37b
{ char[ // c39a
  // c39b
9 // c40a
  // c40b
] // c41a
  // c41b
Side2 // c42a
  // c42b
, char[ // c44
12 // c45a
  // c45b
] venue
    // c47
, // c48
} // c49a
  // c49b
,
    // c50
} // c51a
  // c51b
packet // c52
Order
    // c53
{ // c54a
  // c54b
int16 Note , // c57a
  // c57b
repeat // c58
InAcct28
    // c59
{ // c60
InSym3 // c61a
  // c61b
{ // c62
Ack // c63a
  // c63b
,
    // c64
char[ // c65a
  // c65b
4 // c66
] // c67
lastPx // c68
, char[
    // c70
1 // c71a
  // c71b
] venue , // c74
f32 // c75a
  // c75b
Ref // c76
, // c77
} , repeat // c80
InTag729 {
    // c82
char[
    // c83
3 // c84a
  // c84b
] // c85a
  // c85b
Side2
    // c86
,
    // c87
uint64
    // c88
Acct // c89a
  // c89b
, // c90a
  // c90b
char[] // c91a
  // c91b
price // c92
, zchar[ // c94a
  // c94b
9 ] Note // c97
,
    // c98
zchar[ 9 // c100
] // c101
venue // c102
,
    // c103
} // c104a
  // c104b
, char[] // c106a
  // c106b
count // c107a
  // c107b
, // c108a
  // c108b
Ack
    // c109
,
    // c110
char[] // c111
Px // c112a
  // c112b
, // c113
} , // c115a
  // c115b
u8 // c116a
  // c116b
f1
    // c117
,
    // c118
Ack // c119
, // c120a
  // c120b
} // c121a
  // c121b
packet // c122a
  // c122b
Fill // c123a
  // c123b
{ zchar[ // c125a
  // c125b
7 ]
    // c127
x
    // c128
, // c129a
  // c129b
Order // c130
, // c131a
  // c131b
@leftPad (
    // c133
' ' // c134
) char[ 9
    // c137
] // c138a
  // c138b
venue // c139a
  // c139b
,
    // c140
string // c141a
  // c141b
count
    // c142
, char[] // c144
Flags , // c146a
  // c146b
} // c147
packet Logon
    // c149
{ // c150
} // c151a
  // c151b
packet
    // c152
Reject { Order ,
    // c156
char[] // c157a
  // c157b
sym , // c159a
  // c159b
} // c160
root // c161a
  // c161b
packet Quote // c163a
  // c163b
{ string // c165a
  // c165b
price ,
    // c167
i64 // c168
Flags , // c170a
  // c170b
repeat Fill // c172a
  // c172b
, // c173
zchar[ // c174
9
    // c175
] // c176
x , // c178
f32 // c179a
  // c179b
lastPx // c180a
  // c180b
, // c181a
  // c181b
repeat // c182a
  // c182b
Ack // c183a
  // c183b
,
    // c184
}
    // c185
")).
Eval vm_compute in ("<<<M309>>>" ++ check (runes_of_ascii "
MetaData Logon{zchar[ 7
    ] BodyLength , char Header ,
    // @lengthOf(
    int8
    x_y_z// @lengthOf(
`u8 x,`
, i32 falsey , //
int16 lengthOf`two words`
, } root packet options1 { repeat	A BodyLength
,
metadata { u64 calculatedFrom `` , } ,
body { i16
    matchKey ,	uint16
packetx
    `// not a comment` ,
a1 // 50% %s
`` ,repeat packetx
    // " ++ [27880; 37322]%N ++ runes_of_ascii "
    ,
}  , body	u8x `a\`	, @tag(
10
    ) @tag(00 )
    // c
    @rightPad('\x00' ) repeat tag { i16 u
    `" ++ [233]%N ++ runes_of_ascii "`, }
,
// a // b
// c
@lengthOf(u )@calculatedFrom( """ ++ [128512]%N ++ runes_of_ascii """ ) i16 falsey  ,
    f32a	@lengthOf(
uint8x )
    `it's`, asx
    @lengthOf(// 50% %s
Header )`two words` ,
    // `tick` ""quote"" 'q'
    @lengthOf( A//
)@lengthOf( int ) @calculatedFrom(
    ""1"")
    char[] uint8x , x_y_z @lengthOf( Foo)
`crlf
line` ,
    } packet// @lengthOf(
stringy{ repeat  string len , @calculatedFrom(
    ""{,}"" )
    repeat
    o//
{ u64 float , } ,
    match	i64_ as
    Pad
{
[ 1 ] :	roots , ""it's""
    // packet A { u8 x, }
    : // @lengthOf(
uint8x 1 :
    MetaDataX ,[255 ,
""a\""b""  , // `tick` ""quote"" 'q'
""" ++ [233]%N ++ runes_of_ascii "t" ++ [233]%N ++ runes_of_ascii """ //	t
, 65535 ,4294967296 , 7 , 0123456789
] :len
, 255 : metadata
, ""it's"" :calculatedFrom ,
    // `tick` ""quote"" 'q'
    }, @lengthOf( msg_type )
falsey @calculatedFrom( """ ++ [28040; 24687]%N ++ runes_of_ascii """
) ,	repeat char[] trueish , zchar[ 1 ]A ,// `tick` ""quote"" 'q'
repeat metadata {zchar[
// c
//x
7 ]	Pad  , }	,
    @tag( 3//
) i32 body
`u8 x,` , } // trailing space ")).
Eval vm_compute in ("<<<M1455>>>" ++ check (runes_of_ascii "packet x {
}

options {
    Packet = string
    Packet = ' '
    zchar = false;
    matchKey = false
}

packet f32a {
    int64 options1 @calculatedFrom(""packet"") `// not a comment`,
    Z9_ {
        charz {
            match BodyLength as trueish {
                ""\" ++ [233]%N ++ runes_of_ascii """ : charz,
                65535 : roots,
                [4294967296, ""a\""b"", ""abc""] : f32a,
                ""\" ++ [233]%N ++ runes_of_ascii """ : int,
                // packet A { u8 x, }
                ""x y"" : u8x,
            },
            repeat int8 u,
            repeat _x {
                msg_type `100% of %d`,
                metadata `crlf
                line`,
                f32 roots,
                char[] f32a @lengthOf(Pad),// c
            },
        },
    },
    match T as calculatedFrom {
        [0, """ ++ [128512]%N ++ runes_of_ascii """] : Pad,
        // packet A { u8 x, }
        [
            """", ""x y"", """ ++ [233]%N ++ runes_of_ascii "t" ++ [233]%N ++ runes_of_ascii """, ""a\""b"", 4294967296,
            """ ++ [28040; 24687]%N ++ runes_of_ascii """
        ] : o,
        [42] : float,
    },
    match zchar as _x {
        ""`tick`"" : packetx,
    },
    // 50% %s
    repeat As {
        int @lengthOf(msg_type),
        i64 roots `line1
        line2`,// c
        repeat u16 Packet `" ++ [233]%N ++ runes_of_ascii "`,
        f64 charz,
    },
    int32 i8i8 `say ""hi""`,
}")).
Eval vm_compute in ("<<<M1594>>>" ++ check (runes_of_ascii "  options	{ i8i8 
= 
	    // " ++ [27880; 37322]%N ++ runes_of_ascii "
float64	//
  ; pack = ""// no comment"" ;

    len

= zchar[
	42] ;
A =
    65535

    //	t
    	;

    BodyLength =

255 ; 
}root packet
uint8x
{
	@tag( 255
) @calculatedFrom(  /// triple
	""a\""b"")

@leftPad
( 
)  string i64_
, }
root
	packet	tag

{char[]  BodyLength

    , tag

    {repeat zchar[ 10
	]	roots
`" ++ [28040; 24687; 31867; 22411]%N ++ runes_of_ascii "` 
,},
    BodyLength
	{
        // `tick` ""quote"" 'q'
  repeat 
msg_type
    {
	zchar[  
      // " ++ [27880; 37322]%N ++ runes_of_ascii "
    10]

    Header
@calculatedFrom(
""`tick`"") , 
repeat chars ,  f32a@calculatedFrom(

    ""packet""

    ) 
, 
Header
	{ 
roots
	@calculatedFrom(	""" ++ [28040; 24687]%N ++ runes_of_ascii """
    )
,
}
,
}
,

match

body as  
      // `tick` ""quote"" 'q'
	calculatedFrom
{

    65535
:calculatedFrom

    00
:

    i64_	[ ""\n"" 
,
""a\""b"" 
	// c

  // a // b
  ]  
  // @lengthOf(
: 
a1
,  
  // " ++ [128512]%N ++ runes_of_ascii " emoji
  65535: charz,
    [ 3
    ,
	""" ++ [28040; 24687]%N ++ runes_of_ascii """]
    : 
_x

,

""1""

    :

    pack
	,

    } ,

} 
,float32	lengthOf
	`doc`
    , }
")).
Eval vm_compute in ("<<<M305>>>" ++ check (runes_of_ascii "options { i8i8 =
    // " ++ [27880; 37322]%N ++ runes_of_ascii "
    float64//
;
pack =
    ""// no comment"" ; len =
    zchar[ 42 ] ;A
    = 65535
    //	t
    ;
    BodyLength	= 255
;
    }
root
packet	uint8x { @tag(
255 )
    @calculatedFrom( /// triple
""a\""b"" ) @leftPad ( ) string
i64_,} root packet tag
{char[]
BodyLength , tag {	repeat zchar[10] roots`" ++ [28040; 24687; 31867; 22411]%N ++ runes_of_ascii "` ,
} , BodyLength {
    // `tick` ""quote"" 'q'
    repeat msg_type
{zchar[
    // " ++ [27880; 37322]%N ++ runes_of_ascii "
    10 ]
Header @calculatedFrom( ""`tick`"" ) , repeat chars, f32a @calculatedFrom(""packet"") , Header {roots @calculatedFrom( """ ++ [28040; 24687]%N ++ runes_of_ascii """ ) ,
}  , },match
    body as
    // `tick` ""quote"" 'q'
    calculatedFrom {
    65535 :calculatedFrom 00 :
i64_ [ ""\n"" ,""a\""b""
// c
// a // b
]
    // @lengthOf(
    :
a1 ,
    // " ++ [128512]%N ++ runes_of_ascii " emoji
    65535 : charz , [ 3
    ,
""" ++ [28040; 24687]%N ++ runes_of_ascii """ ] :
    _x	,""1""
:
    pack , },
    } , float32
    lengthOf	`doc` ,}
")).
Eval vm_compute in ("<<<M1646>>>" ++ check (runes_of_ascii "packet pack {
    char[] falsey,
    @lengthOf(zchar)
    @rightPad()
    float roots,
    @calculatedFrom(""// no comment"")
    i64 u8x,
    @lengthOf(lengthOf)
    @leftPad()
    @tag(4294967296)
    Packet,
    match uint8x as Foo {
        ""abc"" : string_,
    },
    Logon {
        repeat char[65535] matchKey `100% of %d`,
        zchar[0123456789] leftPad @calculatedFrom(""// no comment""),
        string len,
    },// @lengthOf(
    u64 body @lengthOf(string_),
    // c
    Z9_ charz `tab	here`,
    //x
}

MetaData u {
    lengthOf chars `" ++ [28040; 24687; 31867; 22411]%N ++ runes_of_ascii "`,
    char[007] options1 `100% of %d`,
    body u8x,
    float32 body `u8 x,`,
}

packet T {
}

packet i8i8 {
    string packetx,
    tag falsey,
}")).
Eval vm_compute in ("<<<M1777>>>" ++ check (runes_of_ascii "  options
    { 
LittleEndian 
=
true ;
StringPrefixLenType
	=
u32
	;ArrayPrefixLenType
=	u8  ;} packet
Heartbeat{	string msgKind
    , }packet
    Logon{repeat Heartbeat, 
repeat string  Px,	uint8
Tail ,
char[]  f1, }
    packet Cancel	{

zchar[4 ]
OrderId	, Logon
,repeat	InMsgkind98 {
repeat u8 tag7, repeat InFlags69
    {
char[]
Note 
,char[]  lastPx ,	char[
	11	]Ref , Logon

, },
	repeat Heartbeat

, }
    ,
    zchar[7 ]
Px

    , u32 seqNo

,

    }
    root  packet Reject
{ i16
tag7

,char[  3
    ]

Qty  ,
InRef42 {
u8 pad0,} , uint32

f1  , zchar[ 7
    ]
OrderId
    , zchar[
8

]

x

    , }

")).
Eval vm_compute in ("<<<M255>>>" ++ check (runes_of_ascii "packet
msg_type { @lengthOf(
trueish
) @calculatedFrom( //	t
""packet""
    ) @rightPad
( ) trueish
chars
    // c
    ,	}
root
packet i64_
    { } packet	charz
{// " ++ [128512]%N ++ runes_of_ascii " emoji
repeat float64 // @lengthOf(
u8x
`{ , }`
    , roots @lengthOf( BodyLength )
    ``
,	repeat string
Header
    //x
    , Z9_ @lengthOf(
    A ) ,
    @rightPad () repeat len
`" ++ [233]%N ++ runes_of_ascii "`,
    float64 Foo @lengthOf( Header  ) ,repeat char[
0 ] charz// c
`say ""hi""`, string a1 , @leftPad
    (
    '0') metadata
    { zchar[ 42 ]  i8i8
    @lengthOf( lengthOf)
,
//x
/// triple
} ,
} options	{ }
")).
Eval vm_compute in ("<<<M1947>>>" ++ check (runes_of_ascii "MetaData i8i8 {
    char[00] msg_type `say ""hi""`,
}// " ++ [128512]%N ++ runes_of_ascii " emoji

MetaData charz {
    zchar[0] options1,
}

packet MetaDataX {
    // packet A { u8 x, }
    Header u8x `// not a comment`,
    x rootA,
    @lengthOf(falsey)
    @lengthOf(i8i8)
    match MetaDataX as stringy {
        [""" ++ [128512]%N ++ runes_of_ascii """, ""a\""b""] : i64_,
    },
}

MetaData msg_type {
    string zchar `doc`,
    //
}

MetaData leftPad {
    uint8 x `crlf
    line`,
    i32 msg_type `// not a comment`,
    char[255] leftPad,// a // b
    char[] u,//	t
}")).
Eval vm_compute in ("<<<M1541>>>" ++ check (runes_of_ascii "packet body {
    @leftPad('\x00')
    @tag(42)
    @tag(65535)
    repeat tag u `a\`,
    Z9_,//	t
    @tag(10)
    //	t
    // @lengthOf(
    f32 msg_type `// not a comment`,
    int16 matchKey @calculatedFrom(""a	b"") `it's`,
}

packet T {
    zchar[7] matchKey,
    falsey @lengthOf(stringy) `crlf
        line`,
}

root packet options1 {
    @calculatedFrom(""{,}"")
    matchKey @calculatedFrom(""`tick`""),
    zchar[0] stringy @lengthOf(int),
}

packet msg_type {
}")).
Eval vm_compute in ("<<<M1135>>>" ++ check (runes_of_ascii "// top
packet // c0
_x // c1
{ // c2
match // c3
Foo // c4
as // c5
Z9_ // c6
{ // c7
""a	b"" // c8
: // c9
Pad // c10
, // c11
} // c12
, // c13
repeat // c14
x // c15
`// not a comment` // c16
, // c17
@rightPad // c18
( // c19
' ' // c20
) // c21
@calculatedFrom( // c22
""a\\"" // c23
) // c24
metadata // c25
MetaDataX // c26
, // c27
@tag( // c28
0 // c29
) // c30
Logon // c31
int // c32
`two words` // c33
, // c34
} // c35
")).
Eval vm_compute in ("<<<M1273>>>" ++ check (runes_of_ascii "// top
packet // c0
B // c1
{
    // c2
u8 a // c4
,
    // c5
} // c6a
  // c6b
root
    // c7
packet // c8a
  // c8b
P // c9a
  // c9b
{ u8 K // c12a
  // c12b
, // c13
u64 // c14a
  // c14b
L // c15
@lengthOf( // c16
Body // c17
) // c18
, match // c20a
  // c20b
K // c21
as // c22
Body { // c24a
  // c24b
1 // c25a
  // c25b
: // c26
B , // c28a
  // c28b
} , // c30a
  // c30b
} // c31a
  // c31b
")).
Eval vm_compute in ("<<<M1977>>>" ++ check (runes_of_ascii "  options
	{LittleEndian = 
true

    ;
	StringPrefixLenType 
=u16
;  ArrayPrefixLenType
    =  u16

;
	FixedStringPadFromLeft =  true;  FixedStringPadChar = '0'	;}

packet
Leg{  u16 
Flags , 
u8  price, 
}packet
Quote
{ uint16

    count,
InNote89 {repeat
    Leg, }
	,  } 
root packet Ack{	char[ 
3
]price
	,	u64

sym
,

zchar[

    1	]

    Tail ,}
")).
Eval vm_compute in ("<<<M43>>>" ++ check (runes_of_ascii "packet u {match x_y_z as
leftPad
    { 0123456789
    :	x_y_z	,},@rightPad ()
    u64 trueish ,	repeat u64 trueish
`line1
line2`	,@rightPad ( ) // a // b
char[ 255
    ]
    _x
`// not a comment`
// packet A { u8 x, }
// 50% %s
,	zchar[7]leftPad ,match chars  as
    //x
    lengthOf {1
    :o 42  : chars ,} // trailing space 
,}
")).
Eval vm_compute in ("<<<M1288>>>" ++ check (runes_of_ascii "// top
options
    // c0
{ // c1a
  // c1b
LittleEndian // c2
= // c3a
  // c3b
true ; } root // c7
packet
    // c8
P // c9a
  // c9b
{
    // c10
u16 // c11a
  // c11b
a // c12a
  // c12b
, // c13
u32 Sum // c15a
  // c15b
@calculatedFrom( // c16a
  // c16b
""CRC32""
    // c17
) // c18
, } ")).
Eval vm_compute in ("<<<M1279>>>" ++ check (runes_of_ascii "packet B // c1a
  // c1b
{
    // c2
u8 // c3
a // c4
, string // c6a
  // c6b
s , } root // c10a
  // c10b
packet
    // c11
P // c12a
  // c12b
{ // c13
u16 // c14
L @lengthOf( // c16
B // c17a
  // c17b
)
    // c18
, // c19
B , // c21
u8 t , } // c25a
  // c25b
")).
Eval vm_compute in ("<<<M432>>>" ++ check (runes_of_ascii "packet
    asx { @calculatedFrom(
""""  ) @tag( 255 )repeat repeat
// packet A { u8 x, }
// trailing space 
int16 u8x
,
@tag(
    //
    007 )
    @tag( 0
    /// triple
    ) @tag( 1) u
    @lengthOf( T ),
// `tick` ""quote"" 'q'
//x
} // " ++ [128512]%N ++ runes_of_ascii " emoji")).
Eval vm_compute in ("<<<M469>>>" ++ check (runes_of_ascii "packet
    asx { @calculatedFrom(
""""  ) @tag( 255 )repeat
// packet A { u8 x, }
// trailing space 
int16 u8x
,
@tag(
    //
    007 )
    float64 0
    /// triple
    ) @tag( 1) u
    @lengthOf( T ),
// `tick` ""quote"" 'q'
//x
} // " ++ [128512]%N ++ runes_of_ascii " emoji")).
Eval vm_compute in ("<<<M418>>>" ++ check (runes_of_ascii "packet
    asx { @calculatedFrom(
""""  ) 255 @tag( )repeat
// packet A { u8 x, }
// trailing space 
int16 u8x
,
@tag(
    //
    007 )
    @tag( 0
    /// triple
    ) @tag( 1) u
    @lengthOf( T ),
// `tick` ""quote"" 'q'
//x
} // " ++ [128512]%N ++ runes_of_ascii " emoji")).
Eval vm_compute in ("<<<M396>>>" ++ check (runes_of_ascii "packet
    asx  @calculatedFrom(
""""  ) @tag( 255 )repeat
// packet A { u8 x, }
// trailing space 
int16 u8x
,
@tag(
    //
    007 )
    @tag( 0
    /// triple
    ) @tag( 1) u
    @lengthOf( T ),
// `tick` ""quote"" 'q'
//x
} // " ++ [128512]%N ++ runes_of_ascii " emoji")).
Eval vm_compute in ("<<<M1965>>>" ++ check (runes_of_ascii "packet Sub {
    u8 a,
    @calculatedFrom(""CRC16"")
    i64 SubSum,
}

root packet Frame {
    u16 MsgType,
    u16 BodyLen @lengthOf(Body),
    Sub Body,
    string note,
    @calculatedFrom(""CRC16"")
    i64 Checksum,
    u8 tail,
}")).
Eval vm_compute in ("<<<M148>>>" ++ check (runes_of_ascii "packet zchar
    {
@lengthOf(
charz
    ) zchar @lengthOf(Header ) `
`
    , u8 calculatedFrom ,	@calculatedFrom(  ""x y""	) u128 @calculatedFrom( ""it's""  )
    ,  }options {float=	007
    uint8x =
""`tick`"" ;  }
")).
Eval vm_compute in ("<<<M202>>>" ++ check (runes_of_ascii "packet
leftPad
//
// " ++ [27880; 37322]%N ++ runes_of_ascii "
{ string_
u , match
u as crc { [ ""a\\""
    ]: f32a
// 50% %s
//
,  [ 7 ]: chars,0 : //	t
packetx// @lengthOf(
,  } ,
    @calculatedFrom(""// no comment"" )u64 tag
, }")).
Eval vm_compute in ("<<<M1552>>>" ++ check (runes_of_ascii "
MetaData u  { 
}	MetaData
o
{
	float uint8x `100% of %d`,u8x
repeatCount	,

    string_	leftPad  ,
	i32 Foo, int64 x`two words`  ,
	calculatedFrom stringy `a\`

    , }
")).
Eval vm_compute in ("<<<M722>>>" ++ check (runes_of_ascii "packet
crc
{repeat  Foo A  `u8 x,` ,	@lengthOf( uint8x ) string
matchKey @lengthOf( stringy ) ) `a\`
,
    // c
    }
MetaData chars{
leftPad
    //	t
    crc
`" ++ [233]%N ++ runes_of_ascii "`
,}")).
Eval vm_compute in ("<<<M693>>>" ++ check (runes_of_ascii "MetaData u
    { } MetaData o
{ float uint8x
`100% of %d` ,repeatCount u8x, string_ leftPad
, i32
    Foo , int64 x `two words` , calculatedFrom
stringy @x`a\` ,
}
")).
Eval vm_compute in ("<<<M599>>>" ++ check (runes_of_ascii "MetaData u
    { } MetaData o
{ float uint8x
`100% of %d` )repeatCount u8x, string_ leftPad
, i32
    Foo , int64 x `two words` , calculatedFrom
stringy `a\` ,
}
")).
Eval vm_compute in ("<<<M641>>>" ++ check (runes_of_ascii "MetaData u
    { } MetaData o
{ float uint8x
`100% of %d` ,repeatCount u8x, string_ leftPad
, i32
    Foo  int64 x `two words` , calculatedFrom
stringy `a\` ,
}
")).
Eval vm_compute in ("<<<M586>>>" ++ check (runes_of_ascii "MetaData u
    { } MetaData o
{ float 
`100% of %d` ,repeatCount u8x, string_ leftPad
, i32
    Foo , int64 x `two words` , calculatedFrom
stringy `a\` ,
}
")).
Eval vm_compute in ("<<<M1310>>>" ++ check (runes_of_ascii "packet A {
    u8 a,
}
packet B {
    u16 b,
}
root packet P {
    u8 K,
    match K as M {
        [1, 2] : A,
        3 : B,
        7 : A,
    },
}
")).
Eval vm_compute in ("<<<M1786>>>" ++ check (runes_of_ascii "packet
A {match

k
    as n	{ [
    ""a"" 
, ""bb""
	, ""c c""
	, ""d""
, ""e""
	, ""f"",

""g"" ,
""h"" ,  ""i"",
""j""
	,

    ""k""  ]
	:
B ,
2:C
	} ,
} ")).
Eval vm_compute in ("<<<M1281>>>" ++ check (runes_of_ascii "options {
    LittleEndian = true;
}
packet B {
    u8 a,
    string s,
}
root packet P {
    u16 L @lengthOf(B),
    B,
    u8 t,
}
")).
Eval vm_compute in ("<<<M85>>>" ++ check (runes_of_ascii "
MetaData metadata
{
u64 charz	`crlf
line`  , int64 options1	, } options
{ tag = ""CRC32""
    // " ++ [27880; 37322]%N ++ runes_of_ascii "
    ; u8x
    ='\x00' }")).
Eval vm_compute in ("<<<M983>>>" ++ check (runes_of_ascii "packet A {
    match k as n {
        ""x\
y"" : B,
        [""x\
y"", 1] : C,
        [1,2,3,4,5,""x\
y""] : D,
    },
}")).
Eval vm_compute in ("<<<M1222>>>" ++ check (runes_of_ascii "options { } options { MetaDataX = char ; }
// c
MetaData Pad { i8 metadata , string stringy , int8 As `{ , }` , }")).
Eval vm_compute in ("<<<M891>>>" ++ check (runes_of_ascii "packet A {
  match k as n {
    [""a"", ""bb"", ""c c"", ""d"", ""e"", ""f"", ""g"", ""h"", ""i"", ""j"", ""k""] : B,
    2 : C
  },
}")).
Eval vm_compute in ("<<<M179>>>" ++ check (runes_of_ascii "packet MetaDataX//	t
{ chars @lengthOf(  lengthOf
    ) `" ++ [233]%N ++ runes_of_ascii "`,
repeat int64 o	,
    }	MetaData matchKey { }")).
Eval vm_compute in ("<<<M1798>>>" ++ check (runes_of_ascii "packet  A
{

    match 
k
as n	{

    [	""a""
,

    22 , ""c c""  , 4 
]	: 
B , 
2  :
	C} ,
}

")).
Eval vm_compute in ("<<<M223>>>" ++ check (runes_of_ascii "// trailing space 
packet tag	{
//
// 50% %s
@calculatedFrom(
""abc""
)char[ 0] crc
`u8 x,`
, }
")).
Eval vm_compute in ("<<<M839>>>" ++ check (runes_of_ascii "packet A {
  match k as n {
    [""a"", ""bb"", ""c c"", ""d"", ""e"", ""f"", ""g""] : B,
    2 : C
  },
}")).
Eval vm_compute in ("<<<M178>>>" ++ check (runes_of_ascii "packet trueish { @leftPad (
' ' )
@lengthOf( A
)// c
@lengthOf(
A )string
msg_type
,}
")).
Eval vm_compute in ("<<<M1478>>>" ++ check (runes_of_ascii "packet A {
    match k as n {
        [1, 22, ""c c"", 4] : B,
        2 : C,
    },
}")).
Eval vm_compute in ("<<<M1284>>>" ++ check (runes_of_ascii "options {
    FixedStringPadFromLeft = true;
}
root packet P {
    char[4] z,
}
")).
Eval vm_compute in ("<<<M769>>>" ++ check (runes_of_ascii "'\x00' , root ] match int64 repeat } ] `line1
line2` @tag( @calculatedFrom(")).
Eval vm_compute in ("<<<M10>>>" ++ check (runes_of_ascii "
options {
string_ =
char[
    7 ] ; trueish	= false ; crc=
char[] ;}")).
Eval vm_compute in ("<<<M1106>>>" ++ check (runes_of_ascii "packet A { match k as n { [ // a
 1 // b
 , // c
 2 ] // d
 : B }, }")).
Eval vm_compute in ("<<<M1900>>>" ++ check (runes_of_ascii "
root
packet 
P

    {
	hdr {u8

a, } 
,
u8 
x

    ,  } ")).
Eval vm_compute in ("<<<M774>>>" ++ check (runes_of_ascii "packet A {
  match k as n {
    [""a""] : B
    2 : C
  },
}")).
Eval vm_compute in ("<<<M1754>>>" ++ check (runes_of_ascii "
options 
{

    a	=	1 	 // c

  b = 2;// d
    }
")).
Eval vm_compute in ("<<<M425>>>" ++ check (runes_of_ascii "packet
    asx { @calculatedFrom(
""""  ) @tag(")).
Eval vm_compute in ("<<<M420>>>" ++ check (runes_of_ascii "packet
    asx { @calculatedFrom(
""""  )")).
Eval vm_compute in ("<<<M1932>>>" ++ check (runes_of_ascii "packet A {
    u8 x `a
    
    b`,
}")).
Eval vm_compute in ("<<<M1419>>>" ++ check (runes_of_ascii "options {
    A = ""// no comment""
}")).
Eval vm_compute in ("<<<M1474>>>" ++ check (runes_of_ascii "  packet

A{ 
} 
        // c" ++ [8232]%N ++ runes_of_ascii "
")).
Eval vm_compute in ("<<<M1067>>>" ++ check (runes_of_ascii "packet A {
 u8 x `d" ++ [8203]%N ++ runes_of_ascii "`, // c" ++ [8203]%N ++ runes_of_ascii "
}")).
Eval vm_compute in ("<<<M927>>>" ++ check (runes_of_ascii "packet A {
    u8 x `
`,
}")).
Eval vm_compute in ("<<<M1149>>>" ++ check (runes_of_ascii "root packet a1 { // c
}")).
Eval vm_compute in ("<<<M1060>>>" ++ check (runes_of_ascii "packet A {
}
// c 	")).
Eval vm_compute in ("<<<M1058>>>" ++ check (runes_of_ascii "packet A {
}// c 	")).
Eval vm_compute in ("<<<M1073>>>" ++ check (runes_of_ascii "packet A {
}// c" ++ [6158]%N)).
Eval vm_compute in ("<<<M350>>>" ++ check (runes_of_ascii "options { }
")).
Eval vm_compute in ("<<<M1044>>>" ++ check (runes_of_ascii "// c" ++ [8287]%N)).
