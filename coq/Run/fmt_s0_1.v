From FP Require Import Lexer Parser ShowPT Digest Formatter.
From Coq Require Import String List NArith.
Import ListNotations.
Open Scope string_scope.
Set Printing Width 100000000.
Set Printing Depth 100000000.
Definition show_fres (r : fres) : string :=
  match r with
  | FOk s => "OK:" ++ sh_escaped s ""
  | FErr s => "ERR:" ++ sh_escaped s ""
  | FPanic p => "PANIC:" ++ p
  end.
Definition check (rs : list rune) : string := digest (show_fres (format_res rs)).
Definition full (rs : list rune) : string := show_fres (format_res rs).
Eval vm_compute in ("<<<M1885>>>" ++ check (runes_of_ascii "options

{

    // c1
	FixedStringPadFromLeft  // c2
  =// c3
  true 
	    // c4
    ;
	// c5
  	FixedStringPadChar // c6
=  
  // c7
      '0'// c8
  ;	// c9
  }

    packet
    Leg
{ 	 // c13a
    	// c13b

InPrice0 

// c14
	{	// c15
    repeat
    // c16

string  // c17a

// c17b
    	clOrdID 	 // c18
	,
// c19
	int16 // c20a
    // c20b
      msgKind	, 
      // c22
	zchar[ 
        // c23

  5  // c24
	] // c25

	Px // c26a
      // c26b
, // c27a
	  // c27b
    } 	 // c28a

	// c28b
	, 
  // c29
i16 // c30
      f1
// c31
      ,
// c32
  repeat// c33a

	// c33b
		f64 // c34a
	  // c34b
  Side2 
// c35
  	, 
  // c36

	string // c37
  Acct  // c38
    , 
// c39
}
packet 	 // c41a

// c41b
Cancel 	 // c42
    { 
  // c43
	zchar[ 	 // c44a
	// c44b
	  4 // c45
  	]	// c46a
  // c46b
clOrdID , // c48a
	// c48b
    string
    // c49
  seqNo // c50
	  ,  // c51
Leg
	// c52
	, 
	    // c53
  @leftPad	// c54
	(

    // c55

  '0' 
	// c56
)// c57
  char[
        // c58
11 	 // c59

] OrderId // c61
    ,  // c62
}  // c63a
	// c63b
	packet 
    // c64
    Quote  // c65a
      // c65b
{ 

// c66
  repeat// c67a

  // c67b
char[ // c68
      4 ]
	// c70
  sym	,
    f64	// c73a

  // c73b

OrderId 
        // c74

	, repeat	Leg// c77
,  
      // c78

  repeat	// c79a

// c79b
i64
	f1 
	    // c81
,

    int16 // c83
		Note// c84
    ,// c85
zchar[	// c86a
// c86b
	3 ] // c88

count  // c89a
	// c89b
  , // c90

}

    // c91
    root packet// c93
	Ack 

// c94
  {// c95
@leftPad  // c96
		( 

// c97
		' '  
      // c98
)  
  // c99
	char[ 10  // c101

]	// c102a
  // c102b

sym 
  // c103
    , 
        // c104

InPx60// c105

	{
Cancel  // c107
, // c108a

	// c108b
repeat
    char[ 
1 

// c111
    ] 	 // c112a
  // c112b

f1 , // c114a
    	// c114b
    string	// c115a
	  // c115b
    Tail
,	// c117
    repeat 
// c118
InNote55
	{ 
  // c120
	int8	// c121

count
// c122
    , // c123a
  	// c123b
	f64// c124
      f1  // c125
  ,  repeat 	 // c127a
  // c127b
    Cancel  // c128
    	,
	// c129
      } // c130
  ,
char[] // c132
	tag7
,// c134a
// c134b
  repeat	// c135a
// c135b
    	string
msgKind , // c138a
  	// c138b
  }  // c139a
  	// c139b
    ,  // c140
  u8 
	    // c141
  lastPx// c142
    	,  // c143
match
    lastPx  
      // c145
      as  // c146a
		// c146b
    	Body	// c147
{// c148a

  // c148b
152// c149
	:  // c150a
    // c150b
Quote

,
173: 
    // c154
  Cancel// c155

	, 
    // c156
	  4 
	// c157
	:Leg
, 	 // c160a
// c160b
  }, // c162a
// c162b
	u16 
Ref  
  // c164

  @calculatedFrom( 	 // c165
    ""CRC32"" )	// c167a
// c167b
      ,
} 	 // c169
 
")).
Eval vm_compute in ("<<<M213>>>" ++ check (runes_of_ascii "
packet body
{@tag(
    3 ) i16 options1 ,  repeat string
body ,
@calculatedFrom( // trailing space 
""a\""b""
) x_y_z @calculatedFrom(
""a\\"") `it's` , match o as BodyLength
{ 00
:
pack,
1 : u	,
[255,255,""// no comment"" ]
    : Packet	[ 65535 ] :  i64_ , }
// @lengthOf(
//
,// a // b
@calculatedFrom( // c
""" ++ [233]%N ++ runes_of_ascii "t" ++ [233]%N ++ runes_of_ascii """ ) string// `tick` ""quote"" 'q'
len `tab	here`,
    @tag( 0123456789
) repeat
    //	t
    matchKey A `a\`,
    i8i8 Packet , stringy @calculatedFrom( ""x y"" ) ,f32a As
`crlf
line` ,u128{ repeat
    int  {
    repeat
    zchar[255 ] a1`{ , }`
,
// a // b
// a // b
match calculatedFrom as body//	t
{
    0 // " ++ [27880; 37322]%N ++ runes_of_ascii "
:body	42
    // c
    :tag // @lengthOf(
, ""1""	:packetx , ""it's"":  roots,}, i32 u @calculatedFrom(// " ++ [128512]%N ++ runes_of_ascii " emoji
""a\\"" ) ,
}	,
string_`crlf
line`, _x  , repeat lengthOf crc ,	}, // " ++ [27880; 37322]%N ++ runes_of_ascii "
}
MetaData rootA {
uint8	tag , string	Z9_ `u8 x,` ,
    f64 float ,
    Logon
falsey`a\`
, } packet len{  char[] u	`// not a comment`, char[] Header
`// not a comment`	, string charz
// a // b
/// triple
`tab	here` ,
    //
    @leftPad
    // packet A { u8 x, }
    ( )@lengthOf(
a1)
// " ++ [128512]%N ++ runes_of_ascii " emoji
//x
len
crc, @leftPad ( ' ' )Packet @calculatedFrom(""" ++ [128512]%N ++ runes_of_ascii """ ) , repeat uint8 a1
, match
    T as As { ""packet"": Logon , [	""" ++ [128512]%N ++ runes_of_ascii """
    , 0 ]
: i64_ , [ ""packet"" , 7
    ]
    : string_ ,
} , repeat//
zchar[
007 ] zchar `{ , }` ,
    }
")).
Eval vm_compute in ("<<<M1874>>>" ++ check (runes_of_ascii "root packet 
roots
{// `tick` ""quote"" 'q'
}
options { asx=
""\n""
    ;
x_y_z=
3	; rootA =
""CRC32"" ;

    float

=
	char
    T= false ;
    } packet  falsey{

    body
{	match
    u8x	as	/// triple
string_

    {  [
42,

    7

, 65535 ,  3 
,
	42

    , 
7
	, ""1""
    ,
""packet"" ]  : 
	    // `tick` ""quote"" 'q'
    	i64_

, 
[""abc""] : Foo ,
""a\\""	:

    roots

    ,4294967296
    : stringy } 
, //x
  asx`{ , }` 	 // " ++ [128512]%N ++ runes_of_ascii " emoji
    , i8
charz
    @lengthOf(	// trailing space 
    x_y_z)// trailing space 
  `a\` ,

} 
  // @lengthOf(
    , @tag(65535
)
i64_
	@lengthOf( tag
) 
`u8 x,` 

// a // b

  //	t
	,
Z9_
@lengthOf(  int) ,
    @calculatedFrom(

""a\""b""
    ) uint16
stringy @lengthOf( 
trueish) 
, Logon {
string Logon`say ""hi""`  ,

    packetx i64_

    , match	msg_type

    as
	float
{ ""\n""  :
i64_,
    [  """ ++ [128512]%N ++ runes_of_ascii """ ] :
	metadata ,  // `tick` ""quote"" 'q'

[  
  // trailing space 

	// " ++ [128512]%N ++ runes_of_ascii " emoji
  10

,
    ""1""
]
	:
zchar , }
	, //x
	}

    //x
	, Packet  @calculatedFrom( 
""CRC32""

    )
,
    }

")).
Eval vm_compute in ("<<<M1309>>>" ++ check (runes_of_ascii "// top
packet // c0a
  // c0b
A { // c2
u8 // c3a
  // c3b
a , // c5
} // c6a
  // c6b
packet // c7a
  // c7b
B {
    // c9
u16 b // c11
, } // c13a
  // c13b
packet // c14
C
    // c15
{
    // c16
u32
    // c17
c // c18
, // c19a
  // c19b
}
    // c20
root packet // c22a
  // c22b
M // c23
{ u16 Kc
    // c26
,
    // c27
u16 // c28a
  // c28b
Kb , // c30
u16 Ka
    // c32
, match // c34a
  // c34b
Kc // c35
as X
    // c37
{
    // c38
9 // c39
:
    // c40
A
    // c41
, 10 :
    // c44
B
    // c45
,
    // c46
} , match
    // c49
Kb // c50
as // c51a
  // c51b
Y // c52
{ 2 // c54a
  // c54b
:
    // c55
C , // c57
1 // c58
: A , // c61a
  // c61b
} // c62
, // c63a
  // c63b
match
    // c64
Ka as // c66
Z // c67
{
    // c68
1 // c69a
  // c69b
: B // c71a
  // c71b
, // c72
} // c73a
  // c73b
, // c74
A // c75a
  // c75b
, // c76
B
    // c77
,
    // c78
C , // c80
} ")).
Eval vm_compute in ("<<<M371>>>" ++ check (runes_of_ascii "root
    packet
packetx
    {
    @tag( 0) char[00 ] Z9_
    ,
    // a // b
    falsey
    // c
    { match
    x as options1 { [//	t
42 ,
    007 ]:
    uint8x } , uint8 falsey `crlf
line` , }
, f64 Pad
, @tag(7  ) string Logon// " ++ [27880; 37322]%N ++ runes_of_ascii "
`a\`, @lengthOf(
lengthOf//	t
) char[
3
    ]
// " ++ [27880; 37322]%N ++ runes_of_ascii "
//
calculatedFrom @calculatedFrom(
""" ++ [28040; 24687]%N ++ runes_of_ascii """
)
, char[]
    T , //x
@tag(
42 ) @leftPad ( )
    char[]trueish
@calculatedFrom(""`tick`"" ) ,match
    // `tick` ""quote"" 'q'
    uint8x as pack { [
    ""abc"",
    ""1"" ,""packet""
,
// `tick` ""quote"" 'q'
// `tick` ""quote"" 'q'
1,
    ""a\""b""]: As	, """ ++ [28040; 24687]%N ++ runes_of_ascii """ :
    trueish ,} ,
}
packet/// triple
charz
{
    repeat
Z9_ { Pad  {match len as string_{
    // a // b
    4294967296
    : msg_type , [""// no comment""
    ] :u
    ,
} ,} , zchar[
    65535
] As  @lengthOf(//x
string_
)
,
} ,
    }")).
Eval vm_compute in ("<<<M90>>>" ++ check (runes_of_ascii "root packet lengthOf
{ // a // b
match i64_  as options1{	""// no comment"":
    // packet A { u8 x, }
    f32a
    // @lengthOf(
    , 65535 :
    falsey, } ,  @tag(
0
)  char[]
    body
@lengthOf(  lengthOf ) ,	u64 string_ `it's`,@lengthOf( string_ // packet A { u8 x, }
)crc {repeat
zchar[ 3
] u	,	pack // packet A { u8 x, }
`a\`// trailing space 
,char[] crc `` , } //x
,int16 // packet A { u8 x, }
metadata `line1
line2`, }root	packet //	t
leftPad
{ repeat	zchar[
4294967296 //x
] MetaDataX
    ,@tag( 10 // `tick` ""quote"" 'q'
) match  tag as falsey
{ 7:
    BodyLength
, 0 : i64_ ,} , repeat char[ 255
    // @lengthOf(
    ] A
,
char[ 7]
trueish @calculatedFrom(	""a\\"" ) `two words`
// " ++ [128512]%N ++ runes_of_ascii " emoji
//	t
, i16
Logon, }
")).
Eval vm_compute in ("<<<M216>>>" ++ check (runes_of_ascii "// " ++ [27880; 37322]%N ++ runes_of_ascii "
packet chars {match
charz
as
    // trailing space 
    A // trailing space 
{0123456789: rootA ,
    42
:
    x , ""1"" :Logon , 7 :u , ""\n"" : packetx , }, char[]MetaDataX
@calculatedFrom(""""
) `" ++ [233]%N ++ runes_of_ascii "`
    // trailing space 
    ,	@leftPad( ' ' )  char[] Foo,
    crc , f64 string_ , // " ++ [128512]%N ++ runes_of_ascii " emoji
char[]
packetx,i64 u8x@lengthOf(  stringy ) `// not a comment`, repeat zchar {
repeat
A _x , lengthOf	@lengthOf( u8x
) ,	match A as matchKey { 3 :Z9_ , ""// no comment"": As 00 //x
:
i64_ ,
// a // b
// " ++ [128512]%N ++ runes_of_ascii " emoji
""a\\""  :i64_ , [ ""`tick`""/// triple
] : T ,
    }
,
// a // b
// packet A { u8 x, }
uint32 T
`" ++ [28040; 24687; 31867; 22411]%N ++ runes_of_ascii "`
    , }
    , uint64
    /// triple
    charz
, }")).
Eval vm_compute in ("<<<M1294>>>" ++ check (runes_of_ascii "// top
packet // c0a
  // c0b
A // c1
{
    // c2
u8
    // c3
a // c4a
  // c4b
, } // c6a
  // c6b
packet // c7a
  // c7b
B // c8a
  // c8b
{ u16 // c10
b // c11a
  // c11b
,
    // c12
}
    // c13
root // c14
packet P // c16
{ // c17a
  // c17b
u8 K1 // c19
, // c20
u8 // c21a
  // c21b
K2 // c22a
  // c22b
, // c23a
  // c23b
match // c24a
  // c24b
K1 as
    // c26
M1 // c27a
  // c27b
{ // c28a
  // c28b
1
    // c29
:
    // c30
A // c31
, // c32a
  // c32b
} , match K2
    // c36
as
    // c37
M2 // c38
{ 1 : // c41a
  // c41b
B
    // c42
, } ,
    // c45
} // c46
")).
Eval vm_compute in ("<<<M1678>>>" ++ check (runes_of_ascii "// top
packet P1 {
    // c2
    u8 a,
}// c6

packet P2 {
    // c9a
    // c9b
    P1,
}// c12a

// c12b
packet P3 {
    // c15
    P2,// c17
    P1,// c19
}// c20a

// c20b
packet P4 {
    // c23
    repeat P3,
    P2,
}

root packet P5 {
    // c33
    P4,
    // c35
    P3,
    P1,
    // c39
    u8 K,// c42
    match K as Body {
        // c47a
        // c47b
        4 : P4,
        // c51
        3 : P3,
        // c55a
        // c55b
        2 : P2,
        // c59
        1 : P1,
        // c63a
    },
}")).
Eval vm_compute in ("<<<M33>>>" ++ check (runes_of_ascii "packet
int {zchar[ 007 ] metadata ,i16	matchKey,
@rightPad('0')
@lengthOf(
    metadata) repeat zchar[
    10 ]
//
// " ++ [128512]%N ++ runes_of_ascii " emoji
charz
    // trailing space 
    ,	} packet int { @tag( 65535 )
u32 x @calculatedFrom(
    ""x y""// " ++ [27880; 37322]%N ++ runes_of_ascii "
),match pack as MetaDataX
{
    [	""abc"" ,
    // " ++ [27880; 37322]%N ++ runes_of_ascii "
    0123456789 , ""`tick`"" ] :
body}	, @lengthOf( zchar ) match leftPad as u8x{
    10:  u8x ,
[
007
    // " ++ [128512]%N ++ runes_of_ascii " emoji
    , 255
    ]
    :
    chars	"""" :
    body ,42 : trueish , }, }")).
Eval vm_compute in ("<<<M1856>>>" ++ check (runes_of_ascii "packet int {
    zchar[007] metadata,
    i16 matchKey,
    @rightPad('0')
    @lengthOf(metadata)
    repeat zchar[10] charz,
}

packet int {
    @tag(65535)
    u32 x @calculatedFrom(""x y""),
    match pack as MetaDataX {
        [0123456789, ""abc"", ""`tick`""] : body,
    },
    @lengthOf(zchar)
    match leftPad as u8x {
        10 : u8x,
        [007, 255] : chars,
        """" : body,
        42 : trueish,
    },
}")).
Eval vm_compute in ("<<<M1510>>>" ++ check (runes_of_ascii "
// top
  packet  
  // c0
	  B
    // c1
    {  // c2
  u8 
    // c3
  a // c4
    ,
string  // c6
    s
        // c7
  ,

    }root// c10
  packet 
// c11
	P  // c12a
	// c12b
{ 
// c13

u16 

    // c14

L // c15a
		// c15b

@lengthOf(
    B 
        // c17
    ) 

    // c18
	,
// c19
	B

    // c20
	,
	u8  // c22a
	// c22b
t 
    // c23
		, 	 // c24
	}
")).
Eval vm_compute in ("<<<M248>>>" ++ check (runes_of_ascii "packet a1
    { char[]	charz @calculatedFrom(
    //x
    """ ++ [28040; 24687]%N ++ runes_of_ascii """)
,
    uint8x`crlf
line`
    , uint64 T  `line1
line2` ,
    @leftPad (
'0')
// a // b
/// triple
@calculatedFrom( ""abc"" )
@tag( 3 ) match
int // a // b
as len
{ 0	:  chars, [ 10, ""a\\"",
1 ,0 ,10 , 0
    ] : body, 007 :
    // a // b
    rootA // a // b
, } , falsey options1 , }
")).
Eval vm_compute in ("<<<M12>>>" ++ check (runes_of_ascii "options {falsey =int64; u8x = uint32	uint8x =// " ++ [128512]%N ++ runes_of_ascii " emoji
zchar[ 1
]
// @lengthOf(
/// triple
; leftPad =
    ""a	b"";
    calculatedFrom
=
    false ;	}
MetaData Packet
{  zchar[
7]  As ,} root packet	pack {
@leftPad ( )	@tag(// trailing space 
7 ) zchar[ 3 ] u	@lengthOf(
// @lengthOf(
// trailing space 
x ),
}
")).
Eval vm_compute in ("<<<M1743>>>" ++ check (runes_of_ascii "
packet
len { // trailing space 
    repeat
zchar
	f32a`// not a comment`, @tag( 255 ) 
repeat

    Pad
    {x
	T ,

    }
, 
@calculatedFrom(

""{,}"")	repeat 
	    // a // b
leftPad	{ u64 u8x
`tab	here` , o  Packet  ,
	char[] 
chars
	,

    }
,
	@tag(	3
)float64
i8i8 , 
}")).
Eval vm_compute in ("<<<M1372>>>" ++ check (runes_of_ascii "
options  {
    LittleEndian
= true
;
}packet
	Logon{ 
u8
	x	, 
string  user, }packet  Logout	{

u16  reason, } 
packet	Empty  {} root packet
    Frame
{	u16
MsgType
,  u8 BodyLen 
@lengthOf( Body )	, u8
	flags, 
Logon

Body ,
    u32	trailer
	, } ")).
Eval vm_compute in ("<<<M183>>>" ++ check (runes_of_ascii "root
packet tag {
@calculatedFrom(
""{,}""
    // `tick` ""quote"" 'q'
    )
@tag(
//x
// " ++ [27880; 37322]%N ++ runes_of_ascii "
42
    )
    i64_ @lengthOf( calculatedFrom ) , zchar[// " ++ [128512]%N ++ runes_of_ascii " emoji
3 // @lengthOf(
] int  , } root// c
packet Foo { }
// @lengthOf(
")).
Eval vm_compute in ("<<<M265>>>" ++ check (runes_of_ascii "MetaData
    zchar
{
uint8 _x
// `tick` ""quote"" 'q'
//
`doc` ,
    float64 metadata`doc` // " ++ [128512]%N ++ runes_of_ascii " emoji
, zchar[ 42
    ]
// packet A { u8 x, }
// c
x_y_z , zchar[ 3 ]Logon `{ , }`
, }

")).
Eval vm_compute in ("<<<M1890>>>" ++ check (runes_of_ascii "packet A {
    match k as n {
        [
            22, 4, 66, 8, 10,
            ""a"", ""c c"", ""e"", ""g"", ""i"",
            ""k""
        ] : B,
        2 : C,
    },
}")).
Eval vm_compute in ("<<<M1648>>>" ++ check (runes_of_ascii "packet A {
    Inner {
        u8 x `a
            b
          c`,
        Deep {
            u8 y `a
                b
              c`,
        },
    },
}")).
Eval vm_compute in ("<<<M1515>>>" ++ check (runes_of_ascii "// @lengthOf(
packet i8i8 {
    u128 o,
}

options {
    MetaDataX = true;
    BodyLength = ""packet""
    x_y_z = 007
    crc = ""abc""
    msg_type = i16
}")).
Eval vm_compute in ("<<<M1775>>>" ++ check (runes_of_ascii "packet A {
    match k as n {
        [
            1, 22, 007, 4, 5,
            66, 7, 8, 9, 10,
            11
        ] : B,
        2 : C,
    },
}")).
Eval vm_compute in ("<<<M472>>>" ++ check (runes_of_ascii "packet uint8x
{ match pack
    as msg_type	{
    0123456789 :	float
}
,
} packet //	t
a1
    } { options {packetx
    = '\x00'	; u128= ""a	b""  ; }
")).
Eval vm_compute in ("<<<M530>>>" ++ check (runes_of_ascii "packet uint8x
{ match pack
    as msg_type	{
    0123456789 :	float
}
,
} packet //	t
a1
    { } options {packetx
    = '\x00'	; u128= ""a	b""  ; 
")).
Eval vm_compute in ("<<<M1893>>>" ++ check (runes_of_ascii "  packet
	string_{ @lengthOf(

float 
)	// @lengthOf(

	BodyLength
    {
	match	uint8x
    as i64_{	0123456789

:
    As
    ,

    } 
, } , }

")).
Eval vm_compute in ("<<<M1589>>>" ++ check (runes_of_ascii "packet A {
    match k as n {
        [
            1, 007, 5, 7, 9,
            ""bb"", ""d"", ""f"", ""h"", ""j""
        ] : B,
        2 : C,
    },
}")).
Eval vm_compute in ("<<<M1564>>>" ++ check (runes_of_ascii "packet A {
    u16 len @lengthOf(body) `a
        
        b`,
    u32 crc @calculatedFrom(""CRC32"") `a
        
        b`,
    string body,
}")).
Eval vm_compute in ("<<<M1578>>>" ++ check (runes_of_ascii "packet T {
    int u,
    @calculatedFrom(""\" ++ [233]%N ++ runes_of_ascii """)
    // `tick` ""quote"" 'q'
    repeat string x_y_z,
    uint32 int `crlf
        line`,
}")).
Eval vm_compute in ("<<<M259>>>" ++ check (runes_of_ascii "  MetaData repeatCount // c
{char[
42 // " ++ [27880; 37322]%N ++ runes_of_ascii "
]
    // " ++ [128512]%N ++ runes_of_ascii " emoji
    MetaDataX ,
    // @lengthOf(
    zchar[
// " ++ [27880; 37322]%N ++ runes_of_ascii "
//x
0] asx , }
")).
Eval vm_compute in ("<<<M680>>>" ++ check (runes_of_ascii "// @lengthOf(
packet i8i8 { u128 o , }
options { MetaDataX = true;
    BodyLength =""packet"" x_y_z= 007
crc //x
= ""abc""")).
Eval vm_compute in ("<<<M1164>>>" ++ check (runes_of_ascii "MetaData leftPad { chars MetaDataX , } packet repeatCount { char[
// c
255 ] uint8x `" ++ [233]%N ++ runes_of_ascii "` , } MetaData pack { As Foo , }")).
Eval vm_compute in ("<<<M1862>>>" ++ check (runes_of_ascii "
packet
    _x

{ 
}// trailing space 
    options
	{ repeatCount
    = 42	//x
;
	Pad=  true ; x_y_z  =

65535
	; 
} ")).
Eval vm_compute in ("<<<M919>>>" ++ check (runes_of_ascii "packet A {
    u16 len @lengthOf(body) `a
b`,
    u32 crc @calculatedFrom(""CRC32"") `a
b`,
    string body,
}")).
Eval vm_compute in ("<<<M926>>>" ++ check (runes_of_ascii "packet A {
    Inner {
        u8 x `a
b`,
        Deep {
            u8 y `a
b`,
        },
    },
}")).
Eval vm_compute in ("<<<M899>>>" ++ check (runes_of_ascii "packet A {
  match k as n {
    [1, 22, ""c c"", 4, 5, ""f"", 7, 8, ""i"", 10, 11] : B,
    2 : C
  },
}")).
Eval vm_compute in ("<<<M624>>>" ++ check (runes_of_ascii "
packet
    asx {match u128 as lengthOf
{
//	t
// `tick` ""quote"" 'q'
255 : x ,
    } ,	repeat")).
Eval vm_compute in ("<<<M608>>>" ++ check (runes_of_ascii "
packet
    asx {match u128 as lengthOf
{
//	t
// `tick` ""quote"" 'q'
255 : x , ,
    } ,	}")).
Eval vm_compute in ("<<<M574>>>" ++ check (runes_of_ascii "
packet
    asx {match as u128 lengthOf
{
//	t
// `tick` ""quote"" 'q'
255 : x ,
    } ,	}")).
Eval vm_compute in ("<<<M643>>>" ++ check (runes_of_ascii "
packet
    asx {match x" ++ [178]%N ++ runes_of_ascii " as lengthOf
{
//	t
// `tick` ""quote"" 'q'
255 : x ,
    } ,	}")).
Eval vm_compute in ("<<<M567>>>" ++ check (runes_of_ascii "
packet
    asx { u128 as lengthOf
{
//	t
// `tick` ""quote"" 'q'
255 : x ,
    } ,	}")).
Eval vm_compute in ("<<<M823>>>" ++ check (runes_of_ascii "packet A {
  match k as n {
    [""a"", ""bb"", 007, ""d"", ""e""] : B,
    2 : C
  },
}")).
Eval vm_compute in ("<<<M817>>>" ++ check (runes_of_ascii "packet A {
  match k as n {
    [1, ""bb"", 007, ""d"", 5] : B,
    2 : C
  },
}")).
Eval vm_compute in ("<<<M1581>>>" ++ check (runes_of_ascii "packet  A

    {

match

k	as

n { [ 1	, 22 ]
: B , 2	:C
    }  , 
}
")).
Eval vm_compute in ("<<<M801>>>" ++ check (runes_of_ascii "packet A {
  match k as n {
    [1, 22, 007, 4] : B
    2 : C
  },
}")).
Eval vm_compute in ("<<<M1127>>>" ++ check (runes_of_ascii "// top
MetaData
    // c0
u
    // c1
{ // c2a
  // c2b
} // c3
")).
Eval vm_compute in ("<<<M779>>>" ++ check (runes_of_ascii "packet A {
  match k as n {
    [1, 22] : B
    2 : C
  },
}")).
Eval vm_compute in ("<<<M27>>>" ++ check (runes_of_ascii "options{Logon = """ ++ [28040; 24687]%N ++ runes_of_ascii """
    ; BodyLength =
    false
; }
")).
Eval vm_compute in ("<<<M1206>>>" ++ check (runes_of_ascii "packet body { i32
// c
f32a `{ , }` , } options { }")).
Eval vm_compute in ("<<<M1417>>>" ++ check (runes_of_ascii "root

    packet 
A
	{	u8
x `tab
	x` ,
    }
")).
Eval vm_compute in ("<<<M212>>>" ++ check (runes_of_ascii "packet
    MetaDataX {i16 u128`" ++ [233]%N ++ runes_of_ascii "` , //x
}")).
Eval vm_compute in ("<<<M1786>>>" ++ check (runes_of_ascii "packet 
A

{u8
x `d" ++ [11]%N ++ runes_of_ascii "` ,	// c" ++ [11]%N ++ runes_of_ascii "
  	}
")).
Eval vm_compute in ("<<<M1284>>>" ++ check (runes_of_ascii "root packet P {
    string s,
}
")).
Eval vm_compute in ("<<<M1038>>>" ++ check (runes_of_ascii "packet A {
 u8 x `d" ++ [12]%N ++ runes_of_ascii "`, // c" ++ [12]%N ++ runes_of_ascii "
}")).
Eval vm_compute in ("<<<M1930>>>" ++ check (runes_of_ascii "packet A {
    char[3] x,
}")).
Eval vm_compute in ("<<<M1112>>>" ++ check (runes_of_ascii "MetaData tag { }
// c
")).
Eval vm_compute in ("<<<M1535>>>" ++ check (runes_of_ascii "packet A{
} 
// c" ++ [8233]%N ++ runes_of_ascii "
")).
Eval vm_compute in ("<<<M1001>>>" ++ check (runes_of_ascii "packet A {
}
// c" ++ [8192]%N)).
Eval vm_compute in ("<<<M172>>>" ++ check (runes_of_ascii "packet
len { }

")).
Eval vm_compute in ("<<<M356>>>" ++ check (runes_of_ascii "packet uint8x {}")).
Eval vm_compute in ("<<<M29>>>" ++ check (runes_of_ascii "// " ++ [27880; 37322]%N ++ runes_of_ascii "

")).
Eval vm_compute in ("<<<M733>>>" ++ check (runes_of_ascii "


")).
