From FP Require Import Lexer Parser ShowPT Digest Formatter.
From Coq Require Import String List NArith.
Import ListNotations.
Open Scope string_scope.
Set Printing Width 100000000.
Set Printing Depth 100000000.
Definition show_fres (r : fres) : string :=
  match r with
  | FOk s => "OK:" ++ sh_escaped s ""
  | FErr s => "ERR:" ++ sh_escaped s ""
  | FPanic p => "PANIC:" ++ p
  end.
Definition check (rs : list rune) : string := digest (show_fres (format_res rs)).
Definition full (rs : list rune) : string := show_fres (format_res rs).
Eval vm_compute in ("<<<M1404>>>" ++ check (runes_of_ascii "  // top
	  options 

    // c0
	{ 
      // c1

	FixedStringPadFromLeft // c2a
	  // c2b
		=  // c3a
	  // c3b
    	true // c4
    ; // c5
	FixedStringPadChar 
= // c7a
	// c7b

'0'	// c8
  ; }
packet// c11
    	Leg 
{  // c13
InPrice0// c14a
	// c14b
{ 	 // c15
      repeat	string
// c17

clOrdID // c18a
    // c18b

, 
        // c19
	int16 	 // c20
msgKind
    , 
        // c22
    	zchar[ 
	    // c23
	5	// c24a
    // c24b
]// c25a
  // c25b

Px
	,}
	    // c28
	, 	 // c29a

// c29b
	i16
	    // c30
f1
// c31

  ,  
  // c32
  repeat
    // c33
f64  Side2 	 // c35a
	// c35b
	, 
// c36
string 
// c37
Acct ,  }	// c40
  	packet 
// c41
	Cancel
    {
// c43

zchar[	// c44
      4 
// c45
	] // c46a
  // c46b
    clOrdID  // c47
  ,
	// c48
string
	seqNo
    , Leg  // c52a
  // c52b
  	,// c53

  @leftPad 	 // c54a
    	// c54b

( 
	    // c55

	'0' 	 // c56a
  // c56b
		)

char[  // c58a

// c58b
    11// c59a
    	// c59b
	]OrderId// c61
,	} 

    // c63
  packet // c64
  	Quote 
    // c65
  {

// c66
	repeat 	 // c67a
    	// c67b
    char[  // c68a
	// c68b
    4 

    // c69
		]// c70a
    // c70b
	sym // c71a
// c71b
      , 

// c72
f64	// c73a
      // c73b

	OrderId  // c74
	, repeat // c76
    Leg, repeat 
    // c79
	i64 
    // c80
  f1  // c81a

	// c81b
	  , // c82
	  int16
    Note// c84a

// c84b

  ,zchar[// c86a
	  // c86b
	3
	// c87
]  count  // c89
    ,	} // c91
  root packet	// c93
	Ack
{ 	 // c95a
  // c95b
  	@leftPad// c96
  ( ' '  // c98

	) // c99a

  // c99b
char[

    10 ]	// c102a
	// c102b
sym
, InPx60	// c105
  { 
// c106
  Cancel// c107a
	// c107b
    ,	// c108a

	// c108b
repeat char[ 	 // c110
1] // c112a
// c112b

	f1 

    // c113
  , 	 // c114

  string

// c115
Tail
,
    repeat// c118
	  InNote55 

// c119
    { 
    // c120
		int8 	 // c121a
  // c121b

	count 	 // c122a

// c122b
	  ,// c123a
    	// c123b
  f64 
      // c124
    	f1 	 // c125a
		// c125b
,	// c126a
  // c126b

	repeat
	    // c127
	Cancel 
// c128
  , 
// c129
  	} 
    // c130
		,// c131

  char[] 	 // c132a

	// c132b
		tag7 , 

    // c134
	repeat
        // c135
  string	// c136

	msgKind

    ,	// c138

  }  // c139a
  // c139b

,	// c140a
  // c140b
    	u8 

// c141

lastPx , match// c144
lastPx  // c145a
  	// c145b
    as 
Body 	 // c147a
	  // c147b
    {152:// c150
    	Quote,
// c152
    173	:// c154

	Cancel// c155
,  // c156a
  	// c156b
		4 // c157
    :	// c158a
    // c158b
	Leg
	    // c159
	,
    // c160
} // c161a
	// c161b
    	, 
  // c162

  u16 Ref @calculatedFrom(
""CRC32"" )
    // c167
, // c168a
    // c168b
  	} 

// c169
 
")).
Eval vm_compute in ("<<<M383>>>" ++ check (runes_of_ascii "options {
	StringPrefixLenType = u16;
	ArrayPrefixLenType = u16;
}

packet SampleBinary {
    uint16 MsgType `" ++ [28040; 24687; 31867; 22411]%N ++ runes_of_ascii "`,
    u16 BodyLenght @lengthOf(Body) `" ++ [28040; 24687; 20307; 38271; 24230]%N ++ runes_of_ascii "`,
    match MsgType as Body {
        1 : Logon,
        2 : Logout,
        3 : Heartbeat,
        4 : RiskControlRequest,
        5 : RiskControlResponse,
    },
        @calculatedFrom(""CRC32"")
    u32 Ckecksum `" ++ [26657; 39564; 21644]%N ++ runes_of_ascii "`,
}

packet Logon {
     @leftPad('0')
    char[10] UserName `" ++ [29992; 25143; 21517]%N ++ runes_of_ascii "`,
    string Password `" ++ [23494; 30721]%N ++ runes_of_ascii "`,
    uint64 ClientId `" ++ [23458; 25143; 31471]%N ++ runes_of_ascii "ID`,
    u16 HeartbeatInterval `" ++ [24515; 36339; 38388; 38548]%N ++ runes_of_ascii "`,
}

packet Logout {
      @rightPad('0')
    char[10] UserName `" ++ [29992; 25143; 21517]%N ++ runes_of_ascii "`,
    uint64 ClientId `" ++ [23458; 25143; 31471]%N ++ runes_of_ascii "ID`,
}

packet Heartbeat {
}

packet RiskControlRequest {
    string UniqueOrderId `" ++ [21807; 19968; 35746; 21333; 21495]%N ++ runes_of_ascii "`,
    char[16] ClOrdID `" ++ [23458; 25143; 35746; 21333; 21495]%N ++ runes_of_ascii "`,
    char[3] MarketID `" ++ [24066; 22330]%N ++ runes_of_ascii "id`,
    char[12] SecurityID `" ++ [35777; 21048; 20195; 30721]%N ++ runes_of_ascii "`,
    char Side `" ++ [20080; 21334; 26041; 21521]%N ++ runes_of_ascii "`,
    char OrderType `" ++ [35746; 21333; 31867; 22411]%N ++ runes_of_ascii "`,
    u64 Price `" ++ [20215; 26684]%N ++ runes_of_ascii "`,
    u32 Qty `" ++ [25968; 37327]%N ++ runes_of_ascii "`,
    repeat string ExtraInfo `" ++ [38468; 21152; 20449; 24687]%N ++ runes_of_ascii "`,
    repeat SubOrder {
    		char[16] ClOrdID `" ++ [23376; 35746; 21333; 21495]%N ++ runes_of_ascii "`,
    		u64 Price `" ++ [23376; 35746; 21333; 20215; 26684]%N ++ runes_of_ascii "`,
    		u32 Qty `" ++ [23376; 35746; 21333; 25968; 37327]%N ++ runes_of_ascii "`,
    	},
}

packet RiskControlResponse {
    string UniqueOrderId `" ++ [21807; 19968; 35746; 21333; 21495]%N ++ runes_of_ascii "`,
    i32 Status `" ++ [29366; 24577]%N ++ runes_of_ascii "`,
    string Msg `" ++ [32467; 26524; 20449; 24687]%N ++ runes_of_ascii "`,
    repeat Detail,
}

packet Detail {
    string RuleName `" ++ [35268; 21017; 21517; 31216]%N ++ runes_of_ascii "`,
    u16 Code `" ++ [21407; 22240; 20195; 30721]%N ++ runes_of_ascii "`,
}")).
Eval vm_compute in ("<<<M331>>>" ++ check (runes_of_ascii "packet o
// trailing space 
//x
{	repeat pack stringy `two words`	,
    char[	1 ]
leftPad , }
/// triple
// @lengthOf(
MetaData msg_type{ zchar[  1] Pad`" ++ [28040; 24687; 31867; 22411]%N ++ runes_of_ascii "` , uint32 //x
charz//
`a\`
,  A u8x `// not a comment` ,
    // `tick` ""quote"" 'q'
    } packet
options1
    {@calculatedFrom( """ ++ [233]%N ++ runes_of_ascii "t" ++ [233]%N ++ runes_of_ascii """
) @rightPad( )
Pad
@lengthOf(// packet A { u8 x, }
pack ) `` ,
match
    A
as
    a1 { 255  :
msg_type  ,
}
,
// " ++ [27880; 37322]%N ++ runes_of_ascii "
//
@lengthOf( tag )  @tag( 00 )@rightPad(' '
) match Header	as f32a { """" : float , } // @lengthOf(
, char[] T@calculatedFrom(
    // packet A { u8 x, }
    ""packet""	) , repeat asx /// triple
msg_type`crlf
line` , @calculatedFrom( ""\" ++ [233]%N ++ runes_of_ascii """ ) @tag( // trailing space 
7
)
int64 o
`line1
line2`,
    // trailing space 
    } // " ++ [128512]%N ++ runes_of_ascii " emoji
root
packet// packet A { u8 x, }
crc  { int8
body
@lengthOf( matchKey ) `two words` ,
    //	t
    @lengthOf( u8x )
zchar[
0123456789
    ] i8i8,
} MetaData  a1 { falsey _x
`
` ,
char[] body`" ++ [28040; 24687; 31867; 22411]%N ++ runes_of_ascii "` ,
// packet A { u8 x, }
//
zchar[ 42] trueish `
` , float trueish,  metadata //x
o `{ , }`, }")).
Eval vm_compute in ("<<<M107>>>" ++ check (runes_of_ascii "packet falsey { i64_ ,	charz  {
match Packet  as Pad { ""\n"" :Packet
    , ""// no comment"" // " ++ [128512]%N ++ runes_of_ascii " emoji
:
f32a// `tick` ""quote"" 'q'
, [
    /// triple
    3  ,4294967296,
    10 ,//
7 , 10	]
: u
, // trailing space 
""`tick`"": u8x
,
[ 7 , ""it's"" ]:Packet, 0 : len
    //
    , }
    , }, /// triple
@lengthOf(	f32a) char[ 3 ]options1
    @lengthOf(
Pad)
, zchar[ 0123456789 ]// trailing space 
T ``
,
} packet
Pad
{
    // c
    o roots `{ , }` // " ++ [128512]%N ++ runes_of_ascii " emoji
, }packet f32a {
_x//
@calculatedFrom(	""x y"") //x
,@tag( 65535
) //	t
char pack @lengthOf( zchar  ) ,repeat //
int64 falsey  ,repeat len {match A
    as rootA {[ 42,  ""\n"" ]:
Z9_ , }
,repeat i16
A , repeat zchar[ 65535 ] tag `
` ,
f64 float
    @lengthOf( f32a ) ``  ,
// `tick` ""quote"" 'q'
// packet A { u8 x, }
} , x
    u8x
, @tag(  42	) repeat As Packet	, @lengthOf( Pad
    )repeat
    f64 rootA ,// @lengthOf(
}")).
Eval vm_compute in ("<<<M322>>>" ++ check (runes_of_ascii "packet leftPad { //
i8 stringy @calculatedFrom( """ ++ [128512]%N ++ runes_of_ascii """	) , int@calculatedFrom(
// c
// " ++ [128512]%N ++ runes_of_ascii " emoji
""a	b"" )
`it's` ,
    @leftPad () @tag( 0123456789
    )int32 u8x , @lengthOf(A )float64	u128	@calculatedFrom(
    ""a\\"" ), //x
} options { //x
Pad = 0 u =
    ' ' }MetaData
    a1 { char[]
metadata	`// not a comment`
    // @lengthOf(
    ,
}	packet
Foo { @tag(
42 )	repeat BodyLength ,
    int8 metadata`{ , }` ,@leftPad ( // c
)// " ++ [27880; 37322]%N ++ runes_of_ascii "
@calculatedFrom(//
""`tick`""
    ) @calculatedFrom(	""a	b""	) u32 stringy , @lengthOf( roots ) zchar[ 0 ] msg_type @lengthOf( i64_
)`tab	here`	,i8 Header	`{ , }`
, char[ 7
] trueish @lengthOf(	packetx
    )
, u64	charz `
`
    ,
    zchar[
//	t
// c
65535]
repeatCount
`it's`
    ,match // @lengthOf(
calculatedFrom as calculatedFrom  {""a	b""
: roots 42	: MetaDataX	,
},
}")).
Eval vm_compute in ("<<<M1689>>>" ++ check (runes_of_ascii "root packet asx {
    // `tick` ""quote"" 'q'
    f32a,
    @calculatedFrom(""abc"")
    zchar[65535] metadata `
        `,
    @calculatedFrom(""CRC32"")
    Header `doc`,
    match f32a as msg_type {
        [""\n""] : charz,
        // @lengthOf(
        0123456789 : pack,
        //x
        [
            ""packet"", """", ""`tick`"", ""CRC32"", ""\n"",
            ""it's"", ""it's"", 4294967296
        ] : charz,
        42 : leftPad,
        [
            255, 7, ""packet"", ""{,}"", ""\" ++ [233]%N ++ runes_of_ascii """,
            ""1"", ""1""
        ] : msg_type,
        [""" ++ [128512]%N ++ runes_of_ascii """] : i64_,
    },
}

packet body {
}

root packet i64_ {
    uint16 Header @calculatedFrom(""" ++ [233]%N ++ runes_of_ascii "t" ++ [233]%N ++ runes_of_ascii """) ``,
    float64 string_ @calculatedFrom(""`tick`""),
    repeat zchar[1] packetx `it's`,
}//	t")).
Eval vm_compute in ("<<<M184>>>" ++ check (runes_of_ascii "packet options1{@leftPad	( '0' )	@rightPad ( // a // b
'\x00'
) @tag(
255
) /// triple
repeat string As `
`,
@calculatedFrom(
"""" )@calculatedFrom(//x
""x y"" )
a1
{ Foo {trueish { tag
@lengthOf(  i8i8 ) `doc`
, }
, zchar[
00 ] f32a @lengthOf( calculatedFrom) , repeat
zchar[ 1
    ] stringy`{ , }`
    , },uint64  repeatCount	@lengthOf(// `tick` ""quote"" 'q'
asx
    ) , char[ 42
] lengthOf @calculatedFrom(// c
""packet""), char[ 10 ] calculatedFrom @lengthOf( BodyLength ), } ,
asx`// not a comment`,  } options { matchKey =""" ++ [128512]%N ++ runes_of_ascii """ falsey = ""a\""b"" ; A // a // b
= ""CRC32"" msg_type
    =
    //x
    """ ++ [233]%N ++ runes_of_ascii "t" ++ [233]%N ++ runes_of_ascii """	; } MetaData o//	t
{
} packet
Pad{  }")).
Eval vm_compute in ("<<<M1420>>>" ++ check (runes_of_ascii "options  { 
As = 	 // trailing space 

	zchar[
    4294967296]; } //	t
packet len// packet A { u8 x, }
    	{
@lengthOf(

    _x )

match
    // c

lengthOf	as 
	//
	// `tick` ""quote"" 'q'
  string_  // c
	{

[  4294967296
    ]  : i64_ ""a	b""	: o  ,  }
,
    leftPad@calculatedFrom( 
""`tick`"")
	    // trailing space 
    	// `tick` ""quote"" 'q'
,

@leftPad( '\x00'

    )  repeat

charz/// triple
	msg_type , repeat
	i8 Foo,
}
	packet

msg_type
    { 
    //x

// @lengthOf(

  @leftPad(  '0'  )
	u64
repeatCount @calculatedFrom( """ ++ [28040; 24687]%N ++ runes_of_ascii """), 	 // packet A { u8 x, }
  }

")).
Eval vm_compute in ("<<<M1800>>>" ++ check (runes_of_ascii "options {
    LittleEndian = true;
    // c5
}// c6a

// c6b
packet Logon {
    // c9
    u8 x,// c12
}// c13a

// c13b
packet Logout {
    u16 reason,
    // c19
}

root packet Frame {
    // c24
    u64 Kind,// c27
    u64 Kind2,
    // c30
    match Kind as Body {
        // c35a
        // c35b
        1 : Logon,
        // c39
        [2, 3, 4] : Logout,
        // c49
        100 : Logon,
        // c53
    },
    // c55
    match Kind2 as Trailer {
        // c60
        0 : Logout,
    },
    // c66
}")).
Eval vm_compute in ("<<<M33>>>" ++ check (runes_of_ascii "packet
int {zchar[ 007 ] metadata ,i16	matchKey,
@rightPad('0')
@lengthOf(
    metadata) repeat zchar[
    10 ]
//
// " ++ [128512]%N ++ runes_of_ascii " emoji
charz
    // trailing space 
    ,	} packet int { @tag( 65535 )
u32 x @calculatedFrom(
    ""x y""// " ++ [27880; 37322]%N ++ runes_of_ascii "
),match pack as MetaDataX
{
    [	""abc"" ,
    // " ++ [27880; 37322]%N ++ runes_of_ascii "
    0123456789 , ""`tick`"" ] :
body}	, @lengthOf( zchar ) match leftPad as u8x{
    10:  u8x ,
[
007
    // " ++ [128512]%N ++ runes_of_ascii " emoji
    , 255
    ]
    :
    chars	"""" :
    body ,42 : trueish , }, }")).
Eval vm_compute in ("<<<M374>>>" ++ check (runes_of_ascii "MetaData BodyLength { zchar[ 65535 ]	As `crlf
line`
, u16 charz , body len,
zchar msg_type ,uint64 metadata
,}
root packet //
matchKey
    {
repeat i8i8  `{ , }` ,
} MetaData a1 { i8i8 Pad`it's`	,
// trailing space 
// `tick` ""quote"" 'q'
int64
    // " ++ [128512]%N ++ runes_of_ascii " emoji
    roots `doc` ,
Foo BodyLength `u8 x,` , } packet	_x
{ lengthOf
    {
pack `" ++ [28040; 24687; 31867; 22411]%N ++ runes_of_ascii "` ,
string_ // @lengthOf(
, repeat //
rootA len , zchar[ 1
] u8x,} , }
")).
Eval vm_compute in ("<<<M1262>>>" ++ check (runes_of_ascii "// top
packet // c0
B // c1
{
    // c2
u8
    // c3
a , } root packet // c8a
  // c8b
P // c9a
  // c9b
{
    // c10
u8 // c11
K , // c13
u64 // c14a
  // c14b
L @lengthOf( // c16a
  // c16b
Body
    // c17
) , match // c20a
  // c20b
K as // c22a
  // c22b
Body // c23
{ // c24a
  // c24b
1 : // c26a
  // c26b
B // c27a
  // c27b
,
    // c28
} // c29
, // c30
}
    // c31
")).
Eval vm_compute in ("<<<M1794>>>" ++ check (runes_of_ascii "

  options 
{LittleEndian  =true
	;StringPrefixLenType =
	u16 ;FixedStringPadChar
= ' '
;
}
	packet
Logon 
{
@leftPad
( '0' )  char[  10

] tag7

    ,
    } root
	packet Ack
{

    int32

    Px

, uint16	count
,
    string
	Qty

, string	OrderId

,

    string  Flags  , u8	x ,

match
	x
as Body

{[

58, 169
] 
:

    Logon
	, },}
")).
Eval vm_compute in ("<<<M1567>>>" ++ check (runes_of_ascii "

  MetaData chars
    {  uint64	A
	,msg_type
asx 
// c
	,
Z9_ a1 
, 
stringy i64_ 	 //
  `doc`,	}
    packet 
    /// triple
// a // b

x_y_z{  } options
{ float  // c
  =
float32
    rootA 
=
false ;  repeatCount 	 // c
    =char[
10
    ];
}

    packet	Z9_ { zchar[ 007] 
	    //	t
charz 	 // c
, }	//x
")).
Eval vm_compute in ("<<<M1138>>>" ++ check (runes_of_ascii "// top
MetaData // c0
leftPad // c1
{ // c2
chars // c3
MetaDataX // c4
, // c5
} // c6
packet // c7
repeatCount // c8
{ // c9
char[ // c10
255 // c11
] // c12
uint8x // c13
`" ++ [233]%N ++ runes_of_ascii "` // c14
, // c15
} // c16
MetaData // c17
pack // c18
{ // c19
As // c20
Foo // c21
, // c22
} // c23
")).
Eval vm_compute in ("<<<M1253>>>" ++ check (runes_of_ascii "// top
packet // c0
Inner // c1
{ // c2
u8 // c3a
  // c3b
a // c4
,
    // c5
} // c6
root // c7
packet // c8a
  // c8b
P // c9
{ // c10a
  // c10b
repeat // c11a
  // c11b
Inner items // c13
, // c14
u8
    // c15
x , // c17a
  // c17b
} // c18
")).
Eval vm_compute in ("<<<M21>>>" ++ check (runes_of_ascii "packet  Logon //	t
{pack	_x
    ,
Z9_ i8i8  `" ++ [28040; 24687; 31867; 22411]%N ++ runes_of_ascii "`	, } options
    { tag	= 4294967296 ; As = string
    ; rootA = true ; }root packet f32a { //x
@leftPad
// " ++ [27880; 37322]%N ++ runes_of_ascii "
// c
(' ') repeat _x`" ++ [233]%N ++ runes_of_ascii "`	, @rightPad ( )i8i8 len,}

")).
Eval vm_compute in ("<<<M1334>>>" ++ check (runes_of_ascii "packet
    u128 {	u8 a 
, } root packet

    Msg {
u8 
k

    ,  u24	{

    u8
Hi 
,
u16  Lo ,
} 
, repeat

    i24 {u32	q
, 
} , u128 , u16

    float32x, string	s
	,  } ")).
Eval vm_compute in ("<<<M1640>>>" ++ check (runes_of_ascii "
packet
A 
{
	u8 a
, }	packet
	B

    {
    u16
    b
,	} root 
packet  P{ 
u8
K

, match
    K
as

    M
	{
	[
1	,2 ] 
:
	A  ,3 :
	B
,  7
    : 
A
    ,
}
	,	}")).
Eval vm_compute in ("<<<M1714>>>" ++ check (runes_of_ascii "
root
packet
	lengthOf{ @leftPad	( ' '  // c

	)

repeat char
MetaDataX

,	}
MetaData Pad  { 
msg_type
rootA 	 // trailing space 

  `// not a comment` ,	}
")).
Eval vm_compute in ("<<<M513>>>" ++ check (runes_of_ascii "packet uint8x
{ match pack
    as msg_type	{
    0123456789 :	float
}
,
} packet //	t
a1
    { } options {packetx
    = '\x00'	; float32= ""a	b""  ; }
")).
Eval vm_compute in ("<<<M482>>>" ++ check (runes_of_ascii "packet uint8x
{ match pack
    as msg_type	{
    0123456789 :	float
}
,
} packet //	t
a1
    { } { options packetx
    = '\x00'	; u128= ""a	b""  ; }
")).
Eval vm_compute in ("<<<M473>>>" ++ check (runes_of_ascii "packet uint8x
{ match pack
    as msg_type	{
    0123456789 :	float
}
,
} packet //	t
a1
    ] } options {packetx
    = '\x00'	; u128= ""a	b""  ; }
")).
Eval vm_compute in ("<<<M702>>>" ++ check (runes_of_ascii "// @lengthOf(
packet i8i8 { u128 o , }
options { MetaDataX = true;
    BodyLength =""packet"" x_y_z= 007
crc //x
= ""abc"" ""abc"" ;
    msg_type =
i16 }")).
Eval vm_compute in ("<<<M520>>>" ++ check (runes_of_ascii "packet uint8x
{ match pack
    as msg_type	{
    0123456789 :	float
}
,
} packet //	t
a1
    { } options {packetx
    = '\x00'	; u128=   ; }
")).
Eval vm_compute in ("<<<M648>>>" ++ check (runes_of_ascii "// @lengthOf(
packet i8i8 { u128 o , }
options { = MetaDataX true;
    BodyLength =""packet"" x_y_z= 007
crc //x
= ""abc"" ;
    msg_type =
i16 }")).
Eval vm_compute in ("<<<M1605>>>" ++ check (runes_of_ascii "
packet A {

    match  k	as

    n { [  1 
,  ""bb"" , 007 
,  ""d""
,
5

    ,

    ""f"",
7 , ""h""

] :
    B 
,
2
    :C  }
    , }

")).
Eval vm_compute in ("<<<M1298>>>" ++ check (runes_of_ascii "packet
A
{ 
u8 a,
}

packet
    B {

u16  b
,} 
root	packet	P
{ u8
K

,

    match	K

as M	{1
    :
A,

1	: 
B 
, }
,

    }

")).
Eval vm_compute in ("<<<M259>>>" ++ check (runes_of_ascii "  MetaData repeatCount // c
{char[
42 // " ++ [27880; 37322]%N ++ runes_of_ascii "
]
    // " ++ [128512]%N ++ runes_of_ascii " emoji
    MetaDataX ,
    // @lengthOf(
    zchar[
// " ++ [27880; 37322]%N ++ runes_of_ascii "
//x
0] asx , }
")).
Eval vm_compute in ("<<<M171>>>" ++ check (runes_of_ascii "options { Pad=	'\x00' ; u
= false  repeatCount
    = false ;// trailing space 
T
=// a // b
""CRC32"" ;
    a1 = ""it's""}
")).
Eval vm_compute in ("<<<M1163>>>" ++ check (runes_of_ascii "MetaData leftPad { chars MetaDataX , } packet repeatCount { char[ // c
255 ] uint8x `" ++ [233]%N ++ runes_of_ascii "` , } MetaData pack { As Foo , }")).
Eval vm_compute in ("<<<M1665>>>" ++ check (runes_of_ascii "  packet

A
{
    match

    k	as
n{
	[
1
,22
,	""c c""

,
4 ,

    5
,

""f"" ,
7, 8
] :
    B 2	:  C }
    , }
")).
Eval vm_compute in ("<<<M973>>>" ++ check (runes_of_ascii "packet A {
    match k as n {
        ""\
"" : B,
        [""\
"", 1] : C,
        [1,2,3,4,5,""\
""] : D,
    },
}")).
Eval vm_compute in ("<<<M1526>>>" ++ check (runes_of_ascii "

  packet
A

    { match

    k

as
	n 
{ [ ""a""

    , ""bb"" 
, ""c c"",""d""

]:

B , 2	: C },
    }")).
Eval vm_compute in ("<<<M1684>>>" ++ check (runes_of_ascii "MetaData chars {
    x_y_z x `line1
    line2`,
    _x A `// not a comment`,
}// `tick` ""quote"" 'q'")).
Eval vm_compute in ("<<<M871>>>" ++ check (runes_of_ascii "packet A {
  match k as n {
    [""a"", 22, ""c c"", 4, ""e"", 66, ""g"", 8, ""i""] : B,
    2 : C
  },
}")).
Eval vm_compute in ("<<<M1635>>>" ++ check (runes_of_ascii "packet u {
    repeat A,
    @lengthOf(lengthOf)
    repeat i64 i64_,//
    zchar[3] body,
}")).
Eval vm_compute in ("<<<M638>>>" ++ check (runes_of_ascii "
packet
    asx {match u128 as leng""thOf
{
//	t
// `tick` ""quote"" 'q'
255 : x ,
    } ,	}")).
Eval vm_compute in ("<<<M587>>>" ++ check (runes_of_ascii "
packet
    asx {match u128 as lengthOf

//	t
// `tick` ""quote"" 'q'
255 : x ,
    } ,	}")).
Eval vm_compute in ("<<<M621>>>" ++ check (runes_of_ascii "
packet
    asx {match u128 as lengthOf
{
//	t
// `tick` ""quote"" 'q'
255 : x ,
    }")).
Eval vm_compute in ("<<<M1639>>>" ++ check (runes_of_ascii "MetaData charz {
    As u128,
    Logon options1 `say ""hi""`,
    zchar[0] Logon,
}")).
Eval vm_compute in ("<<<M1897>>>" ++ check (runes_of_ascii "  packet
A{  match
k	as n	{[	1
,

22 ,
""c c"" ,
	4
,
5 
] :
	B  ,2 :

C}

, }")).
Eval vm_compute in ("<<<M1402>>>" ++ check (runes_of_ascii "packet A {
    @leftPad()
    char[4] x,
    @rightPad()
    zchar[2] y,
}")).
Eval vm_compute in ("<<<M108>>>" ++ check (runes_of_ascii "packet int {}
options {leftPad ='0' ;metadata= char[] Foo=
'0' ; }
")).
Eval vm_compute in ("<<<M1778>>>" ++ check (runes_of_ascii "options
{
    len
	=  // " ++ [128512]%N ++ runes_of_ascii " emoji
""packet""int

=	""abc""

    }

")).
Eval vm_compute in ("<<<M261>>>" ++ check (runes_of_ascii "options{ asx= ""1"" //	t
Pad =  0 stringy =
    '\x00'
    ; }")).
Eval vm_compute in ("<<<M1625>>>" ++ check (runes_of_ascii "  root	packet 
P  {  hdr
{	u8
a ,
    }
, u8  x

, }
")).
Eval vm_compute in ("<<<M1203>>>" ++ check (runes_of_ascii "packet body { // c
i32 f32a `{ , }` , } options { }")).
Eval vm_compute in ("<<<M1100>>>" ++ check (runes_of_ascii "// top
MetaData // c0
tag // c1
{ // c2
} // c3
")).
Eval vm_compute in ("<<<M363>>>" ++ check (runes_of_ascii "MetaData
    // @lengthOf(
    tag {
    }")).
Eval vm_compute in ("<<<M1546>>>" ++ check (runes_of_ascii "

  // `tick` ""quote"" 'q'
options{
}")).
Eval vm_compute in ("<<<M1500>>>" ++ check (runes_of_ascii "  root

    packet  falsey{
	}

")).
Eval vm_compute in ("<<<M1674>>>" ++ check (runes_of_ascii "packet A {
    u8 x `
    x`,
}")).
Eval vm_compute in ("<<<M1881>>>" ++ check (runes_of_ascii "// c
packet asx {
}/// triple")).
Eval vm_compute in ("<<<M1084>>>" ++ check (runes_of_ascii "packet A { // a
 u8 x, }")).
Eval vm_compute in ("<<<M747>>>" ++ check (runes_of_ascii "true int16 u16 { f32a")).
Eval vm_compute in ("<<<M1134>>>" ++ check (runes_of_ascii "MetaData u { // c
}")).
Eval vm_compute in ("<<<M1031>>>" ++ check (runes_of_ascii "packet A {
}
// c" ++ [11]%N)).
Eval vm_compute in ("<<<M1019>>>" ++ check (runes_of_ascii "packet A {
}// c" ++ [8239]%N)).
Eval vm_compute in ("<<<M1835>>>" ++ check (runes_of_ascii "packet pack {
}")).
Eval vm_compute in ("<<<M252>>>" ++ check (runes_of_ascii " // c")).
Eval vm_compute in ("<<<M728>>>" ++ check (runes_of_ascii "		")).
