From FP Require Import Lexer Parser ShowPT Digest.
From Coq Require Import String List NArith.
Import ListNotations.
Open Scope string_scope.
Set Printing Width 100000000.
Set Printing Depth 100000000.
Definition nl : string := String (Ascii.ascii_of_nat 10) EmptyString.
Definition model_lex (rs : list rune) : string := show_toks (lex rs).
Definition model_parse (rs : list rune) : string :=
  show_pt (match lex rs with Some ts => parse ts | None => None end).
(* coqc is slow at printing long strings: digests first (Digest.v), full texts on demand *)
Definition check (rs : list rune) : string :=
  digest (model_lex rs) ++ " " ++ digest (model_parse rs).
Definition full (rs : list rune) : string := model_lex rs ++ nl ++ model_parse rs.
Definition terms (ts : list tok) (t : pt) : string :=
  digest (show_toks (Some ts)) ++ " " ++ digest (show_pt (Some t)) ++ " " ++ digest (show_pt (parse ts)).
Definition terms_full (ts : list tok) (t : pt) : string :=
  show_toks (Some ts) ++ nl ++ show_pt (Some t) ++ nl ++ show_pt (parse ts).
Eval vm_compute in ("<<<M0>>>" ++ check (runes_of_ascii "packet	stringy{repeat string As , // " ++ [27880; 37322]%N ++ runes_of_ascii "
@lengthOf(// " ++ [128512]%N ++ runes_of_ascii " emoji
Header
)
    // trailing space 
    zchar[ 1
]body
// " ++ [27880; 37322]%N ++ runes_of_ascii "
//
@calculatedFrom( """"
) // `tick` ""quote"" 'q'
`doc`	, @calculatedFrom( ""a	b"" )
    string_
@lengthOf( pack) ,
u32 rootA  @calculatedFrom(
    //	t
    ""{,}""
// c
//
) ,}")).
Eval vm_compute in ("<<<M10>>>" ++ check (runes_of_ascii "
options {
    repeatCount
    = ""1""
;
// " ++ [27880; 37322]%N ++ runes_of_ascii "
//	t
zchar =0 ;} root packet Header { @tag(4294967296 )
repeat len {u16 msg_type, repeat char[7]x
`two words`
    ,
    } ,
string crc
// " ++ [27880; 37322]%N ++ runes_of_ascii "
// packet A { u8 x, }
`" ++ [28040; 24687; 31867; 22411]%N ++ runes_of_ascii "` ,@lengthOf(
    trueish )
@tag( 255 // packet A { u8 x, }
) @lengthOf(matchKey
)
    //x
    Packet ,Header , }")).
Eval vm_compute in ("<<<M20>>>" ++ check (runes_of_ascii "packet packetx{ BodyLength
`// not a comment` ,string_
`" ++ [28040; 24687; 31867; 22411]%N ++ runes_of_ascii "` , f32
    /// triple
    u8x@calculatedFrom(""a\\"" ) ,match  roots as
// a // b
// " ++ [27880; 37322]%N ++ runes_of_ascii "
Packet
    { 00 :  o
    // a // b
    ,""\" ++ [233]%N ++ runes_of_ascii """
    :	_x	, ""{,}""	:
    // c
    a1 , """ ++ [28040; 24687]%N ++ runes_of_ascii """
: Z9_ // " ++ [128512]%N ++ runes_of_ascii " emoji
,} , x_y_z , f64 trueish @lengthOf( lengthOf	)	,@calculatedFrom( """ ++ [28040; 24687]%N ++ runes_of_ascii """
    ) char[
    10 ] i64_ ,
} packet
a1{ } packet u  { match trueish
    as Foo // a // b
{ [
    1
] : falsey, """ ++ [233]%N ++ runes_of_ascii "t" ++ [233]%N ++ runes_of_ascii """ // c
: A 10 : options1
// @lengthOf(
// a // b
,
} ,
    int16	crc
, char[ 1 ] o@calculatedFrom( ""it's"") // " ++ [27880; 37322]%N ++ runes_of_ascii "
,	Z9_ MetaDataX ,  BodyLength// " ++ [128512]%N ++ runes_of_ascii " emoji
,@lengthOf(
    // @lengthOf(
    MetaDataX) match
tag as	o{	[ ""{,}"" ,  0] : float
    , ""it's"" :
// `tick` ""quote"" 'q'
// a // b
u8x// " ++ [128512]%N ++ runes_of_ascii " emoji
, } // " ++ [128512]%N ++ runes_of_ascii " emoji
, MetaDataX ,
    // trailing space 
    @calculatedFrom( """ ++ [233]%N ++ runes_of_ascii "t" ++ [233]%N ++ runes_of_ascii """ )  u16// trailing space 
options1 `tab	here` , string // `tick` ""quote"" 'q'
int //	t
`tab	here`  ,
@calculatedFrom(	""// no comment"" ) repeat _x
    , }MetaData As
{ float msg_type ,  zchar[ 4294967296] float `line1
line2`, u128 string_`a\` ,
    u32
MetaDataX ,
    falsey
    pack`" ++ [233]%N ++ runes_of_ascii "`,i8
    a1
`
` ,
}
")).
Eval vm_compute in ("<<<T20>>>" ++ terms [mkTok 35 "packet" 1 0 false; mkTok 42 "packetx" 1 7 false; mkTok 2 "{" 1 14 false; mkTok 42 "BodyLength" 1 16 false; mkTok 43 "`// not a comment`" 2 0 false; mkTok 40 "," 2 19 false; mkTok 42 "string_" 2 20 false; mkTok 43 (string_of_bytes [96; 230; 182; 136; 230; 129; 175; 231; 177; 187; 229; 158; 139; 96]%N) 3 0 false; mkTok 40 "," 3 7 false; mkTok 28 "f32" 3 9 false; mkTok 44 "/// triple" 4 4 true; mkTok 42 "u8x" 5 4 false; mkTok 5 "@calculatedFrom(" 5 7 false; mkTok 31 """a\\""" 5 23 false; mkTok 6 ")" 5 29 false; mkTok 40 "," 5 31 false; mkTok 38 "match" 5 32 false; mkTok 42 "roots" 5 39 false; mkTok 17 "as" 5 45 false; mkTok 44 "// a // b" 6 0 true; mkTok 44 (string_of_bytes [47; 47; 32; 230; 179; 168; 233; 135; 138]%N) 7 0 true; mkTok 42 "Packet" 8 0 false; mkTok 2 "{" 9 4 false; mkTok 30 "00" 9 6 false; mkTok 39 ":" 9 9 false; mkTok 42 "o" 9 12 false; mkTok 44 "// a // b" 10 4 true; mkTok 40 "," 11 4 false; mkTok 31 (string_of_bytes [34; 92; 195; 169; 34]%N) 11 5 false; mkTok 39 ":" 12 4 false; mkTok 42 "_x" 12 6 false; mkTok 40 "," 12 9 false; mkTok 31 """{,}""" 12 11 false; mkTok 39 ":" 12 17 false; mkTok 44 "// c" 13 4 true; mkTok 42 "a1" 14 4 false; mkTok 40 "," 14 7 false; mkTok 31 (string_of_bytes [34; 230; 182; 136; 230; 129; 175; 34]%N) 14 9 false; mkTok 39 ":" 15 0 false; mkTok 42 "Z9_" 15 2 false; mkTok 44 (string_of_bytes [47; 47; 32; 240; 159; 152; 128; 32; 101; 109; 111; 106; 105]%N) 15 6 true; mkTok 40 "," 16 0 false; mkTok 3 "}" 16 1 false; mkTok 40 "," 16 3 false; mkTok 42 "x_y_z" 16 5 false; mkTok 40 "," 16 11 false; mkTok 29 "f64" 16 13 false; mkTok 42 "trueish" 16 17 false; mkTok 7 "@lengthOf(" 16 25 false; mkTok 42 "lengthOf" 16 36 false; mkTok 6 ")" 16 45 false; mkTok 40 "," 16 47 false; mkTok 5 "@calculatedFrom(" 16 48 false; mkTok 31 (string_of_bytes [34; 230; 182; 136; 230; 129; 175; 34]%N) 16 65 false; mkTok 6 ")" 17 4 false; mkTok 12 "char[" 17 6 false; mkTok 30 "10" 18 4 false; mkTok 13 "]" 18 7 false; mkTok 42 "i64_" 18 9 false; mkTok 40 "," 18 14 false; mkTok 3 "}" 19 0 false; mkTok 35 "packet" 19 2 false; mkTok 42 "a1" 20 0 false; mkTok 2 "{" 20 2 false; mkTok 3 "}" 20 4 false; mkTok 35 "packet" 20 6 false; mkTok 42 "u" 20 13 false; mkTok 2 "{" 20 16 false; mkTok 38 "match" 20 18 false; mkTok 42 "trueish" 20 24 false; mkTok 17 "as" 21 4 false; mkTok 42 "Foo" 21 7 false; mkTok 44 "// a // b" 21 11 true; mkTok 2 "{" 22 0 false; mkTok 18 "[" 22 2 false; mkTok 30 "1" 23 4 false; mkTok 13 "]" 24 0 false; mkTok 39 ":" 24 2 false; mkTok 42 "falsey" 24 4 false; mkTok 40 "," 24 10 false; mkTok 31 (string_of_bytes [34; 195; 169; 116; 195; 169; 34]%N) 24 12 false; mkTok 44 "// c" 24 18 true; mkTok 39 ":" 25 0 false; mkTok 42 "A" 25 2 false; mkTok 30 "10" 25 4 false; mkTok 39 ":" 25 7 false; mkTok 42 "options1" 25 9 false; mkTok 44 "// @lengthOf(" 26 0 true; mkTok 44 "// a // b" 27 0 true; mkTok 40 "," 28 0 false; mkTok 3 "}" 29 0 false; mkTok 40 "," 29 2 false; mkTok 25 "int16" 30 4 false; mkTok 42 "crc" 30 10 false; mkTok 40 "," 31 0 false; mkTok 12 "char[" 31 2 false; mkTok 30 "1" 31 8 false; mkTok 13 "]" 31 10 false; mkTok 42 "o" 31 12 false; mkTok 5 "@calculatedFrom(" 31 13 false; mkTok 31 """it's""" 31 30 false; mkTok 6 ")" 31 36 false; mkTok 44 (string_of_bytes [47; 47; 32; 230; 179; 168; 233; 135; 138]%N) 31 38 true; mkTok 40 "," 32 0 false; mkTok 42 "Z9_" 32 2 false; mkTok 42 "MetaDataX" 32 6 false; mkTok 40 "," 32 16 false; mkTok 42 "BodyLength" 32 19 false; mkTok 44 (string_of_bytes [47; 47; 32; 240; 159; 152; 128; 32; 101; 109; 111; 106; 105]%N) 32 29 true; mkTok 40 "," 33 0 false; mkTok 7 "@lengthOf(" 33 1 false; mkTok 44 "// @lengthOf(" 34 4 true; mkTok 42 "MetaDataX" 35 4 false; mkTok 6 ")" 35 13 false; mkTok 38 "match" 35 15 false; mkTok 42 "tag" 36 0 false; mkTok 17 "as" 36 4 false; mkTok 42 "o" 36 7 false; mkTok 2 "{" 36 8 false; mkTok 18 "[" 36 10 false; mkTok 31 """{,}""" 36 12 false; mkTok 40 "," 36 18 false; mkTok 30 "0" 36 21 false; mkTok 13 "]" 36 22 false; mkTok 39 ":" 36 24 false; mkTok 42 "float" 36 26 false; mkTok 40 "," 37 4 false; mkTok 31 """it's""" 37 6 false; mkTok 39 ":" 37 13 false; mkTok 44 "// `tick` ""quote"" 'q'" 38 0 true; mkTok 44 "// a // b" 39 0 true; mkTok 42 "u8x" 40 0 false; mkTok 44 (string_of_bytes [47; 47; 32; 240; 159; 152; 128; 32; 101; 109; 111; 106; 105]%N) 40 3 true; mkTok 40 "," 41 0 false; mkTok 3 "}" 41 2 false; mkTok 44 (string_of_bytes [47; 47; 32; 240; 159; 152; 128; 32; 101; 109; 111; 106; 105]%N) 41 4 true; mkTok 40 "," 42 0 false; mkTok 42 "MetaDataX" 42 2 false; mkTok 40 "," 42 12 false; mkTok 44 "// trailing space " 43 4 true; mkTok 5 "@calculatedFrom(" 44 4 false; mkTok 31 (string_of_bytes [34; 195; 169; 116; 195; 169; 34]%N) 44 21 false; mkTok 6 ")" 44 27 false; mkTok 21 "u16" 44 30 false; mkTok 44 "// trailing space " 44 33 true; mkTok 42 "options1" 45 0 false; mkTok 43 (string_of_bytes [96; 116; 97; 98; 9; 104; 101; 114; 101; 96]%N) 45 9 false; mkTok 40 "," 45 20 false; mkTok 15 "string" 45 22 false; mkTok 44 "// `tick` ""quote"" 'q'" 45 29 true; mkTok 42 "int" 46 0 false; mkTok 44 (string_of_bytes [47; 47; 9; 116]%N) 46 4 true; mkTok 43 (string_of_bytes [96; 116; 97; 98; 9; 104; 101; 114; 101; 96]%N) 47 0 false; mkTok 40 "," 47 12 false; mkTok 5 "@calculatedFrom(" 48 0 false; mkTok 31 """// no comment""" 48 17 false; mkTok 6 ")" 48 33 false; mkTok 36 "repeat" 48 35 false; mkTok 42 "_x" 48 42 false; mkTok 40 "," 49 4 false; mkTok 3 "}" 49 6 false; mkTok 37 "MetaData" 49 7 false; mkTok 42 "As" 49 16 false; mkTok 2 "{" 50 0 false; mkTok 42 "float" 50 2 false; mkTok 42 "msg_type" 50 8 false; mkTok 40 "," 50 17 false; mkTok 14 "zchar[" 50 20 false; mkTok 30 "4294967296" 50 27 false; mkTok 13 "]" 50 37 false; mkTok 42 "float" 50 39 false; mkTok 43 (string_of_bytes [96; 108; 105; 110; 101; 49; 10; 108; 105; 110; 101; 50; 96]%N) 50 45 false; mkTok 40 "," 51 6 false; mkTok 42 "u128" 51 8 false; mkTok 42 "string_" 51 13 false; mkTok 43 "`a\`" 51 20 false; mkTok 40 "," 51 25 false; mkTok 22 "u32" 52 4 false; mkTok 42 "MetaDataX" 53 0 false; mkTok 40 "," 53 10 false; mkTok 42 "falsey" 54 4 false; mkTok 42 "pack" 55 4 false; mkTok 43 (string_of_bytes [96; 195; 169; 96]%N) 55 8 false; mkTok 40 "," 55 11 false; mkTok 24 "i8" 55 12 false; mkTok 42 "a1" 56 4 false; mkTok 43 (string_of_bytes [96; 10; 96]%N) 57 0 false; mkTok 40 "," 58 2 false; mkTok 3 "}" 59 0 false; mkTok 0 "<EOF>" 60 0 false] (mkPacket (mkPtok 35 "packet" 1 0 0) (Some (mkPtok 3 "}" 59 0 188)) [(DPacket (mkPacketDef (mkSpan (mkPtok 35 "packet" 1 0 0) (mkPtok 3 "}" 19 0 60)) None (mkPtok 35 "packet" 1 0 0) (mkPtok 42 "packetx" 1 7 1) (mkPtok 2 "{" 1 14 2) [(mkFieldWithAttr (mkSpan (mkPtok 42 "BodyLength" 1 16 3) (mkPtok 40 "," 2 19 5)) [] (ObjectField (mkSpan (mkPtok 42 "BodyLength" 1 16 3) (mkPtok 40 "," 2 19 5)) None (mkPtok 42 "BodyLength" 1 16 3) None (Some (mkPtok 43 "`// not a comment`" 2 0 4)) (mkPtok 40 "," 2 19 5))); (mkFieldWithAttr (mkSpan (mkPtok 42 "string_" 2 20 6) (mkPtok 40 "," 3 7 8)) [] (ObjectField (mkSpan (mkPtok 42 "string_" 2 20 6) (mkPtok 40 "," 3 7 8)) None (mkPtok 42 "string_" 2 20 6) None (Some (mkPtok 43 (string_of_bytes [96; 230; 182; 136; 230; 129; 175; 231; 177; 187; 229; 158; 139; 96]%N) 3 0 7)) (mkPtok 40 "," 3 7 8))); (mkFieldWithAttr (mkSpan (mkPtok 28 "f32" 3 9 9) (mkPtok 40 "," 5 31 15)) [] (CheckSumField (mkSpan (mkPtok 28 "f32" 3 9 9) (mkPtok 40 "," 5 31 15)) (mkChecksumFieldDecl (mkSpan (mkPtok 28 "f32" 3 9 9) (mkPtok 40 "," 5 31 15)) (Some (TyBasic (mkSpan (mkPtok 28 "f32" 3 9 9) (mkPtok 28 "f32" 3 9 9)) (mkBasicType (mkSpan (mkPtok 28 "f32" 3 9 9) (mkPtok 28 "f32" 3 9 9)) (mkPtok 28 "f32" 3 9 9)))) (mkPtok 42 "u8x" 5 4 11) (mkCalculatedFrom (mkSpan (mkPtok 5 "@calculatedFrom(" 5 7 12) (mkPtok 6 ")" 5 29 14)) (mkPtok 5 "@calculatedFrom(" 5 7 12) (mkPtok 31 """a\\""" 5 23 13) (mkPtok 6 ")" 5 29 14)) None (mkPtok 40 "," 5 31 15)))); (mkFieldWithAttr (mkSpan (mkPtok 38 "match" 5 32 16) (mkPtok 40 "," 16 3 43)) [] (MatchField (mkSpan (mkPtok 38 "match" 5 32 16) (mkPtok 40 "," 16 3 43)) (mkMatchFieldDecl (mkSpan (mkPtok 38 "match" 5 32 16) (mkPtok 3 "}" 16 1 42)) (mkPtok 38 "match" 5 32 16) (mkPtok 42 "roots" 5 39 17) (mkPtok 17 "as" 5 45 18) (mkPtok 42 "Packet" 8 0 21) (mkPtok 2 "{" 9 4 22) [(mkMatchPair (mkSpan (mkPtok 30 "00" 9 6 23) (mkPtok 40 "," 11 4 27)) (MKDigits (mkPtok 30 "00" 9 6 23)) (mkPtok 39 ":" 9 9 24) (mkPtok 42 "o" 9 12 25) (Some (mkPtok 40 "," 11 4 27))); (mkMatchPair (mkSpan (mkPtok 31 (string_of_bytes [34; 92; 195; 169; 34]%N) 11 5 28) (mkPtok 40 "," 12 9 31)) (MKString (mkPtok 31 (string_of_bytes [34; 92; 195; 169; 34]%N) 11 5 28)) (mkPtok 39 ":" 12 4 29) (mkPtok 42 "_x" 12 6 30) (Some (mkPtok 40 "," 12 9 31))); (mkMatchPair (mkSpan (mkPtok 31 """{,}""" 12 11 32) (mkPtok 40 "," 14 7 36)) (MKString (mkPtok 31 """{,}""" 12 11 32)) (mkPtok 39 ":" 12 17 33) (mkPtok 42 "a1" 14 4 35) (Some (mkPtok 40 "," 14 7 36))); (mkMatchPair (mkSpan (mkPtok 31 (string_of_bytes [34; 230; 182; 136; 230; 129; 175; 34]%N) 14 9 37) (mkPtok 40 "," 16 0 41)) (MKString (mkPtok 31 (string_of_bytes [34; 230; 182; 136; 230; 129; 175; 34]%N) 14 9 37)) (mkPtok 39 ":" 15 0 38) (mkPtok 42 "Z9_" 15 2 39) (Some (mkPtok 40 "," 16 0 41)))] (mkPtok 3 "}" 16 1 42)) (mkPtok 40 "," 16 3 43))); (mkFieldWithAttr (mkSpan (mkPtok 42 "x_y_z" 16 5 44) (mkPtok 40 "," 16 11 45)) [] (ObjectField (mkSpan (mkPtok 42 "x_y_z" 16 5 44) (mkPtok 40 "," 16 11 45)) None (mkPtok 42 "x_y_z" 16 5 44) None None (mkPtok 40 "," 16 11 45))); (mkFieldWithAttr (mkSpan (mkPtok 29 "f64" 16 13 46) (mkPtok 40 "," 16 47 51)) [] (LengthField (mkSpan (mkPtok 29 "f64" 16 13 46) (mkPtok 40 "," 16 47 51)) (mkLengthFieldDecl (mkSpan (mkPtok 29 "f64" 16 13 46) (mkPtok 40 "," 16 47 51)) (Some (TyBasic (mkSpan (mkPtok 29 "f64" 16 13 46) (mkPtok 29 "f64" 16 13 46)) (mkBasicType (mkSpan (mkPtok 29 "f64" 16 13 46) (mkPtok 29 "f64" 16 13 46)) (mkPtok 29 "f64" 16 13 46)))) (mkPtok 42 "trueish" 16 17 47) (mkLengthOf (mkSpan (mkPtok 7 "@lengthOf(" 16 25 48) (mkPtok 6 ")" 16 45 50)) (mkPtok 7 "@lengthOf(" 16 25 48) (mkPtok 42 "lengthOf" 16 36 49) (mkPtok 6 ")" 16 45 50)) None (mkPtok 40 "," 16 47 51)))); (mkFieldWithAttr (mkSpan (mkPtok 5 "@calculatedFrom(" 16 48 52) (mkPtok 40 "," 18 14 59)) [(FACalculatedFrom (mkSpan (mkPtok 5 "@calculatedFrom(" 16 48 52) (mkPtok 6 ")" 17 4 54)) (mkCalculatedFrom (mkSpan (mkPtok 5 "@calculatedFrom(" 16 48 52) (mkPtok 6 ")" 17 4 54)) (mkPtok 5 "@calculatedFrom(" 16 48 52) (mkPtok 31 (string_of_bytes [34; 230; 182; 136; 230; 129; 175; 34]%N) 16 65 53) (mkPtok 6 ")" 17 4 54)))] (MetaField (mkSpan (mkPtok 12 "char[" 17 6 55) (mkPtok 40 "," 18 14 59)) None (mkMetaDecl (mkSpan (mkPtok 12 "char[" 17 6 55) (mkPtok 40 "," 18 14 59)) (TyFixed (mkSpan (mkPtok 12 "char[" 17 6 55) (mkPtok 13 "]" 18 7 57)) (mkFixedString (mkSpan (mkPtok 12 "char[" 17 6 55) (mkPtok 13 "]" 18 7 57)) (mkPtok 12 "char[" 17 6 55) (mkPtok 30 "10" 18 4 56) (mkPtok 13 "]" 18 7 57))) (mkPtok 42 "i64_" 18 9 58) None (mkPtok 40 "," 18 14 59))))] (mkPtok 3 "}" 19 0 60))); (DPacket (mkPacketDef (mkSpan (mkPtok 35 "packet" 19 2 61) (mkPtok 3 "}" 20 4 64)) None (mkPtok 35 "packet" 19 2 61) (mkPtok 42 "a1" 20 0 62) (mkPtok 2 "{" 20 2 63) [] (mkPtok 3 "}" 20 4 64))); (DPacket (mkPacketDef (mkSpan (mkPtok 35 "packet" 20 6 65) (mkPtok 3 "}" 49 6 160)) None (mkPtok 35 "packet" 20 6 65) (mkPtok 42 "u" 20 13 66) (mkPtok 2 "{" 20 16 67) [(mkFieldWithAttr (mkSpan (mkPtok 38 "match" 20 18 68) (mkPtok 40 "," 29 2 91)) [] (MatchField (mkSpan (mkPtok 38 "match" 20 18 68) (mkPtok 40 "," 29 2 91)) (mkMatchFieldDecl (mkSpan (mkPtok 38 "match" 20 18 68) (mkPtok 3 "}" 29 0 90)) (mkPtok 38 "match" 20 18 68) (mkPtok 42 "trueish" 20 24 69) (mkPtok 17 "as" 21 4 70) (mkPtok 42 "Foo" 21 7 71) (mkPtok 2 "{" 22 0 73) [(mkMatchPair (mkSpan (mkPtok 18 "[" 22 2 74) (mkPtok 40 "," 24 10 79)) (MKList (mkKeyList (mkSpan (mkPtok 18 "[" 22 2 74) (mkPtok 13 "]" 24 0 76)) (mkPtok 18 "[" 22 2 74) (mkPtok 30 "1" 23 4 75) [] (mkPtok 13 "]" 24 0 76))) (mkPtok 39 ":" 24 2 77) (mkPtok 42 "falsey" 24 4 78) (Some (mkPtok 40 "," 24 10 79))); (mkMatchPair (mkSpan (mkPtok 31 (string_of_bytes [34; 195; 169; 116; 195; 169; 34]%N) 24 12 80) (mkPtok 42 "A" 25 2 83)) (MKString (mkPtok 31 (string_of_bytes [34; 195; 169; 116; 195; 169; 34]%N) 24 12 80)) (mkPtok 39 ":" 25 0 82) (mkPtok 42 "A" 25 2 83) None); (mkMatchPair (mkSpan (mkPtok 30 "10" 25 4 84) (mkPtok 40 "," 28 0 89)) (MKDigits (mkPtok 30 "10" 25 4 84)) (mkPtok 39 ":" 25 7 85) (mkPtok 42 "options1" 25 9 86) (Some (mkPtok 40 "," 28 0 89)))] (mkPtok 3 "}" 29 0 90)) (mkPtok 40 "," 29 2 91))); (mkFieldWithAttr (mkSpan (mkPtok 25 "int16" 30 4 92) (mkPtok 40 "," 31 0 94)) [] (MetaField (mkSpan (mkPtok 25 "int16" 30 4 92) (mkPtok 40 "," 31 0 94)) None (mkMetaDecl (mkSpan (mkPtok 25 "int16" 30 4 92) (mkPtok 40 "," 31 0 94)) (TyBasic (mkSpan (mkPtok 25 "int16" 30 4 92) (mkPtok 25 "int16" 30 4 92)) (mkBasicType (mkSpan (mkPtok 25 "int16" 30 4 92) (mkPtok 25 "int16" 30 4 92)) (mkPtok 25 "int16" 30 4 92))) (mkPtok 42 "crc" 30 10 93) None (mkPtok 40 "," 31 0 94)))); (mkFieldWithAttr (mkSpan (mkPtok 12 "char[" 31 2 95) (mkPtok 40 "," 32 0 103)) [] (CheckSumField (mkSpan (mkPtok 12 "char[" 31 2 95) (mkPtok 40 "," 32 0 103)) (mkChecksumFieldDecl (mkSpan (mkPtok 12 "char[" 31 2 95) (mkPtok 40 "," 32 0 103)) (Some (TyFixed (mkSpan (mkPtok 12 "char[" 31 2 95) (mkPtok 13 "]" 31 10 97)) (mkFixedString (mkSpan (mkPtok 12 "char[" 31 2 95) (mkPtok 13 "]" 31 10 97)) (mkPtok 12 "char[" 31 2 95) (mkPtok 30 "1" 31 8 96) (mkPtok 13 "]" 31 10 97)))) (mkPtok 42 "o" 31 12 98) (mkCalculatedFrom (mkSpan (mkPtok 5 "@calculatedFrom(" 31 13 99) (mkPtok 6 ")" 31 36 101)) (mkPtok 5 "@calculatedFrom(" 31 13 99) (mkPtok 31 """it's""" 31 30 100) (mkPtok 6 ")" 31 36 101)) None (mkPtok 40 "," 32 0 103)))); (mkFieldWithAttr (mkSpan (mkPtok 42 "Z9_" 32 2 104) (mkPtok 40 "," 32 16 106)) [] (ObjectField (mkSpan (mkPtok 42 "Z9_" 32 2 104) (mkPtok 40 "," 32 16 106)) None (mkPtok 42 "Z9_" 32 2 104) (Some (mkPtok 42 "MetaDataX" 32 6 105)) None (mkPtok 40 "," 32 16 106))); (mkFieldWithAttr (mkSpan (mkPtok 42 "BodyLength" 32 19 107) (mkPtok 40 "," 33 0 109)) [] (ObjectField (mkSpan (mkPtok 42 "BodyLength" 32 19 107) (mkPtok 40 "," 33 0 109)) None (mkPtok 42 "BodyLength" 32 19 107) None None (mkPtok 40 "," 33 0 109))); (mkFieldWithAttr (mkSpan (mkPtok 7 "@lengthOf(" 33 1 110) (mkPtok 40 "," 42 0 136)) [(FALengthOf (mkSpan (mkPtok 7 "@lengthOf(" 33 1 110) (mkPtok 6 ")" 35 13 113)) (mkLengthOf (mkSpan (mkPtok 7 "@lengthOf(" 33 1 110) (mkPtok 6 ")" 35 13 113)) (mkPtok 7 "@lengthOf(" 33 1 110) (mkPtok 42 "MetaDataX" 35 4 112) (mkPtok 6 ")" 35 13 113)))] (MatchField (mkSpan (mkPtok 38 "match" 35 15 114) (mkPtok 40 "," 42 0 136)) (mkMatchFieldDecl (mkSpan (mkPtok 38 "match" 35 15 114) (mkPtok 3 "}" 41 2 134)) (mkPtok 38 "match" 35 15 114) (mkPtok 42 "tag" 36 0 115) (mkPtok 17 "as" 36 4 116) (mkPtok 42 "o" 36 7 117) (mkPtok 2 "{" 36 8 118) [(mkMatchPair (mkSpan (mkPtok 18 "[" 36 10 119) (mkPtok 40 "," 37 4 126)) (MKList (mkKeyList (mkSpan (mkPtok 18 "[" 36 10 119) (mkPtok 13 "]" 36 22 123)) (mkPtok 18 "[" 36 10 119) (mkPtok 31 """{,}""" 36 12 120) [((mkPtok 40 "," 36 18 121), (mkPtok 30 "0" 36 21 122))] (mkPtok 13 "]" 36 22 123))) (mkPtok 39 ":" 36 24 124) (mkPtok 42 "float" 36 26 125) (Some (mkPtok 40 "," 37 4 126))); (mkMatchPair (mkSpan (mkPtok 31 """it's""" 37 6 127) (mkPtok 40 "," 41 0 133)) (MKString (mkPtok 31 """it's""" 37 6 127)) (mkPtok 39 ":" 37 13 128) (mkPtok 42 "u8x" 40 0 131) (Some (mkPtok 40 "," 41 0 133)))] (mkPtok 3 "}" 41 2 134)) (mkPtok 40 "," 42 0 136))); (mkFieldWithAttr (mkSpan (mkPtok 42 "MetaDataX" 42 2 137) (mkPtok 40 "," 42 12 138)) [] (ObjectField (mkSpan (mkPtok 42 "MetaDataX" 42 2 137) (mkPtok 40 "," 42 12 138)) None (mkPtok 42 "MetaDataX" 42 2 137) None None (mkPtok 40 "," 42 12 138))); (mkFieldWithAttr (mkSpan (mkPtok 5 "@calculatedFrom(" 44 4 140) (mkPtok 40 "," 45 20 147)) [(FACalculatedFrom (mkSpan (mkPtok 5 "@calculatedFrom(" 44 4 140) (mkPtok 6 ")" 44 27 142)) (mkCalculatedFrom (mkSpan (mkPtok 5 "@calculatedFrom(" 44 4 140) (mkPtok 6 ")" 44 27 142)) (mkPtok 5 "@calculatedFrom(" 44 4 140) (mkPtok 31 (string_of_bytes [34; 195; 169; 116; 195; 169; 34]%N) 44 21 141) (mkPtok 6 ")" 44 27 142)))] (MetaField (mkSpan (mkPtok 21 "u16" 44 30 143) (mkPtok 40 "," 45 20 147)) None (mkMetaDecl (mkSpan (mkPtok 21 "u16" 44 30 143) (mkPtok 40 "," 45 20 147)) (TyBasic (mkSpan (mkPtok 21 "u16" 44 30 143) (mkPtok 21 "u16" 44 30 143)) (mkBasicType (mkSpan (mkPtok 21 "u16" 44 30 143) (mkPtok 21 "u16" 44 30 143)) (mkPtok 21 "u16" 44 30 143))) (mkPtok 42 "options1" 45 0 145) (Some (mkPtok 43 (string_of_bytes [96; 116; 97; 98; 9; 104; 101; 114; 101; 96]%N) 45 9 146)) (mkPtok 40 "," 45 20 147)))); (mkFieldWithAttr (mkSpan (mkPtok 15 "string" 45 22 148) (mkPtok 40 "," 47 12 153)) [] (MetaField (mkSpan (mkPtok 15 "string" 45 22 148) (mkPtok 40 "," 47 12 153)) None (mkMetaDecl (mkSpan (mkPtok 15 "string" 45 22 148) (mkPtok 40 "," 47 12 153)) (TyDynamic (mkSpan (mkPtok 15 "string" 45 22 148) (mkPtok 15 "string" 45 22 148)) (mkDynamicString (mkSpan (mkPtok 15 "string" 45 22 148) (mkPtok 15 "string" 45 22 148)) (mkPtok 15 "string" 45 22 148))) (mkPtok 42 "int" 46 0 150) (Some (mkPtok 43 (string_of_bytes [96; 116; 97; 98; 9; 104; 101; 114; 101; 96]%N) 47 0 152)) (mkPtok 40 "," 47 12 153)))); (mkFieldWithAttr (mkSpan (mkPtok 5 "@calculatedFrom(" 48 0 154) (mkPtok 40 "," 49 4 159)) [(FACalculatedFrom (mkSpan (mkPtok 5 "@calculatedFrom(" 48 0 154) (mkPtok 6 ")" 48 33 156)) (mkCalculatedFrom (mkSpan (mkPtok 5 "@calculatedFrom(" 48 0 154) (mkPtok 6 ")" 48 33 156)) (mkPtok 5 "@calculatedFrom(" 48 0 154) (mkPtok 31 """// no comment""" 48 17 155) (mkPtok 6 ")" 48 33 156)))] (ObjectField (mkSpan (mkPtok 36 "repeat" 48 35 157) (mkPtok 40 "," 49 4 159)) (Some (mkPtok 36 "repeat" 48 35 157)) (mkPtok 42 "_x" 48 42 158) None None (mkPtok 40 "," 49 4 159)))] (mkPtok 3 "}" 49 6 160))); (DMeta (mkMetaDef (mkSpan (mkPtok 37 "MetaData" 49 7 161) (mkPtok 3 "}" 59 0 188)) (mkPtok 37 "MetaData" 49 7 161) (mkPtok 42 "As" 49 16 162) (mkPtok 2 "{" 50 0 163) [(MIRef (mkRefMetaDecl (mkSpan (mkPtok 42 "float" 50 2 164) (mkPtok 40 "," 50 17 166)) (mkPtok 42 "float" 50 2 164) (mkPtok 42 "msg_type" 50 8 165) None (mkPtok 40 "," 50 17 166))); (MIDecl (mkMetaDecl (mkSpan (mkPtok 14 "zchar[" 50 20 167) (mkPtok 40 "," 51 6 172)) (TyFixed (mkSpan (mkPtok 14 "zchar[" 50 20 167) (mkPtok 13 "]" 50 37 169)) (mkFixedString (mkSpan (mkPtok 14 "zchar[" 50 20 167) (mkPtok 13 "]" 50 37 169)) (mkPtok 14 "zchar[" 50 20 167) (mkPtok 30 "4294967296" 50 27 168) (mkPtok 13 "]" 50 37 169))) (mkPtok 42 "float" 50 39 170) (Some (mkPtok 43 (string_of_bytes [96; 108; 105; 110; 101; 49; 10; 108; 105; 110; 101; 50; 96]%N) 50 45 171)) (mkPtok 40 "," 51 6 172))); (MIRef (mkRefMetaDecl (mkSpan (mkPtok 42 "u128" 51 8 173) (mkPtok 40 "," 51 25 176)) (mkPtok 42 "u128" 51 8 173) (mkPtok 42 "string_" 51 13 174) (Some (mkPtok 43 "`a\`" 51 20 175)) (mkPtok 40 "," 51 25 176))); (MIDecl (mkMetaDecl (mkSpan (mkPtok 22 "u32" 52 4 177) (mkPtok 40 "," 53 10 179)) (TyBasic (mkSpan (mkPtok 22 "u32" 52 4 177) (mkPtok 22 "u32" 52 4 177)) (mkBasicType (mkSpan (mkPtok 22 "u32" 52 4 177) (mkPtok 22 "u32" 52 4 177)) (mkPtok 22 "u32" 52 4 177))) (mkPtok 42 "MetaDataX" 53 0 178) None (mkPtok 40 "," 53 10 179))); (MIRef (mkRefMetaDecl (mkSpan (mkPtok 42 "falsey" 54 4 180) (mkPtok 40 "," 55 11 183)) (mkPtok 42 "falsey" 54 4 180) (mkPtok 42 "pack" 55 4 181) (Some (mkPtok 43 (string_of_bytes [96; 195; 169; 96]%N) 55 8 182)) (mkPtok 40 "," 55 11 183))); (MIDecl (mkMetaDecl (mkSpan (mkPtok 24 "i8" 55 12 184) (mkPtok 40 "," 58 2 187)) (TyBasic (mkSpan (mkPtok 24 "i8" 55 12 184) (mkPtok 24 "i8" 55 12 184)) (mkBasicType (mkSpan (mkPtok 24 "i8" 55 12 184) (mkPtok 24 "i8" 55 12 184)) (mkPtok 24 "i8" 55 12 184))) (mkPtok 42 "a1" 56 4 185) (Some (mkPtok 43 (string_of_bytes [96; 10; 96]%N) 57 0 186)) (mkPtok 40 "," 58 2 187)))] (mkPtok 3 "}" 59 0 188)))])).
Eval vm_compute in ("<<<M30>>>" ++ check (runes_of_ascii "packet repeatCount
    // c
    { // packet A { u8 x, }
@calculatedFrom(  ""\n"" ) // " ++ [27880; 37322]%N ++ runes_of_ascii "
@leftPad ('\x00' )
matchKey@calculatedFrom( ""{,}"" //	t
) `line1
line2` , uint8
packetx ,
repeat u8x { //
zchar[
10
] repeatCount `" ++ [28040; 24687; 31867; 22411]%N ++ runes_of_ascii "`
    , repeat char[]pack , u8x tag `two words`
    //	t
    ,  chars @lengthOf( tag )`a\`
    ,
    }
    , }MetaData
    charz
{	matchKey
u8x , }
    options
{
Foo= string ;	len = """ ++ [233]%N ++ runes_of_ascii "t" ++ [233]%N ++ runes_of_ascii """ ; roots =
string ; rootA=""a	b"" ;}
")).
Eval vm_compute in ("<<<M40>>>" ++ check (@nil rune)).
Eval vm_compute in ("<<<M50>>>" ++ check (runes_of_ascii "MetaData i64_ { i8i8
    x
`tab	here`  , }
")).
Eval vm_compute in ("<<<M60>>>" ++ check (runes_of_ascii "options { }
")).
Eval vm_compute in ("<<<M70>>>" ++ check (runes_of_ascii "MetaData i64_// a // b
{ Header len
`u8 x,`
    ,
    // " ++ [27880; 37322]%N ++ runes_of_ascii "
    } // " ++ [128512]%N ++ runes_of_ascii " emoji")).
Eval vm_compute in ("<<<M80>>>" ++ check (runes_of_ascii "packet A{ repeat char u `line1
line2`
,} packet
As {
    string MetaDataX `u8 x,`, repeat
//x
// c
o {  repeat uint32 A
,match
    msg_type as tag { 1
    :
    string_, }, match crc as x {
    0 : // c
msg_type 1:	trueish ,
    [ 7
    , ""\" ++ [233]%N ++ runes_of_ascii """
// a // b
// @lengthOf(
,
    ""\n""// packet A { u8 x, }
, 007 , 7
    ,
    ""CRC32""
    ]
:
    float , [
    /// triple
    7] : pack
    // c
    , } , }, tag
{
    match _x
    as// " ++ [27880; 37322]%N ++ runes_of_ascii "
rootA {65535 :As
,
    10 : float, }
// c
// `tick` ""quote"" 'q'
,},
zchar[ 00/// triple
] leftPad @calculatedFrom(
    // " ++ [128512]%N ++ runes_of_ascii " emoji
    """ ++ [28040; 24687]%N ++ runes_of_ascii """ ) , @tag( 7 ) char[ 0123456789 ] //	t
o `" ++ [233]%N ++ runes_of_ascii "` ,}
")).
Eval vm_compute in ("<<<M90>>>" ++ check (runes_of_ascii "
packet u8x {@tag(7)
char[ 0
]
    int @lengthOf( u8x)
,
// trailing space 
//x
Logon { uint8
Pad ,
A { u128 roots , }, }
    //	t
    , @tag(1 ) float32 body `doc`
, }
    packet
    tag
    {
//x
// " ++ [128512]%N ++ runes_of_ascii " emoji
zchar Z9_
`say ""hi""` , @rightPad
    // packet A { u8 x, }
    ( '0') string matchKey`
`
,
string trueish@calculatedFrom(
""abc""
    // a // b
    )`two words` ,
    // @lengthOf(
    @tag(00 )
    // trailing space 
    uint8x {
i32 // `tick` ""quote"" 'q'
i8i8 , }
,
} MetaData
    Header
    { }")).
Eval vm_compute in ("<<<T90>>>" ++ terms [mkTok 35 "packet" 2 0 false; mkTok 42 "u8x" 2 7 false; mkTok 2 "{" 2 11 false; mkTok 9 "@tag(" 2 12 false; mkTok 30 "7" 2 17 false; mkTok 6 ")" 2 18 false; mkTok 12 "char[" 3 0 false; mkTok 30 "0" 3 6 false; mkTok 13 "]" 4 0 false; mkTok 42 "int" 5 4 false; mkTok 7 "@lengthOf(" 5 8 false; mkTok 42 "u8x" 5 19 false; mkTok 6 ")" 5 22 false; mkTok 40 "," 6 0 false; mkTok 44 "// trailing space " 7 0 true; mkTok 44 "//x" 8 0 true; mkTok 42 "Logon" 9 0 false; mkTok 2 "{" 9 6 false; mkTok 20 "uint8" 9 8 false; mkTok 42 "Pad" 10 0 false; mkTok 40 "," 10 4 false; mkTok 42 "A" 11 0 false; mkTok 2 "{" 11 2 false; mkTok 42 "u128" 11 4 false; mkTok 42 "roots" 11 9 false; mkTok 40 "," 11 15 false; mkTok 3 "}" 11 17 false; mkTok 40 "," 11 18 false; mkTok 3 "}" 11 20 false; mkTok 44 (string_of_bytes [47; 47; 9; 116]%N) 12 4 true; mkTok 40 "," 13 4 false; mkTok 9 "@tag(" 13 6 false; mkTok 30 "1" 13 11 false; mkTok 6 ")" 13 13 false; mkTok 28 "float32" 13 15 false; mkTok 42 "body" 13 23 false; mkTok 43 "`doc`" 13 28 false; mkTok 40 "," 14 0 false; mkTok 3 "}" 14 2 false; mkTok 35 "packet" 15 4 false; mkTok 42 "tag" 16 4 false; mkTok 2 "{" 17 4 false; mkTok 44 "//x" 18 0 true; mkTok 44 (string_of_bytes [47; 47; 32; 240; 159; 152; 128; 32; 101; 109; 111; 106; 105]%N) 19 0 true; mkTok 42 "zchar" 20 0 false; mkTok 42 "Z9_" 20 6 false; mkTok 43 "`say ""hi""`" 21 0 false; mkTok 40 "," 21 11 false; mkTok 32 "@rightPad" 21 13 false; mkTok 44 "// packet A { u8 x, }" 22 4 true; mkTok 8 "(" 23 4 false; mkTok 33 "'0'" 23 6 false; mkTok 6 ")" 23 9 false; mkTok 15 "string" 23 11 false; mkTok 42 "matchKey" 23 18 false; mkTok 43 (string_of_bytes [96; 10; 96]%N) 23 26 false; mkTok 40 "," 25 0 false; mkTok 15 "string" 26 0 false; mkTok 42 "trueish" 26 7 false; mkTok 5 "@calculatedFrom(" 26 14 false; mkTok 31 """abc""" 27 0 false; mkTok 44 "// a // b" 28 4 true; mkTok 6 ")" 29 4 false; mkTok 43 "`two words`" 29 5 false; mkTok 40 "," 29 17 false; mkTok 44 "// @lengthOf(" 30 4 true; mkTok 9 "@tag(" 31 4 false; mkTok 30 "00" 31 9 false; mkTok 6 ")" 31 12 false; mkTok 44 "// trailing space " 32 4 true; mkTok 42 "uint8x" 33 4 false; mkTok 2 "{" 33 11 false; mkTok 26 "i32" 34 0 false; mkTok 44 "// `tick` ""quote"" 'q'" 34 4 true; mkTok 42 "i8i8" 35 0 false; mkTok 40 "," 35 5 false; mkTok 3 "}" 35 7 false; mkTok 40 "," 36 0 false; mkTok 3 "}" 37 0 false; mkTok 37 "MetaData" 37 2 false; mkTok 42 "Header" 38 4 false; mkTok 2 "{" 39 4 false; mkTok 3 "}" 39 6 false; mkTok 0 "<EOF>" 39 7 false] (mkPacket (mkPtok 35 "packet" 2 0 0) (Some (mkPtok 3 "}" 39 6 82)) [(DPacket (mkPacketDef (mkSpan (mkPtok 35 "packet" 2 0 0) (mkPtok 3 "}" 14 2 38)) None (mkPtok 35 "packet" 2 0 0) (mkPtok 42 "u8x" 2 7 1) (mkPtok 2 "{" 2 11 2) [(mkFieldWithAttr (mkSpan (mkPtok 9 "@tag(" 2 12 3) (mkPtok 40 "," 6 0 13)) [(FATag (mkSpan (mkPtok 9 "@tag(" 2 12 3) (mkPtok 6 ")" 2 18 5)) (mkTagAttr (mkSpan (mkPtok 9 "@tag(" 2 12 3) (mkPtok 6 ")" 2 18 5)) (mkPtok 9 "@tag(" 2 12 3) (mkPtok 30 "7" 2 17 4) (mkPtok 6 ")" 2 18 5)))] (LengthField (mkSpan (mkPtok 12 "char[" 3 0 6) (mkPtok 40 "," 6 0 13)) (mkLengthFieldDecl (mkSpan (mkPtok 12 "char[" 3 0 6) (mkPtok 40 "," 6 0 13)) (Some (TyFixed (mkSpan (mkPtok 12 "char[" 3 0 6) (mkPtok 13 "]" 4 0 8)) (mkFixedString (mkSpan (mkPtok 12 "char[" 3 0 6) (mkPtok 13 "]" 4 0 8)) (mkPtok 12 "char[" 3 0 6) (mkPtok 30 "0" 3 6 7) (mkPtok 13 "]" 4 0 8)))) (mkPtok 42 "int" 5 4 9) (mkLengthOf (mkSpan (mkPtok 7 "@lengthOf(" 5 8 10) (mkPtok 6 ")" 5 22 12)) (mkPtok 7 "@lengthOf(" 5 8 10) (mkPtok 42 "u8x" 5 19 11) (mkPtok 6 ")" 5 22 12)) None (mkPtok 40 "," 6 0 13)))); (mkFieldWithAttr (mkSpan (mkPtok 42 "Logon" 9 0 16) (mkPtok 40 "," 13 4 30)) [] (InerObjectField (mkSpan (mkPtok 42 "Logon" 9 0 16) (mkPtok 40 "," 13 4 30)) None (InerObjectDecl (mkSpan (mkPtok 42 "Logon" 9 0 16) (mkPtok 3 "}" 11 20 28)) (mkPtok 42 "Logon" 9 0 16) (mkPtok 2 "{" 9 6 17) [(MetaField (mkSpan (mkPtok 20 "uint8" 9 8 18) (mkPtok 40 "," 10 4 20)) None (mkMetaDecl (mkSpan (mkPtok 20 "uint8" 9 8 18) (mkPtok 40 "," 10 4 20)) (TyBasic (mkSpan (mkPtok 20 "uint8" 9 8 18) (mkPtok 20 "uint8" 9 8 18)) (mkBasicType (mkSpan (mkPtok 20 "uint8" 9 8 18) (mkPtok 20 "uint8" 9 8 18)) (mkPtok 20 "uint8" 9 8 18))) (mkPtok 42 "Pad" 10 0 19) None (mkPtok 40 "," 10 4 20))); (InerObjectField (mkSpan (mkPtok 42 "A" 11 0 21) (mkPtok 40 "," 11 18 27)) None (InerObjectDecl (mkSpan (mkPtok 42 "A" 11 0 21) (mkPtok 3 "}" 11 17 26)) (mkPtok 42 "A" 11 0 21) (mkPtok 2 "{" 11 2 22) [(ObjectField (mkSpan (mkPtok 42 "u128" 11 4 23) (mkPtok 40 "," 11 15 25)) None (mkPtok 42 "u128" 11 4 23) (Some (mkPtok 42 "roots" 11 9 24)) None (mkPtok 40 "," 11 15 25))] (mkPtok 3 "}" 11 17 26)) (mkPtok 40 "," 11 18 27))] (mkPtok 3 "}" 11 20 28)) (mkPtok 40 "," 13 4 30))); (mkFieldWithAttr (mkSpan (mkPtok 9 "@tag(" 13 6 31) (mkPtok 40 "," 14 0 37)) [(FATag (mkSpan (mkPtok 9 "@tag(" 13 6 31) (mkPtok 6 ")" 13 13 33)) (mkTagAttr (mkSpan (mkPtok 9 "@tag(" 13 6 31) (mkPtok 6 ")" 13 13 33)) (mkPtok 9 "@tag(" 13 6 31) (mkPtok 30 "1" 13 11 32) (mkPtok 6 ")" 13 13 33)))] (MetaField (mkSpan (mkPtok 28 "float32" 13 15 34) (mkPtok 40 "," 14 0 37)) None (mkMetaDecl (mkSpan (mkPtok 28 "float32" 13 15 34) (mkPtok 40 "," 14 0 37)) (TyBasic (mkSpan (mkPtok 28 "float32" 13 15 34) (mkPtok 28 "float32" 13 15 34)) (mkBasicType (mkSpan (mkPtok 28 "float32" 13 15 34) (mkPtok 28 "float32" 13 15 34)) (mkPtok 28 "float32" 13 15 34))) (mkPtok 42 "body" 13 23 35) (Some (mkPtok 43 "`doc`" 13 28 36)) (mkPtok 40 "," 14 0 37))))] (mkPtok 3 "}" 14 2 38))); (DPacket (mkPacketDef (mkSpan (mkPtok 35 "packet" 15 4 39) (mkPtok 3 "}" 37 0 78)) None (mkPtok 35 "packet" 15 4 39) (mkPtok 42 "tag" 16 4 40) (mkPtok 2 "{" 17 4 41) [(mkFieldWithAttr (mkSpan (mkPtok 42 "zchar" 20 0 44) (mkPtok 40 "," 21 11 47)) [] (ObjectField (mkSpan (mkPtok 42 "zchar" 20 0 44) (mkPtok 40 "," 21 11 47)) None (mkPtok 42 "zchar" 20 0 44) (Some (mkPtok 42 "Z9_" 20 6 45)) (Some (mkPtok 43 "`say ""hi""`" 21 0 46)) (mkPtok 40 "," 21 11 47))); (mkFieldWithAttr (mkSpan (mkPtok 32 "@rightPad" 21 13 48) (mkPtok 40 "," 25 0 56)) [(FAPadding (mkSpan (mkPtok 32 "@rightPad" 21 13 48) (mkPtok 6 ")" 23 9 52)) (mkPaddingAttr (mkSpan (mkPtok 32 "@rightPad" 21 13 48) (mkPtok 6 ")" 23 9 52)) (mkPtok 32 "@rightPad" 21 13 48) (mkPtok 8 "(" 23 4 50) (Some (mkPtok 33 "'0'" 23 6 51)) (mkPtok 6 ")" 23 9 52)))] (MetaField (mkSpan (mkPtok 15 "string" 23 11 53) (mkPtok 40 "," 25 0 56)) None (mkMetaDecl (mkSpan (mkPtok 15 "string" 23 11 53) (mkPtok 40 "," 25 0 56)) (TyDynamic (mkSpan (mkPtok 15 "string" 23 11 53) (mkPtok 15 "string" 23 11 53)) (mkDynamicString (mkSpan (mkPtok 15 "string" 23 11 53) (mkPtok 15 "string" 23 11 53)) (mkPtok 15 "string" 23 11 53))) (mkPtok 42 "matchKey" 23 18 54) (Some (mkPtok 43 (string_of_bytes [96; 10; 96]%N) 23 26 55)) (mkPtok 40 "," 25 0 56)))); (mkFieldWithAttr (mkSpan (mkPtok 15 "string" 26 0 57) (mkPtok 40 "," 29 17 64)) [] (CheckSumField (mkSpan (mkPtok 15 "string" 26 0 57) (mkPtok 40 "," 29 17 64)) (mkChecksumFieldDecl (mkSpan (mkPtok 15 "string" 26 0 57) (mkPtok 40 "," 29 17 64)) (Some (TyDynamic (mkSpan (mkPtok 15 "string" 26 0 57) (mkPtok 15 "string" 26 0 57)) (mkDynamicString (mkSpan (mkPtok 15 "string" 26 0 57) (mkPtok 15 "string" 26 0 57)) (mkPtok 15 "string" 26 0 57)))) (mkPtok 42 "trueish" 26 7 58) (mkCalculatedFrom (mkSpan (mkPtok 5 "@calculatedFrom(" 26 14 59) (mkPtok 6 ")" 29 4 62)) (mkPtok 5 "@calculatedFrom(" 26 14 59) (mkPtok 31 """abc""" 27 0 60) (mkPtok 6 ")" 29 4 62)) (Some (mkPtok 43 "`two words`" 29 5 63)) (mkPtok 40 "," 29 17 64)))); (mkFieldWithAttr (mkSpan (mkPtok 9 "@tag(" 31 4 66) (mkPtok 40 "," 36 0 77)) [(FATag (mkSpan (mkPtok 9 "@tag(" 31 4 66) (mkPtok 6 ")" 31 12 68)) (mkTagAttr (mkSpan (mkPtok 9 "@tag(" 31 4 66) (mkPtok 6 ")" 31 12 68)) (mkPtok 9 "@tag(" 31 4 66) (mkPtok 30 "00" 31 9 67) (mkPtok 6 ")" 31 12 68)))] (InerObjectField (mkSpan (mkPtok 42 "uint8x" 33 4 70) (mkPtok 40 "," 36 0 77)) None (InerObjectDecl (mkSpan (mkPtok 42 "uint8x" 33 4 70) (mkPtok 3 "}" 35 7 76)) (mkPtok 42 "uint8x" 33 4 70) (mkPtok 2 "{" 33 11 71) [(MetaField (mkSpan (mkPtok 26 "i32" 34 0 72) (mkPtok 40 "," 35 5 75)) None (mkMetaDecl (mkSpan (mkPtok 26 "i32" 34 0 72) (mkPtok 40 "," 35 5 75)) (TyBasic (mkSpan (mkPtok 26 "i32" 34 0 72) (mkPtok 26 "i32" 34 0 72)) (mkBasicType (mkSpan (mkPtok 26 "i32" 34 0 72) (mkPtok 26 "i32" 34 0 72)) (mkPtok 26 "i32" 34 0 72))) (mkPtok 42 "i8i8" 35 0 74) None (mkPtok 40 "," 35 5 75)))] (mkPtok 3 "}" 35 7 76)) (mkPtok 40 "," 36 0 77)))] (mkPtok 3 "}" 37 0 78))); (DMeta (mkMetaDef (mkSpan (mkPtok 37 "MetaData" 37 2 79) (mkPtok 3 "}" 39 6 82)) (mkPtok 37 "MetaData" 37 2 79) (mkPtok 42 "Header" 38 4 80) (mkPtok 2 "{" 39 4 81) [] (mkPtok 3 "}" 39 6 82)))])).
Eval vm_compute in ("<<<M100>>>" ++ check (runes_of_ascii "  packet uint8x{
@leftPad
    () // " ++ [27880; 37322]%N ++ runes_of_ascii "
@lengthOf( metadata)repeat
i32
string_ , @calculatedFrom(""a\""b"")@tag(
    65535 ) match
    string_ as //x
Packet
    {
10
    // " ++ [128512]%N ++ runes_of_ascii " emoji
    : lengthOf,
}
    ,
@lengthOf(
MetaDataX)//	t
match roots
    // " ++ [27880; 37322]%N ++ runes_of_ascii "
    as	uint8x // a // b
{ [
    65535 /// triple
] : T, },
}
packet BodyLength { char[]Header// a // b
,repeat
zchar[ 10 ] zchar ,zchar[ 1	]Z9_`doc`,
match Header as stringy //	t
{ ""it's"" :i64_
} , } packet A{ float64 int
, @rightPad(
    // `tick` ""quote"" 'q'
    '\x00') // a // b
char[ 3] // packet A { u8 x, }
_x @lengthOf( Logon
),
roots @lengthOf( float) , @rightPad ( ' ' ) @lengthOf( options1// c
)@tag( // trailing space 
0 ) char[]pack
@lengthOf(
pack )`two words` , match asx as As	{ [
    7
,
// `tick` ""quote"" 'q'
// " ++ [27880; 37322]%N ++ runes_of_ascii "
4294967296,  """ ++ [128512]%N ++ runes_of_ascii """ ,0123456789	,1
, 0123456789 ]  :charz  ,""" ++ [233]%N ++ runes_of_ascii "t" ++ [233]%N ++ runes_of_ascii """ :  metadata
, """ ++ [233]%N ++ runes_of_ascii "t" ++ [233]%N ++ runes_of_ascii """ : crc
3 : As 3 : As 007 : trueish }, u
@calculatedFrom(
""it's""
)  , zchar[//
00 ] MetaDataX `u8 x,` , i64 BodyLength `crlf
line`
    , // @lengthOf(
repeat u len , @leftPad (
'0' )float  { // `tick` ""quote"" 'q'
i64 pack
`` ,} , } options {
    }options // " ++ [27880; 37322]%N ++ runes_of_ascii "
{	}")).
Eval vm_compute in ("<<<M110>>>" ++ check (runes_of_ascii "
packet float
{ zchar[3 ]crc `two words` ,@lengthOf( uint8x )
// " ++ [128512]%N ++ runes_of_ascii " emoji
// packet A { u8 x, }
repeat BodyLength
{
char BodyLength @lengthOf(asx )
`
` , char[
0123456789
    ]
    As @lengthOf( metadata )`two words` /// triple
,char[] As
    // packet A { u8 x, }
    ,
repeat char[ 0 // trailing space 
] Pad
, }, match
    T
    //
    as leftPad //
{
    ""// no comment"": f32a 0123456789 :i8i8	,  } , @lengthOf(
    Logon) @tag( 0
    )
@lengthOf( repeatCount // `tick` ""quote"" 'q'
) zchar[
3 ]A `crlf
line`, @tag(
// trailing space 
// " ++ [128512]%N ++ runes_of_ascii " emoji
00 )
@rightPad () Z9_
    { stringy
{int @lengthOf(calculatedFrom)
,
match  tag as
Logon
{
[// c
"""" , 4294967296] : Z9_ , //	t
[
""CRC32"" ,
007
//x
//x
, 3 ]	: zchar ,[
4294967296] : As
    [	3
,// trailing space 
10 ] : pack ,
"""" :
    u
, 4294967296 : int } /// triple
, repeat falsey ,//	t
char[	65535
    ] options1
@lengthOf(	asx) ,
    /// triple
    }
    , }  , lengthOf { uint8x /// triple
,
    char[]	u128, f32a { match	i8i8
as
f32a { [ ""{,}""
,  42 ,""a\""b"", 7 , 0 ] : Pad , ""// no comment""	:u8x , 65535 : // trailing space 
crc
    , 65535:_x, },
    char repeatCount // c
, match
Pad
as	msg_type { ""a\\"" // a // b
: // a // b
u
007 : body
/// triple
// " ++ [128512]%N ++ runes_of_ascii " emoji
, ""it's"" : //
u
    255 :Pad ,  """ ++ [28040; 24687]%N ++ runes_of_ascii """:
_x,}
, crc {
    Header// `tick` ""quote"" 'q'
@calculatedFrom( ""{,}""	) ,
char[ 10 ]_x
@calculatedFrom(
    ""it's"") ,i32
    zchar @calculatedFrom(
/// triple
// `tick` ""quote"" 'q'
""" ++ [233]%N ++ runes_of_ascii "t" ++ [233]%N ++ runes_of_ascii """ )`say ""hi""`
, repeat zchar[ 00 ] calculatedFrom`it's` ,} , } , char[]int ,
}, }
    root packet	BodyLength
// " ++ [128512]%N ++ runes_of_ascii " emoji
// " ++ [128512]%N ++ runes_of_ascii " emoji
{ @lengthOf( rootA	) @lengthOf( // " ++ [128512]%N ++ runes_of_ascii " emoji
tag
) uint64 As @lengthOf( /// triple
asx
    )
// @lengthOf(
// a // b
`
` ,	@lengthOf(o // c
)u64 float
    `{ , }`,
    body repeatCount
,zchar[ 3 ] stringy `" ++ [28040; 24687; 31867; 22411]%N ++ runes_of_ascii "` ,} MetaData leftPad{T A
,x x_y_z// @lengthOf(
, float32 BodyLength, char[]
_x `line1
line2`
,
char[ 0123456789] i64_`doc` , char[]
    i8i8 , } packet
BodyLength{
    match string_ as metadata { 3
    // a // b
    : stringy
// `tick` ""quote"" 'q'
//x
, // " ++ [27880; 37322]%N ++ runes_of_ascii "
""\" ++ [233]%N ++ runes_of_ascii """// trailing space 
: // packet A { u8 x, }
pack ,
""" ++ [233]%N ++ runes_of_ascii "t" ++ [233]%N ++ runes_of_ascii """ : charz 7 : float , // c
""`tick`""	: pack
,
} ,
}")).
Eval vm_compute in ("<<<M120>>>" ++ check (runes_of_ascii "
options
    //
    {
_x/// triple
=	007 }
")).
Eval vm_compute in ("<<<M130>>>" ++ check (runes_of_ascii "options //
{ i64_= zchar[
65535 ] }
")).
Eval vm_compute in ("<<<M140>>>" ++ check (runes_of_ascii "//
root packet zchar {@calculatedFrom(
    ""a\\"" )
i64
    // " ++ [27880; 37322]%N ++ runes_of_ascii "
    MetaDataX, leftPad { zchar[
    0]BodyLength `two words` ,	msg_type {msg_type  { zchar	crc
`two words` , }  ,
    repeat tag { repeat
    zchar[ 10	] Header
`" ++ [28040; 24687; 31867; 22411]%N ++ runes_of_ascii "`, chars@calculatedFrom(
""{,}""	) `line1
line2` ,}, trueish , match repeatCount
    // `tick` ""quote"" 'q'
    as
o
{ 42 : T , [ 7
    //	t
    ]:x ,[ 3 ]
:stringy ,
""abc"" :
    roots
// @lengthOf(
// trailing space 
""it's"" :	rootA } //
,} // packet A { u8 x, }
, charz { repeat
    crc { repeat zchar[  1 ]
u , } ,
    }
    , }  , chars  { As	uint8x ,match asx
    as
body
{ 7
: BodyLength
    , [ """ ++ [233]%N ++ runes_of_ascii "t" ++ [233]%N ++ runes_of_ascii """ , // trailing space 
1	] : falsey , [ 1 , """ ++ [128512]%N ++ runes_of_ascii """, ""a\""b"" , ""CRC32"" , ""\" ++ [233]%N ++ runes_of_ascii """
,
    """"
, ""abc"" ,""{,}""] :
pack
    // c
    , 42 : Packet , [
    255
    , ""x y"" ]
// " ++ [27880; 37322]%N ++ runes_of_ascii "
//
: // " ++ [27880; 37322]%N ++ runes_of_ascii "
msg_type ,
},  options1
    @calculatedFrom( ""a	b""
)
    ,  }//x
,
    u128 tag , @calculatedFrom( ""a\""b"" )
@calculatedFrom(
    //
    ""\" ++ [233]%N ++ runes_of_ascii """
)
@tag(  007)match len as x_y_z {
4294967296 :
    i8i8, 7 : lengthOf , 10:
    A , 7:
T}, @lengthOf( calculatedFrom ) @tag(  255) @calculatedFrom(""it's"" )
zchar[ 7
] Packet@lengthOf( leftPad ) ,}
root packet Z9_{
string options1 `` , As u128 , T u128
    `it's` , } // " ++ [128512]%N ++ runes_of_ascii " emoji
options {	trueish =
"""" ; T=
false
; Packet = ""abc"" int = false ; Z9_
= // trailing space 
zchar[//
0 ] }root packet //
As {
//	t
//	t
}")).
Eval vm_compute in ("<<<M150>>>" ++ check (runes_of_ascii "MetaData metadata { } // @lengthOf(")).
Eval vm_compute in ("<<<M160>>>" ++ check (@nil rune)).
Eval vm_compute in ("<<<T160>>>" ++ terms [mkTok 0 "<EOF>" 1 0 false] (mkPacket (mkPtok 0 "<EOF>" 1 0 0) None [])).
Eval vm_compute in ("<<<M170>>>" ++ check (runes_of_ascii "MetaData u {i16 float ,uint8
As `" ++ [233]%N ++ runes_of_ascii "`	, uint64//x
a1 ,string BodyLength
    ,//
char[ 007 ] BodyLength `// not a comment` , zchar _x
`two words` ,
}
options /// triple
{ }packet
rootA {
    repeat
x_y_z {	tag { Logon
    {
zchar[ 42 //	t
] chars @calculatedFrom(	""a	b"" )
,
} , }	,} , //x
@tag( 1
)
// a // b
// packet A { u8 x, }
Header Packet ,	uint64 i8i8@calculatedFrom(// a // b
""it's"" ) `line1
line2`
,u64 MetaDataX ,	_x{ Header {repeat char[
10 ]
    float , match Logon as  Logon {
[ ""\n"" ] :u128 ,	[ 0123456789	, 007 // packet A { u8 x, }
] :
len , [ ""`tick`""
// " ++ [27880; 37322]%N ++ runes_of_ascii "
//x
,  65535 ]:  roots , [ """ ++ [28040; 24687]%N ++ runes_of_ascii """
    ]: A
, [	255 , ""1""]	: u8x ,
    [ ""packet""//x
,0
    ,00 , //	t
""\" ++ [233]%N ++ runes_of_ascii """
    ,""CRC32""
    ,
""`tick`""
, ""a\""b"",  ""`tick`""]
:  i64_	, } ,  }
,	zchar[4294967296]
    leftPad @calculatedFrom( """ ++ [28040; 24687]%N ++ runes_of_ascii """	), repeat zchar[ 255 ]
Logon
// trailing space 
//
, }
    , @leftPad (  '\x00' ) repeat char[
    4294967296 ] pack ,@rightPad (
)/// triple
msg_type@lengthOf( A
) `u8 x,` , @tag( 65535 )	@leftPad ( ' ') repeatCount// a // b
{ i64
asx @lengthOf(
u8x )
, } , repeat leftPad
    {
    i16 _x ,  zchar @calculatedFrom( // a // b
""abc""
) `// not a comment` ,
    }
, char[] len
    //
    , }
")).
Eval vm_compute in ("<<<M180>>>" ++ check (runes_of_ascii "
packet pack { @rightPad
( ' ' ) @lengthOf( float ) @tag( 3
/// triple
// trailing space 
)int64 // `tick` ""quote"" 'q'
tag `two words` , match u128 as
    u { ""{,}""  :
MetaDataX [ 65535 ]: f32a , """ ++ [28040; 24687]%N ++ runes_of_ascii """ : matchKey	,[ ""1"" , 255 ]: As, [ ""1"" ] : len
    , }
    , // `tick` ""quote"" 'q'
@calculatedFrom(
    ""CRC32"" )
    match	charz //	t
as msg_type { 0123456789
:trueish , 7 :// a // b
options1 , 0123456789
: len
// trailing space 
// c
,007 : int
,} ,	} packet x { @lengthOf(
    MetaDataX) @rightPad
    // " ++ [27880; 37322]%N ++ runes_of_ascii "
    (
'\x00'  )@lengthOf( x ) int16
    charz
    `" ++ [28040; 24687; 31867; 22411]%N ++ runes_of_ascii "`	,	repeat
i8 BodyLength ,
zchar
    @lengthOf(
T)
, chars
,
}")).
Eval vm_compute in ("<<<M190>>>" ++ check (runes_of_ascii "MetaData Z9_ {u32
//x
// " ++ [27880; 37322]%N ++ runes_of_ascii "
int `{ , }`, i32 Pad , len i8i8 `two words`
// `tick` ""quote"" 'q'
// " ++ [27880; 37322]%N ++ runes_of_ascii "
, } packet string_{
    @leftPad
    // trailing space 
    ( ' ' ) char[]Pad @calculatedFrom(""a\\"" ) `it's` , repeat
f32  options1  ,
@calculatedFrom(
""abc"" ) asx  `" ++ [28040; 24687; 31867; 22411]%N ++ runes_of_ascii "` ,} root packet packetx {@lengthOf( i8i8 ) int64  trueish  @calculatedFrom(
""" ++ [128512]%N ++ runes_of_ascii """) `{ , }`
, }options
{ }")).
Eval vm_compute in ("<<<M200>>>" ++ check (runes_of_ascii "packet Pad { @leftPad ('0' ) repeat char[7
    // " ++ [27880; 37322]%N ++ runes_of_ascii "
    ] matchKey
,
}packet stringy
    // c
    {
char[] asx
    `crlf
line`
,
// packet A { u8 x, }
// " ++ [27880; 37322]%N ++ runes_of_ascii "
@tag( 0123456789	) repeat
    string_
,float64 u
@calculatedFrom( ""it's"" ) ,
/// triple
// @lengthOf(
}
root packet  packetx {
    /// triple
    } root packet
_x {falsey@calculatedFrom(""CRC32""  )
`// not a comment`
    ,  Z9_ `` , u16
A
    , }	packet
    crc
{ }
")).
Eval vm_compute in ("<<<M210>>>" ++ check (runes_of_ascii "
packet repeatCount { // trailing space 
@leftPad	( '\x00')
roots
trueish,
match
    f32a as
msg_type{
00 :
pack ""// no comment""	: MetaDataX , [	0	, 10 ,
    10
,""" ++ [233]%N ++ runes_of_ascii "t" ++ [233]%N ++ runes_of_ascii """ , ""{,}"" ,  ""a	b"" ,
// c
// `tick` ""quote"" 'q'
""a\\""
, 4294967296]: asx } ,
}
MetaData	T {
//	t
// trailing space 
calculatedFrom
    tag	`doc` , options1 crc `u8 x,` ,
    //	t
    } MetaData i64_ {  char[] MetaDataX,uint64 lengthOf, u16 matchKey `" ++ [233]%N ++ runes_of_ascii "` , i16 trueish, }")).
Eval vm_compute in ("<<<M220>>>" ++ check (runes_of_ascii "options
    {crc = false ; repeatCount = char
    // c
    stringy =false	pack =
    true ; }	MetaData a1 {}
root packet rootA //	t
{ @tag( 65535
    ) repeat BodyLength
    {	zchar Foo , char[]
i8i8,uint32 Packet@lengthOf(u128
    ),} , @calculatedFrom( ""it's""  ) // trailing space 
@tag(7// `tick` ""quote"" 'q'
) // `tick` ""quote"" 'q'
@lengthOf(
u128
) i16 matchKey ,Logon `{ , }`
,zchar[007
    ]
crc @lengthOf( //
zchar )
    , @tag( 0123456789) uint16 // a // b
charz , @tag(  255 )@tag( 42 ) char[] Foo`say ""hi""`
    , Header , @lengthOf( a1 ) i8i8 // c
@lengthOf( u8x ) `u8 x,` , } packet x
{ @calculatedFrom( ""{,}"" )char[] x_y_z @lengthOf( asx)
    `two words`,} MetaData len
{
    // @lengthOf(
    zchar[
/// triple
// packet A { u8 x, }
00 ] u128 `it's` , //x
u32 repeatCount ,
zchar[
10
    ] uint8x
    // packet A { u8 x, }
    , }
")).
Eval vm_compute in ("<<<M230>>>" ++ check (runes_of_ascii "
")).
Eval vm_compute in ("<<<T230>>>" ++ terms [mkTok 0 "<EOF>" 2 0 false] (mkPacket (mkPtok 0 "<EOF>" 2 0 0) None [])).
Eval vm_compute in ("<<<M240>>>" ++ check (runes_of_ascii "MetaData Z9_{  string trueish ``, }
    packet charz
    {
    @leftPad(
    ' ')
// a // b
//
@calculatedFrom(
""\n""
    )@lengthOf(body )repeat charz {
uint32 // c
repeatCount
@calculatedFrom(
// c
// @lengthOf(
""`tick`""
)`say ""hi""`, match tag as u { ""1""  : tag , ""a\\"" : Header , [ 7 ,7
    ,""a	b"" , 007 , ""`tick`""	,	""it's""
,65535, 42
    ]: chars
, ""\n"": //
u8x, } ,
char[] float `two words`
    , charz  repeatCount
,
}
    // `tick` ""quote"" 'q'
    , char[ 7  ] _x `two words`, } packet float{i8 len `" ++ [28040; 24687; 31867; 22411]%N ++ runes_of_ascii "`,roots @calculatedFrom( """ ++ [233]%N ++ runes_of_ascii "t" ++ [233]%N ++ runes_of_ascii """ ) `it's`  , @leftPad
    (' '
    //	t
    ) @lengthOf( int )
// packet A { u8 x, }
// trailing space 
zchar[
4294967296 ]
// c
//
int
    `tab	here` , }")).
Eval vm_compute in ("<<<M250>>>" ++ check (runes_of_ascii "MetaData pack
    {
    char[ 255 ]
// " ++ [128512]%N ++ runes_of_ascii " emoji
// trailing space 
Z9_ , pack body ,
}
    packet
Packet
    { @tag(
65535 )
    match float
    as // " ++ [27880; 37322]%N ++ runes_of_ascii "
roots{
[ 42
    ,
//
// trailing space 
0
    , """ ++ [233]%N ++ runes_of_ascii "t" ++ [233]%N ++ runes_of_ascii """ ,	""a\""b"", ""1"" ,42 ]:
string_
,
""abc"" : a1 ,00: body // `tick` ""quote"" 'q'
, } , } root packet f32a{
@tag( /// triple
255
) @leftPad
    // a // b
    ('0')
    @calculatedFrom(
    """ ++ [128512]%N ++ runes_of_ascii """)
    // @lengthOf(
    i64_ { Logon
    T `
`
    , }
    ,@lengthOf( u
    )
match// packet A { u8 x, }
len
as matchKey { [
""a\\""]
: body	0
    : packetx	, """ ++ [28040; 24687]%N ++ runes_of_ascii """: i64_ , } , //	t
u16 metadata ,// @lengthOf(
} packet
    i8i8
{
char[ 255 ] // c
len `crlf
line`, repeat
Pad
,
    float32 u8x ,
@tag( 3)string u8x , @leftPad
( ' ' ) zchar[ 4294967296
] i64_
    @calculatedFrom(
    ""`tick`"" ) ,} packet
lengthOf{
// " ++ [27880; 37322]%N ++ runes_of_ascii "
//	t
i64
pack`" ++ [233]%N ++ runes_of_ascii "` ,}
")).
Eval vm_compute in ("<<<M260>>>" ++ check (runes_of_ascii "packet  roots { }packet a1 {
@rightPad ( ) @calculatedFrom( // `tick` ""quote"" 'q'
""`tick`"" ) @lengthOf( x  )repeat
// c
//
chars
{ match crc as /// triple
BodyLength {[ // trailing space 
3 ,
    7 ,
""`tick`""	, ""CRC32""]:  Z9_
//x
// c
,
} ,}
, @tag(0123456789
)
    metadata
    Header , @rightPad
(
'0') repeat // " ++ [27880; 37322]%N ++ runes_of_ascii "
asx // packet A { u8 x, }
, @leftPad( '0' )	@tag( 10// `tick` ""quote"" 'q'
) repeat char[ 255 ]
    MetaDataX
    `line1
line2`
    ,	char[
    10 ]	zchar
`it's`	,
repeat string	u,
//
// @lengthOf(
@leftPad (
'0'
)
@calculatedFrom(
    """") @calculatedFrom( ""a\""b"" ) char[ 0123456789 ] charz , @tag(	0123456789 ) char[ 7 ]string_ ,// @lengthOf(
} root packet
    A  { @calculatedFrom(  ""CRC32"" )
repeat zchar[
    4294967296
] // c
msg_type `it's`
    ,@calculatedFrom( ""packet"")
@calculatedFrom(""" ++ [233]%N ++ runes_of_ascii "t" ++ [233]%N ++ runes_of_ascii """ )
@tag( // a // b
0123456789 ) //x
int64// trailing space 
packetx
@calculatedFrom(
// `tick` ""quote"" 'q'
// packet A { u8 x, }
""a\\"") `tab	here` , uint8 msg_type ,	repeat zchar[ 3]x,	crc ,
zchar[ 0123456789 ]  int `" ++ [28040; 24687; 31867; 22411]%N ++ runes_of_ascii "` , }")).
Eval vm_compute in ("<<<M270>>>" ++ check (runes_of_ascii "options
/// triple
//	t
{ repeatCount=
    """ ++ [128512]%N ++ runes_of_ascii """
    i64_ = i64 ; leftPad	= true
    // `tick` ""quote"" 'q'
    ;
leftPad= u64 ; _x =
    '0' ;}")).
Eval vm_compute in ("<<<M280>>>" ++ check (runes_of_ascii "MetaData  msg_type{a1 stringy
    `tab	here`// " ++ [27880; 37322]%N ++ runes_of_ascii "
, char[ 10	]
    chars`" ++ [233]%N ++ runes_of_ascii "` ,
    x_y_z packetx,
    A
int
,
} options {
    calculatedFrom
= ""packet""
// " ++ [27880; 37322]%N ++ runes_of_ascii "
// packet A { u8 x, }
zchar = false pack= """ ++ [128512]%N ++ runes_of_ascii """ ;
    crc =
' '
    ;
}
packet a1 {@lengthOf(stringy //x
)repeat // @lengthOf(
chars	{  repeat uint8x rootA `" ++ [233]%N ++ runes_of_ascii "`
,
    zchar[
10 ]
    u8x`" ++ [28040; 24687; 31867; 22411]%N ++ runes_of_ascii "`
    ,  f64 // @lengthOf(
u128 @lengthOf(A /// triple
)
, }, @calculatedFrom( ""CRC32"" ) rootA {
char[] As , stringy	@lengthOf(
    len )
// " ++ [27880; 37322]%N ++ runes_of_ascii "
// c
, match
int as A { 42 :
    asx, 65535
    : Foo 3
    : Packet 10 :
Header ,00
: msg_type , 65535 :u }
, repeat zchar[ 7	]body, }, /// triple
lengthOf	int
`line1
line2` , match falsey as	u {1:
    rootA // packet A { u8 x, }
, } , char[] matchKey
, }
root// " ++ [27880; 37322]%N ++ runes_of_ascii "
packet
msg_type{ @rightPad (
    '\x00' )	repeat metadata /// triple
`say ""hi""`,@leftPad ( '\x00' ) char[]T	``
    ,
@leftPad
    (  '0' ) zchar[ 0123456789]int // packet A { u8 x, }
, @rightPad
(
    ) i64_ @lengthOf( A ) `
`
,	repeat packetx i64_ `line1
line2` , repeat char[]
lengthOf`" ++ [233]%N ++ runes_of_ascii "` ,// packet A { u8 x, }
@lengthOf( falsey )repeat Header
`it's`
, } packet
crc {
    @calculatedFrom(""abc"" ) @lengthOf( rootA )
    repeatCount
    `it's`, lengthOf body,//
@lengthOf( // packet A { u8 x, }
repeatCount	) @lengthOf( u128 // `tick` ""quote"" 'q'
) // trailing space 
@leftPad // " ++ [128512]%N ++ runes_of_ascii " emoji
(
'\x00' ) zchar[ 7 ] As,  }
")).
Eval vm_compute in ("<<<M290>>>" ++ check (runes_of_ascii "root  packet uint8x { uint8 f32a `{ , }`
,
zchar[
    // a // b
    0 ]
metadata,
zchar {
    repeat float { char[ 00
    // c
    ] roots @lengthOf(
    x )`crlf
line`
// `tick` ""quote"" 'q'
//x
,
zchar[ 7]
chars @calculatedFrom( ""a\\"" ) ,
    i64
rootA	@calculatedFrom( ""{,}"" )
,
} ,
    //x
    char[
10
]
a1 , string Logon@calculatedFrom( ""it's"" ),// a // b
zchar[ 007 ]	Z9_`tab	here` ,}	,
    repeat  u128 A , @rightPad
( '\x00' )
Header @lengthOf(
    Header
//
// trailing space 
)
    ,i64 zchar @calculatedFrom( ""CRC32"") , } options {
// @lengthOf(
// packet A { u8 x, }
repeatCount = 1
    //	t
    i64_ = 1 ;
asx=
' ' ; uint8x =
false
;
rootA = char[  00 ] }
    packet Pad{ @lengthOf(leftPad )float32 // " ++ [27880; 37322]%N ++ runes_of_ascii "
T
    , int64
u128 @calculatedFrom( ""x y"" ) ,crc @calculatedFrom( ""x y"" )
`say ""hi""` ,
char[ 1]rootA
@lengthOf(	stringy
    )
, @lengthOf( Header ) i64
rootA `tab	here` , falsey
@calculatedFrom( ""it's"" ) ,
match tag as
A
{ [ // trailing space 
00 ,
""1""
    ]: metadata , 4294967296:stringy , 255 :
a1 ,} //x
,
    repeat//	t
float64
int
    ,
    // " ++ [128512]%N ++ runes_of_ascii " emoji
    @tag(
    007)// a // b
@leftPad ( ' ' ) @tag( 7 )  uint8 Z9_ @calculatedFrom(
    ""a\\""
) `` ,
    }
//x
")).
Eval vm_compute in ("<<<M300>>>" ++ check (runes_of_ascii "options {
	StringPrefixLenType = u16;
	ArrayPrefixLenType = u16;
}

packet SampleBinary {
    uint16 MsgType `" ++ [28040; 24687; 31867; 22411]%N ++ runes_of_ascii "`,
    u16 BodyLenght @lengthOf(Body) `" ++ [28040; 24687; 20307; 38271; 24230]%N ++ runes_of_ascii "`,
    match MsgType as Body {
        1 : Logon,
        2 : Logout,
        3 : Heartbeat,
        4 : RiskControlRequest,
        5 : RiskControlResponse,
    },
        @calculatedFrom(""CRC32"")
    u32 Ckecksum `" ++ [26657; 39564; 21644]%N ++ runes_of_ascii "`,
}

packet Logon {
     @leftPad('0')
    char[10] UserName `" ++ [29992; 25143; 21517]%N ++ runes_of_ascii "`,
    string Password `" ++ [23494; 30721]%N ++ runes_of_ascii "`,
    uint64 ClientId `" ++ [23458; 25143; 31471]%N ++ runes_of_ascii "ID`,
    u16 HeartbeatInterval `" ++ [24515; 36339; 38388; 38548]%N ++ runes_of_ascii "`,
}

packet Logout {
      @rightPad('0')
    char[10] UserName `" ++ [29992; 25143; 21517]%N ++ runes_of_ascii "`,
    uint64 ClientId `" ++ [23458; 25143; 31471]%N ++ runes_of_ascii "ID`,
}

packet Heartbeat {
}

packet RiskControlRequest {
    string UniqueOrderId `" ++ [21807; 19968; 35746; 21333; 21495]%N ++ runes_of_ascii "`,
    char[16] ClOrdID `" ++ [23458; 25143; 35746; 21333; 21495]%N ++ runes_of_ascii "`,
    char[3] MarketID `" ++ [24066; 22330]%N ++ runes_of_ascii "id`,
    char[12] SecurityID `" ++ [35777; 21048; 20195; 30721]%N ++ runes_of_ascii "`,
    char Side `" ++ [20080; 21334; 26041; 21521]%N ++ runes_of_ascii "`,
    char OrderType `" ++ [35746; 21333; 31867; 22411]%N ++ runes_of_ascii "`,
    u64 Price `" ++ [20215; 26684]%N ++ runes_of_ascii "`,
    u32 Qty `" ++ [25968; 37327]%N ++ runes_of_ascii "`,
    repeat string ExtraInfo `" ++ [38468; 21152; 20449; 24687]%N ++ runes_of_ascii "`,
    repeat SubOrder {
    		char[16] ClOrdID `" ++ [23376; 35746; 21333; 21495]%N ++ runes_of_ascii "`,
    		u64 Price `" ++ [23376; 35746; 21333; 20215; 26684]%N ++ runes_of_ascii "`,
    		u32 Qty `" ++ [23376; 35746; 21333; 25968; 37327]%N ++ runes_of_ascii "`,
    	},
}

packet RiskControlResponse {
    string UniqueOrderId `" ++ [21807; 19968; 35746; 21333; 21495]%N ++ runes_of_ascii "`,
    i32 Status `" ++ [29366; 24577]%N ++ runes_of_ascii "`,
    string Msg `" ++ [32467; 26524; 20449; 24687]%N ++ runes_of_ascii "`,
    repeat Detail,
}

packet Detail {
    string RuleName `" ++ [35268; 21017; 21517; 31216]%N ++ runes_of_ascii "`,
    u16 Code `" ++ [21407; 22240; 20195; 30721]%N ++ runes_of_ascii "`,
}")).
Eval vm_compute in ("<<<T300>>>" ++ terms [mkTok 1 "options" 1 0 false; mkTok 2 "{" 1 8 false; mkTok 42 "StringPrefixLenType" 2 1 false; mkTok 4 "=" 2 21 false; mkTok 21 "u16" 2 23 false; mkTok 41 ";" 2 26 false; mkTok 42 "ArrayPrefixLenType" 3 1 false; mkTok 4 "=" 3 20 false; mkTok 21 "u16" 3 22 false; mkTok 41 ";" 3 25 false; mkTok 3 "}" 4 0 false; mkTok 35 "packet" 6 0 false; mkTok 42 "SampleBinary" 6 7 false; mkTok 2 "{" 6 20 false; mkTok 21 "uint16" 7 4 false; mkTok 42 "MsgType" 7 11 false; mkTok 43 (string_of_bytes [96; 230; 182; 136; 230; 129; 175; 231; 177; 187; 229; 158; 139; 96]%N) 7 19 false; mkTok 40 "," 7 25 false; mkTok 21 "u16" 8 4 false; mkTok 42 "BodyLenght" 8 8 false; mkTok 7 "@lengthOf(" 8 19 false; mkTok 42 "Body" 8 29 false; mkTok 6 ")" 8 33 false; mkTok 43 (string_of_bytes [96; 230; 182; 136; 230; 129; 175; 228; 189; 147; 233; 149; 191; 229; 186; 166; 96]%N) 8 35 false; mkTok 40 "," 8 42 false; mkTok 38 "match" 9 4 false; mkTok 42 "MsgType" 9 10 false; mkTok 17 "as" 9 18 false; mkTok 42 "Body" 9 21 false; mkTok 2 "{" 9 26 false; mkTok 30 "1" 10 8 false; mkTok 39 ":" 10 10 false; mkTok 42 "Logon" 10 12 false; mkTok 40 "," 10 17 false; mkTok 30 "2" 11 8 false; mkTok 39 ":" 11 10 false; mkTok 42 "Logout" 11 12 false; mkTok 40 "," 11 18 false; mkTok 30 "3" 12 8 false; mkTok 39 ":" 12 10 false; mkTok 42 "Heartbeat" 12 12 false; mkTok 40 "," 12 21 false; mkTok 30 "4" 13 8 false; mkTok 39 ":" 13 10 false; mkTok 42 "RiskControlRequest" 13 12 false; mkTok 40 "," 13 30 false; mkTok 30 "5" 14 8 false; mkTok 39 ":" 14 10 false; mkTok 42 "RiskControlResponse" 14 12 false; mkTok 40 "," 14 31 false; mkTok 3 "}" 15 4 false; mkTok 40 "," 15 5 false; mkTok 5 "@calculatedFrom(" 16 8 false; mkTok 31 """CRC32""" 16 24 false; mkTok 6 ")" 16 31 false; mkTok 22 "u32" 17 4 false; mkTok 42 "Ckecksum" 17 8 false; mkTok 43 (string_of_bytes [96; 230; 160; 161; 233; 170; 140; 229; 146; 140; 96]%N) 17 17 false; mkTok 40 "," 17 22 false; mkTok 3 "}" 18 0 false; mkTok 35 "packet" 20 0 false; mkTok 42 "Logon" 20 7 false; mkTok 2 "{" 20 13 false; mkTok 32 "@leftPad" 21 5 false; mkTok 8 "(" 21 13 false; mkTok 33 "'0'" 21 14 false; mkTok 6 ")" 21 17 false; mkTok 12 "char[" 22 4 false; mkTok 30 "10" 22 9 false; mkTok 13 "]" 22 11 false; mkTok 42 "UserName" 22 13 false; mkTok 43 (string_of_bytes [96; 231; 148; 168; 230; 136; 183; 229; 144; 141; 96]%N) 22 22 false; mkTok 40 "," 22 27 false; mkTok 15 "string" 23 4 false; mkTok 42 "Password" 23 11 false; mkTok 43 (string_of_bytes [96; 229; 175; 134; 231; 160; 129; 96]%N) 23 20 false; mkTok 40 "," 23 24 false; mkTok 23 "uint64" 24 4 false; mkTok 42 "ClientId" 24 11 false; mkTok 43 (string_of_bytes [96; 229; 174; 162; 230; 136; 183; 231; 171; 175; 73; 68; 96]%N) 24 20 false; mkTok 40 "," 24 27 false; mkTok 21 "u16" 25 4 false; mkTok 42 "HeartbeatInterval" 25 8 false; mkTok 43 (string_of_bytes [96; 229; 191; 131; 232; 183; 179; 233; 151; 180; 233; 154; 148; 96]%N) 25 26 false; mkTok 40 "," 25 32 false; mkTok 3 "}" 26 0 false; mkTok 35 "packet" 28 0 false; mkTok 42 "Logout" 28 7 false; mkTok 2 "{" 28 14 false; mkTok 32 "@rightPad" 29 6 false; mkTok 8 "(" 29 15 false; mkTok 33 "'0'" 29 16 false; mkTok 6 ")" 29 19 false; mkTok 12 "char[" 30 4 false; mkTok 30 "10" 30 9 false; mkTok 13 "]" 30 11 false; mkTok 42 "UserName" 30 13 false; mkTok 43 (string_of_bytes [96; 231; 148; 168; 230; 136; 183; 229; 144; 141; 96]%N) 30 22 false; mkTok 40 "," 30 27 false; mkTok 23 "uint64" 31 4 false; mkTok 42 "ClientId" 31 11 false; mkTok 43 (string_of_bytes [96; 229; 174; 162; 230; 136; 183; 231; 171; 175; 73; 68; 96]%N) 31 20 false; mkTok 40 "," 31 27 false; mkTok 3 "}" 32 0 false; mkTok 35 "packet" 34 0 false; mkTok 42 "Heartbeat" 34 7 false; mkTok 2 "{" 34 17 false; mkTok 3 "}" 35 0 false; mkTok 35 "packet" 37 0 false; mkTok 42 "RiskControlRequest" 37 7 false; mkTok 2 "{" 37 26 false; mkTok 15 "string" 38 4 false; mkTok 42 "UniqueOrderId" 38 11 false; mkTok 43 (string_of_bytes [96; 229; 148; 175; 228; 184; 128; 232; 174; 162; 229; 141; 149; 229; 143; 183; 96]%N) 38 25 false; mkTok 40 "," 38 32 false; mkTok 12 "char[" 39 4 false; mkTok 30 "16" 39 9 false; mkTok 13 "]" 39 11 false; mkTok 42 "ClOrdID" 39 13 false; mkTok 43 (string_of_bytes [96; 229; 174; 162; 230; 136; 183; 232; 174; 162; 229; 141; 149; 229; 143; 183; 96]%N) 39 21 false; mkTok 40 "," 39 28 false; mkTok 12 "char[" 40 4 false; mkTok 30 "3" 40 9 false; mkTok 13 "]" 40 10 false; mkTok 42 "MarketID" 40 12 false; mkTok 43 (string_of_bytes [96; 229; 184; 130; 229; 156; 186; 105; 100; 96]%N) 40 21 false; mkTok 40 "," 40 27 false; mkTok 12 "char[" 41 4 false; mkTok 30 "12" 41 9 false; mkTok 13 "]" 41 11 false; mkTok 42 "SecurityID" 41 13 false; mkTok 43 (string_of_bytes [96; 232; 175; 129; 229; 136; 184; 228; 187; 163; 231; 160; 129; 96]%N) 41 24 false; mkTok 40 "," 41 30 false; mkTok 19 "char" 42 4 false; mkTok 42 "Side" 42 9 false; mkTok 43 (string_of_bytes [96; 228; 185; 176; 229; 141; 150; 230; 150; 185; 229; 144; 145; 96]%N) 42 14 false; mkTok 40 "," 42 20 false; mkTok 19 "char" 43 4 false; mkTok 42 "OrderType" 43 9 false; mkTok 43 (string_of_bytes [96; 232; 174; 162; 229; 141; 149; 231; 177; 187; 229; 158; 139; 96]%N) 43 19 false; mkTok 40 "," 43 25 false; mkTok 23 "u64" 44 4 false; mkTok 42 "Price" 44 8 false; mkTok 43 (string_of_bytes [96; 228; 187; 183; 230; 160; 188; 96]%N) 44 14 false; mkTok 40 "," 44 18 false; mkTok 22 "u32" 45 4 false; mkTok 42 "Qty" 45 8 false; mkTok 43 (string_of_bytes [96; 230; 149; 176; 233; 135; 143; 96]%N) 45 12 false; mkTok 40 "," 45 16 false; mkTok 36 "repeat" 46 4 false; mkTok 15 "string" 46 11 false; mkTok 42 "ExtraInfo" 46 18 false; mkTok 43 (string_of_bytes [96; 233; 153; 132; 229; 138; 160; 228; 191; 161; 230; 129; 175; 96]%N) 46 28 false; mkTok 40 "," 46 34 false; mkTok 36 "repeat" 47 4 false; mkTok 42 "SubOrder" 47 11 false; mkTok 2 "{" 47 20 false; mkTok 12 "char[" 48 6 false; mkTok 30 "16" 48 11 false; mkTok 13 "]" 48 13 false; mkTok 42 "ClOrdID" 48 15 false; mkTok 43 (string_of_bytes [96; 229; 173; 144; 232; 174; 162; 229; 141; 149; 229; 143; 183; 96]%N) 48 23 false; mkTok 40 "," 48 29 false; mkTok 23 "u64" 49 6 false; mkTok 42 "Price" 49 10 false; mkTok 43 (string_of_bytes [96; 229; 173; 144; 232; 174; 162; 229; 141; 149; 228; 187; 183; 230; 160; 188; 96]%N) 49 16 false; mkTok 40 "," 49 23 false; mkTok 22 "u32" 50 6 false; mkTok 42 "Qty" 50 10 false; mkTok 43 (string_of_bytes [96; 229; 173; 144; 232; 174; 162; 229; 141; 149; 230; 149; 176; 233; 135; 143; 96]%N) 50 14 false; mkTok 40 "," 50 21 false; mkTok 3 "}" 51 5 false; mkTok 40 "," 51 6 false; mkTok 3 "}" 52 0 false; mkTok 35 "packet" 54 0 false; mkTok 42 "RiskControlResponse" 54 7 false; mkTok 2 "{" 54 27 false; mkTok 15 "string" 55 4 false; mkTok 42 "UniqueOrderId" 55 11 false; mkTok 43 (string_of_bytes [96; 229; 148; 175; 228; 184; 128; 232; 174; 162; 229; 141; 149; 229; 143; 183; 96]%N) 55 25 false; mkTok 40 "," 55 32 false; mkTok 26 "i32" 56 4 false; mkTok 42 "Status" 56 8 false; mkTok 43 (string_of_bytes [96; 231; 138; 182; 230; 128; 129; 96]%N) 56 15 false; mkTok 40 "," 56 19 false; mkTok 15 "string" 57 4 false; mkTok 42 "Msg" 57 11 false; mkTok 43 (string_of_bytes [96; 231; 187; 147; 230; 158; 156; 228; 191; 161; 230; 129; 175; 96]%N) 57 15 false; mkTok 40 "," 57 21 false; mkTok 36 "repeat" 58 4 false; mkTok 42 "Detail" 58 11 false; mkTok 40 "," 58 17 false; mkTok 3 "}" 59 0 false; mkTok 35 "packet" 61 0 false; mkTok 42 "Detail" 61 7 false; mkTok 2 "{" 61 14 false; mkTok 15 "string" 62 4 false; mkTok 42 "RuleName" 62 11 false; mkTok 43 (string_of_bytes [96; 232; 167; 132; 229; 136; 153; 229; 144; 141; 231; 167; 176; 96]%N) 62 20 false; mkTok 40 "," 62 26 false; mkTok 21 "u16" 63 4 false; mkTok 42 "Code" 63 8 false; mkTok 43 (string_of_bytes [96; 229; 142; 159; 229; 155; 160; 228; 187; 163; 231; 160; 129; 96]%N) 63 13 false; mkTok 40 "," 63 19 false; mkTok 3 "}" 64 0 false; mkTok 0 "<EOF>" 64 1 false] (mkPacket (mkPtok 1 "options" 1 0 0) (Some (mkPtok 3 "}" 64 0 204)) [(DOption (mkOptionDef (mkSpan (mkPtok 1 "options" 1 0 0) (mkPtok 3 "}" 4 0 10)) (mkPtok 1 "options" 1 0 0) (mkPtok 2 "{" 1 8 1) [(mkOptionDecl (mkSpan (mkPtok 42 "StringPrefixLenType" 2 1 2) (mkPtok 41 ";" 2 26 5)) (mkPtok 42 "StringPrefixLenType" 2 1 2) (mkPtok 4 "=" 2 21 3) (VType (mkSpan (mkPtok 21 "u16" 2 23 4) (mkPtok 21 "u16" 2 23 4)) (TyBasic (mkSpan (mkPtok 21 "u16" 2 23 4) (mkPtok 21 "u16" 2 23 4)) (mkBasicType (mkSpan (mkPtok 21 "u16" 2 23 4) (mkPtok 21 "u16" 2 23 4)) (mkPtok 21 "u16" 2 23 4)))) (Some (mkPtok 41 ";" 2 26 5))); (mkOptionDecl (mkSpan (mkPtok 42 "ArrayPrefixLenType" 3 1 6) (mkPtok 41 ";" 3 25 9)) (mkPtok 42 "ArrayPrefixLenType" 3 1 6) (mkPtok 4 "=" 3 20 7) (VType (mkSpan (mkPtok 21 "u16" 3 22 8) (mkPtok 21 "u16" 3 22 8)) (TyBasic (mkSpan (mkPtok 21 "u16" 3 22 8) (mkPtok 21 "u16" 3 22 8)) (mkBasicType (mkSpan (mkPtok 21 "u16" 3 22 8) (mkPtok 21 "u16" 3 22 8)) (mkPtok 21 "u16" 3 22 8)))) (Some (mkPtok 41 ";" 3 25 9)))] (mkPtok 3 "}" 4 0 10))); (DPacket (mkPacketDef (mkSpan (mkPtok 35 "packet" 6 0 11) (mkPtok 3 "}" 18 0 59)) None (mkPtok 35 "packet" 6 0 11) (mkPtok 42 "SampleBinary" 6 7 12) (mkPtok 2 "{" 6 20 13) [(mkFieldWithAttr (mkSpan (mkPtok 21 "uint16" 7 4 14) (mkPtok 40 "," 7 25 17)) [] (MetaField (mkSpan (mkPtok 21 "uint16" 7 4 14) (mkPtok 40 "," 7 25 17)) None (mkMetaDecl (mkSpan (mkPtok 21 "uint16" 7 4 14) (mkPtok 40 "," 7 25 17)) (TyBasic (mkSpan (mkPtok 21 "uint16" 7 4 14) (mkPtok 21 "uint16" 7 4 14)) (mkBasicType (mkSpan (mkPtok 21 "uint16" 7 4 14) (mkPtok 21 "uint16" 7 4 14)) (mkPtok 21 "uint16" 7 4 14))) (mkPtok 42 "MsgType" 7 11 15) (Some (mkPtok 43 (string_of_bytes [96; 230; 182; 136; 230; 129; 175; 231; 177; 187; 229; 158; 139; 96]%N) 7 19 16)) (mkPtok 40 "," 7 25 17)))); (mkFieldWithAttr (mkSpan (mkPtok 21 "u16" 8 4 18) (mkPtok 40 "," 8 42 24)) [] (LengthField (mkSpan (mkPtok 21 "u16" 8 4 18) (mkPtok 40 "," 8 42 24)) (mkLengthFieldDecl (mkSpan (mkPtok 21 "u16" 8 4 18) (mkPtok 40 "," 8 42 24)) (Some (TyBasic (mkSpan (mkPtok 21 "u16" 8 4 18) (mkPtok 21 "u16" 8 4 18)) (mkBasicType (mkSpan (mkPtok 21 "u16" 8 4 18) (mkPtok 21 "u16" 8 4 18)) (mkPtok 21 "u16" 8 4 18)))) (mkPtok 42 "BodyLenght" 8 8 19) (mkLengthOf (mkSpan (mkPtok 7 "@lengthOf(" 8 19 20) (mkPtok 6 ")" 8 33 22)) (mkPtok 7 "@lengthOf(" 8 19 20) (mkPtok 42 "Body" 8 29 21) (mkPtok 6 ")" 8 33 22)) (Some (mkPtok 43 (string_of_bytes [96; 230; 182; 136; 230; 129; 175; 228; 189; 147; 233; 149; 191; 229; 186; 166; 96]%N) 8 35 23)) (mkPtok 40 "," 8 42 24)))); (mkFieldWithAttr (mkSpan (mkPtok 38 "match" 9 4 25) (mkPtok 40 "," 15 5 51)) [] (MatchField (mkSpan (mkPtok 38 "match" 9 4 25) (mkPtok 40 "," 15 5 51)) (mkMatchFieldDecl (mkSpan (mkPtok 38 "match" 9 4 25) (mkPtok 3 "}" 15 4 50)) (mkPtok 38 "match" 9 4 25) (mkPtok 42 "MsgType" 9 10 26) (mkPtok 17 "as" 9 18 27) (mkPtok 42 "Body" 9 21 28) (mkPtok 2 "{" 9 26 29) [(mkMatchPair (mkSpan (mkPtok 30 "1" 10 8 30) (mkPtok 40 "," 10 17 33)) (MKDigits (mkPtok 30 "1" 10 8 30)) (mkPtok 39 ":" 10 10 31) (mkPtok 42 "Logon" 10 12 32) (Some (mkPtok 40 "," 10 17 33))); (mkMatchPair (mkSpan (mkPtok 30 "2" 11 8 34) (mkPtok 40 "," 11 18 37)) (MKDigits (mkPtok 30 "2" 11 8 34)) (mkPtok 39 ":" 11 10 35) (mkPtok 42 "Logout" 11 12 36) (Some (mkPtok 40 "," 11 18 37))); (mkMatchPair (mkSpan (mkPtok 30 "3" 12 8 38) (mkPtok 40 "," 12 21 41)) (MKDigits (mkPtok 30 "3" 12 8 38)) (mkPtok 39 ":" 12 10 39) (mkPtok 42 "Heartbeat" 12 12 40) (Some (mkPtok 40 "," 12 21 41))); (mkMatchPair (mkSpan (mkPtok 30 "4" 13 8 42) (mkPtok 40 "," 13 30 45)) (MKDigits (mkPtok 30 "4" 13 8 42)) (mkPtok 39 ":" 13 10 43) (mkPtok 42 "RiskControlRequest" 13 12 44) (Some (mkPtok 40 "," 13 30 45))); (mkMatchPair (mkSpan (mkPtok 30 "5" 14 8 46) (mkPtok 40 "," 14 31 49)) (MKDigits (mkPtok 30 "5" 14 8 46)) (mkPtok 39 ":" 14 10 47) (mkPtok 42 "RiskControlResponse" 14 12 48) (Some (mkPtok 40 "," 14 31 49)))] (mkPtok 3 "}" 15 4 50)) (mkPtok 40 "," 15 5 51))); (mkFieldWithAttr (mkSpan (mkPtok 5 "@calculatedFrom(" 16 8 52) (mkPtok 40 "," 17 22 58)) [(FACalculatedFrom (mkSpan (mkPtok 5 "@calculatedFrom(" 16 8 52) (mkPtok 6 ")" 16 31 54)) (mkCalculatedFrom (mkSpan (mkPtok 5 "@calculatedFrom(" 16 8 52) (mkPtok 6 ")" 16 31 54)) (mkPtok 5 "@calculatedFrom(" 16 8 52) (mkPtok 31 """CRC32""" 16 24 53) (mkPtok 6 ")" 16 31 54)))] (MetaField (mkSpan (mkPtok 22 "u32" 17 4 55) (mkPtok 40 "," 17 22 58)) None (mkMetaDecl (mkSpan (mkPtok 22 "u32" 17 4 55) (mkPtok 40 "," 17 22 58)) (TyBasic (mkSpan (mkPtok 22 "u32" 17 4 55) (mkPtok 22 "u32" 17 4 55)) (mkBasicType (mkSpan (mkPtok 22 "u32" 17 4 55) (mkPtok 22 "u32" 17 4 55)) (mkPtok 22 "u32" 17 4 55))) (mkPtok 42 "Ckecksum" 17 8 56) (Some (mkPtok 43 (string_of_bytes [96; 230; 160; 161; 233; 170; 140; 229; 146; 140; 96]%N) 17 17 57)) (mkPtok 40 "," 17 22 58))))] (mkPtok 3 "}" 18 0 59))); (DPacket (mkPacketDef (mkSpan (mkPtok 35 "packet" 20 0 60) (mkPtok 3 "}" 26 0 85)) None (mkPtok 35 "packet" 20 0 60) (mkPtok 42 "Logon" 20 7 61) (mkPtok 2 "{" 20 13 62) [(mkFieldWithAttr (mkSpan (mkPtok 32 "@leftPad" 21 5 63) (mkPtok 40 "," 22 27 72)) [(FAPadding (mkSpan (mkPtok 32 "@leftPad" 21 5 63) (mkPtok 6 ")" 21 17 66)) (mkPaddingAttr (mkSpan (mkPtok 32 "@leftPad" 21 5 63) (mkPtok 6 ")" 21 17 66)) (mkPtok 32 "@leftPad" 21 5 63) (mkPtok 8 "(" 21 13 64) (Some (mkPtok 33 "'0'" 21 14 65)) (mkPtok 6 ")" 21 17 66)))] (MetaField (mkSpan (mkPtok 12 "char[" 22 4 67) (mkPtok 40 "," 22 27 72)) None (mkMetaDecl (mkSpan (mkPtok 12 "char[" 22 4 67) (mkPtok 40 "," 22 27 72)) (TyFixed (mkSpan (mkPtok 12 "char[" 22 4 67) (mkPtok 13 "]" 22 11 69)) (mkFixedString (mkSpan (mkPtok 12 "char[" 22 4 67) (mkPtok 13 "]" 22 11 69)) (mkPtok 12 "char[" 22 4 67) (mkPtok 30 "10" 22 9 68) (mkPtok 13 "]" 22 11 69))) (mkPtok 42 "UserName" 22 13 70) (Some (mkPtok 43 (string_of_bytes [96; 231; 148; 168; 230; 136; 183; 229; 144; 141; 96]%N) 22 22 71)) (mkPtok 40 "," 22 27 72)))); (mkFieldWithAttr (mkSpan (mkPtok 15 "string" 23 4 73) (mkPtok 40 "," 23 24 76)) [] (MetaField (mkSpan (mkPtok 15 "string" 23 4 73) (mkPtok 40 "," 23 24 76)) None (mkMetaDecl (mkSpan (mkPtok 15 "string" 23 4 73) (mkPtok 40 "," 23 24 76)) (TyDynamic (mkSpan (mkPtok 15 "string" 23 4 73) (mkPtok 15 "string" 23 4 73)) (mkDynamicString (mkSpan (mkPtok 15 "string" 23 4 73) (mkPtok 15 "string" 23 4 73)) (mkPtok 15 "string" 23 4 73))) (mkPtok 42 "Password" 23 11 74) (Some (mkPtok 43 (string_of_bytes [96; 229; 175; 134; 231; 160; 129; 96]%N) 23 20 75)) (mkPtok 40 "," 23 24 76)))); (mkFieldWithAttr (mkSpan (mkPtok 23 "uint64" 24 4 77) (mkPtok 40 "," 24 27 80)) [] (MetaField (mkSpan (mkPtok 23 "uint64" 24 4 77) (mkPtok 40 "," 24 27 80)) None (mkMetaDecl (mkSpan (mkPtok 23 "uint64" 24 4 77) (mkPtok 40 "," 24 27 80)) (TyBasic (mkSpan (mkPtok 23 "uint64" 24 4 77) (mkPtok 23 "uint64" 24 4 77)) (mkBasicType (mkSpan (mkPtok 23 "uint64" 24 4 77) (mkPtok 23 "uint64" 24 4 77)) (mkPtok 23 "uint64" 24 4 77))) (mkPtok 42 "ClientId" 24 11 78) (Some (mkPtok 43 (string_of_bytes [96; 229; 174; 162; 230; 136; 183; 231; 171; 175; 73; 68; 96]%N) 24 20 79)) (mkPtok 40 "," 24 27 80)))); (mkFieldWithAttr (mkSpan (mkPtok 21 "u16" 25 4 81) (mkPtok 40 "," 25 32 84)) [] (MetaField (mkSpan (mkPtok 21 "u16" 25 4 81) (mkPtok 40 "," 25 32 84)) None (mkMetaDecl (mkSpan (mkPtok 21 "u16" 25 4 81) (mkPtok 40 "," 25 32 84)) (TyBasic (mkSpan (mkPtok 21 "u16" 25 4 81) (mkPtok 21 "u16" 25 4 81)) (mkBasicType (mkSpan (mkPtok 21 "u16" 25 4 81) (mkPtok 21 "u16" 25 4 81)) (mkPtok 21 "u16" 25 4 81))) (mkPtok 42 "HeartbeatInterval" 25 8 82) (Some (mkPtok 43 (string_of_bytes [96; 229; 191; 131; 232; 183; 179; 233; 151; 180; 233; 154; 148; 96]%N) 25 26 83)) (mkPtok 40 "," 25 32 84))))] (mkPtok 3 "}" 26 0 85))); (DPacket (mkPacketDef (mkSpan (mkPtok 35 "packet" 28 0 86) (mkPtok 3 "}" 32 0 103)) None (mkPtok 35 "packet" 28 0 86) (mkPtok 42 "Logout" 28 7 87) (mkPtok 2 "{" 28 14 88) [(mkFieldWithAttr (mkSpan (mkPtok 32 "@rightPad" 29 6 89) (mkPtok 40 "," 30 27 98)) [(FAPadding (mkSpan (mkPtok 32 "@rightPad" 29 6 89) (mkPtok 6 ")" 29 19 92)) (mkPaddingAttr (mkSpan (mkPtok 32 "@rightPad" 29 6 89) (mkPtok 6 ")" 29 19 92)) (mkPtok 32 "@rightPad" 29 6 89) (mkPtok 8 "(" 29 15 90) (Some (mkPtok 33 "'0'" 29 16 91)) (mkPtok 6 ")" 29 19 92)))] (MetaField (mkSpan (mkPtok 12 "char[" 30 4 93) (mkPtok 40 "," 30 27 98)) None (mkMetaDecl (mkSpan (mkPtok 12 "char[" 30 4 93) (mkPtok 40 "," 30 27 98)) (TyFixed (mkSpan (mkPtok 12 "char[" 30 4 93) (mkPtok 13 "]" 30 11 95)) (mkFixedString (mkSpan (mkPtok 12 "char[" 30 4 93) (mkPtok 13 "]" 30 11 95)) (mkPtok 12 "char[" 30 4 93) (mkPtok 30 "10" 30 9 94) (mkPtok 13 "]" 30 11 95))) (mkPtok 42 "UserName" 30 13 96) (Some (mkPtok 43 (string_of_bytes [96; 231; 148; 168; 230; 136; 183; 229; 144; 141; 96]%N) 30 22 97)) (mkPtok 40 "," 30 27 98)))); (mkFieldWithAttr (mkSpan (mkPtok 23 "uint64" 31 4 99) (mkPtok 40 "," 31 27 102)) [] (MetaField (mkSpan (mkPtok 23 "uint64" 31 4 99) (mkPtok 40 "," 31 27 102)) None (mkMetaDecl (mkSpan (mkPtok 23 "uint64" 31 4 99) (mkPtok 40 "," 31 27 102)) (TyBasic (mkSpan (mkPtok 23 "uint64" 31 4 99) (mkPtok 23 "uint64" 31 4 99)) (mkBasicType (mkSpan (mkPtok 23 "uint64" 31 4 99) (mkPtok 23 "uint64" 31 4 99)) (mkPtok 23 "uint64" 31 4 99))) (mkPtok 42 "ClientId" 31 11 100) (Some (mkPtok 43 (string_of_bytes [96; 229; 174; 162; 230; 136; 183; 231; 171; 175; 73; 68; 96]%N) 31 20 101)) (mkPtok 40 "," 31 27 102))))] (mkPtok 3 "}" 32 0 103))); (DPacket (mkPacketDef (mkSpan (mkPtok 35 "packet" 34 0 104) (mkPtok 3 "}" 35 0 107)) None (mkPtok 35 "packet" 34 0 104) (mkPtok 42 "Heartbeat" 34 7 105) (mkPtok 2 "{" 34 17 106) [] (mkPtok 3 "}" 35 0 107))); (DPacket (mkPacketDef (mkSpan (mkPtok 35 "packet" 37 0 108) (mkPtok 3 "}" 52 0 173)) None (mkPtok 35 "packet" 37 0 108) (mkPtok 42 "RiskControlRequest" 37 7 109) (mkPtok 2 "{" 37 26 110) [(mkFieldWithAttr (mkSpan (mkPtok 15 "string" 38 4 111) (mkPtok 40 "," 38 32 114)) [] (MetaField (mkSpan (mkPtok 15 "string" 38 4 111) (mkPtok 40 "," 38 32 114)) None (mkMetaDecl (mkSpan (mkPtok 15 "string" 38 4 111) (mkPtok 40 "," 38 32 114)) (TyDynamic (mkSpan (mkPtok 15 "string" 38 4 111) (mkPtok 15 "string" 38 4 111)) (mkDynamicString (mkSpan (mkPtok 15 "string" 38 4 111) (mkPtok 15 "string" 38 4 111)) (mkPtok 15 "string" 38 4 111))) (mkPtok 42 "UniqueOrderId" 38 11 112) (Some (mkPtok 43 (string_of_bytes [96; 229; 148; 175; 228; 184; 128; 232; 174; 162; 229; 141; 149; 229; 143; 183; 96]%N) 38 25 113)) (mkPtok 40 "," 38 32 114)))); (mkFieldWithAttr (mkSpan (mkPtok 12 "char[" 39 4 115) (mkPtok 40 "," 39 28 120)) [] (MetaField (mkSpan (mkPtok 12 "char[" 39 4 115) (mkPtok 40 "," 39 28 120)) None (mkMetaDecl (mkSpan (mkPtok 12 "char[" 39 4 115) (mkPtok 40 "," 39 28 120)) (TyFixed (mkSpan (mkPtok 12 "char[" 39 4 115) (mkPtok 13 "]" 39 11 117)) (mkFixedString (mkSpan (mkPtok 12 "char[" 39 4 115) (mkPtok 13 "]" 39 11 117)) (mkPtok 12 "char[" 39 4 115) (mkPtok 30 "16" 39 9 116) (mkPtok 13 "]" 39 11 117))) (mkPtok 42 "ClOrdID" 39 13 118) (Some (mkPtok 43 (string_of_bytes [96; 229; 174; 162; 230; 136; 183; 232; 174; 162; 229; 141; 149; 229; 143; 183; 96]%N) 39 21 119)) (mkPtok 40 "," 39 28 120)))); (mkFieldWithAttr (mkSpan (mkPtok 12 "char[" 40 4 121) (mkPtok 40 "," 40 27 126)) [] (MetaField (mkSpan (mkPtok 12 "char[" 40 4 121) (mkPtok 40 "," 40 27 126)) None (mkMetaDecl (mkSpan (mkPtok 12 "char[" 40 4 121) (mkPtok 40 "," 40 27 126)) (TyFixed (mkSpan (mkPtok 12 "char[" 40 4 121) (mkPtok 13 "]" 40 10 123)) (mkFixedString (mkSpan (mkPtok 12 "char[" 40 4 121) (mkPtok 13 "]" 40 10 123)) (mkPtok 12 "char[" 40 4 121) (mkPtok 30 "3" 40 9 122) (mkPtok 13 "]" 40 10 123))) (mkPtok 42 "MarketID" 40 12 124) (Some (mkPtok 43 (string_of_bytes [96; 229; 184; 130; 229; 156; 186; 105; 100; 96]%N) 40 21 125)) (mkPtok 40 "," 40 27 126)))); (mkFieldWithAttr (mkSpan (mkPtok 12 "char[" 41 4 127) (mkPtok 40 "," 41 30 132)) [] (MetaField (mkSpan (mkPtok 12 "char[" 41 4 127) (mkPtok 40 "," 41 30 132)) None (mkMetaDecl (mkSpan (mkPtok 12 "char[" 41 4 127) (mkPtok 40 "," 41 30 132)) (TyFixed (mkSpan (mkPtok 12 "char[" 41 4 127) (mkPtok 13 "]" 41 11 129)) (mkFixedString (mkSpan (mkPtok 12 "char[" 41 4 127) (mkPtok 13 "]" 41 11 129)) (mkPtok 12 "char[" 41 4 127) (mkPtok 30 "12" 41 9 128) (mkPtok 13 "]" 41 11 129))) (mkPtok 42 "SecurityID" 41 13 130) (Some (mkPtok 43 (string_of_bytes [96; 232; 175; 129; 229; 136; 184; 228; 187; 163; 231; 160; 129; 96]%N) 41 24 131)) (mkPtok 40 "," 41 30 132)))); (mkFieldWithAttr (mkSpan (mkPtok 19 "char" 42 4 133) (mkPtok 40 "," 42 20 136)) [] (MetaField (mkSpan (mkPtok 19 "char" 42 4 133) (mkPtok 40 "," 42 20 136)) None (mkMetaDecl (mkSpan (mkPtok 19 "char" 42 4 133) (mkPtok 40 "," 42 20 136)) (TyBasic (mkSpan (mkPtok 19 "char" 42 4 133) (mkPtok 19 "char" 42 4 133)) (mkBasicType (mkSpan (mkPtok 19 "char" 42 4 133) (mkPtok 19 "char" 42 4 133)) (mkPtok 19 "char" 42 4 133))) (mkPtok 42 "Side" 42 9 134) (Some (mkPtok 43 (string_of_bytes [96; 228; 185; 176; 229; 141; 150; 230; 150; 185; 229; 144; 145; 96]%N) 42 14 135)) (mkPtok 40 "," 42 20 136)))); (mkFieldWithAttr (mkSpan (mkPtok 19 "char" 43 4 137) (mkPtok 40 "," 43 25 140)) [] (MetaField (mkSpan (mkPtok 19 "char" 43 4 137) (mkPtok 40 "," 43 25 140)) None (mkMetaDecl (mkSpan (mkPtok 19 "char" 43 4 137) (mkPtok 40 "," 43 25 140)) (TyBasic (mkSpan (mkPtok 19 "char" 43 4 137) (mkPtok 19 "char" 43 4 137)) (mkBasicType (mkSpan (mkPtok 19 "char" 43 4 137) (mkPtok 19 "char" 43 4 137)) (mkPtok 19 "char" 43 4 137))) (mkPtok 42 "OrderType" 43 9 138) (Some (mkPtok 43 (string_of_bytes [96; 232; 174; 162; 229; 141; 149; 231; 177; 187; 229; 158; 139; 96]%N) 43 19 139)) (mkPtok 40 "," 43 25 140)))); (mkFieldWithAttr (mkSpan (mkPtok 23 "u64" 44 4 141) (mkPtok 40 "," 44 18 144)) [] (MetaField (mkSpan (mkPtok 23 "u64" 44 4 141) (mkPtok 40 "," 44 18 144)) None (mkMetaDecl (mkSpan (mkPtok 23 "u64" 44 4 141) (mkPtok 40 "," 44 18 144)) (TyBasic (mkSpan (mkPtok 23 "u64" 44 4 141) (mkPtok 23 "u64" 44 4 141)) (mkBasicType (mkSpan (mkPtok 23 "u64" 44 4 141) (mkPtok 23 "u64" 44 4 141)) (mkPtok 23 "u64" 44 4 141))) (mkPtok 42 "Price" 44 8 142) (Some (mkPtok 43 (string_of_bytes [96; 228; 187; 183; 230; 160; 188; 96]%N) 44 14 143)) (mkPtok 40 "," 44 18 144)))); (mkFieldWithAttr (mkSpan (mkPtok 22 "u32" 45 4 145) (mkPtok 40 "," 45 16 148)) [] (MetaField (mkSpan (mkPtok 22 "u32" 45 4 145) (mkPtok 40 "," 45 16 148)) None (mkMetaDecl (mkSpan (mkPtok 22 "u32" 45 4 145) (mkPtok 40 "," 45 16 148)) (TyBasic (mkSpan (mkPtok 22 "u32" 45 4 145) (mkPtok 22 "u32" 45 4 145)) (mkBasicType (mkSpan (mkPtok 22 "u32" 45 4 145) (mkPtok 22 "u32" 45 4 145)) (mkPtok 22 "u32" 45 4 145))) (mkPtok 42 "Qty" 45 8 146) (Some (mkPtok 43 (string_of_bytes [96; 230; 149; 176; 233; 135; 143; 96]%N) 45 12 147)) (mkPtok 40 "," 45 16 148)))); (mkFieldWithAttr (mkSpan (mkPtok 36 "repeat" 46 4 149) (mkPtok 40 "," 46 34 153)) [] (MetaField (mkSpan (mkPtok 36 "repeat" 46 4 149) (mkPtok 40 "," 46 34 153)) (Some (mkPtok 36 "repeat" 46 4 149)) (mkMetaDecl (mkSpan (mkPtok 15 "string" 46 11 150) (mkPtok 40 "," 46 34 153)) (TyDynamic (mkSpan (mkPtok 15 "string" 46 11 150) (mkPtok 15 "string" 46 11 150)) (mkDynamicString (mkSpan (mkPtok 15 "string" 46 11 150) (mkPtok 15 "string" 46 11 150)) (mkPtok 15 "string" 46 11 150))) (mkPtok 42 "ExtraInfo" 46 18 151) (Some (mkPtok 43 (string_of_bytes [96; 233; 153; 132; 229; 138; 160; 228; 191; 161; 230; 129; 175; 96]%N) 46 28 152)) (mkPtok 40 "," 46 34 153)))); (mkFieldWithAttr (mkSpan (mkPtok 36 "repeat" 47 4 154) (mkPtok 40 "," 51 6 172)) [] (InerObjectField (mkSpan (mkPtok 36 "repeat" 47 4 154) (mkPtok 40 "," 51 6 172)) (Some (mkPtok 36 "repeat" 47 4 154)) (InerObjectDecl (mkSpan (mkPtok 42 "SubOrder" 47 11 155) (mkPtok 3 "}" 51 5 171)) (mkPtok 42 "SubOrder" 47 11 155) (mkPtok 2 "{" 47 20 156) [(MetaField (mkSpan (mkPtok 12 "char[" 48 6 157) (mkPtok 40 "," 48 29 162)) None (mkMetaDecl (mkSpan (mkPtok 12 "char[" 48 6 157) (mkPtok 40 "," 48 29 162)) (TyFixed (mkSpan (mkPtok 12 "char[" 48 6 157) (mkPtok 13 "]" 48 13 159)) (mkFixedString (mkSpan (mkPtok 12 "char[" 48 6 157) (mkPtok 13 "]" 48 13 159)) (mkPtok 12 "char[" 48 6 157) (mkPtok 30 "16" 48 11 158) (mkPtok 13 "]" 48 13 159))) (mkPtok 42 "ClOrdID" 48 15 160) (Some (mkPtok 43 (string_of_bytes [96; 229; 173; 144; 232; 174; 162; 229; 141; 149; 229; 143; 183; 96]%N) 48 23 161)) (mkPtok 40 "," 48 29 162))); (MetaField (mkSpan (mkPtok 23 "u64" 49 6 163) (mkPtok 40 "," 49 23 166)) None (mkMetaDecl (mkSpan (mkPtok 23 "u64" 49 6 163) (mkPtok 40 "," 49 23 166)) (TyBasic (mkSpan (mkPtok 23 "u64" 49 6 163) (mkPtok 23 "u64" 49 6 163)) (mkBasicType (mkSpan (mkPtok 23 "u64" 49 6 163) (mkPtok 23 "u64" 49 6 163)) (mkPtok 23 "u64" 49 6 163))) (mkPtok 42 "Price" 49 10 164) (Some (mkPtok 43 (string_of_bytes [96; 229; 173; 144; 232; 174; 162; 229; 141; 149; 228; 187; 183; 230; 160; 188; 96]%N) 49 16 165)) (mkPtok 40 "," 49 23 166))); (MetaField (mkSpan (mkPtok 22 "u32" 50 6 167) (mkPtok 40 "," 50 21 170)) None (mkMetaDecl (mkSpan (mkPtok 22 "u32" 50 6 167) (mkPtok 40 "," 50 21 170)) (TyBasic (mkSpan (mkPtok 22 "u32" 50 6 167) (mkPtok 22 "u32" 50 6 167)) (mkBasicType (mkSpan (mkPtok 22 "u32" 50 6 167) (mkPtok 22 "u32" 50 6 167)) (mkPtok 22 "u32" 50 6 167))) (mkPtok 42 "Qty" 50 10 168) (Some (mkPtok 43 (string_of_bytes [96; 229; 173; 144; 232; 174; 162; 229; 141; 149; 230; 149; 176; 233; 135; 143; 96]%N) 50 14 169)) (mkPtok 40 "," 50 21 170)))] (mkPtok 3 "}" 51 5 171)) (mkPtok 40 "," 51 6 172)))] (mkPtok 3 "}" 52 0 173))); (DPacket (mkPacketDef (mkSpan (mkPtok 35 "packet" 54 0 174) (mkPtok 3 "}" 59 0 192)) None (mkPtok 35 "packet" 54 0 174) (mkPtok 42 "RiskControlResponse" 54 7 175) (mkPtok 2 "{" 54 27 176) [(mkFieldWithAttr (mkSpan (mkPtok 15 "string" 55 4 177) (mkPtok 40 "," 55 32 180)) [] (MetaField (mkSpan (mkPtok 15 "string" 55 4 177) (mkPtok 40 "," 55 32 180)) None (mkMetaDecl (mkSpan (mkPtok 15 "string" 55 4 177) (mkPtok 40 "," 55 32 180)) (TyDynamic (mkSpan (mkPtok 15 "string" 55 4 177) (mkPtok 15 "string" 55 4 177)) (mkDynamicString (mkSpan (mkPtok 15 "string" 55 4 177) (mkPtok 15 "string" 55 4 177)) (mkPtok 15 "string" 55 4 177))) (mkPtok 42 "UniqueOrderId" 55 11 178) (Some (mkPtok 43 (string_of_bytes [96; 229; 148; 175; 228; 184; 128; 232; 174; 162; 229; 141; 149; 229; 143; 183; 96]%N) 55 25 179)) (mkPtok 40 "," 55 32 180)))); (mkFieldWithAttr (mkSpan (mkPtok 26 "i32" 56 4 181) (mkPtok 40 "," 56 19 184)) [] (MetaField (mkSpan (mkPtok 26 "i32" 56 4 181) (mkPtok 40 "," 56 19 184)) None (mkMetaDecl (mkSpan (mkPtok 26 "i32" 56 4 181) (mkPtok 40 "," 56 19 184)) (TyBasic (mkSpan (mkPtok 26 "i32" 56 4 181) (mkPtok 26 "i32" 56 4 181)) (mkBasicType (mkSpan (mkPtok 26 "i32" 56 4 181) (mkPtok 26 "i32" 56 4 181)) (mkPtok 26 "i32" 56 4 181))) (mkPtok 42 "Status" 56 8 182) (Some (mkPtok 43 (string_of_bytes [96; 231; 138; 182; 230; 128; 129; 96]%N) 56 15 183)) (mkPtok 40 "," 56 19 184)))); (mkFieldWithAttr (mkSpan (mkPtok 15 "string" 57 4 185) (mkPtok 40 "," 57 21 188)) [] (MetaField (mkSpan (mkPtok 15 "string" 57 4 185) (mkPtok 40 "," 57 21 188)) None (mkMetaDecl (mkSpan (mkPtok 15 "string" 57 4 185) (mkPtok 40 "," 57 21 188)) (TyDynamic (mkSpan (mkPtok 15 "string" 57 4 185) (mkPtok 15 "string" 57 4 185)) (mkDynamicString (mkSpan (mkPtok 15 "string" 57 4 185) (mkPtok 15 "string" 57 4 185)) (mkPtok 15 "string" 57 4 185))) (mkPtok 42 "Msg" 57 11 186) (Some (mkPtok 43 (string_of_bytes [96; 231; 187; 147; 230; 158; 156; 228; 191; 161; 230; 129; 175; 96]%N) 57 15 187)) (mkPtok 40 "," 57 21 188)))); (mkFieldWithAttr (mkSpan (mkPtok 36 "repeat" 58 4 189) (mkPtok 40 "," 58 17 191)) [] (ObjectField (mkSpan (mkPtok 36 "repeat" 58 4 189) (mkPtok 40 "," 58 17 191)) (Some (mkPtok 36 "repeat" 58 4 189)) (mkPtok 42 "Detail" 58 11 190) None None (mkPtok 40 "," 58 17 191)))] (mkPtok 3 "}" 59 0 192))); (DPacket (mkPacketDef (mkSpan (mkPtok 35 "packet" 61 0 193) (mkPtok 3 "}" 64 0 204)) None (mkPtok 35 "packet" 61 0 193) (mkPtok 42 "Detail" 61 7 194) (mkPtok 2 "{" 61 14 195) [(mkFieldWithAttr (mkSpan (mkPtok 15 "string" 62 4 196) (mkPtok 40 "," 62 26 199)) [] (MetaField (mkSpan (mkPtok 15 "string" 62 4 196) (mkPtok 40 "," 62 26 199)) None (mkMetaDecl (mkSpan (mkPtok 15 "string" 62 4 196) (mkPtok 40 "," 62 26 199)) (TyDynamic (mkSpan (mkPtok 15 "string" 62 4 196) (mkPtok 15 "string" 62 4 196)) (mkDynamicString (mkSpan (mkPtok 15 "string" 62 4 196) (mkPtok 15 "string" 62 4 196)) (mkPtok 15 "string" 62 4 196))) (mkPtok 42 "RuleName" 62 11 197) (Some (mkPtok 43 (string_of_bytes [96; 232; 167; 132; 229; 136; 153; 229; 144; 141; 231; 167; 176; 96]%N) 62 20 198)) (mkPtok 40 "," 62 26 199)))); (mkFieldWithAttr (mkSpan (mkPtok 21 "u16" 63 4 200) (mkPtok 40 "," 63 19 203)) [] (MetaField (mkSpan (mkPtok 21 "u16" 63 4 200) (mkPtok 40 "," 63 19 203)) None (mkMetaDecl (mkSpan (mkPtok 21 "u16" 63 4 200) (mkPtok 40 "," 63 19 203)) (TyBasic (mkSpan (mkPtok 21 "u16" 63 4 200) (mkPtok 21 "u16" 63 4 200)) (mkBasicType (mkSpan (mkPtok 21 "u16" 63 4 200) (mkPtok 21 "u16" 63 4 200)) (mkPtok 21 "u16" 63 4 200))) (mkPtok 42 "Code" 63 8 201) (Some (mkPtok 43 (string_of_bytes [96; 229; 142; 159; 229; 155; 160; 228; 187; 163; 231; 160; 129; 96]%N) 63 13 202)) (mkPtok 40 "," 63 19 203))))] (mkPtok 3 "}" 64 0 204)))])).
Eval vm_compute in ("<<<M310>>>" ++ check (runes_of_ascii "packet packet  calculatedFrom{ @rightPad(	' '
    )@lengthOf( uint8x
)	i32  options1 ,u ,
    //	t
    len @lengthOf(
int // trailing space 
)
    , @tag( 42 ) repeat uint32 u ,
    }")).
Eval vm_compute in ("<<<M320>>>" ++ check (runes_of_ascii "packet  calculatedFrom{ { @rightPad(	' '
    )@lengthOf( uint8x
)	i32  options1 ,u ,
    //	t
    len @lengthOf(
int // trailing space 
)
    , @tag( 42 ) repeat uint32 u ,
    }")).
Eval vm_compute in ("<<<M330>>>" ++ check (runes_of_ascii "packet  calculatedFrom{ @rightPad( (	' '
    )@lengthOf( uint8x
)	i32  options1 ,u ,
    //	t
    len @lengthOf(
int // trailing space 
)
    , @tag( 42 ) repeat uint32 u ,
    }")).
Eval vm_compute in ("<<<M340>>>" ++ check (runes_of_ascii "packet  calculatedFrom{ @rightPad(	' '
    ) )@lengthOf( uint8x
)	i32  options1 ,u ,
    //	t
    len @lengthOf(
int // trailing space 
)
    , @tag( 42 ) repeat uint32 u ,
    }")).
Eval vm_compute in ("<<<M350>>>" ++ check (runes_of_ascii "packet  calculatedFrom{ @rightPad(	' '
    )@lengthOf( uint8x uint8x
)	i32  options1 ,u ,
    //	t
    len @lengthOf(
int // trailing space 
)
    , @tag( 42 ) repeat uint32 u ,
    }")).
Eval vm_compute in ("<<<M360>>>" ++ check (runes_of_ascii "packet  calculatedFrom{ @rightPad(	' '
    )@lengthOf( uint8x
)	i32 i32  options1 ,u ,
    //	t
    len @lengthOf(
int // trailing space 
)
    , @tag( 42 ) repeat uint32 u ,
    }")).
Eval vm_compute in ("<<<M370>>>" ++ check (runes_of_ascii "packet  calculatedFrom{ @rightPad(	' '
    )@lengthOf( uint8x
)	i32  options1 , ,u ,
    //	t
    len @lengthOf(
int // trailing space 
)
    , @tag( 42 ) repeat uint32 u ,
    }")).
Eval vm_compute in ("<<<M380>>>" ++ check (runes_of_ascii "packet  calculatedFrom{ @rightPad(	' '
    )@lengthOf( uint8x
)	i32  options1 ,u , ,
    //	t
    len @lengthOf(
int // trailing space 
)
    , @tag( 42 ) repeat uint32 u ,
    }")).
Eval vm_compute in ("<<<M390>>>" ++ check (runes_of_ascii "packet  calculatedFrom{ @rightPad(	' '
    )@lengthOf( uint8x
)	i32  options1 ,u ,
    //	t
    len @lengthOf( @lengthOf(
int // trailing space 
)
    , @tag( 42 ) repeat uint32 u ,
    }")).
Eval vm_compute in ("<<<M400>>>" ++ check (runes_of_ascii "packet  calculatedFrom{ @rightPad(	' '
    )@lengthOf( uint8x
)	i32  options1 ,u ,
    //	t
    len @lengthOf(
int // trailing space 
) )
    , @tag( 42 ) repeat uint32 u ,
    }")).
Eval vm_compute in ("<<<M410>>>" ++ check (runes_of_ascii "packet  calculatedFrom{ @rightPad(	' '
    )@lengthOf( uint8x
)	i32  options1 ,u ,
    //	t
    len @lengthOf(
int // trailing space 
)
    , @tag( @tag( 42 ) repeat uint32 u ,
    }")).
Eval vm_compute in ("<<<M420>>>" ++ check (runes_of_ascii "packet  calculatedFrom{ @rightPad(	' '
    )@lengthOf( uint8x
)	i32  options1 ,u ,
    //	t
    len @lengthOf(
int // trailing space 
)
    , @tag( 42 ) ) repeat uint32 u ,
    }")).
Eval vm_compute in ("<<<M430>>>" ++ check (runes_of_ascii "packet  calculatedFrom{ @rightPad(	' '
    )@lengthOf( uint8x
)	i32  options1 ,u ,
    //	t
    len @lengthOf(
int // trailing space 
)
    , @tag( 42 ) repeat uint32 uint32 u ,
    }")).
Eval vm_compute in ("<<<M440>>>" ++ check (runes_of_ascii "packet  calculatedFrom{ @rightPad(	' '
    )@lengthOf( uint8x
)	i32  options1 ,u ,
    //	t
    len @lengthOf(
int // trailing space 
)
    , @tag( 42 ) repeat uint32 u , ,
    }")).
Eval vm_compute in ("<<<M450>>>" ++ check (runes_of_ascii "packet  calculatedFrom{ @rightPad(	' '
    )@lengthOf( uint8x
)	i32  options1 ,u ,
    //	t
    len @lengthOf(
int // ")).
Eval vm_compute in ("<<<M460>>>" ++ check (runes_of_ascii "packet  calculatedFrom{ @rightPad(	' '
    )@lengthOf( uint8x
)	i32  options1 ,u ,
    //	t
    len @lengthOf(
int // trailing sp%ace 
)
    , @tag( 42 ) repeat uint32 u ,
    }")).
Eval vm_compute in ("<<<M470>>>" ++ check (runes_of_ascii "MetaData u// packet A { u8 x, }
{ A
// c
//	t
i64_ ,char[ 255 ]
    = , zchar[
65535 ]
    tag `" ++ [233]%N ++ runes_of_ascii "`
    ,int32 lengthOf	, }
")).
Eval vm_compute in ("<<<M480>>>" ++ check (runes_of_ascii "MetaData u// packet A { u8 x, }
{ A
// c
//	t
i64_ ,char[ 255 ]
    repeatCount , zchar[
65535 ]
    tag `" ++ [233]%N ++ runes_of_ascii "`
    ,lengthOf int32	, }
")).
Eval vm_compute in ("<<<M490>>>" ++ check (runes_of_ascii "MetaData u// packet A { u8 x, }
{ A
// c
//	t
i64_ ,char[ 255 ]
    repeatCount , , zchar[
65535 ]
    tag `" ++ [233]%N ++ runes_of_ascii "`
    ,int32 lengthOf	, }
")).
Eval vm_compute in ("<<<M500>>>" ++ check (runes_of_ascii "MetaData u// packet A { u8 x, }
{ 
// c
//	t
i64_ ,char[ 255 ]
    repeatCount , zchar[
65535 ]
    tag `" ++ [233]%N ++ runes_of_ascii "`
    ,int32 lengthOf	, }
")).
Eval vm_compute in ("<<<M510>>>" ++ check (runes_of_ascii "MetaData u// packet A { u8 x, }
{ A
// c
//	t
i64_ ,char[ 255 ]
    repeatCount , zchar[
65535 ]
    tag float64
    ,int32 lengthOf	, }
")).
Eval vm_compute in ("<<<M520>>>" ++ check (runes_of_ascii "MetaData u// packet A { u8 x, }
{ A
// c
//	t
 ,char[ 255 ]
    repeatCount , zchar[
65535 ]
    tag `" ++ [233]%N ++ runes_of_ascii "`
    ,int32 lengthOf	, }
")).
Eval vm_compute in ("<<<M530>>>" ++ check (runes_of_ascii "MetaData u// packet A { u8 x, }
{ A
// c
//	t
i64_ ,char[ 255 ]
    repeatCount , zchar[
65535 ]
    tag `" ++ [233]%N ++ runes_of_ascii "`
    ,int32 ,	lengthOf }
")).
Eval vm_compute in ("<<<M540>>>" ++ check (runes_of_ascii "MetaData u// packet A { u8 x, }
{ A
// c
//	t
i64_ ,char[ 255 ]
    repeatCount , 65535
zchar[ ]
    tag `" ++ [233]%N ++ runes_of_ascii "`
    ,int32 lengthOf	, }
")).
Eval vm_compute in ("<<<M550>>>" ++ check (runes_of_ascii "MetaData u// packet A { u8 x, }
{ A
// c
//	t
i64_ ,char[ ] 255
    repeatCount , zchar[
65535 ]
    tag `" ++ [233]%N ++ runes_of_ascii "`
    ,int32 lengthOf	, }
")).
Eval vm_compute in ("<<<M560>>>" ++ check (runes_of_ascii "MetaData u// packet A { u8 x, }
{ A")).
Eval vm_compute in ("<<<M570>>>" ++ check (runes_of_ascii "//")).
Eval vm_compute in ("<<<T570>>>" ++ terms [mkTok 44 "//" 1 0 true; mkTok 0 "<EOF>" 1 2 false] (mkPacket (mkPtok 0 "<EOF>" 1 2 1) None [])).
Eval vm_compute in ("<<<M580>>>" ++ check (runes_of_ascii "char[] zchar[ options true false int32 string uint32 repeat i16")).
Eval vm_compute in ("<<<M590>>>" ++ check (runes_of_ascii """*A""pw?3@Y3)")).
