From FP Require Import Lexer Parser ShowPT Digest.
From Coq Require Import String List NArith.
Import ListNotations.
Open Scope string_scope.
Set Printing Width 100000000.
Set Printing Depth 100000000.
Definition nl : string := String (Ascii.ascii_of_nat 10) EmptyString.
Definition model_lex (rs : list rune) : string := show_toks (lex rs).
Definition model_parse (rs : list rune) : string :=
  show_pt (match lex rs with Some ts => parse ts | None => None end).
(* coqc is slow at printing long strings: digests first (Digest.v), full texts on demand *)
Definition check (rs : list rune) : string :=
  digest (model_lex rs) ++ " " ++ digest (model_parse rs).
Definition full (rs : list rune) : string := model_lex rs ++ nl ++ model_parse rs.
Definition terms (ts : list tok) (t : pt) : string :=
  digest (show_toks (Some ts)) ++ " " ++ digest (show_pt (Some t)) ++ " " ++ digest (show_pt (parse ts)).
Definition terms_full (ts : list tok) (t : pt) : string :=
  show_toks (Some ts) ++ nl ++ show_pt (Some t) ++ nl ++ show_pt (parse ts).
Eval vm_compute in ("<<<M5>>>" ++ check (runes_of_ascii "root packet // a // b
chars{
    u32
u8x `it's`
    , A o
,
Packet {u/// triple
`doc` , repeat
// @lengthOf(
// " ++ [128512]%N ++ runes_of_ascii " emoji
Header
    u8x  ,
i8i8
As , } , @calculatedFrom(
// `tick` ""quote"" 'q'
// trailing space 
""a\\"" ) charz
    { //x
char[]a1 , //
string Pad , x repeatCount
, metadata {
chars{ body`a\`  , match
    trueish as lengthOf
    { 0:u8x
    , } , match packetx as	string_  {0123456789
:BodyLength , } , } ,
repeat calculatedFrom
    roots
    ,
repeat
Packet
    ,int32 Logon, }
    ,// c
}, repeatCount,
    @lengthOf( float) match trueish as Header { [ ""{,}"" , ""1""
]
    : // " ++ [27880; 37322]%N ++ runes_of_ascii "
f32a ,} ,	i16 chars
    , match As  as Pad { 3: f32a , [ 4294967296
    ] : body,[	""{,}""
]
: u8x // `tick` ""quote"" 'q'
, ""a	b"" :
    Z9_,
    // packet A { u8 x, }
    } ,// " ++ [27880; 37322]%N ++ runes_of_ascii "
} //x")).
Eval vm_compute in ("<<<M15>>>" ++ check (runes_of_ascii "options
    { Z9_
    =
""" ++ [233]%N ++ runes_of_ascii "t" ++ [233]%N ++ runes_of_ascii """; rootA = string; } // trailing space ")).
Eval vm_compute in ("<<<M25>>>" ++ check (runes_of_ascii "root
    packet u128{pack @lengthOf(MetaDataX)	`say ""hi""` ,repeat lengthOf {
    int8 o
    `crlf
line` ,
    } // " ++ [27880; 37322]%N ++ runes_of_ascii "
, @lengthOf( tag
    ) char[
    007
    ] chars @lengthOf(MetaDataX ) , u
    @calculatedFrom( ""\n"" )// `tick` ""quote"" 'q'
, @lengthOf(  Z9_
    ) u32 A
@lengthOf( charz ) ,u16 float@lengthOf(
    As ) ,A u128
// packet A { u8 x, }
// packet A { u8 x, }
`a\` /// triple
, x_y_z@lengthOf(stringy  )
`a\` ,
}
    root packet x_y_z
    {@lengthOf( crc	)  i64 pack // " ++ [27880; 37322]%N ++ runes_of_ascii "
@lengthOf(
    float ) `say ""hi""`
, }MetaData  uint8x{ }
    root packet  trueish {  zchar[ 4294967296  ] float@lengthOf( matchKey
    )/// triple
,@lengthOf( o
    ) repeat float rootA
    , @tag(  7	) int64 // " ++ [128512]%N ++ runes_of_ascii " emoji
falsey@lengthOf( options1 ) ,Logon// @lengthOf(
{ tag
@lengthOf(a1 ) , asx `// not a comment` , float32 zchar
    ,Pad @calculatedFrom( ""`tick`"" )// @lengthOf(
,
    } , // trailing space 
@lengthOf( int
    ) repeat // a // b
rootA// trailing space 
u128 ,
    repeat char[] leftPad , int8 _x // a // b
,
    Packet `` ,
    // " ++ [27880; 37322]%N ++ runes_of_ascii "
    match
len	as uint8x { ""a	b""
:
lengthOf
,""\" ++ [233]%N ++ runes_of_ascii """ :pack
[ // a // b
""x y""  ,""packet""
, """ ++ [128512]%N ++ runes_of_ascii """
    // " ++ [27880; 37322]%N ++ runes_of_ascii "
    ,	""\" ++ [233]%N ++ runes_of_ascii """ , 255 , ""{,}""
    ]:
lengthOf
    , [ ""abc"", 00  ,
    ""a\\"" , ""// no comment""
, 00 , 007, 0 , ""packet""]: Packet  }
    // " ++ [27880; 37322]%N ++ runes_of_ascii "
    , @leftPad()
    u i64_ ,
}
packet trueish { }
")).
Eval vm_compute in ("<<<M35>>>" ++ check (runes_of_ascii "MetaData trueish { char[]chars , char[] int
    ,}
")).
Eval vm_compute in ("<<<M45>>>" ++ check (runes_of_ascii "MetaData Foo
    {
    chars i8i8 ,  }MetaData
// trailing space 
// " ++ [27880; 37322]%N ++ runes_of_ascii "
BodyLength{calculatedFrom a1 `it's`
,
} packet Z9_ //	t
{ @calculatedFrom(
    """ ++ [128512]%N ++ runes_of_ascii """ ) @lengthOf( metadata )
    string a1
    /// triple
    `{ , }` ,
    match
u8x as o { 10
:  Foo // @lengthOf(
, ""abc"" : falsey},
}
")).
Eval vm_compute in ("<<<M55>>>" ++ check (runes_of_ascii "// `tick` ""quote"" 'q'
root packet u128{Z9_ { match trueish // c
as rootA { [	""abc"" , ""{,}""
,// c
0 ]
: MetaDataX [
""a\""b""
]
: tag ,
""CRC32"" :
//	t
/// triple
options1 ,
    [
    """ ++ [28040; 24687]%N ++ runes_of_ascii """,
""a\\"" ] :
lengthOf
    , ""a\""b""
: chars ,
    } , }
,
    @rightPad( '0'	) @calculatedFrom( ""CRC32"" ) char[00 ] packetx,
} // a // b")).
Eval vm_compute in ("<<<T55>>>" ++ terms [mkTok 44 "// `tick` ""quote"" 'q'" 1 0 true; mkTok 34 "root" 2 0 false; mkTok 35 "packet" 2 5 false; mkTok 42 "u128" 2 12 false; mkTok 2 "{" 2 16 false; mkTok 42 "Z9_" 2 17 false; mkTok 2 "{" 2 21 false; mkTok 38 "match" 2 23 false; mkTok 42 "trueish" 2 29 false; mkTok 44 "// c" 2 37 true; mkTok 17 "as" 3 0 false; mkTok 42 "rootA" 3 3 false; mkTok 2 "{" 3 9 false; mkTok 18 "[" 3 11 false; mkTok 31 """abc""" 3 13 false; mkTok 40 "," 3 19 false; mkTok 31 """{,}""" 3 21 false; mkTok 40 "," 4 0 false; mkTok 44 "// c" 4 1 true; mkTok 30 "0" 5 0 false; mkTok 13 "]" 5 2 false; mkTok 39 ":" 6 0 false; mkTok 42 "MetaDataX" 6 2 false; mkTok 18 "[" 6 12 false; mkTok 31 """a\""b""" 7 0 false; mkTok 13 "]" 8 0 false; mkTok 39 ":" 9 0 false; mkTok 42 "tag" 9 2 false; mkTok 40 "," 9 6 false; mkTok 31 """CRC32""" 10 0 false; mkTok 39 ":" 10 8 false; mkTok 44 (string_of_bytes [47; 47; 9; 116]%N) 11 0 true; mkTok 44 "/// triple" 12 0 true; mkTok 42 "options1" 13 0 false; mkTok 40 "," 13 9 false; mkTok 18 "[" 14 4 false; mkTok 31 (string_of_bytes [34; 230; 182; 136; 230; 129; 175; 34]%N) 15 4 false; mkTok 40 "," 15 8 false; mkTok 31 """a\\""" 16 0 false; mkTok 13 "]" 16 6 false; mkTok 39 ":" 16 8 false; mkTok 42 "lengthOf" 17 0 false; mkTok 40 "," 18 4 false; mkTok 31 """a\""b""" 18 6 false; mkTok 39 ":" 19 0 false; mkTok 42 "chars" 19 2 false; mkTok 40 "," 19 8 false; mkTok 3 "}" 20 4 false; mkTok 40 "," 20 6 false; mkTok 3 "}" 20 8 false; mkTok 40 "," 21 0 false; mkTok 32 "@rightPad" 22 4 false; mkTok 8 "(" 22 13 false; mkTok 33 "'0'" 22 15 false; mkTok 6 ")" 22 19 false; mkTok 5 "@calculatedFrom(" 22 21 false; mkTok 31 """CRC32""" 22 38 false; mkTok 6 ")" 22 46 false; mkTok 12 "char[" 22 48 false; mkTok 30 "00" 22 53 false; mkTok 13 "]" 22 56 false; mkTok 42 "packetx" 22 58 false; mkTok 40 "," 22 65 false; mkTok 3 "}" 23 0 false; mkTok 44 "// a // b" 23 2 true; mkTok 0 "<EOF>" 23 11 false] (mkPacket (mkPtok 34 "root" 2 0 1) (Some (mkPtok 3 "}" 23 0 63)) [(DPacket (mkPacketDef (mkSpan (mkPtok 34 "root" 2 0 1) (mkPtok 3 "}" 23 0 63)) (Some (mkPtok 34 "root" 2 0 1)) (mkPtok 35 "packet" 2 5 2) (mkPtok 42 "u128" 2 12 3) (mkPtok 2 "{" 2 16 4) [(mkFieldWithAttr (mkSpan (mkPtok 42 "Z9_" 2 17 5) (mkPtok 40 "," 21 0 50)) [] (InerObjectField (mkSpan (mkPtok 42 "Z9_" 2 17 5) (mkPtok 40 "," 21 0 50)) None (InerObjectDecl (mkSpan (mkPtok 42 "Z9_" 2 17 5) (mkPtok 3 "}" 20 8 49)) (mkPtok 42 "Z9_" 2 17 5) (mkPtok 2 "{" 2 21 6) [(MatchField (mkSpan (mkPtok 38 "match" 2 23 7) (mkPtok 40 "," 20 6 48)) (mkMatchFieldDecl (mkSpan (mkPtok 38 "match" 2 23 7) (mkPtok 3 "}" 20 4 47)) (mkPtok 38 "match" 2 23 7) (mkPtok 42 "trueish" 2 29 8) (mkPtok 17 "as" 3 0 10) (mkPtok 42 "rootA" 3 3 11) (mkPtok 2 "{" 3 9 12) [(mkMatchPair (mkSpan (mkPtok 18 "[" 3 11 13) (mkPtok 42 "MetaDataX" 6 2 22)) (MKList (mkKeyList (mkSpan (mkPtok 18 "[" 3 11 13) (mkPtok 13 "]" 5 2 20)) (mkPtok 18 "[" 3 11 13) (mkPtok 31 """abc""" 3 13 14) [((mkPtok 40 "," 3 19 15), (mkPtok 31 """{,}""" 3 21 16)); ((mkPtok 40 "," 4 0 17), (mkPtok 30 "0" 5 0 19))] (mkPtok 13 "]" 5 2 20))) (mkPtok 39 ":" 6 0 21) (mkPtok 42 "MetaDataX" 6 2 22) None); (mkMatchPair (mkSpan (mkPtok 18 "[" 6 12 23) (mkPtok 40 "," 9 6 28)) (MKList (mkKeyList (mkSpan (mkPtok 18 "[" 6 12 23) (mkPtok 13 "]" 8 0 25)) (mkPtok 18 "[" 6 12 23) (mkPtok 31 """a\""b""" 7 0 24) [] (mkPtok 13 "]" 8 0 25))) (mkPtok 39 ":" 9 0 26) (mkPtok 42 "tag" 9 2 27) (Some (mkPtok 40 "," 9 6 28))); (mkMatchPair (mkSpan (mkPtok 31 """CRC32""" 10 0 29) (mkPtok 40 "," 13 9 34)) (MKString (mkPtok 31 """CRC32""" 10 0 29)) (mkPtok 39 ":" 10 8 30) (mkPtok 42 "options1" 13 0 33) (Some (mkPtok 40 "," 13 9 34))); (mkMatchPair (mkSpan (mkPtok 18 "[" 14 4 35) (mkPtok 40 "," 18 4 42)) (MKList (mkKeyList (mkSpan (mkPtok 18 "[" 14 4 35) (mkPtok 13 "]" 16 6 39)) (mkPtok 18 "[" 14 4 35) (mkPtok 31 (string_of_bytes [34; 230; 182; 136; 230; 129; 175; 34]%N) 15 4 36) [((mkPtok 40 "," 15 8 37), (mkPtok 31 """a\\""" 16 0 38))] (mkPtok 13 "]" 16 6 39))) (mkPtok 39 ":" 16 8 40) (mkPtok 42 "lengthOf" 17 0 41) (Some (mkPtok 40 "," 18 4 42))); (mkMatchPair (mkSpan (mkPtok 31 """a\""b""" 18 6 43) (mkPtok 40 "," 19 8 46)) (MKString (mkPtok 31 """a\""b""" 18 6 43)) (mkPtok 39 ":" 19 0 44) (mkPtok 42 "chars" 19 2 45) (Some (mkPtok 40 "," 19 8 46)))] (mkPtok 3 "}" 20 4 47)) (mkPtok 40 "," 20 6 48))] (mkPtok 3 "}" 20 8 49)) (mkPtok 40 "," 21 0 50))); (mkFieldWithAttr (mkSpan (mkPtok 32 "@rightPad" 22 4 51) (mkPtok 40 "," 22 65 62)) [(FAPadding (mkSpan (mkPtok 32 "@rightPad" 22 4 51) (mkPtok 6 ")" 22 19 54)) (mkPaddingAttr (mkSpan (mkPtok 32 "@rightPad" 22 4 51) (mkPtok 6 ")" 22 19 54)) (mkPtok 32 "@rightPad" 22 4 51) (mkPtok 8 "(" 22 13 52) (Some (mkPtok 33 "'0'" 22 15 53)) (mkPtok 6 ")" 22 19 54))); (FACalculatedFrom (mkSpan (mkPtok 5 "@calculatedFrom(" 22 21 55) (mkPtok 6 ")" 22 46 57)) (mkCalculatedFrom (mkSpan (mkPtok 5 "@calculatedFrom(" 22 21 55) (mkPtok 6 ")" 22 46 57)) (mkPtok 5 "@calculatedFrom(" 22 21 55) (mkPtok 31 """CRC32""" 22 38 56) (mkPtok 6 ")" 22 46 57)))] (MetaField (mkSpan (mkPtok 12 "char[" 22 48 58) (mkPtok 40 "," 22 65 62)) None (mkMetaDecl (mkSpan (mkPtok 12 "char[" 22 48 58) (mkPtok 40 "," 22 65 62)) (TyFixed (mkSpan (mkPtok 12 "char[" 22 48 58) (mkPtok 13 "]" 22 56 60)) (mkFixedString (mkSpan (mkPtok 12 "char[" 22 48 58) (mkPtok 13 "]" 22 56 60)) (mkPtok 12 "char[" 22 48 58) (mkPtok 30 "00" 22 53 59) (mkPtok 13 "]" 22 56 60))) (mkPtok 42 "packetx" 22 58 61) None (mkPtok 40 "," 22 65 62))))] (mkPtok 3 "}" 23 0 63)))])).
Eval vm_compute in ("<<<M65>>>" ++ check (runes_of_ascii "
options{metadata
    =
// @lengthOf(
// @lengthOf(
""a	b"" u = 0
; // trailing space 
i8i8 = 0
;	} 	 ")).
Eval vm_compute in ("<<<M75>>>" ++ check (runes_of_ascii "MetaData f32a{uint8 // a // b
repeatCount, x_y_z i8i8, f32 msg_type , charz
lengthOf `tab	here`, char[	7
    ]chars,float  x ,
}
")).
Eval vm_compute in ("<<<M85>>>" ++ check (runes_of_ascii "options { len =
    255 tag=""" ++ [233]%N ++ runes_of_ascii "t" ++ [233]%N ++ runes_of_ascii """ }packet	packetx
{
    } options { repeatCount= '\x00' ; x = 4294967296 len =
false	; A =
    false ;Packet
= """" // " ++ [27880; 37322]%N ++ runes_of_ascii "
;
    }MetaData
    x  {
//
// `tick` ""quote"" 'q'
uint32 roots,  lengthOf o `
`	,
u32
    x_y_z `line1
line2` ,
    int64  msg_type
// a // b
//
`crlf
line`	, string repeatCount `line1
line2` , u128 stringy
    , }")).
Eval vm_compute in ("<<<M95>>>" ++ check (runes_of_ascii "packet
x
    // `tick` ""quote"" 'q'
    { len// c
{// " ++ [27880; 37322]%N ++ runes_of_ascii "
repeat
i32	crc `say ""hi""` , match
    chars as Packet
{ 0123456789//	t
: Pad 0123456789 :
falsey
    // " ++ [27880; 37322]%N ++ runes_of_ascii "
    [
4294967296
    , 3
    ,
4294967296 , 0, ""1"" ] :roots,
""a\\""
:
_x 3
    : packetx } , repeat string
    stringy `tab	here`
,  match roots as lengthOf{
""abc"" //	t
:
packetx , } // packet A { u8 x, }
, } ,@lengthOf( chars )match  rootA
    // trailing space 
    as roots{
""\n"" //
:
    Packet ,} , // `tick` ""quote"" 'q'
string As `" ++ [28040; 24687; 31867; 22411]%N ++ runes_of_ascii "` , @rightPad (
'\x00' ) int64 trueish @lengthOf( lengthOf )  `" ++ [233]%N ++ runes_of_ascii "` , } packet	len {	} options
    {a1
    // packet A { u8 x, }
    = false
    // a // b
    }packet Z9_{ repeat zchar[ 00
]  options1
    //x
    ,	@lengthOf( falsey ) repeat//	t
i8 options1 `two words`
, @rightPad//
() i8 msg_type, char[3]
lengthOf `{ , }`	,  string _x,@leftPad (
) // c
uint16	chars,
// @lengthOf(
//
@lengthOf(
crc
    )@leftPad
    (
    // " ++ [128512]%N ++ runes_of_ascii " emoji
    '0' ) repeat
stringy calculatedFrom , string
// " ++ [27880; 37322]%N ++ runes_of_ascii "
//
int `line1
line2`, @rightPad
( ' '
    ) match Foo as
    rootA //x
{ [ ""packet"", ""a\""b"", """ ++ [128512]%N ++ runes_of_ascii """
    ,""""	,
    42 ] : u
// a // b
// packet A { u8 x, }
,
0 // " ++ [27880; 37322]%N ++ runes_of_ascii "
:	A
    , // trailing space 
00
:
asx
//x
// trailing space 
0 :  x_y_z
    ,
""CRC32"" : i64_
, 42 : x
// c
// " ++ [128512]%N ++ runes_of_ascii " emoji
, } , roots{ repeat zchar[10 ] stringy `" ++ [28040; 24687; 31867; 22411]%N ++ runes_of_ascii "` ,	} , } MetaData
    // `tick` ""quote"" 'q'
    tag{ f32 tag
    ``, }
")).
Eval vm_compute in ("<<<M105>>>" ++ check (runes_of_ascii "// c
packet Logon
    {
@tag(
42 )
    repeat i64_ {As crc , }, } packet x_y_z { @lengthOf( x_y_z ) i8
u `it's`, }")).
Eval vm_compute in ("<<<M115>>>" ++ check (runes_of_ascii "root
    packet lengthOf { @tag(4294967296 ) @calculatedFrom(
""" ++ [128512]%N ++ runes_of_ascii """)
    i32
msg_type `a\`
, }
")).
Eval vm_compute in ("<<<M125>>>" ++ check (runes_of_ascii "
packet // c
zchar { i8 uint8x//
`a\`,
    match
leftPad as matchKey
// a // b
// @lengthOf(
{  007
    :f32a  ,
7// " ++ [27880; 37322]%N ++ runes_of_ascii "
: // " ++ [128512]%N ++ runes_of_ascii " emoji
falsey ,3
:_x	, [ ""1"" ] : u8x ,
    //	t
    ""it's""
: i8i8 ,
    10 :pack , } , repeat string
rootA`say ""hi""`, repeat
int32 repeatCount `" ++ [233]%N ++ runes_of_ascii "` , @lengthOf( calculatedFrom)
zchar[// @lengthOf(
4294967296 ]
// @lengthOf(
// packet A { u8 x, }
T ,
    @tag(
4294967296 )
crc @calculatedFrom( // packet A { u8 x, }
"""" )
, @calculatedFrom(""abc"")u8x	@lengthOf( o) `crlf
line`, }packet
//
// c
T { i64 repeatCount ,
    calculatedFrom pack
,
@calculatedFrom( ""`tick`"" // packet A { u8 x, }
)
    f32a Foo
, match body as string_ {  ""packet"":	uint8x // " ++ [128512]%N ++ runes_of_ascii " emoji
,// @lengthOf(
""" ++ [128512]%N ++ runes_of_ascii """ /// triple
: body, 007	:
Logon, ""it's"" // a // b
:leftPad
    ,
[ ""x y"" ,
255 , ""\" ++ [233]%N ++ runes_of_ascii """,
1 //
, 0123456789]: options1 ,} , @rightPad ( '\x00'	)
    // packet A { u8 x, }
    match
//	t
// @lengthOf(
As as
    roots { 4294967296 :len """ ++ [28040; 24687]%N ++ runes_of_ascii """ :msg_type
, } ,
    f32 chars ,
// `tick` ""quote"" 'q'
// @lengthOf(
repeat calculatedFrom , @calculatedFrom( ""x y"" ) f32
roots
// `tick` ""quote"" 'q'
//x
`{ , }` , } root packet calculatedFrom{ }
")).
Eval vm_compute in ("<<<T125>>>" ++ terms [mkTok 35 "packet" 2 0 false; mkTok 44 "// c" 2 7 true; mkTok 42 "zchar" 3 0 false; mkTok 2 "{" 3 6 false; mkTok 24 "i8" 3 8 false; mkTok 42 "uint8x" 3 11 false; mkTok 44 "//" 3 17 true; mkTok 43 "`a\`" 4 0 false; mkTok 40 "," 4 4 false; mkTok 38 "match" 5 4 false; mkTok 42 "leftPad" 6 0 false; mkTok 17 "as" 6 8 false; mkTok 42 "matchKey" 6 11 false; mkTok 44 "// a // b" 7 0 true; mkTok 44 "// @lengthOf(" 8 0 true; mkTok 2 "{" 9 0 false; mkTok 30 "007" 9 3 false; mkTok 39 ":" 10 4 false; mkTok 42 "f32a" 10 5 false; mkTok 40 "," 10 11 false; mkTok 30 "7" 11 0 false; mkTok 44 (string_of_bytes [47; 47; 32; 230; 179; 168; 233; 135; 138]%N) 11 1 true; mkTok 39 ":" 12 0 false; mkTok 44 (string_of_bytes [47; 47; 32; 240; 159; 152; 128; 32; 101; 109; 111; 106; 105]%N) 12 2 true; mkTok 42 "falsey" 13 0 false; mkTok 40 "," 13 7 false; mkTok 30 "3" 13 8 false; mkTok 39 ":" 14 0 false; mkTok 42 "_x" 14 1 false; mkTok 40 "," 14 4 false; mkTok 18 "[" 14 6 false; mkTok 31 """1""" 14 8 false; mkTok 13 "]" 14 12 false; mkTok 39 ":" 14 14 false; mkTok 42 "u8x" 14 16 false; mkTok 40 "," 14 20 false; mkTok 44 (string_of_bytes [47; 47; 9; 116]%N) 15 4 true; mkTok 31 """it's""" 16 4 false; mkTok 39 ":" 17 0 false; mkTok 42 "i8i8" 17 2 false; mkTok 40 "," 17 7 false; mkTok 30 "10" 18 4 false; mkTok 39 ":" 18 7 false; mkTok 42 "pack" 18 8 false; mkTok 40 "," 18 13 false; mkTok 3 "}" 18 15 false; mkTok 40 "," 18 17 false; mkTok 36 "repeat" 18 19 false; mkTok 15 "string" 18 26 false; mkTok 42 "rootA" 19 0 false; mkTok 43 "`say ""hi""`" 19 5 false; mkTok 40 "," 19 15 false; mkTok 36 "repeat" 19 17 false; mkTok 26 "int32" 20 0 false; mkTok 42 "repeatCount" 20 6 false; mkTok 43 (string_of_bytes [96; 195; 169; 96]%N) 20 18 false; mkTok 40 "," 20 22 false; mkTok 7 "@lengthOf(" 20 24 false; mkTok 42 "calculatedFrom" 20 35 false; mkTok 6 ")" 20 49 false; mkTok 14 "zchar[" 21 0 false; mkTok 44 "// @lengthOf(" 21 6 true; mkTok 30 "4294967296" 22 0 false; mkTok 13 "]" 22 11 false; mkTok 44 "// @lengthOf(" 23 0 true; mkTok 44 "// packet A { u8 x, }" 24 0 true; mkTok 42 "T" 25 0 false; mkTok 40 "," 25 2 false; mkTok 9 "@tag(" 26 4 false; mkTok 30 "4294967296" 27 0 false; mkTok 6 ")" 27 11 false; mkTok 42 "crc" 28 0 false; mkTok 5 "@calculatedFrom(" 28 4 false; mkTok 44 "// packet A { u8 x, }" 28 21 true; mkTok 31 """""" 29 0 false; mkTok 6 ")" 29 3 false; mkTok 40 "," 30 0 false; mkTok 5 "@calculatedFrom(" 30 2 false; mkTok 31 """abc""" 30 18 false; mkTok 6 ")" 30 23 false; mkTok 42 "u8x" 30 24 false; mkTok 7 "@lengthOf(" 30 28 false; mkTok 42 "o" 30 39 false; mkTok 6 ")" 30 40 false; mkTok 43 (string_of_bytes [96; 99; 114; 108; 102; 13; 10; 108; 105; 110; 101; 96]%N) 30 42 false; mkTok 40 "," 31 5 false; mkTok 3 "}" 31 7 false; mkTok 35 "packet" 31 8 false; mkTok 44 "//" 32 0 true; mkTok 44 "// c" 33 0 true; mkTok 42 "T" 34 0 false; mkTok 2 "{" 34 2 false; mkTok 27 "i64" 34 4 false; mkTok 42 "repeatCount" 34 8 false; mkTok 40 "," 34 20 false; mkTok 42 "calculatedFrom" 35 4 false; mkTok 42 "pack" 35 19 false; mkTok 40 "," 36 0 false; mkTok 5 "@calculatedFrom(" 37 0 false; mkTok 31 """`tick`""" 37 17 false; mkTok 44 "// packet A { u8 x, }" 37 26 true; mkTok 6 ")" 38 0 false; mkTok 42 "f32a" 39 4 false; mkTok 42 "Foo" 39 9 false; mkTok 40 "," 40 0 false; mkTok 38 "match" 40 2 false; mkTok 42 "body" 40 8 false; mkTok 17 "as" 40 13 false; mkTok 42 "string_" 40 16 false; mkTok 2 "{" 40 24 false; mkTok 31 """packet""" 40 27 false; mkTok 39 ":" 40 35 false; mkTok 42 "uint8x" 40 37 false; mkTok 44 (string_of_bytes [47; 47; 32; 240; 159; 152; 128; 32; 101; 109; 111; 106; 105]%N) 40 44 true; mkTok 40 "," 41 0 false; mkTok 44 "// @lengthOf(" 41 1 true; mkTok 31 (string_of_bytes [34; 240; 159; 152; 128; 34]%N) 42 0 false; mkTok 44 "/// triple" 42 4 true; mkTok 39 ":" 43 0 false; mkTok 42 "body" 43 2 false; mkTok 40 "," 43 6 false; mkTok 30 "007" 43 8 false; mkTok 39 ":" 43 12 false; mkTok 42 "Logon" 44 0 false; mkTok 40 "," 44 5 false; mkTok 31 """it's""" 44 7 false; mkTok 44 "// a // b" 44 14 true; mkTok 39 ":" 45 0 false; mkTok 42 "leftPad" 45 1 false; mkTok 40 "," 46 4 false; mkTok 18 "[" 47 0 false; mkTok 31 """x y""" 47 2 false; mkTok 40 "," 47 8 false; mkTok 30 "255" 48 0 false; mkTok 40 "," 48 4 false; mkTok 31 (string_of_bytes [34; 92; 195; 169; 34]%N) 48 6 false; mkTok 40 "," 48 10 false; mkTok 30 "1" 49 0 false; mkTok 44 "//" 49 2 true; mkTok 40 "," 50 0 false; mkTok 30 "0123456789" 50 2 false; mkTok 13 "]" 50 12 false; mkTok 39 ":" 50 13 false; mkTok 42 "options1" 50 15 false; mkTok 40 "," 50 24 false; mkTok 3 "}" 50 25 false; mkTok 40 "," 50 27 false; mkTok 32 "@rightPad" 50 29 false; mkTok 8 "(" 50 39 false; mkTok 33 "'\x00'" 50 41 false; mkTok 6 ")" 50 48 false; mkTok 44 "// packet A { u8 x, }" 51 4 true; mkTok 38 "match" 52 4 false; mkTok 44 (string_of_bytes [47; 47; 9; 116]%N) 53 0 true; mkTok 44 "// @lengthOf(" 54 0 true; mkTok 42 "As" 55 0 false; mkTok 17 "as" 55 3 false; mkTok 42 "roots" 56 4 false; mkTok 2 "{" 56 10 false; mkTok 30 "4294967296" 56 12 false; mkTok 39 ":" 56 23 false; mkTok 42 "len" 56 24 false; mkTok 31 (string_of_bytes [34; 230; 182; 136; 230; 129; 175; 34]%N) 56 28 false; mkTok 39 ":" 56 33 false; mkTok 42 "msg_type" 56 34 false; mkTok 40 "," 57 0 false; mkTok 3 "}" 57 2 false; mkTok 40 "," 57 4 false; mkTok 28 "f32" 58 4 false; mkTok 42 "chars" 58 8 false; mkTok 40 "," 58 14 false; mkTok 44 "// `tick` ""quote"" 'q'" 59 0 true; mkTok 44 "// @lengthOf(" 60 0 true; mkTok 36 "repeat" 61 0 false; mkTok 42 "calculatedFrom" 61 7 false; mkTok 40 "," 61 22 false; mkTok 5 "@calculatedFrom(" 61 24 false; mkTok 31 """x y""" 61 41 false; mkTok 6 ")" 61 47 false; mkTok 28 "f32" 61 49 false; mkTok 42 "roots" 62 0 false; mkTok 44 "// `tick` ""quote"" 'q'" 63 0 true; mkTok 44 "//x" 64 0 true; mkTok 43 "`{ , }`" 65 0 false; mkTok 40 "," 65 8 false; mkTok 3 "}" 65 10 false; mkTok 34 "root" 65 12 false; mkTok 35 "packet" 65 17 false; mkTok 42 "calculatedFrom" 65 24 false; mkTok 2 "{" 65 38 false; mkTok 3 "}" 65 40 false; mkTok 0 "<EOF>" 66 0 false] (mkPacket (mkPtok 35 "packet" 2 0 0) (Some (mkPtok 3 "}" 65 40 190)) [(DPacket (mkPacketDef (mkSpan (mkPtok 35 "packet" 2 0 0) (mkPtok 3 "}" 31 7 86)) None (mkPtok 35 "packet" 2 0 0) (mkPtok 42 "zchar" 3 0 2) (mkPtok 2 "{" 3 6 3) [(mkFieldWithAttr (mkSpan (mkPtok 24 "i8" 3 8 4) (mkPtok 40 "," 4 4 8)) [] (MetaField (mkSpan (mkPtok 24 "i8" 3 8 4) (mkPtok 40 "," 4 4 8)) None (mkMetaDecl (mkSpan (mkPtok 24 "i8" 3 8 4) (mkPtok 40 "," 4 4 8)) (TyBasic (mkSpan (mkPtok 24 "i8" 3 8 4) (mkPtok 24 "i8" 3 8 4)) (mkBasicType (mkSpan (mkPtok 24 "i8" 3 8 4) (mkPtok 24 "i8" 3 8 4)) (mkPtok 24 "i8" 3 8 4))) (mkPtok 42 "uint8x" 3 11 5) (Some (mkPtok 43 "`a\`" 4 0 7)) (mkPtok 40 "," 4 4 8)))); (mkFieldWithAttr (mkSpan (mkPtok 38 "match" 5 4 9) (mkPtok 40 "," 18 17 46)) [] (MatchField (mkSpan (mkPtok 38 "match" 5 4 9) (mkPtok 40 "," 18 17 46)) (mkMatchFieldDecl (mkSpan (mkPtok 38 "match" 5 4 9) (mkPtok 3 "}" 18 15 45)) (mkPtok 38 "match" 5 4 9) (mkPtok 42 "leftPad" 6 0 10) (mkPtok 17 "as" 6 8 11) (mkPtok 42 "matchKey" 6 11 12) (mkPtok 2 "{" 9 0 15) [(mkMatchPair (mkSpan (mkPtok 30 "007" 9 3 16) (mkPtok 40 "," 10 11 19)) (MKDigits (mkPtok 30 "007" 9 3 16)) (mkPtok 39 ":" 10 4 17) (mkPtok 42 "f32a" 10 5 18) (Some (mkPtok 40 "," 10 11 19))); (mkMatchPair (mkSpan (mkPtok 30 "7" 11 0 20) (mkPtok 40 "," 13 7 25)) (MKDigits (mkPtok 30 "7" 11 0 20)) (mkPtok 39 ":" 12 0 22) (mkPtok 42 "falsey" 13 0 24) (Some (mkPtok 40 "," 13 7 25))); (mkMatchPair (mkSpan (mkPtok 30 "3" 13 8 26) (mkPtok 40 "," 14 4 29)) (MKDigits (mkPtok 30 "3" 13 8 26)) (mkPtok 39 ":" 14 0 27) (mkPtok 42 "_x" 14 1 28) (Some (mkPtok 40 "," 14 4 29))); (mkMatchPair (mkSpan (mkPtok 18 "[" 14 6 30) (mkPtok 40 "," 14 20 35)) (MKList (mkKeyList (mkSpan (mkPtok 18 "[" 14 6 30) (mkPtok 13 "]" 14 12 32)) (mkPtok 18 "[" 14 6 30) (mkPtok 31 """1""" 14 8 31) [] (mkPtok 13 "]" 14 12 32))) (mkPtok 39 ":" 14 14 33) (mkPtok 42 "u8x" 14 16 34) (Some (mkPtok 40 "," 14 20 35))); (mkMatchPair (mkSpan (mkPtok 31 """it's""" 16 4 37) (mkPtok 40 "," 17 7 40)) (MKString (mkPtok 31 """it's""" 16 4 37)) (mkPtok 39 ":" 17 0 38) (mkPtok 42 "i8i8" 17 2 39) (Some (mkPtok 40 "," 17 7 40))); (mkMatchPair (mkSpan (mkPtok 30 "10" 18 4 41) (mkPtok 40 "," 18 13 44)) (MKDigits (mkPtok 30 "10" 18 4 41)) (mkPtok 39 ":" 18 7 42) (mkPtok 42 "pack" 18 8 43) (Some (mkPtok 40 "," 18 13 44)))] (mkPtok 3 "}" 18 15 45)) (mkPtok 40 "," 18 17 46))); (mkFieldWithAttr (mkSpan (mkPtok 36 "repeat" 18 19 47) (mkPtok 40 "," 19 15 51)) [] (MetaField (mkSpan (mkPtok 36 "repeat" 18 19 47) (mkPtok 40 "," 19 15 51)) (Some (mkPtok 36 "repeat" 18 19 47)) (mkMetaDecl (mkSpan (mkPtok 15 "string" 18 26 48) (mkPtok 40 "," 19 15 51)) (TyDynamic (mkSpan (mkPtok 15 "string" 18 26 48) (mkPtok 15 "string" 18 26 48)) (mkDynamicString (mkSpan (mkPtok 15 "string" 18 26 48) (mkPtok 15 "string" 18 26 48)) (mkPtok 15 "string" 18 26 48))) (mkPtok 42 "rootA" 19 0 49) (Some (mkPtok 43 "`say ""hi""`" 19 5 50)) (mkPtok 40 "," 19 15 51)))); (mkFieldWithAttr (mkSpan (mkPtok 36 "repeat" 19 17 52) (mkPtok 40 "," 20 22 56)) [] (MetaField (mkSpan (mkPtok 36 "repeat" 19 17 52) (mkPtok 40 "," 20 22 56)) (Some (mkPtok 36 "repeat" 19 17 52)) (mkMetaDecl (mkSpan (mkPtok 26 "int32" 20 0 53) (mkPtok 40 "," 20 22 56)) (TyBasic (mkSpan (mkPtok 26 "int32" 20 0 53) (mkPtok 26 "int32" 20 0 53)) (mkBasicType (mkSpan (mkPtok 26 "int32" 20 0 53) (mkPtok 26 "int32" 20 0 53)) (mkPtok 26 "int32" 20 0 53))) (mkPtok 42 "repeatCount" 20 6 54) (Some (mkPtok 43 (string_of_bytes [96; 195; 169; 96]%N) 20 18 55)) (mkPtok 40 "," 20 22 56)))); (mkFieldWithAttr (mkSpan (mkPtok 7 "@lengthOf(" 20 24 57) (mkPtok 40 "," 25 2 67)) [(FALengthOf (mkSpan (mkPtok 7 "@lengthOf(" 20 24 57) (mkPtok 6 ")" 20 49 59)) (mkLengthOf (mkSpan (mkPtok 7 "@lengthOf(" 20 24 57) (mkPtok 6 ")" 20 49 59)) (mkPtok 7 "@lengthOf(" 20 24 57) (mkPtok 42 "calculatedFrom" 20 35 58) (mkPtok 6 ")" 20 49 59)))] (MetaField (mkSpan (mkPtok 14 "zchar[" 21 0 60) (mkPtok 40 "," 25 2 67)) None (mkMetaDecl (mkSpan (mkPtok 14 "zchar[" 21 0 60) (mkPtok 40 "," 25 2 67)) (TyFixed (mkSpan (mkPtok 14 "zchar[" 21 0 60) (mkPtok 13 "]" 22 11 63)) (mkFixedString (mkSpan (mkPtok 14 "zchar[" 21 0 60) (mkPtok 13 "]" 22 11 63)) (mkPtok 14 "zchar[" 21 0 60) (mkPtok 30 "4294967296" 22 0 62) (mkPtok 13 "]" 22 11 63))) (mkPtok 42 "T" 25 0 66) None (mkPtok 40 "," 25 2 67)))); (mkFieldWithAttr (mkSpan (mkPtok 9 "@tag(" 26 4 68) (mkPtok 40 "," 30 0 76)) [(FATag (mkSpan (mkPtok 9 "@tag(" 26 4 68) (mkPtok 6 ")" 27 11 70)) (mkTagAttr (mkSpan (mkPtok 9 "@tag(" 26 4 68) (mkPtok 6 ")" 27 11 70)) (mkPtok 9 "@tag(" 26 4 68) (mkPtok 30 "4294967296" 27 0 69) (mkPtok 6 ")" 27 11 70)))] (CheckSumField (mkSpan (mkPtok 42 "crc" 28 0 71) (mkPtok 40 "," 30 0 76)) (mkChecksumFieldDecl (mkSpan (mkPtok 42 "crc" 28 0 71) (mkPtok 40 "," 30 0 76)) None (mkPtok 42 "crc" 28 0 71) (mkCalculatedFrom (mkSpan (mkPtok 5 "@calculatedFrom(" 28 4 72) (mkPtok 6 ")" 29 3 75)) (mkPtok 5 "@calculatedFrom(" 28 4 72) (mkPtok 31 """""" 29 0 74) (mkPtok 6 ")" 29 3 75)) None (mkPtok 40 "," 30 0 76)))); (mkFieldWithAttr (mkSpan (mkPtok 5 "@calculatedFrom(" 30 2 77) (mkPtok 40 "," 31 5 85)) [(FACalculatedFrom (mkSpan (mkPtok 5 "@calculatedFrom(" 30 2 77) (mkPtok 6 ")" 30 23 79)) (mkCalculatedFrom (mkSpan (mkPtok 5 "@calculatedFrom(" 30 2 77) (mkPtok 6 ")" 30 23 79)) (mkPtok 5 "@calculatedFrom(" 30 2 77) (mkPtok 31 """abc""" 30 18 78) (mkPtok 6 ")" 30 23 79)))] (LengthField (mkSpan (mkPtok 42 "u8x" 30 24 80) (mkPtok 40 "," 31 5 85)) (mkLengthFieldDecl (mkSpan (mkPtok 42 "u8x" 30 24 80) (mkPtok 40 "," 31 5 85)) None (mkPtok 42 "u8x" 30 24 80) (mkLengthOf (mkSpan (mkPtok 7 "@lengthOf(" 30 28 81) (mkPtok 6 ")" 30 40 83)) (mkPtok 7 "@lengthOf(" 30 28 81) (mkPtok 42 "o" 30 39 82) (mkPtok 6 ")" 30 40 83)) (Some (mkPtok 43 (string_of_bytes [96; 99; 114; 108; 102; 13; 10; 108; 105; 110; 101; 96]%N) 30 42 84)) (mkPtok 40 "," 31 5 85))))] (mkPtok 3 "}" 31 7 86))); (DPacket (mkPacketDef (mkSpan (mkPtok 35 "packet" 31 8 87) (mkPtok 3 "}" 65 10 185)) None (mkPtok 35 "packet" 31 8 87) (mkPtok 42 "T" 34 0 90) (mkPtok 2 "{" 34 2 91) [(mkFieldWithAttr (mkSpan (mkPtok 27 "i64" 34 4 92) (mkPtok 40 "," 34 20 94)) [] (MetaField (mkSpan (mkPtok 27 "i64" 34 4 92) (mkPtok 40 "," 34 20 94)) None (mkMetaDecl (mkSpan (mkPtok 27 "i64" 34 4 92) (mkPtok 40 "," 34 20 94)) (TyBasic (mkSpan (mkPtok 27 "i64" 34 4 92) (mkPtok 27 "i64" 34 4 92)) (mkBasicType (mkSpan (mkPtok 27 "i64" 34 4 92) (mkPtok 27 "i64" 34 4 92)) (mkPtok 27 "i64" 34 4 92))) (mkPtok 42 "repeatCount" 34 8 93) None (mkPtok 40 "," 34 20 94)))); (mkFieldWithAttr (mkSpan (mkPtok 42 "calculatedFrom" 35 4 95) (mkPtok 40 "," 36 0 97)) [] (ObjectField (mkSpan (mkPtok 42 "calculatedFrom" 35 4 95) (mkPtok 40 "," 36 0 97)) None (mkPtok 42 "calculatedFrom" 35 4 95) (Some (mkPtok 42 "pack" 35 19 96)) None (mkPtok 40 "," 36 0 97))); (mkFieldWithAttr (mkSpan (mkPtok 5 "@calculatedFrom(" 37 0 98) (mkPtok 40 "," 40 0 104)) [(FACalculatedFrom (mkSpan (mkPtok 5 "@calculatedFrom(" 37 0 98) (mkPtok 6 ")" 38 0 101)) (mkCalculatedFrom (mkSpan (mkPtok 5 "@calculatedFrom(" 37 0 98) (mkPtok 6 ")" 38 0 101)) (mkPtok 5 "@calculatedFrom(" 37 0 98) (mkPtok 31 """`tick`""" 37 17 99) (mkPtok 6 ")" 38 0 101)))] (ObjectField (mkSpan (mkPtok 42 "f32a" 39 4 102) (mkPtok 40 "," 40 0 104)) None (mkPtok 42 "f32a" 39 4 102) (Some (mkPtok 42 "Foo" 39 9 103)) None (mkPtok 40 "," 40 0 104))); (mkFieldWithAttr (mkSpan (mkPtok 38 "match" 40 2 105) (mkPtok 40 "," 50 27 146)) [] (MatchField (mkSpan (mkPtok 38 "match" 40 2 105) (mkPtok 40 "," 50 27 146)) (mkMatchFieldDecl (mkSpan (mkPtok 38 "match" 40 2 105) (mkPtok 3 "}" 50 25 145)) (mkPtok 38 "match" 40 2 105) (mkPtok 42 "body" 40 8 106) (mkPtok 17 "as" 40 13 107) (mkPtok 42 "string_" 40 16 108) (mkPtok 2 "{" 40 24 109) [(mkMatchPair (mkSpan (mkPtok 31 """packet""" 40 27 110) (mkPtok 40 "," 41 0 114)) (MKString (mkPtok 31 """packet""" 40 27 110)) (mkPtok 39 ":" 40 35 111) (mkPtok 42 "uint8x" 40 37 112) (Some (mkPtok 40 "," 41 0 114))); (mkMatchPair (mkSpan (mkPtok 31 (string_of_bytes [34; 240; 159; 152; 128; 34]%N) 42 0 116) (mkPtok 40 "," 43 6 120)) (MKString (mkPtok 31 (string_of_bytes [34; 240; 159; 152; 128; 34]%N) 42 0 116)) (mkPtok 39 ":" 43 0 118) (mkPtok 42 "body" 43 2 119) (Some (mkPtok 40 "," 43 6 120))); (mkMatchPair (mkSpan (mkPtok 30 "007" 43 8 121) (mkPtok 40 "," 44 5 124)) (MKDigits (mkPtok 30 "007" 43 8 121)) (mkPtok 39 ":" 43 12 122) (mkPtok 42 "Logon" 44 0 123) (Some (mkPtok 40 "," 44 5 124))); (mkMatchPair (mkSpan (mkPtok 31 """it's""" 44 7 125) (mkPtok 40 "," 46 4 129)) (MKString (mkPtok 31 """it's""" 44 7 125)) (mkPtok 39 ":" 45 0 127) (mkPtok 42 "leftPad" 45 1 128) (Some (mkPtok 40 "," 46 4 129))); (mkMatchPair (mkSpan (mkPtok 18 "[" 47 0 130) (mkPtok 40 "," 50 24 144)) (MKList (mkKeyList (mkSpan (mkPtok 18 "[" 47 0 130) (mkPtok 13 "]" 50 12 141)) (mkPtok 18 "[" 47 0 130) (mkPtok 31 """x y""" 47 2 131) [((mkPtok 40 "," 47 8 132), (mkPtok 30 "255" 48 0 133)); ((mkPtok 40 "," 48 4 134), (mkPtok 31 (string_of_bytes [34; 92; 195; 169; 34]%N) 48 6 135)); ((mkPtok 40 "," 48 10 136), (mkPtok 30 "1" 49 0 137)); ((mkPtok 40 "," 50 0 139), (mkPtok 30 "0123456789" 50 2 140))] (mkPtok 13 "]" 50 12 141))) (mkPtok 39 ":" 50 13 142) (mkPtok 42 "options1" 50 15 143) (Some (mkPtok 40 "," 50 24 144)))] (mkPtok 3 "}" 50 25 145)) (mkPtok 40 "," 50 27 146))); (mkFieldWithAttr (mkSpan (mkPtok 32 "@rightPad" 50 29 147) (mkPtok 40 "," 57 4 167)) [(FAPadding (mkSpan (mkPtok 32 "@rightPad" 50 29 147) (mkPtok 6 ")" 50 48 150)) (mkPaddingAttr (mkSpan (mkPtok 32 "@rightPad" 50 29 147) (mkPtok 6 ")" 50 48 150)) (mkPtok 32 "@rightPad" 50 29 147) (mkPtok 8 "(" 50 39 148) (Some (mkPtok 33 "'\x00'" 50 41 149)) (mkPtok 6 ")" 50 48 150)))] (MatchField (mkSpan (mkPtok 38 "match" 52 4 152) (mkPtok 40 "," 57 4 167)) (mkMatchFieldDecl (mkSpan (mkPtok 38 "match" 52 4 152) (mkPtok 3 "}" 57 2 166)) (mkPtok 38 "match" 52 4 152) (mkPtok 42 "As" 55 0 155) (mkPtok 17 "as" 55 3 156) (mkPtok 42 "roots" 56 4 157) (mkPtok 2 "{" 56 10 158) [(mkMatchPair (mkSpan (mkPtok 30 "4294967296" 56 12 159) (mkPtok 42 "len" 56 24 161)) (MKDigits (mkPtok 30 "4294967296" 56 12 159)) (mkPtok 39 ":" 56 23 160) (mkPtok 42 "len" 56 24 161) None); (mkMatchPair (mkSpan (mkPtok 31 (string_of_bytes [34; 230; 182; 136; 230; 129; 175; 34]%N) 56 28 162) (mkPtok 40 "," 57 0 165)) (MKString (mkPtok 31 (string_of_bytes [34; 230; 182; 136; 230; 129; 175; 34]%N) 56 28 162)) (mkPtok 39 ":" 56 33 163) (mkPtok 42 "msg_type" 56 34 164) (Some (mkPtok 40 "," 57 0 165)))] (mkPtok 3 "}" 57 2 166)) (mkPtok 40 "," 57 4 167))); (mkFieldWithAttr (mkSpan (mkPtok 28 "f32" 58 4 168) (mkPtok 40 "," 58 14 170)) [] (MetaField (mkSpan (mkPtok 28 "f32" 58 4 168) (mkPtok 40 "," 58 14 170)) None (mkMetaDecl (mkSpan (mkPtok 28 "f32" 58 4 168) (mkPtok 40 "," 58 14 170)) (TyBasic (mkSpan (mkPtok 28 "f32" 58 4 168) (mkPtok 28 "f32" 58 4 168)) (mkBasicType (mkSpan (mkPtok 28 "f32" 58 4 168) (mkPtok 28 "f32" 58 4 168)) (mkPtok 28 "f32" 58 4 168))) (mkPtok 42 "chars" 58 8 169) None (mkPtok 40 "," 58 14 170)))); (mkFieldWithAttr (mkSpan (mkPtok 36 "repeat" 61 0 173) (mkPtok 40 "," 61 22 175)) [] (ObjectField (mkSpan (mkPtok 36 "repeat" 61 0 173) (mkPtok 40 "," 61 22 175)) (Some (mkPtok 36 "repeat" 61 0 173)) (mkPtok 42 "calculatedFrom" 61 7 174) None None (mkPtok 40 "," 61 22 175))); (mkFieldWithAttr (mkSpan (mkPtok 5 "@calculatedFrom(" 61 24 176) (mkPtok 40 "," 65 8 184)) [(FACalculatedFrom (mkSpan (mkPtok 5 "@calculatedFrom(" 61 24 176) (mkPtok 6 ")" 61 47 178)) (mkCalculatedFrom (mkSpan (mkPtok 5 "@calculatedFrom(" 61 24 176) (mkPtok 6 ")" 61 47 178)) (mkPtok 5 "@calculatedFrom(" 61 24 176) (mkPtok 31 """x y""" 61 41 177) (mkPtok 6 ")" 61 47 178)))] (MetaField (mkSpan (mkPtok 28 "f32" 61 49 179) (mkPtok 40 "," 65 8 184)) None (mkMetaDecl (mkSpan (mkPtok 28 "f32" 61 49 179) (mkPtok 40 "," 65 8 184)) (TyBasic (mkSpan (mkPtok 28 "f32" 61 49 179) (mkPtok 28 "f32" 61 49 179)) (mkBasicType (mkSpan (mkPtok 28 "f32" 61 49 179) (mkPtok 28 "f32" 61 49 179)) (mkPtok 28 "f32" 61 49 179))) (mkPtok 42 "roots" 62 0 180) (Some (mkPtok 43 "`{ , }`" 65 0 183)) (mkPtok 40 "," 65 8 184))))] (mkPtok 3 "}" 65 10 185))); (DPacket (mkPacketDef (mkSpan (mkPtok 34 "root" 65 12 186) (mkPtok 3 "}" 65 40 190)) (Some (mkPtok 34 "root" 65 12 186)) (mkPtok 35 "packet" 65 17 187) (mkPtok 42 "calculatedFrom" 65 24 188) (mkPtok 2 "{" 65 38 189) [] (mkPtok 3 "}" 65 40 190)))])).
Eval vm_compute in ("<<<M135>>>" ++ check (runes_of_ascii "packet Foo{/// triple
}")).
Eval vm_compute in ("<<<M145>>>" ++ check (runes_of_ascii "options { As
=char[007 ] ;_x // a // b
=1
;
    matchKey
    =true
;
Logon // trailing space 
= ' ' ;
    stringy =/// triple
zchar[007  ] ;
    } root
    packet MetaDataX { //x
match leftPad
    as Logon { 255
    : packetx [0123456789
    ]
    : x_y_z
, 10
// `tick` ""quote"" 'q'
// a // b
: rootA} , }")).
Eval vm_compute in ("<<<M155>>>" ++ check (runes_of_ascii "// `tick` ""quote"" 'q'
options { leftPad =float32
} root
packet o
{ }
")).
Eval vm_compute in ("<<<M165>>>" ++ check (runes_of_ascii "packet pack
    { @calculatedFrom(
""CRC32""
) i8i8 { MetaDataX @lengthOf( x
//x
// packet A { u8 x, }
), char As @lengthOf( len	) ,
// " ++ [128512]%N ++ runes_of_ascii " emoji
//x
chars metadata `say ""hi""` , char[ 0] int ,}, }
")).
Eval vm_compute in ("<<<M175>>>" ++ check (runes_of_ascii "packet
    Logon
{
    repeat	char
MetaDataX `say ""hi""`,
@lengthOf(
packetx) char[] repeatCount// `tick` ""quote"" 'q'
`doc` , @leftPad (
    '0' )@tag(
7 ) Header@calculatedFrom(
    """" // " ++ [128512]%N ++ runes_of_ascii " emoji
)	,
@lengthOf(
    /// triple
    MetaDataX
) match // trailing space 
x
//
// trailing space 
as Header
// trailing space 
//	t
{ ""x y"" : u8x // trailing space 
,
""" ++ [128512]%N ++ runes_of_ascii """
: /// triple
charz , """ ++ [233]%N ++ runes_of_ascii "t" ++ [233]%N ++ runes_of_ascii """
:// packet A { u8 x, }
_x,[ 3 , // " ++ [27880; 37322]%N ++ runes_of_ascii "
00
    ] :  uint8x , ""it's"" //	t
:// `tick` ""quote"" 'q'
rootA[
    00
    ,  65535//x
] :
    zchar }
    ,@calculatedFrom( ""// no comment"" )int32 i64_,
repeat// " ++ [128512]%N ++ runes_of_ascii " emoji
body {zchar[
    10  ]
BodyLength `line1
line2` , lengthOf Logon
, // @lengthOf(
repeat
    float64	i8i8 ,char[0123456789]leftPad // `tick` ""quote"" 'q'
`
` ,	}
    ,  repeat char[ 255
    //
    ] a1`" ++ [28040; 24687; 31867; 22411]%N ++ runes_of_ascii "`, } 	 ")).
Eval vm_compute in ("<<<M185>>>" ++ check (runes_of_ascii "packet  f32a
    {//
match
//x
//
o
    // trailing space 
    as As { 10: //
roots
,// " ++ [27880; 37322]%N ++ runes_of_ascii "
[
255 // a // b
, 42 ,
    10 ,  00 ]:
    matchKey ,
} ,
}
    options { u128 = 65535 Packet = 3
;
}")).
Eval vm_compute in ("<<<M195>>>" ++ check (runes_of_ascii "packet x_y_z{  } packet  Logon { repeat i8 int
,} root packet stringy
{ char chars ,
char[] a1@calculatedFrom( ""// no comment"" )`// not a comment`, string
    Logon , }
")).
Eval vm_compute in ("<<<T195>>>" ++ terms [mkTok 35 "packet" 1 0 false; mkTok 42 "x_y_z" 1 7 false; mkTok 2 "{" 1 12 false; mkTok 3 "}" 1 15 false; mkTok 35 "packet" 1 17 false; mkTok 42 "Logon" 1 25 false; mkTok 2 "{" 1 31 false; mkTok 36 "repeat" 1 33 false; mkTok 24 "i8" 1 40 false; mkTok 42 "int" 1 43 false; mkTok 40 "," 2 0 false; mkTok 3 "}" 2 1 false; mkTok 34 "root" 2 3 false; mkTok 35 "packet" 2 8 false; mkTok 42 "stringy" 2 15 false; mkTok 2 "{" 3 0 false; mkTok 19 "char" 3 2 false; mkTok 42 "chars" 3 7 false; mkTok 40 "," 3 13 false; mkTok 16 "char[]" 4 0 false; mkTok 42 "a1" 4 7 false; mkTok 5 "@calculatedFrom(" 4 9 false; mkTok 31 """// no comment""" 4 26 false; mkTok 6 ")" 4 42 false; mkTok 43 "`// not a comment`" 4 43 false; mkTok 40 "," 4 61 false; mkTok 15 "string" 4 63 false; mkTok 42 "Logon" 5 4 false; mkTok 40 "," 5 10 false; mkTok 3 "}" 5 12 false; mkTok 0 "<EOF>" 6 0 false] (mkPacket (mkPtok 35 "packet" 1 0 0) (Some (mkPtok 3 "}" 5 12 29)) [(DPacket (mkPacketDef (mkSpan (mkPtok 35 "packet" 1 0 0) (mkPtok 3 "}" 1 15 3)) None (mkPtok 35 "packet" 1 0 0) (mkPtok 42 "x_y_z" 1 7 1) (mkPtok 2 "{" 1 12 2) [] (mkPtok 3 "}" 1 15 3))); (DPacket (mkPacketDef (mkSpan (mkPtok 35 "packet" 1 17 4) (mkPtok 3 "}" 2 1 11)) None (mkPtok 35 "packet" 1 17 4) (mkPtok 42 "Logon" 1 25 5) (mkPtok 2 "{" 1 31 6) [(mkFieldWithAttr (mkSpan (mkPtok 36 "repeat" 1 33 7) (mkPtok 40 "," 2 0 10)) [] (MetaField (mkSpan (mkPtok 36 "repeat" 1 33 7) (mkPtok 40 "," 2 0 10)) (Some (mkPtok 36 "repeat" 1 33 7)) (mkMetaDecl (mkSpan (mkPtok 24 "i8" 1 40 8) (mkPtok 40 "," 2 0 10)) (TyBasic (mkSpan (mkPtok 24 "i8" 1 40 8) (mkPtok 24 "i8" 1 40 8)) (mkBasicType (mkSpan (mkPtok 24 "i8" 1 40 8) (mkPtok 24 "i8" 1 40 8)) (mkPtok 24 "i8" 1 40 8))) (mkPtok 42 "int" 1 43 9) None (mkPtok 40 "," 2 0 10))))] (mkPtok 3 "}" 2 1 11))); (DPacket (mkPacketDef (mkSpan (mkPtok 34 "root" 2 3 12) (mkPtok 3 "}" 5 12 29)) (Some (mkPtok 34 "root" 2 3 12)) (mkPtok 35 "packet" 2 8 13) (mkPtok 42 "stringy" 2 15 14) (mkPtok 2 "{" 3 0 15) [(mkFieldWithAttr (mkSpan (mkPtok 19 "char" 3 2 16) (mkPtok 40 "," 3 13 18)) [] (MetaField (mkSpan (mkPtok 19 "char" 3 2 16) (mkPtok 40 "," 3 13 18)) None (mkMetaDecl (mkSpan (mkPtok 19 "char" 3 2 16) (mkPtok 40 "," 3 13 18)) (TyBasic (mkSpan (mkPtok 19 "char" 3 2 16) (mkPtok 19 "char" 3 2 16)) (mkBasicType (mkSpan (mkPtok 19 "char" 3 2 16) (mkPtok 19 "char" 3 2 16)) (mkPtok 19 "char" 3 2 16))) (mkPtok 42 "chars" 3 7 17) None (mkPtok 40 "," 3 13 18)))); (mkFieldWithAttr (mkSpan (mkPtok 16 "char[]" 4 0 19) (mkPtok 40 "," 4 61 25)) [] (CheckSumField (mkSpan (mkPtok 16 "char[]" 4 0 19) (mkPtok 40 "," 4 61 25)) (mkChecksumFieldDecl (mkSpan (mkPtok 16 "char[]" 4 0 19) (mkPtok 40 "," 4 61 25)) (Some (TyDynamic (mkSpan (mkPtok 16 "char[]" 4 0 19) (mkPtok 16 "char[]" 4 0 19)) (mkDynamicString (mkSpan (mkPtok 16 "char[]" 4 0 19) (mkPtok 16 "char[]" 4 0 19)) (mkPtok 16 "char[]" 4 0 19)))) (mkPtok 42 "a1" 4 7 20) (mkCalculatedFrom (mkSpan (mkPtok 5 "@calculatedFrom(" 4 9 21) (mkPtok 6 ")" 4 42 23)) (mkPtok 5 "@calculatedFrom(" 4 9 21) (mkPtok 31 """// no comment""" 4 26 22) (mkPtok 6 ")" 4 42 23)) (Some (mkPtok 43 "`// not a comment`" 4 43 24)) (mkPtok 40 "," 4 61 25)))); (mkFieldWithAttr (mkSpan (mkPtok 15 "string" 4 63 26) (mkPtok 40 "," 5 10 28)) [] (MetaField (mkSpan (mkPtok 15 "string" 4 63 26) (mkPtok 40 "," 5 10 28)) None (mkMetaDecl (mkSpan (mkPtok 15 "string" 4 63 26) (mkPtok 40 "," 5 10 28)) (TyDynamic (mkSpan (mkPtok 15 "string" 4 63 26) (mkPtok 15 "string" 4 63 26)) (mkDynamicString (mkSpan (mkPtok 15 "string" 4 63 26) (mkPtok 15 "string" 4 63 26)) (mkPtok 15 "string" 4 63 26))) (mkPtok 42 "Logon" 5 4 27) None (mkPtok 40 "," 5 10 28))))] (mkPtok 3 "}" 5 12 29)))])).
Eval vm_compute in ("<<<M205>>>" ++ check (runes_of_ascii "root
packet	i64_
    {
    }options{ chars
= char[
65535 ] body = ""abc""; u= ""`tick`"" trueish
='0' }options
{repeatCount= '\x00'
// " ++ [128512]%N ++ runes_of_ascii " emoji
/// triple
;
    f32a =""\n"" int
    /// triple
    = false Pad
= ""1""repeatCount =""// no comment""; }root packet string_
{i32 As `tab	here` , } // c")).
Eval vm_compute in ("<<<M215>>>" ++ check (runes_of_ascii "
options {
roots //x
=""packet"" ; len  =0 ;crc  =zchar[65535
/// triple
// " ++ [128512]%N ++ runes_of_ascii " emoji
]//x
;
}
")).
Eval vm_compute in ("<<<M225>>>" ++ check (runes_of_ascii "/// triple
packet A
{@calculatedFrom(""a\""b"" ) Logon`u8 x,` , metadata BodyLength
, } // trailing space 
packet	As{ @rightPad (
) repeat
uint8
chars , i64
/// triple
// a // b
zchar `say ""hi""` ,@rightPad
( '\x00' )
@leftPad (
'0')@lengthOf( int
) char[
    65535  ] rootA , } root packet trueish
{}
")).
Eval vm_compute in ("<<<M235>>>" ++ check (runes_of_ascii "
packet	float // a // b
{ // c
}
packet u128 { @calculatedFrom(	""1"") asx x_y_z `" ++ [28040; 24687; 31867; 22411]%N ++ runes_of_ascii "` ,}
    root packet
    u8x { repeat uint8x	T
, }
packet leftPad
    {
i64_,@leftPad ( '0' )
repeat	tag
,repeat  uint8x  {	matchKey @calculatedFrom( ""abc""
    ) , string charz ,
    }// trailing space 
,@rightPad
( )zchar[ 10] charz
    @calculatedFrom( """ ++ [128512]%N ++ runes_of_ascii """ )	`// not a comment` , // trailing space 
}
// @lengthOf(
")).
Eval vm_compute in ("<<<M245>>>" ++ check (runes_of_ascii "//x
root packet Z9_ { @calculatedFrom( ""a\\"")zchar[ 1] // @lengthOf(
a1 @lengthOf(
Z9_) ,
@tag( 0123456789
    )@lengthOf(
Header ) @tag( 4294967296 ) uint8 u128  ,i16 msg_type// trailing space 
, tag matchKey, repeat i8 options1 `tab	here` , repeat /// triple
f32a Z9_,
/// triple
//	t
match tag as Foo { 42 : Logon ,
    [ 4294967296
    ] : Pad , 3 :a1 , [007	, 1 ]
: a1 ,}
    ,// packet A { u8 x, }
repeat zchar { repeat //
u8 options1 // c
, leftPad
{	msg_type ,
} ,
leftPad@lengthOf( string_
)
    `a\` ,
    }, zchar charz , string tag @calculatedFrom(
""{,}"")
, // " ++ [27880; 37322]%N ++ runes_of_ascii "
}
    packet// @lengthOf(
u128 {@tag(// " ++ [27880; 37322]%N ++ runes_of_ascii "
4294967296 ) @tag( 42
) f32a @lengthOf( float )
    `" ++ [233]%N ++ runes_of_ascii "` ,	}
")).
Eval vm_compute in ("<<<M255>>>" ++ check (runes_of_ascii "packet T {}  MetaData i8i8{
    calculatedFrom	u128
`u8 x,` , string_
a1	`" ++ [233]%N ++ runes_of_ascii "`
    ,	Foo
    int ,
    zchar[007 ]chars , pack x , crc repeatCount , }packet options1
{ @tag(1 )char[1]
f32a ,_x@lengthOf(_x ) ``, } // " ++ [128512]%N ++ runes_of_ascii " emoji")).
Eval vm_compute in ("<<<M265>>>" ++ check (runes_of_ascii "
MetaData	Logon {	zchar[ 10 ]float `" ++ [233]%N ++ runes_of_ascii "` , BodyLength Z9_ , float32 o `a\` ,uint64 roots `two words` // " ++ [27880; 37322]%N ++ runes_of_ascii "
,  }
")).
Eval vm_compute in ("<<<T265>>>" ++ terms [mkTok 37 "MetaData" 2 0 false; mkTok 42 "Logon" 2 9 false; mkTok 2 "{" 2 15 false; mkTok 14 "zchar[" 2 17 false; mkTok 30 "10" 2 24 false; mkTok 13 "]" 2 27 false; mkTok 42 "float" 2 28 false; mkTok 43 (string_of_bytes [96; 195; 169; 96]%N) 2 34 false; mkTok 40 "," 2 38 false; mkTok 42 "BodyLength" 2 40 false; mkTok 42 "Z9_" 2 51 false; mkTok 40 "," 2 55 false; mkTok 28 "float32" 2 57 false; mkTok 42 "o" 2 65 false; mkTok 43 "`a\`" 2 67 false; mkTok 40 "," 2 72 false; mkTok 23 "uint64" 2 73 false; mkTok 42 "roots" 2 80 false; mkTok 43 "`two words`" 2 86 false; mkTok 44 (string_of_bytes [47; 47; 32; 230; 179; 168; 233; 135; 138]%N) 2 98 true; mkTok 40 "," 3 0 false; mkTok 3 "}" 3 3 false; mkTok 0 "<EOF>" 4 0 false] (mkPacket (mkPtok 37 "MetaData" 2 0 0) (Some (mkPtok 3 "}" 3 3 21)) [(DMeta (mkMetaDef (mkSpan (mkPtok 37 "MetaData" 2 0 0) (mkPtok 3 "}" 3 3 21)) (mkPtok 37 "MetaData" 2 0 0) (mkPtok 42 "Logon" 2 9 1) (mkPtok 2 "{" 2 15 2) [(MIDecl (mkMetaDecl (mkSpan (mkPtok 14 "zchar[" 2 17 3) (mkPtok 40 "," 2 38 8)) (TyFixed (mkSpan (mkPtok 14 "zchar[" 2 17 3) (mkPtok 13 "]" 2 27 5)) (mkFixedString (mkSpan (mkPtok 14 "zchar[" 2 17 3) (mkPtok 13 "]" 2 27 5)) (mkPtok 14 "zchar[" 2 17 3) (mkPtok 30 "10" 2 24 4) (mkPtok 13 "]" 2 27 5))) (mkPtok 42 "float" 2 28 6) (Some (mkPtok 43 (string_of_bytes [96; 195; 169; 96]%N) 2 34 7)) (mkPtok 40 "," 2 38 8))); (MIRef (mkRefMetaDecl (mkSpan (mkPtok 42 "BodyLength" 2 40 9) (mkPtok 40 "," 2 55 11)) (mkPtok 42 "BodyLength" 2 40 9) (mkPtok 42 "Z9_" 2 51 10) None (mkPtok 40 "," 2 55 11))); (MIDecl (mkMetaDecl (mkSpan (mkPtok 28 "float32" 2 57 12) (mkPtok 40 "," 2 72 15)) (TyBasic (mkSpan (mkPtok 28 "float32" 2 57 12) (mkPtok 28 "float32" 2 57 12)) (mkBasicType (mkSpan (mkPtok 28 "float32" 2 57 12) (mkPtok 28 "float32" 2 57 12)) (mkPtok 28 "float32" 2 57 12))) (mkPtok 42 "o" 2 65 13) (Some (mkPtok 43 "`a\`" 2 67 14)) (mkPtok 40 "," 2 72 15))); (MIDecl (mkMetaDecl (mkSpan (mkPtok 23 "uint64" 2 73 16) (mkPtok 40 "," 3 0 20)) (TyBasic (mkSpan (mkPtok 23 "uint64" 2 73 16) (mkPtok 23 "uint64" 2 73 16)) (mkBasicType (mkSpan (mkPtok 23 "uint64" 2 73 16) (mkPtok 23 "uint64" 2 73 16)) (mkPtok 23 "uint64" 2 73 16))) (mkPtok 42 "roots" 2 80 17) (Some (mkPtok 43 "`two words`" 2 86 18)) (mkPtok 40 "," 3 0 20)))] (mkPtok 3 "}" 3 3 21)))])).
Eval vm_compute in ("<<<M275>>>" ++ check (runes_of_ascii "MetaData Header
{
} root	packet chars
    { char[	00
]
MetaDataX `u8 x,` ,repeat Foo stringy // " ++ [128512]%N ++ runes_of_ascii " emoji
, @lengthOf( u8x ) char[] Foo , match  Header as
leftPad { [
""abc"" ,
    255
, """ ++ [128512]%N ++ runes_of_ascii """ , """" ]	:charz
,007
    // packet A { u8 x, }
    : uint8x , 0 :asx , """"
    // " ++ [27880; 37322]%N ++ runes_of_ascii "
    : MetaDataX , } ,	char[]
uint8x , @tag(  1 )
    i8i8{ x Packet `doc`	, zchar[ 4294967296  ] metadata @calculatedFrom(
    ""a\\"" ) `" ++ [233]%N ++ runes_of_ascii "`, zchar[  10]//
crc
    @lengthOf( Foo
    // @lengthOf(
    ) `crlf
line` ,
} ,}	MetaData
msg_type {
    char[] calculatedFrom `line1
line2`,
} // `tick` ""quote"" 'q'")).
Eval vm_compute in ("<<<M285>>>" ++ check (runes_of_ascii "MetaData u8x { uint32 i8i8 `it's`, } options
{
    Logon
= '0'	; }
")).
Eval vm_compute in ("<<<M295>>>" ++ check (runes_of_ascii "options  {Packet= zchar[ 3
] u128 = zchar[
42 ] a1=
'\x00'	;
crc=	0	; //	t
}
")).
Eval vm_compute in ("<<<M305>>>" ++ check (runes_of_ascii "options {
	StringPrefixLenType = u16;
	ArrayPrefixLenType = u16;
}

packet SampleBinary {
	uint16 MsgType `" ++ [28040; 24687; 31867; 22411]%N ++ runes_of_ascii "`,
	u16 BodyLenght @lengthOf(Body) `" ++ [28040; 24687; 20307; 38271; 24230]%N ++ runes_of_ascii "`,
	match MsgType as Body {
		1 : Logon,
		2 : Logout,
		3 : Heartbeat,
		4 : RiskControlRequest,
		5 : RiskControlResponse,
	},
	@calculatedFrom(""CRC32"")
	u32 Ckecksum `" ++ [26657; 39564; 21644]%N ++ runes_of_ascii "`,
}

packet Logon {
	@leftPad('0')
	char[10] UserName `" ++ [29992; 25143; 21517]%N ++ runes_of_ascii "`,
	string Password `" ++ [23494; 30721]%N ++ runes_of_ascii "`,
	uint64 ClientId `" ++ [23458; 25143; 31471]%N ++ runes_of_ascii "ID`,
	u16 HeartbeatInterval `" ++ [24515; 36339; 38388; 38548]%N ++ runes_of_ascii "`,
}

packet Logout {
	@rightPad('0')
	char[10] UserName `" ++ [29992; 25143; 21517]%N ++ runes_of_ascii "`,
	uint64 ClientId `" ++ [23458; 25143; 31471]%N ++ runes_of_ascii "ID`,
}

packet Heartbeat {
}

packet RiskControlRequest {
	string UniqueOrderId `" ++ [21807; 19968; 35746; 21333; 21495]%N ++ runes_of_ascii "`,
	char[16] ClOrdID `" ++ [23458; 25143; 35746; 21333; 21495]%N ++ runes_of_ascii "`,
	char[3] MarketID `" ++ [24066; 22330]%N ++ runes_of_ascii "id`,
	char[12] SecurityID `" ++ [35777; 21048; 20195; 30721]%N ++ runes_of_ascii "`,
	char Side `" ++ [20080; 21334; 26041; 21521]%N ++ runes_of_ascii "`,
	char OrderType `" ++ [35746; 21333; 31867; 22411]%N ++ runes_of_ascii "`,
	u64 Price `" ++ [20215; 26684]%N ++ runes_of_ascii "`,
	u32 Qty `" ++ [25968; 37327]%N ++ runes_of_ascii "`,
	repeat string ExtraInfo `" ++ [38468; 21152; 20449; 24687]%N ++ runes_of_ascii "`,
	repeat SubOrder {
		char[16] ClOrdID `" ++ [23376; 35746; 21333; 21495]%N ++ runes_of_ascii "`,
		u64 Price `" ++ [23376; 35746; 21333; 20215; 26684]%N ++ runes_of_ascii "`,
		u32 Qty `" ++ [23376; 35746; 21333; 25968; 37327]%N ++ runes_of_ascii "`,
	},
}

packet RiskControlResponse {
	string UniqueOrderId `" ++ [21807; 19968; 35746; 21333; 21495]%N ++ runes_of_ascii "`,
	i32 Status `" ++ [29366; 24577]%N ++ runes_of_ascii "`,
	string Msg `" ++ [32467; 26524; 20449; 24687]%N ++ runes_of_ascii "`,
	repeat Detail,
}

packet Detail {
	string RuleName `" ++ [35268; 21017; 21517; 31216]%N ++ runes_of_ascii "`,
	u16 Code `" ++ [21407; 22240; 20195; 30721]%N ++ runes_of_ascii "`,
}")).
Eval vm_compute in ("<<<M315>>>" ++ check (runes_of_ascii "root packet packet asx { @tag(007 ) // @lengthOf(
repeat
    u64  leftPad , } packet
i64_{ // packet A { u8 x, }
@calculatedFrom(
""a\""b"" )
    zchar[
    10]
    chars,
    }
    MetaData A { charz
uint8x
    // trailing space 
    , len uint8x , u8
    charz,	string_ msg_type ,}
")).
Eval vm_compute in ("<<<M325>>>" ++ check (runes_of_ascii "root packet asx { { @tag(007 ) // @lengthOf(
repeat
    u64  leftPad , } packet
i64_{ // packet A { u8 x, }
@calculatedFrom(
""a\""b"" )
    zchar[
    10]
    chars,
    }
    MetaData A { charz
uint8x
    // trailing space 
    , len uint8x , u8
    charz,	string_ msg_type ,}
")).
Eval vm_compute in ("<<<M335>>>" ++ check (runes_of_ascii "root packet asx { @tag(007 007 ) // @lengthOf(
repeat
    u64  leftPad , } packet
i64_{ // packet A { u8 x, }
@calculatedFrom(
""a\""b"" )
    zchar[
    10]
    chars,
    }
    MetaData A { charz
uint8x
    // trailing space 
    , len uint8x , u8
    charz,	string_ msg_type ,}
")).
Eval vm_compute in ("<<<M345>>>" ++ check (runes_of_ascii "root packet asx { @tag(007 ) // @lengthOf(
repeat repeat
    u64  leftPad , } packet
i64_{ // packet A { u8 x, }
@calculatedFrom(
""a\""b"" )
    zchar[
    10]
    chars,
    }
    MetaData A { charz
uint8x
    // trailing space 
    , len uint8x , u8
    charz,	string_ msg_type ,}
")).
Eval vm_compute in ("<<<M355>>>" ++ check (runes_of_ascii "root packet asx { @tag(007 ) // @lengthOf(
repeat
    u64  leftPad leftPad , } packet
i64_{ // packet A { u8 x, }
@calculatedFrom(
""a\""b"" )
    zchar[
    10]
    chars,
    }
    MetaData A { charz
uint8x
    // trailing space 
    , len uint8x , u8
    charz,	string_ msg_type ,}
")).
Eval vm_compute in ("<<<M365>>>" ++ check (runes_of_ascii "root packet asx { @tag(007 ) // @lengthOf(
repeat
    u64  leftPad , } } packet
i64_{ // packet A { u8 x, }
@calculatedFrom(
""a\""b"" )
    zchar[
    10]
    chars,
    }
    MetaData A { charz
uint8x
    // trailing space 
    , len uint8x , u8
    charz,	string_ msg_type ,}
")).
Eval vm_compute in ("<<<M375>>>" ++ check (runes_of_ascii "root packet asx { @tag(007 ) // @lengthOf(
repeat
    u64  leftPad , } packet
i64_ i64_{ // packet A { u8 x, }
@calculatedFrom(
""a\""b"" )
    zchar[
    10]
    chars,
    }
    MetaData A { charz
uint8x
    // trailing space 
    , len uint8x , u8
    charz,	string_ msg_type ,}
")).
Eval vm_compute in ("<<<M385>>>" ++ check (runes_of_ascii "root packet asx { @tag(007 ) // @lengthOf(
repeat
    u64  leftPad , } packet
i64_{ // packet A { u8 x, }
@calculatedFrom( @calculatedFrom(
""a\""b"" )
    zchar[
    10]
    chars,
    }
    MetaData A { charz
uint8x
    // trailing space 
    , len uint8x , u8
    charz,	string_ msg_type ,}
")).
Eval vm_compute in ("<<<M395>>>" ++ check (runes_of_ascii "root packet asx { @tag(007 ) // @lengthOf(
repeat
    u64  leftPad , } packet
i64_{ // packet A { u8 x, }
@calculatedFrom(
""a\""b"" ) )
    zchar[
    10]
    chars,
    }
    MetaData A { charz
uint8x
    // trailing space 
    , len uint8x , u8
    charz,	string_ msg_type ,}
")).
Eval vm_compute in ("<<<M405>>>" ++ check (runes_of_ascii "root packet asx { @tag(007 ) // @lengthOf(
repeat
    u64  leftPad , } packet
i64_{ // packet A { u8 x, }
@calculatedFrom(
""a\""b"" )
    zchar[
    10 10]
    chars,
    }
    MetaData A { charz
uint8x
    // trailing space 
    , len uint8x , u8
    charz,	string_ msg_type ,}
")).
Eval vm_compute in ("<<<M415>>>" ++ check (runes_of_ascii "root packet asx { @tag(007 ) // @lengthOf(
repeat
    u64  leftPad , } packet
i64_{ // packet A { u8 x, }
@calculatedFrom(
""a\""b"" )
    zchar[
    10]
    chars chars,
    }
    MetaData A { charz
uint8x
    // trailing space 
    , len uint8x , u8
    charz,	string_ msg_type ,}
")).
Eval vm_compute in ("<<<M425>>>" ++ check (runes_of_ascii "root packet asx { @tag(007 ) // @lengthOf(
repeat
    u64  leftPad , } packet
i64_{ // packet A { u8 x, }
@calculatedFrom(
""a\""b"" )
    zchar[
    10]
    chars,
    } }
    MetaData A { charz
uint8x
    // trailing space 
    , len uint8x , u8
    charz,	string_ msg_type ,}
")).
Eval vm_compute in ("<<<M435>>>" ++ check (runes_of_ascii "root packet asx { @tag(007 ) // @lengthOf(
repeat
    u64  leftPad , } packet
i64_{ // packet A { u8 x, }
@calculatedFrom(
""a\""b"" )
    zchar[
    10]
    chars,
    }
    MetaData A A { charz
uint8x
    // trailing space 
    , len uint8x , u8
    charz,	string_ msg_type ,}
")).
Eval vm_compute in ("<<<M445>>>" ++ check (runes_of_ascii "root packet asx { @tag(007 ) // @lengthOf(
repeat
    u64  leftPad , } packet
i64_{ // packet A { u8 x, }
@calculatedFrom(
""a\""b"" )
    zchar[
    10]
    chars,
    }
    MetaData A { charz charz
uint8x
    // trailing space 
    , len uint8x , u8
    charz,	string_ msg_type ,}
")).
Eval vm_compute in ("<<<M455>>>" ++ check (runes_of_ascii "root packet asx { @tag(007 ) // @lengthOf(
repeat
    u64  leftPad , } packet
i64_{ // packet A { u8 x, }
@calculatedFrom(
""a\""b"" )
    zchar[
    10]
    chars,
    }
    MetaData A { charz
uint8x
    // trailing space 
    , , len uint8x , u8
    charz,	string_ msg_type ,}
")).
Eval vm_compute in ("<<<M465>>>" ++ check (runes_of_ascii "root packet asx { @tag(007 ) // @lengthOf(
repeat
    u64  leftPad , } packet
i64_{ // packet A { u8 x, }
@calculatedFrom(
""a\""b"" )
    zchar[
    10]
    chars,
    }
    MetaData A { charz
uint8x
    // trailing space 
    , len uint8x uint8x , u8
    charz,	string_ msg_type ,}
")).
Eval vm_compute in ("<<<M475>>>" ++ check (runes_of_ascii "root packet asx { @tag(007 ) // @lengthOf(
repeat
    u64  leftPad , } packet
i64_{ // packet A { u8 x, }
@calculatedFrom(
""a\""b"" )
    zchar[
    10]
    chars,
    }
    MetaData A { charz
uint8x
    // trailing space 
    , len uint8x , u8 u8
    charz,	string_ msg_type ,}
")).
Eval vm_compute in ("<<<M485>>>" ++ check (runes_of_ascii "root packet asx { @tag(007 ) // @lengthOf(
repeat
    u64  leftPad , } packet
i64_{ // packet A { u8 x, }
@calculatedFrom(
""a\""b"" )
    zchar[
    10]
    chars,
    }
    MetaData A { charz
uint8x
    // trailing space 
    , len uint8x , u8
    charz, ,	string_ msg_type ,}
")).
Eval vm_compute in ("<<<M495>>>" ++ check (runes_of_ascii "root packet asx { @tag(007 ) // @lengthOf(
repeat
    u64  leftPad , } packet
i64_{ // packet A { u8 x, }
@calculatedFrom(
""a\""b"" )
    zchar[
    10]
    chars,
    }
    MetaData A { charz
uint8x
    // trailing space 
    , len uint8x , u8
    charz,	string_ msg_type msg_type ,}
")).
Eval vm_compute in ("<<<M505>>>" ++ check (runes_of_ascii "root packet asx { @tag(007 ) // @lengthOf(
repeat
    u64  leftPad , } packet
i64_{ // packet A { u8 x, }
@calculatedFrom(
""a\""b"" )
    zchar[
    10]
    chars,
    }
    MetaData A { charz
uint8x
    // trailing space 
    , len uint8x , u8
    charz,	string_ msg_type ,} }
")).
Eval vm_compute in ("<<<M515>>>" ++ check (runes_of_ascii "root packet asx { @tag(007 ) // @lengthOf(
repeat
    u64  leftPad , } packet
i64_{ // packet A { u8 x, }
@calculatedFrom(
""a\""b"" )
    zchar[
    10@tag]
    chars,
    }
    MetaData A { charz
uint8x
    // trailing space 
    , len uint8x , u8
    charz,	string_ msg_type ,}
")).
Eval vm_compute in ("<<<M525>>>" ++ check (runes_of_ascii "root packet asx { @tag(007 ) // @lengthOf(
repeat
    u64  leftPad , } packet
i64_{ // packet A { u8 x, }
@calculatedFrom(
""a\""b"" )
    zchar[
    10]
    chars,
    }
    MetaData A { charz
uint8x
    // trailing space 
    , len uint8x , u8
    charz,	string_ msg_type ,@tag}
")).
Eval vm_compute in ("<<<M535>>>" ++ check (runes_of_ascii "MetaData asx
{ zchar[ 7
] roots
,leftPad
Foo
    `" ++ [233]%N ++ runes_of_ascii "`
, Header Header , int16
falsey , // `tick` ""quote"" 'q'
u16 Packet , , int64 packetx// " ++ [128512]%N ++ runes_of_ascii " emoji
,}")).
Eval vm_compute in ("<<<M545>>>" ++ check (runes_of_ascii "MetaData asx
 zchar[ 7
] roots
,leftPad
Foo
    `" ++ [233]%N ++ runes_of_ascii "`
, Header Header , int16
falsey , // `tick` ""quote"" 'q'
u16 Packet , int64 packetx// " ++ [128512]%N ++ runes_of_ascii " emoji
,}")).
Eval vm_compute in ("<<<M555>>>" ++ check (runes_of_ascii "MetaData asx
{ zchar[ root
] roots
,leftPad
Foo
    `" ++ [233]%N ++ runes_of_ascii "`
, Header Header , int16
falsey , // `tick` ""quote"" 'q'
u16 Packet , int64 packetx// " ++ [128512]%N ++ runes_of_ascii " emoji
,}")).
Eval vm_compute in ("<<<M565>>>" ++ check (runes_of_ascii "
")).
Eval vm_compute in ("<<<M575>>>" ++ check ([0]%N)).
Eval vm_compute in ("<<<M585>>>" ++ check (runes_of_ascii "$" ++ [65533; 65533; 65533]%N ++ runes_of_ascii "G" ++ [17]%N ++ runes_of_ascii "G" ++ [939; 65533; 65533; 65533]%N ++ runes_of_ascii "C/2""" ++ [26]%N ++ runes_of_ascii "{" ++ [65533; 65533]%N ++ runes_of_ascii "r" ++ [65533; 127; 65533]%N ++ runes_of_ascii "
" ++ [65533; 65533; 65533; 11]%N ++ runes_of_ascii "o!<" ++ [127; 65533; 65533; 65533]%N ++ runes_of_ascii "g")).
Eval vm_compute in ("<<<M595>>>" ++ check (runes_of_ascii "= u16 char : '0' i16 ) = @lengthOf( } @rightPad true zchar[")).
