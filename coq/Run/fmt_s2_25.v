From FP Require Import Lexer Parser ShowPT Digest Formatter.
From Coq Require Import String List NArith.
Import ListNotations.
Open Scope string_scope.
Set Printing Width 100000000.
Set Printing Depth 100000000.
Definition show_fres (r : fres) : string :=
  match r with
  | FOk s => "OK:" ++ sh_escaped s ""
  | FErr s => "ERR:" ++ sh_escaped s ""
  | FPanic p => "PANIC:" ++ p
  end.
Definition check (rs : list rune) : string := digest (show_fres (format_res rs)).
Definition full (rs : list rune) : string := show_fres (format_res rs).
Eval vm_compute in ("<<<M4489>>>" ++ check (runes_of_ascii "root packet rootA {
    @calculatedFrom("""")
    match packetx as x_y_z {
        // `tick` ""quote"" 'q'
        """ ++ [28040; 24687]%N ++ runes_of_ascii """ : crc,
        ""a	b"" : i8i8,
        ""it's"" : msg_type,
        10 : string_,
        0123456789 : int,
    },
    zchar[0123456789] _x `say ""hi""`,
    @lengthOf(lengthOf)
    repeat chars {
        repeat i16 u,
    },
    i16 u @lengthOf(Pad) `say ""hi""`,
    string u8x @calculatedFrom(""\n"") `" ++ [233]%N ++ runes_of_ascii "`,
    MetaDataX `" ++ [233]%N ++ runes_of_ascii "`,
    char[] Header @lengthOf(Foo) `u8 x,`,//
}

// c
// " ++ [128512]%N ++ runes_of_ascii " emoji
packet repeatCount {
    @tag(7)
    char[] x_y_z `it's`,
    @calculatedFrom(""`tick`"")
    repeat o,
    @lengthOf(pack)
    @lengthOf(u128)
    @lengthOf(stringy)
    match zchar as MetaDataX {
        [""// no comment"", 0] : options1,
        [""a	b"", ""`tick`"", """ ++ [233]%N ++ runes_of_ascii "t" ++ [233]%N ++ runes_of_ascii """, 7, 0123456789] : string_,
        ""a\""b"" : len,
        ""a\\"" : MetaDataX,
    },
    u8x {
        repeat chars MetaDataX `two words`,
        repeat Header len ``,
        pack {
            u16 asx @calculatedFrom(""`tick`"") `line1
            line2`,
            f64 string_,
            float32 zchar @lengthOf(i8i8),
            As @lengthOf(_x) `u8 x,`,
        },
        int32 roots `doc`,
    },
}

packet As {
    @lengthOf(leftPad)
    @calculatedFrom("""")
    x_y_z @lengthOf(i8i8) `" ++ [233]%N ++ runes_of_ascii "`,
    repeat float32 Z9_,// `tick` ""quote"" 'q'
    pack,
    msg_type,// `tick` ""quote"" 'q'
    @rightPad('0')
    // a // b
    // @lengthOf(
    u16 crc,
    @lengthOf(chars)
    repeat x `it's`,
}

packet body {
    @calculatedFrom(""" ++ [28040; 24687]%N ++ runes_of_ascii """)
    T @lengthOf(u8x),
    @tag(3)
    // packet A { u8 x, }
    u32 u @lengthOf(msg_type),
    @calculatedFrom(""" ++ [128512]%N ++ runes_of_ascii """)
    repeat char[10] A,
    x {
        string o,
        match Pad as rootA {
            ""packet"" : matchKey,
        },
        u64 x_y_z,
        char[] leftPad @lengthOf(float),/// triple
    },
    repeat uint8x falsey `" ++ [233]%N ++ runes_of_ascii "`,
    @lengthOf(Z9_)
    u8 f32a,
    @tag(0123456789)
    // @lengthOf(
    // `tick` ""quote"" 'q'
    u8 matchKey ``,
    Pad trueish `say ""hi""`,
}")).
Eval vm_compute in ("<<<M1022>>>" ++ check (runes_of_ascii "packet T
{
repeat	zchar[007 ] x_y_z  ,repeat Logon{ repeat	f32a `// not a comment` , string uint8x `crlf
line`
, }//	t
,	int64 len `// not a comment` ,match
repeatCount as
    // " ++ [27880; 37322]%N ++ runes_of_ascii "
    x_y_z
{ 00
    :
    packetx , [ ""CRC32""
, """ ++ [128512]%N ++ runes_of_ascii """ ] : metadata
, 00// `tick` ""quote"" 'q'
: // trailing space 
metadata
    , }	, repeat
msg_type{ falsey// c
{ repeat len { match float as stringy
{
    // c
    [
//
// " ++ [128512]%N ++ runes_of_ascii " emoji
007 ,	""packet""  ,
007
, ""\n"",""abc""
    ,1 , 4294967296 ]: // " ++ [128512]%N ++ runes_of_ascii " emoji
matchKey ,
42 :f32a// packet A { u8 x, }
,
[ 10
// @lengthOf(
// c
,	""a\\""	]:a1
//
// " ++ [128512]%N ++ runes_of_ascii " emoji
,
    65535 : tag// trailing space 
, // `tick` ""quote"" 'q'
} , } // " ++ [27880; 37322]%N ++ runes_of_ascii "
, } ,u64 _x`two words` //x
, pack  , } , repeat	As//
{
repeat string
    pack , uint8// c
leftPad
@lengthOf( As )
, string options1
@calculatedFrom( ""// no comment"" /// triple
) `" ++ [28040; 24687; 31867; 22411]%N ++ runes_of_ascii "`
    ,  u8 leftPad
    @lengthOf( options1) ,}
    // @lengthOf(
    , }//
packet float
    { @tag( 42
) //
repeat int64 float
    `a\` , @calculatedFrom(	""// no comment"" )	repeat i64_
    packetx  , match lengthOf as // a // b
falsey // @lengthOf(
{ [42 , ""\" ++ [233]%N ++ runes_of_ascii """,10 , 10
    ,
007 , ""abc"" , 1	, 7] : metadata //	t
, }	, repeat	int ,
    repeatCount
, zchar[ 255
] x
    @lengthOf(A
// c
// @lengthOf(
)	, @leftPad (
' '	) @lengthOf(
    o
)
    @rightPad
    (
'\x00'
)
// a // b
// @lengthOf(
repeat float64 leftPad
    , @leftPad (  '0') match	i8i8 as
    // @lengthOf(
    charz
{ """ ++ [28040; 24687]%N ++ runes_of_ascii """ :roots , } , @calculatedFrom(
/// triple
// packet A { u8 x, }
""abc"" )
    repeat zchar[
    00 ] matchKey , // packet A { u8 x, }
uint16
    /// triple
    string_`doc`  , }
//x
")).
Eval vm_compute in ("<<<M189>>>" ++ check (runes_of_ascii "packet i64_ { match
    BodyLength as u8x {
[ 0123456789 ]: leftPad ""{,}"" :	lengthOf	,
007 :	A, [  ""a\""b"" ] :float , //x
} , @calculatedFrom( // `tick` ""quote"" 'q'
""" ++ [233]%N ++ runes_of_ascii "t" ++ [233]%N ++ runes_of_ascii """ )// a // b
body
u8x
    , packetx`say ""hi""`, // @lengthOf(
zchar[
    42 ]MetaDataX `line1
line2`
    ,
    f32 // @lengthOf(
matchKey, roots{
    // " ++ [27880; 37322]%N ++ runes_of_ascii "
    u128 @lengthOf( T ) , char[
// " ++ [128512]%N ++ runes_of_ascii " emoji
// packet A { u8 x, }
42
    ]	x_y_z	@calculatedFrom( """" ) ,repeat float64 stringy// " ++ [128512]%N ++ runes_of_ascii " emoji
`` ,
    }
,u16 // @lengthOf(
metadata
    `tab	here` ,@rightPad	( '0'
    // " ++ [128512]%N ++ runes_of_ascii " emoji
    )
@tag( 7 )
// " ++ [27880; 37322]%N ++ runes_of_ascii "
// " ++ [27880; 37322]%N ++ runes_of_ascii "
repeat uint16 // @lengthOf(
x_y_z `say ""hi""`, repeat
    roots{ // a // b
Packet {float{ repeat asx , asx
Foo
    , }
,
    }	,} ,@tag( 42 )//x
u `line1
line2` , // `tick` ""quote"" 'q'
}  packet int { } options {
    // `tick` ""quote"" 'q'
    Logon
    = ""{,}"" ; } packet	As{// packet A { u8 x, }
@calculatedFrom( // @lengthOf(
"""" ) @rightPad ( '\x00'
// " ++ [128512]%N ++ runes_of_ascii " emoji
//	t
) @leftPad (
'0' ) repeat Logon
f32a	, @lengthOf(
// a // b
// a // b
rootA ) @tag(42 )
    @lengthOf(
// " ++ [128512]%N ++ runes_of_ascii " emoji
//
u
//	t
// a // b
)repeat o u8x `u8 x,` , @tag( 7) zchar[
    //x
    42] asx @lengthOf(
    trueish ) , @lengthOf( trueish ) int16
stringy
,
zchar f32a
    `two words` , string u8x@calculatedFrom( ""\n""
    )  , _x `
` , @lengthOf( i8i8  ) i64_@lengthOf(
    uint8x )
    , uint32 rootA `it's` , }
")).
Eval vm_compute in ("<<<M4385>>>" ++ check (runes_of_ascii "

  root 
packet o 
{ @leftPad 
        // " ++ [128512]%N ++ runes_of_ascii " emoji
//x
    ( 
'0'

)
	u16
    Pad ,
}
	packet  string_
{match

    o	as 
// c
	  chars{ [3
	,
""" ++ [128512]%N ++ runes_of_ascii """	// trailing space 
	] 
:  _x 
,}
,char[]
rootA @lengthOf( 
f32a	)
    `it's` ,
    @leftPad
( 
    // " ++ [128512]%N ++ runes_of_ascii " emoji
  // a // b
	) // packet A { u8 x, }

repeat metadata  //x
    ,@calculatedFrom( ""it's""
	// trailing space 
    // `tick` ""quote"" 'q'

)
zchar[ 
      // trailing space 
	3

    ]
i8i8  @lengthOf(
options1
)	`line1
line2`,

    }root  packet 
metadata	{	match

    MetaDataX
as falsey{
42
:

    Header
    ""1"":	Z9_
    ,
    }
,

As
    {
    uint8
// `tick` ""quote"" 'q'
  	// a // b

pack
`" ++ [28040; 24687; 31867; 22411]%N ++ runes_of_ascii "`
,	char[

    // " ++ [27880; 37322]%N ++ runes_of_ascii "

4294967296	]

    stringy@calculatedFrom(	""`tick`""
)
    ,

    i16  //x
  rootA  @lengthOf(
Foo
	)	`u8 x,`//
  ,

    //

  //	t
  } ,

    @leftPad 
(
	) match  charz

    as
f32a
{ [ ""\n"" 
,0123456789
    ]

: x_y_z 
, """ ++ [28040; 24687]%N ++ runes_of_ascii """

    //
	:string_}
,	@lengthOf(Packet )
match
Packet
as
asx	{	[  // a // b

	42 
,""\" ++ [233]%N ++ runes_of_ascii """

    ] :  lengthOf
    ,

65535
    : falsey
    }, body
leftPad
,  char[ 0]

    o	@calculatedFrom(
    // " ++ [27880; 37322]%N ++ runes_of_ascii "

""a\""b"")
    `it's` ,

@rightPad
( ' ' )	char[ 65535	/// triple
  ] a1 `crlf
line` ,  T
@lengthOf(
pack)`" ++ [28040; 24687; 31867; 22411]%N ++ runes_of_ascii "`, 
}

")).
Eval vm_compute in ("<<<M204>>>" ++ check (runes_of_ascii "packet i64_ {
    @leftPad( ) @tag(	4294967296
) repeat	string Logon `{ , }`
    ,@lengthOf(
    float )u16
    //x
    matchKey @lengthOf(
body
) , repeat
    /// triple
    char[  4294967296 ]
tag , @lengthOf(asx )
repeat
    trueish , repeat
    lengthOf
len
,// packet A { u8 x, }
match asx
    as
    crc {
    [ // a // b
""" ++ [28040; 24687]%N ++ runes_of_ascii """
// trailing space 
// c
, ""abc"" ] :
roots
, },	match
    uint8x as
repeatCount
    { [
0123456789
    ]:
    /// triple
    Foo ,""a\""b""
    : Packet
    42  :
    stringy , [ // `tick` ""quote"" 'q'
0123456789 , 007
] : f32a , //x
42: x }
    // @lengthOf(
    ,
@lengthOf( msg_type )
uint8x , repeat metadata// " ++ [27880; 37322]%N ++ runes_of_ascii "
,} MetaData float { char[ 42
] Logon
`a\` , stringy packetx , int32 pack,rootA
x
    , Logon Foo , u16 A
//	t
//x
, } //x
packet
    //	t
    Header{  @calculatedFrom(
    ""1"" ) u
,@tag( 65535
// a // b
// trailing space 
)
pack { string trueish `" ++ [28040; 24687; 31867; 22411]%N ++ runes_of_ascii "`
    , match
stringy
    as tag
{  ""a\\"" : float
    // `tick` ""quote"" 'q'
    ,
    ""abc"" :Z9_ ,007 :	metadata, // c
[ 10 ] :matchKey // " ++ [27880; 37322]%N ++ runes_of_ascii "
, ""a	b"" : _x 7// " ++ [128512]%N ++ runes_of_ascii " emoji
:Pad } ,  repeat body
, f32 int , } ,  MetaDataX u128 `doc` , }
options {}
")).
Eval vm_compute in ("<<<M4356>>>" ++ check (runes_of_ascii "MetaData crc {
    Z9_ metadata `u8 x,`,
}

packet matchKey {
    leftPad,
    string x,
    // " ++ [27880; 37322]%N ++ runes_of_ascii "
}

packet x {
    match msg_type as MetaDataX {
        // @lengthOf(
        00 : roots,
    },
    char[255] falsey `" ++ [28040; 24687; 31867; 22411]%N ++ runes_of_ascii "`,
    @lengthOf(Logon)
    @tag(42)
    @lengthOf(Foo)
    repeat char[1] u,
    // packet A { u8 x, }
    //	t
    i8 chars @calculatedFrom(""a\""b""),
    @calculatedFrom(""" ++ [128512]%N ++ runes_of_ascii """)
    @calculatedFrom(""`tick`"")
    f64 Logon,
    @lengthOf(calculatedFrom)
    //
    repeatCount {
        repeat Packet `two words`,
        match i64_ as charz {
            ""a\\"" : int,
            [""\" ++ [233]%N ++ runes_of_ascii """, 0123456789, """ ++ [28040; 24687]%N ++ runes_of_ascii """] : Pad,
            1 : As,
            ""CRC32"" : Header,
        },
        char[007] tag `doc`,
        repeat As `" ++ [233]%N ++ runes_of_ascii "`,// c
    },
    MetaDataX @calculatedFrom("""") `line1
    line2`,// c
}

options {
    _x = false
    As = zchar[65535]
    BodyLength = int64
    o = false;
    calculatedFrom = '0';
}

root packet Packet {
    // @lengthOf(
    falsey Packet,
    @lengthOf(BodyLength)
    @lengthOf(uint8x)
    @rightPad()
    string float `// not a comment`,
}")).
Eval vm_compute in ("<<<M4113>>>" ++ check (runes_of_ascii "packet BodyLength {
    char[3] i64_ @calculatedFrom(""`tick`"") `line1
    line2`,
    @leftPad()
    x `two words`,
    zchar[0123456789] pack @calculatedFrom(""a\""b"") `crlf
    line`,
    calculatedFrom {
        char[255] MetaDataX @calculatedFrom(""packet"") `doc`,
        zchar[007] leftPad `crlf
        line`,
        uint8x @calculatedFrom(""a\""b""),
        //
        //
        MetaDataX _x,
    },
    @calculatedFrom(""packet"")
    zchar[7] repeatCount `" ++ [28040; 24687; 31867; 22411]%N ++ runes_of_ascii "`,
    @lengthOf(Foo)
    // " ++ [128512]%N ++ runes_of_ascii " emoji
    int64 A @lengthOf(charz) ``,
    @tag(7)
    packetx @calculatedFrom("""") `a\`,
}

root packet u128 {
}

packet Logon {
    T {
        T @lengthOf(u8x) `tab	here`,
        As `u8 x,`,
    },
    int64 T,
    i64 tag @lengthOf(i64_),
    @lengthOf(metadata)
    repeat i8 rootA,
    int64 Foo @lengthOf(a1),
    chars {
        string packetx @lengthOf(chars) `" ++ [233]%N ++ runes_of_ascii "`,
        a1 @calculatedFrom(""a\""b""),
        char[] crc @lengthOf(i8i8),
    },
}

options {
    matchKey = ' '
    asx = true;
    MetaDataX = ""it's"";
}")).
Eval vm_compute in ("<<<M3705>>>" ++ check (runes_of_ascii "packet a1 {
    chars {
        len {
            Logon len,
            string string_,
            u8x @calculatedFrom(""a\\""),
            repeat float {
                body int `" ++ [233]%N ++ runes_of_ascii "`,
            },
        },
        repeat As {
            repeat i64_ f32a `{ , }`,
            A @calculatedFrom(""\" ++ [233]%N ++ runes_of_ascii """),
            int64 float,
        },
        match x as chars {
            [
                """ ++ [128512]%N ++ runes_of_ascii """, 007, ""x y"", 00, ""x y"",
                10
            ] : string_,
            10 : float,
            4294967296 : x_y_z,
            [
                """ ++ [233]%N ++ runes_of_ascii "t" ++ [233]%N ++ runes_of_ascii """, 10, 42, """ ++ [28040; 24687]%N ++ runes_of_ascii """, 0123456789,
                42, 10
            ] : T,
            00 : leftPad,
        },
        crc @lengthOf(u128),
    },
    char[] packetx @calculatedFrom(""abc"") `line1
        line2`,
    int32 repeatCount @lengthOf(Foo) `it's`,
    match Packet as string_ {
        42 : f32a,
        255 : MetaDataX,
        1 : i8i8,
        """" : a1,
        //	t
    },
    _x @lengthOf(chars),
}")).
Eval vm_compute in ("<<<M1263>>>" ++ check (runes_of_ascii "root
    packet  matchKey
    { match uint8x as x_y_z { 1
    : // @lengthOf(
falsey // a // b
, } ,}
packet
    // " ++ [27880; 37322]%N ++ runes_of_ascii "
    MetaDataX  {
    /// triple
    float @calculatedFrom(""a\\"" ) `// not a comment`, repeat stringy {  match repeatCount as
a1 {	[ ""// no comment"" ] : metadata , //	t
[ 4294967296 ,""" ++ [233]%N ++ runes_of_ascii "t" ++ [233]%N ++ runes_of_ascii """ ] : len
    [""a\\""
    , 4294967296 ,""packet"" , """ ++ [233]%N ++ runes_of_ascii "t" ++ [233]%N ++ runes_of_ascii """ ,
    10 , 0 // " ++ [27880; 37322]%N ++ runes_of_ascii "
] :charz
    , 00 :  i64_ , [
7 ] :
tag, 00
//	t
//	t
: falsey }
    , }
    , roots @calculatedFrom( ""1"" ) `
`
    ,msg_type  @lengthOf(
    stringy
) `a\`  , int MetaDataX `doc` , @calculatedFrom( // trailing space 
""" ++ [128512]%N ++ runes_of_ascii """ ) u64
int `say ""hi""`
    , }packet //x
rootA{
asx // c
@lengthOf( Foo) `a\`, @leftPad(
' ' )
string// c
Z9_
,
    crc
    //x
    @lengthOf(
//	t
// a // b
leftPad
)	`doc` ,  repeat calculatedFrom
    // packet A { u8 x, }
    u128`{ , }` , //x
@calculatedFrom(
""packet""
) @calculatedFrom(""\" ++ [233]%N ++ runes_of_ascii """	)i16 roots `doc` , }")).
Eval vm_compute in ("<<<M1360>>>" ++ check (runes_of_ascii "root packet lengthOf // @lengthOf(
{ } //x
packet _x{//
@calculatedFrom(//x
""a	b"" )
@tag( 65535// packet A { u8 x, }
)
    char[ 65535 ]
// c
// `tick` ""quote"" 'q'
matchKey , }packet leftPad {
u16
leftPad	, @tag( 0123456789 )
// " ++ [128512]%N ++ runes_of_ascii " emoji
// @lengthOf(
char[ 1 ] f32a @lengthOf( options1
) , string_ BodyLength , Foo
`" ++ [28040; 24687; 31867; 22411]%N ++ runes_of_ascii "`
    //
    ,@lengthOf(
u128 ) i32 trueish @lengthOf( chars
)
`it's` ,
    u8x	u8x  `{ , }` , match Foo
    as leftPad
{ // c
0123456789: calculatedFrom}, @leftPad ('0' // c
)int32	rootA	`crlf
line`
,	match BodyLength as
pack
{ [ 10
    ] : stringy,
10 :stringy 1 :u , } , match zchar as calculatedFrom
{ """ ++ [128512]%N ++ runes_of_ascii """ :	len , }
//x
// trailing space 
, } MetaData // packet A { u8 x, }
Z9_
{Pad As `line1
line2`
    // a // b
    , Z9_ zchar , int8 repeatCount , i64_ trueish,
A uint8x
,// trailing space 
leftPad Logon`two words`, } options { } 	 ")).
Eval vm_compute in ("<<<M3618>>>" ++ check (runes_of_ascii "

  options
	    // trailing space 
    	// " ++ [27880; 37322]%N ++ runes_of_ascii "
	{

    Foo
=
""it's"" lengthOf = int8

    falsey  /// triple
      =	7

    ;

a1
=
false ;
    } MetaData
	repeatCount
    //x
  //x

{ T

repeatCount, u8x
msg_type `// not a comment`,
    repeatCount

T

,

    }

    packet	repeatCount  {

@tag(  007
    ) i64_  As
	,
	} root 
packet 
packetx {
    string
	//	t
    	// " ++ [128512]%N ++ runes_of_ascii " emoji
    T@calculatedFrom(  ""{,}""	//
		)

,	repeat 
zchar[ 
4294967296]  x  ,  @tag(
42 )
@lengthOf(
lengthOf
)/// triple
      @calculatedFrom(
""`tick`"" ) repeat u16 u128
    `say ""hi""`// trailing space 
	,// trailing space 
	@rightPad
( )@tag(255 )
    repeat	uint8x 
Logon  
  // packet A { u8 x, }

,  repeat zchar[	007
]  Logon  `a\`
,
    @rightPad (
// `tick` ""quote"" 'q'
  '0')// @lengthOf(

	string falsey
,
    } ")).
Eval vm_compute in ("<<<M1187>>>" ++ check (runes_of_ascii "packet len {	@tag( 007 ) @lengthOf(  calculatedFrom
    // @lengthOf(
    )
@rightPad
( '0' )
roots
asx `
` ,@calculatedFrom(
    ""\" ++ [233]%N ++ runes_of_ascii """ )
    //
    repeatCount @lengthOf(matchKey
) `it's` , @lengthOf(
int ) match
    repeatCount as rootA {  ""packet""
// `tick` ""quote"" 'q'
// " ++ [27880; 37322]%N ++ runes_of_ascii "
: x_y_z
[ ""1""
    // `tick` ""quote"" 'q'
    ,
65535 , 3, ""{,}"" ,//x
"""" ]
:
    Logon } ,repeat options1 ,
stringy@lengthOf(
/// triple
//	t
Header )
`
` ,
    repeat
zchar[ 7 ]msg_type `tab	here`
,/// triple
zchar[ 10] u8x, Pad
    {u8x
@calculatedFrom(	""packet"" )  ,},  i8i8 {
repeat uint8x lengthOf ,
    match Z9_
    as A
    // " ++ [128512]%N ++ runes_of_ascii " emoji
    { 0	:trueish , } ,
} , match
u128 as lengthOf //	t
{
    3	: //	t
Pad}
// c
//	t
, }
packet calculatedFrom
{
zchar[ // `tick` ""quote"" 'q'
10
]repeatCount
    ,}")).
Eval vm_compute in ("<<<M4107>>>" ++ check (runes_of_ascii "options {
    LittleEndian = false;
    StringPrefixLenType = u16;
    ArrayPrefixLenType = u32;
}

packet Order {
    uint8 x,
    repeat string venue,
}

packet Heartbeat {
    i64 count,
    zchar[1] Qty,
    repeat InX29 {
        InSeqno26 {
            int64 f1,
            char[5] Acct,
            Order,
        },
        repeat InSide285 {
            repeat Order,
            char[10] Px,
            zchar[9] OrderId,
        },
        char[] venue,
        Order,
    },
    @rightPad('\x00')
    char[4] clOrdID,
}

root packet Party {
    zchar[3] f1,
    u32 clOrdID,
    u32 Px @lengthOf(Body),
    match clOrdID as Body {
        [180, 64] : Heartbeat,
        11 : Order,
    },
    u32 Side2 @calculatedFrom(""CR\
        C32""),
}")).
Eval vm_compute in ("<<<M157>>>" ++ check (runes_of_ascii "packet Packet { zchar[ /// triple
00] u
@lengthOf(tag
    ),	repeat // " ++ [128512]%N ++ runes_of_ascii " emoji
string u8x `u8 x,`
    , packetx { repeat uint8 leftPad `doc` ,
}	,// " ++ [27880; 37322]%N ++ runes_of_ascii "
@tag(	0123456789
)char[] chars@lengthOf(rootA
// trailing space 
// c
) `{ , }` , uint8 Packet ,
repeat a1 `two words`
//
//
,@calculatedFrom(
    //	t
    ""it's"") string_ {u16 A
// packet A { u8 x, }
// a // b
`crlf
line` , repeat
string // " ++ [27880; 37322]%N ++ runes_of_ascii "
uint8x
    , string u128 ,
    } , }	packet MetaDataX{
    //x
    @tag( 0123456789 ) char[ // packet A { u8 x, }
3
    ] Packet , } MetaData
    repeatCount {  } root packet  u8x
    // `tick` ""quote"" 'q'
    { x_y_z// " ++ [27880; 37322]%N ++ runes_of_ascii "
@lengthOf(
    // a // b
    o ) `two words` , // " ++ [27880; 37322]%N ++ runes_of_ascii "
repeat zchar[ 0123456789
] len `" ++ [233]%N ++ runes_of_ascii "` , }
//
")).
Eval vm_compute in ("<<<M4402>>>" ++ check (runes_of_ascii "

  options{	tag

    =	""it's"" 
//	t
// packet A { u8 x, }

; int =	zchar[ 00
]
;
    x_y_z
    =  ""a	b""
;
packetx

    = ' '
;
	} packet rootA

{
uint8x
    @calculatedFrom(
    ""CRC32""

    )	, // " ++ [27880; 37322]%N ++ runes_of_ascii "
	  u // `tick` ""quote"" 'q'

{	repeat

    string repeatCount  `line1
line2` ,
    repeat 
Logon
	{  f32a

    @lengthOf(
roots),
	Packet{
int32 Z9_	`u8 x,` 
,
    } 
,Packet Packet 
,
}
    , 
repeat 
      // " ++ [128512]%N ++ runes_of_ascii " emoji
  // trailing space 
repeatCount zchar,
    }
	,a1
@calculatedFrom(
""abc"" )	// `tick` ""quote"" 'q'
  , 
} // `tick` ""quote"" 'q'
		root packet crc 
{
@tag(

    00
    )char[
7

// `tick` ""quote"" 'q'
  ] asx	@lengthOf(

    T
    ) ``	, }

")).
Eval vm_compute in ("<<<M4464>>>" ++ check (runes_of_ascii "  //	t
	packet

len { repeat Logon
    {
i16
	leftPad	,

    } ,@calculatedFrom( ""a\""b"") repeat 	 /// triple
    u16
    // trailing space 
	//x
		u
, @calculatedFrom( 
    // a // b
	""abc"" )Header
`two words` ,

u8

pack

@calculatedFrom(  """ ++ [233]%N ++ runes_of_ascii "t" ++ [233]%N ++ runes_of_ascii """ 
    // " ++ [128512]%N ++ runes_of_ascii " emoji
	)
,
}// @lengthOf(
packet	string_

    {
    stringy@calculatedFrom(	// " ++ [128512]%N ++ runes_of_ascii " emoji
      ""it's""	)
    ,
}

packet
	chars
    { 
// `tick` ""quote"" 'q'
		match
matchKey as 
_x
{

    ""abc""
:
	Packet // " ++ [128512]%N ++ runes_of_ascii " emoji
	}

,	// @lengthOf(

	char
Foo `doc`	,	match

charz

    as
	Foo{
	[
1
	,

    ""\" ++ [233]%N ++ runes_of_ascii """ ]
    :

    Logon ,},@lengthOf(  pack )	/// triple
Packet
, } 	 // a // b
")).
Eval vm_compute in ("<<<M654>>>" ++ check (runes_of_ascii "options
    //	t
    { lengthOf
= ""a\""b""
    A =
    // packet A { u8 x, }
    false ; repeatCount=
7 ;body =// a // b
true ; } packet roots { string f32a ,} root packet crc{@rightPad
    ( '0' ) zchar[
42 ] zchar	@calculatedFrom(""abc"" )
    `// not a comment`,f32 x_y_z
,
repeat  packetx
    `u8 x,` //x
, @lengthOf(
tag
    ) f64	u8x `` , char[] options1//	t
, @lengthOf( matchKey	)
Logon @calculatedFrom(""{,}"" )
    `" ++ [28040; 24687; 31867; 22411]%N ++ runes_of_ascii "` , }
root packet
falsey { match // @lengthOf(
matchKey as asx{ ""\" ++ [233]%N ++ runes_of_ascii """:
i64_ [ 4294967296 , ""a\\"" ] : falsey [
3
    , 7,
    ""// no comment"" ,7 , ""CRC32"" , 0 ,
""// no comment""
    ,0 ] :
zchar
, },
}")).
Eval vm_compute in ("<<<M1101>>>" ++ check (runes_of_ascii "
packet
    a1 { uint16 MetaDataX @lengthOf( f32a )
    , @lengthOf(
leftPad)
    @tag(
    00) @tag( 0 )msg_type , match body as x_y_z
{ """"  : trueish	,["""" , // " ++ [27880; 37322]%N ++ runes_of_ascii "
00 ]
    : pack
    , //x
0
:// a // b
i8i8 /// triple
, [
1 , ""// no comment""
/// triple
// " ++ [128512]%N ++ runes_of_ascii " emoji
]// trailing space 
: chars, } ,	repeat char[
4294967296 // " ++ [27880; 37322]%N ++ runes_of_ascii "
] stringy,T @calculatedFrom( """ ++ [128512]%N ++ runes_of_ascii """
),@lengthOf( falsey //	t
) float64
    // " ++ [27880; 37322]%N ++ runes_of_ascii "
    float `a\` , char[]	calculatedFrom@calculatedFrom(	""1"" ),
// a // b
//
float64	zchar `// not a comment` , float32 Header
    `a\`, //x
zchar[ 42
    ]
As@lengthOf(
chars )
,
    }
")).
Eval vm_compute in ("<<<M533>>>" ++ check (runes_of_ascii "packet asx {@calculatedFrom( ""`tick`""	)match crc as x {
    3:x_y_z ,	""it's""
    // trailing space 
    : msg_type , [ 1 , /// triple
10 , // " ++ [128512]%N ++ runes_of_ascii " emoji
""abc""
,
0// a // b
] :
u } , @tag(65535	)
packetx `two words`, }root packet rootA{chars @lengthOf(leftPad// " ++ [27880; 37322]%N ++ runes_of_ascii "
)
    /// triple
    , @calculatedFrom(""a\\"") match crc as leftPad// `tick` ""quote"" 'q'
{
    [
255
,""a	b""
]	:falsey,
    00 : a1	,
7
/// triple
/// triple
: Z9_ , 00 : a1
, } , match packetx as Pad	{	[
""// no comment""]:
len,
} ,
    }packet zchar { @calculatedFrom(""\n""
)string Logon,
}")).
Eval vm_compute in ("<<<M3654>>>" ++ check (runes_of_ascii "  packet

    // " ++ [128512]%N ++ runes_of_ascii " emoji
  Header 
{	@calculatedFrom(	"""" )@calculatedFrom( 
""" ++ [128512]%N ++ runes_of_ascii """
)
	@calculatedFrom(
	""it's""

)
    tag 
	    // trailing space 

	//
    { 
int32 repeatCount  ,
    f32a //
  @lengthOf(

    BodyLength) 
,	calculatedFrom
	{
	i64_
len	, trueish 
@lengthOf(body
    )

    `
` , i64
f32a
`u8 x,`
, //x
match

    Foo
as
A

    { 
007
:
	options1 
//x
/// triple
  ,255:
charz ,
""" ++ [233]%N ++ runes_of_ascii "t" ++ [233]%N ++ runes_of_ascii """:zchar, ""`tick`""  :u8x , 
1:len }, 
} , } ,repeat leftPad
{ uint32
	packetx
``

,

    } 	 // c
		,

    } ")).
Eval vm_compute in ("<<<M3284>>>" ++ check (runes_of_ascii "// top
packet
    // c0
trueish
    // c1
{
    // c2
repeat
    // c3
u32
    // c4
MetaDataX
    // c5
`doc`
    // c6
,
    // c7
Header
    // c8
{
    // c9
packetx
    // c10
o
    // c11
`u8 x,`
    // c12
,
    // c13
}
    // c14
,
    // c15
@leftPad
    // c16
(
    // c17
'\x00'
    // c18
)
    // c19
repeat
    // c20
char[
    // c21
0123456789
    // c22
]
    // c23
repeatCount
    // c24
,
    // c25
}
    // c26
packet
    // c27
Packet
    // c28
{
    // c29
}
    // c30
")).
Eval vm_compute in ("<<<M1291>>>" ++ check (runes_of_ascii "/// triple
root packet x{
@rightPad () // trailing space 
string f32a `two words` ,  match MetaDataX as packetx { ""CRC32""
: metadata, ""\" ++ [233]%N ++ runes_of_ascii """
    // @lengthOf(
    :
leftPad ,
// packet A { u8 x, }
// trailing space 
[ ""// no comment"" , 00
    , 4294967296  ,  10	,65535
    , ""`tick`"", ""a\""b"" ] : chars , """ ++ [28040; 24687]%N ++ runes_of_ascii """:Foo , ""a\\"" :
    calculatedFrom , }
,@calculatedFrom( ""a\\""
) @lengthOf(A
) @calculatedFrom( """ ++ [128512]%N ++ runes_of_ascii """) x_y_z ,
repeat crc {
    string repeatCount , } , } options {
}
")).
Eval vm_compute in ("<<<M486>>>" ++ check (runes_of_ascii "packet Pad
{@lengthOf( len	)	zchar[10 ] int  `a\` , @tag( 007 )
string leftPad@lengthOf(	string_ )
, char[ 0123456789 ] len ,u32
    crc
`two words` ,
} root
packet u128 {zchar[ 00
    ]
A @calculatedFrom( ""\" ++ [233]%N ++ runes_of_ascii """
    )
    `line1
line2`
    , @tag(
10 )
char[] len	`" ++ [28040; 24687; 31867; 22411]%N ++ runes_of_ascii "`
,	@leftPad
    (
) @lengthOf(  A
) match crc as msg_type { 7 :
trueish }
    , @leftPad
    (
'0'
)
    f32a @calculatedFrom( ""// no comment"")// @lengthOf(
`crlf
line`
    ,  }
")).
Eval vm_compute in ("<<<M3546>>>" ++ check (runes_of_ascii "options	{  LittleEndian
    =  false
    ; 
StringPrefixLenType

= u8	;ArrayPrefixLenType
    =
u16 ; 
FixedStringPadFromLeft = false
    ;

}  packet Heartbeat
    {
    u8	seqNo, @rightPad ('\x00'
) char[8
    ]
	x,

    }root
packet Trade{repeat
Heartbeat,
float32	OrderId
	,	i64
	Acct	, u16 
Qty ,

    u16
clOrdID
    ,  match  clOrdID

as
	Body
{	131
    :

    Heartbeat,
	}, 
u16
sym
@calculatedFrom(

""CRC32""
    )  , }")).
Eval vm_compute in ("<<<M3635>>>" ++ check (runes_of_ascii "// top
packet P1 {
    // c2
    u8 a,// c5
}

// c6
packet P2 {
    // c9
    P1,// c11
}

packet P3 {
    P2,
    P1,
}

// c20
packet P4 {
    repeat P3,
    // c26
    P2,// c28
}

// c29
root packet P5 {
    // c33
    P4,// c35a
    // c35b
    P3,// c37
    P1,
    u8 K,// c42
    match K as Body {
        // c47
        4 : P4,
        3 : P3,
        2 : P2,
        // c59
        1 : P1,
    },// c65
}
// c66")).
Eval vm_compute in ("<<<M220>>>" ++ check (runes_of_ascii "
packet	float // a // b
{ // c
}
packet u128 { @calculatedFrom(	""1"") asx x_y_z `" ++ [28040; 24687; 31867; 22411]%N ++ runes_of_ascii "` ,}
    root packet
    u8x { repeat uint8x	T
, }
packet leftPad
    {
i64_,@leftPad ( '0' )
repeat	tag
,repeat  uint8x  {	matchKey @calculatedFrom( ""abc""
    ) , string charz ,
    }// trailing space 
,@rightPad
( )zchar[ 10] charz
    @calculatedFrom( """ ++ [128512]%N ++ runes_of_ascii """ )	`// not a comment` , // trailing space 
}
// @lengthOf(
")).
Eval vm_compute in ("<<<M3726>>>" ++ check (runes_of_ascii "// top
MetaData x_y_z {
    // c2
    char body,// c5a
    // c5b
    f64 i8i8 `two words`,// c9a
    // c9b
    body body `" ++ [28040; 24687; 31867; 22411]%N ++ runes_of_ascii "`,
}// c14a

// c14b
root packet chars {
    // c18
    @lengthOf(i64_)
    chars,// c23a
    // c23b
    i8i8 {
        // c25a
        // c25b
        falsey @lengthOf(stringy) `doc`,
        // c31
    },
    x @lengthOf(A) `crlf
    line`,
}// c40a
// c40b")).
Eval vm_compute in ("<<<M892>>>" ++ check (runes_of_ascii "// c
packet	uint8x
{ @calculatedFrom(
    ""CRC32"" )  repeat BodyLength,// " ++ [128512]%N ++ runes_of_ascii " emoji
f32a
    ,
}
// @lengthOf(
//x
root packet rootA
    { @lengthOf( BodyLength )
@lengthOf(
roots )	repeat int // " ++ [27880; 37322]%N ++ runes_of_ascii "
roots
,
    @tag(
    007)repeat
float64 o	, @calculatedFrom( """" )
char[ 255	] repeatCount ,
    // " ++ [128512]%N ++ runes_of_ascii " emoji
    int {repeat roots roots , u32 tag  `crlf
line` ,}
    ,	}")).
Eval vm_compute in ("<<<M343>>>" ++ check (runes_of_ascii "
root packet Packet { @calculatedFrom(""packet""
)
    char[]  Packet
, match	crc
as T {255 :A ,
} ,
/// triple
// `tick` ""quote"" 'q'
repeat x_y_z , x_y_z@calculatedFrom( ""`tick`"" )`a\` ,
// c
//x
@calculatedFrom( // a // b
""" ++ [28040; 24687]%N ++ runes_of_ascii """ ) @lengthOf(Foo
    )match MetaDataX as T
    { 0 : repeatCount , } , } MetaData string_
{ u64 x_y_z,	}packet u // " ++ [27880; 37322]%N ++ runes_of_ascii "
{
    }
")).
Eval vm_compute in ("<<<M3768>>>" ++ check (runes_of_ascii "options {
    x_y_z = ""x y"";
}

// " ++ [27880; 37322]%N ++ runes_of_ascii "
packet int {
    @calculatedFrom(""\" ++ [233]%N ++ runes_of_ascii """)
    match MetaDataX as o {
        // c
        4294967296 : o,
    },
}

// packet A { u8 x, }
MetaData asx {
    As u8x `// not a comment`,
    char[] string_ `doc`,
    i64_ Z9_,
    i16 leftPad `it's`,
    u16 BodyLength `// not a comment`,
    lengthOf len,
}")).
Eval vm_compute in ("<<<M435>>>" ++ check (runes_of_ascii "// trailing space 
packet i64_ {uint8	body , @calculatedFrom(
""\n"" ) repeat BodyLength {repeat
// trailing space 
// packet A { u8 x, }
crc	len
`" ++ [233]%N ++ runes_of_ascii "`
, As , repeat char[] Header
,
}, match T as T { 3 : repeatCount ,}  , match tag
    as pack {	""a	b""://
string_  , } ,
    zchar[10  ] a1 ``
    ,
@tag( 3//	t
) string int ,
}
")).
Eval vm_compute in ("<<<M96>>>" ++ check (runes_of_ascii "options{
} packet /// triple
chars {
int64 i8i8
    /// triple
    @calculatedFrom( ""// no comment"" ) `line1
line2` ,
@calculatedFrom(
""`tick`"" )
    _x
    `" ++ [28040; 24687; 31867; 22411]%N ++ runes_of_ascii "` , match
float /// triple
as BodyLength  {//
""" ++ [28040; 24687]%N ++ runes_of_ascii """:
    x_y_z [ 7 , 10
    , """ ++ [233]%N ++ runes_of_ascii "t" ++ [233]%N ++ runes_of_ascii """	, 1 ,""x y"" , 3 ] :	i64_	,
} , // a // b
} packet
uint8x { } // " ++ [27880; 37322]%N)).
Eval vm_compute in ("<<<M1560>>>" ++ check (runes_of_ascii "root packet Foo // " ++ [128512]%N ++ runes_of_ascii " emoji
{ } options {
    // a // b
    tag // `tick` ""quote"" 'q'
= //	t
""""
    ; u8x = zchar[0  ] }
MetaData
    int {zchar[ 10]
lengthOf	`` , i64 u8x`// not a comment` ,MetaDataX MetaDataX pack// `tick` ""quote"" 'q'
`crlf
line`
, Logon charz `crlf
line`
    ,
    // a // b
    }
")).
Eval vm_compute in ("<<<M1577>>>" ++ check (runes_of_ascii "root packet Foo // " ++ [128512]%N ++ runes_of_ascii " emoji
{ } options {
    // a // b
    tag // `tick` ""quote"" 'q'
= //	t
""""
    ; u8x = zchar[0  ] }
MetaData
    int {zchar[ 10]
lengthOf	`` , i64 u8x`// not a comment` ,MetaDataX pack// `tick` ""quote"" 'q'
`crlf
line`
match Logon charz `crlf
line`
    ,
    // a // b
    }
")).
Eval vm_compute in ("<<<M1535>>>" ++ check (runes_of_ascii "root packet Foo // " ++ [128512]%N ++ runes_of_ascii " emoji
{ } options {
    // a // b
    tag // `tick` ""quote"" 'q'
= //	t
""""
    ; u8x = zchar[0  ] }
MetaData
    int {zchar[ 10]
lengthOf	`` , , i64 u8x`// not a comment` ,MetaDataX pack// `tick` ""quote"" 'q'
`crlf
line`
, Logon charz `crlf
line`
    ,
    // a // b
    }
")).
Eval vm_compute in ("<<<M1426>>>" ++ check (runes_of_ascii "root packet Foo // " ++ [128512]%N ++ runes_of_ascii " emoji
} { options {
    // a // b
    tag // `tick` ""quote"" 'q'
= //	t
""""
    ; u8x = zchar[0  ] }
MetaData
    int {zchar[ 10]
lengthOf	`` , i64 u8x`// not a comment` ,MetaDataX pack// `tick` ""quote"" 'q'
`crlf
line`
, Logon charz `crlf
line`
    ,
    // a // b
    }
")).
Eval vm_compute in ("<<<M1587>>>" ++ check (runes_of_ascii "root packet Foo // " ++ [128512]%N ++ runes_of_ascii " emoji
{ } options {
    // a // b
    tag // `tick` ""quote"" 'q'
= //	t
""""
    ; u8x = zchar[0  ] }
MetaData
    int {zchar[ 10]
lengthOf	`` , i64 u8x`// not a comment` ,MetaDataX pack// `tick` ""quote"" 'q'
`crlf
line`
, Logon uint8 `crlf
line`
    ,
    // a // b
    }
")).
Eval vm_compute in ("<<<M1454>>>" ++ check (runes_of_ascii "root packet Foo // " ++ [128512]%N ++ runes_of_ascii " emoji
{ } options {
    // a // b
    tag // `tick` ""quote"" 'q'
= //	t

    ; u8x = zchar[0  ] }
MetaData
    int {zchar[ 10]
lengthOf	`` , i64 u8x`// not a comment` ,MetaDataX pack// `tick` ""quote"" 'q'
`crlf
line`
, Logon charz `crlf
line`
    ,
    // a // b
    }
")).
Eval vm_compute in ("<<<M1592>>>" ++ check (runes_of_ascii "root packet Foo // " ++ [128512]%N ++ runes_of_ascii " emoji
{ } options {
    // a // b
    tag // `tick` ""quote"" 'q'
= //	t
""""
    ; u8x = zchar[0  ] }
MetaData
    int {zchar[ 10]
lengthOf	`` , i64 u8x`// not a comment` ,MetaDataX pack// `tick` ""quote"" 'q'
`crlf
line`
, Logon charz zchar[
    ,
    // a // b
    }
")).
Eval vm_compute in ("<<<M236>>>" ++ check (runes_of_ascii "root packet
    x_y_z{ match lengthOf
as // `tick` ""quote"" 'q'
rootA { 42 :
    asx } ,	@rightPad(
' ' ) repeat u16 int`// not a comment`, @tag(42	)rootA string_, int32 lengthOf // trailing space 
,match
    As as falsey { [ ""// no comment"" ] :
    calculatedFrom,
    } , }
")).
Eval vm_compute in ("<<<M3497>>>" ++ check (runes_of_ascii "  packet 
P1{

    u8

a 
,}	packet
P2 {
    P1	,} packet
P3 {
P2
,
P1	,}  packet
    P4

    {
repeat P3
,	P2 ,}
root	packet P5

{ 
P4,

    P3

,P1 ,	u8  K

    ,
    match  K	as  Body	{

4 :	P4

,	3
:P3

    , 
2 : P2

,
    1
:

P1 ,

    } ,} ")).
Eval vm_compute in ("<<<M1295>>>" ++ check (runes_of_ascii "packet
    len {
@calculatedFrom( ""1""	) zchar[ 0 ] tag`u8 x,`
    , @tag( 7 )repeat uint64 stringy `// not a comment` , @calculatedFrom( ""\n""
)
    @lengthOf(
    trueish ) repeat _x zchar , @lengthOf( crc ) zchar[
255  ]
Foo`" ++ [233]%N ++ runes_of_ascii "`
,} // trailing space ")).
Eval vm_compute in ("<<<M3846>>>" ++ check (runes_of_ascii "root packet Logon {
    @tag(0123456789)
    @leftPad(' ')
    Packet {
        o @calculatedFrom(""a	b"") `tab	here`,
    },
    repeat leftPad i8i8 `line1
        line2`,
    i64 calculatedFrom,
    float32 stringy @calculatedFrom(""`tick`""),
}")).
Eval vm_compute in ("<<<M1293>>>" ++ check (runes_of_ascii "root packet
    charz {roots falsey	, @lengthOf(
    // packet A { u8 x, }
    u8x )T @lengthOf( x) `line1
line2` /// triple
,	x
@calculatedFrom(
    // a // b
    ""// no comment"" ),  @leftPad
    (
' ' )	zchar[ 0123456789	] string_, }")).
Eval vm_compute in ("<<<M4232>>>" ++ check (runes_of_ascii "options {
    len = false// " ++ [128512]%N ++ runes_of_ascii " emoji
}

options {
    leftPad = ""`tick`"";
    repeatCount = char[4294967296]
    chars = ""`tick`""
}

packet trueish {
    u16 crc,
    @tag(0123456789)
    string trueish `crlf
        line`,
}")).
Eval vm_compute in ("<<<M2331>>>" ++ check (runes_of_ascii "MetaData Packet { }packet	asx  { @lengthOf( asx) falsey`crlf
line`
,
    }
    packet x	{uint32// @lengthOf(
rootA	,u32 options1 `say ""hi""` , @tag( @tag( 7
    )// packet A { u8 x, }
msg_type @lengthOf(
stringy	)	, }

")).
Eval vm_compute in ("<<<M2306>>>" ++ check (runes_of_ascii "MetaData Packet { }packet	asx  { @lengthOf( asx) falsey`crlf
line`
,
    }
    packet x	{uint32// @lengthOf(
rootA	, ,u32 options1 `say ""hi""` , @tag( 7
    )// packet A { u8 x, }
msg_type @lengthOf(
stringy	)	, }

")).
Eval vm_compute in ("<<<M2222>>>" ++ check (runes_of_ascii "MetaData Packet } {packet	asx  { @lengthOf( asx) falsey`crlf
line`
,
    }
    packet x	{uint32// @lengthOf(
rootA	,u32 options1 `say ""hi""` , @tag( 7
    )// packet A { u8 x, }
msg_type @lengthOf(
stringy	)	, }

")).
Eval vm_compute in ("<<<M1215>>>" ++ check (runes_of_ascii "packet lengthOf {
repeat  lengthOf {
    charz `
` , string
stringy,a1{	BodyLength , }
, }
    , pack Logon,	@rightPad (  ) zchar[007
]
x , } packet	Header  {@calculatedFrom( """ ++ [128512]%N ++ runes_of_ascii """
    ) Logon`it's` ,} options { }")).
Eval vm_compute in ("<<<M1002>>>" ++ check (runes_of_ascii "options
    {roots =
    uint8 ;
    asx= ' '
    // a // b
    ; }
options
    // a // b
    { }root packet  Packet { @lengthOf(T )@calculatedFrom(""abc""  ) @calculatedFrom( ""1"" )A // c
lengthOf, }
/// triple
")).
Eval vm_compute in ("<<<M2268>>>" ++ check (runes_of_ascii "MetaData Packet { }packet	asx  { @lengthOf( asx) falsey i32
,
    }
    packet x	{uint32// @lengthOf(
rootA	,u32 options1 `say ""hi""` , @tag( 7
    )// packet A { u8 x, }
msg_type @lengthOf(
stringy	)	, }

")).
Eval vm_compute in ("<<<M3481>>>" ++ check (runes_of_ascii "packet orderItem
    // c1
{ // c2
u8 // c3a
  // c3b
a
    // c4
,
    // c5
} root packet // c8
newOrder // c9a
  // c9b
{
    // c10
orderItem // c11a
  // c11b
, // c12
u8
    // c13
x // c14
, } ")).
Eval vm_compute in ("<<<M3664>>>" ++ check (runes_of_ascii "// " ++ [128512]%N ++ runes_of_ascii " emoji
MetaData Foo {
}

MetaData x {
}

MetaData zchar {
    options1 f32a,
    int32 stringy,
    string msg_type `
        `,
    string T,
    a1 trueish `{ , }`,
    f32 BodyLength,
}")).
Eval vm_compute in ("<<<M4027>>>" ++ check (runes_of_ascii "root packet Frame {
    u8 K,
    Logon first,
    match K as Body {
        1 : Logon,
        2 : Logout,
    },
}

packet Logon {
    string user,
}

packet Logout {
    u16 reason,
}")).
Eval vm_compute in ("<<<M1098>>>" ++ check (runes_of_ascii "packet falsey {
    @leftPad () // packet A { u8 x, }
zchar[ 007
    ] i8i8 @calculatedFrom( """ ++ [28040; 24687]%N ++ runes_of_ascii """),a1 {float32
Foo @lengthOf( u8x
) ,
},chars , repeat char[] roots `" ++ [28040; 24687; 31867; 22411]%N ++ runes_of_ascii "` ,}
")).
Eval vm_compute in ("<<<M804>>>" ++ check (runes_of_ascii "options
{ calculatedFrom=
    // packet A { u8 x, }
    """ ++ [28040; 24687]%N ++ runes_of_ascii """ ;
    u = false BodyLength=
    // `tick` ""quote"" 'q'
    65535
; msg_type  = 0
    lengthOf= true
    ;}
")).
Eval vm_compute in ("<<<M1357>>>" ++ check (runes_of_ascii "root packet  len{
@rightPad (
'0' )
T {
/// triple
// c
match charz
as crc
{ 3  :// a // b
BodyLength 42 : stringy ""a\\"" :options1 // c
}
    , } ,
} // a // b")).
Eval vm_compute in ("<<<M1361>>>" ++ check (runes_of_ascii "options { T
= u64 // trailing space 
uint8x = """ ++ [128512]%N ++ runes_of_ascii """ ; chars
    = char[	0123456789 ]	;Z9_//	t
= ""// no comment""} MetaData
    x_y_z {
} // `tick` ""quote"" 'q'")).
Eval vm_compute in ("<<<M353>>>" ++ check (runes_of_ascii "packet x  {match u128
as stringy// " ++ [128512]%N ++ runes_of_ascii " emoji
{ // a // b
[ """ ++ [28040; 24687]%N ++ runes_of_ascii """
    //	t
    ,	42 , ""// no comment"" // a // b
,""1""] :MetaDataX
, ""it's"" :o	,} ,
    }
")).
Eval vm_compute in ("<<<M3392>>>" ++ check (runes_of_ascii "MetaData _x
    // c1
{
    // c2
zchar[ 4294967296 // c4a
  // c4b
] lengthOf // c6
`// not a comment` // c7a
  // c7b
,
    // c8
}
    // c9
")).
Eval vm_compute in ("<<<M3782>>>" ++ check (runes_of_ascii "packet crc {
    @lengthOf(calculatedFrom)
    i64_ {
        uint64 _x,
    },
    @rightPad('0')
    uint8x,
    // packet A { u8 x, }
}")).
Eval vm_compute in ("<<<M4405>>>" ++ check (runes_of_ascii "root packet Packet {
    leftPad As,
    char[] string_,
}

MetaData x {
    a1 u128 `u8 x,`,
    // a // b
    // packet A { u8 x, }
}")).
Eval vm_compute in ("<<<M1734>>>" ++ check (runes_of_ascii "root packet /// triple
rootA {	i32
MetaDataX@calculatedFrom( ""CRC32"" ) `line1
line2` , } MetaData BodyLength {
u8
roo'1'tA, } // c")).
Eval vm_compute in ("<<<M4228>>>" ++ check (runes_of_ascii "packet A {
    match k as n {
        [
            1, 22, ""c c"", 4, 5,
            ""f"", 7
        ] : B,
        2 : C,
    },
}")).
Eval vm_compute in ("<<<M1712>>>" ++ check (runes_of_ascii "root packet /// triple
rootA {	i32
MetaDataX@calculatedFrom( ""CRC32"" ) `line1
line2` , } MetaData BodyLength {
u8
rootA,  // c")).
Eval vm_compute in ("<<<M4433>>>" ++ check (runes_of_ascii "
packet

calculatedFrom {  @tag(

4294967296 
)  u 
msg_type// c
  ,

char[  3
	]crc
    @lengthOf( len )`u8 x,` ,

    } ")).
Eval vm_compute in ("<<<M4369>>>" ++ check (runes_of_ascii "packet A {
    match k as n {
        [
            1, 22, 007, 4, 5,
            66
        ] : B,
        2 : C,
    },
}")).
Eval vm_compute in ("<<<M1195>>>" ++ check (runes_of_ascii "options /// triple
{ tag =char[ 00 ]
; } root
    packet
    // @lengthOf(
    Header { /// triple
repeat  packetx , }
")).
Eval vm_compute in ("<<<M4044>>>" ++ check (runes_of_ascii "
packet  
  // c
calculatedFrom 
{

@tag(4294967296  )	u
msg_type,
char[3
    ]

crc @lengthOf( len ) `u8 x,`
	, }

")).
Eval vm_compute in ("<<<M1787>>>" ++ check (runes_of_ascii "packet
    { // a // b
Pad i8i8 @calculatedFrom( ""a	b"") `u8 x,` ,
} options{ float// " ++ [128512]%N ++ runes_of_ascii " emoji
= f64 i64_
=//	t
00 }
")).
Eval vm_compute in ("<<<M1835>>>" ++ check (runes_of_ascii "packet
    Pad // a // b
{ i8i8 @calculatedFrom( ""a	b"") `u8 x,` ,
} options float// " ++ [128512]%N ++ runes_of_ascii " emoji
= f64 i64_
=//	t
00 }
")).
Eval vm_compute in ("<<<M1785>>>" ++ check (runes_of_ascii "packet
     // a // b
{ i8i8 @calculatedFrom( ""a	b"") `u8 x,` ,
} options{ float// " ++ [128512]%N ++ runes_of_ascii " emoji
= f64 i64_
=//	t
00 }
")).
Eval vm_compute in ("<<<M1701>>>" ++ check (runes_of_ascii "root packet /// triple
rootA {	i32
MetaDataX@calculatedFrom( ""CRC32"" ) `line1
line2` , } MetaData BodyLength {")).
Eval vm_compute in ("<<<M222>>>" ++ check (runes_of_ascii "MetaData float { }  options {
msg_type=""a	b""
    i8i8	= true stringy = ""CRC32""
    } options { len
= ""\" ++ [233]%N ++ runes_of_ascii """ }")).
Eval vm_compute in ("<<<M2994>>>" ++ check (runes_of_ascii "packet A {
  match k as n {
    [1, ""bb"", 007, ""d"", 5, ""f"", 7, ""h"", 9, ""j"", 11, ""l""] : B
    2 : C
  },
}")).
Eval vm_compute in ("<<<M3342>>>" ++ check (runes_of_ascii "packet calculatedFrom
// c
{ @tag( 4294967296 ) u msg_type , char[ 3 ] crc @lengthOf( len ) `u8 x,` , }")).
Eval vm_compute in ("<<<M3374>>>" ++ check (runes_of_ascii "packet calculatedFrom { @tag( 4294967296 ) u msg_type , char[ 3 ] crc @lengthOf( len ) `u8 x,` ,
// c
}")).
Eval vm_compute in ("<<<M1859>>>" ++ check (runes_of_ascii "packet
    Pad // a // b
{ i8i8 @calculatedFrom( ""a	b"") `u8 x,` ,
} options{ float// " ++ [128512]%N ++ runes_of_ascii " emoji
= f64")).
Eval vm_compute in ("<<<M3185>>>" ++ check (runes_of_ascii "// top
MetaData // c0
zchar // c1
{ // c2
zchar[ // c3
3 // c4
] // c5
Pad // c6
, // c7
} // c8
")).
Eval vm_compute in ("<<<M3218>>>" ++ check (runes_of_ascii "packet Logon // c
{ @tag( 42 ) @rightPad ( ' ' ) @leftPad ( ) repeat trueish { string T , } , }")).
Eval vm_compute in ("<<<M3250>>>" ++ check (runes_of_ascii "packet Logon { @tag( 42 ) @rightPad ( ' ' ) @leftPad ( ) repeat trueish { string T // c
, } , }")).
Eval vm_compute in ("<<<M4136>>>" ++ check (runes_of_ascii "packet o { @tag(

42
) repeat	x
    {	char[ 0123456789
// c
    ]i64_	,
},  }
options
{ }

")).
Eval vm_compute in ("<<<M2943>>>" ++ check (runes_of_ascii "packet A {
  match k as n {
    [""a"", 22, ""c c"", 4, ""e"", 66, ""g"", 8] : B,
    2 : C
  },
}")).
Eval vm_compute in ("<<<M2942>>>" ++ check (runes_of_ascii "packet A {
  match k as n {
    [1, ""bb"", 007, ""d"", 5, ""f"", 7, ""h""] : B
    2 : C
  },
}")).
Eval vm_compute in ("<<<M4458>>>" ++ check (runes_of_ascii "

  MetaData _x // c
	{
    zchar[  4294967296  ]
lengthOf
    `// not a comment` , }
")).
Eval vm_compute in ("<<<M1993>>>" ++ check (runes_of_ascii "root
packet crc
    { f32a @calculatedFrom( """ ++ [233]%N ++ runes_of_ascii "t" ++ [233]%N ++ runes_of_ascii """ `say ""hi""`
    ), lengthOf `` ,  }")).
Eval vm_compute in ("<<<M4176>>>" ++ check (runes_of_ascii "packet A {
    B b `x
        `,
    B `x
        `,
    repeat B bs `x
        `,
}")).
Eval vm_compute in ("<<<M1965>>>" ++ check (runes_of_ascii "root
as crc
    { f32a @calculatedFrom( """ ++ [233]%N ++ runes_of_ascii "t" ++ [233]%N ++ runes_of_ascii """ )
    `say ""hi""`, lengthOf `` ,  }")).
Eval vm_compute in ("<<<M3317>>>" ++ check (runes_of_ascii "packet o { @tag( 42 ) repeat x { char[ 0123456789 ]
// c
i64_ , } , } options { }")).
Eval vm_compute in ("<<<M3467>>>" ++ check (runes_of_ascii "

  root 
packet
    P	{ u8 s_u8

, 
repeat

    u8 r_u8 ,	u16 b_len
    ,  } ")).
Eval vm_compute in ("<<<M3632>>>" ++ check (runes_of_ascii "  packet A { match
k

    as

n{	[1  ,	22, 007
,

4
    ]
: B 2	: 
C
}
, }")).
Eval vm_compute in ("<<<M3881>>>" ++ check (runes_of_ascii "packet A {
    match k as n {
        [""a"", 22] : B,
        2 : C,
    },
}")).
Eval vm_compute in ("<<<M947>>>" ++ check (runes_of_ascii "
packet Packet
    // c
    { repeat Pad
    leftPad
,
    //	t
    } 	 ")).
Eval vm_compute in ("<<<M3414>>>" ++ check (runes_of_ascii "MetaData _x { zchar[ 4294967296 ] lengthOf `// not a comment` , }
// c
")).
Eval vm_compute in ("<<<M3409>>>" ++ check (runes_of_ascii "MetaData _x { zchar[ 4294967296 ] lengthOf `// not a comment` // c
, }")).
Eval vm_compute in ("<<<M2182>>>" ++ check (runes_of_ascii "root
    // `tick` ""quote"" 'q'
    packet As { trueish Packet , , }
")).
Eval vm_compute in ("<<<M3378>>>" ++ check (runes_of_ascii "// top
packet
    // c0
lengthOf
    // c1
{
    // c2
}
    // c3
")).
Eval vm_compute in ("<<<M919>>>" ++ check (runes_of_ascii "MetaData matchKey{} MetaData
    rootA{//	t
falsey stringy
,
}
")).
Eval vm_compute in ("<<<M2867>>>" ++ check (runes_of_ascii "packet A {
  match k as n {
    [1, ""bb""] : B,
    2 : C
  },
}")).
Eval vm_compute in ("<<<M3024>>>" ++ check (runes_of_ascii "MetaData M {
    u8 x `a
    b
  c`,
    T t `a
    b
  c`,
}")).
Eval vm_compute in ("<<<M3767>>>" ++ check (runes_of_ascii "packet msg_type {
    char[00] x_y_z @lengthOf(msg_type),
}")).
Eval vm_compute in ("<<<M2858>>>" ++ check (runes_of_ascii "packet A {
  match k as n {
    [1] : B,
    2 : C
  },
}")).
Eval vm_compute in ("<<<M1899>>>" ++ check (runes_of_ascii "
'\x00'	As { @calculatedFrom(//x
""{,}""	)lengthOf , } 	 ")).
Eval vm_compute in ("<<<M3178>>>" ++ check (runes_of_ascii "packet A { repeat // a
 B // b
 b // c
 `d` // e
 , }")).
Eval vm_compute in ("<<<M1995>>>" ++ check (runes_of_ascii "root
packet crc
    { f32a @calculatedFrom( """ ++ [233]%N ++ runes_of_ascii "t" ++ [233]%N ++ runes_of_ascii """")).
Eval vm_compute in ("<<<M3625>>>" ++ check (runes_of_ascii "options {
    float = ' ';
    _x = 4294967296;
}")).
Eval vm_compute in ("<<<M1771>>>" ++ check (runes_of_ascii "options " ++ [65279]%N ++ runes_of_ascii " { }options {  } // `tick` ""quote"" 'q'")).
Eval vm_compute in ("<<<M1780>>>" ++ check (runes_of_ascii "opt\ions { }options {  } // `tick` ""quote"" 'q'")).
Eval vm_compute in ("<<<M1742>>>" ++ check (runes_of_ascii "options  }options {  } // `tick` ""quote"" 'q'")).
Eval vm_compute in ("<<<M3180>>>" ++ check (runes_of_ascii "packet A { char[ // a
 3 // b
 ] // c
 x, }")).
Eval vm_compute in ("<<<M2848>>>" ++ check (runes_of_ascii "char[] : root uint64 packet i64 float32 3")).
Eval vm_compute in ("<<<M2758>>>" ++ check (runes_of_ascii "int32 char[] i32 = float32 float32 char[")).
Eval vm_compute in ("<<<M2137>>>" ++ check (runes_of_ascii "MetaData x
#{// " ++ [128512]%N ++ runes_of_ascii " emoji
i16 stringy , }")).
Eval vm_compute in ("<<<M2652>>>" ++ check (runes_of_ascii "MetaData M { match k as n { 1 : B }, }")).
Eval vm_compute in ("<<<M2818>>>" ++ check ([65533; 65533; 28; 65533]%N ++ runes_of_ascii "9i%" ++ [65533]%N ++ runes_of_ascii "V" ++ [65533]%N ++ runes_of_ascii "Q" ++ [65533; 65533; 65533]%N ++ runes_of_ascii "[" ++ [65533; 65533; 65533]%N ++ runes_of_ascii "Z" ++ [65533; 65533; 65533]%N ++ runes_of_ascii ">F" ++ [65533]%N ++ runes_of_ascii "|" ++ [65533; 65533; 65533; 65533; 65533]%N ++ runes_of_ascii "f" ++ [9700; 4; 65533; 65533; 65533]%N)).
Eval vm_compute in ("<<<M2749>>>" ++ check (runes_of_ascii "uint16 """ ++ [128512]%N ++ runes_of_ascii """ uint16 float32 true root")).
Eval vm_compute in ("<<<M2690>>>" ++ check (runes_of_ascii "[ : : @lengthOf( root true as 255")).
Eval vm_compute in ("<<<M1646>>>" ++ check (runes_of_ascii "root packet /// triple
rootA {")).
Eval vm_compute in ("<<<M3078>>>" ++ check (runes_of_ascii "packet A {
 u8 x `d" ++ [133]%N ++ runes_of_ascii "`, // c" ++ [133]%N ++ runes_of_ascii "
}")).
Eval vm_compute in ("<<<M3656>>>" ++ check (runes_of_ascii "MetaData a1 {
    // a // b
}")).
Eval vm_compute in ("<<<M1799>>>" ++ check (runes_of_ascii "packet
    Pad // a // b
{")).
Eval vm_compute in ("<<<M2090>>>" ++ check (runes_of_ascii "MetaData A { u64 pack, }# ")).
Eval vm_compute in ("<<<M2595>>>" ++ check (runes_of_ascii "packet A { B { u8 x, }, }")).
Eval vm_compute in ("<<<M2594>>>" ++ check (runes_of_ascii "packet A { B { u8 x, } }")).
Eval vm_compute in ("<<<M2071>>>" ++ check (runes_of_ascii "MetaData A { u64 pack }")).
Eval vm_compute in ("<<<M2079>>>" ++ check (runes_of_ascii "MetaData A { u64 pack,")).
Eval vm_compute in ("<<<M3711>>>" ++ check (runes_of_ascii "  packet stringy
{ }
")).
Eval vm_compute in ("<<<M2537>>>" ++ check (runes_of_ascii ": , ; = ( ) [ ] { }")).
Eval vm_compute in ("<<<M997>>>" ++ check (runes_of_ascii "options {a1	=1 ;}
")).
Eval vm_compute in ("<<<M3106>>>" ++ check (runes_of_ascii "packet A {
}
// c" ++ [8239]%N)).
Eval vm_compute in ("<<<M2682>>>" ++ check (runes_of_ascii "// only a comment")).
Eval vm_compute in ("<<<M2638>>>" ++ check (runes_of_ascii "root options { }")).
Eval vm_compute in ("<<<M2567>>>" ++ check (runes_of_ascii "packet A { x }")).
Eval vm_compute in ("<<<M4038>>>" ++ check (runes_of_ascii "packet o {
}")).
Eval vm_compute in ("<<<M2478>>>" ++ check (runes_of_ascii "@rightPad")).
Eval vm_compute in ("<<<M2709>>>" ++ check (runes_of_ascii ") char[")).
Eval vm_compute in ("<<<M2428>>>" ++ check (runes_of_ascii "chars")).
Eval vm_compute in ("<<<M3105>>>" ++ check (runes_of_ascii "// c" ++ [8239]%N)).
Eval vm_compute in ("<<<M2543>>>" ++ check (runes_of_ascii "a
b")).
Eval vm_compute in ("<<<M2548>>>" ++ check (runes_of_ascii "a" ++ [160]%N ++ runes_of_ascii "b")).
Eval vm_compute in ("<<<M18>>>" ++ check (runes_of_ascii "
")).
