From FP Require Import Lexer Parser ShowPT Digest Formatter.
From Coq Require Import String List NArith.
Import ListNotations.
Open Scope string_scope.
Set Printing Width 100000000.
Set Printing Depth 100000000.
Definition show_fres (r : fres) : string :=
  match r with
  | FOk s => "OK:" ++ sh_escaped s ""
  | FErr s => "ERR:" ++ sh_escaped s ""
  | FPanic p => "PANIC:" ++ p
  end.
Definition check (rs : list rune) : string := digest (show_fres (format_res rs)).
Definition full (rs : list rune) : string := show_fres (format_res rs).
Eval vm_compute in ("<<<M3580>>>" ++ check (runes_of_ascii "options {
    LittleEndian = true;
    ArrayPrefixLenType = u8;
    FixedStringPadChar = '0';
    JavaPackage = ""com.example.msg"";
    GoPackage = ""msg"";
    GoModule = ""example.com/msg"";
}
MetaData Meta {
    u32 SeqNum `sequence number`,
    char[8] Symbol `symbol`,
    zchar[5] ZSym `z symbol`,
    string Note,
    Symbol AltSymbol `alias of symbol`,
    f64 Price,
}
packet Inner {
    u8 a,
    i16 b,
    string c,
}
packet Inner2 {
    u8 a2,
    char[3] c2,
}
packet Logon {
    u8 x,
    string user,
    repeat u16 codes,
}
packet Logout {
    u16 reason,
}
packet Empty {
}
root packet Msg {
    u8 su8,
    uint8 luint8,
    u16 su16,
    uint16 luint16,
    u32 su32,
    uint32 luint32,
    u64 su64,
    uint64 luint64,
    i8 si8,
    int8 lint8,
    i16 si16,
    int16 lint16,
    i32 si32,
    int32 lint32,
    i64 si64,
    int64 lint64,
    f32 sf32,
    float32 lfloat32,
    f64 sf64,
    float64 lfloat64,
    char[6] fsplain,
    @leftPad('0') char[4] fs0,
    @rightPad('0') char[5] fs1,
    @leftPad(' ') char[6] fs2,
    @rightPad(' ') char[7] fs3,
    @leftPad('\x00') char[8] fs4,
    @rightPad('\x00') char[9] fs5,
    @leftPad() char[10] fs6,
    @rightPad() char[11] fs7,
    zchar[7] fz,
    @leftPad('0') zchar[3] fzl0,
    string s1 `doc`,
    char[] s2,
    Inner,
    Sub {
        u8 q,
        string w,
        Deep {
            u16 z,
            repeat i32 zs,
        },
    },
    repeat u8 ru8,
    repeat u16 ru16,
    repeat u32 ru32,
    repeat u64 ru64,
    repeat i8 ri8,
    repeat i16 ri16,
    repeat i32 ri32,
    repeat i64 ri64,
    repeat f32 rf32,
    repeat f64 rf64,
    repeat string rstr,
    repeat char[] rstr2,
    repeat char[3] rfs,
    repeat zchar[3] rfz,
    repeat Inner2,
    repeat Grp {
        u8 k,
        char[2] v,
    },
    SeqNum,
    SeqNum seq2,
    repeat SeqNum seqs,
    Symbol,
    AltSymbol alt,
    ZSym,
    Note,
    repeat Symbol syms,
    Price px,
    u16 MsgType,
    u32 BodyLen @lengthOf(Body),
    match MsgType as Body {
        1 : Logon,
        [2, 3] : Logout,
        7 : Logon,
        9 : Empty,
    },
    u32 Checksum @calculatedFrom(""CRC32""),
}
")).
Eval vm_compute in ("<<<M1321>>>" ++ check (runes_of_ascii "packet repeatCount {
    char[ 65535 ] Pad `" ++ [233]%N ++ runes_of_ascii "` , @calculatedFrom( ""CRC32"" )@calculatedFrom( // `tick` ""quote"" 'q'
""" ++ [28040; 24687]%N ++ runes_of_ascii """ //	t
) @calculatedFrom( ""{,}"" ) repeat  leftPad A //x
,
@leftPad ( '\x00')
    u128
@lengthOf(  Packet
    )
    `two words` , float32
len
,zchar[ 007 ]// packet A { u8 x, }
pack@calculatedFrom(""\n"" ) ,
    @tag(
/// triple
// " ++ [128512]%N ++ runes_of_ascii " emoji
3 )
    // trailing space 
    @tag( 0123456789 // " ++ [128512]%N ++ runes_of_ascii " emoji
)
    match leftPad as MetaDataX { 1
// " ++ [128512]%N ++ runes_of_ascii " emoji
// packet A { u8 x, }
:
    Z9_
} ,
float
    `a\`// " ++ [128512]%N ++ runes_of_ascii " emoji
, } options {
tag =""CRC32"" ; float
= false x_y_z
    // " ++ [27880; 37322]%N ++ runes_of_ascii "
    = ""packet"" ; }packet
    //
    pack {
@tag( 00)
T { zchar[/// triple
65535 ]
    // `tick` ""quote"" 'q'
    tag @calculatedFrom(""abc""
    ) `{ , }`	,
    char[] Z9_ @lengthOf( // c
Header
) , repeat
    options1,
    }
, char[] len
    ,@calculatedFrom( ""1"" ) repeat a1 `// not a comment`
    , @lengthOf(uint8x )string _x @lengthOf( Pad
) , u64 o // " ++ [128512]%N ++ runes_of_ascii " emoji
@lengthOf( Header )
`a\`
,
    T { string body
// 50% %s
// trailing space 
@calculatedFrom( ""a\""b"" )
`// not a comment`
,
    } , zchar[
    255
// a // b
// @lengthOf(
]string_  , roots , match
uint8x// a // b
as
pack{ """ ++ [233]%N ++ runes_of_ascii "t" ++ [233]%N ++ runes_of_ascii """ :
    Foo
,
""a\""b"" :Logon 3 :
crc
    007 :
    lengthOf ,
}// " ++ [128512]%N ++ runes_of_ascii " emoji
, @tag(0123456789 //
) match Z9_ as float { [""// no comment"" , ""// no comment"" ] :
    // `tick` ""quote"" 'q'
    int
, } ,
    } packet  _x {@leftPad(
'0' ) char[] leftPad , @tag( 10 )
repeat float64 zchar
    , char[65535 ]stringy  `crlf
line`
,
    //
    i64
repeatCount @lengthOf( int )
`it's` , i8i8
@calculatedFrom( // @lengthOf(
""1"" // " ++ [27880; 37322]%N ++ runes_of_ascii "
) `// not a comment`
    // trailing space 
    , u32	u
    // c
    ,
}")).
Eval vm_compute in ("<<<M600>>>" ++ check (runes_of_ascii "
packet
BodyLength
{
repeat char[ 65535	] repeatCount ,
} packet
T {@lengthOf( matchKey )
f64 float @lengthOf( int) ,
    repeat u16 //x
Z9_ , repeat char[0 ] falsey
    , } root packet trueish { repeat
uint64 i8i8 `" ++ [28040; 24687; 31867; 22411]%N ++ runes_of_ascii "`// trailing space 
,
@tag( 10)
    /// triple
    zchar[ 10  ]
uint8x , @calculatedFrom( //
""{,}"" )
@tag(
1
)
@calculatedFrom(
    ""CRC32"" )
    match // trailing space 
Packet as matchKey {0 :
tag,	65535 : options1
, }
    , repeat
    u { calculatedFrom
@calculatedFrom( //x
""\n"" )
// " ++ [27880; 37322]%N ++ runes_of_ascii "
// " ++ [27880; 37322]%N ++ runes_of_ascii "
`100% of %d`
    , string x @lengthOf( zchar  ) `100% of %d`
,
    match MetaDataX as
Logon {0
    :/// triple
T,42 : // @lengthOf(
A 3 :  rootA	65535
    :x_y_z , } ,char[] packetx @calculatedFrom(""" ++ [233]%N ++ runes_of_ascii "t" ++ [233]%N ++ runes_of_ascii """ ), }  ,
    x // " ++ [27880; 37322]%N ++ runes_of_ascii "
`
` , repeat// 50% %s
Pad {
// 50% %s
// packet A { u8 x, }
zchar[ 1
    ] A @lengthOf(  Z9_ ), metadata
{
repeat
    packetx a1 , u16
// a // b
// packet A { u8 x, }
string_ //	t
`tab	here`
, Foo
`u8 x,` , } ,/// triple
match
    i64_ as msg_type {1
:
// trailing space 
//
msg_type ,
3	: rootA,
    65535 : As,} ,string Z9_ @lengthOf( // c
MetaDataX )
    , } ,  MetaDataX { f64 packetx , repeat char Z9_
,
    u8x  i8i8  , }
    ,uint8 i64_ `// not a comment`, @lengthOf( _x )
    BodyLength
,
    stringy {	repeat zchar[ 0123456789]  i8i8 // " ++ [128512]%N ++ runes_of_ascii " emoji
, }
, } root packet
float // `tick` ""quote"" 'q'
{ // packet A { u8 x, }
@lengthOf( _x
)	o@calculatedFrom(
""{,}""
    )
//
//x
`line1
line2` , }
")).
Eval vm_compute in ("<<<M4525>>>" ++ check (runes_of_ascii "  root

    packet
A
{	match

rootA
as
Packet /// triple
	{
[ 
3, 
""// no comment"", """ ++ [128512]%N ++ runes_of_ascii """,

    """" ,	""""  ]	: int 	 // 50% %s
  ,
[
0,  /// triple
    	""1""
, 
""" ++ [128512]%N ++ runes_of_ascii """  ,

    0

,
    ""x y""

    , ""it's""
, 00

, 
""it's""  ]	:  pack, 00 :
    trueish  // c
  , 0123456789
:
A, [
7

    ,

    ""x y""

, ""\" ++ [233]%N ++ runes_of_ascii """ ,""1"" ,
0123456789	]

:
	Header
	,	007	: 
repeatCount	, } ,
char[]  repeatCount
	@calculatedFrom(
	""{,}""
), // " ++ [128512]%N ++ runes_of_ascii " emoji
	float{  match
	repeatCount
as

    u8x {
10  :a1	//	t
	3	:asx	// `tick` ""quote"" 'q'
  [ 
""" ++ [28040; 24687]%N ++ runes_of_ascii """
        // `tick` ""quote"" 'q'
    ]	:

    leftPad 7
:
    asx	// a // b

  , 007  : 
x , ""x y"" 
: Logon 
      // 50% %s
    	, }
	,  zchar[

    42 ]  repeatCount@calculatedFrom( ""\n""

) , float32// " ++ [128512]%N ++ runes_of_ascii " emoji
	repeatCount
`{ , }` 
,
    string
    tag	`
`

,  } ,

    x  Logon
	// trailing space 
  //
  `
` 
,	repeat	u128
,@calculatedFrom(

    ""a\\""

    )
zchar[
    3  
      /// triple
    ]

Logon , @tag(	007  )

    Pad
	`100% of %d` ,

    }packet //	t
      chars {@lengthOf(// a // b
lengthOf
) @tag(
10 )
repeat  string_

    ,
}packet	Z9_
{  charz,
    match metadata as 
charz

{  7:

    Foo	,

42  :

float 
,
	""a\""b""
: 
zchar, [	1
, 4294967296
,  ""it's""

    ,1 	 // trailing space 
  ]

:	crc, }
    ,

    }
")).
Eval vm_compute in ("<<<M367>>>" ++ check (runes_of_ascii "// packet A { u8 x, }
packet uint8x { @lengthOf(
    trueish )asx msg_type
// @lengthOf(
// packet A { u8 x, }
`
`
    ,@lengthOf(
    trueish ) match// c
falsey
as  Foo{ 10 // " ++ [27880; 37322]%N ++ runes_of_ascii "
:calculatedFrom , 1
    : roots , [
// c
// `tick` ""quote"" 'q'
00
]  :
rootA
//
// a // b
,} , repeat f64 i8i8`doc`,	match T
    as	o {255	: i8i8	, ""// no comment""
: crc, ""1"" : pack
    , ""CRC32"":len // a // b
,} , @calculatedFrom(
""x y"" //
) crc
@calculatedFrom(
""abc"") ,repeat i64 pack , } MetaData o {
    }
    MetaData i8i8 {
Pad
    rootA `{ , }` , roots
msg_type ,  f64
    msg_type ,
metadata//x
i8i8
,uint8x leftPad `a\`, int32
//
// `tick` ""quote"" 'q'
charz
`
`
,} packet len {char[ // 50% %s
255 ] f32a @calculatedFrom( ""a	b"" ) // c
`100% of %d` ,	f64
u8x , options1 { string charz `a\` , char[0123456789 ]falsey@calculatedFrom( ""\" ++ [233]%N ++ runes_of_ascii """ ) , repeat
As {  char[]Foo
, }, repeat	zchar[ 10] Logon `// not a comment` ,
}, @lengthOf(i8i8
)
match repeatCount as options1
{ 3 : Logon , } , // `tick` ""quote"" 'q'
match
    // 50% %s
    roots  as BodyLength {
[ 42// `tick` ""quote"" 'q'
,
    0123456789
, 65535 ,""packet"" ,
""" ++ [233]%N ++ runes_of_ascii "t" ++ [233]%N ++ runes_of_ascii """ , 00 ,
""" ++ [233]%N ++ runes_of_ascii "t" ++ [233]%N ++ runes_of_ascii """] :
i8i8, ""packet"" : string_, 0123456789: matchKey
    ,}
    ,
}
")).
Eval vm_compute in ("<<<M984>>>" ++ check (runes_of_ascii "packet MetaDataX{ @tag(3 // " ++ [128512]%N ++ runes_of_ascii " emoji
)  match
asx as
u8x{ [ ""CRC32"" ] : chars
0123456789:
    rootA , //x
65535 :  len ,
""" ++ [128512]%N ++ runes_of_ascii """ : charz/// triple
} , lengthOf Z9_
`
` , char[]A @calculatedFrom( """ ++ [233]%N ++ runes_of_ascii "t" ++ [233]%N ++ runes_of_ascii """ ) , char[]	T
    ,
i32 repeatCount , @calculatedFrom(""" ++ [128512]%N ++ runes_of_ascii """	)
    pack
@lengthOf( chars) `line1
line2`
    // 50% %s
    ,
    @tag( 0123456789
    ) f32a { match MetaDataX as f32a { 7 // " ++ [27880; 37322]%N ++ runes_of_ascii "
: options1  """"
: // " ++ [27880; 37322]%N ++ runes_of_ascii "
chars 255
    :
// `tick` ""quote"" 'q'
/// triple
uint8x 00:
body // " ++ [128512]%N ++ runes_of_ascii " emoji
,
[10/// triple
, 42
]
    : packetx, }
    ,}
    ,@tag( 0123456789 )
repeat  options1 options1	,u32 MetaDataX  @lengthOf(
    // packet A { u8 x, }
    o) ,
} root
packet Pad // trailing space 
{
msg_type
, }
    packet  i64_ {
float@lengthOf( f32a ) , u64 int @calculatedFrom( ""packet"" )
`" ++ [28040; 24687; 31867; 22411]%N ++ runes_of_ascii "` , @leftPad// a // b
( ' ' ) @calculatedFrom( ""\" ++ [233]%N ++ runes_of_ascii """
)
uint64  BodyLength	, zchar[65535 ]
    crc , match
    tag as
charz { [
""" ++ [128512]%N ++ runes_of_ascii """ ] //x
: zchar ,
    } // 50% %s
,// " ++ [128512]%N ++ runes_of_ascii " emoji
x @lengthOf( x // c
) `100% of %d` , @tag( 7 ) float32
i64_ @calculatedFrom( ""packet"" ) `line1
line2`
, repeat tag Logon
    // a // b
    , }packet leftPad{	}")).
Eval vm_compute in ("<<<M582>>>" ++ check (runes_of_ascii "// " ++ [27880; 37322]%N ++ runes_of_ascii "
packet chars { // c
}
    packet Z9_ {falsey
    // packet A { u8 x, }
    @calculatedFrom( ""x y"")`// not a comment` ,
string Foo @calculatedFrom(
    """" // @lengthOf(
)// a // b
,
repeat
o i64_ , @tag(
    0123456789 ) repeat // " ++ [128512]%N ++ runes_of_ascii " emoji
uint16
T
    ,
match	trueish as // packet A { u8 x, }
MetaDataX
    { 0123456789
    : MetaDataX ,
3
: trueish ,// `tick` ""quote"" 'q'
[ 42
, 7 //
]
: u8x ,
    /// triple
    ""1"" : Z9_
    //
    , }, uint32 // @lengthOf(
zchar , As {
Z9_ , Z9_{
    //
    zchar[ 7 ]	float
// " ++ [128512]%N ++ runes_of_ascii " emoji
// c
`it's` , Z9_ @lengthOf( options1 )
    ,
    stringy @lengthOf(
i64_) , /// triple
} , u8 metadata `u8 x,`
    , }
    /// triple
    , @calculatedFrom( ""x y""//
)
    @calculatedFrom(""" ++ [28040; 24687]%N ++ runes_of_ascii """)@lengthOf( int ) match // trailing space 
float as // 50% %s
matchKey{ 7 : rootA , }
    ,  @calculatedFrom(
""" ++ [128512]%N ++ runes_of_ascii """) repeat string Logon  ,
} options{  metadata =
    // `tick` ""quote"" 'q'
    float32 packetx
= true;
    Foo
= '\x00' ;A
= u16
; } MetaData crc
{// " ++ [27880; 37322]%N ++ runes_of_ascii "
int8 uint8x ,	zchar[0	]
// `tick` ""quote"" 'q'
// 50% %s
A,}")).
Eval vm_compute in ("<<<M149>>>" ++ check (runes_of_ascii "root
packet
    u128 {match
u8x as rootA
    { 3 : repeatCount
    0123456789: Pad 007 :
matchKey , [ ""// no comment"" ,
    """ ++ [28040; 24687]%N ++ runes_of_ascii """	, 7, """"
]: leftPad ,
    [
1
    // `tick` ""quote"" 'q'
    , ""packet"" , ""packet"" ] :len ,
""" ++ [128512]%N ++ runes_of_ascii """ :  matchKey} // a // b
, Z9_ x  `line1
line2`
    , repeat f32a, i64_
    @lengthOf(roots // `tick` ""quote"" 'q'
), @lengthOf(
x)
match roots as
zchar{
    7 : matchKey ,
""" ++ [28040; 24687]%N ++ runes_of_ascii """
    : uint8x, [
""a\""b"" , ""a\""b"",
10 ,00 ] : BodyLength , }
, @lengthOf( // packet A { u8 x, }
Packet
)match
Header
    as	u
{ [ ""`tick`"" ,
    00
    , // " ++ [27880; 37322]%N ++ runes_of_ascii "
1
    ,
    ""a\\""
    ]
: trueish//	t
,
    //
    0 : calculatedFrom ,[
42 ]	: metadata
, 3
: body , 10 : Z9_, } ,	zchar[ 42 ]pack @lengthOf( string_ ) /// triple
,
@lengthOf(
falsey) body `u8 x,`
, //
repeat i64
    msg_type ,} root
    packet leftPad {
// a // b
/// triple
stringy {Packet @calculatedFrom(""" ++ [28040; 24687]%N ++ runes_of_ascii """ )
,
    } // `tick` ""quote"" 'q'
,
uint16 // `tick` ""quote"" 'q'
options1
`line1
line2`,// c
}
")).
Eval vm_compute in ("<<<M188>>>" ++ check (runes_of_ascii "packet MetaDataX
{ } packet leftPad { repeat Logon { asx { packetx `say ""hi""`
    ,
match metadata
    as chars
// trailing space 
//	t
{ [
7 , 255
] :falsey , 42 : f32a 42
:
    int """ ++ [233]%N ++ runes_of_ascii "t" ++ [233]%N ++ runes_of_ascii """
:
    u128 // a // b
, } , }  ,  repeat trueish
    , string
    repeatCount@lengthOf( x ) `doc`,
}
, @rightPad ( ) zchar[ 3] // trailing space 
u128 `tab	here`  ,
@lengthOf(	i64_ ) @calculatedFrom(
    ""abc""
    ) @lengthOf(// 50% %s
Z9_)int32 u8x`" ++ [28040; 24687; 31867; 22411]%N ++ runes_of_ascii "` , @rightPad
(
)  char[00 ] roots// `tick` ""quote"" 'q'
,
@rightPad ('\x00' )
@tag(42
    ) // trailing space 
@calculatedFrom( ""a\""b"" ) repeat asx `crlf
line` ,
    x@lengthOf(_x// `tick` ""quote"" 'q'
) , Logon `
` , @rightPad  (
'0') As @lengthOf(  crc
) `" ++ [233]%N ++ runes_of_ascii "` ,
@tag(
10 ) int8  x_y_z @calculatedFrom(
""" ++ [128512]%N ++ runes_of_ascii """ ),
    asx	@lengthOf(
u8x ) ,} MetaData
stringy { int16 repeatCount `u8 x,` , } packet	repeatCount{
    @tag( 7) repeat
//	t
// " ++ [27880; 37322]%N ++ runes_of_ascii "
zchar[ 65535 ]o, x_y_z charz ,}")).
Eval vm_compute in ("<<<M215>>>" ++ check (runes_of_ascii "packet
Header { @lengthOf(
    u128
    )matchKey { Header//
,
// 50% %s
// @lengthOf(
}
, char[] _x	@calculatedFrom(
""// no comment"" ) // @lengthOf(
,
@calculatedFrom( """ ++ [28040; 24687]%N ++ runes_of_ascii """
) repeat
u8 Header `" ++ [233]%N ++ runes_of_ascii "` ,char[]
Z9_
    `line1
line2` ,zchar[ 255]Header
    /// triple
    ,
@leftPad
( ' ') int8
    x_y_z @lengthOf(falsey
)
    , //x
@calculatedFrom( ""packet"" )  string x_y_z @lengthOf(asx )`
`	, @calculatedFrom(""`tick`""
    /// triple
    ) char[]stringy ,
    Z9_ , zchar[3 ]rootA ``
,
}packet // 50% %s
Pad
{ chars // @lengthOf(
@lengthOf( // @lengthOf(
tag ) , } root // " ++ [27880; 37322]%N ++ runes_of_ascii "
packet
/// triple
/// triple
string_ {@lengthOf(trueish  ) // packet A { u8 x, }
@tag( 3
    )// `tick` ""quote"" 'q'
options1 @lengthOf(u
    )
`` ,
} MetaData // packet A { u8 x, }
tag	{	As pack,
float x_y_z `100% of %d`, f32
asx `two words`,char[  4294967296 ] trueish
    ,
matchKey i8i8`it's`,}
")).
Eval vm_compute in ("<<<M383>>>" ++ check (runes_of_ascii "
root packet float {char[	42
]
charz @calculatedFrom( """ ++ [233]%N ++ runes_of_ascii "t" ++ [233]%N ++ runes_of_ascii """) `// not a comment`
    , match	packetx //	t
as chars // c
{
""it's"" : options1 ,
    [ //x
65535 ] : Pad,
    ""// no comment"" :msg_type , [ ""// no comment"" ]
    // @lengthOf(
    :Logon
    //x
    ""a\\"" // " ++ [128512]%N ++ runes_of_ascii " emoji
:Pad  ,	}
    ,
options1 {
int16 matchKey `tab	here` /// triple
, zchar[	007  ]
body , } ,
@tag(
    3
    ) @leftPad
    ( ' ' ) a1 @calculatedFrom(""a\\"" ), string  Logon
@calculatedFrom(
""" ++ [233]%N ++ runes_of_ascii "t" ++ [233]%N ++ runes_of_ascii """  )
    `doc`
// packet A { u8 x, }
// trailing space 
, lengthOf
{trueish
float
, x_y_z`a\`
,}
// packet A { u8 x, }
// @lengthOf(
,repeat
    string Foo , repeat metadata i8i8
    `tab	here`
    ,@calculatedFrom(
    ""a	b""	)
    char[] charz /// triple
@calculatedFrom( """"	) , }packet
f32a
{ chars
//	t
// packet A { u8 x, }
f32a `doc`
    // 50% %s
    , } options
    { }")).
Eval vm_compute in ("<<<M3542>>>" ++ check (runes_of_ascii "options {
    StringPrefixLenType = u16;
    ArrayPrefixLenType = u32;
    FixedStringPadChar = '0';
}
packet Ack {
    zchar[9] Ref,
    repeat u64 Flags,
    char[9] lastPx,
    char[] Tail,
}
packet Logon {
    Ack,
    repeat InSide298 {
        repeat Ack,
        u8 clOrdID,
        repeat InNote61 {
            zchar[4] tag7,
            float32 clOrdID,
            int16 Note,
            char[] Acct,
            uint16 Side2,
            string OrderId,
        },
    },
    u16 price,
    uint8 Acct,
    i32 tag7,
    @rightPad('0') char[5] lastPx,
}
packet Cancel {
    u16 seqNo,
}
packet Leg {
    repeat Ack,
    repeat InNote13 {
        int32 seqNo,
        Ack,
    },
}
packet Quote {
    string OrderId,
}
root packet Trade {
    repeat InAcct24 {
        float64 msgKind,
    },
}
")).
Eval vm_compute in ("<<<M4176>>>" ++ check (runes_of_ascii "packet i64_ {
}

packet o {
    As leftPad `crlf
    line`,
    @calculatedFrom(""" ++ [233]%N ++ runes_of_ascii "t" ++ [233]%N ++ runes_of_ascii """)
    i32 float ``,
    falsey {
        match rootA as roots {
            ""a\""b"" : body,
            1 : trueish,
            ""\" ++ [233]%N ++ runes_of_ascii """ : a1,
        },
        f32 options1,
        char[3] falsey `line1
        line2`,
    },
    string matchKey `u8 x,`,
    @calculatedFrom(""" ++ [233]%N ++ runes_of_ascii "t" ++ [233]%N ++ runes_of_ascii """)
    uint8x @calculatedFrom(""{,}""),
    zchar[0123456789] pack,
    lengthOf @lengthOf(chars),//x
    @calculatedFrom("""")
    packetx `" ++ [233]%N ++ runes_of_ascii "`,
    @tag(3)
    match MetaDataX as uint8x {
        007 : body,
    },
}

options {
    // `tick` ""quote"" 'q'
    // " ++ [27880; 37322]%N ++ runes_of_ascii "
    BodyLength = """ ++ [28040; 24687]%N ++ runes_of_ascii """;
    float = 10;
    // " ++ [128512]%N ++ runes_of_ascii " emoji
    // trailing space 
    string_ = '0'
    packetx = '0';// a // b
    repeatCount = i64
}")).
Eval vm_compute in ("<<<M3557>>>" ++ check (runes_of_ascii "options 
{
	LittleEndian

    = 
true ;ArrayPrefixLenType

= u32 ; }packet

Order	{ repeat u64  Acct,i16 price,
	}
	packet Logon{  zchar[ 3 ]  venue,

    string
	Flags
	,
    repeat

InQty82	{string

    Px
, }  ,repeat char[  1

    ]	clOrdID	,}  packet	Cancel { int32
Tail

,
repeat
Logon,
repeat

InFlags55
{

    uint64
    Note ,
repeat InQty28
	{	char[]msgKind
,

    char[
7
]OrderId
, 
}

, char[]

    Px 
,

    }
,

int16	Ref

,
	} root
    packet Leg

{
    repeat 
Logon , 
char[]

venue
,
    u16
Flags ,  i16  Tail ,	repeat
	Cancel
    ,u8 Side2

,
match
    Side2

    as 
Body
{  151	:	Logon
	,
148 :

    Order,162:Cancel 
,
}

    ,
	u16 x
@calculatedFrom(
    ""CRC32"" )
    ,}
")).
Eval vm_compute in ("<<<M601>>>" ++ check (runes_of_ascii "  MetaData lengthOf{ o
    falsey `u8 x,` , char[] u8x , }	packet leftPad { }  options
    {string_ =char[ 0123456789]
} packet u{
roots { char[ 0 ]
// `tick` ""quote"" 'q'
// c
leftPad,repeat i64 matchKey //
,
repeat leftPad
stringy
    ``
,
stringy  @calculatedFrom(
    ""x y"" ) `100% of %d`,} ,  uint16
    calculatedFrom
// a // b
//	t
, @calculatedFrom( ""1"" ) repeat string i8i8 ,repeat matchKey`line1
line2` , Pad@calculatedFrom(
    // @lengthOf(
    """" ) `u8 x,` , @tag( 65535
    )
repeat char[] asx `" ++ [28040; 24687; 31867; 22411]%N ++ runes_of_ascii "` ,
@tag( 00 ) uint8x@calculatedFrom( ""{,}"") // @lengthOf(
, chars _x,	body `" ++ [28040; 24687; 31867; 22411]%N ++ runes_of_ascii "` // c
,
    int64// " ++ [27880; 37322]%N ++ runes_of_ascii "
Logon@calculatedFrom(
    """ ++ [233]%N ++ runes_of_ascii "t" ++ [233]%N ++ runes_of_ascii """ ) , }
    packet Z9_
    {
}
// " ++ [27880; 37322]%N ++ runes_of_ascii "
")).
Eval vm_compute in ("<<<M343>>>" ++ check (runes_of_ascii "// " ++ [27880; 37322]%N ++ runes_of_ascii "
MetaData
    rootA
    { f64 As, f64//
int `two words` // `tick` ""quote"" 'q'
,
f32//x
body// " ++ [128512]%N ++ runes_of_ascii " emoji
`say ""hi""` , zchar[
4294967296
]/// triple
x ,// a // b
uint32
// " ++ [27880; 37322]%N ++ runes_of_ascii "
// c
lengthOf
`
` , }root packet pack { match pack
    as	repeatCount { ""CRC32"":  crc 1 :calculatedFrom,
[""packet"" ,
""{,}"", 10 , ""a\\""	] :float,//	t
""packet"" : _x  , 10
: o , }
,match a1  as
T { 65535	:
Z9_ 0
    :_x ,
    }, u64 Pad //	t
`" ++ [233]%N ++ runes_of_ascii "` , @calculatedFrom(
""packet"" )	MetaDataX
pack , char[	007 ]
uint8x ,  i8i8 @lengthOf( msg_type)
    `u8 x,` ,@rightPad ( '\x00')
string_
    `" ++ [233]%N ++ runes_of_ascii "`  ,
} root	packet
a1 { }MetaData x_y_z{ i16
roots `say ""hi""`
/// triple
// `tick` ""quote"" 'q'
, }")).
Eval vm_compute in ("<<<M845>>>" ++ check (runes_of_ascii "
root packet u //	t
{zchar[
    4294967296 ] Header @lengthOf( uint8x ) ,charz , @lengthOf( packetx ) uint8x lengthOf `crlf
line` ,
    zchar[ 007	] o ,repeat u8x {
    // " ++ [27880; 37322]%N ++ runes_of_ascii "
    string //x
metadata``,}
,}  MetaData string_ {	char
    options1 ``, As packetx
`crlf
line` , char[
    00 ]
    T , string string_ `// not a comment`,
i32 lengthOf ,
zchar[ 007 //
]
u	, //	t
}
    packet trueish{ // " ++ [27880; 37322]%N ++ runes_of_ascii "
} options
    {
Foo
= int16
    ; As=
    ' '; zchar =
/// triple
// 50% %s
3 chars = false	;
As =
string  }MetaData o
    {
    zchar[
// 50% %s
// trailing space 
007 ] i64_ ,char[ 3
]Logon
    `" ++ [233]%N ++ runes_of_ascii "`	, char[
7
]stringy
`
`
,
}
")).
Eval vm_compute in ("<<<M3902>>>" ++ check (runes_of_ascii "packet _x {
    char[] options1,
    // packet A { u8 x, }
    /// triple
}

options {
    Foo = string;
}

packet BodyLength {
}

root packet Z9_ {
    @lengthOf(repeatCount)
    i8i8 string_ `line1
        line2`,
    i8i8,
    u64 u128,
    @leftPad('0')
    // `tick` ""quote"" 'q'
    // packet A { u8 x, }
    match Pad as T {
        """ ++ [128512]%N ++ runes_of_ascii """ : Packet,
        ""x y"" : tag,
    },
    repeat rootA `it's`,
    repeat options1 {
        lengthOf,
        string calculatedFrom @calculatedFrom(""it's""),
        metadata @calculatedFrom(""" ++ [28040; 24687]%N ++ runes_of_ascii """),
        // `tick` ""quote"" 'q'
        /// triple
    },// " ++ [128512]%N ++ runes_of_ascii " emoji
}")).
Eval vm_compute in ("<<<M3521>>>" ++ check (runes_of_ascii "packet Logon // c1a
  // c1b
{
    // c2
string // c3
user // c4
, // c5
} // c6a
  // c6b
root // c7
packet Frame { // c10a
  // c10b
u8
    // c11
K // c12a
  // c12b
, match
    // c14
K // c15a
  // c15b
as
    // c16
Body { 1 // c19
: Logon , // c22
2 // c23a
  // c23b
:
    // c24
Logout , // c26a
  // c26b
} // c27
, Tail
    // c29
, // c30a
  // c30b
} // c31a
  // c31b
packet // c32a
  // c32b
Logout { // c34
u16 // c35a
  // c35b
reason // c36
, // c37a
  // c37b
} // c38a
  // c38b
packet
    // c39
Tail
    // c40
{
    // c41
u32 crc // c43a
  // c43b
, } ")).
Eval vm_compute in ("<<<M15>>>" ++ check (runes_of_ascii "
packet body/// triple
{  match crc  as len
    { [ // trailing space 
""x y"" , 10 ]
: a1 ,
"""":a1
    ""`tick`""
:
// 50% %s
// @lengthOf(
Header""" ++ [28040; 24687]%N ++ runes_of_ascii """: // " ++ [27880; 37322]%N ++ runes_of_ascii "
A, 10 :crc} , @calculatedFrom( ""packet"" )
    // packet A { u8 x, }
    match u128 as//x
Pad
{ [ 10,	7] :BodyLength ,
    007: Header, 65535:MetaDataX
    00 :
//	t
// " ++ [128512]%N ++ runes_of_ascii " emoji
Header
// trailing space 
//	t
,
    1: body , },}packet u8x {x_y_z
BodyLength `100% of %d`
    , }
    MetaData rootA {	char[]	tag , zchar[0
] chars ,string_ crc, i64_ matchKey
`
`  ,// " ++ [128512]%N ++ runes_of_ascii " emoji
int8 u8x `two words` , }")).
Eval vm_compute in ("<<<M3564>>>" ++ check (runes_of_ascii "

  options{

LittleEndian 
=true
; ArrayPrefixLenType=
    u32 ; FixedStringPadFromLeft
    =
    true;

FixedStringPadChar 
='0'	;
    }packet  Party
    {  } root
	packet	Heartbeat 
{ repeat
    string Tail
, 
InRef14{	InMsgkind17
{ 
int8

    Flags
, char[10	]	Acct 
,

    zchar[

    4 ]
	sym , 
i8

    Px , }
    ,

string Px,

    }
,uint16 
seqNo , int64	tag7

,u16
    Note

    , 
u32 Px	@lengthOf(
Body  )
    ,  match
Note as
	Body

    {  96
:

    Party  ,
	}, u16 Acct @calculatedFrom( ""CRC32"") ,}

")).
Eval vm_compute in ("<<<M96>>>" ++ check (runes_of_ascii "packet rootA
    // `tick` ""quote"" 'q'
    { @rightPad // @lengthOf(
(
'\x00' )
roots { zchar[007 ] _x , repeat float64	a1 ,
repeat	f32	Pad , }	,
    @calculatedFrom(
    ""\n"" ) zchar	`doc` , @leftPad (  '0' ) Z9_ @calculatedFrom( """ ++ [28040; 24687]%N ++ runes_of_ascii """) // trailing space 
`crlf
line` ,
    // " ++ [128512]%N ++ runes_of_ascii " emoji
    repeat
    //x
    x {match Logon // " ++ [128512]%N ++ runes_of_ascii " emoji
as i64_ {
    [""a\""b""  ]
    :
A}	,
} , //	t
@leftPad( ' ' ) tag {
uint16
metadata//x
, // 50% %s
} , @lengthOf(
    repeatCount ) As @calculatedFrom( ""packet""),}
// 50% %s
")).
Eval vm_compute in ("<<<M860>>>" ++ check (runes_of_ascii "root packet crc { @lengthOf( packetx ) repeat leftPad `say ""hi""`
    , @tag(
3)char[]u8x
,
    match // " ++ [27880; 37322]%N ++ runes_of_ascii "
Pad as	tag
{3:u128 // " ++ [27880; 37322]%N ++ runes_of_ascii "
, ""{,}"" : A ,// @lengthOf(
""it's""
: o , } , match i64_ as msg_type{ ""packet"": A  [ ""a\\"" ,
    ""packet"",// c
65535 ,
1	,""a\""b"" ,""{,}""]
:  u8x ,[65535 , 00] // " ++ [128512]%N ++ runes_of_ascii " emoji
: lengthOf ,	""`tick`"": Z9_ 7
: //
zchar
    , 65535 :
    i64_ , } ,
    @calculatedFrom( ""abc"" ) @tag(	1)
@lengthOf(
charz )
    char[]
leftPad @lengthOf( repeatCount  )
    `a\`, }
")).
Eval vm_compute in ("<<<M1185>>>" ++ check (runes_of_ascii "// trailing space 
root packet roots { charz
//x
// " ++ [27880; 37322]%N ++ runes_of_ascii "
repeatCount , char[] Pad @calculatedFrom( """ ++ [233]%N ++ runes_of_ascii "t" ++ [233]%N ++ runes_of_ascii """
) , // a // b
@tag(00 ) @leftPad ( '0'
)repeat pack { u32 lengthOf
,  repeat float64
    x_y_z , } , roots { zchar[	007
    ]
int, repeat int64
    msg_type `" ++ [28040; 24687; 31867; 22411]%N ++ runes_of_ascii "` ,
},
@leftPad  ( '\x00')
    f32
BodyLength // `tick` ""quote"" 'q'
, }packet Z9_
{
//x
// 50% %s
repeat body { repeat char[ // c
3
// " ++ [128512]%N ++ runes_of_ascii " emoji
// " ++ [128512]%N ++ runes_of_ascii " emoji
]
// " ++ [27880; 37322]%N ++ runes_of_ascii "
// trailing space 
int
    ,
}
,}")).
Eval vm_compute in ("<<<M1176>>>" ++ check (runes_of_ascii "
MetaData
repeatCount
{As A , matchKey roots
    // packet A { u8 x, }
    ,
    repeatCount body `it's` ,
}
root
packet
crc { @calculatedFrom(
    ""a\""b"" ) @tag(
    0123456789 )@rightPad ()
    zchar[
    7 ] calculatedFrom // @lengthOf(
, } packet leftPad {  @calculatedFrom( ""// no comment"" ) @calculatedFrom(
""it's"")repeat _x `{ , }`, }
    // trailing space 
    options //x
{	u
    =0
; calculatedFrom= ""1"" // " ++ [128512]%N ++ runes_of_ascii " emoji
; zchar =""" ++ [128512]%N ++ runes_of_ascii """ }
")).
Eval vm_compute in ("<<<M3311>>>" ++ check (runes_of_ascii "// top
options
    // c0
{
    // c1
u
    // c2
=
    // c3
00
    // c4
stringy
    // c5
=
    // c6
'0'
    // c7
}
    // c8
packet
    // c9
stringy
    // c10
{
    // c11
}
    // c12
MetaData
    // c13
repeatCount
    // c14
{
    // c15
MetaDataX
    // c16
leftPad
    // c17
,
    // c18
string
    // c19
body
    // c20
`
`
    // c21
,
    // c22
metadata
    // c23
options1
    // c24
,
    // c25
}
    // c26
")).
Eval vm_compute in ("<<<M4353>>>" ++ check (runes_of_ascii "MetaData i64_ {
    uint8x As `say ""hi""`,
    body options1 `
    `,
    // packet A { u8 x, }
    string_ chars,
    u64 f32a,
}

root packet T {
    @tag(00)
    pack @calculatedFrom(""// no comment""),
    lengthOf rootA `" ++ [233]%N ++ runes_of_ascii "`,
    @lengthOf(i64_)
    repeat falsey {
        repeat BodyLength {
            len,
        },
        uint32 crc @lengthOf(stringy) `" ++ [28040; 24687; 31867; 22411]%N ++ runes_of_ascii "`,
    },// " ++ [128512]%N ++ runes_of_ascii " emoji
    u8 i64_ @lengthOf(rootA),
}")).
Eval vm_compute in ("<<<M3631>>>" ++ check (runes_of_ascii "packet trueish {
    @leftPad('\x00')
    falsey zchar,
    i32 u ``,
    match falsey as u8x {
        1 : int,
        3 : i64_,
        [0123456789] : leftPad,
        [4294967296] : calculatedFrom,
        ""CRC32"" : body,
        0 : lengthOf,
    },
    char[] As,
    repeat leftPad {
        Foo,
    },
    float32 Pad @calculatedFrom(""a	b"") `it's`,
    repeat f32 options1 `doc`,
    zchar A,
}")).
Eval vm_compute in ("<<<M4444>>>" ++ check (runes_of_ascii "options {
    // c
    len = true;
}

packet pack {
    uint8 rootA `line1
        line2`,
}

options {
    u = ""\n"";
    MetaDataX = ""`tick`"";
    charz = """ ++ [233]%N ++ runes_of_ascii "t" ++ [233]%N ++ runes_of_ascii """;
}

root packet i8i8 {
    //x
    @rightPad(' ')
    i32 msg_type,
    @tag(007)
    BodyLength @lengthOf(charz) ``,
    @leftPad()
    A @calculatedFrom(""" ++ [233]%N ++ runes_of_ascii "t" ++ [233]%N ++ runes_of_ascii """),
    char zchar @lengthOf(lengthOf) `crlf
        line`,
}")).
Eval vm_compute in ("<<<M4225>>>" ++ check (runes_of_ascii "

  packet
	trueish {x

metadata, uint16
f32a  // trailing space 
  , repeat
leftPad

    {

    match MetaDataX

as
    lengthOf
{  4294967296

: calculatedFrom,[

    ""a\\""
, ""a\\""
    ] :	len	,
0
: 
    // `tick` ""quote"" 'q'

f32a	,[
""CRC32""]
:
chars , 

    // @lengthOf(

// " ++ [128512]%N ++ runes_of_ascii " emoji
    	65535	: /// triple
	i8i8	,
}
    , }// packet A { u8 x, }
	,} ")).
Eval vm_compute in ("<<<M1331>>>" ++ check (runes_of_ascii "
packet
    //
    x { @tag( 0 ) options1 `
`
, @calculatedFrom( ""\n"" // c
) repeat
// " ++ [27880; 37322]%N ++ runes_of_ascii "
// 50% %s
asx
// packet A { u8 x, }
/// triple
float  `a\` ,
repeat
    zchar[
65535] metadata
    , } options { As	= ""packet"" ;Logon// `tick` ""quote"" 'q'
= 4294967296 ;rootA = //	t
'\x00' ; } MetaData BodyLength {
    zchar[ //	t
1 // 50% %s
]BodyLength , }
")).
Eval vm_compute in ("<<<M56>>>" ++ check (runes_of_ascii "  packet
// " ++ [27880; 37322]%N ++ runes_of_ascii "
// c
matchKey {@tag(0 ) @lengthOf(
chars
    )
@calculatedFrom( ""`tick`"")
f64 asx , @calculatedFrom(
    """ ++ [128512]%N ++ runes_of_ascii """
)repeat repeatCount charz `tab	here`,/// triple
@rightPad (  ) string_  ,
    }	options {
repeatCount
// a // b
/// triple
= char[
1 ]
    lengthOf= """ ++ [28040; 24687]%N ++ runes_of_ascii """ // packet A { u8 x, }
As= ""a\\""
o = '\x00'
i8i8 =true ;
} 	 ")).
Eval vm_compute in ("<<<M150>>>" ++ check (runes_of_ascii "packet matchKey
    {  @tag( // @lengthOf(
10 )
repeat _x,
}  packet
    pack{ } packet asx {  repeat
    int64 metadata `// not a comment` , @calculatedFrom(""it's"" ) repeat char[ 0123456789 ] msg_type `u8 x,` , @rightPad( )
    // packet A { u8 x, }
    repeat
    float
, string float
@calculatedFrom(
    ""abc"") // c
,}

")).
Eval vm_compute in ("<<<M3314>>>" ++ check (runes_of_ascii "// top
MetaData
    // c0
float
    // c1
{
    // c2
uint8
    // c3
BodyLength
    // c4
,
    // c5
}
    // c6
MetaData
    // c7
charz
    // c8
{
    // c9
float32
    // c10
trueish
    // c11
`a\`
    // c12
,
    // c13
i16
    // c14
metadata
    // c15
`say ""hi""`
    // c16
,
    // c17
}
    // c18
")).
Eval vm_compute in ("<<<M4513>>>" ++ check (runes_of_ascii "

  MetaData
A {  zchar[
	0123456789

    ] len

,  len  float// " ++ [27880; 37322]%N ++ runes_of_ascii "
    `it's`  ,
int16 rootA
`" ++ [233]%N ++ runes_of_ascii "`
	// packet A { u8 x, }
,
_x  len

`100% of %d` ,

}
options
	{  i64_
	=true

;}
	options

{
stringy 

// c
  = 	 // @lengthOf(

  '\x00'}
	packet pack
{  }options 
{
    chars =	""a\""b""
} /// triple")).
Eval vm_compute in ("<<<M1897>>>" ++ check (runes_of_ascii "packet	packetx { // trailing space 
x_y_z
{
string
charz ,
string x// @lengthOf(
`two words` `two words`
    ,  u8x { // `tick` ""quote"" 'q'
charz `100% of %d` // packet A { u8 x, }
,}// " ++ [27880; 37322]%N ++ runes_of_ascii "
,} , }
    // a // b
    packet metadata {  @leftPad ( '0') repeat i32 options1 ,u64 uint8x , }
")).
Eval vm_compute in ("<<<M2017>>>" ++ check (runes_of_ascii "packet	packetx { // trailing space 
x_y_z
{
string
charz ,
string x// @lengthOf(
`two words`
    ,  u8x { // `tick` ""quote"" 'q'
charz `100% of %d` // packet A { u8 x, }
,}// " ++ [27880; 37322]%N ++ runes_of_ascii "
,} , }
    // a // b
    packet metadata {  @leftPad ( '0') repeat i32 options1 ,u64 uint8x uint8x , }
")).
Eval vm_compute in ("<<<M498>>>" ++ check (runes_of_ascii "packet Pad { @tag( 007
    ) float32 x
@calculatedFrom(
""" ++ [28040; 24687]%N ++ runes_of_ascii """ ) `a\` ,
    x_y_z // a // b
@calculatedFrom(""" ++ [28040; 24687]%N ++ runes_of_ascii """ )
,  pack
    //
    uint8x// c
`line1
line2`
    ,}
    packet
// `tick` ""quote"" 'q'
// a // b
rootA {@tag( 0123456789 )falsey	pack, // " ++ [128512]%N ++ runes_of_ascii " emoji
}  packet charz
{}

")).
Eval vm_compute in ("<<<M2041>>>" ++ check (runes_of_ascii "packet	packetx { // trailing space 
x_y_z
{
string
charz ,
string x// @le" ++ [127]%N ++ runes_of_ascii "ngthOf(
`two words`
    ,  u8x { // `tick` ""quote"" 'q'
charz `100% of %d` // packet A { u8 x, }
,}// " ++ [27880; 37322]%N ++ runes_of_ascii "
,} , }
    // a // b
    packet metadata {  @leftPad ( '0') repeat i32 options1 ,u64 uint8x , }
")).
Eval vm_compute in ("<<<M1978>>>" ++ check (runes_of_ascii "packet	packetx { // trailing space 
x_y_z
{
string
charz ,
string x// @lengthOf(
`two words`
    ,  u8x { // `tick` ""quote"" 'q'
charz `100% of %d` // packet A { u8 x, }
,}// " ++ [27880; 37322]%N ++ runes_of_ascii "
,} , }
    // a // b
    packet metadata {  @leftPad '0' () repeat i32 options1 ,u64 uint8x , }
")).
Eval vm_compute in ("<<<M2021>>>" ++ check (runes_of_ascii "packet	packetx { // trailing space 
x_y_z
{
string
charz ,
string x// @lengthOf(
`two words`
    ,  u8x { // `tick` ""quote"" 'q'
charz `100% of %d` // packet A { u8 x, }
,}// " ++ [27880; 37322]%N ++ runes_of_ascii "
,} , }
    // a // b
    packet metadata {  @leftPad ( '0') repeat i32 options1 ,u64 uint8x  }
")).
Eval vm_compute in ("<<<M877>>>" ++ check (runes_of_ascii "MetaData
calculatedFrom { float u , int32 roots
    `` ,
    char[ 0123456789]x_y_z, char
    u128,//	t
}root
packet
falsey{	@rightPad  (
' ' )/// triple
@lengthOf(stringy ) @calculatedFrom(
""abc"" )
    T
u8x , uint8x
    // a // b
    @calculatedFrom( ""`tick`"" ),
    }")).
Eval vm_compute in ("<<<M4328>>>" ++ check (runes_of_ascii "root packet Pad {
}

packet As {
    Logon {
        repeat roots {
            char[007] roots,
            chars f32a,
        },
        charz @calculatedFrom(""" ++ [28040; 24687]%N ++ runes_of_ascii """),
        zchar[3] repeatCount `
                `,
    },
}

MetaData u8x {
    //
    int64 Header,
}")).
Eval vm_compute in ("<<<M1276>>>" ++ check (runes_of_ascii "packet calculatedFrom	{@tag( 0  )repeat _x u8x , } packet roots {
} // @lengthOf(
packet falsey { f64 i8i8 ,	}
packet trueish {} MetaData string_ {	charz a1
// " ++ [27880; 37322]%N ++ runes_of_ascii "
//
,
i8 asx ,stringy Foo `crlf
line`
, len Pad `
`,
    char[ 1 ] string_
    , char[] falsey ,}
")).
Eval vm_compute in ("<<<M2080>>>" ++ check (runes_of_ascii "packet// packet A { u8 x, }
repeatCount	{// packet A { u8 x, }
@leftPad ( '\x00'
) ) repeat u8x MetaDataX `crlf
line`,
    repeat
    char[] MetaDataX
    ,
u64	uint8x@calculatedFrom(""a\""b""
// c
// packet A { u8 x, }
) `tab	here`
,//
}MetaData pack
    {
    }
")).
Eval vm_compute in ("<<<M1479>>>" ++ check (runes_of_ascii "packet calculatedFrom
{ @calculatedFrom( ""a\\"" ) zchar[ 4294967296 ]
calculatedFrom@lengthOf( pack )	`100% of %d` `100% of %d` ,char[]body@calculatedFrom( ""// no comment"" )  ,
@tag( 007) //x
int8
leftPad`it's` , repeat pack
    { repeat char[ 3] body
,},
}")).
Eval vm_compute in ("<<<M2176>>>" ++ check (runes_of_ascii "packet// packet A { u8 x, }
repeatCount	{// packet A { u8 x, }
@leftPad ( '\x00'
) repeat u8x MetaDataX `crlf
line`,
    repeat
    char[] MetaDataX
    ,
u64	uint8x@calculatedFrom(""a\""b""
// c
// packet A { u8 x, }
) `tab	here`
,//
}MetaData {
    pack
    }
")).
Eval vm_compute in ("<<<M1516>>>" ++ check (runes_of_ascii "packet calculatedFrom
{ @calculatedFrom( ""a\\"" ) zchar[ 4294967296 ]
calculatedFrom@lengthOf( pack )	`100% of %d` ,char[]body@calculatedFrom( ""// no comment"" )  @lengthOf(
@tag( 007) //x
int8
leftPad`it's` , repeat pack
    { repeat char[ 3] body
,},
}")).
Eval vm_compute in ("<<<M2187>>>" ++ check (runes_of_ascii "packet// packet A { u8 x, }
repeatCount	{// packet A { u8 x, }
@leftPad ( '\x00'
) repeat u8x MetaDataX `crlf
line`,
    repeat
    char[] MetaDataX
    ,
u64	uint8x@calculatedFrom(""a\""b""
// c
// packet A { u8 x, }
) `tab	here`
,//
}MetaData pack
    {")).
Eval vm_compute in ("<<<M1586>>>" ++ check (runes_of_ascii "packet calculatedFrom
{ @calculatedFrom( ""a\\"" ) zchar[ 4294967296 ]
calculatedFrom@lengthOf( pack )	`100% of %d` ,char[]body@calculatedFrom( ""// no comment"" )  ,
@tag( 007) //x
int8
leftPad`it's` , repeat pack
    { repeat char[ 3 255 body
,},
}")).
Eval vm_compute in ("<<<M924>>>" ++ check (runes_of_ascii "packet
Packet// " ++ [128512]%N ++ runes_of_ascii " emoji
{@tag(10
    //	t
    ) string
    roots@lengthOf(stringy	), int32
    T//	t
`{ , }`
, repeat repeatCount
{
    u32
len ,
T rootA , char[ 7 ] falsey @lengthOf(
    // " ++ [128512]%N ++ runes_of_ascii " emoji
    crc
    //x
    ) , int16	BodyLength ,} , }
")).
Eval vm_compute in ("<<<M1450>>>" ++ check (runes_of_ascii "packet calculatedFrom
{ @calculatedFrom( ""a\\"" ) zchar[ ] 4294967296
calculatedFrom@lengthOf( pack )	`100% of %d` ,char[]body@calculatedFrom( ""// no comment"" )  ,
@tag( 007) //x
int8
leftPad`it's` , repeat pack
    { repeat char[ 3] body
,},
}")).
Eval vm_compute in ("<<<M2183>>>" ++ check (runes_of_ascii "packet// packet A { u8 x, }
repeatCount	{// packet A { u8 x, }
@leftPad ( '\x00'
) repeat u8x MetaDataX `crlf
line`,
    repeat
    char[] MetaDataX
    ,
u64	uint8x@calculatedFrom(""a\""b""
// c
// packet A { u8 x, }
) `tab	here`
,//
}MetaData pack")).
Eval vm_compute in ("<<<M2139>>>" ++ check (runes_of_ascii "packet// packet A { u8 x, }
repeatCount	{// packet A { u8 x, }
@leftPad ( '\x00'
) repeat u8x MetaDataX `crlf
line`,
    repeat
    char[] MetaDataX
    ,
u64	uint8x""a\""b""
// c
// packet A { u8 x, }
) `tab	here`
,//
}MetaData pack
    {
    }
")).
Eval vm_compute in ("<<<M1553>>>" ++ check (runes_of_ascii "packet calculatedFrom
{ @calculatedFrom( ""a\\"" ) zchar[ 4294967296 ]
calculatedFrom@lengthOf( pack )	`100% of %d` ,char[]body@calculatedFrom( ""// no comment"" )  ,
@tag( 007) //x
int8
leftPad`it's` ,  pack
    { repeat char[ 3] body
,},
}")).
Eval vm_compute in ("<<<M553>>>" ++ check (runes_of_ascii "packet
T {@calculatedFrom(// packet A { u8 x, }
""`tick`"" ) @calculatedFrom( ""abc""
    )
    @calculatedFrom(
""a\\""
    )// trailing space 
match body as options1 { """ ++ [233]%N ++ runes_of_ascii "t" ++ [233]%N ++ runes_of_ascii """ :
    crc , ""packet"" : As
,
1 // @lengthOf(
: rootA
, }, }
")).
Eval vm_compute in ("<<<M489>>>" ++ check (runes_of_ascii "packet
    leftPad {@lengthOf( stringy ) //
repeat  char[ 1
    // " ++ [128512]%N ++ runes_of_ascii " emoji
    ]
    /// triple
    i64_ ,} options
// a // b
// packet A { u8 x, }
{Header
= 1	lengthOf
    =
    '0' ;
    crc = 0 repeatCount= ' ' ;
}")).
Eval vm_compute in ("<<<M160>>>" ++ check (runes_of_ascii "
packet f32a
{ repeat MetaDataX `{ , }` , }
MetaData float {
char[] pack
    `it's`
    ,float
    uint8x
    , // a // b
char[ 0123456789 ] pack `doc`
    // packet A { u8 x, }
    ,zchar[7
    // c
    ]x, }
")).
Eval vm_compute in ("<<<M105>>>" ++ check (runes_of_ascii "packet
//	t
// " ++ [128512]%N ++ runes_of_ascii " emoji
options1 {
//	t
// packet A { u8 x, }
char[
    // `tick` ""quote"" 'q'
    007 ]
stringy`" ++ [28040; 24687; 31867; 22411]%N ++ runes_of_ascii "` ,i16 tag @calculatedFrom(""CRC32"")	,
    }MetaData Pad// " ++ [128512]%N ++ runes_of_ascii " emoji
{trueish
Header , }
")).
Eval vm_compute in ("<<<M1614>>>" ++ check (runes_of_ascii "packet calculatedFrom
{ @calculatedFrom( ""a\\"" ) zchar[ 4294967296 ]
calculatedFrom@lengthOf( pack )	`100% of %d` ,char[]body@calculatedFrom( ""// no comment"" )  ,
@tag( 007) //x
int8
leftPad`")).
Eval vm_compute in ("<<<M961>>>" ++ check (runes_of_ascii "packet metadata { match u8x as // " ++ [128512]%N ++ runes_of_ascii " emoji
i8i8{
    [ ""x y"" ,  ""CRC32""	, 3 // a // b
] :MetaDataX
    , 7:
    lengthOf , 42:
Z9_ 255
    :As
, } ,
// 50% %s
//	t
uint16	Foo`a\`
    , }")).
Eval vm_compute in ("<<<M1148>>>" ++ check (runes_of_ascii "packet packetx{ @tag( 007// trailing space 
)
match Packet as _x { ""abc""
    //x
    :calculatedFrom ,	4294967296 : Header,[""\" ++ [233]%N ++ runes_of_ascii """
    // " ++ [128512]%N ++ runes_of_ascii " emoji
    ]:
    pack  , """ ++ [233]%N ++ runes_of_ascii "t" ++ [233]%N ++ runes_of_ascii """:chars } ,}")).
Eval vm_compute in ("<<<M799>>>" ++ check (runes_of_ascii "root packet string_	{
    // `tick` ""quote"" 'q'
    x// a // b
, repeat  char[] asx `tab	here` ,@rightPad () f32a { int64 As `two words`
,
    }, }
MetaData float{ }
//	t
")).
Eval vm_compute in ("<<<M4039>>>" ++ check (runes_of_ascii "
options

    {
a1  =// " ++ [27880; 37322]%N ++ runes_of_ascii "

  1;	tag
=
    string  ; 
} packet // " ++ [27880; 37322]%N ++ runes_of_ascii "
u { 
float32
leftPad`// not a comment`, }

packet  int	{ 
} options{ 
Logon=

    ""{,}""; 
} ")).
Eval vm_compute in ("<<<M2438>>>" ++ check (runes_of_ascii "
packet @tag MetaDataX
{
    @leftPad
( // a // b
'0'
) i8 u @lengthOf(
MetaDataX
    ) `say ""hi""` ,	} MetaData BodyLength {
    asx
x_y_z `" ++ [233]%N ++ runes_of_ascii "`
, uint64 u128 , }
")).
Eval vm_compute in ("<<<M1325>>>" ++ check (runes_of_ascii "root	packet T { @calculatedFrom( """ ++ [28040; 24687]%N ++ runes_of_ascii """	) int8  Pad ,
    repeat u16 int `// not a comment`,u16
int
    // a // b
    `a\`
// " ++ [128512]%N ++ runes_of_ascii " emoji
/// triple
,/// triple
} 	 ")).
Eval vm_compute in ("<<<M1700>>>" ++ check (runes_of_ascii "options { } packet Packet{char[] i64_ ,
@tag(
    255) match
options as i8i8{""{,}"" : trueish """" : Pad , ""a\\"" :
Foo ,
    1 :packetx
, """ ++ [128512]%N ++ runes_of_ascii """ : trueish , } , }")).
Eval vm_compute in ("<<<M2392>>>" ++ check (runes_of_ascii "
packet MetaDataX
{
    @leftPad
( // a // b
'0'
i8 ) u @lengthOf(
MetaDataX
    ) `say ""hi""` ,	} MetaData BodyLength {
    asx
x_y_z `" ++ [233]%N ++ runes_of_ascii "`
, uint64 u128 , }
")).
Eval vm_compute in ("<<<M1823>>>" ++ check (runes_of_ascii "options { } packet Packet{char[] i64_ ,
@tag(
    255) match
crc as i8i8{""{,}"" : trueish """" : Pad , ""a\\"" :
Foo ,
    1 :packetx
, """ ++ [128512]%N ++ runes_of_ascii """ : trueish , } , } }")).
Eval vm_compute in ("<<<M1835>>>" ++ check (runes_of_ascii "options { } packet Packet{char[] i64_ ,
@tag(
    255\) match
crc as i8i8{""{,}"" : trueish """" : Pad , ""a\\"" :
Foo ,
    1 :packetx
, """ ++ [128512]%N ++ runes_of_ascii """ : trueish , } , }")).
Eval vm_compute in ("<<<M1744>>>" ++ check (runes_of_ascii "options { } packet Packet{char[] i64_ ,
@tag(
    255) match
crc as i8i8{""{,}"" : trueish """" : , Pad ""a\\"" :
Foo ,
    1 :packetx
, """ ++ [128512]%N ++ runes_of_ascii """ : trueish , } , }")).
Eval vm_compute in ("<<<M1655>>>" ++ check (runes_of_ascii "options { } packet char[{char[] i64_ ,
@tag(
    255) match
crc as i8i8{""{,}"" : trueish """" : Pad , ""a\\"" :
Foo ,
    1 :packetx
, """ ++ [128512]%N ++ runes_of_ascii """ : trueish , } , }")).
Eval vm_compute in ("<<<M1732>>>" ++ check (runes_of_ascii "options { } packet Packet{char[] i64_ ,
@tag(
    255) match
crc as i8i8{""{,}"" : trueish  : Pad , ""a\\"" :
Foo ,
    1 :packetx
, """ ++ [128512]%N ++ runes_of_ascii """ : trueish , } , }")).
Eval vm_compute in ("<<<M1707>>>" ++ check (runes_of_ascii "options { } packet Packet{char[] i64_ ,
@tag(
    255) match
crc as {""{,}"" : trueish """" : Pad , ""a\\"" :
Foo ,
    1 :packetx
, """ ++ [128512]%N ++ runes_of_ascii """ : trueish , } , }")).
Eval vm_compute in ("<<<M1634>>>" ++ check (runes_of_ascii " { } packet Packet{char[] i64_ ,
@tag(
    255) match
crc as i8i8{""{,}"" : trueish """" : Pad , ""a\\"" :
Foo ,
    1 :packetx
, """ ++ [128512]%N ++ runes_of_ascii """ : trueish , } , }")).
Eval vm_compute in ("<<<M3669>>>" ++ check (runes_of_ascii "
root
    packet
stringy  {
repeat 	 //	t
  falsey
	uint8x
,

Pad	@lengthOf( stringy

)

, Pad
	@calculatedFrom(  ""{,}""
    )	`" ++ [233]%N ++ runes_of_ascii "`

,

    }")).
Eval vm_compute in ("<<<M3466>>>" ++ check (runes_of_ascii "options

{ LittleEndian	=
	true
	; } 
packet 
B
{u8	a , string s,  }
	root
	packet

    P

{	u16 L @lengthOf( B  )
,
B,
    u8

t
, 
}
")).
Eval vm_compute in ("<<<M3600>>>" ++ check (runes_of_ascii "packet Foo {
    char[] matchKey `
        `,
    zchar[4294967296] tag @calculatedFrom(""" ++ [233]%N ++ runes_of_ascii "t" ++ [233]%N ++ runes_of_ascii """) ``,
    charz @lengthOf(repeatCount),
}")).
Eval vm_compute in ("<<<M3595>>>" ++ check (runes_of_ascii "packet

A
{ match

    k as n {
	[
1
,

    ""bb"" , 007,
    ""d"",5 ,
""f"" ,
    7 , ""h""
    ]: 
B
2:
    C

    }
    ,  }

")).
Eval vm_compute in ("<<<M3654>>>" ++ check (runes_of_ascii "root packet lengthOf {
    @tag(3)
    @leftPad('\x00')
    asx {
        zchar[0] uint8x,
        zchar[255] float,
    },
}")).
Eval vm_compute in ("<<<M3289>>>" ++ check (runes_of_ascii "MetaData metadata { } MetaData rootA { i8 i64_ , roots options1 `a\` ,
// c
lengthOf Header , Z9_ Foo , int16 BodyLength , }")).
Eval vm_compute in ("<<<M3458>>>" ++ check (runes_of_ascii "packet B {
    u8 a,
}
root packet P {
    u8 K,
    match K as Body {
        1 : B,
    },
    u16 L @lengthOf(Body),
}
")).
Eval vm_compute in ("<<<M4359>>>" ++ check (runes_of_ascii "packet
A

{ match  k
	as

    n

    {

[

1
,22

    ,	007
	,
4

,

    5 
, 66
]

:
	B ,

2:
C }

,
	} ")).
Eval vm_compute in ("<<<M3086>>>" ++ check (runes_of_ascii "packet A {
    u16 len @lengthOf(body) `%%d%!`,
    u32 crc @calculatedFrom(""CRC32"") `%%d%!`,
    string body,
}")).
Eval vm_compute in ("<<<M3328>>>" ++ check (runes_of_ascii "MetaData float { uint8 BodyLength , // c
} MetaData charz { float32 trueish `a\` , i16 metadata `say ""hi""` , }")).
Eval vm_compute in ("<<<M223>>>" ++ check (runes_of_ascii "options
{ leftPad = """" ;	repeatCount = uint64; Header =	char[] ; BodyLength = '\x00' // trailing space 
; }")).
Eval vm_compute in ("<<<M3009>>>" ++ check (runes_of_ascii "packet A {
  match k as n {
    [""a"", ""bb"", 007, ""d"", ""e"", 66, ""g"", ""h"", 9, ""j"", ""k""] : B
    2 : C
  },
}")).
Eval vm_compute in ("<<<M1324>>>" ++ check (runes_of_ascii "root packet zchar { @leftPad ('0') @rightPad (
' '
)@calculatedFrom( ""\" ++ [233]%N ++ runes_of_ascii """ ) repeat uint32 Header , }
")).
Eval vm_compute in ("<<<M282>>>" ++ check (runes_of_ascii "MetaData
repeatCount	{	u64
float , char[
    // a // b
    0 ]body `{ , }`,string falsey `doc` ,	}
")).
Eval vm_compute in ("<<<M3952>>>" ++ check (runes_of_ascii "packet  u

{charz 
        //	t

// 50% %s
	@calculatedFrom( // a // b
    ""a	b""	)
`u8 x,` 
,} ")).
Eval vm_compute in ("<<<M52>>>" ++ check (runes_of_ascii "MetaData options1{ // @lengthOf(
int8 repeatCount ,u16 T , x x  ,	zchar[ 1 ] As  , u64 T , }
")).
Eval vm_compute in ("<<<M2976>>>" ++ check (runes_of_ascii "packet A {
  match k as n {
    [1, ""bb"", 007, ""d"", 5, ""f"", 7, ""h"", 9] : B,
    2 : C
  },
}")).
Eval vm_compute in ("<<<M2965>>>" ++ check (runes_of_ascii "packet A {
  match k as n {
    [""a"", 22, ""c c"", 4, ""e"", 66, ""g"", 8] : B,
    2 : C
  },
}")).
Eval vm_compute in ("<<<M8>>>" ++ check (runes_of_ascii "MetaData
zchar { T stringy `// not a comment`
// @lengthOf(
// `tick` ""quote"" 'q'
, } 	 ")).
Eval vm_compute in ("<<<M3501>>>" ++ check (runes_of_ascii "packet
	orderItem{ 
u8  a

,
	} root
packet	newOrder
{
    orderItem ,
    u8
x
,  }
")).
Eval vm_compute in ("<<<M474>>>" ++ check (runes_of_ascii "// 50% %s
options{ options1
    = true packetx
=char[] ;i64_
    = ""\" ++ [233]%N ++ runes_of_ascii """ falsey=true}")).
Eval vm_compute in ("<<<M2244>>>" ++ check (runes_of_ascii "MetaData _x {string x `// not a comment` , 
i64_ // trailing space 
`a\` ,
    }
")).
Eval vm_compute in ("<<<M1726>>>" ++ check (runes_of_ascii "options { } packet Packet{char[] i64_ ,
@tag(
    255) match
crc as i8i8{""{,}""")).
Eval vm_compute in ("<<<M2926>>>" ++ check (runes_of_ascii "packet A {
  match k as n {
    [""a"", 22, ""c c"", 4, ""e""] : B,
    2 : C
  },
}")).
Eval vm_compute in ("<<<M2933>>>" ++ check (runes_of_ascii "packet A {
  match k as n {
    [1, 22, 007, 4, 5, 66] : B,
    2 : C
  },
}")).
Eval vm_compute in ("<<<M3702>>>" ++ check (runes_of_ascii "packet A {
    match k as n {
        [""a"", 22] : B,
        2 : C,
    },
}")).
Eval vm_compute in ("<<<M4212>>>" ++ check (runes_of_ascii "

  //	t

options
{msg_type	=
// 50% %s
	  //
  ' '  ;
	}  
  // " ++ [128512]%N ++ runes_of_ascii " emoji")).
Eval vm_compute in ("<<<M3898>>>" ++ check (runes_of_ascii "MetaData _x {
    string x `// not a comment`,
    string i64_ `a\`,
}")).
Eval vm_compute in ("<<<M3407>>>" ++ check (runes_of_ascii "packet o {
// c
@tag( 4294967296 ) options1 @lengthOf( u8x ) `" ++ [233]%N ++ runes_of_ascii "` , }")).
Eval vm_compute in ("<<<M2903>>>" ++ check (runes_of_ascii "packet A {
  match k as n {
    [1, 22, ""c c""] : B
    2 : C
  },
}")).
Eval vm_compute in ("<<<M2895>>>" ++ check (runes_of_ascii "packet A {
  match k as n {
    [1, 22, 007] : B
    2 : C
  },
}")).
Eval vm_compute in ("<<<M1264>>>" ++ check (runes_of_ascii "MetaData x // @lengthOf(
{ u64 trueish // " ++ [27880; 37322]%N ++ runes_of_ascii "
`" ++ [28040; 24687; 31867; 22411]%N ++ runes_of_ascii "`
    ,
}
")).
Eval vm_compute in ("<<<M4283>>>" ++ check (runes_of_ascii "/// triple
root packet Foo {
    char[0] Z9_,
}// @lengthOf(")).
Eval vm_compute in ("<<<M2906>>>" ++ check (runes_of_ascii "packet A { Inner { match k as n { [1,22,007] : B, }, }, }")).
Eval vm_compute in ("<<<M875>>>" ++ check (runes_of_ascii "
MetaData zchar
    { char[] u `it's` /// triple
,
}
")).
Eval vm_compute in ("<<<M2304>>>" ++ check (runes_of_ascii "
MetaData Pad{
u32 u32 rootA `line1
line2` ,
    }
")).
Eval vm_compute in ("<<<M2342>>>" ++ check (runes_of_ascii "
MetaData Pad{
u32 rootA `line1
line2` " ++ [233]%N ++ runes_of_ascii " ,
    }
")).
Eval vm_compute in ("<<<M4490>>>" ++ check (runes_of_ascii "

  options

    {

    trueish  = uint8  }

")).
Eval vm_compute in ("<<<M204>>>" ++ check (runes_of_ascii "options{ charz =
    '\x00' ;float= ""it's"" }
")).
Eval vm_compute in ("<<<M1875>>>" ++ check (runes_of_ascii "packet	packetx { // trailing space 
x_y_z
{")).
Eval vm_compute in ("<<<M1870>>>" ++ check (runes_of_ascii "packet	packetx { // trailing space 
x_y_z")).
Eval vm_compute in ("<<<M2629>>>" ++ check (runes_of_ascii "packet A { match k as n { [1 2] : B }, }")).
Eval vm_compute in ("<<<M2579>>>" ++ check (runes_of_ascii "packet A { repeat u8 x @lengthOf(y), }")).
Eval vm_compute in ("<<<M4270>>>" ++ check (runes_of_ascii "

  MetaData
	M
{} // c
  options{ } ")).
Eval vm_compute in ("<<<M2623>>>" ++ check (runes_of_ascii "packet A { match k as n { 1 : B } }")).
Eval vm_compute in ("<<<M4428>>>" ++ check (runes_of_ascii "packet A {
    u8 x `
        `,
}")).
Eval vm_compute in ("<<<M2817>>>" ++ check (runes_of_ascii "u,#aoz$gE*) /0F8o%?""U,cJ}PDk=.ui")).
Eval vm_compute in ("<<<M3141>>>" ++ check (runes_of_ascii "packet A {
 u8 x `d" ++ [8232]%N ++ runes_of_ascii "`, // c" ++ [8232]%N ++ runes_of_ascii "
}")).
Eval vm_compute in ("<<<M2732>>>" ++ check ([65533; 65533; 65533]%N ++ runes_of_ascii "8[W" ++ [65533; 65533]%N ++ runes_of_ascii "j" ++ [5; 65533; 65533]%N ++ runes_of_ascii "a_" ++ [65533; 65533]%N ++ runes_of_ascii "`G" ++ [17; 1230; 26; 65533; 65533]%N ++ runes_of_ascii "DX" ++ [1982]%N ++ runes_of_ascii "n7")).
Eval vm_compute in ("<<<M1025>>>" ++ check (runes_of_ascii "packet/// triple
Z9_
{ }
")).
Eval vm_compute in ("<<<M2782>>>" ++ check (runes_of_ascii "zchar[ true ] } = ] i32 }")).
Eval vm_compute in ("<<<M1294>>>" ++ check (runes_of_ascii "
// `tick` ""quote"" 'q'
")).
Eval vm_compute in ("<<<M2869>>>" ++ check (runes_of_ascii "hJB-Ofx?}ANWKa1;@/3Du")).
Eval vm_compute in ("<<<M2371>>>" ++ check (runes_of_ascii "
packet MetaDataX
{")).
Eval vm_compute in ("<<<M3115>>>" ++ check (runes_of_ascii "// c" ++ [160]%N ++ runes_of_ascii "
packet A {
}")).
Eval vm_compute in ("<<<M3744>>>" ++ check (runes_of_ascii "MetaData Pad {
}//")).
Eval vm_compute in ("<<<M3157>>>" ++ check (runes_of_ascii "packet A {
}// c" ++ [11]%N)).
Eval vm_compute in ("<<<M2590>>>" ++ check (runes_of_ascii "packet A { x, }")).
Eval vm_compute in ("<<<M2787>>>" ++ check (runes_of_ascii "i64 '0' false")).
Eval vm_compute in ("<<<M4175>>>" ++ check (runes_of_ascii "options {
}")).
Eval vm_compute in ("<<<M2503>>>" ++ check (runes_of_ascii "@leftpad")).
Eval vm_compute in ("<<<M47>>>" ++ check (runes_of_ascii "
//	t
")).
Eval vm_compute in ("<<<M2470>>>" ++ check (runes_of_ascii "false")).
Eval vm_compute in ("<<<M1113>>>" ++ check (runes_of_ascii "


")).
Eval vm_compute in ("<<<M970>>>" ++ check (runes_of_ascii " //")).
Eval vm_compute in ("<<<M50>>>" ++ check (runes_of_ascii "

")).
Eval vm_compute in ("<<<M2538>>>" ++ check (runes_of_ascii "`")).
